(* Proofs about Model/Detect.v (C20). *)
From MV Require Import Base.Prelude Base.Facts Model.Footer Model.TimeIndex Model.Wal Model.Bincode Model.Toc Model.Detect.
From MV Require Import Proofs.FooterProofs Proofs.TocProofs.
Require Import ZifyBool ZifyNat ZifyN.
Local Open Scope N_scope.

(* ------------------------------------------------------------------ arithmetic / list facts *)
  Lemma validate_ok_range ctx file_len fr :
    validate_frame_bounds ctx file_len fr = Ok tt ->
    f_len fr = 0 \/ f_off fr + f_len fr <= file_len.
  Proof.
    unfold validate_frame_bounds. destruct ctx as [[wo ws] de].
    destruct (f_len fr =? 0) eqn:E0; [left; apply N.eqb_eq; exact E0|].
    destruct (MAX_FRAME_BYTES <? f_len fr); [discriminate|].
    destruct (2 ^ 64 <=? wo + ws); [discriminate|].
    destruct (f_off fr <? wo + ws); [discriminate|].
    destruct (2 ^ 64 <=? f_off fr + f_len fr); [discriminate|].
    destruct (de <? f_off fr + f_len fr); [discriminate|].
    destruct (file_len <? f_off fr + f_len fr) eqn:E; [discriminate|].
    intros _. right. apply N.ltb_ge in E. exact E.
  Qed.

  Lemma raw_slice_length (file : bytes) fr :
    f_len fr = 0 \/ f_off fr + f_len fr <= N.of_nat (length file) ->
    N.of_nat (length (slice file (N.to_nat (f_off fr)) (N.to_nat (f_len fr)))) = f_len fr.
  Proof.
    intros [E | E].
    - rewrite E. unfold slice. cbn [N.to_nat firstn length]. reflexivity.
    - rewrite slice_length by lia. lia.
  Qed.

  Lemma slice_before {A} (pre x : list A) off len :
    (off + len <= length pre)%nat -> slice (pre ++ x) off len = slice pre off len.
  Proof.
    intros Hle. unfold slice. rewrite skipn_app.
    replace (off - length pre)%nat with 0%nat by lia. cbn [skipn].
    rewrite firstn_app. rewrite skipn_length.
    replace (len - (length pre - off))%nat with 0%nat by lia. cbn [firstn]. apply app_nil_r.
  Qed.

  Lemma skipn_after {A} (pre mid post : list A) off :
    (length pre + length mid <= off)%nat ->
    skipn off (pre ++ mid ++ post) = skipn (off - length pre - length mid) post.
  Proof.
    intros Hle. rewrite skipn_app. rewrite (skipn_all2 pre) by lia. cbn [app].
    rewrite skipn_app. rewrite (skipn_all2 mid) by lia. reflexivity.
  Qed.

  Lemma slice_outside (pre mid mid' post : bytes) (r : N * N) :
    length mid' = length mid ->
    range_outside (N.of_nat (length pre)) (N.of_nat (length pre + length mid)) r = true ->
    slice (pre ++ mid' ++ post) (N.to_nat (fst r)) (N.to_nat (snd r)) =
    slice (pre ++ mid ++ post) (N.to_nat (fst r)) (N.to_nat (snd r)).
  Proof.
    intros Hl Ho. unfold range_outside in Ho. apply orb_true_iff in Ho. destruct Ho as [Ho | Ho].
    - apply N.leb_le in Ho. rewrite !slice_before by lia. reflexivity.
    - apply N.leb_le in Ho. unfold slice. rewrite !skipn_after by lia. rewrite Hl. reflexivity.
  Qed.

(* ------------------------------------------------------------------ hash guards *)
Section GuardProofs.
  Variable H : bytes -> bytes.

  Lemma guard_check_true c d : guard_check H c d = true <-> H c = d.
  Proof. unfold guard_check. apply bytes_eqb_spec. Qed.

  (* a fault that touches the content or the stored digest but not both (every single-byte
     flip; every zeroing or truncation that stays inside one of the two fields) *)
  Lemma hash_guard_single_field c d c' d' :
    guard_check H c d = true -> guard_check H c' d' = true ->
    (c' = c \/ d' = d) -> (H c' = H c -> c' = c) ->
    c' = c /\ d' = d.
  Proof.
    intros Hc Hc' Hone Hcf. apply guard_check_true in Hc, Hc'.
    destruct Hone as [-> | ->].
    - split; [reflexivity | congruence].
    - split; [apply Hcf; congruence | reflexivity].
  Qed.

  (* any fault, provided the new digest field is not, by accident, the digest of the new content *)
  Lemma hash_guard_general c d c' d' :
    guard_check H c d = true -> guard_check H c' d' = true ->
    (H c' = H c -> c' = c) -> (d' <> d -> H c' <> d') ->
    c' = c /\ d' = d.
  Proof.
    intros Hc Hc' Hcf Hnf. apply guard_check_true in Hc, Hc'.
    destruct (list_eq_dec N.eq_dec d' d) as [-> | Hne].
    - split; [apply Hcf; congruence | reflexivity].
    - exfalso. exact (Hnf Hne Hc').
  Qed.

  (* ---- read_toc *)
  Lemma read_toc_layout pre toc foot off t :
    N.of_nat (length pre) = off -> length foot = FOOTER_SIZE ->
    read_toc H (pre ++ toc ++ foot) off = Ok t ->
    t = toc /\ exists f, footer_decode foot = Some f /\ H toc = toc_hash f /\ N.of_nat (length toc) = toc_len f.
  Proof.
    intros Hoff Hfoot. unfold read_toc.
    destruct (N.of_nat (length (pre ++ toc ++ foot)) <? off); [discriminate|].
    destruct (MAX_INDEX_BYTES <? _); [discriminate|].
    destruct (_ <? N.of_nat FOOTER_SIZE); [discriminate|].
    assert (Hskip : skipn (N.to_nat off) (pre ++ toc ++ foot) = toc ++ foot).
    { rewrite <- Hoff, Nat2N.id. rewrite skipn_app, skipn_all, Nat.sub_diag. reflexivity. }
    rewrite Hskip.
    assert (Hfs : (length (toc ++ foot) - FOOTER_SIZE)%nat = length toc) by (rewrite app_length; lia).
    rewrite Hfs.
    rewrite skipn_app, skipn_all, Nat.sub_diag. cbn [skipn app].
    rewrite firstn_app, firstn_all, Nat.sub_diag. cbn [firstn]. rewrite app_nil_r.
    destruct (footer_decode foot) as [f|] eqn:Hdec; [|discriminate].
    destruct (negb (N.of_nat (length toc) =? toc_len f)) eqn:Hlen; [discriminate|].
    destruct (negb (hash_matches H f toc)) eqn:Hh; [discriminate|].
    intros E; inversion E; subst t. split; [reflexivity|].
    exists f. repeat split.
    - apply negb_false_iff in Hh. unfold hash_matches in Hh. apply bytes_eqb_spec in Hh. exact Hh.
    - apply negb_false_iff in Hlen. apply N.eqb_eq in Hlen. exact Hlen.
  Qed.

  (* the clean file: pre ++ toc ++ footer(f) with f describing toc.  A faulted file of the same
     layout in which the TOC bytes or the footer, but not both, were changed: read_toc answers
     Ok only with the original TOC bytes. *)
  Theorem read_toc_detects pre' toc toc' f foot' off t :
    (toc_len f < 2 ^ 64) -> (generation f < 2 ^ 64) -> length (toc_hash f) = 32%nat ->
    toc_hash f = H toc ->
    N.of_nat (length pre') = off -> length foot' = FOOTER_SIZE ->
    (toc' = toc \/ foot' = footer_encode f) ->
    (H toc' = H toc -> toc' = toc) ->
    read_toc H (pre' ++ toc' ++ foot') off = Ok t ->
    t = toc /\ toc' = toc.
  Proof.
    intros Hl Hg Hh Hsum Hoff Hfoot Hone Hcf Hr.
    destruct (read_toc_layout _ _ _ _ _ Hoff Hfoot Hr) as [-> [f' [Hdec [Hhash _]]]].
    destruct Hone as [-> | ->]; [split; reflexivity|].
    rewrite (footer_decode_encode f Hl Hg Hh) in Hdec. inversion Hdec; subst f'.
    assert (toc' = toc) by (apply Hcf; congruence). subst. split; reflexivity.
  Qed.

  (* any fault on TOC bytes + footer that keeps the layout, under the no-forgery hypothesis *)
  Theorem read_toc_detects_general pre' toc toc' f foot' off t :
    toc_hash f = H toc ->
    N.of_nat (length pre') = off -> length foot' = FOOTER_SIZE ->
    (H toc' = H toc -> toc' = toc) ->
    (forall f', footer_decode foot' = Some f' -> toc_hash f' <> toc_hash f -> H toc' <> toc_hash f') ->
    read_toc H (pre' ++ toc' ++ foot') off = Ok t ->
    t = toc.
  Proof.
    intros Hsum Hoff Hfoot Hcf Hnf Hr.
    destruct (read_toc_layout _ _ _ _ _ Hoff Hfoot Hr) as [-> [f' [Hdec [Hhash _]]]].
    destruct (list_eq_dec N.eq_dec (toc_hash f') (toc_hash f)) as [E | Hne].
    - apply Hcf. congruence.
    - exfalso. exact (Hnf f' Hdec Hne Hhash).
  Qed.

  (* ---- memories / mesh track *)
  Lemma load_track_ok_inv file off len sum b :
    load_track H file off len sum = Ok b -> b = slice file (N.to_nat off) (N.to_nat len) /\ H b = sum.
  Proof.
    unfold load_track. destruct (MAX_INDEX_BYTES <? len); [discriminate|].
    destruct (negb (Nat.eqb _ _)); [discriminate|].
    destruct (negb (guard_check H _ sum)) eqn:Hg; [discriminate|].
    intros E; inversion E; subst b. split; [reflexivity|].
    apply negb_false_iff in Hg. apply guard_check_true in Hg. exact Hg.
  Qed.

  Theorem load_track_detects file file' off len sum b b' :
    load_track H file off len sum = Ok b -> load_track H file' off len sum = Ok b' ->
    (H b' = H b -> b' = b) -> b' = b.
  Proof.
    intros H1 H2 Hcf. apply load_track_ok_inv in H1, H2. destruct H1 as [_ H1], H2 as [_ H2].
    apply Hcf. congruence.
  Qed.

  (* ---- frames *)
  (* what an Ok of the checked read means *)
  Lemma read_payload_ok_inv ctx file fr raw :
    read_frame_payload_bytes H ctx file fr = Ok raw ->
    validate_frame_bounds ctx (N.of_nat (length file)) fr = Ok tt /\
    raw = slice file (N.to_nat (f_off fr)) (N.to_nat (f_len fr)) /\
    (f_len fr = 0 \/ H raw = f_checksum fr).
  Proof.
    unfold read_frame_payload_bytes.
    destruct (validate_frame_bounds ctx _ fr) as [[]| |] eqn:Hv; [|discriminate|discriminate].
    pose proof (raw_slice_length file fr (validate_ok_range _ _ _ Hv)) as Hl.
    destruct (negb (Nat.eqb (length _) 0)) eqn:He; cbn [andb].
    - destruct (negb (guard_check H _ (f_checksum fr))) eqn:Hg; [discriminate|].
      intros E; inversion E; subst raw. repeat split.
      right. apply negb_false_iff in Hg. apply guard_check_true in Hg. exact Hg.
    - intros E; inversion E; subst raw. repeat split.
      left. apply negb_false_iff, Nat.eqb_eq in He. rewrite He in Hl. cbn in Hl. lia.
  Qed.

  (* THE payload theorem (code as of 55d5bb8): two files on which the stored bytes of a frame read
     without error hold the same stored bytes there -- for plain and zstd frames alike, since the
     comparison is on the stored bytes, before decoding *)
  Theorem payload_read_detects ctx file file' fr raw raw' :
    read_frame_payload_bytes H ctx file fr = Ok raw ->
    read_frame_payload_bytes H ctx file' fr = Ok raw' ->
    (H raw' = H raw -> raw' = raw) ->
    raw' = raw.
  Proof.
    intros H1 H2 Hcf. apply read_payload_ok_inv in H1, H2.
    destruct H1 as [_ [E1 [Z1 | S1]]], H2 as [_ [E2 [Z2 | S2]]].
    - subst. rewrite Z1. reflexivity.
    - subst. rewrite Z1. reflexivity.
    - subst. rewrite Z2. reflexivity.
    - apply Hcf. congruence.
  Qed.

  (* the checked read of a frame depends only on the file length, the bytes in the frame's window and the
     frame's TOC entry *)
  Theorem read_depends_on_window ctx (file file' : bytes) fr :
    length file' = length file ->
    slice file' (N.to_nat (f_off fr)) (N.to_nat (f_len fr)) = slice file (N.to_nat (f_off fr)) (N.to_nat (f_len fr)) ->
    read_frame_payload_bytes H ctx file' fr = read_frame_payload_bytes H ctx file fr.
  Proof. intros Hl Hs. unfold read_frame_payload_bytes. rewrite Hl, Hs. reflexivity. Qed.

  (* ... and not on what was read through the handle before: any two histories give the same answer *)
  Theorem handle_read_history_independent ctx file h1 h2 fr :
    snd (handle_read H ctx file h1 fr) = snd (handle_read H ctx file h2 fr) /\
    snd (handle_read H ctx file h1 fr) = read_frame_payload_bytes H ctx file fr.
  Proof. split; reflexivity. Qed.

  (* so a schedule's answers are the per-frame answers, whatever came before and in whatever order *)
  Theorem run_reads_pointwise ctx file sched : forall hist,
    run_reads H ctx file hist sched = map (read_frame_payload_bytes H ctx file) sched.
  Proof.
    induction sched as [|fr r IH]; intros hist; [reflexivity|].
    cbn [run_reads handle_read map]. rewrite IH. reflexivity.
  Qed.

  Corollary run_reads_answer_of_frame ctx file hist1 hist2 s1 s2 i j fr :
    nth_error s1 i = Some fr -> nth_error s2 j = Some fr ->
    nth_error (run_reads H ctx file hist1 s1) i = nth_error (run_reads H ctx file hist2 s2) j.
  Proof.
    intros H1 H2. rewrite !run_reads_pointwise.
    rewrite (map_nth_error _ _ _ H1), (map_nth_error _ _ _ H2). reflexivity.
  Qed.

  Variable unzstd : bytes -> option bytes.

  Theorem payload_detects ctx file file' fr raw raw' d' :
    read_frame_payload_bytes H ctx file fr = Ok raw ->
    read_frame_payload_bytes H ctx file' fr = Ok raw' ->
    (H raw' = H raw -> raw' = raw) ->
    frame_canonical_bytes H unzstd ctx file' fr = Ok d' ->
    frame_canonical_bytes H unzstd ctx file fr = Ok d'.
  Proof.
    intros H1 H2 Hcf Hd. pose proof (payload_read_detects _ _ _ _ _ _ H1 H2 Hcf) as E. subst raw'.
    unfold frame_canonical_bytes in *. rewrite H1. rewrite H2 in Hd. exact Hd.
  Qed.

  (* a changed non-empty payload is an error, not data (H collision-free on the two strings) *)
  Theorem payload_change_is_error ctx file file' fr raw :
    read_frame_payload_bytes H ctx file fr = Ok raw ->
    slice file' (N.to_nat (f_off fr)) (N.to_nat (f_len fr)) <> raw ->
    (H (slice file' (N.to_nat (f_off fr)) (N.to_nat (f_len fr))) = H raw ->
     slice file' (N.to_nat (f_off fr)) (N.to_nat (f_len fr)) = raw) ->
    forall d, frame_canonical_bytes H unzstd ctx file' fr <> Ok d.
  Proof.
    intros H1 Hne Hcf d Hd. unfold frame_canonical_bytes, decode_and_check in Hd.
    destruct (read_frame_payload_bytes H ctx file' fr) as [raw'| |] eqn:H2; try discriminate.
    pose proof (read_payload_ok_inv _ _ _ _ H2) as [_ [E2 _]].
    assert (raw' = raw) by (apply (payload_read_detects _ _ _ _ _ _ H1 H2); subst raw'; exact Hcf).
    subst. congruence.
  Qed.

  (* the checked read never serves what the unchecked one would not *)
  Theorem checked_refines ctx file fr d :
    frame_canonical_bytes H unzstd ctx file fr = Ok d -> frame_canonical_bytes_unchecked unzstd ctx file fr = Ok d.
  Proof.
    unfold frame_canonical_bytes, frame_canonical_bytes_unchecked, read_frame_payload_bytes, read_frame_payload_bytes_unchecked.
    destruct (validate_frame_bounds ctx _ fr); [|auto|auto].
    destruct (negb (Nat.eqb _ 0) && negb (guard_check H _ (f_checksum fr))); [discriminate|]. auto.
  Qed.

  (* ---- before 55d5bb8: whatever bytes lie in a plain frame's range were served *)
  Theorem unchecked_plain_payload_served ctx (file file' : bytes) fr :
    length file' = length file ->
    validate_frame_bounds ctx (N.of_nat (length file)) fr = Ok tt ->
    f_zstd fr = false -> (f_canon_len fr = Some (f_len fr) \/ f_canon_len fr = None) ->
    frame_canonical_bytes_unchecked unzstd ctx file' fr = Ok (slice file' (N.to_nat (f_off fr)) (N.to_nat (f_len fr))).
  Proof using Type.
    intros Hlen Hv Hz Hc. unfold frame_canonical_bytes_unchecked, read_frame_payload_bytes_unchecked. rewrite Hlen, Hv.
    unfold decode_and_check, decode_canonical. rewrite Hz. unfold check_canon_len.
    destruct Hc as [-> | ->]; [|reflexivity].
    rewrite raw_slice_length; [rewrite N.eqb_refl; reflexivity|].
    rewrite Hlen. apply (validate_ok_range _ _ _ Hv).
  Qed.

  (* ---- verify *)
  Lemma verify_passed_iff deep s :
    verify_overall deep s = Passed <-> forall c, In c (verify_checks deep s) -> c <> Failed.
  Proof.
    unfold verify_overall. destruct (existsb is_failed (verify_checks deep s)) eqn:E.
    - split; [discriminate|]. intros Hall. apply existsb_exists in E. destruct E as [c [Hin Hf]].
      destruct c; try discriminate. exfalso. exact (Hall Failed Hin eq_refl).
    - split; [|reflexivity]. intros _ c Hin ->.
      assert (existsb is_failed (verify_checks deep s) = true) by (apply existsb_exists; exists Failed; split; [exact Hin | reflexivity]).
      congruence.
  Qed.

  (* verify(deep) = Passed implies the FramePayloadChecksums check passed *)
  Lemma verify_deep_passed_payloads s : verify_overall true s = Passed -> v_payloads s = true.
  Proof.
    intros Hp. destruct (v_payloads s) eqn:E; [reflexivity|]. exfalso.
    apply (proj1 (verify_passed_iff true s) Hp Failed); [|reflexivity].
    unfold verify_checks. rewrite E. apply in_or_app. right. apply in_or_app. right.
    apply in_or_app. left. cbn. auto.
  Qed.

  Variable lex_ok vec_ok : bytes -> bool.

  (* verify(deep) = Passed on a (faulted) file: every active non-empty frame of the frame table reads
     there, and -- given it also reads on the clean file -- reads the committed data *)
  Theorem verify_detects file file' l fr raw :
    verify_overall true (vstate_of H lex_ok vec_ok file' l) = Passed ->
    In fr (l_frame_list l) -> f_active fr = true -> f_len fr <> 0 ->
    read_frame_payload_bytes H (l_ctx l) file fr = Ok raw ->
    (forall x, H x = H raw -> x = raw) ->
    read_frame_payload_bytes H (l_ctx l) file' fr = Ok raw /\
    frame_canonical_bytes H unzstd (l_ctx l) file' fr = frame_canonical_bytes H unzstd (l_ctx l) file fr.
  Proof.
    intros Hp Hin Ha Hl H1 Hcf. apply verify_deep_passed_payloads in Hp. cbn [vstate_of v_payloads] in Hp.
    rewrite forallb_forall in Hp.
    assert (Hc : In fr (filter checked_frame (l_frame_list l))).
    { apply filter_In. split; [exact Hin|]. unfold checked_frame. rewrite Ha. cbn [andb].
      apply negb_true_iff. apply N.eqb_neq. exact Hl. }
    specialize (Hp fr Hc). unfold payload_reads in Hp.
    destruct (read_frame_payload_bytes H (l_ctx l) file' fr) as [raw'| |] eqn:H2; try discriminate.
    assert (raw' = raw) by (apply (payload_read_detects _ _ _ _ _ _ H1 H2); intros; apply Hcf; assumption).
    subst raw'. split; [reflexivity|].
    unfold frame_canonical_bytes. rewrite H1, H2. reflexivity.
  Qed.

  Lemma forallb_ext_in {A} (f g : A -> bool) l : (forall x, In x l -> f x = g x) -> forallb f l = forallb g l.
  Proof.
    induction l as [|a l IH]; intros He; [reflexivity|]. cbn [forallb].
    rewrite (He a (or_introl eq_refl)), IH; [reflexivity|]. intros x Hx. apply He. right. exact Hx.
  Qed.

  (* verify's whole input is the same on two files that differ only inside a byte range that lies
     outside the log region, the indexes and the payloads of the active frames (e.g. the payload of a
     deleted / superseded frame, unreferenced bytes, log slack) *)
  Theorem vstate_blind (pre mid mid' post : bytes) l :
    length mid' = length mid ->
    layout_outside l (N.of_nat (length pre)) (N.of_nat (length pre + length mid)) = true ->
    vstate_of H lex_ok vec_ok (pre ++ mid' ++ post) l = vstate_of H lex_ok vec_ok (pre ++ mid ++ post) l.
  Proof using Type.
    clear unzstd.
    intros Hl Ho. unfold layout_outside in Ho.
    apply andb_true_iff in Ho. destruct Ho as [Ho Hfr].
    apply andb_true_iff in Ho. destruct Ho as [Ho Hvec].
    apply andb_true_iff in Ho. destruct Ho as [Ho Hlex].
    apply andb_true_iff in Ho. destruct Ho as [Hwal Htime].
    unfold vstate_of. f_equal.
    - destruct (l_time l) as [[[off len] count]|]; [|reflexivity].
      apply N.leb_le in Htime. unfold read_track. rewrite !skipn_after by lia. rewrite Hl. reflexivity.
    - destruct (l_lex l) as [[off len]|]; [|reflexivity].
      pose proof (slice_outside pre mid mid' post (off, len) Hl Hlex) as E. cbn [fst snd] in E. rewrite E. reflexivity.
    - destruct (l_vec l) as [[off len]|]; [|reflexivity].
      pose proof (slice_outside pre mid mid' post (off, len) Hl Hvec) as E. cbn [fst snd] in E. rewrite E. reflexivity.
    - pose proof (slice_outside pre mid mid' post (l_wal_off l, l_wal_size l) Hl Hwal) as E. cbn [fst snd] in E. rewrite E. reflexivity.
    - apply forallb_ext_in. intros fr Hin. rewrite forallb_forall in Hfr. specialize (Hfr fr Hin).
      unfold payload_reads, read_frame_payload_bytes.
      pose proof (slice_outside pre mid mid' post (f_off fr, f_len fr) Hl Hfr) as E. cbn [fst snd] in E. rewrite E.
      replace (length (pre ++ mid' ++ post)) with (length (pre ++ mid ++ post)) by (rewrite !app_length; lia).
      reflexivity.
  Qed.

  Corollary verify_blind (pre mid mid' post : bytes) l deep :
    length mid' = length mid ->
    layout_outside l (N.of_nat (length pre)) (N.of_nat (length pre + length mid)) = true ->
    verify_overall deep (vstate_of H lex_ok vec_ok (pre ++ mid' ++ post) l) =
    verify_overall deep (vstate_of H lex_ok vec_ok (pre ++ mid ++ post) l).
  Proof using Type. intros Hl Ho. rewrite (vstate_blind _ _ _ _ _ Hl Ho). reflexivity. Qed.

  (* ---- the end of open_locked *)
  Theorem final_check_no_restamp t : open_final_check H t None = verify_checksum H t.
  Proof. unfold open_final_check. destruct (verify_checksum H t); reflexivity. Qed.

  Theorem final_check_defeated t l2 : length l2 = 16%nat -> open_final_check H t (Some (VList l2)) = true.
  Proof.
    intros Hl. unfold open_final_check. destruct (verify_checksum H t); [reflexivity|].
    apply verify_checksum_stamp. exact Hl.
  Qed.
End GuardProofs.

(* ------------------------------------------------------------------ the table *)
Lemma table_outside_known c k o : known_class c = false -> In o (table c k) -> silent o = false.
Proof.
  destruct c; cbn [known_class]; try discriminate; intros _; destruct k; cbn [table In];
    intros Hin; repeat (destruct Hin as [<- | Hin]; [reflexivity|]); destruct Hin.
Qed.

Lemma table_known_silent c : known_class c = true -> exists o, In o (table c Flip) /\ silent o = true.
Proof.
  destruct c; cbn [known_class]; try discriminate; intros _;
    first [ exists (VDiff, VDiff, 0); split; [cbn; tauto | reflexivity]
          | exists (VDiff, VDiff, 1); split; [cbn; tauto | reflexivity]
          | exists (VDiff, VSame, 1); split; [cbn; tauto | reflexivity]
          | exists (VDiff, VError, 2); split; [cbn; tauto | reflexivity] ].
Qed.

(* classes nothing reads: the table predicts "all reads equal, verify Passed" and nothing else *)
Lemma table_not_read c : guard_of c = GNotRead -> table c Flip = [S3] /\ table c Zero = [S3].
Proof. destruct c; cbn [guard_of]; try discriminate; intros _; split; reflexivity. Qed.

(* truncation anywhere before the end of the footer: no observation with a successful read-only open *)
Lemma table_trunc_ro_error c o : c <> PastFooter -> In o (table c Trunc) -> snd (fst o) = VError.
Proof.
  intros Hc. destruct c; try congruence; cbn [table In]; intros Hin;
    repeat (destruct Hin as [<- | Hin]; [reflexivity|]); destruct Hin.
Qed.

(* a changed payload of an active frame: no predicted observation has verify(deep) = Passed or a successful read *)
Lemma table_active_payload_detected c k o :
  (c = PayPlain \/ c = PayZstd) -> (k = Flip \/ k = Zero) -> In o (table c k) -> o = (VError, VError, 1).
Proof.
  intros [-> | ->] [-> | ->]; cbn [table In]; intros [<- | []]; reflexivity.
Qed.

(* ... and for a chunk of a chunked document verify(deep) is never Passed either *)
Lemma table_chunk_payload_verify_fails k o :
  (k = Flip \/ k = Zero) -> In o (table PayChunk k) -> snd o = 1%N.
Proof. intros [-> | ->]; cbn [table In]; intros [<- | [<- | []]]; reflexivity. Qed.
