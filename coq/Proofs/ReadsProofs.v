(* Proofs for C08 over Model/Reads.v (index sets and read paths) on top of Model/Store.v. *)
From MV Require Import Base.Prelude Base.Facts Model.Store Model.StoreSpec Proofs.StoreProofs Model.Reads.
Require Import ZifyBool ZifyNat ZifyN.
Local Open Scope N_scope.

(* ================= 1. the ten inheritance rules ================= *)
Lemma or_else_spec {A} (a b : option A) : (a = None -> or_else a b = b) /\ (forall x, a = Some x -> or_else a b = Some x).
Proof. split; [intros ->; reflexivity|intros x ->; reflexivity]. Qed.
Lemma or_list_spec {A} (a b : list A) : (a = [] -> or_list a b = b) /\ (a <> [] -> or_list a b = a).
Proof. split; [intros ->; reflexivity|]. destruct a; [congruence|reflexivity]. Qed.

Lemma inherit_unset opts old :
  (o_ts opts = None -> o_ts (inherit opts old) = o_ts old) /\
  (o_track opts = None -> o_track (inherit opts old) = o_track old) /\
  (o_kind opts = None -> o_kind (inherit opts old) = o_kind old) /\
  (o_uri opts = None -> o_uri (inherit opts old) = o_uri old) /\
  (o_title opts = None -> o_title (inherit opts old) = o_title old) /\
  (o_meta opts = None -> o_meta (inherit opts old) = o_meta old) /\
  (o_stext opts = None -> o_stext (inherit opts old) = o_stext old) /\
  (o_tags opts = [] -> o_tags (inherit opts old) = o_tags old) /\
  (o_labels opts = [] -> o_labels (inherit opts old) = o_labels old) /\
  (o_extra opts = [] -> o_extra (inherit opts old) = o_extra old).
Proof. unfold inherit; cbn. repeat split; intros ->; reflexivity. Qed.

Lemma inherit_set opts old :
  (forall x, o_ts opts = Some x -> o_ts (inherit opts old) = Some x) /\
  (forall x, o_track opts = Some x -> o_track (inherit opts old) = Some x) /\
  (forall x, o_kind opts = Some x -> o_kind (inherit opts old) = Some x) /\
  (forall x, o_uri opts = Some x -> o_uri (inherit opts old) = Some x) /\
  (forall x, o_title opts = Some x -> o_title (inherit opts old) = Some x) /\
  (forall x, o_meta opts = Some x -> o_meta (inherit opts old) = Some x) /\
  (forall x, o_stext opts = Some x -> o_stext (inherit opts old) = Some x) /\
  (o_tags opts <> [] -> o_tags (inherit opts old) = o_tags opts) /\
  (o_labels opts <> [] -> o_labels (inherit opts old) = o_labels opts) /\
  (o_extra opts <> [] -> o_extra (inherit opts old) = o_extra opts).
Proof.
  unfold inherit; cbn. repeat split; try (intros x ->; reflexivity); intros H; apply or_list_spec; exact H.
Qed.

(* ================= 2. frame_by_uri ================= *)
Lemma uri_eqb_eq a b : uri_eqb a b = true <-> a = b.
Proof.
  destruct a, b; cbn [uri_eqb]; try (split; congruence).
  - rewrite N.eqb_eq. split; congruence.
  - rewrite N.eqb_eq. split; congruence.
  - rewrite andb_true_iff, !N.eqb_eq. split; [intros [-> ->]; reflexivity|intros E; inversion E; auto].
Qed.

Lemma find_first {A} (p : A -> bool) l x :
  find p l = Some x -> exists l1 l2, l = l1 ++ x :: l2 /\ p x = true /\ forall y, In y l1 -> p y = false.
Proof.
  induction l as [|a l IH]; cbn [find]; [discriminate|].
  destruct (p a) eqn:Ea.
  - intros E; inversion E; subst. exists [], l. repeat split; auto. intros y [].
  - intros E. destruct (IH E) as (l1 & l2 & -> & Hx & Hn). exists (a :: l1), l2. repeat split; auto.
    intros y [<-|Hy]; auto.
Qed.

Lemma find_none_all {A} (p : A -> bool) l : find p l = None -> forall y, In y l -> p y = false.
Proof. intros H y Hy. apply (find_none p l H y Hy). Qed.

Lemma find_rev_last {A} (p : A -> bool) l x :
  find p (rev l) = Some x -> exists l1 l2, l = l1 ++ x :: l2 /\ p x = true /\ forall y, In y l2 -> p y = false.
Proof.
  intros H. destruct (find_first p (rev l) x H) as (a & b & E & Hx & Hn).
  exists (rev b), (rev a). repeat split; auto.
  - rewrite <- (rev_involutive l), E, rev_app_distr. cbn [rev]. rewrite <- app_assoc. reflexivity.
  - intros y Hy. apply Hn. apply in_rev. exact Hy.
Qed.

Definition has_uri (u : uri) (f : frame) : Prop := f_uri f = u.

(* exact specification of frame_by_uri: the LAST active frame with that uri; if no frame with that uri
   is active, the last frame of any status with it; None iff no frame carries the uri *)
Theorem frame_by_uri_spec frames u :
  match frame_by_uri frames u with
  | Some g =>
      exists l1 l2, frames = l1 ++ g :: l2 /\ f_uri g = u /\
        ((f_status g = 0 /\ forall y, In y l2 -> f_uri y = u -> f_status y <> 0) \/
         (f_status g <> 0 /\ (forall y, In y frames -> f_uri y = u -> f_status y <> 0) /\ forall y, In y l2 -> f_uri y <> u))
  | None => forall y, In y frames -> f_uri y <> u
  end.
Proof.
  unfold frame_by_uri.
  destruct (find (fun f => uri_eqb (f_uri f) u && (f_status f =? 0)) (rev frames)) as [g|] eqn:E1.
  - destruct (find_rev_last _ _ _ E1) as (l1 & l2 & -> & Hg & Hn).
    apply andb_true_iff in Hg as [Hu Hs]. apply uri_eqb_eq in Hu. apply N.eqb_eq in Hs.
    exists l1, l2. repeat split; auto. left. split; [exact Hs|].
    intros y Hy Huy Hsy. specialize (Hn y Hy). rewrite (proj2 (uri_eqb_eq _ _) Huy) in Hn. cbn [andb] in Hn.
    apply N.eqb_neq in Hn. congruence.
  - assert (Hna : forall y, In y frames -> f_uri y = u -> f_status y <> 0).
    { intros y Hy Huy Hsy. pose proof (find_none_all _ _ E1 y (proj1 (in_rev _ _) Hy)) as Hn. cbn beta in Hn.
      rewrite (proj2 (uri_eqb_eq _ _) Huy) in Hn. cbn [andb] in Hn. apply N.eqb_neq in Hn. congruence. }
    destruct (find (fun f => uri_eqb (f_uri f) u) (rev frames)) as [g|] eqn:E2.
    + destruct (find_rev_last _ _ _ E2) as (l1 & l2 & E & Hg & Hn). apply uri_eqb_eq in Hg.
      exists l1, l2. repeat split; auto. right. split; [|split].
      * apply Hna; [rewrite E; apply in_or_app; right; left; reflexivity|exact Hg].
      * exact Hna.
      * intros y Hy Huy. specialize (Hn y Hy). rewrite (proj2 (uri_eqb_eq _ _) Huy) in Hn. discriminate.
    + intros y Hy Huy. pose proof (find_none_all _ _ E2 y (proj1 (in_rev _ _) Hy)) as Hn. cbn beta in Hn.
      rewrite (proj2 (uri_eqb_eq _ _) Huy) in Hn. discriminate.
Qed.

(* the newest version wins: a frame appended last and Active is what its uri resolves to *)
Lemma frame_by_uri_last frames g : f_status g = 0 -> frame_by_uri (frames ++ [g]) (f_uri g) = Some g.
Proof.
  intros Hs. unfold frame_by_uri. rewrite rev_app_distr. cbn [rev app find].
  rewrite (proj2 (uri_eqb_eq _ _) eq_refl), Hs. reflexivity.
Qed.

(* ================= 3. get / is_active ================= *)
Lemma get_some_lt frames i f : get frames i = Some f -> i < len frames.
Proof. unfold get, len. intros H. assert (nth_error frames (N.to_nat i) <> None) as Hn by congruence. apply nth_error_Some in Hn. lia. Qed.

Lemma is_active_get frames i : is_active frames i = true <-> exists f, get frames i = Some f /\ f_status f = 0.
Proof.
  unfold is_active. destruct (get frames i) as [f|].
  - rewrite N.eqb_eq. split; [intros H; exists f; auto|intros (g & E & H); inversion E; subst; exact H].
  - split; [discriminate|intros (g & E & _); discriminate].
Qed.

Lemma is_active_lt frames i : is_active frames i = true -> i < len frames.
Proof. intros H. apply is_active_get in H as (f & E & _). eapply get_some_lt; eauto. Qed.

(* ================= 4. timeline returns active frames only, whatever the time index holds ================= *)
Theorem timeline_active frames tx keep reverse limit id kids :
  In (id, kids) (timeline frames tx keep reverse limit) ->
  (exists e f, get frames e = Some f /\ f_status f = 0 /\ f_id f = id) /\
  (forall k, In k kids -> exists c, In c frames /\ f_id c = k /\ f_status c = 0 /\ f_parent c = Some id).
Proof.
  unfold timeline. intros H. apply in_flat_map in H as (e & _ & He).
  destruct (get frames e) as [f|] eqn:Eg; [|destruct He].
  destruct (f_status f =? 0) eqn:Es; [|destruct He]. apply N.eqb_eq in Es.
  destruct He as [He|[]]. inversion He; subst. split.
  - exists e, f. auto.
  - intros k Hk. apply in_map_iff in Hk as (c & <- & Hc). apply filter_In in Hc as [Hc1 Hc2].
    apply andb_true_iff in Hc2 as [Hs Hp]. apply N.eqb_eq in Hs.
    exists c. repeat split; auto. unfold opt_eqb in Hp. destruct (f_parent c) as [p|]; [|discriminate].
    apply N.eqb_eq in Hp. congruence.
Qed.

(* ================= 5. the search engines return members of their index sets ================= *)
Section EngineFacts.
  Variable query : Type.
  Variable engine_search : list N -> query -> list N.
  Variable post_hit : frame -> query -> bool.
  Variable vec_rank : list (N * N) -> query -> nat -> list N.
  Variable cutoff : list N -> nat.
  Variable fuse : list N -> list N.
  Hypothesis engine_sound : forall docs q i, In i (engine_search docs q) -> In i docs.
  Hypothesis vec_sound : forall vx q n i, In i (vec_rank vx q n) -> In i (map fst vx).
  Hypothesis fuse_sound : forall l i, In i (fuse l) -> In i l.

  Lemma search_in frames lx q i : In i (search query engine_search post_hit frames lx q) -> In i lx /\ i < len frames.
  Proof.
    unfold search. intros H. apply in_flat_map in H as (j & Hj & H).
    destruct (get frames j) as [f|] eqn:Eg; [|destruct H]. destruct (post_hit f q); [|destruct H].
    destruct H as [<-|[]]. split; [eapply engine_sound; eauto|eapply get_some_lt; eauto].
  Qed.

  Lemma search_vec_in vx q n i : In i (search_vec query vec_rank vx q n) -> In i (map fst vx).
  Proof. apply vec_sound. Qed.

  Lemma firstn_in {A} n (l : list A) x : In x (firstn n l) -> In x l.
  Proof.
    revert l; induction n as [|n IH]; intros l Hx; destruct l as [|a l]; cbn [firstn] in Hx; try (destruct Hx; fail).
    destruct Hx as [->|Hx]; [left; reflexivity|right; auto].
  Qed.

  Lemma vec_search_with_embedding_in frames vx q k i :
    In i (vec_search_with_embedding query post_hit vec_rank frames vx q k) -> In i (map fst vx).
  Proof.
    unfold vec_search_with_embedding. intros H. apply firstn_in in H. apply in_flat_map in H as (j & Hj & H).
    destruct (get frames j) as [f|]; [|destruct H]. destruct (post_hit f q); [|destruct H].
    destruct H as [<-|[]]. eapply vec_sound; eauto.
  Qed.

  Lemma search_adaptive_in frames vx q k i :
    In i (search_adaptive query post_hit vec_rank cutoff frames vx q k) -> In i (map fst vx).
  Proof. unfold search_adaptive. intros H. apply firstn_in in H. eapply vec_search_with_embedding_in; eauto. Qed.

  (* every frame id an ask response names comes from the engine's documents, the vector index, or is an
     active frame found by the timeline *)
  Lemma ask_in frames lx vx tx qs vq k i :
    In i (ask query engine_search post_hit vec_rank cutoff fuse frames lx vx tx qs vq k) ->
    In i lx \/ In i (map fst vx) \/ exists c, In c frames /\ f_id c = i /\ f_status c = 0.
  Proof.
    unfold ask. intros H. apply fuse_sound in H. apply in_app_or in H as [H|H].
    - left. apply in_flat_map in H as (q & _ & H). apply search_in in H. tauto.
    - apply in_app_or in H as [H|H].
      + right; right. apply in_flat_map in H as ([id kids] & He & H).
        apply timeline_active in He as [(e & f & Eg & Es & Ei) Hk]. cbn [fst snd] in H. destruct H as [<-|H].
        * exists f. repeat split; auto. unfold get in Eg. eapply nth_error_In; eauto.
        * destruct (Hk _ H) as (c & Hc & Hi & Hs & _). exists c. auto.
      + right; left. apply in_app_or in H as [H|H]; [eapply vec_search_with_embedding_in|eapply search_adaptive_in]; eauto.
  Qed.
End EngineFacts.

(* ================= 6. statuses under apply_records ================= *)
Definition sts (l : list frame) : list N := map f_status l.

Lemma map_update_nth_same {A B} (h : A -> B) (g : A -> A) n l :
  (forall x, h (g x) = h x) -> map h (update_nth n g l) = map h l.
Proof.
  intros Hg. revert n; induction l as [|x l IH]; intros [|n]; cbn [update_nth map]; try reflexivity.
  - rewrite Hg. reflexivity.
  - rewrite IH. reflexivity.
Qed.

Lemma nth_error_map' {A B} (h : A -> B) l i : nth_error (map h l) i = option_map h (nth_error l i).
Proof. revert i; induction l as [|x l IH]; intros [|i]; cbn [map nth_error option_map]; auto. Qed.

Lemma is_active_sts frames i :
  is_active frames i = match nth_error (sts frames) (N.to_nat i) with Some s => s =? 0 | None => false end.
Proof. unfold is_active, get, sts. rewrite nth_error_map'. destruct (nth_error frames (N.to_nat i)); reflexivity. Qed.

Lemma is_active_sts_eq a b i : sts a = sts b -> is_active a i = is_active b i.
Proof. intros E. rewrite !is_active_sts, E. reflexivity. Qed.

Lemma sts_length l : length (sts l) = length l.
Proof. apply map_length. Qed.

Lemma resolve_orphans_sts fr ins : sts (resolve_orphans fr ins) = sts fr.
Proof.
  unfold resolve_orphans.
  assert (G : forall acc, sts (fold_left (fun fr0 id =>
               match get fr id with
               | Some f => if (f_role f =? 1) && (match f_parent f with None => true | Some _ => false end)
                           then match orphan_parent fr (N.to_nat id) id with
                                | Some p => update_nth (N.to_nat id) (fun g => set_parent g (Some p)) fr0
                                | None => fr0
                                end
                           else fr0
               | None => fr0
               end) ins acc) = sts acc).
  { induction ins as [|id ins IH]; intros acc; cbn [fold_left]; [reflexivity|].
    rewrite IH. destruct (get fr id) as [f|]; [|reflexivity].
    destruct ((f_role f =? 1) && _); [|reflexivity].
    destruct (orphan_parent fr (N.to_nat id) id); [|reflexivity].
    unfold sts. apply map_update_nth_same. intros x. reflexivity. }
  apply G.
Qed.

Lemma view_sts b :
  sts (view b) = sts (st_frames (fold_left apply_entry (pending b) (committed b, [], []))).
Proof.
  unfold view, apply_records, st_frames.
  destruct (fold_left apply_entry (pending b) (committed b, [], [])) as [[fr sm] ins]. cbn [fst].
  apply resolve_orphans_sts.
Qed.

Lemma view_length b :
  length (view b) = length (st_frames (fold_left apply_entry (pending b) (committed b, [], []))).
Proof. rewrite <- !sts_length, view_sts. reflexivity. Qed.

Lemma sts_update_status n st by_ l i :
  i <> n -> nth_error (sts (update_nth n (fun g => set_status g st by_) l)) i = nth_error (sts l) i.
Proof.
  intros Hi. unfold sts. rewrite !nth_error_map', nth_error_update_nth.
  destruct (Nat.eqb i n) eqn:E; [apply Nat.eqb_eq in E; congruence|reflexivity].
Qed.

Lemma removed_targets_cons se p : removed_targets (se :: p) = removed_of (snd se) ++ removed_targets p.
Proof. reflexivity. Qed.
Lemma removed_targets_app p q : removed_targets (p ++ q) = removed_targets p ++ removed_targets q.
Proof. unfold removed_targets. apply flat_map_app. Qed.

(* frames inserted by a batch stay Active through the batch when every target of the batch is older *)
Lemma fold_new_active p : forall st n0,
  Forall (fun t => (N.to_nat t < n0)%nat) (removed_targets p) ->
  (n0 <= length (st_frames st))%nat ->
  (forall i, (n0 <= i)%nat -> (i < length (st_frames st))%nat -> nth_error (sts (st_frames st)) i = Some 0) ->
  (n0 <= length (st_frames (fold_left apply_entry p st)))%nat /\
  (forall i, (n0 <= i)%nat -> (i < length (st_frames (fold_left apply_entry p st)))%nat ->
             nth_error (sts (st_frames (fold_left apply_entry p st))) i = Some 0).
Proof.
  induction p as [|[sq e] p IH]; intros st n0 HT Hlen Hact; cbn [fold_left]; [split; assumption|].
  rewrite removed_targets_cons in HT. cbn [snd] in HT. apply Forall_app in HT as [HT1 HT2].
  apply IH; [exact HT2| |]; destruct st as [[fr sm] ins]; unfold st_frames in *; cbn [fst] in *.
  - destruct e as [u tag role man sup reuse ps|t|]; cbn [apply_entry fst]; [|rewrite update_nth_length; exact Hlen|exact Hlen].
    rewrite app_length. destruct sup; [rewrite update_nth_length|]; lia.
  - destruct e as [u tag role man sup reuse ps|t|]; cbn [apply_entry fst].
    + intros i Hi1 Hi2. rewrite app_length in Hi2. cbn [length] in Hi2.
      set (fr1 := match sup with Some p0 => update_nth (N.to_nat p0) (fun g => set_status g 1 (Some (len fr))) fr | None => fr end) in *.
      assert (L1 : length fr1 = length fr) by (unfold fr1; destruct sup; [apply update_nth_length|reflexivity]).
      unfold sts. rewrite map_app. fold (sts fr1).
      destruct (Nat.eq_dec i (length fr1)) as [->|Hne].
      * rewrite nth_error_app2 by (rewrite sts_length; lia). rewrite sts_length, Nat.sub_diag. reflexivity.
      * rewrite nth_error_app1 by (rewrite sts_length; lia).
        unfold fr1. destruct sup as [p0|]; [|apply Hact; lia].
        cbn [removed_of] in HT1. inversion HT1 as [|? ? Hp0 _]; subst.
        rewrite sts_update_status by lia. apply Hact; lia.
    + intros i Hi1 Hi2. rewrite update_nth_length in Hi2. cbn [removed_of] in HT1. inversion HT1 as [|? ? Ht _]; subst.
      rewrite sts_update_status by lia. apply Hact; assumption.
    + exact Hact.
Qed.

Definition TargetsOK (b : store) : Prop :=
  Forall (fun t => t < len (committed b)) (removed_targets (pending b)).

Lemma view_new_active b i :
  TargetsOK b -> len (committed b) <= i -> i < len (view b) -> is_active (view b) i = true.
Proof.
  intros HT H1 H2. rewrite is_active_sts, view_sts. unfold len in *. rewrite view_length in H2.
  destruct (fold_new_active (pending b) (committed b, [], []) (length (committed b))) as [_ HA].
  - eapply Forall_impl; [|exact HT]. intros t Ht. cbn beta in Ht. unfold len in Ht. lia.
  - unfold st_frames. cbn [fst]. lia.
  - unfold st_frames. cbn [fst]. intros j Hj1 Hj2. lia.
  - rewrite HA by lia. reflexivity.
Qed.

Lemma fold_lex_only p : forall st, (forall se, In se p -> frame_record (snd se) = false) -> fold_left apply_entry p st = st.
Proof.
  induction p as [|[sq e] p IH]; intros st H; cbn [fold_left]; [reflexivity|].
  assert (He : frame_record e = false) by (apply (H (sq, e)); left; reflexivity).
  destruct e; try discriminate. destruct st as [[fr sm] ins]. cbn [apply_entry]. apply IH. intros se Hse. apply H. right; exact Hse.
Qed.

Lemma existsb_false_all {A} (h : A -> bool) l : existsb h l = false -> forall x, In x l -> h x = false.
Proof.
  induction l as [|a l IH]; cbn [existsb]; intros H x []; apply orb_false_iff in H as [H1 H2]; [subst; exact H1|apply IH; assumption].
Qed.

Lemma view_no_frame_records b : delta_nonempty (pending b) = false -> view b = committed b.
Proof.
  intros H. unfold view, apply_records. rewrite fold_lex_only.
  - reflexivity.
  - intros se Hse. apply (existsb_false_all _ _ H se Hse).
Qed.

Lemma in_ids_from i s n : In i (ids_from s n) <-> s <= i /\ i < s + N.of_nat n.
Proof.
  revert s; induction n as [|n IH]; intros s; cbn [ids_from In].
  - split; [intros []|lia].
  - rewrite IH. lia.
Qed.

(* ================= 7. the index invariant ================= *)
(* every member of the time index and of the vector index is an Active committed frame; so is every
   engine document unless an instant-indexed put is waiting for its commit (tdirty), in which case a
   frame record is pending and the next commit rebuilds the engine from the Active frames *)
Definition IxInv (r : rstore) : Prop :=
  TargetsOK (base r) /\
  (forall i, In i (tix r) -> is_active (committed (base r)) i = true /\ has_role (committed (base r)) 0 i = true) /\
  (forall ie, In ie (vec r) -> is_active (committed (base r)) (fst ie) = true) /\
  (tdirty r = false -> forall i, In i (lex r) -> is_active (committed (base r)) i = true) /\
  (tdirty r = true -> delta_nonempty (pending (base r)) = true).

Lemma IxInv0 : IxInv rstore0.
Proof.
  unfold IxInv, TargetsOK. cbn [rstore0 base tix vec lex tdirty store0 committed pending removed_targets flat_map].
  split; [constructor|]. split; [intros i []|]. split; [intros ie []|]. split; [intros _ i []|discriminate].
Qed.

Lemma lex_full_active frames al i : In i (lex_full frames al) -> is_active frames i = true.
Proof. unfold lex_full. intros H. apply filter_In in H as [_ H]. apply andb_true_iff in H. tauto. Qed.
Lemma tix_full_active frames i : In i (tix_full frames) -> is_active frames i = true /\ has_role frames 0 i = true.
Proof. unfold tix_full. intros H. apply filter_In in H as [_ H]. apply andb_true_iff in H. tauto. Qed.

Lemma sync_inv r extra : IxInv r -> IxInv (sync r extra).
Proof.
  intros (HT & Htix & Hvec & Hlex & Hdirty). unfold sync.
  destruct (delta_nonempty (pending (base r))) eqn:Ed; cbn [negb].
  - (* rebuild_indexes *)
    unfold IxInv. cbn [base tix vec lex tdirty]. unfold do_commit at 1 2 3 4 5. cbn [committed pending].
    split; [constructor|]. split; [|split; [|split; [|discriminate]]].
    + intros i Hi. apply tix_full_active in Hi. exact Hi.
    + intros ie Hie. destruct (vec_on r); [|destruct Hie].
      apply in_app_or in Hie as [Hie|Hie].
      * apply filter_In in Hie. tauto.
      * apply in_flat_map in Hie as (j & Hj & Hie).
        destruct (a_emb (attr_of (attrs r ++ pattrs r) j)); [|destruct Hie]. destruct Hie as [<-|[]]. cbn [fst].
        apply in_ids_from in Hj as [Hj1 Hj2]. apply view_new_active; [exact HT|exact Hj1|].
        unfold len in *. lia.
    + intros _ i Hi. eapply lex_full_active; eauto.
  - (* nothing but lex records: the table does not change, the engine is flushed as it is *)
    pose proof (view_no_frame_records _ Ed) as HV.
    unfold IxInv. cbn [base tix vec lex tdirty]. unfold do_commit at 1 2 3 4 5. cbn [committed pending]. rewrite HV.
    split; [constructor|]. split; [exact Htix|]. split; [exact Hvec|]. split; [|discriminate].
    intros _. apply Hlex. destruct (tdirty r); [|reflexivity]. specialize (Hdirty eq_refl). congruence.
Qed.

Lemma with_auto_inv r auto : IxInv r -> IxInv (with_auto r auto).
Proof. destruct auto; cbn [with_auto]; [apply sync_inv|auto]. Qed.

Lemma delta_nonempty_app p q : delta_nonempty (p ++ q) = delta_nonempty p || delta_nonempty q.
Proof. unfold delta_nonempty. apply existsb_app. Qed.

Lemma chunk_entries_removed n : forall fs ps uk tag i, removed_targets (chunk_entries fs ps uk tag i n) = [].
Proof. induction n as [|n IH]; intros; cbn [chunk_entries]; [reflexivity|]. rewrite removed_targets_cons, IH. reflexivity. Qed.

(* what the three mutating calls do to the store when no automatic commit follows *)
Lemma put_base b uk tag n :
  let b1 := fst (sstep b (OPut uk tag n 0 None)) in
  committed b1 = committed b /\ removed_targets (pending b1) = removed_targets (pending b) /\ delta_nonempty (pending b1) = true.
Proof.
  cbv zeta. cbn [sstep]. unfold append at 1 2 3. cbn [is_insert auto_commit fst].
  match goal with |- context [append_chunks ?s1 ?ps uk tag 0 (N.to_nat n)] =>
    destruct (append_chunks_spec (N.to_nat n) s1 ps uk tag 0%nat) as (P & C & _ & _) end.
  cbn [pending committed seqno] in P, C. rewrite P, C.
  split; [reflexivity|]. split.
  - rewrite !removed_targets_app, chunk_entries_removed. cbn. rewrite !app_nil_r. reflexivity.
  - rewrite !delta_nonempty_app. cbn. rewrite orb_true_r. reflexivity.
Qed.

Lemma update_base b t newtag uk b1 o1 sq :
  sstep b (OUpdate t newtag uk None) = (b1, o1) -> fst (fst o1) = Ok sq ->
  committed b1 = committed b /\ t < len (committed b) /\
  exists e, pending b1 = pending b ++ [(seqno b + 1, e)] /\ removed_of e = [t] /\ frame_record e = true.
Proof.
  cbn [sstep]. destruct (get (committed b) t) as [old|] eqn:Eg; [|intros E; inversion E; subst; discriminate].
  destruct (negb (f_status old =? 0)); [intros E; inversion E; subst; discriminate|].
  unfold append. cbn [auto_commit]. intros E _. inversion E; subst. cbn [committed pending].
  split; [reflexivity|]. split; [eapply get_some_lt; eauto|].
  destruct newtag; eexists; (split; [reflexivity|split; reflexivity]).
Qed.

Lemma delete_base b t b1 o1 sq :
  sstep b (ODelete t None) = (b1, o1) -> fst (fst o1) = Ok sq ->
  committed b1 = committed b /\ t < len (committed b) /\
  pending b1 = pending b ++ [(seqno b + 1, ETomb t)].
Proof.
  cbn [sstep]. destruct (get (committed b) t) as [old|] eqn:Eg; [|intros E; inversion E; subst; discriminate].
  destruct (negb (f_status old =? 0)); [intros E; inversion E; subst; discriminate|].
  unfold append. cbn [auto_commit is_insert]. intros E _. inversion E; subst. cbn [committed pending].
  split; [reflexivity|]. split; [eapply get_some_lt; eauto|reflexivity].
Qed.

Lemma TargetsOK_app b b1 e sq t :
  TargetsOK b -> committed b1 = committed b -> pending b1 = pending b ++ [(sq, e)] -> removed_of e = [t] -> t < len (committed b) ->
  TargetsOK b1.
Proof.
  unfold TargetsOK. intros HT C P R Ht. rewrite C, P, removed_targets_app. apply Forall_app. split; [exact HT|].
  rewrite removed_targets_cons. cbn [snd]. rewrite R. cbn. repeat constructor. exact Ht.
Qed.

Lemma instant_add_inv r instant sq lx td :
  instant_add r instant sq = (lx, td) ->
  (td = false -> lx = lex r /\ tdirty r = false) /\ (td = true -> instant = true \/ tdirty r = true).
Proof.
  unfold instant_add. destruct instant; intros E; inversion E; subst; split; try discriminate; auto.
Qed.

Theorem rstep_inv r op : IxInv r -> IxInv (fst (rstep r op)).
Proof.
  intros HI. pose proof HI as (HT & Htix & Hvec & Hlex & Hdirty).
  destruct op as [uk tag n auto created text emb instant|t newtag auto opts text emb instant|t auto|extra|extra|extra|uris]; cbn [rstep].
  - (* put *)
    pose proof (put_base (base r) uk tag n) as (C & R & D).
    destruct (sstep (base r) (OPut uk tag n 0 None)) as [b1 o1] eqn:Es. cbn [fst] in C, R, D.
    destruct (instant_add r instant (seqno (base r) + 1)) as [lx td] eqn:Ei. cbn [fst].
    apply with_auto_inv. apply instant_add_inv in Ei as [Ei1 Ei2].
    unfold IxInv. cbn [base tix vec lex tdirty]. rewrite C. unfold TargetsOK. rewrite C, R.
    split; [exact HT|]. split; [exact Htix|]. split; [exact Hvec|]. split; [|intros _; exact D].
    intros Htd. destruct (Ei1 Htd) as [-> Hd]. apply Hlex. exact Hd.
  - (* update *)
    destruct (sstep (base r) (OUpdate t newtag (o_uri opts) None)) as [b1 o1] eqn:Es.
    destruct (fst (fst o1)) as [sq| |] eqn:Eo; cbn [fst]; try exact HI.
    destruct (update_base _ _ _ _ _ _ _ Es Eo) as (C & Ht & e & P & R & F).
    destruct (instant_add r instant (seqno (base r) + 1)) as [lx td] eqn:Ei. cbn [fst].
    apply with_auto_inv. apply instant_add_inv in Ei as [Ei1 Ei2].
    unfold IxInv. cbn [base tix vec lex tdirty]. rewrite C.
    split; [eapply TargetsOK_app; eauto|]. split; [exact Htix|]. split; [exact Hvec|]. split.
    + intros Htd. destruct (Ei1 Htd) as [-> Hd]. apply Hlex. exact Hd.
    + intros _. rewrite P, delta_nonempty_app. cbn. rewrite F. cbn. apply orb_true_r.
  - (* delete *)
    destruct (sstep (base r) (ODelete t None)) as [b1 o1] eqn:Es.
    destruct (fst (fst o1)) as [sq| |] eqn:Eo; cbn [fst]; try exact HI.
    destruct (delete_base _ _ _ _ _ Es Eo) as (C & Ht & P).
    apply with_auto_inv. unfold IxInv, set_base. cbn [base tix vec lex tdirty]. rewrite C.
    split; [eapply TargetsOK_app; eauto; reflexivity|]. split; [exact Htix|]. split; [exact Hvec|]. split; [exact Hlex|].
    intros _. rewrite P, delta_nonempty_app. cbn. apply orb_true_r.
  - (* commit *)
    cbn [fst]. destruct (pending (base r)) eqn:Ep; [destruct (dirty (base r))|]; try (apply sync_inv; exact HI).
    unfold IxInv, set_base, bump. cbn [base tix vec lex tdirty committed pending]. unfold TargetsOK. cbn [committed pending].
    rewrite Ep in *. split; [constructor|]. split; [exact Htix|]. split; [exact Hvec|]. split; [exact Hlex|exact Hdirty].
  - (* reopen *)
    cbn [fst].
    assert (H1 : IxInv (if dirty (base r) then sync r extra else set_base r (bump (base r) extra))).
    { destruct (dirty (base r)); [apply sync_inv; exact HI|]. exact HI. }
    destruct (pending (base (if dirty (base r) then sync r extra else set_base r (bump (base r) extra)))); [exact H1|apply sync_inv; exact H1].
  - (* crash + replay *)
    cbn [fst].
    assert (H0 : IxInv (mkR (base r) (attrs r) (pattrs r) (lex r) (tdirty r) (vec r) (vec_disk r) (vec_disk r) (tix r))) by exact HI.
    destruct (pending (base r)) eqn:Ep; [|apply sync_inv; exact H0].
    unfold IxInv, set_base. cbn [base tix vec lex tdirty committed pending]. unfold TargetsOK. cbn [committed pending].
    split; [constructor|]. split; [exact Htix|]. split; [exact Hvec|]. split; [exact Hlex|].
    intros Htd. specialize (Hdirty Htd). cbn in Hdirty. discriminate Hdirty.
  - exact HI.
Qed.

Theorem rrun_inv ops : forall r, IxInv r -> IxInv (fst (rrun r ops)).
Proof.
  induction ops as [|op ops IH]; intros r HI; cbn [rrun fst]; [exact HI|].
  pose proof (rstep_inv r op HI) as H1. destruct (rstep r op) as [r1 o]. cbn [fst] in H1.
  specialize (IH r1 H1). destruct (rrun r1 ops) as [r2 os]. exact IH.
Qed.

(* every intermediate state of a history satisfies the invariant too *)
Theorem rrun_inv_all ops : forall r, IxInv r -> Forall (fun ro => IxInv (fst ro)) (snd (rrun r ops)).
Proof.
  induction ops as [|op ops IH]; intros r HI; cbn [rrun snd]; [constructor|].
  pose proof (rstep_inv r op HI) as H1. destruct (rstep r op) as [r1 o]. cbn [fst] in H1.
  specialize (IH r1 H1). destruct (rrun r1 ops) as [r2 os]. cbn [snd] in *. constructor; [exact H1|exact IH].
Qed.

(* ================= 8. the frame table of the extended machine is the one of Model/Store.v ================= *)
Lemma sync_base r extra : base (sync r extra) = do_commit (base r) extra.
Proof. unfold sync. destruct (negb (delta_nonempty (pending (base r)))); reflexivity. Qed.

Lemma with_auto_base r auto : base (with_auto r auto) = auto_commit (base r) auto.
Proof. destruct auto; cbn [with_auto auto_commit]; [apply sync_base|reflexivity]. Qed.

Lemma rstep_base r op sp : sop_of op = Some sp -> sstep (base r) sp = (base (fst (rstep r op)), snd (rstep r op)).
Proof.
  destruct op as [uk tag n auto created text emb instant|t newtag auto opts text emb instant|t auto|extra|extra|extra|uris];
    cbn [sop_of]; intros E; inversion E; subst; clear E.
  - cbn [rstep sstep]. destruct (append (base r) _) as [s1 sq] eqn:Ea.
    destruct (instant_add r instant (seqno (base r) + 1)) as [lx td]. cbn [fst snd auto_commit observe].
    rewrite with_auto_base. cbn [base]. reflexivity.
  - cbn [rstep sstep]. destruct (get (committed (base r)) t) as [old|]; [|reflexivity].
    destruct (negb (f_status old =? 0)); [reflexivity|].
    destruct (append (base r) _) as [s1 sq] eqn:Ea. cbn [auto_commit observe fst snd].
    destruct (instant_add r instant (seqno (base r) + 1)) as [lx td]. cbn [fst snd].
    rewrite with_auto_base. cbn [base]. reflexivity.
  - cbn [rstep sstep]. destruct (get (committed (base r)) t) as [old|]; [|reflexivity].
    destruct (negb (f_status old =? 0)); [reflexivity|].
    destruct (append (base r) _) as [s1 sq] eqn:Ea. cbn [auto_commit observe fst snd].
    rewrite with_auto_base. cbn [base set_base]. reflexivity.
  - cbn [rstep sstep fst snd]. destruct (pending (base r)); [destruct (dirty (base r))|]; cbn [base set_base]; rewrite ?sync_base; reflexivity.
  - cbn [rstep sstep fst snd].
    destruct (dirty (base r)); cbn [base set_base]; rewrite ?sync_base.
    + destruct (pending (do_commit (base r) extra)) eqn:Ep; [rewrite sync_base; reflexivity|].
      rewrite !sync_base. reflexivity.
    + destruct (pending (bump (base r) extra)) eqn:Ep; cbn [base set_base]; rewrite ?sync_base; cbn [base set_base]; reflexivity.
  - cbn [rstep sstep fst snd]. destruct (pending (base r)); cbn [base set_base]; rewrite ?sync_base; reflexivity.
Qed.

Definition sops (ops : list rop) : list sop := flat_map (fun op => match sop_of op with Some s => [s] | None => [] end) ops.

(* outputs of the operations that are not read points *)
Fixpoint souts (r : rstore) (ops : list rop) : list sout :=
  match ops with
  | [] => []
  | op :: rest => let '(r1, o) := rstep r op in
                  match sop_of op with Some _ => o :: souts r1 rest | None => souts r1 rest end
  end.

Lemma rrun_srun ops : forall r,
  srun (base r) (sops ops) = (base (fst (rrun r ops)), souts r ops).
Proof.
  induction ops as [|op ops IH]; intros r; cbn [sops flat_map rrun souts srun fst]; [reflexivity|].
  fold (sops ops). destruct (sop_of op) as [sp|] eqn:Es.
  - cbn [app srun]. rewrite (rstep_base r op sp Es). destruct (rstep r op) as [r1 o]. cbn [fst snd].
    rewrite IH. destruct (rrun r1 ops) as [r2 os]. reflexivity.
  - destruct op; try discriminate. cbn [rstep app]. rewrite IH. destruct (rrun r ops) as [r2 os]. reflexivity.
Qed.

(* ================= 9. the reference table: statuses only move away from Active ================= *)
Definition NonActive (R : list frame) (i : nat) : Prop := exists g, nth_error R i = Some g /\ f_status g <> 0.

Lemma ref_chunks_prefix n : forall i fr pid uk tag0, exists tail, ref_chunks fr pid uk tag0 i n = fr ++ tail.
Proof.
  induction n as [|n IH]; intros i fr pid uk tag0; cbn [ref_chunks].
  - exists []. rewrite app_nil_r. reflexivity.
  - destruct (IH (S i) (fr ++ [new_frame fr (chunk_uri uk i) (tag0 + N.of_nat i + 1) 1 false None (Some pid)]) pid uk tag0) as [tail E].
    rewrite E, <- app_assoc. eexists. reflexivity.
Qed.

Lemma ref_put_prefix R uk tag nchunks role : exists tail, ref_put R uk tag nchunks role = R ++ tail.
Proof.
  unfold ref_put. destruct (ref_chunks_prefix (N.to_nat nchunks) 0%nat
    (R ++ [new_frame R match uk with Some k => Some (UExp k) | None => None end tag role (0 <? nchunks) None None]) (len R) uk tag) as [tail E].
  rewrite E, <- app_assoc. eexists. reflexivity.
Qed.

Lemma NonActive_app R tail i : NonActive R i -> NonActive (R ++ tail) i.
Proof. intros (g & E & H). exists g. split; [|exact H]. rewrite nth_error_app1; [exact E|]. apply nth_error_Some. congruence. Qed.

Lemma NonActive_update R n st by_ i : st <> 0 -> NonActive R i -> NonActive (update_nth n (fun g => set_status g st by_) R) i.
Proof.
  intros Hst (g & E & H). unfold NonActive. rewrite nth_error_update_nth, E. cbn [option_map].
  destruct (Nat.eqb i n); eexists; split; try reflexivity; [exact Hst|exact H].
Qed.

Lemma ref_step_mono R x i : NonActive R i -> NonActive (ref_step R x) i.
Proof.
  intros H. destruct x as [op o]. unfold ref_step. destruct (negb (acked o)); [exact H|].
  destruct op; try exact H.
  - destruct (ref_put_prefix R uk tag nchunks role) as [tail ->]. apply NonActive_app. exact H.
  - unfold ref_update. destruct (get R target); [|exact H]. apply NonActive_app, NonActive_update; [lia|exact H].
  - unfold ref_delete. apply NonActive_update; [lia|exact H].
Qed.

Lemma ref_run_mono xs : forall R i, NonActive R i -> NonActive (ref_run R xs) i.
Proof.
  induction xs as [|x xs IH]; intros R i H; cbn [ref_run fold_left]; [exact H|]. apply IH, ref_step_mono, H.
Qed.

Definition target_of (op : sop) : option N :=
  match op with OUpdate t _ _ _ => Some t | ODelete t _ => Some t | _ => None end.

(* one acknowledged delete / update of an existing frame f: f is not Active afterwards; an update
   records the new frame (whose id is the length of the table) as the successor, and the successor
   is Active, names f as its predecessor, and is what its uri resolves to *)
Lemma ref_step_marks R op o f :
  acked o = true -> target_of op = Some f -> f < len R ->
  NonActive (ref_step R (op, o)) (N.to_nat f) /\
  (forall nt uk a, op = OUpdate f nt uk a ->
     exists old g n, get R f = Some old /\
       nth_error (ref_step R (op, o)) (N.to_nat f) = Some g /\ f_status g = 1 /\ f_superseded_by g = Some (len R) /\
       ref_step R (op, o) = update_nth (N.to_nat f) (fun g => set_status g 1 (Some (len R))) R ++ [n] /\
       f_id n = len R /\ f_status n = 0 /\ f_supersedes n = Some f /\
       f_uri n = match uk with Some k => UExp k | None => f_uri old end /\
       frame_by_uri (ref_step R (op, o)) (f_uri n) = Some n) /\
  (forall a, op = ODelete f a ->
     exists g, nth_error (ref_step R (op, o)) (N.to_nat f) = Some g /\ f_status g = 2 /\ f_superseded_by g = None).
Proof.
  intros Ha Ht Hf. unfold ref_step. rewrite Ha. cbn [negb].
  assert (Hlt : (N.to_nat f < length R)%nat) by (unfold len in Hf; lia).
  destruct (nth_error R (N.to_nat f)) as [old|] eqn:Eo; [|apply nth_error_None in Eo; lia].
  destruct op; cbn [target_of] in Ht; try discriminate; inversion Ht; subst.
  - unfold ref_update, get. rewrite Eo.
    assert (E1 : nth_error (update_nth (N.to_nat f) (fun g => set_status g 1 (Some (len R))) R ++
                   [mkFrame (len R) match uk with Some k => UExp k | None => f_uri old end
                      match newtag with Some x => x | None => f_tag old end (f_role old) 0 (Some f) None None false]) (N.to_nat f)
                 = Some (set_status old 1 (Some (len R)))).
    { rewrite nth_error_app1 by (rewrite update_nth_length; exact Hlt).
      rewrite nth_error_update_nth, Nat.eqb_refl, Eo. reflexivity. }
    split; [|split].
    + eexists. split; [exact E1|]. cbn. lia.
    + intros nt uk0 a E. inversion E; subst. eexists old, _, _. split; [reflexivity|]. split; [exact E1|].
      cbn [set_status f_status f_superseded_by]. split; [reflexivity|]. split; [reflexivity|]. split; [reflexivity|].
      cbn [f_id f_status f_supersedes f_uri]. repeat split.
      match goal with |- frame_by_uri (?l ++ [?n]) ?u = _ => change u with (f_uri n); apply frame_by_uri_last; reflexivity end.
    + intros a E. discriminate E.
  - unfold ref_delete.
    assert (E1 : nth_error (update_nth (N.to_nat f) (fun g => set_status g 2 None) R) (N.to_nat f) = Some (set_status old 2 None)).
    { rewrite nth_error_update_nth, Nat.eqb_refl, Eo. reflexivity. }
    split; [|split].
    + eexists. split; [exact E1|]. cbn. lia.
    + intros nt uk a E. discriminate E.
    + intros a E. eexists. split; [exact E1|]. split; reflexivity.
Qed.

Theorem ref_marks_forever xs1 op o xs2 f :
  acked o = true -> target_of op = Some f -> f < len (ref_run [] xs1) ->
  NonActive (ref_run [] (xs1 ++ (op, o) :: xs2)) (N.to_nat f).
Proof.
  intros Ha Ht Hf. rewrite ref_run_app. cbn [ref_run fold_left]. apply ref_run_mono.
  apply (ref_step_marks _ op o f Ha Ht Hf).
Qed.

(* supersession links: every Superseded frame names a later frame that supersedes it;
   Active and Deleted frames name none *)
Definition Linked (R : list frame) : Prop :=
  forall i g, nth_error R i = Some g ->
    match f_status g with
    | 0 => f_superseded_by g = None
    | 1 => exists n gn, f_superseded_by g = Some n /\ (i < N.to_nat n)%nat /\ nth_error R (N.to_nat n) = Some gn /\ f_supersedes gn = Some (N.of_nat i)
    | _ => True
    end.

Lemma Linked_app_new R n : Linked R -> f_status n = 0 -> f_superseded_by n = None -> Linked (R ++ [n]).
Proof.
  intros HL Hs Hb i g E. destruct (Nat.lt_ge_cases i (length R)) as [Hi|Hi].
  - rewrite nth_error_app1 in E by exact Hi. specialize (HL i g E).
    destruct (f_status g) as [|[| |]]; auto. destruct HL as (m & gm & H1 & H2 & H3 & H4). exists m, gm. repeat split; auto.
    rewrite nth_error_app1; [exact H3|]. apply nth_error_Some. congruence.
  - rewrite nth_error_app2 in E by exact Hi. destruct (i - length R)%nat as [|k]; [|destruct k; discriminate].
    inversion E; subst. rewrite Hs. exact Hb.
Qed.

Lemma ref_chunks_linked n : forall i fr pid uk tag0, Linked fr -> Linked (ref_chunks fr pid uk tag0 i n).
Proof.
  induction n as [|n IH]; intros i fr pid uk tag0 HL; cbn [ref_chunks]; [exact HL|].
  apply IH. apply Linked_app_new; [exact HL|reflexivity|reflexivity].
Qed.

Lemma Linked_set_other R t st by_ :
  Linked R -> (st = 2 \/ (st = 0 /\ by_ = None)) -> Linked (update_nth t (fun g => set_status g st by_) R).
Proof.
  intros HL Hst i g E. rewrite nth_error_update_nth in E.
  assert (Hkeep : forall j gj, nth_error R j = Some gj -> exists gj', nth_error (update_nth t (fun g => set_status g st by_) R) j = Some gj' /\ f_supersedes gj' = f_supersedes gj).
  { intros j gj Ej. rewrite nth_error_update_nth, Ej. destruct (Nat.eqb j t); eexists; split; reflexivity. }
  destruct (Nat.eqb i t) eqn:Eit.
  - destruct (nth_error R i) as [g0|]; [|discriminate]. cbn [option_map] in E. inversion E; subst. cbn [set_status f_status f_superseded_by].
    destruct Hst as [->|[-> ->]]; [exact I|reflexivity].
  - specialize (HL i g E). destruct (f_status g) as [|[| |]]; auto.
    destruct HL as (m & gm & H1 & H2 & H3 & H4). destruct (Hkeep _ _ H3) as (gm' & E' & S'). exists m, gm'. repeat split; auto. congruence.
Qed.

Lemma ref_step_linked R x : Linked R -> Linked (ref_step R x).
Proof.
  intros HL. destruct x as [op o]. unfold ref_step. destruct (negb (acked o)); [exact HL|].
  destruct op; try exact HL.
  - unfold ref_put. apply ref_chunks_linked. apply Linked_app_new; [exact HL|reflexivity|reflexivity].
  - unfold ref_update. destruct (get R target) as [old|] eqn:Eg; [|exact HL].
    assert (Hlt : (N.to_nat target < length R)%nat) by (apply get_some_lt in Eg; unfold len in Eg; lia).
    intros i g E. destruct (Nat.lt_ge_cases i (length R)) as [Hi|Hi].
    + rewrite nth_error_app1 in E by (rewrite update_nth_length; exact Hi). rewrite nth_error_update_nth in E.
      destruct (Nat.eqb i (N.to_nat target)) eqn:Eit.
      * apply Nat.eqb_eq in Eit. subst i. unfold get in Eg. rewrite Eg in E. cbn [option_map] in E. inversion E; subst.
        cbn [set_status f_status f_superseded_by]. eexists (len R), _. split; [reflexivity|]. split; [unfold len; lia|]. split.
        -- unfold len. rewrite Nat2N.id, nth_error_app2 by (rewrite update_nth_length; lia). rewrite update_nth_length, Nat.sub_diag. reflexivity.
        -- cbn [f_supersedes]. rewrite N2Nat.id. reflexivity.
      * specialize (HL i g E). destruct (f_status g) as [|[| |]]; auto.
        destruct HL as (m & gm & H1 & H2 & H3 & H4).
        assert (Hm : (N.to_nat m < length R)%nat) by (apply nth_error_Some; congruence).
        exists m. rewrite nth_error_app1 by (rewrite update_nth_length; exact Hm). rewrite nth_error_update_nth, H3.
        destruct (Nat.eqb (N.to_nat m) (N.to_nat target)); eexists; (split; [exact H1|split; [exact H2|split; [reflexivity|exact H4]]]).
    + rewrite nth_error_app2 in E by (rewrite update_nth_length; exact Hi). rewrite update_nth_length in E.
      destruct (i - length R)%nat as [|k]; [|destruct k; discriminate]. inversion E; subst. reflexivity.
  - unfold ref_delete. apply Linked_set_other; [exact HL|left; reflexivity].
Qed.

Theorem ref_run_linked xs : forall R, Linked R -> Linked (ref_run R xs).
Proof. induction xs as [|x xs IH]; intros R H; cbn [ref_run fold_left]; [exact H|]. apply IH, ref_step_linked, H. Qed.

Lemma Linked_nil : Linked [].
Proof. intros i g E. destruct i; discriminate. Qed.

(* ================= 10. no read path returns a frame that is not Active ================= *)
Lemma dense_active fr c : Dense fr -> In c fr -> f_status c = 0 -> is_active fr (f_id c) = true.
Proof.
  intros HD Hc Hs. apply In_nth_error in Hc as [k Hk]. rewrite (HD k c Hk).
  apply is_active_get. exists c. split; [|exact Hs]. unfold get. rewrite Nat2N.id. exact Hk.
Qed.

Section NoRead.
  Variable query : Type.
  Variable engine_search : list N -> query -> list N.
  Variable post_hit : frame -> query -> bool.
  Variable vec_rank : list (N * N) -> query -> nat -> list N.
  Variable cutoff : list N -> nat.
  Variable fuse : list N -> list N.
  Hypothesis engine_sound : forall docs q i, In i (engine_search docs q) -> In i docs.
  Hypothesis vec_sound : forall vx q n i, In i (vec_rank vx q n) -> In i (map fst vx).
  Hypothesis fuse_sound : forall l i, In i (fuse l) -> In i l.

  (* everything any read path can name, given the committed table and the three index sets *)
  Definition returned_by_some_read (r : rstore) (i : N) : Prop :=
    let fr := committed (base r) in
    (exists q, In i (search query engine_search post_hit fr (lex r) q)) \/
    (exists q n, In i (search_vec query vec_rank (vec r) q n)) \/
    (exists q k, In i (vec_search_with_embedding query post_hit vec_rank fr (vec r) q k)) \/
    (exists q k, In i (search_adaptive query post_hit vec_rank cutoff fr (vec r) q k)) \/
    (exists qs vq k, In i (ask query engine_search post_hit vec_rank cutoff fuse fr (lex r) (vec r) (tix r) qs vq k)) \/
    (exists keep rev lim id kids, In (id, kids) (timeline fr (tix r) keep rev lim) /\ (i = id \/ In i kids)) \/
    (exists u g, frame_by_uri fr u = Some g /\ f_id g = i /\ exists a, In a fr /\ f_uri a = u /\ f_status a = 0).

  Lemma vec_member r i : IxInv r -> In i (map fst (vec r)) -> is_active (committed (base r)) i = true.
  Proof. intros (_ & _ & Hvec & _) H. apply in_map_iff in H as (ie & <- & Hie). apply Hvec, Hie. Qed.

  Theorem reads_only_active r i :
    IxInv r -> tdirty r = false -> Dense (committed (base r)) ->
    returned_by_some_read r i -> is_active (committed (base r)) i = true.
  Proof.
    intros HI Htd HD H. pose proof HI as (_ & Htix & Hvec & Hlex & _). specialize (Hlex Htd).
    destruct H as [(q & H)|[(q & n & H)|[(q & k & H)|[(q & k & H)|[(qs & vq & k & H)|[(keep & rv & lim & id & kids & H & Hi)|(u & g & Hg & Hid & a & Ha & Hu & Hs)]]]]]].
    - apply (search_in _ _ _ engine_sound) in H as [H _]. apply Hlex, H.
    - apply vec_member; [exact HI|]. eapply search_vec_in; eauto.
    - apply vec_member; [exact HI|]. eapply vec_search_with_embedding_in; eauto.
    - apply vec_member; [exact HI|]. eapply search_adaptive_in; eauto.
    - apply (ask_in _ _ _ _ _ _ engine_sound vec_sound fuse_sound) in H as [H|[H|(c & Hc & <- & Hs)]].
      + apply Hlex, H.
      + apply vec_member; assumption.
      + apply dense_active; assumption.
    - apply timeline_active in H as [(e & f & Eg & Es & Ei) Hk]. destruct Hi as [->|Hi].
      + rewrite <- Ei. apply dense_active; auto. unfold get in Eg. eapply nth_error_In; eauto.
      + destruct (Hk _ Hi) as (c & Hc & <- & Hs & _). apply dense_active; assumption.
    - (* frame_by_uri with an active frame under that uri returns an active frame *)
      pose proof (frame_by_uri_spec (committed (base r)) u) as Hspec. rewrite Hg in Hspec.
      destruct Hspec as (l1 & l2 & E & Hug & [[Hsg _]|[_ [Hall _]]]).
      + rewrite <- Hid. apply dense_active; auto. rewrite E. apply in_or_app. right; left; reflexivity.
      + exfalso. apply (Hall a Ha Hu Hs).
  Qed.

  Corollary inactive_never_returned r f :
    IxInv r -> tdirty r = false -> Dense (committed (base r)) ->
    is_active (committed (base r)) f = false -> ~ returned_by_some_read r f.
  Proof. intros HI Htd HD Hf H. rewrite (reads_only_active r f HI Htd HD H) in Hf. discriminate. Qed.

  (* the whole chain for histories from the empty memory *)
  Theorem deleted_or_superseded_disappears rops :
    let r := fst (rrun rstore0 rops) in
    let xs := combine (sops rops) (souts rstore0 rops) in
    run_ok [] xs = true -> pending (base r) = [] -> tdirty r = false ->
    forall xs1 op o xs2 f,
      xs = xs1 ++ (op, o) :: xs2 -> acked o = true -> target_of op = Some f -> f < len (ref_run [] xs1) ->
      committed (base r) = ref_run [] xs /\
      NonActive (committed (base r)) (N.to_nat f) /\
      is_active (committed (base r)) f = false /\
      ~ returned_by_some_read r f.
  Proof.
    intros r xs Hok Hp Htd xs1 op o xs2 f Exs Ha Ht Hf.
    pose proof (rrun_srun rops rstore0) as Hs. cbn [base rstore0] in Hs. fold r in Hs.
    pose proof (reachable_facts (sops rops)) as HR. rewrite Hs in HR. cbn [fst snd] in HR. fold xs in HR.
    destruct (HR Hok) as (HV & HD & _ & HC). specialize (HC Hp).
    assert (HN : NonActive (committed (base r)) (N.to_nat f)).
    { rewrite HC, Exs. apply ref_marks_forever; assumption. }
    assert (Hina : is_active (committed (base r)) f = false).
    { destruct HN as (g & Eg & Hg). unfold is_active, get. rewrite Eg. apply N.eqb_neq. exact Hg. }
    split; [exact HC|]. split; [exact HN|]. split; [exact Hina|].
    apply inactive_never_returned; auto.
    - apply rrun_inv, IxInv0.
    - rewrite <- (quiescent_committed _ Hp). exact HD.
  Qed.
End NoRead.

(* ================= 11. the chunked-document class ================= *)
(* a DocumentChunk whose document is no longer Active *)
Definition orphan_chunk (frames : list frame) (i : N) : bool :=
  match get frames i with
  | Some f => (f_role f =? 1) && match f_parent f with Some p => negb (is_active frames p) | None => false end
  | None => false
  end.

Lemma live_unless_orphan frames i : is_active frames i = true -> orphan_chunk frames i = false -> live frames i = true.
Proof.
  unfold is_active, orphan_chunk, live. destruct (get frames i) as [f|]; [|discriminate].
  intros -> H. cbn [andb]. destruct (f_role f =? 1); [|reflexivity]. cbn [andb] in H.
  destruct (f_parent f); [|reflexivity]. apply negb_false_iff in H. exact H.
Qed.

Lemma has_role_live frames i : is_active frames i = true -> has_role frames 0 i = true -> live frames i = true.
Proof.
  unfold is_active, has_role, live. destruct (get frames i) as [f|]; [|discriminate].
  intros -> H. apply N.eqb_eq in H. rewrite H. reflexivity.
Qed.

Theorem index_members_live_outside_known r i :
  IxInv r -> tdirty r = false ->
  (In i (tix r) -> live (committed (base r)) i = true) /\
  (In i (lex r) \/ In i (map fst (vec r)) -> orphan_chunk (committed (base r)) i = false -> live (committed (base r)) i = true).
Proof.
  intros HI Htd. pose proof HI as (_ & Htix & Hvec & Hlex & _). split.
  - intros H. destruct (Htix i H). apply has_role_live; assumption.
  - intros [H|H] Ho; apply live_unless_orphan; auto.
    apply in_map_iff in H as (ie & <- & Hie). apply Hvec, Hie.
Qed.

(* ================= 12. the attributes queued by update_frame ================= *)
Definition all_attrs (r : rstore) : list fattr := attrs r ++ pattrs r.

Lemma sync_all_attrs r extra : all_attrs (sync r extra) = all_attrs r.
Proof. unfold sync, all_attrs. destruct (negb (delta_nonempty (pending (base r)))); cbn [attrs pattrs]; apply app_nil_r. Qed.

Lemma with_auto_all_attrs r auto : all_attrs (with_auto r auto) = all_attrs r.
Proof. destruct auto; [apply sync_all_attrs|reflexivity]. Qed.

(* an acknowledged update queues, for the new frame, the requested fields completed by the ten
   inheritance rules from the committed old version, and the explicit or carried embedding *)
Theorem update_inherits r t newtag auto opts text emb instant sq :
  fst (fst (snd (rstep r (RUpdate t newtag auto opts text emb instant)))) = Ok sq ->
  all_attrs (fst (rstep r (RUpdate t newtag auto opts text emb instant))) =
    all_attrs r ++ [mkAttr (inherit opts (a_fields (attr_of (attrs r) t))) text
                      match emb with Some e => Some e | None => if vec_on r then assocN (vec r) t else None end].
Proof.
  cbn [rstep]. destruct (sstep (base r) (OUpdate t newtag (o_uri opts) None)) as [b1 o1] eqn:Es.
  destruct (fst (fst o1)) as [sq'| |] eqn:Eo.
  - destruct (instant_add r instant (seqno (base r) + 1)) as [lx td]. cbn [fst snd]. intros _.
    rewrite with_auto_all_attrs. unfold all_attrs. cbn [attrs pattrs]. rewrite app_assoc. reflexivity.
  - cbn [fst snd]. rewrite Eo. discriminate.
  - cbn [fst snd]. rewrite Eo. discriminate.
Qed.

(* attributes are append-only: what was recorded for a frame never changes *)
Theorem all_attrs_append_only r op : exists tail, all_attrs (fst (rstep r op)) = all_attrs r ++ tail.
Proof.
  destruct op as [uk tag n auto created text emb instant|t newtag auto opts text emb instant|t auto|extra|extra|extra|uris]; cbn [rstep].
  - destruct (sstep (base r) (OPut uk tag n 0 None)) as [b1 o1]. destruct (instant_add r instant (seqno (base r) + 1)) as [lx td]. cbn [fst].
    rewrite with_auto_all_attrs. unfold all_attrs. cbn [attrs pattrs]. rewrite app_assoc. eexists. reflexivity.
  - destruct (sstep (base r) (OUpdate t newtag (o_uri opts) None)) as [b1 o1].
    destruct (fst (fst o1)); cbn [fst]; try (exists []; rewrite app_nil_r; reflexivity).
    destruct (instant_add r instant (seqno (base r) + 1)) as [lx td]. cbn [fst].
    rewrite with_auto_all_attrs. unfold all_attrs. cbn [attrs pattrs]. rewrite app_assoc. eexists. reflexivity.
  - destruct (sstep (base r) (ODelete t None)) as [b1 o1].
    destruct (fst (fst o1)); cbn [fst]; try (exists []; rewrite app_nil_r; reflexivity).
    rewrite with_auto_all_attrs. exists []. rewrite app_nil_r. reflexivity.
  - cbn [fst]. exists []. rewrite app_nil_r. destruct (pending (base r)); [destruct (dirty (base r))|]; try apply sync_all_attrs; reflexivity.
  - cbn [fst]. exists []. rewrite app_nil_r.
    destruct (dirty (base r)).
    + destruct (pending (base (sync r extra))); rewrite ?sync_all_attrs; reflexivity.
    + destruct (pending (base (set_base r (bump (base r) extra)))); rewrite ?sync_all_attrs; reflexivity.
  - cbn [fst]. exists []. rewrite app_nil_r. destruct (pending (base r)); rewrite ?sync_all_attrs; reflexivity.
  - exists []. rewrite app_nil_r. reflexivity.
Qed.
