(* Proofs for M-Content (C07). *)
From MV Require Import Base.Prelude Base.Facts Model.Content.
From Coq Require Import ZifyBool ZifyNat ZifyN.
Local Open Scope N_scope.

(* ---------------------------------------------------------------- lists / write_at *)
Lemma blen_app {A} (a b : list A) : blen (a ++ b) = blen a + blen b.
Proof. unfold blen. rewrite app_length. lia. Qed.

Lemma blen_nil {A} : blen (@nil A) = 0.
Proof. reflexivity. Qed.

Lemma firstn_app_exact {A} (a b : list A) n : n = length a -> firstn n (a ++ b) = a.
Proof. intros ->. rewrite firstn_app, Nat.sub_diag, firstn_all. simpl. apply app_nil_r. Qed.

Lemma skipn_app_exact {A} (a b : list A) n : n = length a -> skipn n (a ++ b) = b.
Proof. intros ->. rewrite skipn_app, Nat.sub_diag, skipn_all. reflexivity. Qed.

Lemma write_at_length file off p :
  p <> [] -> length (write_at file off p) = Nat.max (length file) (off + length p).
Proof.
  intros Hp. unfold write_at. destruct p as [|x p']; [congruence|].
  set (q := x :: p'). set (padded := file ++ repeat 0 (off - length file)).
  assert (Hpl : length padded = Nat.max (length file) off).
  { unfold padded. rewrite app_length, repeat_length. lia. }
  rewrite !app_length, firstn_length, skipn_length. lia.
Qed.

Lemma write_at_length_ge file off p : (length file <= length (write_at file off p))%nat.
Proof.
  destruct p as [|x p']; [simpl; lia|]. rewrite write_at_length by congruence. lia.
Qed.

Lemma write_at_slice_new file off p : slice (write_at file off p) off (length p) = p.
Proof.
  unfold write_at, slice. destruct p as [|x p']; [reflexivity|].
  set (q := x :: p'). set (padded := file ++ repeat 0 (off - length file)).
  assert (Hpl : (off <= length padded)%nat).
  { unfold padded. rewrite app_length, repeat_length. lia. }
  rewrite skipn_app_exact by (rewrite firstn_length; lia).
  apply firstn_app_exact. reflexivity.
Qed.

Lemma firstn_skipn_firstn {A} (l : list A) a n off :
  (a + n <= off)%nat -> firstn n (skipn a (firstn off l)) = firstn n (skipn a l).
Proof.
  intros Hle. rewrite skipn_firstn_comm, firstn_firstn. f_equal. lia.
Qed.

Lemma write_at_slice_old file off p a n :
  (a + n <= off)%nat -> (a + n <= length file)%nat ->
  slice (write_at file off p) a n = slice file a n.
Proof.
  intros H1 H2. unfold write_at, slice. destruct p as [|x p']; [reflexivity|].
  set (q := x :: p'). set (padded := file ++ repeat 0 (off - length file)).
  assert (Hf : (off <= length padded)%nat).
  { unfold padded. rewrite app_length, repeat_length. lia. }
  rewrite skipn_app. rewrite firstn_app.
  assert (Hz : (n - length (skipn a (firstn off padded)) = 0)%nat).
  { rewrite skipn_length, firstn_length. lia. }
  rewrite Hz. simpl. rewrite app_nil_r.
  rewrite firstn_skipn_firstn by lia.
  unfold padded. rewrite skipn_app, firstn_app.
  assert (Hz2 : (n - length (skipn a file) = 0)%nat) by (rewrite skipn_length; lia).
  rewrite Hz2. simpl. apply app_nil_r.
Qed.

(* replacing the n-th element *)
Lemma upd_map {A B} (g : A -> B) l n x y :
  nth_error l n = Some y -> g x = g y -> map g (firstn n l ++ x :: skipn (S n) l) = map g l.
Proof.
  revert n; induction l as [|a l IH]; intros [|n] Hn Hg; simpl in *; try discriminate.
  - inversion Hn; subst. rewrite Hg. reflexivity.
  - f_equal. apply IH; auto.
Qed.
Lemma upd_length {A} (l : list A) n x y :
  nth_error l n = Some y -> length (firstn n l ++ x :: skipn (S n) l) = length l.
Proof.
  revert n; induction l as [|a l IH]; intros [|n] Hn; simpl in *; try discriminate.
  - reflexivity.
  - f_equal. apply IH; auto.
Qed.
Lemma upd_nth_same {A} (l : list A) n x y :
  nth_error l n = Some y -> nth_error (firstn n l ++ x :: skipn (S n) l) n = Some x.
Proof.
  revert n; induction l as [|a l IH]; intros [|n] Hn; simpl in *; try discriminate.
  - reflexivity.
  - apply IH; auto.
Qed.
Lemma upd_nth_other {A} (l : list A) n x y k :
  nth_error l n = Some y -> k <> n -> nth_error (firstn n l ++ x :: skipn (S n) l) k = nth_error l k.
Proof.
  revert n k; induction l as [|a l IH]; intros n k Hn Hne.
  - destruct n; discriminate.
  - destruct n as [|n]; destruct k as [|k]; simpl in *; try congruence.
    apply IH; [exact Hn|congruence].
Qed.

(* ---------------------------------------------------------------- sort of a sorted list *)
Section Sorting.
  Context {A : Type} (key : A -> N * N).
  Fixpoint sorted (l : list A) : Prop :=
    match l with
    | [] => True
    | x :: r => (forall y, In y r -> key_le (key x) (key y) = true) /\ sorted r
    end.
  Lemma insert_sorted_head x l :
    (forall y, In y l -> key_le (key x) (key y) = true) -> insert_by key x l = x :: l.
  Proof. destruct l as [|y r]; [reflexivity|]. intros H. simpl. rewrite H by (left; reflexivity). reflexivity. Qed.
  Lemma sort_sorted l : sorted l -> sort_by key l = l.
  Proof.
    induction l as [|x r IH]; [reflexivity|]. intros [Hx Hr]. unfold sort_by in *. simpl.
    rewrite IH by exact Hr. apply insert_sorted_head. exact Hx.
  Qed.
End Sorting.

Section Proofs.
  Variable zenc : Z -> bytes -> bytes.
  Variable zdec : bytes -> option bytes.
  Variable H : bytes -> bytes.
  Variable is_utf8 : bytes -> bool.
  Variable summary : N -> bytes.
  (* the zstd oracle: decoding what the encoder produced gives the input back *)
  Hypothesis zstd_rt : forall level x, zdec (zenc level x) = Some x.

  Notation prepare := (prepare zenc is_utf8).
  Notation decode_canonical := (decode_canonical zdec).
  Notation frame_canonical_bytes := (frame_canonical_bytes zdec).
  Notation read_children := (read_children zdec).
  Notation document_chunk_payloads := (document_chunk_payloads zdec).
  Notation blob_reader := (blob_reader zdec).
  Notation apply_insert := (apply_insert zdec H is_utf8 summary).
  Notation apply_one := (apply_one zdec H is_utf8 summary).
  Notation apply_loop := (apply_loop zdec H is_utf8 summary).
  Notation apply_records := (apply_records zdec H is_utf8 summary).
  Notation frame_content := (frame_content zdec is_utf8 summary).
  Notation whole_entry := (whole_entry zenc is_utf8).
  Notation chunk_entry := (chunk_entry zenc is_utf8).
  Notation chunk_records := (chunk_records zenc is_utf8).

  (* ------------------------------------------------------------ (a1) prepare / decode *)
  Lemma prepare_roundtrip level p :
    let '(stored, e, cl) := prepare level p in
    decode_canonical e stored = Ok p /\ cl = Some (blen p).
  Proof.
    unfold Content.prepare. destruct (level =? 0)%Z; [split; reflexivity|].
    destruct (is_utf8 p); [|split; reflexivity].
    split; [|reflexivity]. unfold Content.decode_canonical. rewrite zstd_rt. reflexivity.
  Qed.

  Lemma prepare_plain_stored level p stored cl :
    prepare level p = (stored, Plain, cl) -> stored = p.
  Proof.
    unfold Content.prepare. destruct (level =? 0)%Z; [intros E; inversion E; reflexivity|].
    destruct (is_utf8 p); intros E; inversion E; reflexivity.
  Qed.

  (* ------------------------------------------------------------ windows *)
  Definition wal_end (st : store) : N := s_wal_off st + s_wal_size st.

  (* a frame's stored window lies between the log region and `dend`, inside the file, and is
     not longer than MAX_FRAME_BYTES (or the frame stores nothing) *)
  Definition win_ok (wend dend flen : N) (f : frame) : Prop :=
    f_len f = 0 \/
    (f_len f <= MAX_FRAME_BYTES /\ wend <= f_off f /\ f_off f + f_len f <= dend /\ f_off f + f_len f <= flen).

  Lemma win_ok_mono wend d1 d2 l1 l2 f :
    d1 <= d2 -> l1 <= l2 -> win_ok wend d1 l1 f -> win_ok wend d2 l2 f.
  Proof. intros Hd Hl [Hz|(Ha & Hb & Hc & He)]; [left; exact Hz|right; repeat split; lia]. Qed.

  Lemma window_length file off len :
    off + len <= blen file -> blen (window file off len) = len.
  Proof.
    intros Hle. unfold window, blen in *. rewrite slice_length; lia.
  Qed.

  Lemma validate_ok st f :
    wal_end st <= U64_MAX -> s_data_end st <= U64_MAX ->
    win_ok (wal_end st) (s_data_end st) (blen (s_file st)) f ->
    validate_frame_bounds st f = Ok tt.
  Proof.
    intros Hw Hd Hwin. unfold validate_frame_bounds, wal_end in *.
    destruct (f_len f =? 0) eqn:E0; [reflexivity|].
    destruct Hwin as [Hz|(Ha & Hb & Hc & He)]; [lia|].
    replace (MAX_FRAME_BYTES <? f_len f) with false by lia.
    replace (U64_MAX <? s_wal_off st + s_wal_size st) with false by lia.
    replace (f_off f <? s_wal_off st + s_wal_size st) with false by lia.
    replace (U64_MAX <? f_off f + f_len f) with false by lia.
    replace (s_data_end st <? f_off f + f_len f) with false by lia.
    replace (blen (s_file st) <? f_off f + f_len f) with false by lia.
    reflexivity.
  Qed.

  Lemma window_zero file off : window file off 0 = [].
  Proof. unfold window, slice. reflexivity. Qed.

  Lemma read_payload_ok st f :
    wal_end st <= U64_MAX -> s_data_end st <= U64_MAX ->
    win_ok (wal_end st) (s_data_end st) (blen (s_file st)) f ->
    read_payload st f = Ok (window (s_file st) (f_off f) (f_len f)).
  Proof.
    intros Hw Hd Hwin. unfold read_payload. rewrite validate_ok by assumption.
    destruct Hwin as [Hz|(Ha & Hb & Hc & He)].
    - rewrite Hz, window_zero. reflexivity.
    - rewrite window_length by lia. rewrite N.eqb_refl. reflexivity.
  Qed.

  (* ------------------------------------------------------------ the apply loop *)
  (* fields of a frame that later records of the batch never change *)
  Definition core (f : frame) :=
    (f_id f, f_off f, f_len f, f_sum f, f_enc f, f_clen f, (f_role f, f_manifest f, f_parent f, f_cidx f)).

  Lemma set_status_core frames i s b fr :
    set_status frames i s b = Some fr -> map core fr = map core frames /\ length fr = length frames.
  Proof.
    unfold set_status, get. destruct (nth_error frames (N.to_nat i)) as [f|] eqn:E; [|discriminate].
    intros Eq. inversion Eq; subst fr; clear Eq. split.
    - eapply upd_map; [exact E|reflexivity].
    - eapply upd_length; exact E.
  Qed.

  Lemma set_status_nth frames i s b fr k f :
    set_status frames i s b = Some fr -> nth_error frames k = Some f ->
    exists f', nth_error fr k = Some f' /\ core f' = core f /\ f_stext f' = f_stext f /\ f_mime f' = f_mime f /\
               (k <> N.to_nat i -> f' = f).
  Proof.
    unfold set_status, get. destruct (nth_error frames (N.to_nat i)) as [g|] eqn:E; [|discriminate].
    intros Eq Hk. inversion Eq; subst fr; clear Eq.
    destruct (Nat.eq_dec k (N.to_nat i)) as [->|Hne].
    - rewrite E in Hk. inversion Hk; subst g.
      eexists. split; [eapply upd_nth_same; exact E|]. repeat split; auto. intros Hc; congruence.
    - exists f. split; [rewrite (upd_nth_other _ _ _ _ _ E Hne); exact Hk|]. repeat split; auto.
  Qed.

  Record linv (st0 : store) (l : lstate) : Prop := {
    li_wal : wal_end st0 <= l_cursor l;
    li_dend : l_dend l = l_cursor l;
    li_frames : Forall (win_ok (wal_end st0) (l_cursor l) (blen (l_file l))) (l_frames l)
  }.

  (* an entry the loop can place: a fresh payload no longer than MAX_FRAME_BYTES *)
  Definition entry_ok (e : entry) : Prop := blen (e_payload e) <= MAX_FRAME_BYTES.
  Definition rec_ok (r : record) : Prop :=
    match r with RInsert _ e => entry_ok e | _ => True end.

  Definition count_ins (rs : list record) : nat :=
    length (filter (fun r => match r with RInsert _ _ => true | _ => false end) rs).

  Lemma blen_write_at file off p :
    blen file <= blen (write_at file (N.to_nat off) p) /\
    (p <> [] -> off + blen p <= blen (write_at file (N.to_nat off) p)).
  Proof.
    split.
    - unfold blen. pose proof (write_at_length_ge file (N.to_nat off) p). lia.
    - intros Hp. unfold blen. rewrite write_at_length by exact Hp. lia.
  Qed.

  Lemma window_write_new file off p :
    window (write_at file (N.to_nat off) p) off (blen p) = p.
  Proof.
    unfold window, blen. rewrite Nat2N.id. apply write_at_slice_new.
  Qed.

  Lemma window_write_old file off p a n :
    a + n <= off -> a + n <= blen file ->
    window (write_at file (N.to_nat off) p) a n = window file a n.
  Proof.
    intros H1 H2. unfold window, blen in *. apply write_at_slice_old; lia.
  Qed.

  (* what one Insert record of a fresh payload does *)
  Lemma apply_insert_fresh st0 l seq e l1 :
    linv st0 l -> entry_ok e -> e_reuse e = None ->
    apply_insert st0 l seq e = Ok l1 ->
    linv st0 l1 /\
    l_cursor l1 = l_cursor l + blen (e_payload e) /\
    (exists fr0 f, l_frames l1 = fr0 ++ [f] /\ map core fr0 = map core (l_frames l) /\
       length fr0 = length (l_frames l) /\
       (forall k g, nth_error (l_frames l) k = Some g ->
          exists g', nth_error fr0 k = Some g' /\ core g' = core g /\ f_stext g' = f_stext g /\ f_mime g' = f_mime g /\
                     (e_supersedes e = None -> g' = g) /\
                     (forall p, e_supersedes e = Some p -> k <> N.to_nat p -> g' = g)) /\
       f_id f = blen (l_frames l) /\ f_off f = l_cursor l /\ f_len f = blen (e_payload e) /\
       f_sum f = H (e_payload e) /\ f_enc f = e_enc e /\ f_role f = e_role e /\
       f_manifest f = e_manifest e /\ f_cidx f = e_cidx e /\ f_status f = 0 /\
       f_stext f = e_stext e /\ f_mime f = e_mime e /\
       (forall n, e_clen e = Some n -> f_clen f = Some n) /\
       (f_parent f = match e_parent_seq e with
                     | None => None
                     | Some ps => match lookup ps (l_seqmap l) with
                                  | Some pid => Some pid
                                  | None => if e_role e =? 1
                                            then find (is_manifest_doc (l_frames l)) (rev (l_inserted l))
                                            else None
                                  end
                     end) /\
       window (l_file l1) (f_off f) (f_len f) = e_payload e) /\
    l_seqmap l1 = (seq, blen (l_frames l)) :: l_seqmap l /\
    l_inserted l1 = l_inserted l ++ [blen (l_frames l)] /\
    (forall a n, a + n <= l_cursor l -> a + n <= blen (l_file l) ->
       window (l_file l1) a n = window (l_file l) a n /\ a + n <= blen (l_file l1)).
  Proof.
    intros [Hwal Hde Hfr] Hok Hre. unfold Content.apply_insert. rewrite Hre.
    set (file' := write_at (l_file l) (N.to_nat (l_cursor l)) (e_payload e)).
    set (plen := blen (e_payload e)).
    set (clr := match e_enc e with
                | Zstd => match e_clen e with
                          | Some n => Ok n
                          | None => match decode_canonical Zstd (e_payload e) with
                                    | Ok d => Ok (blen d) | Err k => Err k | Panic s => Panic s end
                          end
                | Plain => Ok (match e_clen e with Some n => n | None => plen end)
                end).
    destruct clr as [cl|k|s] eqn:Ecl; [|discriminate|discriminate].
    cbv zeta.
    set (parent := match e_parent_seq e with
                   | None => None
                   | Some ps => match lookup ps (l_seqmap l) with
                                | Some pid => Some pid
                                | None => if e_role e =? 1
                                          then find (is_manifest_doc (l_frames l)) (rev (l_inserted l))
                                          else None
                                end
                   end).
    set (frame := mkFrame (blen (l_frames l)) (l_cursor l) plen (H (e_payload e)) (e_enc e) (Some cl)
                          (e_role e) (e_manifest e) parent (e_cidx e) 0 (e_supersedes e) None
                          (e_stext e) (e_mime e)).
    match goal with |- context [if s_lex st0 then ?a else ?b] => destruct (if s_lex st0 then a else b) as [u|k|s]; [|discriminate|discriminate] end.
    destruct (match e_supersedes e with
              | None => Some (l_frames l)
              | Some p => set_status (l_frames l) p 1 (Some (blen (l_frames l)))
              end) as [frames1|] eqn:Esup; [|discriminate].
    intros Eq. inversion Eq; subst l1; clear Eq. cbn [l_cursor l_dend l_file l_frames l_seqmap l_inserted].
    pose proof (blen_write_at (l_file l) (l_cursor l) (e_payload e)) as [Hge Hnew].
    fold file' in Hge, Hnew.
    assert (Hcore : map core frames1 = map core (l_frames l) /\ length frames1 = length (l_frames l)).
    { destruct (e_supersedes e) as [p|]; [apply (set_status_core _ _ _ _ _ Esup)|inversion Esup; auto]. }
    destruct Hcore as [Hcore Hlen1].
    assert (Hnth : forall k g, nth_error (l_frames l) k = Some g ->
               exists g', nth_error frames1 k = Some g' /\ core g' = core g /\ f_stext g' = f_stext g /\ f_mime g' = f_mime g /\
                          (e_supersedes e = None -> g' = g) /\
                          (forall p, e_supersedes e = Some p -> k <> N.to_nat p -> g' = g)).
    { intros k g Hk. destruct (e_supersedes e) as [p|].
      - destruct (set_status_nth _ _ _ _ _ _ _ Esup Hk) as (g' & A & B & C & D & E).
        exists g'. repeat split; auto; try discriminate. intros p0 Hp0 Hne. inversion Hp0; subst p0. auto.
      - inversion Esup; subst frames1. exists g. repeat split; auto. }
    assert (Hwin_new : win_ok (wal_end st0) (l_cursor l + plen) (blen file') frame).
    { unfold win_ok. cbn [f_len f_off frame]. destruct (N.eq_dec plen 0) as [Hz|Hnz]; [left; exact Hz|right].
      assert (Hp : e_payload e <> []). { intros Hc. unfold plen in Hnz. rewrite Hc in Hnz. apply Hnz. reflexivity. }
      specialize (Hnew Hp). unfold entry_ok in Hok. fold plen in Hok, Hnew. repeat split; lia. }
    split; [|split; [|split; [|split; [|split]]]].
    - constructor; cbn [l_cursor l_dend l_file l_frames].
      + lia.
      + rewrite Hde. lia.
      + apply Forall_app. split.
        * (* old frames, possibly with changed status *)
          apply Forall_forall. intros g' Hin.
          destruct (In_nth_error _ _ Hin) as [k Hk].
          assert (Hk2 : nth_error (map core frames1) k = Some (core g')) by (rewrite nth_error_map, Hk; reflexivity).
          rewrite Hcore, nth_error_map in Hk2.
          destruct (nth_error (l_frames l) k) as [g|] eqn:Eg; [|discriminate]. simpl in Hk2. inversion Hk2 as [Hc].
          assert (Hg : win_ok (wal_end st0) (l_cursor l) (blen (l_file l)) g).
          { rewrite Forall_forall in Hfr. apply Hfr. eapply nth_error_In; eauto. }
          unfold core in Hc. assert (Ho : f_off g' = f_off g) by congruence. assert (Hl : f_len g' = f_len g) by congruence.
          destruct Hg as [Hz|(A & B & C & D)]; [left; congruence|right].
          rewrite Ho, Hl. repeat split; lia.
        * constructor; [exact Hwin_new|constructor].
    - reflexivity.
    - exists frames1, frame. repeat split; auto.
      + intros n Hn. cbn [f_clen frame]. unfold clr in Ecl. rewrite Hn in Ecl.
        destruct (e_enc e); inversion Ecl; reflexivity.
      + cbn [f_off f_len frame]. unfold plen, file'. apply window_write_new.
    - reflexivity.
    - reflexivity.
    - intros a n H1 H2. split; [unfold file'; apply window_write_old; assumption|lia].
  Qed.

  (* every record: invariant kept, earlier frames keep their core fields and stored bytes *)
  Definition keeps (l l1 : lstate) : Prop :=
    l_cursor l <= l_cursor l1 /\
    (length (l_frames l) <= length (l_frames l1))%nat /\
    (forall k g, nth_error (l_frames l) k = Some g ->
       exists g', nth_error (l_frames l1) k = Some g' /\ core g' = core g) /\
    (forall a n, a + n <= l_cursor l -> a + n <= blen (l_file l) ->
       window (l_file l1) a n = window (l_file l) a n /\ a + n <= blen (l_file l1)).

  Lemma keeps_refl l : keeps l l.
  Proof.
    split; [lia|]. split; [lia|]. split.
    - intros k g Hk. exists g; auto.
    - intros x n Hx1 Hx2. split; [reflexivity|exact Hx2].
  Qed.

  Lemma keeps_trans a b c : keeps a b -> keeps b c -> keeps a c.
  Proof.
    intros (A1 & A2 & A3 & A4) (B1 & B2 & B3 & B4).
    split; [lia|]. split; [lia|]. split.
    - intros k g Hk. destruct (A3 k g Hk) as (g' & Hg' & Hc). destruct (B3 k g' Hg') as (g'' & Hg'' & Hc').
      exists g''. split; [exact Hg''|congruence].
    - intros x n Hx1 Hx2. destruct (A4 x n Hx1 Hx2) as [E1 L1]. destruct (B4 x n) as [E2 L2]; [lia|exact L1|].
      split; [congruence|exact L2].
  Qed.

  Lemma nth_error_app_l {A} (l1 l2 : list A) k x : nth_error l1 k = Some x -> nth_error (l1 ++ l2) k = Some x.
  Proof. intros Hk. rewrite nth_error_app1; [exact Hk|]. apply nth_error_Some. congruence. Qed.

  Lemma apply_insert_reuse st0 l seq e src l1 :
    linv st0 l -> e_reuse e = Some src ->
    apply_insert st0 l seq e = Ok l1 ->
    linv st0 l1 /\ keeps l l1 /\ l_file l1 = l_file l /\ l_cursor l1 = l_cursor l /\
    exists s f, nth_error (l_frames l) (N.to_nat src) = Some s /\
                nth_error (l_frames l1) (length (l_frames l)) = Some f /\
                length (l_frames l1) = S (length (l_frames l)) /\
                f_off f = f_off s /\ f_len f = f_len s /\ f_sum f = f_sum s /\ f_enc f = e_enc e /\
                f_role f = e_role e /\ f_manifest f = e_manifest e /\
                f_clen f = Some (match or_else (e_clen e) (f_clen s) with Some n => n | None => f_len s end).
  Proof.
    intros [Hwal Hde Hfr] Hre. unfold Content.apply_insert. rewrite Hre.
    destruct (negb (null (e_payload e))); [discriminate|].
    unfold get. destruct (nth_error (l_frames l) (N.to_nat src)) as [s|] eqn:Es; [|discriminate].
    cbv zeta.
    match goal with |- context [if s_lex st0 then ?a else ?b] => destruct (if s_lex st0 then a else b) as [u|k|s']; [|discriminate|discriminate] end.
    destruct (match e_supersedes e with
              | None => Some (l_frames l)
              | Some p => set_status (l_frames l) p 1 (Some (blen (l_frames l)))
              end) as [frames1|] eqn:Esup; [|discriminate].
    intros Eq. inversion Eq; subst l1; clear Eq. cbn [l_cursor l_dend l_file l_frames l_seqmap l_inserted].
    assert (Hcore : map core frames1 = map core (l_frames l) /\ length frames1 = length (l_frames l)).
    { destruct (e_supersedes e) as [p|]; [apply (set_status_core _ _ _ _ _ Esup)|inversion Esup; auto]. }
    destruct Hcore as [Hcore Hlen1].
    assert (Hold : forall k g, nth_error (l_frames l) k = Some g -> exists g', nth_error frames1 k = Some g' /\ core g' = core g).
    { intros k g Hk. assert (Hk2 : nth_error (map core (l_frames l)) k = Some (core g)) by (rewrite nth_error_map, Hk; reflexivity).
      rewrite <- Hcore, nth_error_map in Hk2. destruct (nth_error frames1 k) as [g'|]; [|discriminate].
      exists g'. split; [reflexivity|]. simpl in Hk2. congruence. }
    assert (Hs : win_ok (wal_end st0) (l_cursor l) (blen (l_file l)) s).
    { rewrite Forall_forall in Hfr. apply Hfr. eapply nth_error_In; eauto. }
    split; [|split; [|split; [reflexivity|split; [reflexivity|]]]].
    - constructor; cbn [l_cursor l_dend l_file l_frames]; auto.
      apply Forall_app. split.
      + apply Forall_forall. intros g' Hin. destruct (In_nth_error _ _ Hin) as [k Hk].
        assert (Hk2 : nth_error (map core frames1) k = Some (core g')) by (rewrite nth_error_map, Hk; reflexivity).
        rewrite Hcore, nth_error_map in Hk2.
        destruct (nth_error (l_frames l) k) as [g|] eqn:Eg; [|discriminate]. simpl in Hk2. inversion Hk2 as [Hc].
        assert (Hg : win_ok (wal_end st0) (l_cursor l) (blen (l_file l)) g).
        { rewrite Forall_forall in Hfr. apply Hfr. eapply nth_error_In; eauto. }
        unfold core in Hc. assert (Ho : f_off g' = f_off g) by congruence. assert (Hl : f_len g' = f_len g) by congruence.
        unfold win_ok in *. rewrite Ho, Hl. exact Hg.
      + constructor; [|constructor]. unfold win_ok in *. cbn [f_len f_off]. exact Hs.
    - unfold keeps. cbn [l_cursor l_file l_frames].
      split; [lia|]. split; [rewrite app_length; simpl; lia|]. split.
      + intros k g Hk. destruct (Hold k g Hk) as (g' & Hg' & Hc). exists g'. split; [apply nth_error_app_l; exact Hg'|exact Hc].
      + intros x n Hx1 Hx2. split; [reflexivity|exact Hx2].
    - eexists s, _. split; [reflexivity|]. split.
      + rewrite nth_error_app2 by lia. rewrite Hlen1, Nat.sub_diag. reflexivity.
      + cbn [f_off f_len f_sum f_enc f_role f_manifest f_clen]. rewrite app_length, Hlen1. simpl.
        repeat split; auto. lia.
  Qed.

  Lemma apply_one_keeps st0 l r l1 :
    linv st0 l -> rec_ok r -> apply_one st0 l r = Ok l1 -> linv st0 l1 /\ keeps l l1.
  Proof.
    intros Hinv Hok. destruct r as [seq e|[t|]|]; cbn [Content.apply_one].
    - destruct (e_reuse e) as [src|] eqn:Ere.
      + intros Hap. destruct (apply_insert_reuse _ _ _ _ _ _ Hinv Ere Hap) as (A & B & _). split; assumption.
      + intros Hap. destruct (apply_insert_fresh _ _ _ _ _ Hinv Hok Ere Hap) as (A & Hcur & (fr0 & f & Hfr & Hcore & Hlen & Hnth & _) & _ & _ & Hwin).
        split; [exact A|]. unfold keeps.
        split; [lia|]. split; [rewrite Hfr, app_length; simpl; lia|]. split.
        * intros k g Hk. destruct (Hnth k g Hk) as (g' & Hg' & Hc & _). exists g'. split; [rewrite Hfr; apply nth_error_app_l; exact Hg'|exact Hc].
        * intros x n Hx1 Hx2. apply Hwin; assumption.
    - destruct (set_status (l_frames l) t 2 None) as [fr|] eqn:Es; [|discriminate].
      intros Eq. inversion Eq; subst l1; clear Eq. destruct Hinv as [Hwal Hde Hfr].
      destruct (set_status_core _ _ _ _ _ Es) as [Hcore Hlen].
      split.
      + constructor; cbn [l_cursor l_dend l_file l_frames]; auto.
        apply Forall_forall. intros g' Hin. destruct (In_nth_error _ _ Hin) as [k Hk].
        assert (Hk2 : nth_error (map core fr) k = Some (core g')) by (rewrite nth_error_map, Hk; reflexivity).
        rewrite Hcore, nth_error_map in Hk2.
        destruct (nth_error (l_frames l) k) as [g|] eqn:Eg; [|discriminate]. simpl in Hk2. inversion Hk2 as [Hc].
        assert (Hg : win_ok (wal_end st0) (l_cursor l) (blen (l_file l)) g).
        { rewrite Forall_forall in Hfr. apply Hfr. eapply nth_error_In; eauto. }
        unfold core in Hc. assert (Ho : f_off g' = f_off g) by congruence. assert (Hl : f_len g' = f_len g) by congruence.
        unfold win_ok in *. rewrite Ho, Hl. exact Hg.
      + unfold keeps. cbn [l_cursor l_file l_frames].
        split; [lia|]. split; [lia|]. split.
        * intros k g Hk. destruct (set_status_nth _ _ _ _ _ _ _ Es Hk) as (g' & A & B & _). exists g'. auto.
        * intros x n Hx1 Hx2. split; [reflexivity|exact Hx2].
    - discriminate.
    - intros Eq. inversion Eq; subst. split; [exact Hinv|apply keeps_refl].
  Qed.

  Lemma apply_loop_keeps st0 rs : forall l l1,
    linv st0 l -> Forall rec_ok rs -> apply_loop st0 l rs = Ok l1 -> linv st0 l1 /\ keeps l l1.
  Proof.
    induction rs as [|r rs IH]; intros l l1 Hinv Hok; cbn [Content.apply_loop].
    - intros Eq. inversion Eq; subst. split; [exact Hinv|apply keeps_refl].
    - inversion Hok as [|? ? Hr Hrs]; subst.
      destruct (apply_one st0 l r) as [l'|k|s] eqn:E1; [|discriminate|discriminate].
      intros E2. destruct (apply_one_keeps _ _ _ _ Hinv Hr E1) as [I1 K1].
      destruct (IH _ _ I1 Hrs E2) as [I2 K2]. split; [exact I2|eapply keeps_trans; eauto].
  Qed.

  Lemma apply_loop_app st0 rs1 rs2 : forall l l2,
    apply_loop st0 l (rs1 ++ rs2) = Ok l2 ->
    exists l1, apply_loop st0 l rs1 = Ok l1 /\ apply_loop st0 l1 rs2 = Ok l2.
  Proof.
    induction rs1 as [|r rs1 IH]; intros l l2; cbn [app Content.apply_loop].
    - intros E. exists l. split; [reflexivity|exact E].
    - destruct (apply_one st0 l r) as [l'|k|s]; [|discriminate|discriminate]. apply IH.
  Qed.

  Lemma apply_one_length st0 l r l1 :
    linv st0 l -> rec_ok r -> apply_one st0 l r = Ok l1 ->
    length (l_frames l1) = (length (l_frames l) + count_ins [r])%nat.
  Proof.
    intros Hinv Hok. destruct r as [seq e|[t|]|]; cbn [Content.apply_one]; unfold count_ins; cbn [filter length].
    - destruct (e_reuse e) as [src|] eqn:Ere; intros Hap.
      + destruct (apply_insert_reuse _ _ _ _ _ _ Hinv Ere Hap) as (_ & _ & _ & _ & s0 & f & _ & _ & Hl & _). lia.
      + destruct (apply_insert_fresh _ _ _ _ _ Hinv Hok Ere Hap) as (_ & _ & (fr0 & f & Hfr & _ & Hlen & _) & _).
        rewrite Hfr, app_length. simpl. lia.
    - destruct (set_status (l_frames l) t 2 None) as [fr|] eqn:Es; [|discriminate].
      intros Eq. inversion Eq; subst l1. cbn [l_frames]. destruct (set_status_core _ _ _ _ _ Es) as [_ Hl]. lia.
    - discriminate.
    - intros Eq. inversion Eq; subst. lia.
  Qed.

  Lemma count_ins_cons r rs : count_ins (r :: rs) = (count_ins [r] + count_ins rs)%nat.
  Proof. unfold count_ins. cbn [filter]. destruct r; simpl; lia. Qed.

  Lemma apply_loop_length st0 rs : forall l l1,
    linv st0 l -> Forall rec_ok rs -> apply_loop st0 l rs = Ok l1 ->
    length (l_frames l1) = (length (l_frames l) + count_ins rs)%nat.
  Proof.
    induction rs as [|r rs IH]; intros l l1 Hinv Hok; cbn [Content.apply_loop].
    - intros Eq. inversion Eq; subst. unfold count_ins. simpl. lia.
    - inversion Hok as [|? ? Hr Hrs]; subst.
      destruct (apply_one st0 l r) as [l'|k|s] eqn:E1; [|discriminate|discriminate].
      intros E2. destruct (apply_one_keeps _ _ _ _ Hinv Hr E1) as [I1 _].
      rewrite (IH _ _ I1 Hrs E2), (apply_one_length _ _ _ _ Hinv Hr E1), (count_ins_cons r rs). lia.
  Qed.

  (* ------------------------------------------------------------ the store after apply_records *)
  Record store_ok (st : store) : Prop := {
    so_wal : wal_end st <= s_data_end st;
    so_frames : Forall (win_ok (wal_end st) (s_data_end st) (blen (s_file st))) (s_frames st)
  }.

  Definition init_l (st : store) : lstate := mkL (s_file st) (s_frames st) (s_data_end st) (s_data_end st) [] [].

  Lemma init_linv st : store_ok st -> linv st (init_l st).
  Proof. intros [A B]. constructor; cbn; auto. Qed.

  Lemma resolve_orphan_fields orig ins f :
    let g := resolve_orphan orig ins f in
    f_id g = f_id f /\ f_off g = f_off f /\ f_len g = f_len f /\ f_sum g = f_sum f /\ f_enc g = f_enc f /\
    f_clen g = f_clen f /\ f_role g = f_role f /\ f_manifest g = f_manifest f /\ f_cidx g = f_cidx f /\
    f_status g = f_status f /\ f_stext g = f_stext f /\ f_mime g = f_mime f /\
    (f_parent f <> None -> f_parent g = f_parent f).
  Proof.
    unfold resolve_orphan.
    destruct (existsb (N.eqb (f_id f)) ins && (f_role f =? 1) && negb (is_some (f_parent f))) eqn:E.
    - destruct (find_candidate orig (N.to_nat (f_id f))); cbn; repeat split; auto.
      intros Hp. destruct (f_parent f); [|congruence]. cbn in E. rewrite andb_false_r in E. discriminate.
    - cbn. repeat split; auto.
  Qed.

  Lemma apply_records_final st rs st' :
    rs <> [] -> store_ok st -> Forall rec_ok rs -> apply_records st rs = Ok st' ->
    exists l', apply_loop st (init_l st) rs = Ok l' /\ linv st l' /\ keeps (init_l st) l' /\
      s_file st' = l_file l' /\ s_data_end st' = l_cursor l' /\
      s_wal_off st' = s_wal_off st /\ s_wal_size st' = s_wal_size st /\
      s_frames st' = resolve_orphans (l_frames l') (l_inserted l').
  Proof.
    intros Hne Hok Hrs. unfold Content.apply_records. destruct rs as [|r rs]; [congruence|].
    fold (init_l st).
    destruct (apply_loop st (init_l st) (r :: rs)) as [l'|k|s] eqn:E; [|discriminate|discriminate].
    intros Eq. inversion Eq; subst st'; clear Eq. cbn.
    destruct (apply_loop_keeps _ _ _ _ (init_linv _ Hok) Hrs E) as [I K].
    exists l'. split; [reflexivity|]. split; [exact I|]. split; [exact K|]. split; [reflexivity|].
    split; [destruct I as [_ Hd _]; rewrite Hd; lia|]. repeat split; reflexivity.
  Qed.

  Lemma final_frame st l' st' k f :
    linv st l' -> s_file st' = l_file l' -> s_data_end st' = l_cursor l' ->
    s_wal_off st' = s_wal_off st -> s_wal_size st' = s_wal_size st ->
    s_frames st' = resolve_orphans (l_frames l') (l_inserted l') ->
    nth_error (l_frames l') k = Some f ->
    exists g, nth_error (s_frames st') k = Some g /\
      g = resolve_orphan (l_frames l') (l_inserted l') f /\
      win_ok (wal_end st') (s_data_end st') (blen (s_file st')) g.
  Proof.
    intros [Hw Hd Hfr] Hf He Ho Hs Hfrs Hk.
    exists (resolve_orphan (l_frames l') (l_inserted l') f). split.
    - rewrite Hfrs. unfold resolve_orphans. rewrite nth_error_map, Hk. reflexivity.
    - split; [reflexivity|].
      assert (Hwin : win_ok (wal_end st) (l_cursor l') (blen (l_file l')) f).
      { rewrite Forall_forall in Hfr. apply Hfr. eapply nth_error_In; eauto. }
      pose proof (resolve_orphan_fields (l_frames l') (l_inserted l') f) as Hg. cbv zeta in Hg.
      destruct Hg as (_ & Go & Gl & _).
      unfold win_ok, wal_end in *. rewrite Go, Gl, Hf, He, Ho, Hs. exact Hwin.
  Qed.

  (* reading a frame that is not a chunked document *)
  Lemma canonical_of_window st f stored p :
    wal_end st <= U64_MAX -> s_data_end st <= U64_MAX ->
    win_ok (wal_end st) (s_data_end st) (blen (s_file st)) f ->
    is_chunked_doc f = false ->
    window (s_file st) (f_off f) (f_len f) = stored ->
    decode_canonical (f_enc f) stored = Ok p -> f_clen f = Some (blen p) ->
    frame_canonical_bytes st f = Ok p.
  Proof.
    intros Hw Hd Hwin Hc Hwd Hdec Hcl. unfold Content.frame_canonical_bytes. rewrite Hc.
    rewrite read_payload_ok by assumption. rewrite Hwd. unfold decode_checked. rewrite Hdec, Hcl, N.eqb_refl. reflexivity.
  Qed.

  (* ------------------------------------------------------------ (a) whole payloads *)
  Theorem whole_put_fidelity st pre post seq level p m sup st' :
    store_ok st ->
    Forall rec_ok (pre ++ RInsert seq (whole_entry level p m sup) :: post) ->
    apply_records st (pre ++ RInsert seq (whole_entry level p m sup) :: post) = Ok st' ->
    s_data_end st' <= U64_MAX ->
    exists f, nth_error (s_frames st') (length (s_frames st) + count_ins pre) = Some f /\
      f_id f = N.of_nat (length (s_frames st) + count_ins pre) /\
      frame_canonical_bytes st' f = Ok p /\
      (exists b, blob_reader st' f = Ok b /\ blob_read_to_end st' b = p /\ blob_len b = blen p) /\
      f_sum f = H (window (s_file st') (f_off f) (f_len f)) /\
      validate_frame_bounds st' f = Ok tt /\
      f_clen f = Some (blen p) /\
      fst (fst (prepare level p)) = window (s_file st') (f_off f) (f_len f).
  Proof.
    intros Hok Hrs Hap Hu64.
    set (e := whole_entry level p m sup) in *.
    assert (Hne : pre ++ RInsert seq e :: post <> []) by (destruct pre; discriminate).
    destruct (apply_records_final _ _ _ Hne Hok Hrs Hap) as (l' & Hloop & Il' & _ & Hf & Hde & Hwo & Hws & Hfrs).
    destruct (apply_loop_app _ _ _ _ _ Hloop) as (l0 & Hpre & Hrest).
    cbn [Content.apply_loop] in Hrest.
    destruct (apply_one st l0 (RInsert seq e)) as [l1|k|s] eqn:E1; [|discriminate|discriminate].
    apply Forall_app in Hrs. destruct Hrs as [Hrpre Hrrest]. inversion Hrrest as [|? ? Hre Hrpost]; subst.
    destruct (apply_loop_keeps _ _ _ _ (init_linv _ Hok) Hrpre Hpre) as [I0 _].
    pose proof (apply_loop_length _ _ _ _ (init_linv _ Hok) Hrpre Hpre) as Hlen0. cbn [init_l l_frames] in Hlen0.
    cbn [Content.apply_one] in E1.
    destruct (prepare level p) as [[stored enc0] cl0] eqn:Ep.
    assert (Ee : e = mkEntry stored enc0 cl0 None 0 None None None sup (m_stext m) (m_mime m)).
    { unfold e, Content.whole_entry. rewrite Ep. reflexivity. }
    pose proof (prepare_roundtrip level p) as Hrt. rewrite Ep in Hrt. destruct Hrt as [Hdec Hcl0].
    assert (Ere : e_reuse e = None) by (rewrite Ee; reflexivity).
    destruct (apply_insert_fresh _ _ _ _ _ I0 Hre Ere E1)
      as (I1 & Hcur1 & (fr0 & f & Hfr1 & _ & Hlenfr0 & _ & Fid & Foff & Flen & Fsum & Fenc & Frole & Fman & _ & _ & _ & _ & Fclen & _ & Fwin) & _ & _ & _).
    destruct (apply_loop_keeps _ _ _ _ I1 Hrpost Hrest) as [_ (K1 & K2 & K3 & K4)].
    assert (Hk1 : nth_error (l_frames l1) (length (s_frames st) + count_ins pre) = Some f).
    { rewrite Hfr1, nth_error_app2 by lia. rewrite Hlenfr0, Hlen0, Nat.sub_diag. reflexivity. }
    destruct (K3 _ _ Hk1) as (f' & Hk' & Hcore).
    destruct (final_frame _ _ _ _ _ Il' Hf Hde Hwo Hws Hfrs Hk') as (g & Hg & Hgdef & Gwin).
    pose proof (resolve_orphan_fields (l_frames l') (l_inserted l') f') as Hfields. cbv zeta in Hfields.
    rewrite <- Hgdef in Hfields. destruct Hfields as (Gid & Goff & Glen & Gsum & Genc & Gclen & Grole & Gman & _).
    unfold core in Hcore.
    assert (Eid : f_id g = f_id f) by congruence. assert (Eoff : f_off g = f_off f) by congruence.
    assert (Elen : f_len g = f_len f) by congruence. assert (Esum : f_sum g = f_sum f) by congruence.
    assert (Eenc : f_enc g = f_enc f) by congruence. assert (Eclen : f_clen g = f_clen f) by congruence.
    assert (Erole : f_role g = f_role f) by congruence. assert (Eman : f_manifest g = f_manifest f) by congruence.
    rewrite Ee in Flen, Fsum, Fenc, Frole, Fman, Fclen, Fwin. cbn [e_payload e_enc e_role e_manifest e_clen] in *.
    (* the stored bytes are still there at the end of the batch *)
    assert (Hwinf : window (s_file st') (f_off g) (f_len g) = stored).
    { rewrite Hf, Eoff, Elen. destruct (N.eq_dec (f_len f) 0) as [Hz|Hnz].
      - rewrite Hz, window_zero. rewrite Hz, window_zero in Fwin. exact Fwin.
      - destruct I1 as [_ _ Hfr]. rewrite Hfr1 in Hfr. apply Forall_app in Hfr. destruct Hfr as [_ Hfr].
        pose proof (Forall_inv Hfr) as Hwf. destruct Hwf as [Hz|(A & B & C & D)]; [contradiction|].
        destruct (K4 (f_off f) (f_len f) C D) as [Ew _]. rewrite Ew. exact Fwin. }
    assert (Hw64 : wal_end st' <= U64_MAX).
    { destruct Il' as [Hw _ _]. unfold wal_end in *. rewrite Hwo, Hws, Hde in *. lia. }
    assert (Hcd : is_chunked_doc g = false).
    { unfold is_chunked_doc. rewrite Eman, Fman. cbn. apply andb_false_r. }
    assert (Hclg : f_clen g = Some (blen p)).
    { rewrite Eclen. apply Fclen. exact Hcl0. }
    assert (Hcanon : frame_canonical_bytes st' g = Ok p).
    { eapply canonical_of_window; eauto. rewrite Eenc, Fenc. exact Hdec. }
    exists g. split; [exact Hg|]. split; [rewrite Eid, Fid; unfold blen; rewrite Hlen0; reflexivity|].
    split; [exact Hcanon|]. split.
    - unfold Content.blob_reader. rewrite Eenc, Fenc. destruct enc0.
      + eexists. split; [reflexivity|]. cbn [blob_read_to_end blob_len].
        pose proof (prepare_plain_stored _ _ _ _ Ep) as Hsp. rewrite Hwinf. split; [exact Hsp|].
        rewrite Elen, Flen, Hsp. reflexivity.
      + rewrite Hcanon. eexists. split; [reflexivity|]. cbn. split; reflexivity.
    - split; [rewrite Hwinf, Esum, Fsum; reflexivity|]. split; [apply validate_ok; assumption|].
      split; [exact Hclg|]. rewrite Hwinf. reflexivity.
  Qed.

  (* ------------------------------------------------------------ payload-reusing updates *)
  Lemma canonical_same_fields st f g :
    f_off f = f_off g -> f_len f = f_len g -> f_enc f = f_enc g -> f_clen f = f_clen g ->
    is_chunked_doc f = false -> is_chunked_doc g = false ->
    frame_canonical_bytes st f = frame_canonical_bytes st g.
  Proof.
    intros Ho Hl He Hc Hf Hg. unfold Content.frame_canonical_bytes. rewrite Hf, Hg.
    unfold read_payload, validate_frame_bounds, decode_checked. rewrite Ho, Hl, He, Hc. reflexivity.
  Qed.

  Theorem reuse_update_shares st pre post seq src m st' :
    store_ok st ->
    forall s cl, nth_error (s_frames st) (N.to_nat src) = Some s -> is_chunked_doc s = false ->
    f_clen s = Some cl ->
    Forall rec_ok (pre ++ RInsert seq (reuse_entry s m) :: post) -> f_id s = src ->
    apply_records st (pre ++ RInsert seq (reuse_entry s m) :: post) = Ok st' ->
    exists f s', nth_error (s_frames st') (length (s_frames st) + count_ins pre) = Some f /\
      nth_error (s_frames st') (N.to_nat src) = Some s' /\
      f_off f = f_off s' /\ f_len f = f_len s' /\ f_sum f = f_sum s' /\
      f_off s' = f_off s /\ f_len s' = f_len s /\ f_sum s' = f_sum s /\
      frame_canonical_bytes st' f = frame_canonical_bytes st' s' /\
      blob_reader st' f = blob_reader st' s'.
  Proof.
    intros Hok s cl Hs Hsc Hscl Hrs Hid Hap.
    set (e := reuse_entry s m) in *.
    assert (Hne : pre ++ RInsert seq e :: post <> []) by (destruct pre; discriminate).
    destruct (apply_records_final _ _ _ Hne Hok Hrs Hap) as (l' & Hloop & Il' & Kall & Hf & Hde & Hwo & Hws & Hfrs).
    destruct (apply_loop_app _ _ _ _ _ Hloop) as (l0 & Hpre & Hrest).
    cbn [Content.apply_loop] in Hrest.
    destruct (apply_one st l0 (RInsert seq e)) as [l1|k|s0] eqn:E1; [|discriminate|discriminate].
    apply Forall_app in Hrs. destruct Hrs as [Hrpre Hrrest]. inversion Hrrest as [|? ? Hre Hrpost]; subst.
    destruct (apply_loop_keeps _ _ _ _ (init_linv _ Hok) Hrpre Hpre) as [I0 (_ & _ & K0 & _)].
    pose proof (apply_loop_length _ _ _ _ (init_linv _ Hok) Hrpre Hpre) as Hlen0. cbn [init_l l_frames] in Hlen0.
    cbn [Content.apply_one] in E1.
    assert (Ere : e_reuse e = Some (f_id s)) by reflexivity.
    destruct (apply_insert_reuse _ _ _ _ _ _ I0 Ere E1) as (I1 & K01 & _ & _ & s0 & f & Hs0 & Hf1 & _ & Fo & Fl & Fs & Fe & Fr & Fm & Fc).
    destruct (apply_loop_keeps _ _ _ _ I1 Hrpost Hrest) as [_ (_ & _ & K3 & _)].
    (* the source at the time of the insert has the core fields of s *)
    cbn [init_l l_frames] in K0. destruct (K0 _ _ Hs) as (sa & Hsa & Hca). rewrite Hs0 in Hsa. inversion Hsa; subst sa.
    destruct K01 as (_ & _ & K01 & _). destruct (K01 _ _ Hs0) as (s1 & Hs1 & Hc1).
    destruct (K3 _ _ Hs1) as (s2 & Hs2 & Hc2).
    rewrite Hlen0 in Hf1. destruct (K3 _ _ Hf1) as (f2 & Hf2 & Hcf).
    destruct (final_frame _ _ _ _ _ Il' Hf Hde Hwo Hws Hfrs Hs2) as (gs & Hgs & Hgsdef & _).
    destruct (final_frame _ _ _ _ _ Il' Hf Hde Hwo Hws Hfrs Hf2) as (gf & Hgf & Hgfdef & _).
    pose proof (resolve_orphan_fields (l_frames l') (l_inserted l') s2) as A. cbv zeta in A. rewrite <- Hgsdef in A.
    pose proof (resolve_orphan_fields (l_frames l') (l_inserted l') f2) as B. cbv zeta in B. rewrite <- Hgfdef in B.
    destruct A as (_ & Ao & Al & As & Ae & Ac & Ar & Am & _). destruct B as (_ & Bo & Bl & Bs & Be & Bc & Br & Bm & _).
    unfold core in *.
    assert (X1 : f_off gs = f_off s) by congruence. assert (X2 : f_len gs = f_len s) by congruence.
    assert (X3 : f_sum gs = f_sum s) by congruence. assert (X4 : f_enc gs = f_enc s) by congruence.
    assert (X5 : f_clen gs = f_clen s) by congruence. assert (X6 : f_role gs = f_role s) by congruence.
    assert (X7 : f_manifest gs = f_manifest s) by congruence.
    assert (Y1 : f_off gf = f_off s) by congruence. assert (Y2 : f_len gf = f_len s) by congruence.
    assert (Y3 : f_sum gf = f_sum s) by congruence.
    assert (Y4 : f_enc gf = f_enc s). { transitivity (f_enc f); [congruence|]. rewrite Fe. reflexivity. }
    assert (Y6 : f_manifest gf = None). { transitivity (f_manifest f); [congruence|]. rewrite Fm. reflexivity. }
    assert (Y5 : f_clen gf = f_clen gs).
    { transitivity (f_clen f); [congruence|]. rewrite Fc, X5. unfold e. cbn [reuse_entry e_clen].
      rewrite Hscl. reflexivity. }
    assert (Cs : is_chunked_doc gs = false). { unfold is_chunked_doc in *. rewrite X6, X7. exact Hsc. }
    assert (Cf : is_chunked_doc gf = false). { unfold is_chunked_doc. rewrite Y6. cbn. apply andb_false_r. }
    assert (Hcan : frame_canonical_bytes st' gf = frame_canonical_bytes st' gs).
    { apply canonical_same_fields; congruence. }
    exists gf, gs.
    split; [exact Hgf|]. split; [exact Hgs|].
    repeat split; try congruence.
    unfold Content.blob_reader. rewrite Hcan. replace (f_enc gf) with (f_enc gs) by congruence.
    replace (f_off gf) with (f_off gs) by congruence. replace (f_len gf) with (f_len gs) by congruence. reflexivity.
  Qed.

  (* ------------------------------------------------------------ the read during apply *)
  (* the index text of an entry without search text is read back through frame_content while the
     batch is still being applied: the frame just written is inside data_end (advanced right
     after the write) and inside the file, so validate_frame_bounds accepts it and the read
     returns the bytes just written *)
  Theorem read_during_apply_ok st0 l e fr :
    linv st0 l -> entry_ok e -> l_cursor l + blen (e_payload e) <= U64_MAX ->
    f_off fr = l_cursor l -> f_len fr = blen (e_payload e) ->
    let file' := write_at (l_file l) (N.to_nat (l_cursor l)) (e_payload e) in
    let dend' := N.max (l_dend l) (l_cursor l + blen (e_payload e)) in
    validate_frame_bounds (view st0 file' dend' (l_frames l)) fr = Ok tt /\
    read_payload (view st0 file' dend' (l_frames l)) fr = Ok (e_payload e).
  Proof.
    intros [Hw Hd Hfr] Hok Hu Ho Hl file' dend'.
    pose proof (blen_write_at (l_file l) (l_cursor l) (e_payload e)) as [Hge Hnew]. fold file' in Hge, Hnew.
    assert (Hwin : win_ok (wal_end (view st0 file' dend' (l_frames l))) (s_data_end (view st0 file' dend' (l_frames l)))
                          (blen (s_file (view st0 file' dend' (l_frames l)))) fr).
    { unfold win_ok, view, wal_end in *. cbn. destruct (N.eq_dec (f_len fr) 0) as [Hz|Hnz]; [left; exact Hz|right].
      assert (Hp : e_payload e <> []). { intros Hc. rewrite Hl, Hc in Hnz. apply Hnz. reflexivity. }
      specialize (Hnew Hp). unfold entry_ok in Hok. unfold dend'. rewrite Ho, Hl. repeat split; lia. }
    assert (A : wal_end (view st0 file' dend' (l_frames l)) <= U64_MAX) by (unfold wal_end, view in *; cbn; lia).
    assert (B : s_data_end (view st0 file' dend' (l_frames l)) <= U64_MAX) by (unfold view, dend'; cbn; lia).
    split; [apply validate_ok; assumption|].
    rewrite read_payload_ok by assumption. cbn [view s_file]. rewrite Ho, Hl. unfold file'. rewrite window_write_new. reflexivity.
  Qed.

  (* historical (before /repo 270cbaf): with data_end advanced only after the loop the same read
     was rejected for every non-empty stored payload *)
  Lemma read_during_apply_rejected_before_fix st0 l e fr :
    linv st0 l -> entry_ok e -> l_cursor l + blen (e_payload e) <= U64_MAX ->
    f_off fr = l_cursor l -> f_len fr = blen (e_payload e) -> e_payload e <> [] ->
    let file' := write_at (l_file l) (N.to_nat (l_cursor l)) (e_payload e) in
    validate_frame_bounds (view st0 file' (l_dend l) (l_frames l)) fr = Err E_PAST_DATA.
  Proof.
    intros [Hw Hd Hfr] Hok Hu Ho Hl Hp file'. unfold validate_frame_bounds, view, wal_end, entry_ok in *. cbn.
    assert (Hpos : 0 < blen (e_payload e)). { destruct (e_payload e); [congruence|unfold blen; simpl; lia]. }
    rewrite Ho, Hl, Hd.
    replace (blen (e_payload e) =? 0) with false by lia.
    replace (MAX_FRAME_BYTES <? blen (e_payload e)) with false by lia.
    replace (U64_MAX <? s_wal_off st0 + s_wal_size st0) with false by lia.
    replace (l_cursor l <? s_wal_off st0 + s_wal_size st0) with false by lia.
    replace (U64_MAX <? l_cursor l + blen (e_payload e)) with false by lia.
    replace (l_cursor l <? l_cursor l + blen (e_payload e)) with true by lia. reflexivity.
  Qed.

  (* ------------------------------------------------------------ (b) chunked documents: the read side *)
  Lemma read_children_ok st cs chunks :
    wal_end st <= U64_MAX -> s_data_end st <= U64_MAX ->
    Forall2 (fun c ch => win_ok (wal_end st) (s_data_end st) (blen (s_file st)) c /\
                         decode_canonical (f_enc c) (window (s_file st) (f_off c) (f_len c)) = Ok ch /\
                         f_clen c = Some (blen ch)) cs chunks ->
    read_children st cs = Ok (combine cs chunks).
  Proof.
    intros Hw Hd HF. induction HF as [|c ch cs' chs (Hwin & Hdec & Hcl) _ IH]; [reflexivity|].
    cbn [Content.read_children combine]. rewrite read_payload_ok by assumption.
    unfold decode_checked. rewrite Hdec, Hcl, N.eqb_refl, IH. reflexivity.
  Qed.

  Lemma map_snd_combine {A B} (a : list A) (b : list B) : length a = length b -> map snd (combine a b) = b.
  Proof. revert b; induction a as [|x a IH]; intros [|y b] Hl; simpl in *; try discriminate; [reflexivity|]. f_equal. apply IH. lia. Qed.

  (* if the active chunk frames of document f are cs, in chunk_index order, and each stored window
     decodes to its chunk with the recorded canonical length, then the document's canonical payload
     is the in-order concatenation of the chunks (document_chunk_payloads path) *)
  Theorem chunked_document_reads_concat st f cs chunks n :
    wal_end st <= U64_MAX -> s_data_end st <= U64_MAX ->
    is_chunked_doc f = true -> f_manifest f = Some n ->
    filter (is_child_of (f_id f)) (s_frames st) = cs -> sorted child_key cs ->
    cs <> [] -> blen cs = n ->
    Forall2 (fun c ch => win_ok (wal_end st) (s_data_end st) (blen (s_file st)) c /\
                         decode_canonical (f_enc c) (window (s_file st) (f_off c) (f_len c)) = Ok ch /\
                         f_clen c = Some (blen ch)) cs chunks ->
    document_chunk_payloads st f = Ok (combine cs chunks) /\
    frame_canonical_bytes st f = Ok (concat chunks) /\
    Forall2 (fun c ch => frame_canonical_bytes st c = Ok ch \/ is_chunked_doc c = true) cs chunks.
  Proof.
    intros Hw Hd Hcd Hman Hfil Hsorted Hne Hn HF.
    assert (Hdcp : document_chunk_payloads st f = Ok (combine cs chunks)).
    { unfold Content.document_chunk_payloads, document_chunk_frames. rewrite Hman, Hfil.
      rewrite (sort_sorted child_key cs Hsorted). destruct cs as [|c0 cs0]; [congruence|]. cbn [null].
      rewrite Hn, N.eqb_refl. cbn [negb]. rewrite (sort_sorted child_key _ Hsorted).
      apply read_children_ok; assumption. }
    split; [exact Hdcp|]. split.
    - unfold Content.frame_canonical_bytes. rewrite Hcd, Hdcp. rewrite map_snd_combine; [reflexivity|].
      clear -HF. induction HF; simpl; congruence.
    - clear Hdcp Hn Hne Hsorted Hfil. induction HF as [|c ch cs' chs (Hwin & Hdec & Hcl) _ IH]; constructor; [|exact IH].
      destruct (is_chunked_doc c) eqn:Ec; [right; reflexivity|left].
      eapply canonical_of_window; eauto.
  Qed.

  (* UTF-8 encoding of a string = concatenation of the encodings of its characters; it commutes with
     concatenation, so the partition theorem of C34 carries over from characters to bytes *)
  Lemma flat_map_concat {A B} (f : A -> list B) (ls : list (list A)) :
    flat_map f (concat ls) = concat (map (flat_map f) ls).
  Proof. induction ls as [|l ls IH]; [reflexivity|]. simpl. rewrite flat_map_app, IH. reflexivity. Qed.
End Proofs.

(* chunk texts of the unstructured planner, encoded, concatenate to the encoded normalized text *)
From MV Require Import Model.Chunks Proofs.ChunksProofs.
Theorem unstructured_chunks_concat_bytes :
  forall (A : Type) (is_nl is_term is_ws : A -> bool) (enc_char : A -> bytes) (normalized : list A) structural,
    (CHUNK_MIN_CHARS <= length normalized)%nat ->
    exists rs chunks,
      plan_text_chunks is_nl is_term is_ws (Some normalized) false structural
        = Ok (Some (DEFAULT_CHUNK_CHARS, rs, chunks)) /\
      (2 <= length chunks)%nat /\
      (forall c, In c chunks -> c <> []) /\
      concat (map (flat_map enc_char) chunks) = flat_map enc_char normalized.
Proof.
  intros A is_nl is_term is_ws enc_char t structural Hlen.
  destruct (plan_text_unstructured is_nl is_term is_ws t structural Hlen) as (rs & Hp & H2 & _ & Hcat & Hne & _).
  exists rs, (map (slice_text_range t) rs). split; [exact Hp|]. split; [rewrite map_length; exact H2|].
  split; [exact Hne|]. rewrite <- flat_map_concat, Hcat. reflexivity.
Qed.
