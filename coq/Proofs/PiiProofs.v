(* Proofs about Model/Pii.v (mask_pii = sequential replace_all passes, contains_pii = any
   is_match), for every pattern list, every replacement-token list and every Unicode table. *)
From MV Require Import Base.Prelude Model.Regex Model.Pii Proofs.RegexProofs Proofs.PassProofs.
Require Import ZifyBool ZifyNat.

Lemma hd_error_map {A B} (f : A -> B) l : hd_error (map f l) = option_map f (hd_error l).
Proof. destruct l; reflexivity. Qed.

Lemma nth_error_map' {A B} (f : A -> B) l : forall i, nth_error (map f l) i = option_map f (nth_error l i).
Proof. induction l as [|x l IH]; intros [|i]; cbn; auto. Qed.

Lemma firstn_len_app {A} (w t : list A) : firstn (length w) (w ++ t) = w.
Proof. induction w; cbn; [destruct t; reflexivity|f_equal; assumption]. Qed.
Lemma skipn_len_app {A} (w t : list A) : skipn (length w) (w ++ t) = t.
Proof. induction w; cbn; [reflexivity|assumption]. Qed.

Section Pii.
  Variables is_digit is_space is_word : N -> bool.
  Notation rm := (rm is_digit is_space is_word).
  Notation match_at := (match_at is_digit is_space is_word).
  Notation im := (im is_digit is_space is_word).
  Notation is_match := (is_match is_digit is_space is_word).
  Notation replace_all := (replace_all is_digit is_space is_word).
  Notation replace_all_m := (replace_all_m is_digit is_space is_word).
  Notation mask_pii := (mask_pii is_digit is_space is_word).
  Notation contains_pii := (contains_pii is_digit is_space is_word).
  Notation mask_m := (mask_m is_digit is_space is_word).
  Notation mask_marked := (mask_marked is_digit is_space is_word).
  Notation resid := (resid is_digit is_space is_word).
  Notation kc := (kc is_digit is_space is_word).
  Notation known_class := (known_class is_digit is_space is_word).
  Notation fsts := (map (@fst N nat)).

  (* -------------------------------------------------------- nothing detected => unchanged *)
  Lemma mask_no_match ps text :
    (forall rt, In rt ps -> is_match (fst rt) text = false) -> mask_pii ps text = text.
  Proof.
    unfold Pii.mask_pii. induction ps as [|rt ps IH]; intros H; cbn; [reflexivity|].
    rewrite replace_all_no_match by (apply H; left; reflexivity).
    apply IH. intros rt' Hin. apply H. right. exact Hin.
  Qed.

  Lemma contains_false_all contains_order text r :
    contains_pii contains_order text = false -> In r contains_order -> is_match r text = false.
  Proof.
    intros H Hin. destruct (is_match r text) eqn:E; [|reflexivity].
    unfold Pii.contains_pii in H. rewrite <- H. symmetry. apply existsb_exists. exists r. split; assumption.
  Qed.

  Theorem contains_false_unchanged mask_order contains_order text :
    incl (map fst mask_order) contains_order ->
    contains_pii contains_order text = false -> mask_pii mask_order text = text.
  Proof.
    intros Hincl H. apply mask_no_match. intros rt Hin.
    apply (contains_false_all contains_order); [exact H|]. apply Hincl. apply in_map. exact Hin.
  Qed.

  (* -------------------------------------------------------- the marked run erases to mask_pii *)
  Lemma mask_m_erase ps : forall j ms, fsts (mask_m j ps ms) = mask_pii ps (fsts ms).
  Proof.
    unfold Pii.mask_pii. induction ps as [|rt ps IH]; intros j ms; cbn; [reflexivity|].
    rewrite IH, replace_all_m_erase. reflexivity.
  Qed.

  Lemma mask_marked_erase ps text : fsts (mask_marked ps text) = mask_pii ps text.
  Proof.
    unfold Pii.mask_marked. rewrite mask_m_erase. f_equal.
    unfold mark. rewrite map_map. cbn. apply map_id.
  Qed.

  Lemma opt_fst_lasto (u : mtext) : option_map fst (lasto None u) = lasto None (fsts u).
  Proof. symmetry. apply (lasto_map fst None). Qed.

  (* -------------------------------------------------------- residual matches touch a token *)
  Definition window_clean (i : nat) (u c v : mtext) : Prop :=
    (forall y, lasto None u = Some y -> snd y < i) /\ (forall y, In y c -> snd y < i)
    /\ (forall y, hd_error v = Some y -> snd y < i).

  Definition toks_ok (ps : list (regex * list N)) : Prop := forall rt, In rt ps -> snd rt <> [].

  Lemma mark_ne j tok : tok <> [] -> mark j tok <> [].
  Proof. destruct tok; [congruence|discriminate]. Qed.
  Lemma mark_mark j tok y : In y (mark j tok) -> snd y = j.
  Proof. unfold mark. intros H. apply in_map_iff in H. destruct H as (x & <- & _). reflexivity. Qed.

  (* one pass, from the top *)
  Lemma pass_top r tok j ms u c v :
    tok <> [] -> replace_all_m r tok j ms = u ++ c ++ v ->
    (forall y, lasto None u = Some y -> snd y <> j) -> (forall y, In y c -> snd y <> j) ->
    (forall y, hd_error v = Some y -> snd y <> j) ->
    exists u' v', ms = u' ++ c ++ v' /\ lasto None u' = lasto None u /\ hd_error v' = hd_error v /\
                  match_at (S (length ms)) r (lasto None (fsts u')) (fsts (c ++ v')) = None.
  Proof.
    intros Hne E Hu Hc Hv. unfold Regex.replace_all_m in E.
    apply (pass_pullback is_digit is_space is_word _ r (mark j tok) j (mark_ne j tok Hne) (mark_mark j tok)
                         ms None (fsts ms) 0 false u c v eq_refl E); [|exact Hc|exact Hv].
    destruct (lasto None u) as [y|] eqn:El.
    - right. exists y. split; [reflexivity|]. apply Hu. reflexivity.
    - left. apply lasto_none_inv in El. repeat split; assumption.
  Qed.

  Lemma window_clean_ne i j u c v : window_clean i u c v -> i <= j ->
    (forall y, lasto None u = Some y -> snd y <> j) /\ (forall y, In y c -> snd y <> j)
    /\ (forall y, hd_error v = Some y -> snd y <> j).
  Proof.
    intros (H1 & H2 & H3) Hij. repeat split; intros y Hy.
    - specialize (H1 y Hy). lia.
    - specialize (H2 y Hy). lia.
    - specialize (H3 y Hy). lia.
  Qed.

  Lemma window_clean_transport i u c v u' v' :
    window_clean i u c v -> lasto None u' = lasto None u -> hd_error v' = hd_error v -> window_clean i u' c v'.
  Proof. intros (H1 & H2 & H3) El Eh. repeat split; intros y Hy; [apply H1|apply H2|apply H3]; congruence. Qed.

  (* a window of the final text holding nothing inserted by passes >= i is a window of the
     text before any run of passes numbered >= i *)
  Lemma pullback_multi : forall ps j ms u c v i,
    toks_ok ps -> mask_m j ps ms = u ++ c ++ v -> window_clean i u c v -> i <= j ->
    exists u' v', ms = u' ++ c ++ v' /\ lasto None u' = lasto None u /\ hd_error v' = hd_error v.
  Proof.
    induction ps as [|rt ps IH]; intros j ms u c v i Hok E Hw Hij; cbn in E.
    - exists u, v. repeat split. exact E.
    - destruct (IH (S j) _ u c v i (fun x Hx => Hok x (or_intror Hx)) E Hw ltac:(lia)) as (u1 & v1 & E1 & Hl1 & Hh1).
      pose proof (window_clean_transport _ _ _ _ _ _ Hw Hl1 Hh1) as Hw1.
      destruct (window_clean_ne _ j _ _ _ Hw1 Hij) as (A1 & A2 & A3).
      destruct (pass_top _ _ _ _ _ _ _ (Hok rt (or_introl eq_refl)) E1 A1 A2 A3) as (u0 & v0 & E0 & Hl0 & Hh0 & _).
      exists u0, v0. repeat split; congruence.
  Qed.

  (* THE residual theorem: in the result of passes j, j+1, ... a match of the pattern of
     pass j+i has, in its window, a code point inserted by pass j+i or a later one *)
  Theorem residual_touches_token : forall ps j ms i r tok u c v q,
    toks_ok ps -> nth_error ps i = Some (r, tok) ->
    mask_m j ps ms = u ++ c ++ v ->
    rm r (lasto None (fsts u), fsts (c ++ v)) (q, fsts v) ->
    ~ window_clean (j + i) u c v.
  Proof.
    induction ps as [|rt ps IH]; intros j ms i r tok u c v q Hok Hn E HR Hw; [destruct i; discriminate|].
    destruct i as [|i]; cbn in Hn, E.
    - injection Hn as ->. rewrite Nat.add_0_r in Hw. cbn [fst snd] in E.
      destruct (pullback_multi ps (S j) _ u c v j (fun x Hx => Hok x (or_intror Hx)) E Hw ltac:(lia)) as (u1 & v1 & E1 & Hl1 & Hh1).
      pose proof (window_clean_transport _ _ _ _ _ _ Hw Hl1 Hh1) as Hw1.
      destruct (window_clean_ne _ j _ _ _ Hw1 (le_n j)) as (A1 & A2 & A3).
      destruct (pass_top _ _ _ _ _ _ _ (Hok _ (or_introl eq_refl)) E1 A1 A2 A3) as (u0 & v0 & E0 & Hl0 & Hh0 & Hm).
      assert (Ep : lasto None (fsts u) = lasto None (fsts u0)).
      { rewrite <- !opt_fst_lasto. congruence. }
      assert (Eh : hd_error (fsts v0) = hd_error (fsts v)).
      { rewrite !hd_error_map. congruence. }
      rewrite map_app in HR, Hm.
      pose proof (rm_local is_digit is_space is_word r _ _ _ _ (fsts c) (fsts v0) HR eq_refl Eh) as HR0.
      rewrite Ep in HR0.
      apply (match_at_complete is_digit is_space is_word (S (length ms)) r _ _ _ _ HR0); [|exact Hm].
      rewrite E0, !app_length, !map_length. lia.
    - apply (IH (S j) _ i r tok u c v q (fun x Hx => Hok x (or_intror Hx)) Hn E HR).
      replace (S j + i) with (j + S i) by lia. exact Hw.
  Qed.

  (* -------------------------------------------------------- the boolean class *)
  Lemma window_cleanb_spec j u c v :
    window_cleanb j (lasto None u) c v = true -> window_clean j u c v.
  Proof.
    unfold window_cleanb, markb, window_clean. intros H.
    apply andb_prop in H. destruct H as [H H3]. apply andb_prop in H. destruct H as [H1 H2].
    repeat split; intros y Hy.
    - rewrite Hy in H1. apply Nat.ltb_lt. exact H1.
    - rewrite forallb_forall in H2. apply Nat.ltb_lt. apply H2. exact Hy.
    - rewrite Hy in H3. apply Nat.ltb_lt. exact H3.
  Qed.

  Lemma resid_true n r j full
        (H : forall u c v q, full = u ++ c ++ v ->
                             rm r (lasto None (fsts u), fsts (c ++ v)) (q, fsts v) -> ~ window_clean j u c v) :
    forall ms u0, full = u0 ++ ms ->
                  im n r (lasto None (fsts u0)) (fsts ms) = true ->
                  resid n r j (lasto None u0) (fsts ms) ms = true.
  Proof.
    assert (Here : forall ms u0 rest, full = u0 ++ ms ->
               match_at n r (lasto None (fsts u0)) (fsts ms) = Some rest ->
               negb (window_cleanb j (lasto None u0) (firstn (length (fsts ms) - length rest) ms)
                                   (skipn (length (fsts ms) - length rest) ms)) = true).
    { intros ms u0 rest Ef Em.
      destruct (match_at_sound _ _ _ _ _ _ _ _ Em) as (w & Ew & HR).
      assert (El : length (fsts ms) - length rest = length w) by (rewrite Ew, app_length; lia).
      rewrite El.
      set (c := firstn (length w) ms). set (v := skipn (length w) ms).
      assert (Ec : fsts c = w). { unfold c. rewrite <- firstn_map, Ew. apply firstn_len_app. }
      assert (Ev : fsts v = rest). { unfold v. rewrite <- skipn_map, Ew. apply skipn_len_app. }
      destruct (window_cleanb j (lasto None u0) c v) eqn:Eb; [|reflexivity]. exfalso.
      apply window_cleanb_spec in Eb.
      apply (H u0 c v (lasto (lasto None (fsts u0)) w)); [| |exact Eb].
      - rewrite Ef. f_equal. unfold c, v. symmetry. apply firstn_skipn.
      - rewrite map_app, Ec, Ev, <- Ew. exact HR. }
    induction ms as [|xm ms IH]; intros u0 Ef Him.
    - cbn [Pii.resid]. rewrite opt_fst_lasto. cbn [map] in *. cbn [Regex.im] in Him.
      destruct (match_at n r (lasto None (fsts u0)) []) as [rest|] eqn:Em; [|discriminate].
      pose proof (Here [] u0 rest Ef Em) as Hh. cbn [map] in Hh. rewrite Hh. reflexivity.
    - cbn [Pii.resid]. rewrite opt_fst_lasto. cbn [map tl] in *. cbn [Regex.im] in Him.
      destruct (match_at n r (lasto None (fsts u0)) (fst xm :: fsts ms)) as [rest|] eqn:Em.
      + pose proof (Here (xm :: ms) u0 rest Ef Em) as Hh. cbn [map] in Hh. rewrite Hh. reflexivity.
      + rewrite orb_false_l.
        specialize (IH (u0 ++ [xm])). rewrite lasto_snoc, map_app in IH. cbn [map] in IH. rewrite lasto_snoc in IH.
        apply IH; [rewrite <- app_assoc; exact Ef|exact Him].
  Qed.

  Lemma resid_im n r j : forall ms pm,
    resid n r j pm (fsts ms) ms = true -> im n r (option_map fst pm) (fsts ms) = true.
  Proof.
    induction ms as [|xm ms IH]; intros pm H; cbn [Pii.resid map tl] in H; cbn [Regex.im map].
    - destruct (match_at n r (option_map fst pm) []); [reflexivity|discriminate].
    - destruct (match_at n r (option_map fst pm) (fst xm :: fsts ms)); [reflexivity|].
      rewrite orb_false_l in H. apply (IH (Some xm) H).
  Qed.

  Lemma kc_nth fm : forall ps j i rt,
    nth_error ps i = Some rt ->
    resid (S (length fm)) (fst rt) (j + i) None (fsts fm) fm = true -> kc j ps fm = true.
  Proof.
    induction ps as [|rt0 ps IH]; intros j i rt Hn Hr; [destruct i; discriminate|].
    cbn [Pii.kc]. destruct i as [|i]; cbn in Hn.
    - injection Hn as ->. rewrite Nat.add_0_r in Hr. rewrite Hr. reflexivity.
    - rewrite (IH (S j) i rt Hn); [apply orb_true_r|].
      replace (S j + i) with (j + S i) by lia. exact Hr.
  Qed.

  Lemma kc_inv fm : forall ps j, kc j ps fm = true ->
    exists rt, In rt ps /\ is_match (fst rt) (fsts fm) = true.
  Proof.
    induction ps as [|rt ps IH]; intros j H; cbn [Pii.kc] in H; [discriminate|].
    apply orb_prop in H. destruct H as [H|H].
    - exists rt. split; [left; reflexivity|]. apply resid_im in H.
      unfold Regex.is_match. rewrite map_length. exact H.
    - destruct (IH _ H) as (rt' & Hin & Hm). exists rt'. split; [right; exact Hin|exact Hm].
  Qed.

  (* every detection that survives masking is in the class ... *)
  Theorem residual_in_known_class mask_order contains_order text :
    toks_ok mask_order -> incl contains_order (map fst mask_order) ->
    contains_pii contains_order (mask_pii mask_order text) = true -> known_class mask_order text = true.
  Proof.
    intros Hok Hincl H. unfold Pii.contains_pii in H. apply existsb_exists in H.
    destruct H as (r & Hin & Hm).
    apply Hincl in Hin. apply In_nth_error in Hin. destruct Hin as (i & Hi).
    rewrite nth_error_map' in Hi. destruct (nth_error mask_order i) as [[r' tok]|] eqn:En; [|discriminate].
    cbn in Hi. injection Hi as ->.
    unfold Pii.known_class. set (fm := mask_marked mask_order text).
    apply (kc_nth fm mask_order 1 i (r, tok) En). cbn [fst].
    apply (resid_true _ r (1 + i) fm) with (u0 := []); [|reflexivity|].
    - intros u c v q Ef HR. apply (residual_touches_token mask_order 1 (mark 0 text) i r tok u c v q Hok En); [|exact HR].
      rewrite <- Ef. reflexivity.
    - cbn [map lasto fold_left]. unfold fm. rewrite mask_marked_erase.
      unfold Regex.is_match in Hm. rewrite <- (mask_marked_erase mask_order text), map_length in Hm.
      rewrite mask_marked_erase in Hm. exact Hm.
  Qed.

  (* ... and the class holds nothing else *)
  Theorem known_class_is_residual mask_order contains_order text :
    incl (map fst mask_order) contains_order ->
    known_class mask_order text = true -> contains_pii contains_order (mask_pii mask_order text) = true.
  Proof.
    intros Hincl H. unfold Pii.known_class in H. apply kc_inv in H. destruct H as (rt & Hin & Hm).
    rewrite mask_marked_erase in Hm. unfold Pii.contains_pii. apply existsb_exists.
    exists (fst rt). split; [apply Hincl; apply in_map; exact Hin|exact Hm].
  Qed.

  Theorem outside_known mask_order contains_order text :
    toks_ok mask_order -> incl contains_order (map fst mask_order) -> incl (map fst mask_order) contains_order ->
    known_class mask_order text = false ->
    contains_pii contains_order (mask_pii mask_order text) = false
    /\ mask_pii mask_order (mask_pii mask_order text) = mask_pii mask_order text.
  Proof.
    intros Hok H1 H2 Hk.
    assert (Hc : contains_pii contains_order (mask_pii mask_order text) = false).
    { destruct (contains_pii contains_order (mask_pii mask_order text)) eqn:E; [|reflexivity].
      rewrite (residual_in_known_class _ _ _ Hok H1 E) in Hk. discriminate. }
    split; [exact Hc|]. apply (contains_false_unchanged _ contains_order); assumption.
  Qed.
End Pii.
