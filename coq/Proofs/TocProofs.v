From MV Require Import Base.Prelude Base.Facts Model.Bincode Model.Toc Proofs.BincodeProofs.
Require Import ZifyBool ZifyNat ZifyN.
Require MV.Gen.Consts.
Local Open Scope N_scope.

Lemma toc_schema_ok : schema_ok toc_schema = true.
Proof. vm_compute. reflexivity. Qed.
Lemma toc_v2_schema_ok : schema_ok toc_v2_schema = true.
Proof. vm_compute. reflexivity. Qed.
Lemma toc_v1_schema_ok : schema_ok toc_v1_schema = true.
Proof. vm_compute. reflexivity. Qed.

(* decode (encode t) = t, answered by the current-layout branch *)
Theorem toc_decode_encode t : wt toc_schema t = true -> toc_decode (toc_encode t) = Ok t.
Proof.
  intros Hwt. pose proof (codec_roundtrip toc_schema toc_schema_ok t [] Hwt) as E. rewrite app_nil_r in E.
  unfold toc_decode, toc_encode. rewrite E. reflexivity.
Qed.

Theorem toc_decode_trailing t rest :
  wt toc_schema t = true -> rest <> [] -> toc_decode (toc_encode t ++ rest) = Err E_TRAILING.
Proof.
  intros Hwt Hr. pose proof (codec_roundtrip toc_schema toc_schema_ok t rest Hwt) as E.
  unfold toc_decode, toc_encode. rewrite E. destruct rest; [contradiction | reflexivity].
Qed.

(* valid legacy images: answered through the fallback exactly when the current layout errs *)
Theorem toc_decode_v2 v :
  wt toc_v2_schema v = true -> (exists k, dec toc_schema (enc toc_v2_schema v) = Err k) ->
  toc_decode (enc toc_v2_schema v) = Ok (from_v2 v).
Proof.
  intros Hwt [k Hk]. pose proof (codec_roundtrip toc_v2_schema toc_v2_schema_ok v [] Hwt) as E. rewrite app_nil_r in E.
  unfold toc_decode. rewrite Hk, E. reflexivity.
Qed.

Theorem toc_decode_v1 v :
  wt toc_v1_schema v = true -> (exists k, dec toc_schema (enc toc_v1_schema v) = Err k) ->
  (exists k, dec toc_v2_schema (enc toc_v1_schema v) = Err k) ->
  toc_decode (enc toc_v1_schema v) = Ok (from_v1 v).
Proof.
  intros Hwt [k Hk] [k2 Hk2]. pose proof (codec_roundtrip toc_v1_schema toc_v1_schema_ok v [] Hwt) as E. rewrite app_nil_r in E.
  unfold toc_decode. rewrite Hk, Hk2, E. reflexivity.
Qed.

(* which branch answered *)
Theorem toc_decode_ok_inv b t :
  toc_decode b = Ok t ->
  dec toc_schema b = Ok (t, []) \/
  ((exists k, dec toc_schema b = Err k) /\ exists v, dec toc_v2_schema b = Ok (v, []) /\ t = from_v2 v) \/
  ((exists k, dec toc_schema b = Err k) /\ (exists k, dec toc_v2_schema b = Err k) /\
   exists v, dec toc_v1_schema b = Ok (v, []) /\ t = from_v1 v).
Proof.
  unfold toc_decode.
  destruct (dec toc_schema b) as [[v r]|k|p] eqn:E0.
  - destruct r; [|discriminate]. intros E; inversion E; subst. left; reflexivity.
  - destruct (dec toc_v2_schema b) as [[v r]|k2|p] eqn:E2.
    + destruct r; [|discriminate]. intros E; inversion E; subst. right; left. split; [eexists; reflexivity|]. exists v. split; reflexivity.
    + destruct (dec toc_v1_schema b) as [[v r]|k1|p] eqn:E1; try discriminate.
      destruct r; [|discriminate]. intros E; inversion E; subst. right; right.
      split; [eexists; reflexivity|]. split; [eexists; reflexivity|]. exists v. split; reflexivity.
    + discriminate.
  - discriminate.
Qed.

(* an image with bytes left over after a successful layout is never accepted *)
Theorem toc_decode_rejects_leftover b v r :
  dec toc_schema b = Ok (v, r) -> r <> [] -> toc_decode b = Err E_TRAILING.
Proof. intros E Hr. unfold toc_decode. rewrite E. destruct r; [contradiction | reflexivity]. Qed.

(* ---------- checksum ---------- *)
Lemma value_eqb_str a v : value_eqb (VStr a) v = true -> v = VStr a.
Proof. destruct v; cbn [value_eqb]; try discriminate. intros E. apply bytes_eqb_spec in E. subst; reflexivity. Qed.

Lemma value_eqb_str_refl a : value_eqb (VStr a) (VStr a) = true.
Proof. cbn [value_eqb]. apply bytes_eqb_refl. Qed.

Section ChecksumProofs.
  Variable H : bytes -> bytes.

  Theorem verify_checksum_stamp l :
    length l = 16%nat -> verify_checksum H (stamp H (VList l)) = true.
  Proof.
    intros HL. unfold stamp, verify_checksum. cbn [set_checksum field].
    assert (L15 : length (firstn 15 l) = 15%nat) by (rewrite firstn_length; lia).
    rewrite app_nth2 by lia. rewrite L15. cbn [Nat.sub nth].
    rewrite (firstn_app_exact (firstn 15 l)) by exact L15.
    rewrite value_eqb_str_refl. reflexivity.
  Qed.

  Theorem verify_checksum_sound t :
    verify_checksum H t = true ->
    let z := set_checksum zero32 t in
    exists img, In img [enc toc_schema z; enc toc_v2_schema (to_v2 z); enc toc_v1_schema (to_v1 z)] /\
                field 15 t = VStr (H img).
  Proof.
    unfold verify_checksum. cbv zeta.
    destruct (value_eqb (VStr (H (enc toc_schema (set_checksum zero32 t)))) (field 15 t)) eqn:E0.
    { intros _. eexists. split; [left; reflexivity|]. apply value_eqb_str in E0. exact E0. }
    destruct (is_none (field 12 t) && value_eqb (VStr (H (enc toc_v2_schema (to_v2 (set_checksum zero32 t))))) (field 15 t)) eqn:E2.
    { intros _. apply andb_true_iff in E2 as [_ E2]. eexists. split; [right; left; reflexivity|]. apply value_eqb_str in E2. exact E2. }
    destruct (is_none (field 6 t) && is_none (field 12 t) && value_eqb (VStr (H (enc toc_v1_schema (to_v1 (set_checksum zero32 t))))) (field 15 t)) eqn:E1.
    { intros _. apply andb_true_iff in E1 as [_ E1]. eexists. split; [right; right; left; reflexivity|]. apply value_eqb_str in E1. exact E1. }
    discriminate.
  Qed.
End ChecksumProofs.

Lemma toc_consts_tied :
  MAX_TOC_SEGMENTS = MV.Gen.Consts.TOC_MAX_SEGMENTS /\ MAX_TOC_FRAMES = MV.Gen.Consts.TOC_MAX_FRAMES /\
  MAX_SEGMENT_CATALOG_ENTRIES = MV.Gen.Consts.TOC_MAX_CATALOG_ENTRIES /\ MAX_TAGS = MV.Gen.Consts.FRAME_MAX_TAGS /\
  MAX_LABELS = MV.Gen.Consts.FRAME_MAX_LABELS /\ MAX_CONTENT_DATES = MV.Gen.Consts.FRAME_MAX_CONTENT_DATES /\
  MAX_EXTRA_METADATA_ENTRIES = MV.Gen.Consts.FRAME_MAX_EXTRA_METADATA.
Proof. repeat split; reflexivity. Qed.
