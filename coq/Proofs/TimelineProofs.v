(* Proofs for C15 (timeline): the repaired build_timeline equals the specification on every
   reachable state; the code as it is does so exactly outside the known class; the
   specification is chronological, exactly-once, inclusive in its bounds, prefix-closed
   under limit and reversed exactly by `reverse`. *)
From MV Require Import Base.Prelude Model.Timeline Proofs.TimelineSort.
From Coq Require Import Sorting.Sorted Sorting.Permutation.
Require Import ZifyBool ZifyNat ZifyN.

(* ------------------------------------------------------------------ small list facts *)
Lemma In_firstn_in {A} (l : list A) n x : In x (firstn n l) -> In x l.
Proof. intros H. rewrite <- (firstn_skipn n l). apply in_or_app; left; exact H. Qed.

Lemma Forall_firstn_in {A} (P : A -> Prop) (l : list A) n : Forall P l -> Forall P (firstn n l).
Proof. rewrite !Forall_forall. intros H x Hx. apply H, (In_firstn_in _ _ _ Hx). Qed.

Lemma Forall_filter_in {A} (P : A -> Prop) p (l : list A) : Forall P l -> Forall P (filter p l).
Proof. rewrite !Forall_forall. intros H x Hx. apply filter_In in Hx as [Hx _]. apply H, Hx. Qed.

Lemma Forall_rev_in {A} (P : A -> Prop) (l : list A) : Forall P l -> Forall P (rev l).
Proof. rewrite !Forall_forall. intros H x Hx. apply H, in_rev, Hx. Qed.

Lemma firstn_map_comm {A B} (f : A -> B) (l : list A) : forall n, firstn n (map f l) = map f (firstn n l).
Proof. induction l as [|x r IH]; intros [|n]; cbn [firstn map]; try reflexivity. rewrite IH; reflexivity. Qed.

Lemma nodup_map_filter {A B} (f : A -> B) p (l : list A) : NoDup (map f l) -> NoDup (map f (filter p l)).
Proof.
  induction l as [|x r IH]; cbn [map filter]; intros H; [constructor|].
  inversion H as [|? ? Hn Hr]; subst. destruct (p x); [|apply IH, Hr].
  cbn [map]. constructor; [|apply IH, Hr].
  intros Hin. apply Hn. apply in_map_iff in Hin as (y & Hy & Hin). apply filter_In in Hin as [Hin _].
  apply in_map_iff. exists y; split; assumption.
Qed.

Lemma nodup_map_firstn {A B} (f : A -> B) (l : list A) : forall n, NoDup (map f l) -> NoDup (map f (firstn n l)).
Proof.
  induction l as [|x r IH]; intros [|n] H; cbn [firstn map]; try constructor.
  - inversion H as [|? ? Hn Hr]; subst. intros Hin. apply Hn.
    apply in_map_iff in Hin as (y & Hy & Hin). apply in_map_iff. exists y; split; [exact Hy|].
    apply (In_firstn_in _ _ _ Hin).
  - inversion H; subst. apply IH; assumption.
Qed.

Lemma SS_firstn {A} (R : A -> A -> Prop) (l : list A) : forall n, StronglySorted R l -> StronglySorted R (firstn n l).
Proof.
  induction l as [|x r IH]; intros [|n] H; cbn [firstn]; try constructor.
  - inversion H; subst. apply IH; assumption.
  - inversion H; subst. apply Forall_firstn_in; assumption.
Qed.

Lemma SS_snoc {A} (R : A -> A -> Prop) (l : list A) x :
  StronglySorted R l -> Forall (fun y => R y x) l -> StronglySorted R (l ++ [x]).
Proof.
  induction l as [|y r IH]; cbn [app]; intros Hs Hf; [constructor; constructor|].
  inversion Hs as [|? ? Hr Hy]; subst. inversion Hf as [|? ? Hyx Hrx]; subst.
  constructor; [apply IH; assumption|]. apply Forall_app; split; [exact Hy|constructor; [exact Hyx|constructor]].
Qed.

Lemma SS_rev {A} (R : A -> A -> Prop) (l : list A) :
  StronglySorted R l -> StronglySorted (fun a b => R b a) (rev l).
Proof.
  induction 1 as [|x r Hr IH Hx]; cbn [rev]; [constructor|].
  apply SS_snoc; [exact IH|]. apply Forall_rev_in. exact Hx.
Qed.

Lemma SS_map {A B} (f : A -> B) (R : B -> B -> Prop) (l : list A) :
  StronglySorted (fun a b => R (f a) (f b)) l -> StronglySorted R (map f l).
Proof.
  induction 1 as [|x r Hr IH Hx]; cbn [map]; [constructor|].
  constructor; [exact IH|]. apply Forall_map. exact Hx.
Qed.

Lemma perm_filter_split {A} (p q : A -> bool) (l : list A) :
  (forall x, p x && q x = false) ->
  Permutation (filter p l ++ filter q l) (filter (fun x => p x || q x) l).
Proof.
  intros Hd. induction l as [|x r IH]; cbn [filter app]; [constructor|].
  specialize (Hd x). destruct (p x) eqn:Ep, (q x) eqn:Eq; cbn [orb app]; try discriminate.
  - apply perm_skip, IH.
  - eapply Permutation_trans; [apply Permutation_sym, Permutation_middle|]. apply perm_skip, IH.
  - exact IH.
Qed.

(* ------------------------------------------------------------------ dense frame tables *)
(* frame i has id i: the invariant of C06 (frame_id = toc.frames.len() at insertion) *)
Definition dense (frames : list tframe) : Prop :=
  forall i f, nth_error frames i = Some f -> tf_id f = N.of_nat i.

Definition dense_from (k : N) (frames : list tframe) : Prop :=
  forall i f, nth_error frames i = Some f -> tf_id f = (k + N.of_nat i)%N.

Lemma dense_is_from0 frames : dense frames <-> dense_from 0 frames.
Proof. unfold dense, dense_from. split; intros H i f Hi; rewrite (H i f Hi); lia. Qed.

Lemma dense_from_ids k frames :
  dense_from k frames -> NoDup (map tf_id frames) /\ Forall (fun f => (k <= tf_id f)%N) frames.
Proof.
  revert k. induction frames as [|x r IH]; intros k Hd; [split; constructor|].
  assert (Hx : tf_id x = k) by (rewrite (Hd 0%nat x eq_refl); lia).
  assert (Hr : dense_from (k + 1) r).
  { intros i f Hi. rewrite (Hd (S i) f Hi). lia. }
  destruct (IH _ Hr) as [Hn Hge]. split.
  - cbn [map]. constructor; [|exact Hn]. intros Hin. apply in_map_iff in Hin as (y & Hy & Hin).
    rewrite Forall_forall in Hge. specialize (Hge y Hin). lia.
  - constructor; [lia|]. eapply Forall_impl; [|exact Hge]. cbn. intros; lia.
Qed.

Lemma dense_nodup_ids frames : dense frames -> NoDup (map tf_id frames).
Proof. intros H. apply (proj1 (dense_is_from0 frames)) in H. apply (dense_from_ids 0 frames H). Qed.

Lemma dense_lookup frames f : dense frames -> In f frames -> nth_error frames (N.to_nat (tf_id f)) = Some f.
Proof.
  intros Hd Hin. apply In_nth_error in Hin as [i Hi]. rewrite (Hd i f Hi), Nat2N.id. exact Hi.
Qed.

Lemma dense_inj frames f g : dense frames -> In f frames -> In g frames -> tf_id f = tf_id g -> f = g.
Proof.
  intros Hd Hf Hg E. pose proof (dense_lookup _ _ Hd Hf) as H1. pose proof (dense_lookup _ _ Hd Hg) as H2.
  rewrite E in H1. congruence.
Qed.

Lemma dense_nil : dense [].
Proof. intros [|i] f H; discriminate. Qed.

(* ------------------------------------------------------------------ resolve / finish *)
Definition good (frames : list tframe) (e : tentry) : Prop := resolve frames e = [swap_entry e].

Lemma resolve_good frames f : dense frames -> In f frames -> active f = true -> good frames (entry_of f).
Proof.
  intros Hd Hin Ha. unfold good, resolve, entry_of, swap_entry. cbn [fst snd].
  rewrite (dense_lookup _ _ Hd Hin), Ha. reflexivity.
Qed.

Lemma flat_map_good frames l : Forall (good frames) l -> flat_map (resolve frames) l = map swap_entry l.
Proof.
  induction 1 as [|x r Hx _ IH]; cbn [flat_map map]; [reflexivity|]. rewrite Hx, IH. reflexivity.
Qed.

Definition ordered_of (q : tquery) (entries : list tentry) : list tentry :=
  let kept := filter (in_range (q_since q) (q_until q)) entries in
  if q_reverse q then rev kept else kept.

Definition limited (q : tquery) {A} (l : list A) : list A :=
  match q_limit q with None => l | Some k => firstn (N.to_nat k) l end.

Lemma timeline_spec_unfold frames q :
  timeline_spec frames q = map swap_entry (limited q (ordered_of q (timeline_all frames))).
Proof. reflexivity. Qed.

Lemma ordered_of_good frames q es : Forall (good frames) es -> Forall (good frames) (ordered_of q es).
Proof.
  intros H. unfold ordered_of. destruct (q_reverse q); [apply Forall_rev_in|]; apply Forall_filter_in, H.
Qed.

Lemma finish_good frames q es :
  Forall (good frames) es -> finish frames q es = map swap_entry (limited q (ordered_of q es)).
Proof.
  intros Hg. unfold finish. fold (ordered_of q es).
  pose proof (ordered_of_good frames q es Hg) as Ho.
  rewrite flat_map_good.
  - unfold limited. destruct (q_limit q) as [k|]; [rewrite take_N_firstn|rewrite take_N_all]; reflexivity.
  - rewrite take_N_firstn. apply Forall_firstn_in, Ho.
Qed.

(* ------------------------------------------------------------------ the index and the merged list *)
Definition image_frame (f : tframe) : bool := active f && is_image f.

Lemma role_disjoint f : indexed_frame f && image_frame f = false.
Proof. unfold indexed_frame, image_frame, is_document, is_image. destruct (active f); cbn [andb]; lia. Qed.

Lemma eligible_split f : eligible f = indexed_frame f || image_frame f.
Proof. unfold eligible, indexed_frame, image_frame. destruct (active f), (is_document f), (is_image f); reflexivity. Qed.

Lemma in_time_entries frames e :
  In e (rebuild_time_index frames) <-> exists f, In f frames /\ indexed_frame f = true /\ e = entry_of f.
Proof.
  unfold rebuild_time_index, append_track, time_entries. split.
  - intros H. apply (Permutation_in _ (sort_entries_perm _)) in H.
    apply in_map_iff in H as (f & Hf & Hin). apply filter_In in Hin as [Hin Hp]. exists f; auto.
  - intros (f & Hin & Hp & ->). apply (Permutation_in _ (Permutation_sym (sort_entries_perm _))).
    apply in_map_iff. exists f; split; [reflexivity|]. apply filter_In; auto.
Qed.

Lemma rebuild_sorted frames : esorted (rebuild_time_index frames).
Proof. apply sort_entries_sorted. Qed.

Lemma read_track_rebuild frames : read_track (rebuild_time_index frames) = Ok (rebuild_time_index frames).
Proof.
  unfold read_track. replace (sortedb entry_leb (rebuild_time_index frames)) with true; [reflexivity|].
  symmetry. apply esortedb_iff, rebuild_sorted.
Qed.

(* the `!indexed_ids.contains(&frame.id)` test never fires on an image frame: the index
   holds ids of Document frames only, and ids are unique *)
Lemma extra_images_rebuild frames :
  dense frames -> extra_images frames (rebuild_time_index frames) = map entry_of (filter image_frame frames).
Proof.
  intros Hd. unfold extra_images. f_equal. apply filter_ext_in. intros f Hin.
  unfold extra_image. fold (image_frame f). destruct (image_frame f) eqn:Ei; [|reflexivity].
  cbn [andb]. apply negb_true_iff. destruct (mem_id _ _) eqn:Em; [|reflexivity]. exfalso.
  unfold mem_id in Em. apply existsb_exists in Em as (id & Hid & E). apply N.eqb_eq in E. subst id.
  apply in_map_iff in Hid as (e & He & Hein). apply in_time_entries in Hein as (g & Hg & Hpg & ->).
  cbn [entry_of snd] in He. assert (g = f) by (apply (dense_inj frames); auto). subst g.
  pose proof (role_disjoint f) as Hx. rewrite Hpg, Ei in Hx. discriminate.
Qed.

Lemma merged_perm frames :
  Permutation (time_entries frames ++ map entry_of (filter image_frame frames))
              (map entry_of (filter eligible frames)).
Proof.
  unfold time_entries. rewrite <- map_app. apply Permutation_map.
  rewrite (filter_ext eligible (fun f => indexed_frame f || image_frame f) eligible_split).
  apply perm_filter_split, role_disjoint.
Qed.

Lemma merged_sorted_is_all frames :
  dense frames ->
  sort_entries (rebuild_time_index frames ++ extra_images frames (rebuild_time_index frames)) = timeline_all frames.
Proof.
  intros Hd. rewrite (extra_images_rebuild _ Hd). unfold rebuild_time_index, append_track.
  rewrite sort_entries_app_l. unfold timeline_all. apply sort_entries_perm_eq, merged_perm.
Qed.

Lemma in_timeline_all frames e :
  In e (timeline_all frames) <-> exists f, In f frames /\ eligible f = true /\ e = entry_of f.
Proof.
  unfold timeline_all. split.
  - intros H. apply (Permutation_in _ (sort_entries_perm _)) in H.
    apply in_map_iff in H as (f & Hf & Hin). apply filter_In in Hin as [Hin Hp]. exists f; auto.
  - intros (f & Hin & Hp & ->). apply (Permutation_in _ (Permutation_sym (sort_entries_perm _))).
    apply in_map_iff. exists f; split; [reflexivity|]. apply filter_In; auto.
Qed.

Lemma all_good frames : dense frames -> Forall (good frames) (timeline_all frames).
Proof.
  intros Hd. apply Forall_forall. intros e He. apply in_timeline_all in He as (f & Hin & Hp & ->).
  apply resolve_good; auto. unfold eligible in Hp. apply andb_true_iff in Hp. tauto.
Qed.

(* ------------------------------------------------------------------ main equations *)
Lemma fixed_eq frames q :
  dense frames ->
  build_timeline_fixed frames (Some (rebuild_time_index frames)) q = Ok (timeline_spec frames q).
Proof.
  intros Hd. unfold build_timeline_fixed. rewrite read_track_rebuild. cbn [bind_o].
  rewrite (merged_sorted_is_all _ Hd), (finish_good _ _ _ (all_good _ Hd)). reflexivity.
Qed.

Lemma asis_eq frames q :
  dense frames -> known_class frames = false ->
  build_timeline frames (Some (rebuild_time_index frames)) q = Ok (timeline_spec frames q).
Proof.
  intros Hd Hk. rewrite <- (fixed_eq _ q Hd). unfold build_timeline, build_timeline_fixed.
  rewrite read_track_rebuild. cbn [bind_o]. f_equal. f_equal. symmetry. apply sort_entries_id.
  apply esortedb_iff. unfold known_class, merged_as_is in Hk. apply negb_false_iff in Hk. exact Hk.
Qed.

Lemma finish_nil frames q : finish frames q [] = [].
Proof. unfold finish. cbn [filter]. destruct (q_reverse q); cbn [rev take_N flat_map]; reflexivity. Qed.

Lemma spec_nil q : timeline_spec [] q = [].
Proof.
  rewrite timeline_spec_unfold. unfold timeline_all, ordered_of, limited. cbn [filter map sort_entries isort fold_right].
  destruct (q_reverse q), (q_limit q); cbn [rev]; rewrite ?firstn_nil; reflexivity.
Qed.

Lemma noindex_empty_fixed q : build_timeline_fixed [] None q = Ok (timeline_spec [] q).
Proof. unfold build_timeline_fixed. cbn [bind_o filter map]. rewrite finish_nil, spec_nil. reflexivity. Qed.

Lemma noindex_empty_asis q : build_timeline [] None q = Ok (timeline_spec [] q).
Proof. unfold build_timeline. cbn [bind_o filter map]. rewrite finish_nil, spec_nil. reflexivity. Qed.

(* ------------------------------------------------------------------ the known class is exact *)
Definition q_all : tquery := mkQ None None None false.

Lemma in_range_none l : filter (in_range None None) l = l.
Proof. induction l as [|x r IH]; cbn [filter in_range andb]; [reflexivity|]. rewrite IH; reflexivity. Qed.

Lemma swap_entry_inj l1 : forall l2, map swap_entry l1 = map swap_entry l2 -> l1 = l2.
Proof.
  induction l1 as [|[a b] r IH]; intros [|[c d] r2] H; cbn [map] in H; try discriminate; [reflexivity|].
  unfold swap_entry in H at 1 3. cbn [fst snd] in H. inversion H; subst. f_equal. apply IH; assumption.
Qed.

Lemma merged_good frames : dense frames -> Forall (good frames) (merged_as_is frames).
Proof.
  intros Hd. unfold merged_as_is. rewrite (extra_images_rebuild _ Hd). apply Forall_app; split; apply Forall_forall; intros e He.
  - apply in_time_entries in He as (f & Hin & Hp & ->). apply resolve_good; auto.
    unfold indexed_frame in Hp. apply andb_true_iff in Hp; tauto.
  - apply in_map_iff in He as (f & <- & Hin). apply filter_In in Hin as [Hin Hp]. apply resolve_good; auto.
    unfold image_frame in Hp. apply andb_true_iff in Hp; tauto.
Qed.

Lemma asis_all frames :
  dense frames -> build_timeline frames (Some (rebuild_time_index frames)) q_all = Ok (map swap_entry (merged_as_is frames)).
Proof.
  intros Hd. unfold build_timeline. rewrite read_track_rebuild. cbn [bind_o].
  fold (merged_as_is frames). rewrite (finish_good _ _ _ (merged_good _ Hd)).
  unfold limited, ordered_of, q_all. cbn [q_limit q_since q_until q_reverse]. rewrite in_range_none. reflexivity.
Qed.

Lemma known_class_exact frames :
  dense frames -> known_class frames = true ->
  build_timeline frames (Some (rebuild_time_index frames)) q_all <> Ok (timeline_spec frames q_all).
Proof.
  intros Hd Hk E. rewrite (asis_all _ Hd) in E. inversion E as [E1]. clear E.
  rewrite timeline_spec_unfold in E1. unfold limited, ordered_of, q_all in E1.
  cbn [q_limit q_since q_until q_reverse] in E1. rewrite in_range_none in E1.
  apply swap_entry_inj in E1. unfold known_class in Hk. apply negb_true_iff in Hk.
  assert (Hs : sortedb entry_leb (merged_as_is frames) = true).
  { rewrite E1. apply esortedb_iff. apply sort_entries_sorted. }
  congruence.
Qed.

(* ------------------------------------------------------------------ reachable states *)
Definition index_ok (frames : list tframe) (index : option (list tentry)) : Prop :=
  index = Some (rebuild_time_index frames) \/ (index = None /\ frames = []).

Definition tinv (s : tstate) : Prop := dense (ts_frames s) /\ index_ok (ts_frames s) (ts_index s).

Lemma upd_nth_length {A} (g : A -> A) (l : list A) : forall n, length (upd_nth n g l) = length l.
Proof. induction l as [|x r IH]; intros [|n]; cbn [upd_nth length]; try reflexivity. rewrite IH; reflexivity. Qed.

Lemma upd_nth_nth {A} (g : A -> A) (l : list A) : forall n i y,
  nth_error (upd_nth n g l) i = Some y -> exists x, nth_error l i = Some x /\ (y = x \/ y = g x).
Proof.
  induction l as [|x r IH]; intros [|n] [|i] y H; cbn [upd_nth nth_error] in *; try discriminate.
  - inversion H; subst. exists x; auto.
  - exists y; auto.
  - inversion H; subst. exists y; auto.
  - apply (IH n i y H).
Qed.

Lemma dense_upd frames n st : dense frames -> dense (upd_nth n (fun g => set_status g st) frames).
Proof.
  intros Hd i y Hy. apply upd_nth_nth in Hy as (x & Hx & [->| ->]); [apply (Hd i x Hx)|].
  cbn [set_status tf_id]. apply (Hd i x Hx).
Qed.

Lemma dense_snoc frames ts role st :
  dense frames -> dense (frames ++ [mkTF (N.of_nat (length frames)) ts role st]).
Proof.
  intros Hd i f Hi. destruct (Nat.lt_ge_cases i (length frames)) as [Hlt|Hge].
  - rewrite nth_error_app1 in Hi by exact Hlt. apply (Hd i f Hi).
  - rewrite nth_error_app2 in Hi by exact Hge.
    destruct (i - length frames)%nat as [|k] eqn:Ek; cbn [nth_error] in Hi.
    + inversion Hi; subst. cbn [tf_id]. f_equal. lia.
    + destruct k; discriminate.
Qed.

Lemma apply_rec_dense frames r : dense frames -> dense (apply_rec frames r).
Proof.
  intros Hd. destruct r as [ts role [p|]|t]; cbn [apply_rec].
  - rewrite <- (upd_nth_length (fun g => set_status g 1) frames (N.to_nat p)). apply dense_snoc, dense_upd, Hd.
  - apply dense_snoc, Hd.
  - apply dense_upd, Hd.
Qed.

Lemma apply_rec_length frames r : (length frames <= length (apply_rec frames r))%nat.
Proof.
  destruct r as [ts role [p|]|t]; cbn [apply_rec]; rewrite ?app_length, ?upd_nth_length; cbn [length]; lia.
Qed.

Lemma apply_recs_dense recs : forall frames, dense frames -> dense (fold_left apply_rec recs frames).
Proof. induction recs as [|r rs IH]; intros frames Hd; cbn [fold_left]; [exact Hd|]. apply IH, apply_rec_dense, Hd. Qed.

Lemma apply_recs_length recs : forall frames, (length frames <= length (fold_left apply_rec recs frames))%nat.
Proof.
  induction recs as [|r rs IH]; intros frames; cbn [fold_left]; [lia|].
  pose proof (apply_rec_length frames r). pose proof (IH (apply_rec frames r)). lia.
Qed.

Lemma rebuild_indexes_ok engines fr index :
  (fr = [] -> index_ok [] index) -> index_ok fr (rebuild_indexes engines fr index).
Proof.
  intros H. unfold rebuild_indexes. destruct fr as [|x r].
  - destruct engines; cbn [negb andb]; [left; reflexivity|apply H; reflexivity].
  - cbn [andb]. left; reflexivity.
Qed.

Lemma index_ok_shrink (frames fr : list tframe) index :
  index_ok frames index -> (length frames <= length fr)%nat -> fr = [] -> index_ok [] index.
Proof.
  intros Hok Hl ->. destruct frames as [|x r]; [exact Hok|cbn [length] in Hl; lia].
Qed.

Lemma apply_pending_inv engines s : tinv s -> tinv (apply_pending engines s).
Proof.
  intros [Hd Hok]. unfold apply_pending. destruct (ts_pending s) as [|r rs] eqn:Ep; [split; assumption|].
  set (fr := fold_left apply_rec (r :: rs) (ts_frames s)). split; cbn [ts_frames ts_index].
  - apply apply_recs_dense, Hd.
  - apply rebuild_indexes_ok. apply (index_ok_shrink _ _ _ Hok). apply apply_recs_length.
Qed.

Lemma tstep_inv engines s op : tinv s -> tinv (tstep engines s op).
Proof.
  intros Hi. destruct op as [ts role n|t ots role|t| | |force]; cbn [tstep].
  - exact Hi.
  - destruct (nth_error _ _) as [old|]; [destruct (active old)|]; exact Hi.
  - destruct (nth_error _ _) as [old|]; [destruct (active old)|]; exact Hi.
  - apply apply_pending_inv, Hi.
  - apply apply_pending_inv, Hi.
  - pose proof (apply_pending_inv engines s Hi) as [Hd Hok].
    destruct (force || _); [|split; assumption]. split; cbn [ts_frames ts_index]; [exact Hd|].
    apply rebuild_indexes_ok. intros E. rewrite E in Hok. exact Hok.
Qed.

Lemma tinv0 : tinv tstate0.
Proof. split; [apply dense_nil|right; split; reflexivity]. Qed.

Lemma trun_inv engines ops : tinv (trun engines ops).
Proof.
  unfold trun. generalize tinv0. generalize tstate0. induction ops as [|op r IH]; intros s Hs; cbn [fold_left]; [exact Hs|].
  apply IH, tstep_inv, Hs.
Qed.

Lemma fixed_reachable engines ops q :
  let s := trun engines ops in
  build_timeline_fixed (ts_frames s) (ts_index s) q = Ok (timeline_spec (ts_frames s) q).
Proof.
  intros s. destruct (trun_inv engines ops) as [Hd [Hi|[Hi Hf]]]; fold s in Hd, Hi |- *.
  - rewrite Hi. apply fixed_eq, Hd.
  - fold s in Hf. rewrite Hi, Hf. apply noindex_empty_fixed.
Qed.

Lemma asis_reachable engines ops q :
  let s := trun engines ops in
  known_class (ts_frames s) = false ->
  build_timeline (ts_frames s) (ts_index s) q = Ok (timeline_spec (ts_frames s) q).
Proof.
  intros s Hk. destruct (trun_inv engines ops) as [Hd [Hi|[Hi Hf]]]; fold s in Hd, Hi |- *.
  - rewrite Hi. apply asis_eq; assumption.
  - fold s in Hf. rewrite Hi, Hf. apply noindex_empty_asis.
Qed.

Lemma reachable_dense engines ops : dense (ts_frames (trun engines ops)).
Proof. apply (trun_inv engines ops). Qed.

(* ------------------------------------------------------------------ what the specification says *)
(* output order: (id, ts) pairs compared as (ts, id) *)
Definition out_le (a b : N * Z) : Prop := entry_leb (snd a, fst a) (snd b, fst b) = true.

Lemma all_sorted frames : esorted (timeline_all frames).
Proof. apply sort_entries_sorted. Qed.

Lemma spec_chronological frames q :
  if q_reverse q then StronglySorted (fun a b => out_le b a) (timeline_spec frames q)
  else StronglySorted out_le (timeline_spec frames q).
Proof.
  rewrite timeline_spec_unfold.
  assert (Hk : StronglySorted (fun a b => entry_leb a b = true)
                 (filter (in_range (q_since q) (q_until q)) (timeline_all frames))).
  { apply efilter_sorted, all_sorted. }
  unfold ordered_of. destruct (q_reverse q).
  - apply SS_map. unfold limited.
    assert (Hr : StronglySorted (fun a b => out_le (swap_entry b) (swap_entry a))
                   (rev (filter (in_range (q_since q) (q_until q)) (timeline_all frames)))).
    { apply SS_rev in Hk. eapply StronglySorted_ind with (P := fun l => StronglySorted _ l); [constructor| |exact Hk].
      intros a l _ IH Hf. constructor; [exact IH|]. eapply Forall_impl; [|exact Hf].
      intros [t i] Hb. destruct a as [t' i']. exact Hb. }
    destruct (q_limit q); [apply SS_firstn|]; exact Hr.
  - apply SS_map. unfold limited.
    assert (Hr : StronglySorted (fun a b => out_le (swap_entry a) (swap_entry b))
                   (filter (in_range (q_since q) (q_until q)) (timeline_all frames))).
    { eapply StronglySorted_ind with (P := fun l => StronglySorted _ l); [constructor| |exact Hk].
      intros a l _ IH Hf. constructor; [exact IH|]. eapply Forall_impl; [|exact Hf].
      intros [t i] Hb. destruct a as [t' i']. exact Hb. }
    destruct (q_limit q); [apply SS_firstn|]; exact Hr.
Qed.

Lemma all_nodup_ids frames : dense frames -> NoDup (map snd (timeline_all frames)).
Proof.
  intros Hd. unfold timeline_all.
  eapply Permutation_NoDup; [apply Permutation_map, Permutation_sym, sort_entries_perm|].
  rewrite map_map. cbn [entry_of snd]. apply nodup_map_filter, dense_nodup_ids, Hd.
Qed.

Lemma spec_nodup_ids frames q : dense frames -> NoDup (map fst (timeline_spec frames q)).
Proof.
  intros Hd. rewrite timeline_spec_unfold, map_map. cbn [swap_entry fst].
  pose proof (all_nodup_ids _ Hd) as Hn.
  assert (Ho : NoDup (map snd (ordered_of q (timeline_all frames)))).
  { unfold ordered_of. destruct (q_reverse q).
    - rewrite map_rev. apply NoDup_rev, nodup_map_filter, Hn.
    - apply nodup_map_filter, Hn. }
  unfold limited. destruct (q_limit q); [apply nodup_map_firstn|]; exact Ho.
Qed.

Lemma in_range_spec since until e :
  in_range since until e = true <->
  (forall s, since = Some s -> (s <= fst e)%Z) /\ (forall u, until = Some u -> (fst e <= u)%Z).
Proof.
  unfold in_range. rewrite andb_true_iff. destruct since as [s|], until as [u|]; split.
  all: try (intros [H1 H2]; split; intros x Hx; inversion Hx; subst; lia).
  all: try (intros [H1 H2]; split; try reflexivity; try (specialize (H1 _ eq_refl)); try (specialize (H2 _ eq_refl)); lia).
Qed.

(* membership of the unlimited result: exactly the eligible frames inside the inclusive bounds *)
Lemma spec_membership frames since until rv id ts :
  In (id, ts) (timeline_spec frames (mkQ None since until rv)) <->
  (exists f, In f frames /\ eligible f = true /\ tf_id f = id /\ tf_ts f = ts) /\
  (forall s, since = Some s -> (s <= ts)%Z) /\ (forall u, until = Some u -> (ts <= u)%Z).
Proof.
  rewrite timeline_spec_unfold. unfold limited, ordered_of. cbn [q_limit q_since q_until q_reverse].
  assert (Hrev : forall l : list tentry, In (id, ts) (map swap_entry (if rv then rev l else l)) <-> In (ts, id) l).
  { intros l. rewrite in_map_iff. split.
    - intros ([t i] & E & Hin). unfold swap_entry in E; cbn [fst snd] in E. inversion E; subst.
      destruct rv; [apply in_rev|]; exact Hin.
    - intros Hin. exists (ts, id). split; [reflexivity|]. destruct rv; [apply -> in_rev|]; exact Hin. }
  rewrite Hrev, filter_In, in_timeline_all, in_range_spec. cbn [fst]. split.
  - intros [(f & Hin & Hp & E) Hb]. unfold entry_of in E. inversion E; subst. split; [exists f; auto|exact Hb].
  - intros [(f & Hin & Hp & <- & <-) Hb]. split; [exists f; auto|exact Hb].
Qed.

Lemma spec_limit_prefix frames k since until rv :
  timeline_spec frames (mkQ (Some k) since until rv) =
  firstn (N.to_nat k) (timeline_spec frames (mkQ None since until rv)).
Proof. rewrite !timeline_spec_unfold. unfold limited. cbn [q_limit]. rewrite firstn_map_comm. reflexivity. Qed.

Lemma spec_reverse frames since until :
  timeline_spec frames (mkQ None since until true) = rev (timeline_spec frames (mkQ None since until false)).
Proof. rewrite !timeline_spec_unfold. unfold limited, ordered_of. cbn [q_limit q_since q_until q_reverse]. apply map_rev. Qed.

(* the limited result has exactly min(k, n) entries: a limit never returns fewer entries
   than asked for while more exist *)
Lemma spec_limit_length frames k since until rv :
  length (timeline_spec frames (mkQ (Some k) since until rv)) =
  Nat.min (N.to_nat k) (length (timeline_spec frames (mkQ None since until rv))).
Proof. rewrite spec_limit_prefix. apply firstn_length. Qed.

(* ------------------------------------------------------------------ memories without extracted images *)
Lemma filter_none {A} (p : A -> bool) (l : list A) : (forall x, In x l -> p x = false) -> filter p l = [].
Proof.
  induction l as [|x r IH]; intros H; cbn [filter]; [reflexivity|].
  rewrite (H x (or_introl eq_refl)). apply IH. intros y Hy. apply H. right; exact Hy.
Qed.

Lemma no_images_not_known frames :
  (forall f, In f frames -> active f && is_image f = false) -> known_class frames = false.
Proof.
  intros H. unfold known_class, merged_as_is, extra_images.
  rewrite (filter_none (extra_image (rebuild_time_index frames)) frames).
  - cbn [map]. rewrite app_nil_r. apply negb_false_iff, esortedb_iff, rebuild_sorted.
  - intros f Hin. unfold extra_image. rewrite (H f Hin). reflexivity.
Qed.

(* ------------------------------------------------------------------ io::time_index at entry level *)
Lemma track_roundtrip es : read_track (append_track es) = Ok (sort_entries es).
Proof.
  unfold read_track, append_track. replace (sortedb entry_leb (sort_entries es)) with true; [reflexivity|].
  symmetry. apply esortedb_iff, sort_entries_sorted.
Qed.

Lemma read_track_accepts_iff track : read_track track = Ok track <-> esorted track.
Proof.
  unfold read_track. rewrite <- esortedb_iff. destruct (sortedb entry_leb track); split; try reflexivity; try discriminate.
Qed.

Lemma read_track_ok_same track out : read_track track = Ok out -> out = track /\ esorted track.
Proof.
  unfold read_track. destruct (sortedb entry_leb track) eqn:E; [|discriminate].
  intros H. inversion H; subst. split; [reflexivity|apply esortedb_iff, E].
Qed.

(* ------------------------------------------------------------------ a readable sufficient condition *)
Lemma sorted_app_intro (l1 l2 : list tentry) :
  esorted l1 -> esorted l2 -> (forall a b, In a l1 -> In b l2 -> entry_leb a b = true) -> esorted (l1 ++ l2).
Proof.
  unfold esorted, sorted. intros H1 H2 H. induction H1 as [|x r Hr IH Hx]; cbn [app]; [exact H2|].
  constructor.
  - apply IH. intros a b Ha Hb. apply H; [right; exact Ha|exact Hb].
  - apply Forall_app; split; [exact Hx|]. apply Forall_forall. intros b Hb. apply H; [left; reflexivity|exact Hb].
Qed.

Lemma images_sorted frames : forall k,
  dense_from k frames ->
  (forall i j, In i frames -> In j frames -> image_frame i = true -> image_frame j = true ->
               (tf_id i < tf_id j)%N -> (tf_ts i <= tf_ts j)%Z) ->
  esorted (map entry_of (filter image_frame frames)).
Proof.
  unfold esorted, sorted. induction frames as [|x r IH]; intros k Hd H; cbn [filter map]; [constructor|].
  assert (Hx : tf_id x = k) by (rewrite (Hd 0%nat x eq_refl); lia).
  assert (Hr : dense_from (k + 1) r) by (intros i f Hi; rewrite (Hd (S i) f Hi); lia).
  assert (IHr : StronglySorted (le entry_leb) (map entry_of (filter image_frame r))).
  { apply (IH _ Hr). intros i j Hi Hj. apply H; right; assumption. }
  destruct (image_frame x) eqn:Ex; [|exact IHr]. cbn [map]. constructor; [exact IHr|].
  apply Forall_forall. intros e He. apply in_map_iff in He as (y & <- & Hy). apply filter_In in Hy as [Hy Ey].
  destruct (dense_from_ids _ _ Hr) as [_ Hge]. rewrite Forall_forall in Hge. specialize (Hge y Hy).
  assert (Hts : (tf_ts x <= tf_ts y)%Z) by (apply H; [left; reflexivity|right; exact Hy|exact Ex|exact Ey|lia]).
  unfold le, entry_leb, entry_of. cbn [fst snd]. lia.
Qed.

Lemma outside_known_sufficient frames :
  dense frames ->
  (forall d i, In d frames -> In i frames -> indexed_frame d = true -> image_frame i = true ->
               entry_leb (entry_of d) (entry_of i) = true) ->
  (forall i j, In i frames -> In j frames -> image_frame i = true -> image_frame j = true ->
               (tf_id i < tf_id j)%N -> (tf_ts i <= tf_ts j)%Z) ->
  known_class frames = false.
Proof.
  intros Hd Hdi Hii. unfold known_class, merged_as_is. rewrite (extra_images_rebuild _ Hd).
  apply negb_false_iff, esortedb_iff, sorted_app_intro.
  - apply rebuild_sorted.
  - apply (images_sorted frames 0%N); [apply dense_is_from0, Hd|exact Hii].
  - intros a b Ha Hb. apply in_time_entries in Ha as (d & Hdin & Hdp & ->).
    apply in_map_iff in Hb as (i & <- & Hi). apply filter_In in Hi as [Hi Ei]. apply Hdi; assumption.
Qed.

(* ------------------------------------------------------------------ statements as used by Properties/C15.v *)
Lemma known_class_exact_reachable (engines : bool) (ops : list top) :
  let s := trun engines ops in
  ts_index s <> None -> known_class (ts_frames s) = true ->
  build_timeline (ts_frames s) (ts_index s) q_all <> Ok (timeline_spec (ts_frames s) q_all).
Proof.
  intros s Hi Hk. destruct (trun_inv engines ops) as [Hd [E|[E _]]]; fold s in Hd, E.
  - rewrite E. apply known_class_exact; assumption.
  - contradiction.
Qed.

Lemma without_images_reachable (engines : bool) (ops : list top) (q : tquery) :
  let s := trun engines ops in
  (forall f, In f (ts_frames s) -> active f && is_image f = false) ->
  build_timeline (ts_frames s) (ts_index s) q = Ok (timeline_spec (ts_frames s) q).
Proof. intros s H. apply asis_reachable, no_images_not_known, H. Qed.

Lemma spec_exactly_once frames :
  dense frames ->
  (forall since until rv id ts,
      In (id, ts) (timeline_spec frames (mkQ None since until rv)) <->
      (exists f, In f frames /\ eligible f = true /\ tf_id f = id /\ tf_ts f = ts) /\
      (forall s, since = Some s -> (s <= ts)%Z) /\ (forall u, until = Some u -> (ts <= u)%Z)) /\
  (forall q, NoDup (map fst (timeline_spec frames q))).
Proof. intros Hd. split; [intros; apply spec_membership|intros; apply spec_nodup_ids, Hd]. Qed.

Lemma spec_limit_and_reverse frames since until :
  (forall k rv,
      timeline_spec frames (mkQ (Some k) since until rv) =
      firstn (N.to_nat k) (timeline_spec frames (mkQ None since until rv))) /\
  timeline_spec frames (mkQ None since until true) = rev (timeline_spec frames (mkQ None since until false)).
Proof. split; [intros; apply spec_limit_prefix|apply spec_reverse]. Qed.

Lemma sort_model_canonical (srt : list tentry -> list tentry) :
  (forall l, esorted (srt l)) -> (forall l, Permutation (srt l) l) -> forall l, srt l = sort_entries l.
Proof.
  intros Hs Hp l.
  exact (any_sort_is_isort entry_leb entry_leb_total entry_leb_trans entry_leb_antisym srt Hs Hp l).
Qed.

Lemma track_facts :
  (forall es, read_track (append_track es) = Ok (sort_entries es)) /\
  (forall track, read_track track = Ok track <-> esorted track) /\
  (forall track out, read_track track = Ok out -> out = track /\ esorted track).
Proof. exact (conj track_roundtrip (conj read_track_accepts_iff read_track_ok_same)). Qed.
