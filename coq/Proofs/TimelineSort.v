(* Sorting facts used by C15 (self-contained): insertion sort returns a sorted permutation;
   for a total, transitive, antisymmetric order a sorted list is determined by its
   multiset, hence every sort (in particular Rust's stable sort_by_key on a key that is
   the whole element) computes the same list; sorting commutes with filtering. *)
From MV Require Import Base.Prelude Model.Timeline.
From Coq Require Import Sorting.Sorted Sorting.Permutation.
Require Import ZifyBool ZifyNat ZifyN.

Section Sort.
  Context {A : Type} (leb : A -> A -> bool).
  Hypothesis leb_total : forall a b, leb a b = true \/ leb b a = true.
  Hypothesis leb_trans : forall a b c, leb a b = true -> leb b c = true -> leb a c = true.
  Hypothesis leb_antisym : forall a b, leb a b = true -> leb b a = true -> a = b.

  Definition le (a b : A) : Prop := leb a b = true.
  Definition sorted (l : list A) : Prop := StronglySorted le l.

  Lemma leb_refl a : leb a a = true.
  Proof. destruct (leb_total a a); assumption. Qed.

  Lemma insert_perm x l : Permutation (insert_by leb x l) (x :: l).
  Proof.
    induction l as [|y r IH]; cbn [insert_by]; [apply Permutation_refl|].
    destruct (leb x y); [apply Permutation_refl|].
    eapply Permutation_trans; [apply perm_skip, IH|apply perm_swap].
  Qed.

  Lemma isort_perm l : Permutation (isort leb l) l.
  Proof.
    induction l as [|x r IH]; cbn [isort fold_right]; [constructor|].
    eapply Permutation_trans; [apply insert_perm|]. apply perm_skip, IH.
  Qed.

  Lemma insert_sorted x l : sorted l -> sorted (insert_by leb x l).
  Proof.
    unfold sorted. induction l as [|y r IH]; intros Hs; cbn [insert_by].
    - constructor; constructor.
    - inversion Hs as [|? ? Hr Hy]; subst.
      destruct (leb x y) eqn:E.
      + constructor; [assumption|]. constructor; [exact E|].
        eapply Forall_impl; [|exact Hy]. intros z Hz. exact (leb_trans _ _ _ E Hz).
      + constructor; [apply IH, Hr|].
        assert (Hyx : le y x) by (destruct (leb_total x y) as [H|H]; [congruence|exact H]).
        eapply Permutation_Forall; [apply Permutation_sym, insert_perm|].
        constructor; assumption.
  Qed.

  Lemma isort_sorted l : sorted (isort leb l).
  Proof.
    induction l as [|x r IH]; cbn [isort fold_right]; [constructor|]. apply insert_sorted, IH.
  Qed.

  (* a sorted list is determined by its elements *)
  Lemma sorted_perm_unique l1 : forall l2, sorted l1 -> sorted l2 -> Permutation l1 l2 -> l1 = l2.
  Proof.
    unfold sorted. induction l1 as [|x r IH]; intros l2 H1 H2 HP.
    - apply Permutation_nil in HP. subst; reflexivity.
    - destruct l2 as [|y r2]; [apply Permutation_sym, Permutation_nil in HP; discriminate|].
      inversion H1 as [|? ? Hr Hx]; subst. inversion H2 as [|? ? Hr2 Hy]; subst.
      assert (Exy : x = y).
      { assert (Hin1 : In y (x :: r)) by (eapply Permutation_in; [apply Permutation_sym, HP|left; reflexivity]).
        assert (Hin2 : In x (y :: r2)) by (eapply Permutation_in; [apply HP|left; reflexivity]).
        destruct Hin1 as [E|Hin1]; [exact E|]. destruct Hin2 as [E|Hin2]; [symmetry; exact E|].
        rewrite Forall_forall in Hx, Hy. apply leb_antisym; [apply Hx, Hin1|apply Hy, Hin2]. }
      subst y. f_equal. apply IH; try assumption. eapply Permutation_cons_inv, HP.
  Qed.

  Lemma isort_id l : sorted l -> isort leb l = l.
  Proof. intros Hs. apply sorted_perm_unique; [apply isort_sorted|exact Hs|apply isort_perm]. Qed.

  Lemma isort_perm_eq l1 l2 : Permutation l1 l2 -> isort leb l1 = isort leb l2.
  Proof.
    intros HP. apply sorted_perm_unique; try apply isort_sorted.
    eapply Permutation_trans; [apply isort_perm|].
    eapply Permutation_trans; [exact HP|apply Permutation_sym, isort_perm].
  Qed.

  (* ANY function returning a sorted permutation agrees with isort: the model does not
     depend on which sorting algorithm the standard library uses *)
  Lemma any_sort_is_isort (srt : list A -> list A) :
    (forall l, sorted (srt l)) -> (forall l, Permutation (srt l) l) -> forall l, srt l = isort leb l.
  Proof.
    intros Hs Hp l. apply sorted_perm_unique; [apply Hs|apply isort_sorted|].
    eapply Permutation_trans; [apply Hp|apply Permutation_sym, isort_perm].
  Qed.

  Lemma isort_app_l a b : isort leb (isort leb a ++ b) = isort leb (a ++ b).
  Proof. apply isort_perm_eq, Permutation_app_tail, isort_perm. Qed.

  Lemma isort_idem l : isort leb (isort leb l) = isort leb l.
  Proof. apply isort_id, isort_sorted. Qed.

  Lemma filter_perm (p : A -> bool) l1 l2 : Permutation l1 l2 -> Permutation (filter p l1) (filter p l2).
  Proof.
    induction 1 as [|x l l' _ IH|x y l|l l' l'' _ IH1 _ IH2]; cbn [filter].
    - constructor.
    - destruct (p x); [apply perm_skip|]; exact IH.
    - destruct (p x), (p y); try apply Permutation_refl. apply perm_swap.
    - eapply Permutation_trans; eassumption.
  Qed.

  Lemma filter_sorted (p : A -> bool) l : sorted l -> sorted (filter p l).
  Proof.
    unfold sorted. induction 1 as [|x r Hr IH Hx]; cbn [filter]; [constructor|].
    destruct (p x); [|exact IH]. constructor; [exact IH|].
    rewrite Forall_forall in *. intros z Hz. apply filter_In in Hz as [Hz _]. apply Hx, Hz.
  Qed.

  Lemma filter_isort (p : A -> bool) l : filter p (isort leb l) = isort leb (filter p l).
  Proof.
    apply sorted_perm_unique; [apply filter_sorted, isort_sorted|apply isort_sorted|].
    eapply Permutation_trans; [apply filter_perm, isort_perm|apply Permutation_sym, isort_perm].
  Qed.

  Lemma sortedb_sorted l : sortedb leb l = true <-> sorted l.
  Proof.
    unfold sorted. induction l as [|x r IH]; [split; [constructor|reflexivity]|].
    cbn [sortedb]. destruct r as [|y r'].
    - split; [intros _; constructor; constructor|reflexivity].
    - rewrite andb_true_iff, IH. split.
      + intros [Hxy Hs]. constructor; [exact Hs|].
        inversion Hs as [|? ? _ Hy]; subst. constructor; [exact Hxy|].
        eapply Forall_impl; [|exact Hy]. intros z Hz. exact (leb_trans _ _ _ Hxy Hz).
      + intros Hs. inversion Hs as [|? ? Hr Hx]; subst. split; [|exact Hr].
        inversion Hx; assumption.
  Qed.

  Lemma sortedb_isort l : sortedb leb (isort leb l) = true.
  Proof. apply sortedb_sorted, isort_sorted. Qed.

  Lemma sorted_app_inv l1 l2 : sorted (l1 ++ l2) -> sorted l1 /\ sorted l2.
  Proof.
    unfold sorted. induction l1 as [|x r IH]; cbn [app]; intros Hs; [split; [constructor|exact Hs]|].
    inversion Hs as [|? ? Hr Hx]; subst. destruct (IH Hr) as [H1 H2]. split; [|exact H2].
    constructor; [exact H1|]. apply Forall_app in Hx. tauto.
  Qed.
End Sort.

(* ------------------------------------------------------------------ take_N *)
Lemma take_N_firstn {A} (l : list A) : forall k, take_N l k = firstn (N.to_nat k) l.
Proof.
  induction l as [|x r IH]; intros k; cbn [take_N]; [rewrite firstn_nil; reflexivity|].
  destruct (N.eqb_spec k 0) as [->|Hk]; [reflexivity|].
  replace (N.to_nat k) with (S (N.to_nat (k - 1))) by lia. cbn [firstn]. rewrite IH. reflexivity.
Qed.

Lemma take_N_all {A} (l : list A) : take_N l (N.of_nat (length l)) = l.
Proof. rewrite take_N_firstn, Nat2N.id. apply firstn_all. Qed.

(* ------------------------------------------------------------------ the entry order *)
Lemma entry_leb_total a b : entry_leb a b = true \/ entry_leb b a = true.
Proof. unfold entry_leb. destruct a as [t1 i1], b as [t2 i2]; cbn [fst snd]. lia. Qed.

Lemma entry_leb_trans a b c : entry_leb a b = true -> entry_leb b c = true -> entry_leb a c = true.
Proof. unfold entry_leb. destruct a as [t1 i1], b as [t2 i2], c as [t3 i3]; cbn [fst snd]. lia. Qed.

Lemma entry_leb_antisym a b : entry_leb a b = true -> entry_leb b a = true -> a = b.
Proof.
  unfold entry_leb. destruct a as [t1 i1], b as [t2 i2]; cbn [fst snd]. intros H1 H2.
  assert (t1 = t2) by lia. assert (i1 = i2) by lia. subst; reflexivity.
Qed.

Definition esorted : list tentry -> Prop := sorted entry_leb.

Lemma sort_entries_sorted l : esorted (sort_entries l).
Proof. apply isort_sorted; [apply entry_leb_total|apply entry_leb_trans]. Qed.
Lemma sort_entries_perm l : Permutation (sort_entries l) l.
Proof. apply isort_perm. Qed.
Lemma sort_entries_id l : esorted l -> sort_entries l = l.
Proof. apply isort_id; [apply entry_leb_total|apply entry_leb_trans|apply entry_leb_antisym]. Qed.
Lemma sort_entries_perm_eq l1 l2 : Permutation l1 l2 -> sort_entries l1 = sort_entries l2.
Proof. apply isort_perm_eq; [apply entry_leb_total|apply entry_leb_trans|apply entry_leb_antisym]. Qed.
Lemma sort_entries_app_l a b : sort_entries (sort_entries a ++ b) = sort_entries (a ++ b).
Proof. apply isort_app_l; [apply entry_leb_total|apply entry_leb_trans|apply entry_leb_antisym]. Qed.
Lemma esortedb_iff l : sortedb entry_leb l = true <-> esorted l.
Proof. apply sortedb_sorted, entry_leb_trans. Qed.
Lemma efilter_sorted p l : esorted l -> esorted (filter p l).
Proof. apply filter_sorted. Qed.
Lemma efilter_sort p l : filter p (sort_entries l) = sort_entries (filter p l).
Proof. apply filter_isort; [apply entry_leb_total|apply entry_leb_trans|apply entry_leb_antisym]. Qed.
