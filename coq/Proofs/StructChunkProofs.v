(* Proofs about Model/StructChunk.v : the structural chunker keeps every string it is
   handed (rendered element texts), up to trimming, in some chunk. *)
From MV Require Import Base.Prelude Base.Facts Model.Chunks Model.StructChunk.
Require Import ZifyBool ZifyNat.

Section Proofs.
  Variable is_ws : N -> bool.
  Variable max_chars : nat.

  Notation drop_ws := (drop_ws is_ws).
  Notation trim := (trim is_ws).
  Notation blank := (blank is_ws).
  Notation flush := (flush is_ws).
  Notation step := (step is_ws max_chars).
  Notation chunk_doc := (chunk_doc is_ws max_chars).
  Notation chunk_table := (chunk_table max_chars).
  Notation rows_per_chunk := (rows_per_chunk max_chars).
  Notation kept := (kept max_chars).
  Notation faithful := (faithful is_ws max_chars).
  Notation known_class := (known_class is_ws max_chars).

  (* ---- infix ---- *)
  Lemma infix_refl a : infix a a.
  Proof. exists [], []. rewrite app_nil_r. reflexivity. Qed.

  Lemma infix_trans a b c : infix a b -> infix b c -> infix a c.
  Proof.
    intros (p & q & ->) (p' & q' & ->). exists (p' ++ p), (q ++ q').
    rewrite !app_assoc. reflexivity.
  Qed.

  Lemma infix_app_l a b p : infix a b -> infix a (p ++ b).
  Proof. intros (x & y & ->). exists (p ++ x), y. rewrite !app_assoc. reflexivity. Qed.

  Lemma infix_app_r a b q : infix a b -> infix a (b ++ q).
  Proof. intros (x & y & ->). exists x, (y ++ q). rewrite !app_assoc. reflexivity. Qed.

  Lemma infix_nil b : infix [] b.
  Proof. exists [], b. reflexivity. Qed.

  Lemma infix_rev a b : infix a b -> infix (rev a) (rev b).
  Proof. intros (p & q & ->). exists (rev q), (rev p). rewrite !rev_app_distr, !app_assoc. reflexivity. Qed.

  (* ---- drop_ws / trim ---- *)
  Lemma drop_ws_split s : exists w, s = w ++ drop_ws s /\ forallb is_ws w = true.
  Proof.
    induction s as [|c r IH]; cbn [StructChunk.drop_ws].
    - exists []. split; reflexivity.
    - destruct (is_ws c) eqn:E.
      + destruct IH as (w & Hw & Hf). exists (c :: w). split.
        * cbn [app]. f_equal. exact Hw.
        * cbn [forallb]. rewrite E, Hf. reflexivity.
      + exists []. split; reflexivity.
  Qed.

  Lemma drop_ws_head s a r : drop_ws s = a :: r -> is_ws a = false.
  Proof.
    induction s as [|c s' IH]; cbn [StructChunk.drop_ws]; [discriminate|].
    destruct (is_ws c) eqn:E; [exact IH|].
    intros H; injection H as <- _. exact E.
  Qed.

  Lemma drop_ws_nonws a r : is_ws a = false -> drop_ws (a :: r) = a :: r.
  Proof. intros E. cbn [StructChunk.drop_ws]. rewrite E. reflexivity. Qed.

  Lemma infix_drop_ws x a b : is_ws x = false -> infix (x :: a) b -> infix (x :: a) (drop_ws b).
  Proof.
    intros Hx (p & q & ->). induction p as [|y p IH].
    - cbn [app]. rewrite drop_ws_nonws by exact Hx. exists [], q. reflexivity.
    - cbn [app StructChunk.drop_ws]. destruct (is_ws y).
      + exact IH.
      + exists (y :: p), q. reflexivity.
  Qed.

  Lemma infix_drop_ws_self s : infix (drop_ws s) s.
  Proof. destruct (drop_ws_split s) as (w & Hw & _). exists w, []. rewrite app_nil_r. exact Hw. Qed.

  Lemma trim_infix_self s : infix (trim s) s.
  Proof.
    unfold StructChunk.trim.
    apply infix_trans with (drop_ws s); [|apply infix_drop_ws_self].
    rewrite <- (rev_involutive (drop_ws s)) at 2.
    apply infix_rev. apply infix_drop_ws_self.
  Qed.

  (* a non-empty trim starts and ends with a non-whitespace character *)
  Lemma trim_first s x r : trim s = x :: r -> is_ws x = false.
  Proof.
    unfold StructChunk.trim. intros H.
    destruct (drop_ws_split (rev (drop_ws s))) as (w & Hw & _).
    set (S := drop_ws (rev (drop_ws s))) in *.
    assert (HD : drop_ws s = rev S ++ rev w).
    { rewrite <- (rev_involutive (drop_ws s)), Hw, rev_app_distr. reflexivity. }
    rewrite H in HD. cbn [app] in HD. eapply drop_ws_head; exact HD.
  Qed.

  Lemma trim_last s y r : rev (trim s) = y :: r -> is_ws y = false.
  Proof.
    unfold StructChunk.trim. rewrite rev_involutive. apply drop_ws_head.
  Qed.

  Lemma infix_trim a b : infix a b -> infix (trim a) (trim b).
  Proof.
    intros Hab. destruct (trim a) as [|x t] eqn:ET; [apply infix_nil|].
    pose proof (trim_first a x t ET) as Hx.
    assert (H1 : infix (x :: t) b).
    { rewrite <- ET. eapply infix_trans; [apply trim_infix_self | exact Hab]. }
    apply (infix_drop_ws x t b Hx) in H1.
    apply infix_rev in H1.
    destruct (rev (x :: t)) as [|y t'] eqn:ER.
    { apply (f_equal (@length N)) in ER. rewrite rev_length in ER. discriminate. }
    assert (Hy : is_ws y = false).
    { apply (trim_last a y t'). rewrite ET. exact ER. }
    apply (infix_drop_ws y t' _ Hy) in H1.
    apply infix_rev in H1. rewrite <- ER, rev_involutive in H1.
    exact H1.
  Qed.

  Lemma blank_forallb s : blank s = true <-> forallb is_ws s = true.
  Proof.
    unfold StructChunk.blank. induction s as [|c r IH]; cbn [StructChunk.drop_ws forallb].
    - tauto.
    - destruct (is_ws c); cbn [andb]; [exact IH | split; discriminate].
  Qed.

  Lemma infix_blank a b : infix a b -> blank b = true -> blank a = true.
  Proof.
    intros (p & q & ->) H. apply blank_forallb in H. apply blank_forallb.
    rewrite !forallb_app in H. apply andb_true_iff in H as (_ & H).
    apply andb_true_iff in H as (H & _). exact H.
  Qed.

  (* ---- covered ---- *)
  Lemma covered_app_l cs x l : covered cs l -> covered (cs ++ x) l.
  Proof. intros (c & Hin & Hi). exists c. split; [apply in_or_app; left; exact Hin | exact Hi]. Qed.

  Lemma covered_app_r cs x l : covered x l -> covered (cs ++ x) l.
  Proof. intros (c & Hin & Hi). exists c. split; [apply in_or_app; right; exact Hin | exact Hi]. Qed.

  Lemma covered_infix cs a b : infix a b -> covered cs b -> covered cs a.
  Proof. intros Hab (c & Hin & Hi). exists c. split; [exact Hin | eapply infix_trans; eauto]. Qed.

  (* holds: the string R is safe -- already inside a chunk (trimmed), or inside the
     text being accumulated *)
  Definition holds (cs : list str) (c : str) (R : str) : Prop :=
    covered cs (trim R) \/ infix R c.

  Lemma holds_chunks_app cs c x R : holds cs c R -> holds (cs ++ x) c R.
  Proof. intros [H|H]; [left; apply covered_app_l; exact H | right; exact H]. Qed.

  Lemma holds_cur_app cs c x R : holds cs c R -> holds cs (c ++ x) R.
  Proof. intros [H|H]; [left; exact H | right; apply infix_app_r; exact H]. Qed.

  Lemma holds_emit cs c c' R : holds cs c R -> holds (cs ++ [trim c]) c' R.
  Proof.
    intros [H|H]; left; [apply covered_app_l; exact H|].
    apply covered_app_r. exists (trim c). split; [left; reflexivity | apply infix_trim; exact H].
  Qed.

  Lemma holds_flush st R :
    holds (chunks st) (cur st) R -> holds (chunks (flush st)) (cur (flush st)) R.
  Proof.
    intros H. unfold StructChunk.flush. destruct (blank (cur st)); [exact H|].
    cbn [chunks cur]. apply holds_emit. exact H.
  Qed.

  Lemma step_preserves st e R :
    holds (chunks st) (cur st) R -> holds (chunks (step st e)) (cur (step st e)) R.
  Proof.
    intros H. destruct e as [raw header rows|f|f|f|t|]; cbn [StructChunk.step chunks cur].
    - apply holds_chunks_app. apply holds_flush. exact H.
    - apply holds_chunks_app. apply holds_flush. exact H.
    - apply holds_cur_app. destruct (is_empty (cur st)); [exact H | apply holds_cur_app; exact H].
    - destruct ((max_chars <? length (cur st) + length f) && negb (blank (cur st))); cbn [chunks cur].
      + cbn [is_empty app]. apply holds_emit with (c' := f) in H. exact H.
      + apply holds_cur_app. destruct (is_empty (cur st)); [exact H | apply holds_cur_app; exact H].
    - destruct ((max_chars <? length (cur st) + length t) && negb (blank (cur st))).
      + destruct (pending st) as [h|]; cbn [chunks cur];
          match goal with |- holds _ (?c ++ t) R => apply (holds_emit _ _ (c ++ t)) in H; exact H end.
      + apply holds_cur_app.
        destruct (negb (is_empty (cur st)) && negb (ends_with_nl (cur st))); [apply holds_cur_app|]; exact H.
    - apply holds_flush. exact H.
  Qed.

  (* ---- chunk_table keeps the header and every row ---- *)
  Lemma rows_per_chunk_pos h rows : rows <> [] -> 1 <= rows_per_chunk h rows.
  Proof.
    intros Hne. unfold StructChunk.rows_per_chunk.
    destruct (max_chars - (h + 10) =? 0); [lia|].
    assert (length rows <> 0) by (destruct rows; [congruence | cbn [length]; lia]).
    destruct (length rows =? 0) eqn:E; [lia|].
    destruct (fold_left (fun a r => a + snd r) rows 0 / length rows =? 0); lia.
  Qed.

  Lemma infix_row_in_part header (now : list (str * nat)) r :
    In r now -> infix (fst r) (header ++ concat (map (fun r => 10%N :: fst r) now)).
  Proof.
    intros Hin. apply infix_app_l. induction now as [|x now IH]; [destruct Hin|].
    cbn [map concat]. destruct Hin as [->|Hin].
    - exists [10%N], (concat (map (fun r => 10%N :: fst r) now)). reflexivity.
    - apply (infix_app_l _ _ (10%N :: fst x)). apply IH. exact Hin.
  Qed.

  Lemma table_parts_rows : forall fuel header k rows r,
    1 <= k -> length rows <= fuel -> In r rows ->
    covered (table_parts fuel header k rows) (fst r).
  Proof.
    induction fuel as [|f IH]; intros header k rows r Hk Hf Hin.
    - destruct rows; [destruct Hin | cbn [length] in Hf; lia].
    - destruct rows as [|x rows']; [destruct Hin|].
      cbn [table_parts]. set (rows := x :: rows') in *.
      rewrite <- (firstn_skipn k rows) in Hin. apply in_app_or in Hin as [Hin|Hin].
      + exists (header ++ concat (map (fun r => 10%N :: fst r) (firstn k rows))).
        split; [left; reflexivity | apply infix_row_in_part; exact Hin].
      + destruct (IH header k (skipn k rows) r Hk) as (c & Hc & Hi); [|exact Hin|].
        * rewrite skipn_length. unfold rows in *. cbn [length] in *. lia.
        * exists c. split; [right; exact Hc | exact Hi].
  Qed.

  Lemma chunk_table_keeps raw header rows R :
    In R (kept (ETable raw header rows)) -> covered (chunk_table raw header rows) R.
  Proof.
    cbn [StructChunk.kept]. unfold StructChunk.chunk_table.
    destruct (length raw <=? max_chars).
    - intros [<-|[]]. exists raw. split; [left; reflexivity | apply infix_refl].
    - intros [<-|Hin].
      + destruct rows as [|x rows'].
        * exists header. split; [left; reflexivity | apply infix_refl].
        * set (rows := x :: rows'). cbn [length table_parts].
          eexists. split; [left; reflexivity|]. apply infix_app_r. apply infix_refl.
      + apply in_map_iff in Hin as (r & <- & Hr).
        destruct rows as [|x rows']; [destruct Hr|].
        apply table_parts_rows; [apply rows_per_chunk_pos; discriminate | apply le_n | exact Hr].
  Qed.

  Lemma step_keeps st e R :
    In R (kept e) -> holds (chunks (step st e)) (cur (step st e)) R.
  Proof.
    intros Hin. destruct e as [raw header rows|f|f|f|t|]; cbn [StructChunk.step chunks cur].
    - left. apply covered_app_r. eapply covered_infix; [apply trim_infix_self|].
      apply chunk_table_keeps. exact Hin.
    - cbn [StructChunk.kept] in Hin. destruct Hin as [<-|[]].
      left. apply covered_app_r. exists f. split; [left; reflexivity | apply trim_infix_self].
    - cbn [StructChunk.kept] in Hin. destruct Hin as [<-|[]]. right. apply infix_app_l, infix_refl.
    - cbn [StructChunk.kept] in Hin. destruct Hin as [<-|[]]. right. apply infix_app_l, infix_refl.
    - cbn [StructChunk.kept] in Hin. destruct Hin as [<-|[]]. right. apply infix_app_l, infix_refl.
    - destruct Hin.
  Qed.

  Lemma fold_holds : forall doc st R,
    (holds (chunks st) (cur st) R \/ exists e, In e doc /\ In R (kept e)) ->
    holds (chunks (fold_left step doc st)) (cur (fold_left step doc st)) R.
  Proof.
    induction doc as [|e doc IH]; intros st R H; cbn [fold_left].
    - destruct H as [H|(e & [] & _)]. exact H.
    - apply IH. destruct H as [H|(e' & [<-|Hin] & HR)].
      + left. apply step_preserves. exact H.
      + left. apply step_keeps. exact HR.
      + right. exists e'. split; assumption.
  Qed.

  (* every non-blank string the chunker was handed is, trimmed, inside some chunk *)
  Theorem chunk_doc_keeps doc e R :
    In e doc -> In R (kept e) -> blank R = false -> covered (chunk_doc doc) (trim R).
  Proof.
    intros He HR Hb. unfold StructChunk.chunk_doc.
    pose proof (fold_holds doc (mkState [] [] None) R (or_intror (ex_intro _ e (conj He HR)))) as H.
    set (st := fold_left step doc (mkState [] [] None)) in *.
    unfold StructChunk.flush. destruct (blank (cur st)) eqn:Eb.
    - destruct H as [H|H]; [exact H|].
      apply infix_blank in H; [congruence | exact Eb].
    - cbn [chunks]. apply (holds_emit _ _ []) in H. destruct H as [H|H]; [exact H|].
      destruct H as (p & q & Hnil). symmetry in Hnil.
      apply app_eq_nil in Hnil as (_ & Hnil). apply app_eq_nil in Hnil as (-> & _).
      cbn in Hb. discriminate.
  Qed.

  (* ---- boolean infix ---- *)
  Lemma prefixb_spec a : forall b, prefixb a b = true -> exists q, b = a ++ q.
  Proof.
    induction a as [|x a IH]; intros b; cbn [prefixb].
    - intros _. exists b. reflexivity.
    - destruct b as [|y b]; [discriminate|].
      intros H. apply andb_true_iff in H as (Hxy & H). apply N.eqb_eq in Hxy as ->.
      destruct (IH b H) as (q & ->). exists q. reflexivity.
  Qed.

  Lemma infixb_spec a : forall b, infixb a b = true -> infix a b.
  Proof.
    induction b as [|y b IH]; cbn [infixb]; destruct (prefixb a _) eqn:E; intros H.
    - apply prefixb_spec in E as (q & ->). exists [], q. reflexivity.
    - discriminate.
    - apply prefixb_spec in E as (q & ->). exists [], q. reflexivity.
    - apply (infix_app_l _ _ [y]). apply IH. exact H.
  Qed.

  Lemma anyb_exists {X} (f : X -> bool) l : anyb f l = true -> exists x, In x l /\ f x = true.
  Proof.
    induction l as [|x r IH]; cbn [anyb]; [discriminate|].
    destruct (f x) eqn:E.
    - intros _. exists x. split; [left; reflexivity | exact E].
    - intros H. destruct (IH H) as (y & Hy & Hf). exists y. split; [right; exact Hy | exact Hf].
  Qed.

  Lemma prefixb_app a q : prefixb a (a ++ q) = true.
  Proof. induction a as [|x a IH]; cbn [prefixb app]; [reflexivity|]. rewrite N.eqb_refl, IH. reflexivity. Qed.

  Lemma infixb_complete a b : infix a b -> infixb a b = true.
  Proof.
    intros (p & q & ->). induction p as [|y p IH].
    - cbn [app]. destruct (a ++ q) eqn:E; cbn [infixb]; rewrite <- E, prefixb_app; reflexivity.
    - cbn [app infixb]. rewrite IH. destruct (prefixb a (y :: p ++ a ++ q)); reflexivity.
  Qed.

  Lemma not_covered_b cs l : forallb (fun c => negb (infixb l c)) cs = true -> ~ covered cs l.
  Proof.
    intros H (c & Hin & Hi). rewrite forallb_forall in H. specialize (H c Hin).
    apply infixb_complete in Hi. rewrite Hi in H. discriminate.
  Qed.

  (* outside the known class every non-empty source line is inside some chunk *)
  Theorem coverage_outside_known (doc : list selem) (skipped : list str) :
    known_class doc skipped = false ->
    forall l, l <> [] ->
      (In l skipped \/ exists se, In se doc /\ In l (snd se)) ->
      covered (chunk_doc (map fst doc)) l.
  Proof.
    unfold StructChunk.known_class. intros Hk l Hl Hin.
    apply orb_false_iff in Hk as (Hs & Hd).
    destruct skipped as [|s0 sk]; [|discriminate].
    destruct Hin as [[]|(se & Hse & Hlse)].
    assert (Hf : faithful se = true).
    { destruct (faithful se) eqn:E; [reflexivity|].
      exfalso. assert (X : existsb (fun se => negb (faithful se)) doc = true).
      { apply existsb_exists. exists se. split; [exact Hse | rewrite E; reflexivity]. }
      congruence. }
    unfold StructChunk.faithful in Hf. cbv zeta in Hf. rewrite forallb_forall in Hf.
    specialize (Hf l Hlse). apply anyb_exists in Hf as (tk & Htk & Hi).
    apply in_map_iff in Htk as (k & <- & Hk).
    apply infixb_spec in Hi.
    assert (Hb : blank k = false).
    { destruct (blank k) eqn:E; [|reflexivity]. exfalso.
      assert (Ht : trim k = []).
      { unfold StructChunk.trim, StructChunk.blank in *. destruct (drop_ws k); [reflexivity | discriminate]. }
      rewrite Ht in Hi. destruct Hi as (p & q & Hnil). symmetry in Hnil.
      apply app_eq_nil in Hnil as (_ & Hnil). apply app_eq_nil in Hnil as (Hnil & _). congruence. }
    eapply covered_infix; [exact Hi|].
    eapply chunk_doc_keeps; [apply in_map; exact Hse | exact Hk | exact Hb].
  Qed.
End Proofs.
