(* Proofs about Model/Ticket.v: the state machine (all operation lists) and the canonical
   payload (injective in every signed field). *)
From MV Require Import Base.Prelude Base.Facts Model.Ticket.
From Coq Require Import Sorting.Sorted Decimal DecimalN DecimalZ.
Require Import ZifyBool ZifyNat ZifyN.
Ltac Zify.zify_post_hook ::= Z.div_mod_to_equations.
Local Open Scope Z_scope.

(* ====================================================================================== *)
(* Part 1: state machine                                                                   *)
(* ====================================================================================== *)

Definition cur (s : mstate) : Z := tr_seq (t_ticket (s_mem s)).

(* the ticket in memory is the ticket in the file (binding and dirty flag may differ) *)
Definition tinv (s : mstate) : Prop := t_ticket (s_mem s) = t_ticket (s_disk s).

Lemma tinv_init : tinv init_state.
Proof. reflexivity. Qed.

Lemma seq_error_not_ok c : seq_error c <> Ok tt.
Proof. unfold seq_error. destruct (I64_MAX <=? c); discriminate. Qed.

Lemma apply_ticket_spec s t :
  (tk_seq t <= cur s /\ apply_ticket s t = (s, seq_error (cur s))) \/
  (cur s < tk_seq t /\ apply_ticket s t = (install s t false, Ok tt)).
Proof.
  unfold apply_ticket, cur. destruct (Z.leb_spec (tk_seq t) (tr_seq (t_ticket (s_mem s)))); [left | right]; auto.
Qed.

Lemma bind_spec s mid t :
  (already_bound s mid = true /\ bind_memory s mid t = (s, Err E_BOUND)) \/
  (already_bound s mid = false /\ tk_seq t <= cur s /\ bind_memory s mid t = (s, seq_error (cur s))) \/
  (already_bound s mid = false /\ cur s < tk_seq t /\
   bind_memory s mid t = (mkSt (mkToc (ref_of t false) (Some mid)) (mkToc (ref_of t false) (t_binding (s_mem s))) true, Ok tt)).
Proof.
  unfold bind_memory. destruct (already_bound s mid); [left; auto | right].
  destruct (apply_ticket_spec s t) as [[H E]|[H E]]; rewrite E; [left | right; auto].
  split; [reflexivity|]. split; [assumption|].
  pose proof (seq_error_not_ok (cur s)) as Hn. destruct (seq_error (cur s)) as [[]| |]; congruence.
Qed.

Section Signed.
  Variable verify : bytes -> bytes -> bytes -> bool.
  Variable pubkey : bytes.

  Notation tstep := (tstep verify pubkey).
  Notation accepted := (accepted verify pubkey).
  Notation final := (final verify pubkey).
  Notation apply_signed_ticket := (apply_signed_ticket verify pubkey).

  Definition sig_ok (st : sticket) : bool :=
    let t := st_ticket st in
    Nat.eqb (length (st_sig st)) 64 &&
    verify pubkey (canonical_payload (st_mid st) (tk_issuer t) (tk_seq t) (tk_expires t) (tk_cap t)) (st_sig st).

  (* complete case split of apply_signed_ticket *)
  Lemma apply_signed_spec s st :
    let t := st_ticket st in
    (t_binding (s_mem s) = None /\ apply_signed_ticket s st = (s, Err E_SIG)) \/
    (exists bound, t_binding (s_mem s) = Some bound /\
       ((st_mid st <> bound /\ apply_signed_ticket s st = (s, Err E_SIG)) \/
        (st_mid st = bound /\ sig_ok st = false /\ apply_signed_ticket s st = (s, Err E_SIG)) \/
        (st_mid st = bound /\ sig_ok st = true /\ tk_seq t <= cur s /\ apply_signed_ticket s st = (s, seq_error (cur s))) \/
        (st_mid st = bound /\ sig_ok st = true /\ cur s < tk_seq t /\ apply_signed_ticket s st = (install s t true, Ok tt)))).
  Proof.
    cbv zeta. unfold apply_signed_ticket, Ticket.apply_signed_ticket, sig_ok, verify_ticket_signature, cur.
    destruct (t_binding (s_mem s)) as [bound|]; [right; exists bound; split; [reflexivity|] | left; auto].
    destruct (bytes_eqb (st_mid st) bound) eqn:Eb.
    - apply bytes_eqb_spec in Eb. cbn [negb].
      destruct (Nat.eqb (length (st_sig st)) 64) eqn:El; cbn [negb andb].
      + destruct (verify pubkey _ (st_sig st)) eqn:Ev.
        * destruct (Z.leb_spec (tk_seq (st_ticket st)) (tr_seq (t_ticket (s_mem s)))).
          -- right; right; left. auto.
          -- right; right; right. auto.
        * right; left. auto.
      + right; left. auto.
    - left. split; [|reflexivity]. intros E. rewrite E, bytes_eqb_refl in Eb. discriminate.
  Qed.

  (* ---- a rejected ticket changes nothing (state in memory, state in the file, dirty flag) ---- *)
  Lemma rejected_unchanged s op s' o :
    tstep s op = (s', o) -> op_seq op <> None -> o <> Ok tt -> s' = s.
  Proof.
    intros Hs Hop Ho. destruct op; cbn [op_seq] in Hop; try congruence; cbn [Ticket.tstep] in Hs.
    - destruct (apply_ticket_spec s t) as [[_ E]|[_ E]]; rewrite E in Hs; inversion Hs; subst; congruence.
    - destruct (apply_signed_spec s st) as [[_ E]|[b [_ [[_ E]|[[_ [_ E]]|[[_ [_ [_ E]]]|[_ [_ [_ E]]]]]]]]];
        rewrite E in Hs; inversion Hs; subst; congruence.
    - destruct (bind_spec s mid t) as [[_ E]|[[_ [_ E]]|[_ [_ E]]]]; rewrite E in Hs; inversion Hs; subst; congruence.
  Qed.

  (* ---- one step: invariant, monotonicity, and what acceptance means ---- *)
  Lemma step_mono s op s' o :
    is_unbind op = false -> tinv s -> tstep s op = (s', o) ->
    tinv s' /\ cur s <= cur s' /\
    (forall q, o = Ok tt -> op_seq op = Some q -> cur s < q /\ cur s' = q).
  Proof.
    intros Hu Hi Hs. destruct op; cbn [is_unbind] in Hu; try discriminate; cbn [Ticket.tstep op_seq] in *.
    - destruct (apply_ticket_spec s t) as [[Hle E]|[Hlt E]]; rewrite E in Hs; inversion Hs; subst.
      + split; [assumption|]. split; [lia|]. intros q Ho. exfalso; eapply seq_error_not_ok; eauto.
      + split; [reflexivity|]. unfold cur in *. cbn. split; [lia|]. intros q _ Hq. inversion Hq; subst. split; [lia|reflexivity].
    - destruct (apply_signed_spec s st) as [[_ E]|[b [_ [[_ E]|[[_ [_ E]]|[[_ [_ [_ E]]]|[_ [_ [Hlt E]]]]]]]]];
        rewrite E in Hs; inversion Hs; subst;
        try (split; [assumption|]; split; [lia|]; intros q Ho; try discriminate; exfalso; eapply seq_error_not_ok; eauto; fail).
      split; [reflexivity|]. unfold cur in *. cbn. split; [lia|]. intros q _ Hq. inversion Hq; subst. split; [lia|reflexivity].
    - destruct (bind_spec s mid t) as [[_ E]|[[_ [Hle E]]|[_ [Hlt E]]]]; rewrite E in Hs; inversion Hs; subst.
      + split; [assumption|]. split; [lia|]. intros q Ho; discriminate.
      + split; [assumption|]. split; [lia|]. intros q Ho. exfalso; eapply seq_error_not_ok; eauto.
      + split; [reflexivity|]. unfold cur in *. cbn. split; [lia|].
        intros q _ Hq. inversion Hq; subst. split; [lia|reflexivity].
    - unfold bind_only in Hs. destruct (already_bound s mid); inversion Hs; subst.
      + split; [assumption|]. split; [lia|]. intros q _ Hq; discriminate.
      + split; [exact Hi|]. unfold cur; cbn. split; [lia|]. intros q _ Hq; discriminate.
    - inversion Hs; subst. unfold commit. destruct (s_dirty s).
      + split; [reflexivity|]. unfold cur; cbn. split; [lia|]. intros q _ Hq; discriminate.
      + split; [assumption|]. split; [lia|]. intros q _ Hq; discriminate.
    - inversion Hs; subst. unfold reopen, commit. destruct (s_dirty s); cbn.
      + split; [reflexivity|]. unfold cur; cbn. split; [lia|]. intros q _ Hq; discriminate.
      + split; [reflexivity|]. unfold cur; cbn. rewrite <- Hi. split; [lia|]. intros q _ Hq; discriminate.
    - inversion Hs; subst. unfold crash_reopen. split; [reflexivity|]. unfold cur; cbn. rewrite <- Hi.
      split; [lia|]. intros q _ Hq; discriminate.
  Qed.

  Lemma no_unbind_cons op ops : no_unbind (op :: ops) = true -> is_unbind op = false /\ no_unbind ops = true.
  Proof.
    unfold no_unbind. cbn [forallb]. intros H. apply andb_true_iff in H as [H1 H2].
    split; [destruct (is_unbind op); [discriminate|reflexivity] | assumption].
  Qed.

  (* ---- all histories: accepted sequence numbers are above the start and strictly increasing ---- *)
  Lemma accepted_sorted_from ops : forall s,
    no_unbind ops = true -> tinv s ->
    Forall (fun q => cur s < q) (accepted s ops) /\ StronglySorted Z.lt (accepted s ops) /\
    tinv (final s ops) /\ cur s <= cur (final s ops) /\ Forall (fun q => q <= cur (final s ops)) (accepted s ops).
  Proof.
    induction ops as [|op ops IH]; intros s Hn Hi.
    - cbn. repeat split; auto; try constructor; lia.
    - apply no_unbind_cons in Hn as [Hu Hn].
      cbn [Ticket.accepted Ticket.final]. destruct (tstep s op) as [s' o] eqn:Es. cbn [fst].
      destruct (step_mono s op s' o Hu Hi Es) as [Hi' [Hle Hacc]].
      destruct (IH s' Hn Hi') as [Hall [Hsort [Hif [Hlef Hub]]]].
      assert (Hall' : Forall (fun q => cur s < q) (accepted s' ops)).
      { eapply Forall_impl; [|exact Hall]. cbn. intros; lia. }
      assert (Hrest : Forall (fun q => cur s < q) (accepted s' ops) /\ StronglySorted Z.lt (accepted s' ops) /\
                      tinv (final s' ops) /\ cur s <= cur (final s' ops) /\
                      Forall (fun q => q <= cur (final s' ops)) (accepted s' ops)).
      { split; [exact Hall'|]. split; [exact Hsort|]. split; [exact Hif|]. split; [lia|exact Hub]. }
      destruct o as [[]| |]; destruct (op_seq op) as [q|] eqn:Eq; try exact Hrest.
      destruct (Hacc q eq_refl eq_refl) as [Hlt Hq].
      split; [constructor; [lia|exact Hall']|].
      split; [constructor; [exact Hsort|]; rewrite <- Hq; exact Hall|].
      split; [exact Hif|]. split; [lia|].
      constructor; [lia|exact Hub].
  Qed.

  Lemma accepted_app s pre post :
    accepted s (pre ++ post) = accepted s pre ++ accepted (final s pre) post.
  Proof.
    revert s; induction pre as [|op pre IH]; intros s; [reflexivity|].
    change ((op :: pre) ++ post) with (op :: (pre ++ post)).
    cbn [Ticket.accepted Ticket.final]. destruct (tstep s op) as [s' o]. cbn [fst].
    rewrite IH. destruct o as [[]| |]; destruct (op_seq op); reflexivity.
  Qed.

  Lemma final_app s pre post : final s (pre ++ post) = final (final s pre) post.
  Proof. revert s; induction pre as [|op pre IH]; intros s; [reflexivity|]. change ((op :: pre) ++ post) with (op :: (pre ++ post)). cbn [Ticket.final]. apply IH. Qed.

  Lemma no_unbind_app a b : no_unbind (a ++ b) = true -> no_unbind a = true /\ no_unbind b = true.
  Proof. unfold no_unbind. rewrite forallb_app. apply andb_true_iff. Qed.

  (* the property's own wording: a ticket accepted after a history `pre` has a sequence number
     above that of every ticket accepted during `pre` (reopen/crash/commit/bind anywhere in it)
     and above the sequence number the memory started with *)
  Lemma accepted_only_if_greater pre op s q s' :
    no_unbind pre = true -> tinv s ->
    tstep (final s pre) op = (s', Ok tt) -> op_seq op = Some q ->
    cur s < q /\ Forall (fun q' => q' < q) (accepted s pre).
  Proof.
    intros Hn Hi Hs Hq.
    destruct (accepted_sorted_from pre s Hn Hi) as [_ [_ [Hif [Hle Hub]]]].
    assert (Hlt : cur (final s pre) < q).
    { destruct op; cbn [op_seq] in Hq; try discriminate; inversion Hq; subst; cbn [Ticket.tstep] in Hs.
      - destruct (apply_ticket_spec (final s pre) t) as [[_ E]|[Hlt _]]; [|exact Hlt].
        rewrite E in Hs. apply pair_equal_spec in Hs as [Hs1 Ho]. exfalso; eapply seq_error_not_ok; eauto.
      - destruct (apply_signed_spec (final s pre) st) as [[_ E]|[b [_ [[_ E]|[[_ [_ E]]|[[_ [_ [_ E]]]|[_ [_ [Hlt _]]]]]]]]];
          try exact Hlt; rewrite E in Hs; apply pair_equal_spec in Hs as [Hs1 Ho]; try discriminate.
        exfalso; eapply seq_error_not_ok; eauto.
      - destruct (bind_spec (final s pre) mid t) as [[_ E]|[[_ [_ E]]|[_ [Hlt _]]]]; try exact Hlt;
          rewrite E in Hs; apply pair_equal_spec in Hs as [Hs1 Ho]; try discriminate.
        exfalso; eapply seq_error_not_ok; eauto. }
    split; [lia|]. eapply Forall_impl; [|exact Hub]. cbn; intros; lia.
  Qed.

  (* unsigned tickets: accepted exactly when the sequence number is greater than the current one *)
  Lemma unsigned_accept_iff s t :
    snd (tstep s (OApply t)) = Ok tt <-> cur s < tk_seq t.
  Proof.
    cbn [Ticket.tstep]. destruct (apply_ticket_spec s t) as [[H E]|[H E]]; rewrite E; cbn [snd]; split; intros H1; try lia; auto.
    exfalso; eapply seq_error_not_ok; eauto.
  Qed.

  (* signed tickets: accepted exactly when bound, ids equal, 64-byte signature verifying over the
     canonical payload with the embedded key, sequence number greater than the current one *)
  Lemma signed_accept_iff s st :
    snd (tstep s (OSigned st)) = Ok tt <->
    (t_binding (s_mem s) = Some (st_mid st) /\ sig_ok st = true /\ cur s < tk_seq (st_ticket st)).
  Proof.
    cbn [Ticket.tstep].
    destruct (apply_signed_spec s st) as [[Hb E]|[b [Hb [[Hm E]|[[Hm [Hg E]]|[[Hm [Hg [Hq E]]]|[Hm [Hg [Hq E]]]]]]]]];
      rewrite E; cbn [snd]; split; intros H; try discriminate.
    - destruct H as [H _]; congruence.
    - destruct H as [H _]; congruence.
    - destruct H as [_ [H _]]; congruence.
    - exfalso; eapply seq_error_not_ok; eauto.
    - destruct H as [_ [_ H]]; lia.
    - subst b. auto.
    - reflexivity.
  Qed.

  Lemma signed_accept_state s st s' :
    tstep s (OSigned st) = (s', Ok tt) -> s' = install s (st_ticket st) true.
  Proof.
    cbn [Ticket.tstep]. intros Hs.
    destruct (apply_signed_spec s st) as [[_ E]|[b [_ [[_ E]|[[_ [_ E]]|[[_ [_ [_ E]]]|[_ [_ [_ E]]]]]]]]];
      rewrite E in Hs; apply pair_equal_spec in Hs as [H1 H2]; try discriminate; auto.
    exfalso; eapply seq_error_not_ok; eauto.
  Qed.

  (* reopen (with or without the Drop commit) keeps the ticket when nothing was unbound *)
  Lemma reopen_keeps_ticket s :
    tinv s -> t_ticket (s_mem (reopen s)) = t_ticket (s_mem s) /\ t_ticket (s_mem (crash_reopen s)) = t_ticket (s_mem s).
  Proof.
    intros Hi. unfold reopen, crash_reopen, commit. destruct (s_dirty s); cbn; auto.
  Qed.

  Lemma reachable_tinv ops s : no_unbind ops = true -> tinv s -> tinv (final s ops).
  Proof. intros Hn Hi. apply (accepted_sorted_from ops s Hn Hi). Qed.
End Signed.

(* ====================================================================================== *)
(* Part 2: the canonical payload determines every signed field                             *)
(* ====================================================================================== *)
Local Open Scope N_scope.

(* two lists of "inner" characters, each followed by a stop character, then anything *)
Lemma split_at_stop (P : N -> bool) : forall l l' x x' r r',
  forallb P l = true -> forallb P l' = true -> P x = false -> P x' = false ->
  l ++ x :: r = l' ++ x' :: r' -> l = l' /\ r = r'.
Proof.
  induction l as [|a l IH]; intros [|a' l'] x x' r r' Hl Hl' Hx Hx' E; cbn [app] in E.
  - inversion E; auto.
  - inversion E; subst. cbn [forallb] in Hl'. apply andb_true_iff in Hl' as [Ha _]. congruence.
  - inversion E; subst. cbn [forallb] in Hl. apply andb_true_iff in Hl as [Ha _]. congruence.
  - inversion E; subst. cbn [forallb] in Hl, Hl'.
    apply andb_true_iff in Hl as [_ Hl]. apply andb_true_iff in Hl' as [_ Hl'].
    destruct (IH l' x x' r r' Hl Hl' Hx Hx' H1) as [-> ->]. auto.
Qed.

Lemma app_same_length {A} : forall (a a' b b' : list A),
  length a = length a' -> a ++ b = a' ++ b' -> a = a' /\ b = b'.
Proof.
  induction a as [|x a IH]; intros [|x' a'] b b' Hl E; cbn in Hl; try discriminate.
  - auto.
  - cbn [app] in E. inversion E; subst. destruct (IH a' b b' (eq_add_S _ _ Hl) H1) as [-> ->]. auto.
Qed.

(* ---- decimal numbers ---- *)
Definition is_digit (b : N) : bool := (48 <=? b) && (b <=? 57).
Definition is_num_char (b : N) : bool := is_digit b || (b =? 45).

Lemma dec_uint_digits u : forallb is_digit (dec_uint u) = true.
Proof. induction u; cbn [dec_uint forallb]; try reflexivity; rewrite IHu; reflexivity. Qed.

Lemma dec_uint_inj : forall u u', dec_uint u = dec_uint u' -> u = u'.
Proof.
  induction u; intros u' E; destruct u'; cbn [dec_uint] in E; try discriminate; try reflexivity;
    inversion E as [E1]; f_equal; apply IHu; exact E1.
Qed.

Lemma N_to_uint_inj n n' : N.to_uint n = N.to_uint n' -> n = n'.
Proof. intros E. rewrite <- (DecimalN.Unsigned.of_to n), <- (DecimalN.Unsigned.of_to n'), E. reflexivity. Qed.

Lemma Z_to_int_inj z z' : Z.to_int z = Z.to_int z' -> z = z'.
Proof. intros E. rewrite <- (DecimalZ.of_to z), <- (DecimalZ.of_to z'), E. reflexivity. Qed.

Lemma dec_N_inj n n' : dec_N n = dec_N n' -> n = n'.
Proof. unfold dec_N. intros E. apply N_to_uint_inj, dec_uint_inj, E. Qed.

Lemma dec_N_digits n : forallb is_digit (dec_N n) = true.
Proof. apply dec_uint_digits. Qed.

Lemma digits_num l : forallb is_digit l = true -> forallb is_num_char l = true.
Proof.
  induction l as [|a l IH]; cbn [forallb]; [reflexivity|]. intros H. apply andb_true_iff in H as [Ha Hl].
  unfold is_num_char at 1. rewrite Ha, (IH Hl). reflexivity.
Qed.

Lemma dec_Z_num z : forallb is_num_char (dec_Z z) = true.
Proof.
  unfold dec_Z. destruct (Z.to_int z) as [u|u].
  - apply digits_num, dec_uint_digits.
  - cbn [forallb]. rewrite (digits_num _ (dec_uint_digits u)). reflexivity.
Qed.

Lemma dec_Z_inj z z' : dec_Z z = dec_Z z' -> z = z'.
Proof.
  unfold dec_Z. intros E. apply Z_to_int_inj.
  destruct (Z.to_int z) as [u|u], (Z.to_int z') as [u'|u'].
  - f_equal. apply dec_uint_inj, E.
  - exfalso. pose proof (dec_uint_digits u) as H. rewrite E in H. cbn [forallb] in H. discriminate.
  - exfalso. pose proof (dec_uint_digits u') as H. rewrite <- E in H. cbn [forallb] in H. discriminate.
  - inversion E as [E1]. f_equal. apply dec_uint_inj, E1.
Qed.

(* ---- hex / uuid ---- *)
Lemma hexd_inj a b : a < 16 -> b < 16 -> hexd a = hexd b -> a = b.
Proof. unfold hexd. intros Ha Hb. destruct (N.ltb_spec a 10), (N.ltb_spec b 10); lia. Qed.

Lemma hex2_inj a b : a < 256 -> b < 256 -> hex2 a = hex2 b -> a = b.
Proof.
  unfold hex2. intros Ha Hb E. inversion E as [[E1 E2]].
  apply hexd_inj in E1; [|lia|lia]. apply hexd_inj in E2; [|lia|lia]. lia.
Qed.

Lemma hexs_inj : forall l l', bytes_ok l = true -> bytes_ok l' = true -> hexs l = hexs l' -> l = l'.
Proof.
  induction l as [|a l IH]; intros [|a' l'] Hl Hl' E; try reflexivity; try discriminate.
  cbn [bytes_ok forallb] in Hl, Hl'. apply andb_true_iff in Hl as [Ha Hl]. apply andb_true_iff in Hl' as [Ha' Hl'].
  unfold byte_ok in Ha, Ha'. apply N.ltb_lt in Ha, Ha'.
  cbn [hexs flat_map] in E. change (flat_map hex2 l) with (hexs l) in E. change (flat_map hex2 l') with (hexs l') in E.
  apply app_same_length in E as [E1 E2]; [|reflexivity].
  apply hex2_inj in E1; [|assumption|assumption]. subst. f_equal. apply IH; assumption.
Qed.

Lemma list16 {A} (l : list A) : length l = 16%nat ->
  exists a0 a1 a2 a3 a4 a5 a6 a7 a8 a9 a10 a11 a12 a13 a14 a15,
    l = [a0; a1; a2; a3; a4; a5; a6; a7; a8; a9; a10; a11; a12; a13; a14; a15].
Proof.
  intros H. do 16 (destruct l as [|? l]; [discriminate|]). destruct l; [|discriminate].
  repeat eexists.
Qed.

Ltac in_list := cbn [In]; repeat first [left; reflexivity | right].

(* the 36-character hyphenated form determines the 16 bytes *)
Lemma uuid_str_inj id id' r r' :
  length id = 16%nat -> length id' = 16%nat -> bytes_ok id = true -> bytes_ok id' = true ->
  uuid_str id ++ r = uuid_str id' ++ r' -> id = id' /\ r = r'.
Proof.
  intros Hl Hl' Hok Hok' E.
  destruct (list16 id Hl) as (a0 & a1 & a2 & a3 & a4 & a5 & a6 & a7 & a8 & a9 & a10 & a11 & a12 & a13 & a14 & a15 & ->).
  destruct (list16 id' Hl') as (b0 & b1 & b2 & b3 & b4 & b5 & b6 & b7 & b8 & b9 & b10 & b11 & b12 & b13 & b14 & b15 & ->).
  assert (Hb : forall x, In x [a0; a1; a2; a3; a4; a5; a6; a7; a8; a9; a10; a11; a12; a13; a14; a15] -> x < 256).
  { intros x Hx. apply N.ltb_lt. exact (proj1 (forallb_forall _ _) Hok x Hx). }
  assert (Hb' : forall x, In x [b0; b1; b2; b3; b4; b5; b6; b7; b8; b9; b10; b11; b12; b13; b14; b15] -> x < 256).
  { intros x Hx. apply N.ltb_lt. exact (proj1 (forallb_forall _ _) Hok' x Hx). }
  unfold uuid_str, slice in E. cbn [firstn skipn hexs flat_map hex2 app] in E.
  injection E. intros.
  split; [|assumption].
  repeat (f_equal; [apply hex2_inj; [apply Hb; in_list | apply Hb'; in_list | unfold hex2; congruence]|]).
  f_equal. apply hex2_inj; [apply Hb; in_list | apply Hb'; in_list | unfold hex2; congruence].
Qed.

(* ---- JSON string escaping is a prefix code ---- *)
Ltac esc_cases :=
  unfold json_esc_byte;
  repeat match goal with |- context [if ?c then _ else _] => let Hc := fresh "Hc" in destruct c eqn:Hc end.

Lemma esc_byte_prefix b b' r r' :
  json_esc_byte b ++ r = json_esc_byte b' ++ r' -> b = b' /\ r = r'.
Proof.
  esc_cases; intros E; cbn [app hex2] in E; inversion E; subst;
    first [ split; [lia | reflexivity]
          | exfalso; lia
          | split; [apply hex2_inj; [lia | lia | unfold hex2; congruence] | reflexivity] ].
Qed.

Lemma esc_head b : exists h t, json_esc_byte b = h :: t /\ h <> 34.
Proof.
  esc_cases; cbn [app]; do 2 eexists; (split; [reflexivity|]); lia.
Qed.

Lemma esc_terminated : forall s s' r r',
  json_esc s ++ 34 :: r = json_esc s' ++ 34 :: r' -> s = s' /\ r = r'.
Proof.
  induction s as [|b s IH]; intros [|b' s'] r r' E.
  - cbn in E. inversion E; auto.
  - exfalso. cbn [json_esc flat_map] in E. destruct (esc_head b') as (h & t & Eh & Hne). rewrite Eh in E.
    cbn [app] in E. inversion E; congruence.
  - exfalso. cbn [json_esc flat_map] in E. destruct (esc_head b) as (h & t & Eh & Hne). rewrite Eh in E.
    cbn [app] in E. inversion E; congruence.
  - cbn [json_esc flat_map] in E. rewrite <- !app_assoc in E.
    apply esc_byte_prefix in E as [-> E].
    change (flat_map json_esc_byte s) with (json_esc s) in E. change (flat_map json_esc_byte s') with (json_esc s') in E.
    apply IH in E as [-> ->]. auto.
Qed.

(* ---- the whole payload ---- *)
Lemma P_SEQ_eq : P_SEQ = 34 :: P_SEQ_tl. Proof. reflexivity. Qed.
Lemma P_EXP_eq : P_EXP = 44 :: P_EXP_tl. Proof. reflexivity. Qed.
Lemma P_CAP_eq : P_CAP = 44 :: P_CAP_tl. Proof. reflexivity. Qed.
Lemma P_TAIL_eq : P_TAIL = [125]. Proof. reflexivity. Qed.
Lemma P_NULL_eq : P_NULL = [110; 117; 108; 108]. Proof. reflexivity. Qed.

Lemma cap_str_inj c c' : cap_str c ++ P_TAIL = cap_str c' ++ P_TAIL -> c = c'.
Proof.
  rewrite P_TAIL_eq. destruct c as [n|], c' as [n'|]; unfold cap_str; intros E.
  - apply (split_at_stop is_digit) in E as [E _]; try apply dec_N_digits; try reflexivity.
    f_equal. apply dec_N_inj, E.
  - exfalso. rewrite P_NULL_eq in E. pose proof (dec_N_digits n) as Hd.
    destruct (dec_N n) as [|d l]; cbn [app] in E; inversion E; subst. cbn [forallb] in Hd. discriminate.
  - exfalso. rewrite P_NULL_eq in E. pose proof (dec_N_digits n') as Hd.
    destruct (dec_N n') as [|d l]; cbn [app] in E; inversion E; subst. cbn [forallb] in Hd. discriminate.
  - reflexivity.
Qed.

(* Two tickets with the same canonical payload agree in every signed field. *)
Lemma canonical_payload_inj mid mid' issuer issuer' seq seq' expires expires' cap cap' :
  length mid = 16%nat -> length mid' = 16%nat -> bytes_ok mid = true -> bytes_ok mid' = true ->
  canonical_payload mid issuer seq expires cap = canonical_payload mid' issuer' seq' expires' cap' ->
  mid = mid' /\ issuer = issuer' /\ seq = seq' /\ expires = expires' /\ cap = cap'.
Proof.
  intros Hl Hl' Hok Hok' E. unfold canonical_payload in E.
  apply app_inv_head in E.
  apply uuid_str_inj in E as [Emid E]; try assumption.
  apply app_inv_head in E.
  rewrite P_SEQ_eq in E. rewrite <- !app_comm_cons in E.
  apply esc_terminated in E as [Eiss E].
  apply app_inv_head in E.
  rewrite P_EXP_eq in E. rewrite <- !app_comm_cons in E.
  apply (split_at_stop is_num_char) in E as [Eseq E]; try apply dec_Z_num; try reflexivity.
  apply app_inv_head in E.
  rewrite P_CAP_eq in E. rewrite <- !app_comm_cons in E.
  apply (split_at_stop is_digit) in E as [Eexp E]; try apply dec_N_digits; try reflexivity.
  apply app_inv_head in E.
  apply cap_str_inj in E.
  repeat split; auto using dec_Z_inj, dec_N_inj.
Qed.

Local Close Scope N_scope.

(* ---- tampering: a signature valid for one message only ---- *)
Section Tamper.
  Variable verify : bytes -> bytes -> bytes -> bool.
  Variable pubkey : bytes.

  Definition payload_of (st : sticket) : bytes :=
    canonical_payload (st_mid st) (tk_issuer (st_ticket st)) (tk_seq (st_ticket st))
                      (tk_expires (st_ticket st)) (tk_cap (st_ticket st)).
  Definition id_ok (st : sticket) : Prop := length (st_mid st) = 16%nat /\ bytes_ok (st_mid st) = true.

  (* If signature sg verifies (under the embedded key) for at most one message, then of all
     signed tickets carrying sg at most one field assignment is ever accepted: once a ticket
     with sg has been accepted in some state, a ticket with the same signature that differs in
     memory id, issuer, sequence number, expiry or capacity is rejected in every state. *)
  Lemma tampered_rejected (sg : bytes) :
    (forall m m', verify pubkey m sg = true -> verify pubkey m' sg = true -> m = m') ->
    forall s1 s2 st st',
      st_sig st = sg -> st_sig st' = sg -> id_ok st -> id_ok st' ->
      snd (tstep verify pubkey s1 (OSigned st)) = Ok tt ->
      snd (tstep verify pubkey s2 (OSigned st')) = Ok tt ->
      st' = st.
  Proof.
    intros Huniq s1 s2 st st' Hsg Hsg' [Hl Hok] [Hl' Hok'] Ha Ha'.
    apply signed_accept_iff in Ha as [_ [Hv _]]. apply signed_accept_iff in Ha' as [_ [Hv' _]].
    unfold sig_ok in Hv, Hv'. apply andb_true_iff in Hv as [_ Hv]. apply andb_true_iff in Hv' as [_ Hv'].
    rewrite Hsg in Hv. rewrite Hsg' in Hv'.
    pose proof (Huniq _ _ Hv Hv') as E.
    apply canonical_payload_inj in E as (E1 & E2 & E3 & E4 & E5); try assumption.
    destruct st as [[i q e c] m g], st' as [[i' q' e' c'] m' g']. cbn in *. subst. reflexivity.
  Qed.
End Tamper.

(* ====================================================================================== *)
(* Part 3: the statements as used in Properties/C25.v                                      *)
(* ====================================================================================== *)
Lemma accepted_strictly_increasing verify pubkey ops s :
  no_unbind ops = true -> tinv s -> StronglySorted Z.lt (cur s :: accepted verify pubkey s ops).
Proof.
  intros Hn Hi. destruct (accepted_sorted_from verify pubkey ops s Hn Hi) as [Hall [Hsort _]].
  constructor; assumption.
Qed.

Lemma accepted_only_if_greater_fresh verify pubkey pre op q s' :
  no_unbind pre = true ->
  tstep verify pubkey (final verify pubkey init_state pre) op = (s', Ok tt) -> op_seq op = Some q ->
  1 < q /\ Forall (fun q' => q' < q) (accepted verify pubkey init_state pre).
Proof. intros Hn Hs Hq. exact (accepted_only_if_greater verify pubkey pre op init_state q s' Hn tinv_init Hs Hq). Qed.

Lemma reopen_keeps_ticket_reachable verify pubkey ops :
  no_unbind ops = true ->
  let s := final verify pubkey init_state ops in
  t_ticket (s_mem (reopen s)) = t_ticket (s_mem s) /\ t_ticket (s_mem (crash_reopen s)) = t_ticket (s_mem s).
Proof. intros Hn s. apply reopen_keeps_ticket. exact (reachable_tinv verify pubkey ops init_state Hn tinv_init). Qed.

(* at i64::MAX every further ticket is refused by a panic (the `current_seq + 1` of the error
   value overflows) - and still changes nothing *)
Lemma reject_at_max_panics verify pubkey s t :
  cur s = I64_MAX -> tk_seq t <= I64_MAX -> tstep verify pubkey s (OApply t) = (s, Panic 1%N).
Proof.
  intros Hc Ht. cbn [tstep]. destruct (apply_ticket_spec s t) as [[_ E]|[H _]]; [|lia].
  rewrite E, Hc. reflexivity.
Qed.
