From MV Require Import Base.Prelude Base.Facts Model.Store Model.StoreSpec Proofs.StoreProofs Model.Derived.
Require Import ZifyBool ZifyNat ZifyN.
Local Open Scope N_scope.

(* ---------- what "refers to the frame it was derived from" means ---------- *)
(* R = the frames the memory exposes; the frame with id fid is a Document whose content is
   the one identified by `tag` *)
Definition frame_at (R : list frame) (fid tag : N) : Prop :=
  exists f, nth_error R (N.to_nat fid) = Some f /\ f_id f = fid /\ f_tag f = tag /\ f_role f = 0.

Definition Good (R : list frame) (d : derived) : Prop :=
  (forall c, In c (cards d) -> frame_at R (c_src c) (c_text c)) /\
  (forall fid ids, In (fid, ids) (stamps d) ->
     forall i, In i ids -> exists c, In c (cards d) /\ c_id c = i /\ c_src c = fid) /\
  (forall fid tag, In (fid, tag) (queue d) -> frame_at R fid tag).

Definition GoodInst (R : list frame) (l : list (N * N)) : Prop :=
  forall fid tag, In (fid, tag) l -> frame_at R fid tag.

Lemma frame_at_extends R R' fid tag : Extends R R' -> frame_at R fid tag -> frame_at R' fid tag.
Proof.
  intros [_ HE] (f & Hn & Hi & Ht & Hr). destruct (HE _ _ Hn) as (f' & Hn' & S1).
  destruct S1 as (I1 & I2 & I3 & I4 & _). exists f'. repeat split; congruence.
Qed.

Lemma Good_extends R R' d : Extends R R' -> Good R d -> Good R' d.
Proof.
  intros HE (G1 & G2 & G3). repeat split.
  - intros c Hc. eapply frame_at_extends; eauto.
  - exact G2.
  - intros fid tag Hq. eapply frame_at_extends; eauto.
Qed.

Lemma GoodInst_extends R R' l : Extends R R' -> GoodInst R l -> GoodInst R' l.
Proof. intros HE G fid tag Hq. eapply frame_at_extends; eauto. Qed.

Lemma Good_der0 R : Good R der0.
Proof. repeat split; cbn; intros; contradiction. Qed.

Lemma GoodInst_nil R : GoodInst R [].
Proof. intros fid tag H. contradiction. Qed.

Lemma GoodInst_snoc R l fid tag : GoodInst R l -> frame_at R fid tag -> GoodInst R (l ++ [(fid, tag)]).
Proof.
  intros G HF a b Hin. apply in_app_or in Hin as [Hin|[Hin|[]]]; [eapply G; eauto|]. inversion Hin; subst. exact HF.
Qed.

(* ---------- cards made by one extraction ---------- *)
Lemma mk_cards_in n : forall first src tag k c,
  In c (mk_cards first src tag k n) -> c_src c = src /\ c_text c = tag /\ first <= c_id c < first + N.of_nat n.
Proof.
  induction n as [|n IH]; intros first src tag k c Hin; cbn [mk_cards] in Hin; [contradiction|].
  destruct Hin as [Hc|Hin].
  - subst c. cbn [c_src c_text c_id]. repeat split; lia.
  - destruct (IH _ _ _ _ _ Hin) as (A & B & C). repeat split; try assumption; lia.
Qed.

Lemma mk_cards_length n : forall first src tag k, length (mk_cards first src tag k n) = n.
Proof. induction n as [|n IH]; intros; cbn [mk_cards length]; [reflexivity|]. rewrite IH. reflexivity. Qed.

Lemma Good_add_cards R d src tag n :
  Good R d -> frame_at R src tag -> Good R (add_cards d src tag n).
Proof.
  intros (G1 & G2 & G3) HF. unfold add_cards. destruct (n =? 0); [repeat split; assumption|].
  repeat split; cbn [cards stamps queue].
  - intros c Hc. apply in_app_or in Hc as [Hc|Hc]; [apply G1; assumption|].
    destruct (mk_cards_in _ _ _ _ _ _ Hc) as (A & B & _). rewrite A, B. exact HF.
  - intros fid ids Hs i Hi. apply in_app_or in Hs as [Hs|[Hs|[]]].
    + destruct (G2 _ _ Hs _ Hi) as (c & Hc & E1 & E2). exists c. split; [apply in_or_app; left; assumption|split; assumption].
    + inversion Hs; subst fid ids. apply in_map_iff in Hi as (c & E & Hc).
      exists c. split; [apply in_or_app; right; assumption|]. split; [assumption|].
      destruct (mk_cards_in _ _ _ _ _ _ Hc) as (A & _). exact A.
  - exact G3.
Qed.

Lemma Good_push_queue R d fid tag : Good R d -> frame_at R fid tag -> Good R (push_queue d fid tag).
Proof.
  intros (G1 & G2 & G3) HF. repeat split; cbn [push_queue cards stamps queue]; try assumption.
  intros a b Hin. apply in_app_or in Hin as [Hin|[Hin|[]]]; [eapply G3; eauto|]. inversion Hin; subst. exact HF.
Qed.

Lemma Good_clear_queue R d : Good R d -> Good R (clear_queue d).
Proof. intros (G1 & G2 & G3). repeat split; cbn [clear_queue cards stamps queue]; try assumption. intros; contradiction. Qed.

(* ---------- store facts used below ---------- *)
Lemma J_touch s R : J s R -> J (touch s) R.
Proof. intros HJ. exact HJ. Qed.
Lemma K_touch s : K s -> K (touch s).
Proof. intros HK. exact HK. Qed.

Lemma sstep_put_acked s uk tag n role auto : acked (snd (sstep s (OPut uk tag n role auto))) = true.
Proof. cbn [sstep]. destruct (append s _) as [s1 sq]. reflexivity. Qed.

(* what a put returns is the log sequence number: the id the code as it is attaches *)
Lemma sstep_put_returns s uk tag n role auto :
  fst (fst (snd (sstep s (OPut uk tag n role auto)))) = Ok (seqno s + 1).
Proof. cbn [sstep]. unfold append. reflexivity. Qed.

Lemma dstep_put_returns_der_id ds uk tag n auto fl :
  fst (fst (sout_of (snd (dstep false ds (DPut uk tag n auto fl))))) = Ok (der_id false (st ds)).
Proof.
  cbn [dstep]. pose proof (sstep_put_returns (st ds) uk tag n 0 auto) as H.
  destruct (sstep (st ds) (OPut uk tag n 0 auto)) as [s3 o]. cbn [snd sout_of fst] in *. exact H.
Qed.

Lemma len_to_nat (R : list frame) : N.to_nat (len R) = length R.
Proof. unfold len. lia. Qed.

(* the document frame of an acknowledged put, as a frame_at fact *)
Lemma ref_put_frame_at R uk tag nchunks : frame_at (ref_put R uk tag nchunks 0) (len R) tag.
Proof.
  destruct (ref_put_doc_frame R uk tag nchunks 0) as (f & Hn & Hi & Ht & Hr).
  exists f. rewrite len_to_nat. repeat split; assumption.
Qed.

(* ---------- the invariant ---------- *)
Definition Inv (ds : dstate) (R : list frame) : Prop :=
  J (st ds) R /\ K (st ds) /\ Good R (cur ds) /\ Good R (saved ds) /\ GoodInst R (inst ds).

Lemma Inv_ds0 : Inv ds0 [].
Proof.
  split; [apply J_store0|]. split; [apply K_store0|]. split; [apply Good_der0|]. split; [apply Good_der0|apply GoodInst_nil].
Qed.

(* one step of the REPAIRED code keeps every derived datum pointing at its document *)
Lemma dstep_fixed_inv ds R op :
  Inv ds R ->
  match sop_of op with
  | Some so => ref_ok R (so, sout_of (snd (dstep true ds op))) = true ->
               Inv (fst (dstep true ds op)) (ref_step R (so, sout_of (snd (dstep true ds op))))
  | None => Inv (fst (dstep true ds op)) R
  end.
Proof.
  intros (HJ & HK & GC & GS & GI).
  destruct op as [uk tag nchunks auto fl|o| |]; cbn [sop_of dstep].
  - (* put *)
    pose proof (sstep_refines (st ds) R (OPut uk tag nchunks 0 auto) HJ) as HS.
    pose proof (sstep_K (st ds) (OPut uk tag nchunks 0 auto) HK) as HK1.
    pose proof (sstep_put_acked (st ds) uk tag nchunks 0 auto) as HA.
    destruct (sstep (st ds) (OPut uk tag nchunks 0 auto)) as [s3 o]. cbn [fst snd sout_of] in *.
    intros Hok. specialize (HS Hok).
    assert (HR : ref_step R (OPut uk tag nchunks 0 auto, o) = ref_put R uk tag nchunks 0).
    { unfold ref_step. rewrite HA. reflexivity. }
    rewrite HR in *.
    assert (HE : Extends R (ref_put R uk tag nchunks 0)).
    { unfold ref_put. eapply Extends_trans; [apply Extends_snoc|apply ref_chunks_extends]. }
    assert (HF : frame_at (ref_put R uk tag nchunks 0) (der_id true (st ds)) tag).
    { unfold der_id. rewrite (next_frame_id_is_view_length _ _ HJ HK). apply ref_put_frame_at. }
    assert (GC1 : Good (ref_put R uk tag nchunks 0) (if df_queue fl then push_queue (cur ds) (der_id true (st ds)) tag else cur ds)).
    { destruct (df_queue fl); [apply Good_push_queue; [eapply Good_extends; eauto|assumption]|eapply Good_extends; eauto]. }
    unfold Inv. cbn [st cur saved inst]. split; [apply J_touch; assumption|]. split; [apply K_touch; assumption|].
    split; [apply Good_add_cards; assumption|].
    split.
    + destruct auto; [assumption|eapply Good_extends; eauto].
    + destruct auto; [apply GoodInst_nil|].
      destruct (df_instant fl); [apply GoodInst_snoc; [eapply GoodInst_extends; eauto|assumption]|eapply GoodInst_extends; eauto].
  - (* plain store op *)
    pose proof (sstep_refines (st ds) R o HJ) as HS.
    pose proof (sstep_K (st ds) o HK) as HK1.
    destruct (sstep (st ds) o) as [s1 out] eqn:Es. cbn [fst snd sout_of] in *.
    intros Hok. specialize (HS Hok).
    pose proof (Extends_ref_step R (o, out)) as HE.
    assert (GC' := Good_extends _ _ _ HE GC). assert (GS' := Good_extends _ _ _ HE GS). assert (GI' := GoodInst_extends _ _ _ HE GI).
    assert (Hst : st (dstore_after o ds s1) = s1) by (unfold dstore_after; destruct o; try destruct (op_saves _); reflexivity).
    unfold Inv. rewrite Hst. split; [exact HS|]. split; [exact HK1|].
    unfold dstore_after.
    destruct o; cbn [op_saves]; try (destruct auto); cbn [cur saved inst];
      (split; [|split]); first [exact GC' | exact GS' | exact GI' | apply GoodInst_nil].
  - (* drain *)
    unfold Inv. cbn [fst st cur saved inst]. split; [destruct (queue (cur ds)); [assumption|apply J_touch; assumption]|].
    split; [destruct (queue (cur ds)); [assumption|apply K_touch; assumption]|].
    split; [apply Good_clear_queue; assumption|]. split; assumption.
  - (* observe *)
    cbn [fst]. exact (conj HJ (conj HK (conj GC (conj GS GI)))).
Qed.

(* ---------- whole histories ---------- *)
(* side condition of C01/C06 (Proofs/StoreProofs.v ref_ok) threaded through a derived history *)
Fixpoint drun_ok (R : list frame) (xs : list (dop * dout)) : bool :=
  match xs with
  | [] => true
  | (op, o) :: r =>
      match sop_of op with
      | Some so => ref_ok R (so, sout_of o) && drun_ok (ref_step R (so, sout_of o)) r
      | None => drun_ok R r
      end
  end.

Fixpoint dref_run (R : list frame) (xs : list (dop * dout)) : list frame :=
  match xs with
  | [] => R
  | (op, o) :: r =>
      match sop_of op with
      | Some so => dref_run (ref_step R (so, sout_of o)) r
      | None => dref_run R r
      end
  end.

Theorem drun_fixed_inv : forall ops ds R,
  Inv ds R ->
  drun_ok R (combine ops (snd (drun true ds ops))) = true ->
  Inv (fst (drun true ds ops)) (dref_run R (combine ops (snd (drun true ds ops)))).
Proof.
  induction ops as [|op ops IH]; intros ds R HI Hok; cbn [drun]; [exact HI|].
  pose proof (dstep_fixed_inv ds R op HI) as HS.
  cbn [drun] in Hok.
  destruct (dstep true ds op) as [ds1 o]. destruct (drun true ds1 ops) as [ds2 os] eqn:Er.
  cbn [fst snd combine drun_ok dref_run] in *.
  destruct (sop_of op) as [so|].
  - apply andb_true_iff in Hok as [H1 H2]. specialize (HS H1). specialize (IH ds1 _ HS). rewrite Er in IH. cbn [fst snd] in IH. apply IH. exact H2.
  - specialize (IH ds1 _ HS). rewrite Er in IH. cbn [fst snd] in IH. apply IH. exact Hok.
Qed.

(* the statement of the property for the repaired code, all histories *)
Theorem fixed_derived_refer_to_their_frame ops :
  let ds := fst (drun true ds0 ops) in
  drun_ok [] (combine ops (snd (drun true ds0 ops))) = true ->
  Good (view (st ds)) (cur ds) /\ Good (view (st ds)) (saved ds) /\ GoodInst (view (st ds)) (inst ds).
Proof.
  intros ds Hok. destruct (drun_fixed_inv ops ds0 [] Inv_ds0 Hok) as (HJ & _ & GC & GS & GI).
  fold ds in HJ, GC, GS, GI. rewrite (J_view _ _ HJ). exact (conj GC (conj GS GI)).
Qed.

(* ---------- the code as it is ---------- *)
Definition no_derived (fl : dflags) : bool := negb (df_instant fl) && negb (df_queue fl) && (df_ncards fl =? 0).

Definition put_outside (ds : dstate) (op : dop) : bool :=
  match op with
  | DPut _ _ _ _ fl => negb (known_class (st ds)) || no_derived fl
  | _ => true
  end.

Lemma add_cards_zero d src tag : add_cards d src tag 0 = d.
Proof. reflexivity. Qed.

(* outside the known class the code as it is behaves exactly like the repaired code *)
Lemma dstep_asis_eq_fixed ds op : put_outside ds op = true -> dstep false ds op = dstep true ds op.
Proof.
  destruct op as [uk tag nchunks auto fl|o| |]; try reflexivity.
  cbn [put_outside]. intros H. apply orb_true_iff in H as [H|H].
  - unfold known_class in H. apply negb_true_iff, negb_false_iff in H.
    cbn [dstep]. unfold der_id. replace (seqno (st ds) + 1) with (next_frame_id (st ds)) by lia. reflexivity.
  - unfold no_derived in H. apply andb_true_iff in H as [H H3]. apply andb_true_iff in H as [H1 H2].
    apply negb_true_iff in H1, H2. destruct fl as [i q n]. cbn [df_instant df_queue df_ncards] in *. subst i q.
    assert (n = 0) by lia. subst n.
    cbn [dstep df_instant df_queue df_ncards]. rewrite !add_cards_zero. reflexivity.
Qed.

Fixpoint outside_run (ds : dstate) (ops : list dop) : bool :=
  match ops with
  | [] => true
  | op :: r => put_outside ds op && outside_run (fst (dstep false ds op)) r
  end.

Theorem drun_asis_eq_fixed : forall ops ds, outside_run ds ops = true -> drun false ds ops = drun true ds ops.
Proof.
  induction ops as [|op ops IH]; intros ds H; [reflexivity|].
  cbn [outside_run] in H. apply andb_true_iff in H as [H1 H2].
  cbn [drun]. rewrite <- (dstep_asis_eq_fixed ds op H1).
  destruct (dstep false ds op) as [ds1 o]. cbn [fst] in H2. rewrite (IH ds1 H2). reflexivity.
Qed.

Theorem asis_outside_known ops :
  let ds := fst (drun false ds0 ops) in
  outside_run ds0 ops = true ->
  drun_ok [] (combine ops (snd (drun false ds0 ops))) = true ->
  Good (view (st ds)) (cur ds) /\ Good (view (st ds)) (saved ds) /\ GoodInst (view (st ds)) (inst ds).
Proof.
  intros ds Ho Hok. subst ds. rewrite (drun_asis_eq_fixed ops ds0 Ho) in *.
  apply fixed_derived_refer_to_their_frame. exact Hok.
Qed.

(* inside the class every datum the put derives carries the log sequence number, which is not
   the id of the put's document frame *)
Lemma mk_cards_first first src tag n : n <> O -> In (mkCard first src tag 0) (mk_cards first src tag 0 n).
Proof. destruct n; [congruence|]. intros _. left. reflexivity. Qed.

Theorem asis_in_class_wrong ds R uk tag nchunks auto fl :
  Inv ds R -> known_class (st ds) = true ->
  let ds1 := fst (dstep false ds (DPut uk tag nchunks auto fl)) in
  let doc_id := len R in   (* the id of the document frame this put creates: ref_put_frame_at *)
  (df_ncards fl <> 0 -> exists c, In c (cards (cur ds1)) /\ c_text c = tag /\ c_src c = seqno (st ds) + 1 /\ c_src c <> doc_id) /\
  (df_ncards fl <> 0 -> exists ids, In (seqno (st ds) + 1, ids) (stamps (cur ds1)) /\ ids <> [] /\ seqno (st ds) + 1 <> doc_id) /\
  (df_queue fl = true -> In (seqno (st ds) + 1, tag) (queue (cur ds1)) /\ seqno (st ds) + 1 <> doc_id).
Proof.
  intros (HJ & HK & _) Hc ds1 doc_id.
  assert (Hne : seqno (st ds) + 1 <> doc_id).
  { unfold doc_id. rewrite <- (next_frame_id_is_view_length _ _ HJ HK). unfold known_class in Hc. lia. }
  subst ds1. cbn [dstep]. destruct (sstep (st ds) (OPut uk tag nchunks 0 auto)) as [s3 o]. cbn [fst cur der_id].
  split; [|split].
  - intros Hn. exists (mkCard (next_card (if df_queue fl then push_queue (cur ds) (seqno (st ds) + 1) tag else cur ds)) (seqno (st ds) + 1) tag 0).
    cbn [c_text c_src]. repeat split; try assumption.
    unfold add_cards. replace (df_ncards fl =? 0) with false by lia. cbn [cards].
    apply in_or_app. right. apply mk_cards_first. lia.
  - intros Hn. unfold add_cards. replace (df_ncards fl =? 0) with false by lia. cbn [stamps].
    eexists. split; [apply in_or_app; right; left; reflexivity|]. split; [|assumption].
    destruct (N.to_nat (df_ncards fl)) eqn:E; [lia|]. cbn [mk_cards map]. discriminate.
  - intros Hq. rewrite Hq. split; [|assumption].
    unfold add_cards. destruct (df_ncards fl =? 0); cbn [queue push_queue]; apply in_or_app; right; left; reflexivity.
Qed.

(* ---------- which histories are in the class: all of them, unless doctor reset the log sequence ---------- *)
Lemma resolve_orphans_len frames ins : len (resolve_orphans frames ins) = len frames.
Proof.
  unfold resolve_orphans.
  assert (H : forall fr, len (fold_left
    (fun fr id => match get frames id with
                  | Some f => if (f_role f =? 1) && (match f_parent f with None => true | Some _ => false end)
                              then match orphan_parent frames (N.to_nat id) id with
                                   | Some p => update_nth (N.to_nat id) (fun g => set_parent g (Some p)) fr
                                   | None => fr end
                              else fr
                  | None => fr end) ins fr) = len fr).
  { induction ins as [|id ins IH]; intros fr; cbn [fold_left]; [reflexivity|].
    rewrite IH. destruct (get frames id) as [f|]; [|reflexivity].
    destruct ((f_role f =? 1) && _); [|reflexivity].
    destruct (orphan_parent frames (N.to_nat id) id); [apply len_update|reflexivity]. }
  apply H.
Qed.

Lemma len_view s : len (view s) = len (committed s) + count_ins (pending s).
Proof.
  unfold view, apply_records.
  pose proof (fold_len (pending s) (committed s, [], [])) as HL. unfold st_frames in HL. cbn [fst] in HL.
  destruct (fold_left apply_entry (pending s) (committed s, [], [])) as [[fr smap] ins]. cbn [fst] in HL.
  rewrite resolve_orphans_len. exact HL.
Qed.

(* every insert ever logged consumed one sequence number *)
Definition SeqAhead (s : store) : Prop := len (committed s) + count_ins (pending s) <= seqno s.

Lemma SeqAhead_commit s extra : SeqAhead s -> SeqAhead (do_commit s extra).
Proof. unfold SeqAhead, do_commit. cbn [committed pending seqno]. rewrite len_view, count_ins_nil. lia. Qed.
Lemma SeqAhead_bump s extra : SeqAhead s -> SeqAhead (bump s extra).
Proof. unfold SeqAhead, bump. cbn [committed pending seqno]. lia. Qed.
Lemma SeqAhead_auto s auto : SeqAhead s -> SeqAhead (auto_commit s auto).
Proof. destruct auto; cbn [auto_commit]; [apply SeqAhead_commit|auto]. Qed.
Lemma SeqAhead_append s e : SeqAhead s -> SeqAhead (fst (append s e)).
Proof.
  unfold SeqAhead, append. cbn [fst committed pending seqno]. rewrite count_ins_app, count_ins_cons, count_ins_nil. cbn [snd].
  destruct (is_insert e); lia.
Qed.
Lemma SeqAhead_touch s : SeqAhead s -> SeqAhead (touch s).
Proof. intros H. exact H. Qed.

Definition doctor_free_s (o : sop) : bool := match o with ODoctor _ => false | _ => true end.
Definition doctor_free (op : dop) : bool := match op with DStore o => doctor_free_s o | _ => true end.

Lemma sstep_SeqAhead s o : doctor_free_s o = true -> SeqAhead s -> SeqAhead (fst (sstep s o)).
Proof.
  intros Hd HS. destruct o as [uk tag nchunks role auto|target newtag uk auto|target auto|extra|extra|extra|newseq]; cbn [sstep]; try discriminate.
  - pose proof (SeqAhead_append s (EInsert (match uk with Some k => Some (UExp k) | None => None end) tag role (0 <? nchunks) None None None) HS) as H1.
    destruct (append s _) as [s1 sq]. cbn [fst] in *. apply SeqAhead_auto.
    destruct (append_chunks_spec (N.to_nat nchunks) s1 sq uk tag 0) as (P & C & S & _).
    unfold SeqAhead in *. rewrite P, C, S, count_ins_app, count_ins_chunks. lia.
  - destruct (get (committed s) target); [|assumption]. destruct (negb _); [assumption|].
    match goal with |- context [append s ?e] => pose proof (SeqAhead_append s e HS) as H1; destruct (append s e) as [s1 sq] end.
    cbn [fst] in *. apply SeqAhead_auto. assumption.
  - destruct (get (committed s) target); [|assumption]. destruct (negb _); [assumption|].
    match goal with |- context [append s ?e] => pose proof (SeqAhead_append s e HS) as H1; destruct (append s e) as [s1 sq] end.
    cbn [fst] in *. apply SeqAhead_auto. assumption.
  - cbn [fst]. destruct (pending s); [destruct (dirty s)|]; first [apply SeqAhead_commit | apply SeqAhead_bump]; assumption.
  - cbn [fst].
    assert (H1 : SeqAhead (if dirty s then do_commit s extra else bump s extra)).
    { destruct (dirty s); [apply SeqAhead_commit|apply SeqAhead_bump]; assumption. }
    destruct (pending (if dirty s then do_commit s extra else bump s extra)); [assumption|apply SeqAhead_commit; assumption].
  - cbn [fst]. destruct (pending s) eqn:Ep; [|apply SeqAhead_commit; assumption].
    unfold SeqAhead in *. cbn [committed pending seqno]. rewrite Ep in HS. rewrite count_ins_nil in *. lia.
Qed.

Lemma dstep_store_facts fixed ds op :
  doctor_free op = true -> SeqAhead (st ds) -> K (st ds) ->
  SeqAhead (st (fst (dstep fixed ds op))) /\ K (st (fst (dstep fixed ds op))).
Proof.
  intros Hd HS HK. destruct op as [uk tag nchunks auto fl|o| |]; cbn [dstep].
  - pose proof (sstep_SeqAhead (st ds) (OPut uk tag nchunks 0 auto) eq_refl HS) as H1.
    pose proof (sstep_K (st ds) (OPut uk tag nchunks 0 auto) HK) as H2.
    destruct (sstep (st ds) (OPut uk tag nchunks 0 auto)) as [s3 o]. cbn [fst st] in *. split; assumption.
  - pose proof (sstep_SeqAhead (st ds) o Hd HS) as H1.
    pose proof (sstep_K (st ds) o HK) as H2.
    destruct (sstep (st ds) o) as [s1 out]. cbn [fst] in *. unfold dstore_after.
    destruct o; try (destruct (op_saves _)); cbn [st]; split; assumption.
  - cbn [fst st]. destruct (queue (cur ds)); split; assumption.
  - cbn [fst]. split; assumption.
Qed.

Lemma SeqAhead_store0 : SeqAhead store0.
Proof. unfold SeqAhead. vm_compute. discriminate. Qed.

Lemma drun_store_facts fixed : forall ops ds,
  forallb doctor_free ops = true -> SeqAhead (st ds) -> K (st ds) ->
  SeqAhead (st (fst (drun fixed ds ops))) /\ K (st (fst (drun fixed ds ops))).
Proof.
  induction ops as [|op ops IH]; intros ds Hd HS HK; cbn [drun]; [split; assumption|].
  cbn [forallb] in Hd. apply andb_true_iff in Hd as [H1 H2].
  destruct (dstep_store_facts fixed ds op H1 HS HK) as [A B].
  destruct (dstep fixed ds op) as [ds1 o]. cbn [fst] in A, B.
  specialize (IH ds1 H2 A B). destruct (drun fixed ds1 ops) as [ds2 os]. exact IH.
Qed.

Lemma SeqAhead_in_class s : SeqAhead s -> K s -> known_class s = true.
Proof.
  unfold SeqAhead, K, known_class, next_frame_id. intros HS HK. rewrite HK. lia.
Qed.

(* after ANY history without doctor, the next put is in the known class *)
Theorem asis_every_put_in_class ops :
  forallb doctor_free ops = true -> known_class (st (fst (drun false ds0 ops))) = true.
Proof.
  intros Hd. destruct (drun_store_facts false ops ds0 Hd SeqAhead_store0 K_store0) as [A B].
  apply SeqAhead_in_class; assumption.
Qed.

(* ---------- the text clause, with the rule extractor as an oracle ---------- *)
Section TextClause.
  Variables text value : Type.
  Variable contains : text -> value -> Prop.      (* `value` occurs in `text` *)
  Variable text_of : N -> text.                   (* the text of the content identified by a tag *)
  Variable extract : text -> list value.          (* RulesEngine: the values of the cards, in order *)
  Hypothesis extract_sub : forall t v, In v (extract t) -> contains t v.

  Definition card_value (c : card) : option value := nth_error (extract (text_of (c_text c))) (N.to_nat (c_k c)).
  Definition frame_text (f : frame) : text := text_of (f_tag f).

  Lemma good_card_text R d c v :
    Good R d -> In c (cards d) -> card_value c = Some v ->
    exists f, nth_error R (N.to_nat (c_src c)) = Some f /\ f_id f = c_src c /\ contains (frame_text f) v.
  Proof.
    intros (G1 & _) Hc Hv. destruct (G1 c Hc) as (f & Hn & Hi & Ht & _).
    exists f. split; [assumption|]. split; [assumption|].
    unfold frame_text. rewrite Ht. apply extract_sub. unfold card_value in Hv. eapply nth_error_In; eauto.
  Qed.
End TextClause.
