(* Proofs about Model/Snippet.v (compute_snippet_slices). *)
From Coq Require Import Sorted.
From MV Require Import Base.Prelude Base.Facts Model.Snippet.
Require Import ZifyBool ZifyNat ZifyN.
Local Open Scope N_scope.

(* ------------------------------------------------------------------ char boundaries *)
Lemma is_cb_0 t : is_char_boundary t 0 = true.
Proof. reflexivity. Qed.

Lemma is_cb_len t : is_char_boundary t (len t) = true.
Proof.
  unfold is_char_boundary. destruct (len t =? 0) eqn:E0; [reflexivity|].
  replace (len t <=? len t) with true by lia. lia.
Qed.

Lemma is_cb_le t i : is_char_boundary t i = true -> i <= len t.
Proof.
  unfold is_char_boundary. destruct (i =? 0) eqn:E0; [lia|].
  destruct (len t <=? i) eqn:E1; lia.
Qed.

Lemma prev_cb_loop_spec t fuel idx :
  N.of_nat fuel = idx -> idx <= len t ->
  is_char_boundary t (prev_cb_loop t fuel idx) = true /\ prev_cb_loop t fuel idx <= idx.
Proof.
  revert idx; induction fuel as [|f IH]; intros idx Hf Hl; cbn [prev_cb_loop].
  - replace idx with 0 by lia. split; [apply is_cb_0 | lia].
  - destruct ((0 <? idx) && negb (is_char_boundary t idx)) eqn:E.
    + destruct (IH (idx - 1)) as [H1 H2]; [lia | lia |]. split; [exact H1 | lia].
    + split; [|lia]. apply andb_false_iff in E as [E|E].
      * replace idx with 0 by lia. apply is_cb_0.
      * apply negb_false_iff in E. exact E.
Qed.

Lemma prev_cb_spec t idx :
  is_char_boundary t (prev_char_boundary t idx) = true /\
  prev_char_boundary t idx <= len t /\ prev_char_boundary t idx <= idx.
Proof.
  unfold prev_char_boundary.
  destruct (len t <? idx) eqn:E.
  - destruct (prev_cb_loop_spec t (N.to_nat (len t)) (len t)) as [H1 H2]; [lia | lia |].
    repeat split; [exact H1 | lia | lia].
  - destruct (prev_cb_loop_spec t (N.to_nat idx) idx) as [H1 H2]; [lia | lia |].
    repeat split; [exact H1 | lia | lia].
Qed.

Lemma next_cb_loop_spec t fuel idx :
  idx + N.of_nat fuel = len t ->
  is_char_boundary t (next_cb_loop t fuel idx) = true /\
  idx <= next_cb_loop t fuel idx /\ next_cb_loop t fuel idx <= len t.
Proof.
  revert idx; induction fuel as [|f IH]; intros idx Hf; cbn [next_cb_loop].
  - replace idx with (len t) by lia. split; [apply is_cb_len | lia].
  - destruct ((idx <? len t) && negb (is_char_boundary t idx)) eqn:E.
    + destruct (IH (idx + 1)) as (H1 & H2 & H3); [lia|]. repeat split; [exact H1 | lia | lia].
    + split; [|lia]. apply andb_false_iff in E as [E|E].
      * lia.
      * apply negb_false_iff in E. exact E.
Qed.

Lemma next_cb_spec t idx :
  is_char_boundary t (next_char_boundary t idx) = true /\
  next_char_boundary t idx <= len t /\ N.min idx (len t) <= next_char_boundary t idx.
Proof.
  unfold next_char_boundary.
  destruct (len t <? idx) eqn:E.
  - destruct (next_cb_loop_spec t (N.to_nat (len t - len t)) (len t)) as (H1 & H2 & H3); [lia|].
    repeat split; [exact H1 | lia | lia].
  - destruct (next_cb_loop_spec t (N.to_nat (len t - idx)) idx) as (H1 & H2 & H3); [lia|].
    repeat split; [exact H1 | lia | lia].
Qed.

(* prev/next_char_boundary are the identity on boundaries *)
Lemma prev_cb_fix t idx : is_char_boundary t idx = true -> prev_char_boundary t idx = idx.
Proof.
  intros Hb. pose proof (is_cb_le _ _ Hb) as Hl. unfold prev_char_boundary.
  replace (len t <? idx) with false by lia.
  destruct (N.to_nat idx) as [|f] eqn:Ef; cbn [prev_cb_loop]; [reflexivity|].
  rewrite Hb. cbn [negb]. rewrite andb_false_r. reflexivity.
Qed.

Lemma next_cb_fix t idx : is_char_boundary t idx = true -> next_char_boundary t idx = idx.
Proof.
  intros Hb. pose proof (is_cb_le _ _ Hb) as Hl. unfold next_char_boundary.
  replace (len t <? idx) with false by lia.
  destruct (N.to_nat (len t - idx)) as [|f] eqn:Ef; cbn [next_cb_loop]; [reflexivity|].
  rewrite Hb. cbn [negb]. rewrite andb_false_r. reflexivity.
Qed.

(* ------------------------------------------------------------------ char_indices *)
Lemma char_indices_from_spec bs pos p b :
  In (p, b) (char_indices_from bs pos) ->
  pos <= p /\ p < pos + len bs /\ nth (N.to_nat (p - pos)) bs 0 = b /\ is_lead b = true.
Proof.
  revert pos; induction bs as [|x r IH]; intros pos Hin; cbn [char_indices_from] in Hin; [contradiction|].
  unfold len in *. cbn [length].
  assert (Hrec : In (p, b) (char_indices_from r (pos + 1)) ->
                 pos <= p /\ p < pos + N.of_nat (S (length r)) /\ nth (N.to_nat (p - pos)) (x :: r) 0 = b /\ is_lead b = true).
  { intros Hr. apply IH in Hr as (H1 & H2 & H3 & H4).
    repeat split; [lia | lia | | exact H4].
    replace (N.to_nat (p - pos)) with (S (N.to_nat (p - (pos + 1)))) by lia. exact H3. }
  destruct (is_lead x) eqn:El.
  - destruct Hin as [Heq|Hr]; [|apply Hrec; exact Hr].
    inversion Heq; subst p b. repeat split; [lia | lia | | exact El].
    replace (N.to_nat (pos - pos)) with 0%nat by lia. reflexivity.
  - apply Hrec; exact Hin.
Qed.

Lemma char_indices_is_cb t p b : In (p, b) (char_indices t) -> is_char_boundary t p = true /\ p < len t.
Proof.
  intros Hin. apply char_indices_from_spec in Hin as (H1 & H2 & H3 & H4).
  split; [|lia]. unfold is_char_boundary.
  destruct (p =? 0) eqn:E0; [reflexivity|].
  replace (len t <=? p) with false by lia.
  unfold byte_at. replace (p - 0) with p in H3 by lia. rewrite H3. exact H4.
Qed.

(* char_indices_from is what the width-stepping decoder yields on structurally well-formed UTF-8 *)
Lemma char_indices_skip_conts k : forall r pos,
  (k <= length r)%nat -> forallb is_cont (firstn k r) = true ->
  char_indices_from r pos = char_indices_from (skipn k r) (pos + N.of_nat k).
Proof.
  induction k as [|k IH]; intros r pos Hk Hc.
  - cbn [skipn]. replace (pos + N.of_nat 0) with pos by lia. reflexivity.
  - destruct r as [|x r]; [cbn [length] in Hk; lia|].
    cbn [firstn forallb] in Hc. apply andb_true_iff in Hc as [Hx Hc].
    cbn [skipn char_indices_from].
    replace (is_lead x) with false by (unfold is_lead, is_cont in *; lia).
    rewrite (IH r (pos + 1)); [|cbn [length] in Hk; lia | exact Hc].
    replace (pos + 1 + N.of_nat k) with (pos + N.of_nat (S k)) by lia. reflexivity.
Qed.

Lemma utf8_width_pos b : 1 <= utf8_width b.
Proof. unfold utf8_width. destruct (b <? 128), (b <? 224), (b <? 240); lia. Qed.

Lemma decode_indices_eq fuel : forall bs pos,
  (length bs <= fuel)%nat -> utf8_shape fuel bs = true ->
  decode_indices fuel bs pos = char_indices_from bs pos.
Proof.
  induction fuel as [|f IH]; intros bs pos Hl Hs.
  - destruct bs; [reflexivity | cbn [length] in Hl; lia].
  - destruct bs as [|b r]; [reflexivity|].
    cbn [utf8_shape] in Hs. cbn [decode_indices char_indices_from].
    set (k := (N.to_nat (utf8_width b) - 1)%nat) in *.
    apply andb_true_iff in Hs as [Hs Hrest]. apply andb_true_iff in Hs as [Hs Hconts].
    apply andb_true_iff in Hs as [Hlead Hk]. apply Nat.leb_le in Hk.
    rewrite Hlead. f_equal.
    rewrite IH; [| rewrite skipn_length; cbn [length] in Hl; lia | exact Hrest].
    rewrite (char_indices_skip_conts k r (pos + 1) Hk Hconts).
    pose proof (utf8_width_pos b).
    replace (pos + 1 + N.of_nat k) with (pos + utf8_width b) by (subst k; lia). reflexivity.
Qed.

Theorem char_indices_is_decoder bs :
  utf8_shape (length bs) bs = true -> decode_indices (length bs) bs 0 = char_indices bs.
Proof. intros H. apply decode_indices_eq; [lia | exact H]. Qed.

(* ------------------------------------------------------------------ advance_boundary *)
Lemma advance_loop_spec t cs window last :
  (forall p b, In (p, b) cs -> is_char_boundary t p = true /\ p < len t) ->
  last <= len t ->
  is_char_boundary t (advance_loop t 0 cs window last) = true /\ advance_loop t 0 cs window last <= len t.
Proof.
  revert window last; induction cs as [|[off ch] r IH]; intros window last Hcs Hl; cbn [advance_loop].
  - replace (N.max (len t) last) with (len t) by lia. split; [apply is_cb_len | lia].
  - destruct (Hcs off ch (or_introl eq_refl)) as [Hb Hlt].
    destruct (window =? 0).
    + replace (0 + off) with off by lia. split; [exact Hb | lia].
    + apply IH; [intros p b Hin; apply (Hcs p b); right; exact Hin | lia].
Qed.

Lemma advance_loop_pos t cs window last :
  (forall p b, In (p, b) cs -> 1 <= p) -> 0 < len t ->
  0 < advance_loop t 0 cs window last.
Proof.
  revert window last; induction cs as [|[off ch] r IH]; intros window last Hcs Hl; cbn [advance_loop].
  - lia.
  - pose proof (Hcs off ch (or_introl eq_refl)) as H1.
    destruct (window =? 0); [lia|].
    apply IH; [intros p b Hin; apply (Hcs p b); right; exact Hin | exact Hl].
Qed.

Lemma advance_boundary_spec t window :
  is_char_boundary t (advance_boundary t 0 window) = true /\ advance_boundary t 0 window <= len t.
Proof.
  unfold advance_boundary. destruct (len t <=? 0) eqn:E.
  - split; [apply is_cb_len | lia].
  - change (N.to_nat 0) with 0%nat. cbn [skipn].
    apply advance_loop_spec; [intros p b; apply char_indices_is_cb | lia].
Qed.

Lemma advance_boundary_pos t window :
  t <> [] -> 1 <= window -> 0 < advance_boundary t 0 window.
Proof.
  intros Ht Hw. destruct t as [|x r]; [congruence|].
  unfold advance_boundary. replace (len (x :: r) <=? 0) with false by (unfold len; cbn [length]; lia).
  change (N.to_nat 0) with 0%nat. cbn [skipn]. unfold char_indices. cbn [char_indices_from].
  assert (Hr : forall p b, In (p, b) (char_indices_from r (0 + 1)) -> 1 <= p).
  { intros p b Hin. apply char_indices_from_spec in Hin. lia. }
  assert (Hl : 0 < len (x :: r)) by (unfold len; cbn [length]; lia).
  destruct (is_lead x).
  - cbn [advance_loop]. replace (window =? 0) with false by lia.
    apply advance_loop_pos; assumption.
  - apply advance_loop_pos; assumption.
Qed.

(* ------------------------------------------------------------------ one occurrence *)
Lemma occurrence_bounds_ok t window occ a b :
  occurrence_bounds t window occ = Ok (a, b) ->
  is_char_boundary t a = true /\ is_char_boundary t b = true /\ a <= len t /\ b <= len t.
Proof.
  destruct occ as [s e]. unfold occurrence_bounds, add_chk.
  destruct (e + window / 2 <? USIZE_LIMIT); [|discriminate].
  intros H; inversion H; subst a b; clear H.
  match goal with |- is_char_boundary t (prev_char_boundary t ?x) = true /\ is_char_boundary t (next_char_boundary t ?y) = true /\ _ =>
    destruct (prev_cb_spec t x) as (P1 & P2 & _); destruct (next_cb_spec t y) as (N1 & N2 & _) end.
  repeat split; assumption.
Qed.

Lemma occurrence_bounds_total t window occ :
  end_overflows window occ = false -> exists a b, occurrence_bounds t window occ = Ok (a, b).
Proof.
  destruct occ as [s e]. unfold end_overflows, occurrence_bounds, add_chk. cbn [snd]. intros H.
  replace (e + window / 2 <? USIZE_LIMIT) with true by lia. eauto.
Qed.

Lemma occurrence_bounds_panic t window occ :
  (exists s, occurrence_bounds t window occ = Panic s) <-> end_overflows window occ = true.
Proof.
  destruct occ as [s e]. unfold end_overflows, occurrence_bounds, add_chk. cbn [snd].
  destruct (e + window / 2 <? USIZE_LIMIT) eqn:E; split.
  - intros [x Hx]; discriminate.
  - lia.
  - lia.
  - eauto.
Qed.

Lemma occurrence_bounds_no_err t window occ k : occurrence_bounds t window occ <> Err k.
Proof.
  destruct occ as [s e]. unfold occurrence_bounds, add_chk.
  destruct (e + window / 2 <? USIZE_LIMIT); discriminate.
Qed.

(* ------------------------------------------------------------------ the merge loop *)
(* invariant of `merged`, stated on the reversed list (head = last pushed) *)
Definition slice_wf (t : bytes) (s : slice_t) : Prop :=
  fst s < snd s /\ snd s <= len t /\ is_char_boundary t (fst s) = true /\ is_char_boundary t (snd s) = true.

Fixpoint loop_inv (t : bytes) (m : list slice_t) : Prop :=
  match m with
  | [] => True
  | x :: m' => slice_wf t x /\
               match m' with [] => True | y :: _ => snd y + 20 < fst x end /\
               loop_inv t m'
  end.

Definition count_bound (max_snippets : N) : N := N.max max_snippets 1.

Lemma merge_loop_inv t window max_snippets occs : forall m r,
  loop_inv t m -> N.of_nat (length m) < count_bound max_snippets ->
  merge_loop t window max_snippets occs m = Ok r ->
  loop_inv t r /\ N.of_nat (length r) <= count_bound max_snippets /\ (m <> [] -> r <> []).
Proof.
  unfold count_bound.
  induction occs as [|occ rest IH]; intros m r Hinv Hcnt Hrun; cbn [merge_loop] in Hrun.
  - inversion Hrun; subst r. refine (conj Hinv (conj _ _)); [lia | auto].
  - destruct (occurrence_bounds t window occ) as [[a b]|k|s] eqn:Eob; try discriminate.
    apply occurrence_bounds_ok in Eob as (Ha & Hb & Hal & Hbl).
    destruct (b <=? a) eqn:Eskip; [apply (IH m r); assumption|].
    assert (Hpush : forall r0,
      (match m with [] => True | y :: _ => snd y + 20 < a end) ->
      (if max_snippets <=? N.of_nat (length ((N.min a (len t), N.min b (len t)) :: m))
       then Ok ((N.min a (len t), N.min b (len t)) :: m)
       else merge_loop t window max_snippets rest ((N.min a (len t), N.min b (len t)) :: m)) = Ok r0 ->
      loop_inv t r0 /\ N.of_nat (length r0) <= N.max max_snippets 1 /\ (m <> [] -> r0 <> [])).
    { intros r0 Hgap Hr0.
      replace (N.min a (len t)) with a in Hr0 by lia. replace (N.min b (len t)) with b in Hr0 by lia.
      assert (Hinv2 : loop_inv t ((a, b) :: m)).
      { cbn [loop_inv]. repeat split; cbn [fst snd]; try assumption; try lia. }
      destruct (max_snippets <=? N.of_nat (length ((a, b) :: m))) eqn:Emax.
      - inversion Hr0; subst r0. refine (conj Hinv2 (conj _ _)); [cbn [length] in *; lia | discriminate].
      - destruct (IH ((a, b) :: m) r0 Hinv2) as (I1 & I2 & I3); [cbn [length] in *; lia | exact Hr0 |].
        refine (conj I1 (conj I2 _)). intros _; apply I3; discriminate. }
    destruct m as [|[l0 l1] m'].
    + apply Hpush; [exact I | exact Hrun].
    + destruct (a <=? l1 + 20) eqn:Emerge.
      * cbn [loop_inv] in Hinv. destruct Hinv as ((W1 & W2 & W3 & W4) & Hg & Hrest). cbn [fst snd] in *.
        destruct (IH ((l0, N.max l1 b) :: m') r) as (I1 & I2 & I3); [| exact Hcnt | exact Hrun |].
        { cbn [loop_inv]. repeat split; cbn [fst snd]; try assumption; try lia.
          destruct (N.max_spec l1 b) as [[_ ->]|[_ ->]]; assumption. }
        refine (conj I1 (conj I2 _)). intros _; apply I3; discriminate.
      * apply Hpush; [cbn [snd]; lia | exact Hrun].
Qed.

Lemma merge_loop_total t window max_snippets occs : forall m,
  forallb (fun o => negb (end_overflows window o)) occs = true ->
  exists r, merge_loop t window max_snippets occs m = Ok r.
Proof.
  induction occs as [|occ rest IH]; intros m Hall; cbn [merge_loop]; [eauto|].
  cbn [forallb] in Hall. apply andb_true_iff in Hall as [Ho Hrest].
  apply negb_true_iff in Ho. destruct (occurrence_bounds_total t window occ Ho) as (a & b & ->).
  destruct (b <=? a); [apply IH; exact Hrest|].
  destruct m as [|[l0 l1] m'].
  - destruct (max_snippets <=? _); [eauto | apply IH; exact Hrest].
  - destruct (a <=? l1 + 20); [apply IH; exact Hrest|].
    destruct (max_snippets <=? _); [eauto | apply IH; exact Hrest].
Qed.

Lemma merge_loop_panic t window max_snippets occs : forall m s,
  merge_loop t window max_snippets occs m = Panic s -> existsb (end_overflows window) occs = true.
Proof.
  induction occs as [|occ rest IH]; intros m s Hrun; cbn [merge_loop] in Hrun; [discriminate|].
  cbn [existsb]. apply orb_true_iff.
  destruct (occurrence_bounds t window occ) as [[a b]|k|s'] eqn:Eob.
  - right. destruct (b <=? a); [eapply IH; exact Hrun|].
    destruct m as [|[l0 l1] m'].
    + destruct (max_snippets <=? _); [discriminate | eapply IH; exact Hrun].
    + destruct (a <=? l1 + 20); [eapply IH; exact Hrun|].
      destruct (max_snippets <=? _); [discriminate | eapply IH; exact Hrun].
  - exfalso. eapply occurrence_bounds_no_err; exact Eob.
  - left. apply (occurrence_bounds_panic t window occ). eauto.
Qed.

Lemma merge_loop_no_err t window max_snippets occs : forall m k,
  merge_loop t window max_snippets occs m <> Err k.
Proof.
  induction occs as [|occ rest IH]; intros m k; cbn [merge_loop]; [discriminate|].
  destruct (occurrence_bounds t window occ) as [[a b]|k'|s'] eqn:Eob.
  - destruct (b <=? a); [apply IH|].
    destruct m as [|[l0 l1] m'].
    + destruct (max_snippets <=? _); [discriminate | apply IH].
    + destruct (a <=? l1 + 20); [apply IH|].
      destruct (max_snippets <=? _); [discriminate | apply IH].
  - exfalso. eapply occurrence_bounds_no_err; exact Eob.
  - discriminate.
Qed.

(* ------------------------------------------------------------------ from the invariant to the property *)
(* gap-separated: every later slice starts more than 20 bytes after every earlier one ends *)
Definition far_before (x y : slice_t) : Prop := snd x + 20 < fst y.
Definition separated (l : list slice_t) : Prop := StronglySorted far_before l.

Lemma loop_inv_all_before t x m :
  loop_inv t (x :: m) -> Forall (fun y => far_before y x) m.
Proof.
  revert x; induction m as [|y m IH]; intros x Hinv; [constructor|].
  cbn [loop_inv] in Hinv. destruct Hinv as (Wx & Hg & Wy & Hg2 & Hrest).
  constructor; [exact Hg|].
  assert (Hy : loop_inv t (y :: m)) by (cbn [loop_inv]; auto).
  specialize (IH y Hy). eapply Forall_impl; [|exact IH].
  intros z Hz. unfold far_before in *. destruct Wy as (W1 & _). lia.
Qed.

Lemma loop_inv_tail t x m : loop_inv t (x :: m) -> loop_inv t m.
Proof. cbn [loop_inv]. tauto. Qed.

Lemma StronglySorted_snoc {A} (R : A -> A -> Prop) l x :
  StronglySorted R l -> Forall (fun y => R y x) l -> StronglySorted R (l ++ [x]).
Proof.
  induction l as [|a l IH]; intros Hs Hf; cbn [app].
  - constructor; constructor.
  - apply StronglySorted_inv in Hs as [Hs Ha]. inversion Hf as [|? ? Hax Hf']; subst.
    constructor; [apply IH; assumption|].
    apply Forall_app; split; [exact Ha | constructor; [exact Hax | constructor]].
Qed.

Lemma loop_inv_rev t m :
  loop_inv t m -> Forall (slice_wf t) (rev m) /\ separated (rev m).
Proof.
  induction m as [|x m IH]; intros Hinv; cbn [rev].
  - split; constructor.
  - destruct (IH (loop_inv_tail _ _ _ Hinv)) as [F S].
    split.
    + apply Forall_app; split; [exact F | constructor; [|constructor]]. cbn [loop_inv] in Hinv; tauto.
    + apply StronglySorted_snoc; [exact S|].
      apply Forall_rev. eapply loop_inv_all_before; exact Hinv.
Qed.

Lemma slice_wf_str_slice t s :
  slice_wf t s -> exists bs, str_slice t (fst s) (snd s) = Ok bs /\ bs <> [].
Proof.
  destruct s as [a b]. unfold slice_wf; cbn [fst snd]. intros (H1 & H2 & H3 & H4).
  unfold str_slice. rewrite H3, H4. replace (a <=? b) with true by lia. cbn [andb].
  eexists; split; [reflexivity|].
  intros E. apply (f_equal (@length N)) in E. rewrite firstn_length, skipn_length in E.
  unfold len in H2. cbn [length] in E. lia.
Qed.

Lemma slice_wf_valid t s : slice_wf t s -> slice_valid t s.
Proof.
  intros H. pose proof (slice_wf_str_slice t s H) as Hs.
  destruct H as (H1 & H2 & H3 & H4). unfold slice_valid. tauto.
Qed.

Lemma separated_increasing l : Forall (fun s : slice_t => fst s <= snd s) l -> separated l -> increasing l.
Proof.
  unfold separated, increasing. induction l as [|x l IH]; intros Hle Hs; [constructor|].
  apply StronglySorted_inv in Hs as [Hs Hx]. inversion Hle as [|? ? Hx1 Hl]; subst.
  constructor; [apply IH; assumption|].
  eapply Forall_impl; [|exact Hx]. intros y Hy. unfold far_before, before in *. lia.
Qed.

(* ------------------------------------------------------------------ unconditional theorem *)
(* weak validity: everything except non-emptiness *)
Definition slice_sane (t : bytes) (s : slice_t) : Prop :=
  fst s <= snd s /\ snd s <= len t /\ is_char_boundary t (fst s) = true /\ is_char_boundary t (snd s) = true /\
  exists bs, str_slice t (fst s) (snd s) = Ok bs.

Lemma slice_wf_sane t s : slice_wf t s -> slice_sane t s.
Proof.
  intros H. destruct (slice_wf_str_slice t s H) as (bs & Hb & _).
  destruct H as (H1 & H2 & H3 & H4). unfold slice_sane.
  split; [lia|]. split; [exact H2|]. split; [exact H3|]. split; [exact H4|]. eauto.
Qed.

Lemma fallback_sane t window :
  slice_sane t (0, advance_boundary t 0 window).
Proof.
  destruct (advance_boundary_spec t window) as [Hb Hl].
  unfold slice_sane; cbn [fst snd].
  split; [lia|]. split; [exact Hl|]. split; [reflexivity|]. split; [exact Hb|].
  unfold str_slice. rewrite Hb. replace (0 <=? advance_boundary t 0 window) with true by lia.
  rewrite is_cb_0. cbn [andb]. eauto.
Qed.

Lemma fallback_wf t window : t <> [] -> 1 <= window -> slice_wf t (0, advance_boundary t 0 window).
Proof.
  intros Ht Hw. destruct (advance_boundary_spec t window) as [Hb Hl].
  pose proof (advance_boundary_pos t window Ht Hw).
  unfold slice_wf; cbn [fst snd].
  split; [assumption|]. split; [exact Hl|]. split; [reflexivity | exact Hb].
Qed.

(* what the result looks like, for ALL arguments *)
Inductive result_shape (t : bytes) (window max_snippets : N) : list slice_t -> Prop :=
| shape_empty : t = [] -> result_shape t window max_snippets []
| shape_fallback : t <> [] -> result_shape t window max_snippets [(0, advance_boundary t 0 window)]
| shape_merged sl : t <> [] -> sl <> [] -> Forall (slice_wf t) sl -> separated sl ->
                    N.of_nat (length sl) <= count_bound max_snippets ->
                    result_shape t window max_snippets sl.

Lemma compute_shape t occs window max_snippets sl :
  compute_snippet_slices t occs window max_snippets = Ok sl -> result_shape t window max_snippets sl.
Proof.
  unfold compute_snippet_slices. destruct t as [|x t']; [intros H; inversion H; constructor; reflexivity|].
  set (t := x :: t'). assert (Ht : t <> []) by discriminate.
  destruct occs as [|o occs']; [intros H; inversion H; apply shape_fallback; exact Ht|].
  destruct (merge_loop t window max_snippets (o :: occs') []) as [m|k|s] eqn:Em; try discriminate.
  destruct (merge_loop_inv t window max_snippets (o :: occs') [] m) as (I1 & I2 & _);
    [exact I | unfold count_bound; cbn [length]; lia | exact Em |].
  destruct m as [|y m']; intros H; inversion H; subst sl; clear H.
  - apply shape_fallback; exact Ht.
  - destruct (loop_inv_rev t (y :: m') I1) as [F S].
    apply shape_merged; try assumption.
    + intros E. change (rev (y :: m') = []) in E.
      apply (f_equal (@length (N * N))) in E. rewrite rev_length in E. discriminate.
    + change (N.of_nat (length (rev (y :: m'))) <= count_bound max_snippets). rewrite rev_length. exact I2.
Qed.

Theorem slices_always t occs window max_snippets sl :
  compute_snippet_slices t occs window max_snippets = Ok sl ->
  Forall (slice_sane t) sl /\ separated sl /\
  N.of_nat (length sl) <= N.max max_snippets 1 /\
  (1 <= window -> Forall (slice_valid t) sl) /\
  (t <> [] -> sl <> []) /\ (t = [] -> sl = []).
Proof.
  intros H. apply compute_shape in H. destruct H as [Ht | Ht | sl Ht Hne F S C].
  - split; [constructor|]. split; [constructor|]. split; [cbn [length]; lia|].
    split; [intros _; constructor|]. split; [congruence | reflexivity].
  - split; [constructor; [apply fallback_sane | constructor]|].
    split; [constructor; constructor|].
    split; [cbn [length]; lia|].
    split; [intros Hw; constructor; [apply slice_wf_valid; apply fallback_wf; assumption | constructor]|].
    split; [discriminate | congruence].
  - split; [eapply Forall_impl; [|exact F]; apply slice_wf_sane|].
    split; [exact S|].
    split; [exact C|].
    split; [intros _; eapply Forall_impl; [|exact F]; apply slice_wf_valid|].
    split; [auto | congruence].
Qed.

Theorem never_err t occs window max_snippets k : compute_snippet_slices t occs window max_snippets <> Err k.
Proof.
  unfold compute_snippet_slices. destruct t as [|x t']; [discriminate|]. destruct occs as [|o occs']; [discriminate|].
  destruct (merge_loop _ _ _ _ _) as [m|k'|s] eqn:Em; [destruct m; discriminate | | discriminate].
  exfalso. eapply merge_loop_no_err; exact Em.
Qed.

Theorem panic_only_on_overflow t occs window max_snippets s :
  compute_snippet_slices t occs window max_snippets = Panic s ->
  known_end_overflow t occs window max_snippets = true.
Proof.
  unfold compute_snippet_slices, known_end_overflow. destruct t as [|x t']; [discriminate|]. cbn [nonempty_text andb].
  destruct occs as [|o occs']; [discriminate|].
  destruct (merge_loop _ _ _ _ _) as [m|k'|s'] eqn:Em; [destruct m; discriminate | discriminate |].
  intros _. eapply merge_loop_panic; exact Em.
Qed.

Theorem total_without_overflow t occs window max_snippets :
  forallb (fun o => negb (end_overflows window o)) occs = true ->
  exists sl, compute_snippet_slices t occs window max_snippets = Ok sl.
Proof.
  intros Hall. unfold compute_snippet_slices. destruct t as [|x t']; [eauto|]. destruct occs as [|o occs']; [eauto|].
  destruct (merge_loop_total (x :: t') window max_snippets (o :: occs') [] Hall) as [m ->].
  destruct m; eauto.
Qed.

(* ------------------------------------------------------------------ the property under the guard *)
Lemma guard_known t occs window max_snippets :
  guard t occs window max_snippets = negb (known_class t occs window max_snippets).
Proof.
  unfold guard, known_class, known_max_zero, known_window_zero, known_end_overflow.
  destruct (nonempty_text t); cbn [negb andb orb]; [|reflexivity].
  assert (E : forallb (fun o => negb (end_overflows window o)) occs = negb (existsb (end_overflows window) occs)).
  { induction occs as [|o r IH]; cbn [forallb existsb]; [reflexivity|]. rewrite IH, negb_orb. reflexivity. }
  rewrite E. destruct (existsb (end_overflows window) occs); lia.
Qed.

Theorem slices_ok_under_guard t occs window max_snippets :
  guard t occs window max_snippets = true ->
  slices_ok t max_snippets (compute_snippet_slices t occs window max_snippets).
Proof.
  unfold guard. intros Hg. destruct t as [|x t'].
  - cbn. repeat split; try constructor. lia.
  - cbn [nonempty_text negb orb] in Hg.
    apply andb_true_iff in Hg as [Hg Hov]. apply andb_true_iff in Hg as [Hmax Hwin].
    destruct (total_without_overflow (x :: t') occs window max_snippets Hov) as [sl Hsl].
    rewrite Hsl. cbn [slices_ok].
    destruct (slices_always _ _ _ _ _ Hsl) as (F & S & C & V & _).
    assert (Hv : Forall (slice_valid (x :: t')) sl) by (apply V; lia).
    repeat split; [exact Hv | | lia].
    apply separated_increasing; [|exact S].
    eapply Forall_impl; [|exact Hv]. intros s (H1 & _). lia.
Qed.

Theorem slices_ok_outside_known t occs window max_snippets :
  known_class t occs window max_snippets = false ->
  slices_ok t max_snippets (compute_snippet_slices t occs window max_snippets).
Proof.
  intros Hk. apply slices_ok_under_guard. rewrite guard_known, Hk. reflexivity.
Qed.

(* stronger ordering than the property asks for: consecutive slices are more than 20 bytes apart *)
Theorem slices_separated t occs window max_snippets sl :
  compute_snippet_slices t occs window max_snippets = Ok sl -> separated sl.
Proof. intros H. apply slices_always in H. tauto. Qed.

(* ------------------------------------------------------------------ boolean oracle = the property *)
Lemma slice_validb_spec t s : slice_validb t s = true <-> slice_valid t s.
Proof.
  unfold slice_validb, slice_valid. split.
  - intros H. repeat (apply andb_true_iff in H as [H ?]).
    destruct (str_slice t (fst s) (snd s)) as [[|b bs]|k|p] eqn:E; try discriminate.
    repeat split; try lia. exists (b :: bs). split; [reflexivity | discriminate].
  - intros (H1 & H2 & H3 & H4 & bs & H5 & H6). rewrite H3, H4, H5.
    destruct bs; [congruence|]. lia.
Qed.

Lemma increasingb_spec l : increasingb l = true <-> increasing l.
Proof.
  unfold increasing. induction l as [|x r IH]; cbn [increasingb].
  - split; [constructor | reflexivity].
  - rewrite andb_true_iff, IH, forallb_forall. split.
    + intros [Hf Hs]. constructor; [exact Hs|]. apply Forall_forall. intros y Hy. specialize (Hf y Hy). unfold before. lia.
    + intros Hs. apply StronglySorted_inv in Hs as [Hs Hf]. split; [|exact Hs].
      intros y Hy. rewrite Forall_forall in Hf. specialize (Hf y Hy). unfold before in Hf. lia.
Qed.

Theorem slices_okb_spec t max_snippets r : slices_okb t max_snippets r = true <-> slices_ok t max_snippets r.
Proof.
  destruct r as [sl|k|p]; cbn [slices_okb slices_ok]; [|split; [discriminate|tauto]..].
  rewrite !andb_true_iff, increasingb_spec, forallb_forall, Forall_forall.
  split.
  - intros [[H1 H2] H3]. split; [|split; [exact H2 | lia]]. intros s Hs. apply slice_validb_spec; auto.
  - intros (H1 & H2 & H3). split; [split; [|exact H2] | lia]. intros s Hs. apply slice_validb_spec; auto.
Qed.

(* ------------------------------------------------------------------ call sites *)
(* every in-tree caller passes window = snippet_chars.max(80) (or 160), max = top_k.max(1) (or 3),
   and occurrence ends that are offsets into some string (<= isize::MAX) *)
Definition callsite_args (occs : list (N * N)) (window max_snippets : N) : Prop :=
  80 <= window /\ window < USIZE_LIMIT /\ 1 <= max_snippets /\ Forall (fun o => snd o < ISIZE_LIMIT) occs.

Lemma callsite_guard t occs window max_snippets :
  callsite_args occs window max_snippets -> guard t occs window max_snippets = true.
Proof.
  intros (Hw & Hw2 & Hm & He). unfold guard. apply orb_true_iff. right.
  rewrite !andb_true_iff. repeat split; [lia | lia |].
  apply forallb_forall. intros o Ho. rewrite Forall_forall in He. specialize (He o Ho).
  unfold end_overflows, USIZE_LIMIT, ISIZE_LIMIT in *.
  assert (window / 2 < 2 ^ 63).
  { apply N.div_lt_upper_bound; [lia|]. change (2 * 2 ^ 63) with (2 ^ 64). exact Hw2. }
  change (2 ^ 64) with (2 ^ 63 + 2 ^ 63). lia.
Qed.

Theorem callsite_slices_ok t occs snippet_chars top_k :
  snippet_chars < USIZE_LIMIT -> Forall (fun o => snd o < ISIZE_LIMIT) occs ->
  slices_ok t (N.max top_k 1) (compute_snippet_slices t occs (N.max snippet_chars 80) (N.max top_k 1)).
Proof.
  intros Hs He. apply slices_ok_under_guard, callsite_guard.
  unfold callsite_args, USIZE_LIMIT in *. repeat split; try lia. exact He.
Qed.

(* lex.rs LexIndex::search: build_snippets(content, occurrences, 160, 3) *)
Theorem lex_search_slices_ok t occs :
  Forall (fun o => snd o < ISIZE_LIMIT) occs ->
  slices_ok t 3 (compute_snippet_slices t occs 160 3).
Proof.
  intros He. apply slices_ok_under_guard, callsite_guard.
  unfold callsite_args, USIZE_LIMIT. repeat split; try lia. exact He.
Qed.

(* the find loop: every occurrence is a non-empty range inside the haystack *)
Lemma find_from_spec needle hay pos p :
  find_from needle hay pos = Some p -> pos <= p /\ p + len needle <= pos + len hay.
Proof.
  revert pos; induction hay as [|h hay IH]; intros pos; cbn [find_from].
  - destruct needle as [|a n']; cbn [is_prefix]; [|discriminate].
    intros H; inversion H; subst. unfold len; cbn [length]. lia.
  - destruct (is_prefix needle (h :: hay)) eqn:Ep.
    + intros H; inversion H; subst p. split; [lia|].
      assert (Hl : forall n hy, is_prefix n hy = true -> len n <= len hy).
      { clear. induction n as [|a n IH]; intros hy Hp; [unfold len; cbn [length]; lia|].
        destruct hy as [|b hy]; cbn [is_prefix] in Hp; [discriminate|].
        apply andb_true_iff in Hp as [_ Hp]. specialize (IH hy Hp). unfold len in *. cbn [length]. lia. }
      specialize (Hl _ _ Ep). lia.
    + intros H. apply IH in H. unfold len in *. cbn [length]. lia.
Qed.

Lemma token_occurrences_loop_spec fuel hay needle start o :
  needle <> [] -> start <= len hay ->
  In o (token_occurrences_loop fuel hay needle start) -> start <= fst o /\ fst o < snd o /\ snd o <= len hay.
Proof.
  intros Hn. revert start; induction fuel as [|f IH]; intros start Hs Hin; cbn [token_occurrences_loop] in Hin; [contradiction|].
  destruct (find_from needle (skipn (N.to_nat start) hay) 0) as [p|] eqn:Ef; [|contradiction].
  apply find_from_spec in Ef as [_ Ef].
  assert (Hsk : len (skipn (N.to_nat start) hay) = len hay - start).
  { unfold len in *. rewrite skipn_length. lia. }
  assert (Hnl : 0 < len needle) by (destruct needle; [congruence | unfold len; cbn [length]; lia]).
  destruct Hin as [<-|Hin].
  - cbn [fst snd]. lia.
  - apply IH in Hin; [|lia]. lia.
Qed.

Theorem collect_occurrences_bounded hay tokens o :
  In o (collect_token_occurrences_unsorted hay tokens) -> fst o < snd o /\ snd o <= len hay.
Proof.
  unfold collect_token_occurrences_unsorted. rewrite in_flat_map. intros (needle & _ & Hin).
  unfold token_occurrences in Hin. destruct needle as [|a n]; [contradiction|].
  apply token_occurrences_loop_spec in Hin; [lia | discriminate | lia].
Qed.

(* sort_unstable + dedup (or sort_by_key) only permute/drop elements: any list drawn from the
   collected occurrences satisfies the guard at the call sites *)
Theorem callsite_with_collected_occurrences t hay tokens occs snippet_chars top_k :
  len hay < ISIZE_LIMIT -> snippet_chars < USIZE_LIMIT ->
  incl occs (collect_token_occurrences_unsorted hay tokens) ->
  slices_ok t (N.max top_k 1) (compute_snippet_slices t occs (N.max snippet_chars 80) (N.max top_k 1)).
Proof.
  intros Hh Hs Hincl. apply callsite_slices_ok; [exact Hs|].
  apply Forall_forall. intros o Ho. apply Hincl, collect_occurrences_bounded in Ho. lia.
Qed.

(* ------------------------------------------------------------------ refutation helpers *)
Lemma slices_okb_false t max_snippets r : slices_okb t max_snippets r = false -> ~ slices_ok t max_snippets r.
Proof. intros Hf Hok. apply slices_okb_spec in Hok. congruence. Qed.

Definition usize (n : N) : Prop := n < USIZE_LIMIT.
Definition usize_args (occs : list (N * N)) (window max_snippets : N) : Prop :=
  usize window /\ usize max_snippets /\ Forall (fun o => usize (fst o) /\ usize (snd o)) occs.
Definition usize_argsb (occs : list (N * N)) (window max_snippets : N) : bool :=
  (window <? USIZE_LIMIT) && (max_snippets <? USIZE_LIMIT) &&
  forallb (fun o => (fst o <? USIZE_LIMIT) && (snd o <? USIZE_LIMIT)) occs.
Lemma usize_argsb_spec occs window max_snippets :
  usize_argsb occs window max_snippets = true -> usize_args occs window max_snippets.
Proof.
  unfold usize_argsb, usize_args, usize. rewrite !andb_true_iff, forallb_forall, Forall_forall.
  intros [[H1 H2] H3]. split; [lia|]. split; [lia|]. intros o Ho. specialize (H3 o Ho). lia.
Qed.

(* a refutation witness: machine-range arguments in exactly one known class on which the property fails *)
Definition refutes (cls : bytes -> list (N * N) -> N -> N -> bool) (t : bytes) (occs : list (N * N)) (window max_snippets : N) : bool :=
  usize_argsb occs window max_snippets && cls t occs window max_snippets &&
  negb (slices_okb t max_snippets (compute_snippet_slices t occs window max_snippets)).

Lemma refutes_sound cls t occs window max_snippets :
  refutes cls t occs window max_snippets = true ->
  usize_args occs window max_snippets /\ cls t occs window max_snippets = true /\
  ~ slices_ok t max_snippets (compute_snippet_slices t occs window max_snippets).
Proof.
  unfold refutes. rewrite !andb_true_iff, negb_true_iff. intros [[H1 H2] H3].
  split; [apply usize_argsb_spec; exact H1|]. split; [exact H2 | apply slices_okb_false; exact H3].
Qed.

(* "only this guard is violated" *)
Definition only_max_zero t occs window max_snippets : bool :=
  known_max_zero t occs window max_snippets && negb (known_window_zero t occs window max_snippets) &&
  negb (known_end_overflow t occs window max_snippets).
Definition only_window_zero t occs window max_snippets : bool :=
  known_window_zero t occs window max_snippets && negb (known_max_zero t occs window max_snippets) &&
  negb (known_end_overflow t occs window max_snippets).
Definition only_end_overflow t occs window max_snippets : bool :=
  known_end_overflow t occs window max_snippets && negb (known_max_zero t occs window max_snippets) &&
  negb (known_window_zero t occs window max_snippets).

Lemma max_zero_necessary :
  exists t occs window max_snippets,
    usize_args occs window max_snippets /\ only_max_zero t occs window max_snippets = true /\
    ~ slices_ok t max_snippets (compute_snippet_slices t occs window max_snippets).
Proof. exists [97], [(0, 1)], 80, 0. apply refutes_sound. vm_compute. reflexivity. Qed.

Lemma window_zero_necessary :
  exists t occs window max_snippets,
    usize_args occs window max_snippets /\ only_window_zero t occs window max_snippets = true /\
    ~ slices_ok t max_snippets (compute_snippet_slices t occs window max_snippets).
Proof. exists [46; 32; 32], [(1, 2)], 0, 3. apply refutes_sound. vm_compute. reflexivity. Qed.

Lemma end_overflow_necessary :
  exists t occs window max_snippets,
    usize_args occs window max_snippets /\ only_end_overflow t occs window max_snippets = true /\
    ~ slices_ok t max_snippets (compute_snippet_slices t occs window max_snippets).
Proof. exists [97], [(0, 18446744073709551615)], 2, 1. apply refutes_sound. vm_compute. reflexivity. Qed.

Lemma property_refuted :
  exists t occs window max_snippets,
    usize_args occs window max_snippets /\
    ~ slices_ok t max_snippets (compute_snippet_slices t occs window max_snippets).
Proof.
  destruct max_zero_necessary as (t & occs & w & m & H1 & _ & H3). exists t, occs, w, m. split; assumption.
Qed.

(* every member of the max-zero class violates the count clause unless it panics first *)
Lemma max_zero_always_fails t occs window :
  t <> [] -> ~ slices_ok t 0 (compute_snippet_slices t occs window 0).
Proof.
  intros Ht Hok. destruct (compute_snippet_slices t occs window 0) as [sl|k|p] eqn:E; cbn [slices_ok] in Hok; try contradiction.
  destruct Hok as (_ & _ & Hc). apply slices_always in E as (_ & _ & _ & _ & Hne & _).
  specialize (Hne Ht). destruct sl; [congruence | cbn [length] in Hc; lia].
Qed.
