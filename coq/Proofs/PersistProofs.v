(* Proofs for C28 (Model/Persist.v): the handle built from the file image is the handle that stayed
   in memory.  Unbounded: induction over operation lists, invariant PInv. *)
From MV Require Import Base.Prelude Base.Facts Model.Store Model.StoreSpec Proofs.StoreProofs Model.Reads Proofs.ReadsProofs Model.Persist.
Require Import ZifyBool ZifyNat ZifyN.
Local Open Scope N_scope.

(* ================= 1. the sketch track at frame-id level ================= *)
Lemma ids_from_length s n : length (ids_from s n) = n.
Proof. revert s. induction n as [|n IH]; intros s; cbn [ids_from length]; [reflexivity|]. rewrite IH. reflexivity. Qed.

Lemma combine_map_snd {A B} (a : list A) (b : list B) : length a = length b -> map snd (combine a b) = b.
Proof.
  revert b. induction a as [|x a IH]; intros [|y b]; cbn [length combine map snd]; try discriminate; [reflexivity|].
  intros H. f_equal. apply IH. lia.
Qed.
Lemma combine_map_fst {A B} (a : list A) (b : list B) : length a = length b -> map fst (combine a b) = a.
Proof.
  revert b. induction a as [|x a IH]; intros [|y b]; cbn [length combine map fst]; try discriminate; [reflexivity|].
  intros H. f_equal. apply IH. lia.
Qed.
Lemma combine_fst_snd {A B} (l : list (A * B)) : combine (map fst l) (map snd l) = l.
Proof. induction l as [|[a b] l IH]; cbn; [reflexivity|]. rewrite IH. reflexivity. Qed.

(* what is written is what is read back, ids apart *)
Lemma written_read w : sk_written (sk_read w) = w.
Proof. unfold sk_written, sk_read. apply combine_map_snd. apply ids_from_length. Qed.

Lemma read_ids w : map fst (sk_read w) = ids_from 0 (length w).
Proof. unfold sk_read. apply combine_map_fst. apply ids_from_length. Qed.

Lemma list_eqb_N_eq (a b : list N) : list_eqb N.eqb a b = true <-> a = b.
Proof.
  revert b. induction a as [|x a IH]; intros [|y b]; cbn [list_eqb]; split; intros H; try discriminate; try reflexivity.
  - apply andb_true_iff in H as [H1 H2]. apply N.eqb_eq in H1. apply IH in H2. subst. reflexivity.
  - inversion H; subst. rewrite N.eqb_refl. cbn. apply IH. reflexivity.
Qed.

(* the track survives write + read exactly when its ids are 0,1,2,.. (F-C39-1 at this level) *)
Theorem sk_roundtrip_iff t : sk_read (sk_written t) = t <-> sk_dense t = true.
Proof.
  unfold sk_dense. rewrite list_eqb_N_eq. split; intros H.
  - rewrite <- H at 1. rewrite read_ids. unfold sk_written. rewrite map_length. reflexivity.
  - unfold sk_read, sk_written. rewrite map_length, <- H. apply combine_fst_snd.
Qed.

Lemma read_dense w : sk_dense (sk_read w) = true.
Proof.
  unfold sk_dense. apply list_eqb_N_eq. rewrite read_ids. unfold sk_read.
  rewrite combine_length, ids_from_length, Nat.min_id. reflexivity.
Qed.

(* ================= 2. facts about Model/Reads.v steps without automatic checkpoint ================= *)
Lemma append_chunks_dirty n : forall s ps uk tag i, dirty s = true -> dirty (append_chunks s ps uk tag i n) = true.
Proof.
  induction n as [|n IH]; intros s ps uk tag i H; cbn [append_chunks]; [exact H|].
  unfold append. apply IH. reflexivity.
Qed.

Lemma put_dirty b uk tag n : dirty (fst (sstep b (OPut uk tag n 0 None))) = true.
Proof. cbn [sstep]. unfold append at 1. cbn [auto_commit fst]. apply append_chunks_dirty. reflexivity. Qed.

Lemma put_committed b uk tag n : committed (fst (sstep b (OPut uk tag n 0 None))) = committed b.
Proof. apply (put_base b uk tag n). Qed.

Lemma update_dirty b t newtag uk b1 o1 sq :
  sstep b (OUpdate t newtag uk None) = (b1, o1) -> fst (fst o1) = Ok sq -> dirty b1 = true.
Proof.
  cbn [sstep]. destruct (get (committed b) t) as [old|]; [|intros E; inversion E; subst; discriminate].
  destruct (negb (f_status old =? 0)); [intros E; inversion E; subst; discriminate|].
  unfold append. cbn [auto_commit]. intros E _. inversion E; subst. reflexivity.
Qed.

Lemma delete_dirty b t b1 o1 sq :
  sstep b (ODelete t None) = (b1, o1) -> fst (fst o1) = Ok sq -> dirty b1 = true.
Proof.
  cbn [sstep]. destruct (get (committed b) t) as [old|]; [|intros E; inversion E; subst; discriminate].
  destruct (negb (f_status old =? 0)); [intros E; inversion E; subst; discriminate|].
  unfold append. cbn [auto_commit]. intros E _. inversion E; subst. reflexivity.
Qed.

(* ================= 3. the invariant ================= *)
Definition PInv (p : pstore) : Prop :=
  let r := live p in let b := base r in let d := dk p in
  IxInv r /\
  tdirty r = false /\
  (dirty b = false -> vec_on r = vec_disk r || has_pemb (pattrs r)) /\
  (delta_nonempty (pending b) = false -> pattrs r = [] /\ temps p = []) /\
  lex r = lex_full (committed b) (attrs r) /\
  tix r = tix_full (committed b) /\
  (k_lex d = lex r /\ k_vec d = vec r /\ k_vec_on d = vec_disk r /\ k_tix d = tix r /\ k_sk d = sk_written (sk p)) /\
  (k_segs d = false -> committed b = []) /\
  Forall (fun t => len (committed b) <= t) (temps p) /\
  (delta_nonempty (pending b) = false -> psk p = []) /\
  (vec_on r = false -> vec r = []) /\ (vec_disk r = false -> vec r = []).

Lemma IxInv_same r r' :
  base r' = base r -> tix r' = tix r -> vec r' = vec r -> lex r' = lex r -> tdirty r' = tdirty r -> IxInv r -> IxInv r'.
Proof. unfold IxInv. intros -> -> -> -> ->. auto. Qed.

Lemma PInv0 : PInv pstore0.
Proof.
  unfold PInv. cbn. split; [exact IxInv0|]. repeat split; auto.
Qed.

Lemma lex_full_nil al : lex_full [] al = [].
Proof. reflexivity. Qed.

(* init_tantivy on an image that agrees with the live engine returns the live engine's documents *)
Lemma init_tantivy_agree d frames al lx :
  k_lex d = lx -> lx = lex_full frames al -> (k_segs d = false -> frames = []) ->
  fst (init_tantivy d frames al) = lx.
Proof.
  intros H1 H2 H3. unfold init_tantivy. destruct (k_segs d) eqn:Es; [exact H1|].
  destruct ((0 <? k_count d) && (k_count d =? N.of_nat (length (k_lex d)))); cbn [fst]; [exact H1|].
  symmetry. exact H2.
Qed.

Lemma psync_live p e : live (psync p e) = sync (live p) e.
Proof. reflexivity. Qed.

Lemma sync_delta r extra :
  delta_nonempty (pending (base r)) = true ->
  sync r extra =
    mkR (do_commit (base r) extra) (attrs r ++ pattrs r) []
        (lex_full (view (base r)) (attrs r ++ pattrs r)) false
        (if vec_on r
         then filter (fun ie => is_active (view (base r)) (fst ie))
                     (filter (fun ie => negb (mem (fst ie) (removed_targets (pending (base r))))) (vec r)) ++
              flat_map (fun i => match a_emb (attr_of (attrs r ++ pattrs r) i) with Some e => [(i, e)] | None => [] end)
                       (ids_from (len (committed (base r))) (length (view (base r)) - length (committed (base r))))
         else [])
        (vec_on r) (vec_on r) (tix_full (view (base r))).
Proof. intros H. unfold sync. rewrite H. reflexivity. Qed.

Lemma sync_nodelta r extra :
  delta_nonempty (pending (base r)) = false ->
  sync r extra = mkR (do_commit (base r) extra) (attrs r ++ pattrs r) [] (lex r) false (vec r) (vec_on r) (vec_on r) (tix r).
Proof. intros H. unfold sync. rewrite H. reflexivity. Qed.

Lemma PInv_psync p e : PInv p -> PInv (psync p e).
Proof.
  intros (HI & Htd & Hvd & Hpa & Hlex & Htix & (K1 & K2 & K3 & K4 & K5) & Hseg & Htmp & Hpsk & Hv1 & Hv2).
  pose proof (sync_inv (live p) e HI) as HI'.
  destruct (delta_nonempty (pending (base (live p)))) eqn:Ed.
  - unfold PInv, psync. cbn [live temps sk psk dk]. rewrite Ed. unfold persist_sync. rewrite Ed.
    rewrite (sync_delta _ e Ed) in *. cbn [base attrs pattrs lex tdirty vec vec_on vec_disk tix do_commit committed pending dirty].
    cbn [k_lex k_vec k_vec_on k_tix k_sk k_segs].
    split; [exact HI'|]. split; [reflexivity|]. split; [intros _; cbn [has_pemb existsb]; rewrite orb_false_r; reflexivity|]. split; [split; reflexivity|].
    split; [reflexivity|]. split; [reflexivity|]. split; [repeat split|]. split; [discriminate|]. split; [constructor|].
    split; [reflexivity|]. split; intros H; rewrite H; reflexivity.
  - destruct (Hpa eq_refl) as [Hp Ht].
    pose proof (view_no_frame_records _ Ed) as HV.
    unfold PInv, psync. cbn [live temps sk psk dk]. rewrite Ed. unfold persist_sync. rewrite Ed, Htd.
    rewrite (sync_nodelta _ e Ed) in *. cbn [base attrs pattrs lex tdirty vec vec_on vec_disk tix do_commit committed pending dirty].
    cbn [k_lex k_vec k_vec_on k_tix k_sk k_segs]. rewrite HV, Hp, app_nil_r.
    split; [rewrite Hp, app_nil_r in HI'; exact HI'|]. split; [reflexivity|]. split; [intros _; cbn [has_pemb existsb]; rewrite orb_false_r; reflexivity|]. split; [split; [reflexivity|exact Ht]|].
    split; [exact Hlex|]. split; [exact Htix|]. split; [repeat split; auto|]. split; [exact Hseg|]. split; [exact Htmp|].
    split; [reflexivity|]. split; exact Hv1.
Qed.

(* the handle Memvid::open builds from the image is the handle that was in memory *)
Lemma popen_live p :
  PInv p ->
  live (popen p) = mkR (base (live p)) (attrs (live p)) (pattrs (live p)) (lex (live p)) false
                       (vec (live p)) (vec_disk (live p) || has_pemb (pattrs (live p))) (vec_disk (live p)) (tix (live p)).
Proof.
  intros (HI & Htd & Hvd & Hpa & Hlex & Htix & (K1 & K2 & K3 & K4 & K5) & Hseg & Htmp & Hpsk & Hv1 & Hv2).
  unfold popen.
  pose proof (init_tantivy_agree (dk p) (committed (base (live p))) (attrs (live p)) (lex (live p)) K1 Hlex Hseg) as HA.
  destruct (init_tantivy (dk p) (committed (base (live p))) (attrs (live p))) as [lx rb]. cbn [fst] in HA. subst lx.
  cbn [live]. rewrite K2, K3, K4. reflexivity.
Qed.

Lemma PInv_popen p : PInv p -> PInv (popen p).
Proof.
  intros HP. pose proof (popen_live p HP) as HL.
  destruct HP as (HI & Htd & Hvd & Hpa & Hlex & Htix & (K1 & K2 & K3 & K4 & K5) & Hseg & Htmp & Hpsk & Hv1 & Hv2).
  pose proof (init_tantivy_agree (dk p) (committed (base (live p))) (attrs (live p)) (lex (live p)) K1 Hlex Hseg) as HA.
  unfold PInv. rewrite HL. cbn [base attrs pattrs lex tdirty vec vec_on vec_disk tix].
  unfold popen in *. destruct (init_tantivy (dk p) (committed (base (live p))) (attrs (live p))) as [lx rb]. cbn [fst] in HA. subst lx.
  cbn [temps sk dk].
  split; [apply (IxInv_same (live p)); auto|]. split; [reflexivity|]. split; [reflexivity|].
  split; [intros H; split; [apply (Hpa H)|reflexivity]|].
  split; [exact Hlex|]. split; [exact Htix|].
  split.
  - destruct (pending (base (live p))); [destruct rb|]; unfold flush; cbn [k_lex k_vec k_vec_on k_tix k_sk];
      rewrite ?written_read; repeat split; auto.
  - split; [|split; [constructor|split; [exact Hpsk|split; [intros H; apply orb_false_iff in H as [H _]; exact (Hv2 H)|exact Hv2]]]].
    destruct (pending (base (live p))); [destruct rb|]; unfold flush; cbn [k_segs]; auto; discriminate.
Qed.

(* ================= 4. one operation: the invariant holds and the in-memory sets are those of Model/Reads.v ================= *)
Lemma IxInv_sets r b' a' pa' von vd :
  IxInv r -> committed b' = committed (base r) -> TargetsOK b' ->
  (tdirty r = true -> delta_nonempty (pending b') = true) ->
  IxInv (mkR b' a' pa' (lex r) (tdirty r) (vec r) von vd (tix r)).
Proof.
  intros (HT & H1 & H2 & H3 & H4) C HT' Hd. unfold IxInv. cbn [base tix vec lex tdirty]. rewrite C.
  split; [exact HT'|]. split; [exact H1|]. split; [exact H2|]. split; [exact H3|exact Hd].
Qed.

Lemma rstep_no_auto_strip_put r uk tag n auto c t e i :
  rstep r (no_auto (strip (RPut uk tag n auto c t e i))) =
    (mkR (fst (sstep (base r) (OPut uk tag n 0 None))) (attrs r)
         (pattrs r ++ mkAttr c t e :: repeat (mkAttr empty_fields t None) (N.to_nat n))
         (lex r) (tdirty r) (vec r) (match e with Some _ => true | None => vec_on r end) (vec_disk r) (tix r),
     observe (fst (sstep (base r) (OPut uk tag n 0 None))) (fst (fst (snd (sstep (base r) (OPut uk tag n 0 None)))))).
Proof.
  cbn [no_auto strip rstep]. destruct (sstep (base r) (OPut uk tag n 0 None)) as [b1 o1]. cbn [instant_add with_auto fst snd base]. reflexivity.
Qed.

Definition upd_r1 (r : rstore) (t : N) (opts : fields) (text : bool) (emb : option N) (b1 : store) : rstore :=
  let eff := match emb with Some e => Some e | None => if vec_on r then assocN (vec r) t else None end in
  mkR b1 (attrs r) (pattrs r ++ [mkAttr (inherit opts (a_fields (attr_of (attrs r) t))) text eff])
      (lex r) (tdirty r) (vec r) (match eff with Some _ => true | None => vec_on r end) (vec_disk r) (tix r).

Lemma rstep_update_ok r t nt auto opts text emb b1 o1 sq :
  sstep (base r) (OUpdate t nt (o_uri opts) None) = (b1, o1) -> fst (fst o1) = Ok sq ->
  rstep r (RUpdate t nt auto opts text emb false) =
    (with_auto (upd_r1 r t opts text emb b1) auto, observe (base (with_auto (upd_r1 r t opts text emb b1) auto)) (Ok sq)).
Proof. intros Es Eo. cbn [rstep]. rewrite Es, Eo. cbn [instant_add]. reflexivity. Qed.

Lemma rstep_update_rej r t nt auto opts text emb b1 o1 :
  sstep (base r) (OUpdate t nt (o_uri opts) None) = (b1, o1) -> (forall sq, fst (fst o1) <> Ok sq) ->
  rstep r (RUpdate t nt auto opts text emb false) = (r, o1).
Proof. intros Es Eo. cbn [rstep]. rewrite Es. destruct (fst (fst o1)) as [sq| |]; [destruct (Eo sq eq_refl)|reflexivity|reflexivity]. Qed.

Lemma rstep_delete_ok r t auto b1 o1 sq :
  sstep (base r) (ODelete t None) = (b1, o1) -> fst (fst o1) = Ok sq ->
  rstep r (RDelete t auto) =
    (with_auto (set_base r b1) auto, observe (base (with_auto (set_base r b1) auto)) (Ok sq)).
Proof. intros Es Eo. cbn [rstep]. rewrite Es, Eo. reflexivity. Qed.

Lemma rstep_delete_rej r t auto b1 o1 :
  sstep (base r) (ODelete t None) = (b1, o1) -> (forall sq, fst (fst o1) <> Ok sq) ->
  rstep r (RDelete t auto) = (r, o1).
Proof. intros Es Eo. cbn [rstep]. rewrite Es. destruct (fst (fst o1)) as [sq| |]; [destruct (Eo sq eq_refl)|reflexivity|reflexivity]. Qed.

(* the live part of a step is the step of Model/Reads.v (instant_index stripped: it lives in `temps`) *)
Theorem pstep_refines p x :
  PInv p ->
  PInv (fst (pstep p x)) /\
  live (fst (pstep p x)) = fst (rstep (live p) (rop_of x)) /\
  snd (pstep p x) = snd (rstep (live p) (rop_of x)).
Proof.
  intros HP. pose proof HP as (HI & Htd & Hvd & Hpa & Hlex & Htix & (K1 & K2 & K3 & K4 & K5) & Hseg & Htmp & Hpsk & Hv1 & Hv2).
  pose proof HI as (HT & Hi1 & Hi2 & Hi3 & Hi4).
  destruct x as [op bits|extra|extra|extra].
  - (* mutating call *)
    destruct op as [uk tag n auto created text emb instant|t newtag auto opts text emb instant|t auto|e0|e0|e0|uris];
      try (cbn [pstep is_mut rop_of strip rstep fst snd]; split; [exact HP|split; reflexivity]); cbn [rop_of is_mut].
    + (* put *)
      unfold pstep. cbn [is_mut]. rewrite rstep_no_auto_strip_put.
      pose proof (put_base (base (live p)) uk tag n) as (C & R & D). pose proof (put_dirty (base (live p)) uk tag n) as Hdirty.
      set (b1 := fst (sstep (base (live p)) (OPut uk tag n 0 None))) in *.
      assert (Hack : acked (observe b1 (fst (fst (snd (sstep (base (live p)) (OPut uk tag n 0 None)))))) = true).
      { cbn [sstep]. destruct (append (base (live p)) _) as [s1 sq]. cbn [snd observe auto_commit fst acked]. reflexivity. }
      rewrite Hack.
      set (r1 := mkR b1 (attrs (live p)) (pattrs (live p) ++ mkAttr created text emb :: repeat (mkAttr empty_fields text None) (N.to_nat n))
                     (lex (live p)) (tdirty (live p)) (vec (live p)) (match emb with Some _ => true | None => vec_on (live p) end)
                     (vec_disk (live p)) (tix (live p))).
      set (tmp := if instant_of (RPut uk tag n auto created text emb instant) then temps p ++ [next_frame_id (base (live p))] else temps p).
      assert (HP1 : PInv (mkP r1 tmp (sk p) (psk p ++ bits) (dk p))).
      { unfold PInv. cbn [live temps sk psk dk]. subst r1. cbn [base attrs pattrs lex tdirty vec vec_on vec_disk tix]. rewrite C.
        split.
        { apply IxInv_sets; auto. unfold TargetsOK. rewrite C, R. exact HT. }
        split; [exact Htd|]. split; [intros H; rewrite Hdirty in H; discriminate|].
        split; [intros H; rewrite D in H; discriminate|].
        split; [exact Hlex|]. split; [exact Htix|]. split; [repeat split; auto|]. split; [exact Hseg|].
        split; [|split; [intros H; rewrite D in H; discriminate|split; [|exact Hv2]]].
        - subst tmp. destruct (instant_of _); [|exact Htmp]. apply Forall_app. split; [exact Htmp|].
          constructor; [|constructor]. unfold next_frame_id. lia.
        - destruct emb; [discriminate|exact Hv1]. }
      assert (HR : rstep (live p) (RPut uk tag n auto created text emb false) =
                   (with_auto r1 auto, observe (base (with_auto r1 auto)) (fst (fst (snd (sstep (base (live p)) (OPut uk tag n 0 None))))))).
      { cbn [rstep]. subst r1 b1. destruct (sstep (base (live p)) (OPut uk tag n 0 None)) as [bb oo]. cbn [instant_add fst snd]. reflexivity. }
      cbn [strip]. rewrite HR. cbn [auto_of]. destruct auto as [e1|]; cbn [with_auto fst snd].
      * split; [apply PInv_psync; exact HP1|]. split; reflexivity.
      * split; [exact HP1|]. split; reflexivity.
    + (* update *)
      destruct (sstep (base (live p)) (OUpdate t newtag (o_uri opts) None)) as [b1 o1] eqn:Es.
      destruct (fst (fst o1)) as [sq| |] eqn:Eo.
      2,3: unfold pstep; cbn [is_mut no_auto strip rop_of]; rewrite !(rstep_update_rej _ _ _ _ _ _ _ _ _ Es) by (intros sq0; rewrite Eo; discriminate);
           unfold acked; rewrite Eo; cbn [fst snd]; (split; [exact HP|split; reflexivity]).
      unfold pstep. cbn [is_mut no_auto strip rop_of].
      rewrite (rstep_update_ok _ _ _ None _ _ _ _ _ _ Es Eo), (rstep_update_ok _ _ _ auto _ _ _ _ _ _ Es Eo).
      cbn [with_auto acked observe fst snd].
      destruct (update_base _ _ _ _ _ _ _ Es Eo) as (C & Ht & en & P & R & F).
      pose proof (update_dirty _ _ _ _ _ _ _ Es Eo) as Hdirty.
      set (tmp := if instant_of _ then temps p ++ [next_frame_id (base (live p))] else temps p).
      assert (HP1 : PInv (mkP (upd_r1 (live p) t opts text emb b1) tmp (sk p) (psk p ++ bits) (dk p))).
      { unfold PInv, upd_r1. cbn [live temps sk psk dk base attrs pattrs lex tdirty vec vec_on vec_disk tix]. rewrite C.
        assert (D : delta_nonempty (pending b1) = true).
        { rewrite P, delta_nonempty_app. cbn. rewrite F. cbn. apply orb_true_r. }
        split.
        { apply IxInv_sets; auto. eapply TargetsOK_app; eauto. }
        split; [exact Htd|]. split; [intros H; rewrite Hdirty in H; discriminate|].
        split; [intros H; rewrite D in H; discriminate|].
        split; [exact Hlex|]. split; [exact Htix|]. split; [repeat split; auto|]. split; [exact Hseg|].
        split; [|split; [intros H; rewrite D in H; discriminate|split; [|exact Hv2]]].
        - subst tmp. destruct (instant_of _); [|exact Htmp]. apply Forall_app. split; [exact Htmp|].
          constructor; [|constructor]. unfold next_frame_id. lia.
        - intros H. apply Hv1. destruct emb; [discriminate|]. destruct (vec_on (live p)); [destruct (assocN _ _); discriminate|reflexivity]. }
      cbn [auto_of]. destruct auto as [e1|]; cbn [with_auto fst snd].
      * split; [apply PInv_psync; exact HP1|]. split; reflexivity.
      * split; [exact HP1|]. split; reflexivity.
    + (* delete *)
      destruct (sstep (base (live p)) (ODelete t None)) as [b1 o1] eqn:Es.
      destruct (fst (fst o1)) as [sq| |] eqn:Eo.
      2,3: unfold pstep; cbn [is_mut no_auto strip rop_of]; rewrite !(rstep_delete_rej _ _ _ _ _ Es) by (intros sq0; rewrite Eo; discriminate);
           unfold acked; rewrite Eo; cbn [fst snd]; (split; [exact HP|split; reflexivity]).
      unfold pstep. cbn [is_mut no_auto strip rop_of].
      rewrite (rstep_delete_ok _ _ None _ _ _ Es Eo), (rstep_delete_ok _ _ auto _ _ _ Es Eo).
      cbn [with_auto acked observe fst snd].
      destruct (delete_base _ _ _ _ _ Es Eo) as (C & Ht & P).
      pose proof (delete_dirty _ _ _ _ _ Es Eo) as Hdirty.
      assert (HP1 : PInv (mkP (set_base (live p) b1) (temps p) (sk p) (psk p ++ bits) (dk p))).
      { unfold PInv, set_base. cbn [live temps sk psk dk base attrs pattrs lex tdirty vec vec_on vec_disk tix instant_of]. rewrite C.
        assert (D : delta_nonempty (pending b1) = true).
        { rewrite P, delta_nonempty_app. cbn. apply orb_true_r. }
        split.
        { apply IxInv_sets; auto. eapply TargetsOK_app; eauto. reflexivity. }
        split; [exact Htd|]. split; [intros H; rewrite Hdirty in H; discriminate|].
        split; [intros H; rewrite D in H; discriminate|].
        split; [exact Hlex|]. split; [exact Htix|]. split; [repeat split; auto|]. split; [exact Hseg|]. split; [exact Htmp|]. split; [intros H; rewrite D in H; discriminate|]. split; [exact Hv1|exact Hv2]. }
      cbn [instant_of auto_of]. destruct auto as [e1|]; cbn [with_auto fst snd].
      * split; [apply PInv_psync; exact HP1|]. split; reflexivity.
      * split; [exact HP1|]. split; reflexivity.
  - (* commit *)
    cbn [pstep rop_of rstep fst snd].
    destruct (pending (base (live p))) eqn:Ep; [destruct (dirty (base (live p))) eqn:Edd|]; cbn [fst snd].
    + split; [apply PInv_psync; exact HP|]. split; reflexivity.
    + split; [|split; reflexivity].
      unfold PInv, set_live, set_base, bump. cbn [live temps sk psk dk base attrs pattrs lex tdirty vec vec_on vec_disk tix committed pending dirty].
      rewrite Ep in *.
      split.
      { unfold IxInv, TargetsOK. cbn [base tix vec lex tdirty committed pending].
        split; [constructor|]. split; [exact Hi1|]. split; [exact Hi2|]. split; [exact Hi3|exact Hi4]. }
      split; [exact Htd|]. split; [intros _; exact (Hvd eq_refl)|]. split; [exact Hpa|]. split; [exact Hlex|]. split; [exact Htix|]. split; [repeat split; auto|]. split; [exact Hseg|]. split; [exact Htmp|]. split; [exact Hpsk|]. split; [exact Hv1|exact Hv2].
    + split; [apply PInv_psync; exact HP|]. split; reflexivity.
  - (* reopen *)
    cbn [pstep rop_of rstep fst snd].
    destruct (dirty (base (live p))) eqn:Edd.
    + (* drop commits *)
      pose proof (PInv_psync p extra HP) as HP1.
      pose proof (popen_live _ HP1) as HL. pose proof (PInv_popen _ HP1) as HP2.
      assert (HE : live (popen (psync p extra)) = sync (live p) extra).
      { rewrite HL, psync_live. unfold sync. destruct (negb (delta_nonempty (pending (base (live p))))); cbn [base attrs pattrs lex tdirty vec vec_on vec_disk tix has_pemb existsb]; rewrite orb_false_r; reflexivity. }
      rewrite HE.
      destruct (pending (base (sync (live p) extra))) eqn:Ep2; cbn [fst snd].
      * split; [exact HP2|]. split; [exact HE|]. rewrite HE. reflexivity.
      * split; [apply PInv_psync; exact HP2|]. rewrite psync_live, HE. split; reflexivity.
    + (* nothing to commit *)
      assert (HP1 : PInv (set_live p (set_base (live p) (bump (base (live p)) extra)))).
      { unfold PInv, set_live, set_base, bump. cbn [live temps sk psk dk base attrs pattrs lex tdirty vec vec_on vec_disk tix committed pending dirty].
        split.
        { unfold IxInv, TargetsOK. cbn [base tix vec lex tdirty committed pending].
          split; [exact HT|]. split; [exact Hi1|]. split; [exact Hi2|]. split; [exact Hi3|exact Hi4]. }
        split; [exact Htd|]. split; [intros _; exact (Hvd eq_refl)|]. split; [exact Hpa|]. split; [exact Hlex|]. split; [exact Htix|]. split; [repeat split; auto|]. split; [exact Hseg|]. split; [exact Htmp|]. split; [exact Hpsk|]. split; [exact Hv1|exact Hv2]. }
      pose proof (popen_live _ HP1) as HL. pose proof (PInv_popen _ HP1) as HP2.
      assert (HE : live (popen (set_live p (set_base (live p) (bump (base (live p)) extra)))) = set_base (live p) (bump (base (live p)) extra)).
      { rewrite HL. unfold set_live, set_base. cbn [live base attrs pattrs lex tdirty vec vec_on vec_disk tix]. rewrite Htd, <- (Hvd eq_refl). reflexivity. }
      rewrite HE.
      destruct (pending (base (set_base (live p) (bump (base (live p)) extra)))) eqn:Ep2; cbn [fst snd].
      * split; [exact HP2|]. split; [exact HE|]. rewrite HE. reflexivity.
      * split; [apply PInv_psync; exact HP2|]. rewrite psync_live, HE. split; reflexivity.
  - (* crash + replay *)
    cbn [pstep rop_of rstep fst snd].
    pose proof (popen_live _ HP) as HL. pose proof (PInv_popen _ HP) as HP2.
    assert (HE : live (popen p) = mkR (base (live p)) (attrs (live p)) (pattrs (live p)) (lex (live p)) (tdirty (live p))
                                      (vec (live p)) (vec_disk (live p) || has_pemb (pattrs (live p))) (vec_disk (live p)) (tix (live p))).
    { rewrite HL, Htd. reflexivity. }
    destruct (pending (base (live p))) eqn:Ep; cbn [fst snd].
    + split; [|unfold set_live; cbn [live]; rewrite HE; split; reflexivity].
      destruct HP2 as (HI2 & Htd2 & Hvd2 & Hpa2 & Hlex2 & Htix2 & K' & Hseg2 & Htmp2 & Hpsk2 & Hv12 & Hv22).
      rewrite HE in *. cbn [base attrs pattrs lex tdirty vec vec_on vec_disk tix] in *.
      unfold PInv, set_live, set_base. cbn [live temps sk psk dk base attrs pattrs lex tdirty vec vec_on vec_disk tix committed pending dirty].
      rewrite Ep in *.
      split.
      { unfold IxInv, TargetsOK. cbn [base tix vec lex tdirty committed pending].
        split; [constructor|]. split; [exact Hi1|]. split; [exact Hi2|]. split; [exact Hi3|]. intros H. rewrite Htd in H. discriminate. }
      split; [exact Htd|]. split; [reflexivity|].
      split; [intros _; apply (Hpa2 eq_refl)|].
      split; [exact Hlex|]. split; [exact Htix|]. split; [exact K'|]. split; [exact Hseg2|]. split; [exact Htmp2|]. split; [intros _; apply (Hpsk2 eq_refl)|]. split; [exact Hv12|exact Hv22].
    + split; [apply PInv_psync; exact HP2|]. rewrite psync_live, HE. split; reflexivity.
Qed.

Theorem prun_refines ops : forall p,
  PInv p ->
  PInv (fst (prun p ops)) /\
  live (fst (prun p ops)) = fst (rrun (live p) (map rop_of ops)) /\
  map snd (snd (prun p ops)) = map snd (snd (rrun (live p) (map rop_of ops))) /\
  Forall (fun po => PInv (fst po)) (snd (prun p ops)).
Proof.
  induction ops as [|x ops IH]; intros p HP; cbn [prun rrun map fst snd].
  { split; [exact HP|]. split; [reflexivity|]. split; [reflexivity|constructor]. }
  destruct (pstep_refines p x HP) as (H1 & H2 & H3).
  destruct (pstep p x) as [p1 o] eqn:Es. cbn [fst snd] in *.
  destruct (rstep (live p) (rop_of x)) as [r1 o'] eqn:Er. cbn [fst snd] in *. subst r1 o'.
  destruct (IH p1 H1) as (I1 & I2 & I3 & I4).
  destruct (prun p1 ops) as [p2 os]. destruct (rrun (live p1) (map rop_of ops)) as [r2 os']. cbn [fst snd map] in *.
  split; [exact I1|]. split; [exact I2|]. split; [f_equal; exact I3|]. constructor; [exact H1|exact I4].
Qed.

(* ================= 5. the four handles of a fully committed memory ================= *)
Definition Quiet (p : pstore) : Prop := pending (base (live p)) = [] /\ dirty (base (live p)) = false.

Lemma filter_all_true {A} (f : A -> bool) l : (forall x, In x l -> f x = true) -> filter f l = l.
Proof.
  induction l as [|x l IH]; intros H; cbn [filter]; [reflexivity|].
  rewrite (H x (or_introl eq_refl)). f_equal. apply IH. intros y Hy. apply H. right. exact Hy.
Qed.

Lemma sk_apply_nil t n0 : sk_apply t n0 [] = t.
Proof. reflexivity. Qed.

(* reopened read-write *)
Theorem reopen_same p extra :
  PInv p -> Quiet p ->
  same_idx (handle_rw p extra) (handle_live p) /\ v_sk (handle_rw p extra) = sk_read (sk_written (sk p)).
Proof.
  intros HP [Hq Hd]. pose proof (popen_live p HP) as HL0.
  destruct HP as (HI & Htd & Hvd & Hpa & Hlex & Htix & (K1 & K2 & K3 & K4 & K5) & Hseg & Htmp & Hpsk & Hv1 & Hv2).
  assert (Hdn : delta_nonempty (pending (base (live p))) = false) by (rewrite Hq; reflexivity).
  destruct (Hpa Hdn) as [Hp0 Ht0].
  unfold handle_rw, handle_live, pstep. rewrite Hd.
  set (p1 := set_live p (set_base (live p) (bump (base (live p)) extra))).
  assert (E : pending (base (live (popen p1))) = []).
  { unfold popen. destruct (init_tantivy _ _ _) as [lx rb]. cbn [live base]. subst p1. unfold set_live, set_base, bump. cbn [live base pending]. exact Hq. }
  rewrite E. cbn [fst].
  pose proof (init_tantivy_agree (dk p) (committed (base (live p))) (attrs (live p)) (lex (live p)) K1 Hlex Hseg) as HA.
  unfold view_of, popen. subst p1. unfold set_live, set_base, bump. cbn [live dk base attrs committed temps sk].
  destruct (init_tantivy (dk p) (committed (base (live p))) (attrs (live p))) as [lx rb]. cbn [fst] in HA. subst lx.
  cbn [live temps sk base committed lex vec vec_on tix pattrs]. unfold same_idx. cbn [v_frames v_lex v_vec v_vec_on v_tix v_sk].
  rewrite Ht0, app_nil_r, K2, K3, K4, K5, (Hvd Hd), Hp0. cbn [has_pemb existsb]. rewrite !orb_false_r. repeat split; reflexivity.
Qed.

(* read-only *)
Theorem readonly_same p :
  PInv p -> Quiet p ->
  same_idx (handle_ro p) (handle_live p) /\ v_sk (handle_ro p) = sk_read (sk_written (sk p)).
Proof.
  intros HP [Hq Hd].
  destruct HP as (HI & Htd & Hvd & Hpa & Hlex & Htix & (K1 & K2 & K3 & K4 & K5) & Hseg & Htmp & Hpsk & Hv1 & Hv2).
  assert (Hdn : delta_nonempty (pending (base (live p))) = false) by (rewrite Hq; reflexivity).
  destruct (Hpa Hdn) as [Hp0 Ht0].
  unfold handle_ro, handle_live, open_ro, view_of, same_idx. cbn [v_frames v_lex v_vec v_vec_on v_tix v_sk].
  rewrite (init_tantivy_agree (dk p) _ _ (lex (live p)) K1 Hlex Hseg), Ht0, app_nil_r, K2, K3, K4, K5, (Hvd Hd), Hp0. cbn [has_pemb existsb]. rewrite orb_false_r.
  repeat split; reflexivity.
Qed.

(* doctor{rebuild_lex_index, rebuild_time_index, rebuild_vec_index}: the rebuilt indexes are the
   committed ones; rebuild_vec_index additionally leaves vector search enabled *)
Theorem doctor_sets p lexf timef vecf :
  PInv p -> Quiet p ->
  let h := handle_doctor p lexf timef vecf in
  v_frames h = v_frames (handle_live p) /\ v_lex h = v_lex (handle_live p) /\ v_vec h = v_vec (handle_live p) /\
  v_tix h = v_tix (handle_live p) /\ v_vec_on h = vecf || v_vec_on (handle_live p) /\
  v_sk h = sk_read (sk_written (sk p)).
Proof.
  intros HP HQ. destruct (lexf || timef || vecf) eqn:Ef.
  2:{ apply orb_false_iff in Ef as [Elt Ev]. subst vecf. cbv zeta.
      destruct (readonly_same p HP HQ) as [(A & B & C & D & E) F].
      assert (EH : handle_doctor p lexf timef false = handle_ro p).
      { unfold handle_doctor, handle_ro, doctor. rewrite orb_false_r, Elt. reflexivity. }
      rewrite EH. cbn [orb]. tauto. }
  destruct HQ as [Hq Hd].
  destruct HP as (HI & Htd & Hvd & Hpa & Hlex & Htix & (K1 & K2 & K3 & K4 & K5) & Hseg & Htmp & Hpsk & Hv1 & Hv2).
  destruct HI as (HT & Hi1 & Hi2 & Hi3 & Hi4).
  assert (Hdn : delta_nonempty (pending (base (live p))) = false) by (rewrite Hq; reflexivity).
  destruct (Hpa Hdn) as [Hp0 Ht0].
  cbv zeta. unfold handle_doctor, doctor. rewrite Ef. unfold open_ro, init_tantivy. cbn [k_segs k_lex k_vec k_vec_on k_tix k_sk fst].
  unfold handle_live, view_of. cbn [v_frames v_lex v_vec v_vec_on v_tix v_sk].
  rewrite Ht0, app_nil_r, <- Hlex, <- Htix, K2, K3, K5, written_read, (Hvd Hd), Hp0. cbn [has_pemb existsb]. rewrite orb_false_r.
  split; [reflexivity|]. split; [reflexivity|]. split; [|repeat split; reflexivity].
  destruct (vecf || vec_disk (live p)) eqn:Evd.
  - apply filter_all_true. intros ie Hie. apply Hi2. exact Hie.
  - apply orb_false_iff in Evd as [_ Evd]. symmetry. apply Hv2. exact Evd.
Qed.

Theorem doctor_same p lexf timef vecf :
  PInv p -> Quiet p -> (vecf = true -> vec_on (live p) = true) ->
  same_idx (handle_doctor p lexf timef vecf) (handle_live p) /\
  v_sk (handle_doctor p lexf timef vecf) = sk_read (sk_written (sk p)).
Proof.
  intros HP HQ Hv. destruct (doctor_sets p lexf timef vecf HP HQ) as (A & B & C & D & E & F).
  split; [|exact F]. unfold same_idx. repeat split; try assumption.
  rewrite E. cbn [handle_live view_of v_vec_on]. destruct vecf; [rewrite (Hv eq_refl)|]; reflexivity.
Qed.

(* historical (F-C14-1, repaired by 83a83e8): the earlier apply_pending_rebuilds emptied the vector index *)
Lemma doctor_unfixed_vec_empties d frames al lexf timef :
  k_vec (doctor_unfixed d frames al lexf timef true) = [].
Proof. unfold doctor_unfixed. rewrite orb_true_r. reflexivity. Qed.

(* ================= 6. equal handles give equal answers ================= *)
Section AnswersProofs.
  Variable query : Type.
  Variable engine_search : list N -> option (list N) -> query -> list N.
  Variable post_hit : frame -> query -> bool.
  Variable sk_pass : N -> query -> bool.
  Variable has_text : query -> bool.
  Variable vec_rank : list (N * N) -> query -> nat -> list N.

  Notation psearch := (psearch query engine_search post_hit sk_pass has_text).
  Notation pvec := (pvec query vec_rank).

  Lemma answers_equal a b no_sketch :
    same_idx a b -> (no_sketch = true \/ v_sk a = v_sk b) ->
    (forall q, psearch a no_sketch q = psearch b no_sketch q) /\
    (forall q n, pvec a q n = pvec b q n) /\
    (forall keep rev lim, ptimeline a keep rev lim = ptimeline b keep rev lim).
  Proof.
    intros (H1 & H2 & H3 & H4 & H5) Hs. split; [|split].
    - intros q. unfold Persist.psearch. rewrite H1, H2. destruct Hs as [Hs|Hs]; rewrite Hs; [|reflexivity].
      cbn [negb]. rewrite !andb_false_r. reflexivity.
    - intros q n. unfold Persist.pvec. rewrite H3, H4. reflexivity.
    - intros keep rev lim. unfold ptimeline. rewrite H1, H5. reflexivity.
  Qed.

  (* every hit is a committed frame that passes the post-evaluation; a document the engine holds
     under an id that is not (yet) in the table is never returned *)
  Lemma psearch_hits_evaluated v ns q i :
    In i (psearch v ns q) -> exists f, get (v_frames v) i = Some f /\ post_hit f q = true.
  Proof.
    unfold Persist.psearch. intros H. apply in_flat_map in H as (j & _ & Hj).
    destruct (get (v_frames v) j) as [f|] eqn:Eg; [|destruct Hj].
    destruct (post_hit f q) eqn:Ep; [|destruct Hj]. destruct Hj as [<-|[]]. exists f. split; assumption.
  Qed.
End AnswersProofs.

(* the temporary documents of instant-indexed puts sit above the committed table *)
Lemma temps_unresolved p t : PInv p -> In t (temps p) -> get (committed (base (live p))) t = None.
Proof.
  intros (_ & _ & _ & _ & _ & _ & _ & _ & Htmp & _) Ht.
  rewrite Forall_forall in Htmp. specialize (Htmp t Ht). unfold get. apply nth_error_None. unfold len in Htmp. lia.
Qed.

(* ================= 7. every history ================= *)
Theorem prun_inv ops : PInv (fst (prun pstore0 ops)).
Proof. apply (prun_refines ops pstore0 PInv0). Qed.

Theorem prun_is_rrun ops : live (fst (prun pstore0 ops)) = fst (rrun rstore0 (map rop_of ops)).
Proof. apply (prun_refines ops pstore0 PInv0). Qed.

Theorem prun_inv_all ops : Forall (fun po => PInv (fst po)) (snd (prun pstore0 ops)).
Proof. apply (prun_refines ops pstore0 PInv0). Qed.
