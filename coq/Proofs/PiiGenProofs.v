(* Facts about the pattern lists regenerated from src/pii.rs (Gen/PiiPatterns.v): the
   hypotheses of the general theorems of PiiProofs hold for them, and the concrete
   (vm_compute) facts: no replacement token is itself detected; the witness of the
   known finding. *)
From MV Require Import Base.Prelude Model.Regex Model.Pii Proofs.RegexProofs Proofs.PiiProofs Gen.PiiPatterns.

Ltac in_list := cbn [In map fst snd]; repeat (first [left; reflexivity | right]).

(* every pattern mask_pii replaces is one contains_pii tests, and conversely *)
Lemma mask_in_contains : incl (map fst MASK_ORDER) CONTAINS_ORDER.
Proof.
  intros r H. unfold MASK_ORDER in H. cbn [map fst In] in H. unfold CONTAINS_ORDER.
  repeat (destruct H as [<-|H]; [in_list|]). destruct H.
Qed.

Lemma contains_in_mask : incl CONTAINS_ORDER (map fst MASK_ORDER).
Proof.
  intros r H. unfold CONTAINS_ORDER in H. cbn [In] in H. unfold MASK_ORDER.
  repeat (destruct H as [<-|H]; [in_list|]). destruct H.
Qed.

Lemma mask_toks_ok : toks_ok MASK_ORDER.
Proof.
  intros rt H. unfold MASK_ORDER in H. cbn [In] in H.
  repeat (destruct H as [<-|H]; [cbn [snd]; discriminate|]). destruct H.
Qed.

Section Gen.
  Variables is_digit is_space is_word : N -> bool.
  Notation mask := (mask_pii is_digit is_space is_word MASK_ORDER).
  Notation contains := (contains_pii is_digit is_space is_word CONTAINS_ORDER).
  Notation known := (known_class is_digit is_space is_word MASK_ORDER).

  Lemma gen_clean_unchanged text : contains text = false -> mask text = text.
  Proof. apply contains_false_unchanged. exact mask_in_contains. Qed.

  Lemma gen_outside_known text :
    known text = false -> contains (mask text) = false /\ mask (mask text) = mask text.
  Proof. apply outside_known; [exact mask_toks_ok|exact contains_in_mask|exact mask_in_contains]. Qed.

  Lemma gen_known_exact text : known text = true <-> contains (mask text) = true.
  Proof.
    split.
    - apply known_class_is_residual. exact mask_in_contains.
    - apply residual_in_known_class; [exact mask_toks_ok|exact contains_in_mask].
  Qed.
End Gen.

(* ---- concrete facts, with the ASCII tables ---- *)
Definition a_mask := mask_pii ascii_digit ascii_space ascii_word MASK_ORDER.
Definition a_contains := contains_pii ascii_digit ascii_space ascii_word CONTAINS_ORDER.
Definition a_known := known_class ascii_digit ascii_space ascii_word MASK_ORDER.
Definition a_is_match := is_match ascii_digit ascii_space ascii_word.

Definition tokens_undetected : bool :=
  forallb (fun r => forallb (fun rt => negb (a_is_match r (snd rt))) MASK_ORDER) CONTAINS_ORDER.

Lemma tokens_undetected_true : tokens_undetected = true.
Proof. vm_compute. reflexivity. Qed.

Lemma tokens_match_nothing r rt :
  In r CONTAINS_ORDER -> In rt MASK_ORDER -> a_is_match r (snd rt) = false.
Proof.
  intros Hr Ht. pose proof tokens_undetected_true as H. unfold tokens_undetected in H.
  rewrite forallb_forall in H. specialize (H r Hr). rewrite forallb_forall in H. specialize (H rt Ht).
  destruct (a_is_match r (snd rt)); [discriminate|reflexivity].
Qed.

(* "1234567890123456789" *)
Definition witness19 : list N :=
  [49; 50; 51; 52; 53; 54; 55; 56; 57; 48; 49; 50; 51; 52; 53; 54; 55; 56; 57]%N.
(* "123456789[PHONE]" *)
Definition witness19_masked : list N :=
  [49; 50; 51; 52; 53; 54; 55; 56; 57; 91; 80; 72; 79; 78; 69; 93]%N.
(* "[SSN][PHONE]" *)
Definition witness19_masked_twice : list N := [91; 83; 83; 78; 93; 91; 80; 72; 79; 78; 69; 93]%N.

Lemma witness19_facts :
  a_mask witness19 = witness19_masked /\ a_contains witness19_masked = true
  /\ a_mask witness19_masked = witness19_masked_twice /\ a_known witness19 = true.
Proof. vm_compute. repeat split. Qed.

Lemma full_property_refuted :
  exists x, a_contains (a_mask x) = true /\ a_mask (a_mask x) <> a_mask x.
Proof.
  exists witness19. destruct witness19_facts as (E1 & E2 & E3 & _). rewrite E1, E2, E3.
  split; [reflexivity|discriminate].
Qed.

(* the hypotheses of the residual theorem are met by the witness: after the seven passes
   the SSN pattern (pass 2) matches the first nine code points of "123456789[PHONE]" *)
Lemma residual_example :
  let fm := mask_marked ascii_digit ascii_space ascii_word MASK_ORDER witness19 in
  exists c v q,
    toks_ok MASK_ORDER /\ nth_error MASK_ORDER 1 = Some (SSN_REGEX, [91; 83; 83; 78; 93]%N)
    /\ mask_m ascii_digit ascii_space ascii_word 1 MASK_ORDER (mark 0 witness19) = [] ++ c ++ v
    /\ map fst c = [49; 50; 51; 52; 53; 54; 55; 56; 57]%N
    /\ rm ascii_digit ascii_space ascii_word SSN_REGEX (lasto None (map fst (@nil (N * nat))), map fst (c ++ v)) (q, map fst v).
Proof.
  intros fm.
  assert (Hm : match_at ascii_digit ascii_space ascii_word (S (length fm)) SSN_REGEX None (map fst fm)
               = Some (skipn 9 (map fst fm))) by (vm_compute; reflexivity).
  destruct (match_at_sound _ _ _ _ _ _ _ _ Hm) as (w & Ew & HR).
  exists (firstn 9 fm), (skipn 9 fm), (lasto None w).
  split; [exact mask_toks_ok|]. split; [reflexivity|].
  split; [cbn [app]; symmetry; apply firstn_skipn|].
  split; [vm_compute; reflexivity|].
  cbn [app]. rewrite firstn_skipn. cbn [map lasto fold_left]. rewrite <- skipn_map. exact HR.
Qed.
