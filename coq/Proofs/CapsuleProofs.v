(* Proofs about Model/Capsule.v (byte instance). *)
From MV Require Import Base.Prelude Base.Facts Model.Capsule.
Require Import ZifyBool ZifyNat ZifyN.
Local Open Scope N_scope.

(* ------------------------------------------------------------------ lists *)
Lemma app_inv_len {A} (a a' b b' : list A) :
  length a = length a' -> a ++ b = a' ++ b' -> a = a' /\ b = b'.
Proof.
  revert a'; induction a as [|x a IH]; intros [|y a'] Hl E; cbn in *; try discriminate.
  - auto.
  - inversion E; subst. destruct (IH a') as [-> ->]; auto.
Qed.

Lemma firstn_app_exact {A} (a b : list A) n : n = length a -> firstn n (a ++ b) = a.
Proof. intros ->. rewrite firstn_app, firstn_all, Nat.sub_diag. cbn. apply app_nil_r. Qed.

Lemma skipn_app_exact {A} (a b : list A) n : n = length a -> skipn n (a ++ b) = b.
Proof. intros ->. rewrite skipn_app, skipn_all, Nat.sub_diag. reflexivity. Qed.

Lemma slice_at {A} (a b c : list A) off len :
  length a = off -> length b = len -> slice (a ++ b ++ c) off len = b.
Proof. intros <- <-. apply slice_app_exact. Qed.

Lemma nth_at {A} (a : list A) x c d n : length a = n -> nth n (a ++ x :: c) d = x.
Proof. intros <-. rewrite app_nth2, Nat.sub_diag; [reflexivity | lia]. Qed.

Lemma slice_S {A} (l : list A) j n x :
  nth_error l j = Some x -> slice l j (S n) = x :: slice l (S j) n.
Proof.
  unfold slice. revert j; induction l as [|y l IH]; intros [|j] H; cbn in *; try discriminate.
  - inversion H; reflexivity.
  - apply IH; assumption.
Qed.

Lemma slice_0 {A} (l : list A) j : slice l j 0 = [].
Proof. reflexivity. Qed.

(* ------------------------------------------------------------------ nonce *)
Lemma be_encode_inj i j : i < 2 ^ 64 -> j < 2 ^ 64 -> be_encode 8 i = be_encode 8 j -> i = j.
Proof.
  intros Hi Hj E. unfold be_encode in E.
  apply (f_equal (@rev N)) in E. rewrite !rev_involutive in E.
  apply (f_equal le_decode) in E.
  rewrite !le_decode_encode in E; auto.
Qed.

Lemma be_encode_length n v : length (be_encode n v) = n.
Proof. unfold be_encode. rewrite rev_length. apply le_encode_length. Qed.

Lemma chunk_nonce_inj b b' i j :
  length b = NONCE_SIZE -> length b' = NONCE_SIZE -> i < 2 ^ 64 -> j < 2 ^ 64 ->
  chunk_nonce b i = chunk_nonce b' j -> firstn 4 b = firstn 4 b' /\ i = j.
Proof.
  intros Hb Hb' Hi Hj E. unfold chunk_nonce in E.
  change (NONCE_SIZE - 8)%nat with 4%nat in E.
  apply app_inv_len in E.
  - destruct E as [E1 E2]. split; [assumption | apply be_encode_inj; assumption].
  - rewrite !firstn_length. unfold NONCE_SIZE in *. lia.
Qed.

Lemma chunk_nonce_ext b b' i : firstn 4 b = firstn 4 b' -> chunk_nonce b i = chunk_nonce b' i.
Proof. intros E. unfold chunk_nonce. change (NONCE_SIZE - 8)%nat with 4%nat. rewrite E. reflexivity. Qed.

(* ------------------------------------------------------------------ header *)
Definition std_header (salt base : bytes) (size : N) (reserved : bytes) : header :=
  mkHeader MV2E_MAGIC MV2E_VERSION KDF_ARGON2ID CIPHER_AES_256_GCM salt base size reserved.

Lemma header_encode_length h : header_wf h -> length (header_encode h) = 64%nat.
Proof.
  intros (Hm & _ & _ & _ & Hs & Hn & _ & Hr). unfold header_encode.
  rewrite !app_length, !le_encode_length, Hm, Hs, Hn, Hr. reflexivity.
Qed.

Lemma header_decode_encode salt base size reserved :
  length salt = SALT_SIZE -> length base = NONCE_SIZE -> size < 2 ^ 64 -> length reserved = 4%nat ->
  header_decode (header_encode (std_header salt base size reserved)) = Ok (std_header salt base size reserved).
Proof.
  intros Hs Hn Hz Hr. unfold header_decode, header_encode, std_header.
  cbn [h_magic h_version h_kdf h_cipher h_salt h_nonce h_size h_reserved].
  set (ver := le_encode 2 MV2E_VERSION). set (sz := le_encode 8 size).
  assert (Lv : length ver = 2%nat) by apply le_encode_length.
  assert (Lz : length sz = 8%nat) by apply le_encode_length.
  (* every field is the slice at its offset *)
  assert (F1 : slice (MV2E_MAGIC ++ ver ++ [KDF_ARGON2ID] ++ [CIPHER_AES_256_GCM] ++ salt ++ base ++ sz ++ reserved) 0 4 = MV2E_MAGIC).
  { apply (slice_at [] MV2E_MAGIC); reflexivity. }
  assert (F2 : slice (MV2E_MAGIC ++ ver ++ [KDF_ARGON2ID] ++ [CIPHER_AES_256_GCM] ++ salt ++ base ++ sz ++ reserved) 4 2 = ver).
  { apply (slice_at MV2E_MAGIC ver); [reflexivity | assumption]. }
  assert (F3 : nth 6 (MV2E_MAGIC ++ ver ++ [KDF_ARGON2ID] ++ [CIPHER_AES_256_GCM] ++ salt ++ base ++ sz ++ reserved) 0 = KDF_ARGON2ID).
  { rewrite (app_assoc MV2E_MAGIC ver). apply nth_at. rewrite app_length, Lv. reflexivity. }
  assert (F4 : nth 7 (MV2E_MAGIC ++ ver ++ [KDF_ARGON2ID] ++ [CIPHER_AES_256_GCM] ++ salt ++ base ++ sz ++ reserved) 0 = CIPHER_AES_256_GCM).
  { rewrite (app_assoc MV2E_MAGIC ver), (app_assoc (MV2E_MAGIC ++ ver) [KDF_ARGON2ID]).
    apply nth_at. rewrite !app_length, Lv. reflexivity. }
  assert (F5 : slice (MV2E_MAGIC ++ ver ++ [KDF_ARGON2ID] ++ [CIPHER_AES_256_GCM] ++ salt ++ base ++ sz ++ reserved) 8 32 = salt).
  { rewrite (app_assoc MV2E_MAGIC ver), (app_assoc (MV2E_MAGIC ++ ver) [KDF_ARGON2ID]),
      (app_assoc ((MV2E_MAGIC ++ ver) ++ [KDF_ARGON2ID]) [CIPHER_AES_256_GCM]).
    apply slice_at; [rewrite !app_length, Lv; reflexivity | assumption]. }
  assert (F6 : slice (MV2E_MAGIC ++ ver ++ [KDF_ARGON2ID] ++ [CIPHER_AES_256_GCM] ++ salt ++ base ++ sz ++ reserved) 40 12 = base).
  { rewrite (app_assoc MV2E_MAGIC ver), (app_assoc (MV2E_MAGIC ++ ver) [KDF_ARGON2ID]),
      (app_assoc ((MV2E_MAGIC ++ ver) ++ [KDF_ARGON2ID]) [CIPHER_AES_256_GCM]),
      (app_assoc (((MV2E_MAGIC ++ ver) ++ [KDF_ARGON2ID]) ++ [CIPHER_AES_256_GCM]) salt).
    apply slice_at; [rewrite !app_length, Lv, Hs; reflexivity | assumption]. }
  assert (F7 : slice (MV2E_MAGIC ++ ver ++ [KDF_ARGON2ID] ++ [CIPHER_AES_256_GCM] ++ salt ++ base ++ sz ++ reserved) 52 8 = sz).
  { rewrite (app_assoc MV2E_MAGIC ver), (app_assoc (MV2E_MAGIC ++ ver) [KDF_ARGON2ID]),
      (app_assoc ((MV2E_MAGIC ++ ver) ++ [KDF_ARGON2ID]) [CIPHER_AES_256_GCM]),
      (app_assoc (((MV2E_MAGIC ++ ver) ++ [KDF_ARGON2ID]) ++ [CIPHER_AES_256_GCM]) salt),
      (app_assoc ((((MV2E_MAGIC ++ ver) ++ [KDF_ARGON2ID]) ++ [CIPHER_AES_256_GCM]) ++ salt) base).
    apply slice_at; [rewrite !app_length, Lv, Hs, Hn; reflexivity | assumption]. }
  assert (F8 : slice (MV2E_MAGIC ++ ver ++ [KDF_ARGON2ID] ++ [CIPHER_AES_256_GCM] ++ salt ++ base ++ sz ++ reserved) 60 4 = reserved).
  { rewrite (app_assoc MV2E_MAGIC ver), (app_assoc (MV2E_MAGIC ++ ver) [KDF_ARGON2ID]),
      (app_assoc ((MV2E_MAGIC ++ ver) ++ [KDF_ARGON2ID]) [CIPHER_AES_256_GCM]),
      (app_assoc (((MV2E_MAGIC ++ ver) ++ [KDF_ARGON2ID]) ++ [CIPHER_AES_256_GCM]) salt),
      (app_assoc ((((MV2E_MAGIC ++ ver) ++ [KDF_ARGON2ID]) ++ [CIPHER_AES_256_GCM]) ++ salt) base),
      (app_assoc (((((MV2E_MAGIC ++ ver) ++ [KDF_ARGON2ID]) ++ [CIPHER_AES_256_GCM]) ++ salt) ++ base) sz).
    rewrite <- (app_nil_r reserved) at 1.
    apply slice_at; [rewrite !app_length, Lv, Lz, Hs, Hn; reflexivity | assumption]. }
  rewrite F1, F2, F3, F4, F5, F6, F7, F8.
  subst ver sz. rewrite !le_decode_encode by (try assumption; reflexivity).
  reflexivity.
Qed.

(* ------------------------------------------------------------------ framing *)
(* how unlock_file_stream's loop cuts a body into records, independently of decryption *)
Inductive ending := Clean (tail : bytes) | Short | NoFuel.

Fixpoint frames (fuel : nat) (s : bytes) : list bytes * ending :=
  match fuel with
  | O => ([], NoFuel)
  | S fu =>
      if 4 <=? blen s then
        let clen := le_decode (firstn 4 s) in
        let s1 := skipn 4 s in
        if clen <=? blen s1 then
          let '(r, e) := frames fu (skipn (N.to_nat clen) s1) in
          (firstn (N.to_nat clen) s1 :: r, e)
        else ([], Short)
      else ([], Clean s)
  end.

(* a record as lock writes it (chunk_len = len as u32) and as a reader sees it *)
Definition frame (c : bytes) : bytes := le_encode 4 (blen c mod 2 ^ 32) ++ c.

Section Proofs.
  Context {key : Type}.
  Variable kdf : bytes -> bytes -> key.
  Variable enc : key -> bytes -> bytes -> bytes.
  Variable dec : key -> bytes -> bytes -> option bytes.

  Fixpoint decrypt_all (k : key) (base : bytes) (idx : N) (recs : list bytes) (acc : bytes) : option bytes :=
    match recs with
    | [] => Some acc
    | c :: r =>
        match dec k (chunk_nonce base idx) c with
        | None => None
        | Some p => decrypt_all k base (idx + 1) r (acc ++ p)
        end
    end.

  Definition finish (x : list bytes * ending) (k : key) (base : bytes) (idx : N) (acc : bytes) : outcome bytes :=
    match decrypt_all k base idx (fst x) acc with
    | None => Err E_DECRYPT
    | Some out =>
        match snd x with
        | Clean _ => Ok out
        | Short => Err E_IO
        | NoFuel => Err E_FUEL
        end
    end.

  Lemma unlock_loop_S fu k base idx s acc :
    b_unlock_loop dec (S fu) k base idx s acc =
    if 4 <=? blen s then
      if le_decode (firstn 4 s) <=? blen (skipn 4 s) then
        match dec k (chunk_nonce base idx) (firstn (N.to_nat (le_decode (firstn 4 s))) (skipn 4 s)) with
        | None => Err E_DECRYPT
        | Some p => b_unlock_loop dec fu k base (idx + 1)
                                  (skipn (N.to_nat (le_decode (firstn 4 s))) (skipn 4 s)) (acc ++ p)
        end
      else Err E_IO
    else Ok acc.
  Proof.
    unfold b_unlock_loop. cbn [unlock_loop]. unfold read_exact, bsplit.
    change (N.to_nat 4) with 4%nat.
    destruct (4 <=? blen s); [|reflexivity].
    destruct (le_decode (firstn 4 s) <=? blen (skipn 4 s)); reflexivity.
  Qed.

  (* a decryption failure is reported before a later short read (the loop stops at it);
     stated as: the loop is "decrypt the records in order, then look at how the cut ended" --
     except that a failing record hides what comes after it *)
  Lemma unlock_loop_frames fuel : forall k base idx s acc,
    b_unlock_loop dec fuel k base idx s acc =
    match decrypt_all k base idx (fst (frames fuel s)) acc with
    | None => Err E_DECRYPT
    | Some out =>
        match snd (frames fuel s) with
        | Clean _ => Ok out
        | Short => Err E_IO
        | NoFuel => Err E_FUEL
        end
    end.
  Proof.
    induction fuel as [|fu IH]; intros k base idx s acc.
    - reflexivity.
    - rewrite unlock_loop_S. cbn [frames].
      destruct (4 <=? blen s); [|reflexivity].
      destruct (le_decode (firstn 4 s) <=? blen (skipn 4 s)); [|reflexivity].
      destruct (frames fu (skipn (N.to_nat (le_decode (firstn 4 s))) (skipn 4 s))) as [r e] eqn:Ef.
      cbn [fst snd decrypt_all].
      destruct (dec k (chunk_nonce base idx) _) as [p|]; [|reflexivity].
      rewrite IH, Ef. reflexivity.
  Qed.

  (* ---------------------------------------------------------------- what lock writes *)
  Fixpoint cts_from (k : key) (base : bytes) (idx : N) (ps : list bytes) : list bytes :=
    match ps with
    | [] => []
    | p :: r => enc k (chunk_nonce base idx) p :: cts_from k base (idx + 1) r
    end.

  Definition records (k : key) (base : bytes) (idx : N) (ps : list bytes) : bytes :=
    concat (map frame (cts_from k base idx ps)).

  (* chunks read by lock's loop from a regular file: chunk_size bytes each, the last shorter *)
  Fixpoint chunks (fuel : nat) (cs : nat) (f : bytes) : list bytes :=
    match fuel with
    | O => []
    | S fu =>
        let n := Nat.min cs (length f) in
        match n with
        | O => []
        | S _ => firstn n f :: chunks fu cs (skipn n f)
        end
    end.

  Lemma chunks_concat fuel cs : forall f, (0 < cs)%nat -> (length f < fuel)%nat -> concat (chunks fuel cs f) = f.
  Proof.
    induction fuel as [|fu IH]; intros f Hc Hf; [lia|].
    cbn [chunks]. destruct (Nat.min cs (length f)) as [|n] eqn:En.
    - destruct f; cbn in *; [reflexivity | lia].
    - cbn [concat]. rewrite IH; [apply firstn_skipn | assumption | rewrite skipn_length; lia].
  Qed.

  Lemma chunks_bound fuel cs : forall f, Forall (fun p => (0 < length p <= cs)%nat) (chunks fuel cs f).
  Proof.
    induction fuel as [|fu IH]; intros f; [constructor|].
    cbn [chunks]. destruct (Nat.min cs (length f)) as [|n] eqn:En; [constructor|].
    constructor; [rewrite firstn_length; lia | apply IH].
  Qed.

  Lemma lock_loop_S cs fu k base idx rest acc :
    b_lock_loop enc cs (S fu) k base idx rest acc =
    let n := N.to_nat (N.min cs (blen rest)) in
    if blen (firstn n rest) =? 0 then Ok acc
    else b_lock_loop enc cs fu k base (idx + 1) (skipn n rest)
                     (acc ++ frame (enc k (chunk_nonce base idx) (firstn n rest))).
  Proof. reflexivity. Qed.

  Lemma lock_loop_spec cs fuel : forall k base idx f acc,
    0 < cs -> (length f < fuel)%nat ->
    b_lock_loop enc cs fuel k base idx f acc =
    Ok (acc ++ records k base idx (chunks fuel (N.to_nat cs) f)).
  Proof.
    induction fuel as [|fu IH]; intros k base idx f acc Hc Hf; [lia|].
    rewrite lock_loop_S. cbv zeta.
    assert (En : N.to_nat (N.min cs (blen f)) = Nat.min (N.to_nat cs) (length f)) by (unfold blen; lia).
    rewrite En. cbn [chunks].
    destruct (Nat.min (N.to_nat cs) (length f)) as [|n] eqn:Em.
    - cbn. unfold records. cbn. rewrite app_nil_r. reflexivity.
    - assert (Hl : blen (firstn (S n) f) =? 0 = false).
      { unfold blen. rewrite firstn_length. apply N.eqb_neq. lia. }
      rewrite Hl. rewrite IH; [|assumption | rewrite skipn_length; lia].
      unfold records. cbn [cts_from map concat]. rewrite <- app_assoc. reflexivity.
  Qed.

  (* ---------------------------------------------------------------- ideal AEAD *)
  Hypothesis dec_enc : forall k n p, dec k n (enc k n p) = Some p.
  Hypothesis enc_len : forall k n p, length (enc k n p) = (length p + TAG_SIZE)%nat.

  Lemma decrypt_all_cts k base : forall ps idx acc,
    decrypt_all k base idx (cts_from k base idx ps) acc = Some (acc ++ concat ps).
  Proof.
    induction ps as [|p r IH]; intros idx acc; cbn [cts_from decrypt_all concat].
    - rewrite app_nil_r. reflexivity.
    - rewrite dec_enc, IH, <- app_assoc. reflexivity.
  Qed.

  Lemma records_length_ge k base : forall ps idx, (length ps <= length (records k base idx ps))%nat.
  Proof.
    induction ps as [|p r IH]; intros idx; unfold records in *; cbn [cts_from map concat length]; [lia|].
    rewrite app_length. unfold frame at 1. rewrite app_length, le_encode_length.
    specialize (IH (idx + 1)). lia.
  Qed.

  (* the reader cuts what lock wrote back into the ciphertexts, then goes on with the rest *)
  Lemma frames_records k base (cs : nat) : forall ps fuel idx rest,
    Forall (fun p : bytes => (length p <= cs)%nat) ps -> N.of_nat cs + 16 < 2 ^ 32 ->
    frames (length ps + fuel) (records k base idx ps ++ rest) =
    (cts_from k base idx ps ++ fst (frames fuel rest), snd (frames fuel rest)).
  Proof.
    induction ps as [|p r IH]; intros fuel idx rest Hps Hcs.
    - unfold records. cbn [cts_from map concat app length Nat.add]. destruct (frames fuel rest); reflexivity.
    - inversion Hps as [|? ? Hp Hr]; subst.
      unfold records. cbn [cts_from map concat length Nat.add]. fold (records k base (idx + 1) r).
      set (c := enc k (chunk_nonce base idx) p).
      assert (Lc : length c = (length p + 16)%nat) by (subst c; rewrite enc_len; reflexivity).
      assert (Hlen : blen c mod 2 ^ 32 = blen c).
      { apply N.mod_small. unfold blen. rewrite Lc. lia. }
      unfold frame at 1. rewrite Hlen. rewrite <- !app_assoc.
      cbn [frames].
      assert (E4 : 4 <=? blen (le_encode 4 (blen c) ++ c ++ records k base (idx + 1) r ++ rest) = true).
      { apply N.leb_le. unfold blen. rewrite app_length, le_encode_length. lia. }
      rewrite E4.
      rewrite (firstn_app_exact (le_encode 4 (blen c))) by (rewrite le_encode_length; reflexivity).
      rewrite (skipn_app_exact (le_encode 4 (blen c))) by (rewrite le_encode_length; reflexivity).
      rewrite le_decode_encode by (unfold blen; rewrite Lc; change (256 ^ N.of_nat 4) with (2 ^ 32); lia).
      assert (El : blen c <=? blen (c ++ records k base (idx + 1) r ++ rest) = true).
      { apply N.leb_le. unfold blen. rewrite app_length. lia. }
      rewrite El.
      assert (Ec : N.to_nat (blen c) = length c) by (unfold blen; lia).
      rewrite Ec, (firstn_app_exact c), (skipn_app_exact c) by reflexivity.
      rewrite IH by assumption. reflexivity.
  Qed.

  Lemma frames_tail fuel tail : (length tail < 4)%nat -> frames (S fuel) tail = ([], Clean tail).
  Proof.
    intros Ht. cbn [frames].
    assert (E : 4 <=? blen tail = false) by (unfold blen; apply N.leb_gt; lia).
    rewrite E. reflexivity.
  Qed.

  (* a record whose length prefix is complete but whose ciphertext is cut short *)
  Lemma frames_cut fuel (c : bytes) x :
    blen c < 2 ^ 32 -> (x < length c)%nat ->
    frames (S fuel) (le_encode 4 (blen c) ++ firstn x c) = ([], Short).
  Proof.
    intros Hc Hx. cbn [frames].
    assert (E4 : 4 <=? blen (le_encode 4 (blen c) ++ firstn x c) = true).
    { apply N.leb_le. unfold blen. rewrite app_length, le_encode_length. lia. }
    rewrite E4.
    rewrite (firstn_app_exact (le_encode 4 (blen c))) by (rewrite le_encode_length; reflexivity).
    rewrite (skipn_app_exact (le_encode 4 (blen c))) by (rewrite le_encode_length; reflexivity).
    rewrite le_decode_encode by (change (256 ^ N.of_nat 4) with (2 ^ 32); assumption).
    assert (El : blen c <=? blen (firstn x c) = false).
    { apply N.leb_gt. unfold blen. rewrite firstn_length. lia. }
    rewrite El. reflexivity.
  Qed.

  (* a complete record followed by anything *)
  Lemma frames_one fuel (c rest : bytes) :
    blen c < 2 ^ 32 ->
    frames (S fuel) (frame c ++ rest) = (c :: fst (frames fuel rest), snd (frames fuel rest)).
  Proof.
    intros Hc. unfold frame. rewrite N.mod_small by assumption. rewrite <- app_assoc. cbn [frames].
    assert (E4 : 4 <=? blen (le_encode 4 (blen c) ++ c ++ rest) = true).
    { apply N.leb_le. unfold blen. rewrite app_length, le_encode_length. lia. }
    rewrite E4.
    rewrite (firstn_app_exact (le_encode 4 (blen c))) by (rewrite le_encode_length; reflexivity).
    rewrite (skipn_app_exact (le_encode 4 (blen c))) by (rewrite le_encode_length; reflexivity).
    rewrite le_decode_encode by (change (256 ^ N.of_nat 4) with (2 ^ 32); assumption).
    assert (El : blen c <=? blen (c ++ rest) = true).
    { apply N.leb_le. unfold blen. rewrite app_length. lia. }
    rewrite El.
    assert (Ec : N.to_nat (blen c) = length c) by (unfold blen; lia).
    rewrite Ec, (firstn_app_exact c), (skipn_app_exact c) by reflexivity.
    destruct (frames fuel rest); reflexivity.
  Qed.

  Lemma decrypt_all_app k base : forall ps idx rs acc,
    decrypt_all k base idx (cts_from k base idx ps ++ rs) acc =
    decrypt_all k base (idx + N.of_nat (length ps)) rs (acc ++ concat ps).
  Proof.
    induction ps as [|p r IH]; intros idx rs acc; cbn [cts_from decrypt_all concat app length].
    - rewrite app_nil_r. f_equal. lia.
    - rewrite dec_enc, IH, <- app_assoc. f_equal. lia.
  Qed.

  Lemma cts_from_ext k b b' : firstn 4 b = firstn 4 b' ->
    forall ps idx, cts_from k b idx ps = cts_from k b' idx ps.
  Proof.
    intros E. induction ps as [|p r IH]; intros idx; cbn [cts_from]; [reflexivity|].
    rewrite IH, (chunk_nonce_ext b b' idx E). reflexivity.
  Qed.

  Lemma cts_from_length k b : forall ps idx, length (cts_from k b idx ps) = length ps.
  Proof. induction ps as [|p r IH]; intros idx; cbn [cts_from length]; [reflexivity | rewrite IH; reflexivity]. Qed.

  Lemma records_app k base : forall ps1 ps2 idx,
    records k base idx (ps1 ++ ps2) =
    records k base idx ps1 ++ records k base (idx + N.of_nat (length ps1)) ps2.
  Proof.
    induction ps1 as [|p r IH]; intros ps2 idx; unfold records in *; cbn [cts_from map concat app length].
    - f_equal. f_equal. f_equal. lia.
    - rewrite IH, <- app_assoc. do 5 f_equal. lia.
  Qed.

  (* ---------------------------------------------------------------- unlock_file, unfolded *)
  Lemma read_header_eq caps :
    read_header blen bsplit (@Some bytes) caps =
    if 64 <=? blen caps then
      match header_decode (firstn 64 caps) with
      | Ok h => Ok (h, skipn 64 caps)
      | Err e => Err e
      | Panic s => Panic s
      end
    else Err E_IO.
  Proof.
    unfold read_header, read_exact, bsplit. change (N.to_nat MV2E_HEADER_SIZE) with 64%nat.
    change MV2E_HEADER_SIZE with 64. destruct (64 <=? blen caps); reflexivity.
  Qed.

  Lemma b_unlock_eq pw caps :
    b_unlock kdf dec pw caps =
    match read_header blen bsplit (@Some bytes) caps with
    | Err e => Err e
    | Panic s => Panic s
    | Ok (h, body) =>
        if nth 0 (h_reserved h) 0 =? 1 then
          b_unlock_loop dec (S (length caps)) (kdf pw (h_salt h)) (h_nonce h) 0 body []
        else unlock_file_oneshot blen bsplit (@Some bytes) kdf dec pw h body
    end.
  Proof.
    unfold b_unlock, unlock_file, unlock_file_stream.
    destruct (read_header blen bsplit (@Some bytes) caps) as [[h body]|e|st]; reflexivity.
  Qed.

  (* a capsule = an encoded standard header followed by a body *)
  Lemma read_header_std salt base size rsv body :
    length salt = SALT_SIZE -> length base = NONCE_SIZE -> size < 2 ^ 64 -> length rsv = 4%nat ->
    read_header blen bsplit (@Some bytes) (header_encode (std_header salt base size rsv) ++ body) =
    Ok (std_header salt base size rsv, body).
  Proof.
    intros Hs Hn Hz Hr. rewrite read_header_eq.
    assert (L : length (header_encode (std_header salt base size rsv)) = 64%nat).
    { apply header_encode_length. unfold header_wf, std_header; cbn. repeat split; try assumption; reflexivity. }
    assert (E : 64 <=? blen (header_encode (std_header salt base size rsv) ++ body) = true).
    { apply N.leb_le. unfold blen. rewrite app_length, L. lia. }
    rewrite E, firstn_app_exact, skipn_app_exact by (symmetry; exact L).
    rewrite header_decode_encode by assumption. reflexivity.
  Qed.

  (* THE acceptance lemma: a streaming header with the right salt and the right first 4 nonce
     bytes, followed by the records of ANY list of chunks encrypted at positions 0.. and by
     fewer than 4 stray bytes, unlocks to the concatenation of those chunks -- whatever
     original_size, reserved[1..3] and nonce[4..12] say. *)
  Lemma unlock_accepts (cs : nat) pw salt base base' size r1 r2 r3 (ps : list bytes) tail :
    length salt = SALT_SIZE -> length base = NONCE_SIZE -> length base' = NONCE_SIZE ->
    firstn 4 base' = firstn 4 base -> size < 2 ^ 64 ->
    Forall (fun p : bytes => (length p <= cs)%nat) ps -> N.of_nat cs + 16 < 2 ^ 32 ->
    (length tail < 4)%nat ->
    b_unlock kdf dec pw (header_encode (std_header salt base' size [1; r1; r2; r3]) ++
                         records (kdf pw salt) base 0 ps ++ tail) = Ok (concat ps).
  Proof.
    intros Hs Hn Hn' Hb Hz Hps Hcs Ht.
    rewrite b_unlock_eq, read_header_std by (try assumption; reflexivity).
    cbn [std_header h_reserved h_salt h_nonce nth]. change (1 =? 1) with true. cbv iota.
    rewrite unlock_loop_frames.
    set (caps := header_encode _ ++ _).
    assert (Hfu : exists fu, S (length caps) = (length ps + S fu)%nat).
    { exists (length caps - length ps)%nat.
      assert (length ps <= length caps)%nat; [|lia].
      subst caps. rewrite !app_length. pose proof (records_length_ge (kdf pw salt) base ps 0) as Hrl. apply (Nat.le_trans _ _ _ Hrl). lia. }
    destruct Hfu as [fu ->]. clear caps.
    unfold records. rewrite (cts_from_ext (kdf pw salt) base base' (eq_sym Hb)).
    fold (records (kdf pw salt) base' 0 ps).
    rewrite (frames_records (kdf pw salt) base' cs) by assumption.
    rewrite frames_tail by assumption. cbn [fst snd]. rewrite app_nil_r.
    rewrite decrypt_all_cts. reflexivity.
  Qed.

  (* the first record that does not decrypt at its position makes unlock fail *)
  Lemma unlock_bad_record (cs : nat) pw salt base size r1 r2 r3 (ps : list bytes) c' rest :
    length salt = SALT_SIZE -> length base = NONCE_SIZE -> size < 2 ^ 64 ->
    Forall (fun p : bytes => (length p <= cs)%nat) ps -> N.of_nat cs + 16 < 2 ^ 32 ->
    blen c' < 2 ^ 32 ->
    dec (kdf pw salt) (chunk_nonce base (N.of_nat (length ps))) c' = None ->
    b_unlock kdf dec pw (header_encode (std_header salt base size [1; r1; r2; r3]) ++
                         records (kdf pw salt) base 0 ps ++ frame c' ++ rest) = Err E_DECRYPT.
  Proof.
    intros Hs Hn Hz Hps Hcs Hc Hd.
    rewrite b_unlock_eq, read_header_std by (try assumption; reflexivity).
    cbn [std_header h_reserved h_salt h_nonce nth]. change (1 =? 1) with true. cbv iota.
    rewrite unlock_loop_frames.
    set (caps := header_encode _ ++ _).
    assert (Hfu : exists fu, S (length caps) = (length ps + S fu)%nat).
    { exists (length caps - length ps)%nat.
      assert (length ps <= length caps)%nat; [|lia].
      subst caps. rewrite !app_length. pose proof (records_length_ge (kdf pw salt) base ps 0) as Hrl. apply (Nat.le_trans _ _ _ Hrl). lia. }
    destruct Hfu as [fu ->].
    rewrite (frames_records (kdf pw salt) base cs) by assumption.
    rewrite frames_one by assumption. cbn [fst snd].
    rewrite decrypt_all_app. cbn [decrypt_all]. rewrite N.add_0_l, Hd. reflexivity.
  Qed.

  (* a capsule cut inside a ciphertext (length prefix complete) fails with an I/O error *)
  Lemma unlock_cut_inside (cs : nat) pw salt base size r1 r2 r3 (ps : list bytes) c x :
    length salt = SALT_SIZE -> length base = NONCE_SIZE -> size < 2 ^ 64 ->
    Forall (fun p : bytes => (length p <= cs)%nat) ps -> N.of_nat cs + 16 < 2 ^ 32 ->
    blen c < 2 ^ 32 -> (x < length c)%nat ->
    b_unlock kdf dec pw (header_encode (std_header salt base size [1; r1; r2; r3]) ++
                         records (kdf pw salt) base 0 ps ++ le_encode 4 (blen c) ++ firstn x c) = Err E_IO.
  Proof.
    intros Hs Hn Hz Hps Hcs Hc Hx.
    rewrite b_unlock_eq, read_header_std by (try assumption; reflexivity).
    cbn [std_header h_reserved h_salt h_nonce nth]. change (1 =? 1) with true. cbv iota.
    rewrite unlock_loop_frames.
    set (caps := header_encode _ ++ _).
    assert (Hfu : exists fu, S (length caps) = (length ps + S fu)%nat).
    { exists (length caps - length ps)%nat.
      assert (length ps <= length caps)%nat; [|lia].
      subst caps. rewrite !app_length. pose proof (records_length_ge (kdf pw salt) base ps 0) as Hrl. apply (Nat.le_trans _ _ _ Hrl). lia. }
    destruct Hfu as [fu ->].
    rewrite (frames_records (kdf pw salt) base cs) by assumption.
    rewrite frames_cut by assumption. cbn [fst snd]. rewrite app_nil_r.
    rewrite decrypt_all_cts. reflexivity.
  Qed.
End Proofs.

(* ------------------------------------------------------------------ integrity *)
Section Integrity.
  Context {key : Type}.
  Variable kdf : bytes -> bytes -> key.
  Variable enc : key -> bytes -> bytes -> bytes.
  Variable dec : key -> bytes -> bytes -> option bytes.
  Hypothesis dec_enc : forall k n p, dec k n (enc k n p) = Some p.
  Hypothesis dec_sound : forall k n c p, dec k n c = Some p -> c = enc k n p.
  (* ideal: a ciphertext is bound to the key and nonce it was made with *)
  Hypothesis enc_bind : forall k n p k' n' p', enc k n p = enc k' n' p' -> k = k' /\ n = n'.

  Lemma enc_inj k n p p' : enc k n p = enc k n p' -> p = p'.
  Proof.
    intros E. pose proof (dec_enc k n p) as H1. rewrite E, dec_enc in H1. congruence.
  Qed.

  (* c is one of the ciphertexts lock produced for the chunks ps under (k, base) *)
  Definition issued (k : key) (base : bytes) (ps : list bytes) (c : bytes) : Prop :=
    exists i p, nth_error ps i = Some p /\ c = enc k (chunk_nonce base (N.of_nat i)) p.

  (* no forgery: a record is either an issued ciphertext or decrypts under nothing *)
  Definition unforged (k : key) (base : bytes) (ps : list bytes) (c : bytes) : Prop :=
    issued k base ps c \/ forall k' n, dec k' n c = None.

  (* records that all decrypt at positions j, j+1, ... under (k', base') are exactly the
     issued ciphertexts of those positions, and decrypt to those chunks *)
  Lemma decrypt_all_authentic k base (ps : list bytes) k' base' :
    length base = NONCE_SIZE -> length base' = NONCE_SIZE ->
    N.of_nat (length ps) < 2 ^ 64 ->
    forall (recs : list bytes) j acc out,
      (forall c, In c recs -> unforged k base ps c) ->
      N.of_nat j + N.of_nat (length recs) < 2 ^ 64 ->
      decrypt_all dec k' base' (N.of_nat j) recs acc = Some out ->
      recs = cts_from enc k base (N.of_nat j) (slice ps j (length recs)) /\
      out = acc ++ concat (slice ps j (length recs)) /\
      (recs <> [] -> (j + length recs <= length ps)%nat) /\
      (recs <> [] -> k' = k /\ firstn 4 base' = firstn 4 base).
  Proof.
    intros Hb Hb' Hps. induction recs as [|c r IH]; intros j acc out Hun Hj Hd.
    - cbn [decrypt_all] in Hd. inversion Hd; subst. cbn [length]. rewrite slice_0. cbn.
      rewrite app_nil_r. repeat split; congruence.
    - cbn [decrypt_all] in Hd.
      destruct (dec k' (chunk_nonce base' (N.of_nat j)) c) as [p'|] eqn:Ed; [|discriminate].
      destruct (Hun c (or_introl eq_refl)) as [(i & p & Hi & Ec) | Hnone]; [|rewrite Hnone in Ed; discriminate].
      pose proof (dec_sound _ _ _ _ Ed) as Ec'.
      assert (Hil : (i < length ps)%nat) by (apply nth_error_Some; congruence).
      rewrite Ec in Ec'. destruct (enc_bind _ _ _ _ _ _ Ec') as [Ek En].
      cbn [length] in Hj.
      apply chunk_nonce_inj in En; [|assumption|assumption|lia|lia].
      destruct En as [E4 Eij]. assert (i = j) by lia. subst i. subst k'.
      assert (p' = p).
      { rewrite (chunk_nonce_ext base base' (N.of_nat j) E4) in Ec'. apply enc_inj in Ec'. congruence. }
      subst p'.
      replace (N.of_nat j + 1) with (N.of_nat (S j)) in Hd by lia.
      destruct (IH (S j) (acc ++ p) out) as (R1 & R2 & R3 & _).
      { intros c0 Hc0. apply Hun. right; assumption. }
      { lia. }
      { exact Hd. }
      cbn [length]. rewrite (slice_S ps j (length r) p Hi).
      cbn [cts_from concat]. replace (N.of_nat j + 1) with (N.of_nat (S j)) by lia.
      rewrite <- R1. repeat split.
      + rewrite Ec. reflexivity.
      + rewrite R2, <- app_assoc. reflexivity.
      + intros _. destruct r as [|c2 r2]; [cbn [length]; lia|].
        assert (Hne : c2 :: r2 <> []) by discriminate. specialize (R3 Hne). lia.
      + symmetry; assumption.
  Qed.

  Lemma frames_count fuel : forall s, (length (fst (frames fuel s)) <= length s)%nat.
  Proof.
    induction fuel as [|fu IH]; intros s; cbn [frames]; [cbn; lia|].
    destruct (4 <=? blen s) eqn:E4; [|cbn; lia].
    destruct (le_decode (firstn 4 s) <=? blen (skipn 4 s)) eqn:El; [|cbn; lia].
    specialize (IH (skipn (N.to_nat (le_decode (firstn 4 s))) (skipn 4 s))).
    destruct (frames fu _) as [r e]. cbn [fst length] in *.
    rewrite !skipn_length in IH. apply N.leb_le in E4. unfold blen in E4. lia.
  Qed.

  (* Streaming path, any presented capsule t: if unlock answers Ok then -- provided no record
     of t is a forgery -- what it wrote is the concatenation of the first m chunks of the
     locked file, m = number of records of t, and those records are the first m issued
     ciphertexts.  (m may be smaller than the number of chunks: see C29_refuted.) *)
  Theorem unlock_stream_ok_is_chunk_prefix pw salt base (ps : list bytes) pw' t h body out :
    length base = NONCE_SIZE -> N.of_nat (length t) < 2 ^ 64 -> N.of_nat (length ps) < 2 ^ 64 ->
    read_header blen bsplit (@Some bytes) t = Ok (h, body) ->
    nth 0 (h_reserved h) 0 = 1 ->
    (forall c, In c (fst (frames (S (length t)) body)) -> unforged (kdf pw salt) base ps c) ->
    b_unlock kdf dec pw' t = Ok out ->
    let m := length (fst (frames (S (length t)) body)) in
    (m <= length ps)%nat /\ out = concat (firstn m ps) /\
    fst (frames (S (length t)) body) = cts_from enc (kdf pw salt) base 0 (firstn m ps) /\
    (exists tail, snd (frames (S (length t)) body) = Clean tail) /\
    (m <> 0%nat -> kdf pw' (h_salt h) = kdf pw salt /\ firstn 4 (h_nonce h) = firstn 4 base).
  Proof.
    intros Hb Ht Hps Hh Hr Hun Hok m.
    rewrite b_unlock_eq, Hh, Hr in Hok. change (1 =? 1) with true in Hok. cbv iota in Hok.
    rewrite unlock_loop_frames in Hok.
    destruct (decrypt_all dec (kdf pw' (h_salt h)) (h_nonce h) 0 (fst (frames (S (length t)) body)) []) as [o|] eqn:Ed; [|discriminate].
    assert (Hbody : (length body <= length t)%nat).
    { rewrite read_header_eq in Hh. destruct (64 <=? blen t); [|discriminate].
      destruct (header_decode (firstn 64 t)); try discriminate.
      assert (Eb : body = skipn 64 t) by congruence.
      rewrite Eb, skipn_length. lia. }
    assert (Hn' : length (h_nonce h) = NONCE_SIZE).
    { rewrite read_header_eq in Hh. destruct (64 <=? blen t) eqn:E64; [|discriminate].
      unfold header_decode in Hh.
      destruct (negb (bytes_eqb (slice (firstn 64 t) 0 4) MV2E_MAGIC)); [discriminate|].
      destruct (negb (le_decode (slice (firstn 64 t) 4 2) =? MV2E_VERSION)); [discriminate|].
      destruct (negb (nth 6 (firstn 64 t) 0 =? KDF_ARGON2ID)); [discriminate|].
      destruct (negb (nth 7 (firstn 64 t) 0 =? CIPHER_AES_256_GCM)); [discriminate|].
      assert (Eh : h_nonce h = slice (firstn 64 t) 40 12) by (inversion Hh; reflexivity).
      rewrite Eh. apply slice_length. rewrite firstn_length.
      apply N.leb_le in E64. unfold blen in E64. unfold NONCE_SIZE. lia. }
    pose proof (frames_count (S (length t)) body) as Hc.
    change 0 with (N.of_nat 0) in Ed.
    destruct (decrypt_all_authentic (kdf pw salt) base ps (kdf pw' (h_salt h)) (h_nonce h) Hb Hn' Hps
                _ 0%nat [] o Hun) as (R1 & R2 & R3 & R4); [lia | exact Ed |].
    fold m in R1, R2, R3, R4.
    assert (Es : slice ps 0 m = firstn m ps) by reflexivity.
    rewrite Es in R1, R2. cbn [app] in R2.
    destruct (snd (frames (S (length t)) body)) as [tail| |] eqn:Ee; try discriminate.
    inversion Hok; subst out.
    assert (Hm : m <> 0%nat -> fst (frames (S (length t)) body) <> []).
    { intros Hm0 E. apply Hm0. subst m. rewrite E. reflexivity. }
    split; [|split; [|split; [|split]]].
    - destruct m as [|m'] eqn:Em; [lia|]. apply R3. apply Hm. discriminate.
    - exact R2.
    - exact R1.
    - exists tail; reflexivity.
    - intros Hm0. apply R4. apply Hm. exact Hm0.
  Qed.
End Integrity.

(* ------------------------------------------------------------------ lock then unlock *)
Definition is_mv2 (f : bytes) : Prop := firstn 4 f = MV2_MAGIC.

Section Final.
  Context {key : Type}.
  Variable kdf : bytes -> bytes -> key.
  Variable enc : key -> bytes -> bytes -> bytes.
  Variable dec : key -> bytes -> bytes -> option bytes.
  Hypothesis dec_enc : forall k n p, dec k n (enc k n p) = Some p.
  Hypothesis enc_len : forall k n p, length (enc k n p) = (length p + TAG_SIZE)%nat.

  (* the chunks lock reads from f, and the capsule it writes *)
  Definition the_chunks (cs : N) (f : bytes) : list bytes := chunks (S (length f)) (N.to_nat cs) f.
  Definition capsule_header (salt base : bytes) (f : bytes) : bytes :=
    header_encode (std_header salt base (blen f) [1; 0; 0; 0]).
  Definition capsule_of (cs : N) (pw salt base f : bytes) : bytes :=
    capsule_header salt base f ++ records enc (kdf pw salt) base 0 (the_chunks cs f).

  Lemma lock_ok cs pw salt base f :
    0 < cs -> is_mv2 f -> b_lock kdf enc cs pw salt base f = Ok (capsule_of cs pw salt base f).
  Proof.
    intros Hcs Hf. unfold b_lock, lock_file_stream, validate_mv2_file, read_exact, bsplit.
    change (N.to_nat 4) with 4%nat.
    assert (L4 : (4 <= length f)%nat).
    { unfold is_mv2 in Hf. pose proof (f_equal (@length N) Hf) as Hl. rewrite firstn_length in Hl. unfold MV2_MAGIC in Hl. cbn [length] in Hl. lia. }
    assert (E4 : 4 <=? blen f = true) by (apply N.leb_le; unfold blen; lia).
    rewrite E4. cbn [fst snd]. rewrite Hf, bytes_eqb_refl.
    exact (lock_loop_spec kdf enc dec cs (S (length f)) (kdf pw salt) base 0 f _ Hcs (Nat.lt_succ_diag_r _)).
  Qed.

  Lemma the_chunks_concat cs f : 0 < cs -> concat (the_chunks cs f) = f.
  Proof. intros H. apply (chunks_concat kdf enc dec); lia. Qed.

  Lemma the_chunks_bound cs f : Forall (fun p : bytes => (length p <= N.to_nat cs)%nat) (the_chunks cs f).
  Proof. eapply Forall_impl; [|apply (chunks_bound kdf enc dec)]. cbn. intros; lia. Qed.

  Lemma the_chunks_nonempty cs f : Forall (fun p : bytes => (0 < length p)%nat) (the_chunks cs f).
  Proof. eapply Forall_impl; [|apply (chunks_bound kdf enc dec)]. cbn. intros; lia. Qed.

  Lemma firstn_chunks_bound cs f m :
    Forall (fun p : bytes => (length p <= N.to_nat cs)%nat) (firstn m (the_chunks cs f)).
  Proof.
    apply Forall_forall. intros p Hp. pose proof (the_chunks_bound cs f) as HB.
    rewrite Forall_forall in HB. apply HB.
    rewrite <- (firstn_skipn m (the_chunks cs f)). apply in_or_app. left; exact Hp.
  Qed.

  (* unlock(lock f) = f, byte for byte, for every .mv2 file, password, salt, nonce, chunk size *)
  Theorem unlock_lock cs pw salt base f :
    0 < cs -> cs + 16 < 2 ^ 32 -> length salt = SALT_SIZE -> length base = NONCE_SIZE ->
    is_mv2 f -> blen f < 2 ^ 64 ->
    b_lock kdf enc cs pw salt base f = Ok (capsule_of cs pw salt base f) /\
    b_unlock kdf dec pw (capsule_of cs pw salt base f) = Ok f /\
    forall prev, b_unlock_fs kdf dec prev pw (capsule_of cs pw salt base f) = Some f.
  Proof.
    intros Hcs Hcs2 Hs Hb Hf Hz.
    assert (U : b_unlock kdf dec pw (capsule_of cs pw salt base f) = Ok f).
    { unfold capsule_of, capsule_header.
      rewrite <- (app_nil_r (records enc (kdf pw salt) base 0 (the_chunks cs f))).
      rewrite (unlock_accepts kdf enc dec dec_enc enc_len (N.to_nat cs) pw salt base base (blen f) 0 0 0 (the_chunks cs f) []);
        try assumption; try reflexivity.
      - rewrite the_chunks_concat by assumption. reflexivity.
      - apply the_chunks_bound.
      - lia.
      - cbn; lia. }
    split; [apply lock_ok; assumption|]. split; [exact U|].
    intros prev. unfold b_unlock_fs. rewrite U. reflexivity.
  Qed.

  (* REFUTATION, general form: for every file and every m, the capsule cut after its m-th
     record (plus up to 3 more bytes), with any original_size / reserved[1..3] / nonce tail in
     the header, is accepted and yields the first m chunks only *)
  Theorem truncated_capsule_accepted cs pw salt base base' f size r1 r2 r3 m tail :
    0 < cs -> cs + 16 < 2 ^ 32 -> length salt = SALT_SIZE -> length base = NONCE_SIZE ->
    length base' = NONCE_SIZE -> firstn 4 base' = firstn 4 base -> size < 2 ^ 64 ->
    (length tail < 4)%nat ->
    b_unlock kdf dec pw (header_encode (std_header salt base' size [1; r1; r2; r3]) ++
                         records enc (kdf pw salt) base 0 (firstn m (the_chunks cs f)) ++ tail)
    = Ok (concat (firstn m (the_chunks cs f))).
  Proof.
    intros Hcs Hcs2 Hs Hb Hb' Hp Hz Ht.
    apply (unlock_accepts kdf enc dec dec_enc enc_len (N.to_nat cs)); try assumption.
    - apply firstn_chunks_bound.
    - lia.
  Qed.

  (* the cut capsule really is a prefix of the capsule lock wrote *)
  Lemma truncated_is_prefix cs pw salt base f m :
    capsule_header salt base f ++ records enc (kdf pw salt) base 0 (firstn m (the_chunks cs f)) =
    firstn (length (capsule_header salt base f) +
            length (records enc (kdf pw salt) base 0 (firstn m (the_chunks cs f))))
           (capsule_of cs pw salt base f).
  Proof.
    unfold capsule_of.
    rewrite <- (firstn_skipn m (the_chunks cs f)) at 3.
    rewrite (records_app kdf enc dec dec_enc enc_len), app_assoc.
    rewrite firstn_app_exact; [reflexivity | rewrite app_length; reflexivity].
  Qed.

  (* truncation inside a chunk (the length prefix is complete, the ciphertext is not): I/O error *)
  Theorem cut_inside_chunk_rejected cs pw salt base f i p x :
    0 < cs -> cs + 16 < 2 ^ 32 -> length salt = SALT_SIZE -> length base = NONCE_SIZE -> blen f < 2 ^ 64 ->
    nth_error (the_chunks cs f) i = Some p ->
    (x < length (enc (kdf pw salt) (chunk_nonce base (N.of_nat i)) p))%nat ->
    b_unlock kdf dec pw (capsule_header salt base f ++
                         records enc (kdf pw salt) base 0 (firstn i (the_chunks cs f)) ++
                         le_encode 4 (blen (enc (kdf pw salt) (chunk_nonce base (N.of_nat i)) p)) ++
                         firstn x (enc (kdf pw salt) (chunk_nonce base (N.of_nat i)) p)) = Err E_IO.
  Proof.
    intros Hcs Hcs2 Hs Hb Hz Hi Hx. unfold capsule_header.
    apply (unlock_cut_inside kdf enc dec dec_enc enc_len (N.to_nat cs)); try assumption.
    - apply firstn_chunks_bound.
    - lia.
    - unfold blen. rewrite enc_len. pose proof (the_chunks_bound cs f) as HB.
      rewrite Forall_forall in HB. specialize (HB p (nth_error_In _ _ Hi)). unfold TAG_SIZE. lia.
  Qed.

  Hypothesis dec_sound : forall k n c p, dec k n c = Some p -> c = enc k n p.

  (* a record replaced by bytes that are not a valid ciphertext for its position: Decryption error.
     Covers a bit flip in a ciphertext or its tag (c' = the flipped record) and a changed length prefix. *)
  Theorem forged_record_rejected cs pw salt base f i c' rest :
    0 < cs -> cs + 16 < 2 ^ 32 -> length salt = SALT_SIZE -> length base = NONCE_SIZE -> blen f < 2 ^ 64 ->
    blen c' < 2 ^ 32 ->
    (i <= length (the_chunks cs f))%nat ->
    (forall p, c' <> enc (kdf pw salt) (chunk_nonce base (N.of_nat i)) p) ->
    b_unlock kdf dec pw (capsule_header salt base f ++
                         records enc (kdf pw salt) base 0 (firstn i (the_chunks cs f)) ++ frame c' ++ rest)
    = Err E_DECRYPT.
  Proof.
    intros Hcs Hcs2 Hs Hb Hz Hc Hi Hforged. unfold capsule_header.
    apply (unlock_bad_record kdf enc dec dec_enc enc_len (N.to_nat cs)); try assumption.
    - apply firstn_chunks_bound.
    - lia.
    - rewrite firstn_length, Nat.min_l by assumption.
      destruct (dec (kdf pw salt) (chunk_nonce base (N.of_nat i)) c') as [p|] eqn:Ed; [|reflexivity].
      exfalso. exact (Hforged p (dec_sound _ _ _ _ Ed)).
  Qed.

  Hypothesis enc_bind : forall k n p k' n' p', enc k n p = enc k' n' p' -> k = k' /\ n = n'.

  (* chunk reordering / replay / dropping: position i holds the ciphertext lock made for position j <> i *)
  Theorem misplaced_record_rejected cs pw salt base f i j pj rest :
    0 < cs -> cs + 16 < 2 ^ 32 -> length salt = SALT_SIZE -> length base = NONCE_SIZE -> blen f < 2 ^ 64 ->
    (i <= length (the_chunks cs f))%nat -> N.of_nat i < 2 ^ 64 -> N.of_nat j < 2 ^ 64 ->
    nth_error (the_chunks cs f) j = Some pj -> i <> j ->
    b_unlock kdf dec pw (capsule_header salt base f ++
                         records enc (kdf pw salt) base 0 (firstn i (the_chunks cs f)) ++
                         frame (enc (kdf pw salt) (chunk_nonce base (N.of_nat j)) pj) ++ rest)
    = Err E_DECRYPT.
  Proof.
    intros Hcs Hcs2 Hs Hb Hz Hi Hi64 Hj64 Hj Hij.
    apply forged_record_rejected; try assumption.
    - unfold blen. rewrite enc_len. pose proof (the_chunks_bound cs f) as HB.
      rewrite Forall_forall in HB. specialize (HB pj (nth_error_In _ _ Hj)). unfold TAG_SIZE. lia.
    - intros p E. apply enc_bind in E. destruct E as [_ En].
      apply chunk_nonce_inj in En; try assumption. lia.
  Qed.

  (* OUTSIDE THE KNOWN CLASS (plaintext clause): on the streaming path, if the presented capsule
     has at least as many records as the locked file has chunks and none of them is a forgery,
     then whatever unlock writes IS f. *)
  Theorem unlock_ok_is_f_outside_truncation cs pw salt base f pw' t h body out :
    0 < cs -> length base = NONCE_SIZE -> N.of_nat (length t) < 2 ^ 64 ->
    N.of_nat (length (the_chunks cs f)) < 2 ^ 64 ->
    read_header blen bsplit (@Some bytes) t = Ok (h, body) ->
    nth 0 (h_reserved h) 0 = 1 ->
    (forall c, In c (fst (frames (S (length t)) body)) ->
               unforged enc dec (kdf pw salt) base (the_chunks cs f) c) ->
    (length (fst (frames (S (length t)) body)) <? length (the_chunks cs f))%nat = false ->
    b_unlock kdf dec pw' t = Ok out ->
    out = f.
  Proof.
    intros Hcs Hb Ht Hps Hh Hr Hun Hk Hok.
    destruct (unlock_stream_ok_is_chunk_prefix kdf enc dec dec_enc dec_sound enc_bind
                pw salt base (the_chunks cs f) pw' t h body out Hb Ht Hps Hh Hr Hun Hok) as (Hm & Ho & _).
    apply Nat.ltb_ge in Hk.
    rewrite Ho, firstn_all2 by lia. apply the_chunks_concat; assumption.
  Qed.
End Final.
