(* Bit-level proofs about the term filter of src/types/sketch_track.rs:
   building only ORs bits in, so every hash that was added is reported as possibly
   present; lifted to generate_sketch. *)
From MV Require Import Base.Prelude Base.Facts Model.Sketch.
Require Import ZifyBool ZifyNat ZifyN.
Local Open Scope N_scope.

(* ---------------------------------------------------------------- upd / nth *)
Lemma upd_length {A} (l : list A) i f : length (upd l i f) = length l.
Proof. revert i; induction l as [|x r IH]; intros [|i]; cbn [upd length]; auto. Qed.

Lemma nth_upd {A} (l : list A) i j f d :
  nth j (upd l i f) d = if Nat.eqb i j && Nat.ltb j (length l) then f (nth j l d) else nth j l d.
Proof.
  revert i j; induction l as [|x r IH]; intros i j.
  - cbn [upd length]. destruct j; cbn [nth]; rewrite andb_false_r; reflexivity.
  - destruct i as [|i], j as [|j]; cbn [upd nth length]; try reflexivity.
    rewrite IH. change (Nat.eqb (S i) (S j)) with (Nat.eqb i j).
    change (Nat.ltb (S j) (S (length r))) with (Nat.ltb j (length r)). reflexivity.
Qed.

(* ---------------------------------------------------------------- single bits *)
Lemma bit_mask_pow i : bit_mask i = 2 ^ (i mod 8).
Proof. unfold bit_mask. apply N.shiftl_1_l. Qed.

Lemma land_pow2_eq0 x k : (N.land x (2 ^ k) =? 0) = negb (N.testbit x k).
Proof.
  destruct (N.testbit x k) eqn:E; cbn [negb].
  - apply N.eqb_neq. intros H0.
    assert (Hb : N.testbit (N.land x (2 ^ k)) k = true)
      by (rewrite N.land_spec, E, N.pow2_bits_true; reflexivity).
    rewrite H0, N.bits_0 in Hb. discriminate.
  - apply N.eqb_eq. apply N.bits_inj. intros j.
    rewrite N.land_spec, N.bits_0, N.pow2_bits_eqb.
    destruct (N.eqb_spec k j) as [->|]; [rewrite E|]; rewrite ?andb_false_r; reflexivity.
Qed.

Lemma test_bit_testbit flt i :
  test_bit flt i = N.testbit (nth (N.to_nat (i / 8)) flt 0) (i mod 8).
Proof. unfold test_bit. rewrite bit_mask_pow, land_pow2_eq0, negb_involutive. reflexivity. Qed.

Lemma set_bit_length flt i : length (set_bit flt i) = length flt.
Proof. apply upd_length. Qed.

(* a set bit is seen by the test at the same index *)
Lemma test_set_same flt i :
  (N.to_nat (i / 8) < length flt)%nat -> test_bit (set_bit flt i) i = true.
Proof.
  intros Hi. rewrite test_bit_testbit. unfold set_bit. rewrite nth_upd.
  rewrite Nat.eqb_refl. apply Nat.ltb_lt in Hi. rewrite Hi. cbn [andb].
  rewrite N.lor_spec, bit_mask_pow, N.pow2_bits_true. apply orb_true_r.
Qed.

(* OR-ing another bit in never clears a bit *)
Lemma test_set_mono flt i j : test_bit flt j = true -> test_bit (set_bit flt i) j = true.
Proof.
  rewrite !test_bit_testbit. unfold set_bit. rewrite nth_upd. intros H.
  destruct (Nat.eqb _ _ && Nat.ltb _ _); [|exact H].
  rewrite N.lor_spec, H. reflexivity.
Qed.

Lemma lor_bit_byte b k : b < 256 -> k < 8 -> N.lor b (2 ^ k) < 256.
Proof.
  intros Hb Hk. change 256 with (2 ^ 8).
  destruct (N.eq_dec (N.lor b (2 ^ k)) 0) as [E|E]; [rewrite E; reflexivity|].
  apply N.log2_lt_pow2; [lia|].
  rewrite N.log2_lor, N.log2_pow2 by lia.
  apply N.max_lub_lt; [|exact Hk].
  destruct (N.eq_dec b 0) as [->|Hb0]; [reflexivity|].
  apply N.log2_lt_pow2; [lia| exact Hb].
Qed.

Lemma upd_bytes_ok flt i f :
  (forall b, b < 256 -> f b < 256) -> bytes_ok flt = true -> bytes_ok (upd flt i f) = true.
Proof.
  intros Hf. revert i; induction flt as [|x r IH]; intros i Hok; [destruct i; exact Hok|].
  cbn [bytes_ok forallb] in Hok. apply andb_true_iff in Hok as [Hx Hr].
  unfold byte_ok in Hx. apply N.ltb_lt in Hx.
  destruct i as [|i]; cbn [upd bytes_ok forallb]; apply andb_true_iff; split.
  - unfold byte_ok. apply N.ltb_lt. auto.
  - exact Hr.
  - unfold byte_ok. apply N.ltb_lt. exact Hx.
  - apply IH. exact Hr.
Qed.

Lemma set_bit_bytes_ok flt i : bytes_ok flt = true -> bytes_ok (set_bit flt i) = true.
Proof.
  apply upd_bytes_ok. intros b Hb. rewrite bit_mask_pow. apply lor_bit_byte; [exact Hb|].
  apply N.mod_lt. lia.
Qed.

(* ---------------------------------------------------------------- add_hash / fold *)
Lemma probe_in_range p m len :
  m = N.of_nat len * 8 -> p < m -> (N.to_nat (p / 8) < len)%nat.
Proof. intros -> Hp. assert (p / 8 < N.of_nat len) by (apply N.div_lt_upper_bound; lia). lia. Qed.

Lemma add_hash_length m flt h : length (add_hash m flt h) = length flt.
Proof. unfold add_hash. rewrite !set_bit_length. reflexivity. Qed.

Lemma add_hash_mono m flt h j : test_bit flt j = true -> test_bit (add_hash m flt h) j = true.
Proof. intros H. unfold add_hash. do 3 apply test_set_mono. exact H. Qed.

Lemma add_hash_bytes_ok m flt h : bytes_ok flt = true -> bytes_ok (add_hash m flt h) = true.
Proof. intros H. unfold add_hash. do 3 apply set_bit_bytes_ok. exact H. Qed.

Lemma add_hash_sets m flt h :
  m = N.of_nat (length flt) * 8 -> m <> 0 ->
  test_bit (add_hash m flt h) (probe1 h m) = true /\
  test_bit (add_hash m flt h) (probe2 h m) = true /\
  test_bit (add_hash m flt h) (probe3 h m) = true.
Proof.
  intros Hm Hm0. unfold add_hash.
  assert (H1 : probe1 h m < m) by (apply N.mod_lt; exact Hm0).
  assert (H2 : probe2 h m < m) by (apply N.mod_lt; exact Hm0).
  assert (H3 : probe3 h m < m) by (apply N.mod_lt; exact Hm0).
  repeat split.
  - do 2 apply test_set_mono. apply test_set_same. eapply probe_in_range; eauto.
  - apply test_set_mono. apply test_set_same. rewrite set_bit_length. eapply probe_in_range; eauto.
  - apply test_set_same. rewrite !set_bit_length. eapply probe_in_range; eauto.
Qed.

Lemma fold_add_length m hs flt : length (fold_left (add_hash m) hs flt) = length flt.
Proof.
  revert flt; induction hs as [|h r IH]; intros flt; cbn [fold_left]; [reflexivity|].
  rewrite IH. apply add_hash_length.
Qed.

Lemma fold_add_mono m hs flt j :
  test_bit flt j = true -> test_bit (fold_left (add_hash m) hs flt) j = true.
Proof.
  revert flt; induction hs as [|h r IH]; intros flt H; cbn [fold_left]; [exact H|].
  apply IH. apply add_hash_mono. exact H.
Qed.

Lemma fold_add_bytes_ok m hs flt :
  bytes_ok flt = true -> bytes_ok (fold_left (add_hash m) hs flt) = true.
Proof.
  revert flt; induction hs as [|h r IH]; intros flt H; cbn [fold_left]; [exact H|].
  apply IH. apply add_hash_bytes_ok. exact H.
Qed.

Lemma fold_add_sets m hs flt h :
  m = N.of_nat (length flt) * 8 -> m <> 0 -> In h hs ->
  let out := fold_left (add_hash m) hs flt in
  test_bit out (probe1 h m) = true /\ test_bit out (probe2 h m) = true /\ test_bit out (probe3 h m) = true.
Proof.
  revert flt; induction hs as [|x r IH]; intros flt Hm Hm0 Hin; [destruct Hin|].
  cbn [fold_left]. destruct Hin as [->|Hin].
  - destruct (add_hash_sets m flt h Hm Hm0) as (A & B & C).
    cbv zeta. repeat split; apply fold_add_mono; assumption.
  - apply IH; auto. rewrite add_hash_length. exact Hm.
Qed.

Lemma repeat_bytes_ok n : bytes_ok (repeat 0 n) = true.
Proof. induction n; cbn [repeat bytes_ok forallb]; auto. Qed.

(* ---------------------------------------------------------------- the filter theorems *)
Lemma build_ok hs size :
  size <> O -> exists flt, build_term_filter hs size = Ok flt /\ length flt = size /\ bytes_ok flt = true.
Proof.
  intros Hs. unfold build_term_filter. destruct hs as [|h r].
  - eexists; repeat split; [apply repeat_length | apply repeat_bytes_ok].
  - destruct (N.eqb_spec (N.of_nat size * 8) 0) as [E|E]; [lia|].
    eexists; repeat split.
    + rewrite fold_add_length. apply repeat_length.
    + apply fold_add_bytes_ok. apply repeat_bytes_ok.
Qed.

Theorem build_no_false_negative hs size h :
  In h hs -> size <> O ->
  exists flt, build_term_filter hs size = Ok flt /\ length flt = size /\
              term_filter_maybe_contains flt h = Ok true.
Proof.
  intros Hin Hs. unfold build_term_filter. destruct hs as [|x r]; [destruct Hin|].
  set (hs := x :: r) in *.
  destruct (N.eqb_spec (N.of_nat size * 8) 0) as [E|E]; [lia|].
  eexists; split; [reflexivity|].
  assert (Hlen : length (fold_left (add_hash (N.of_nat size * 8)) hs (repeat 0 size)) = size)
    by (rewrite fold_add_length; apply repeat_length).
  split; [exact Hlen|].
  unfold term_filter_maybe_contains. rewrite Hlen.
  destruct (N.eqb_spec (N.of_nat size * 8) 0) as [E'|_]; [contradiction|].
  destruct (fold_add_sets (N.of_nat size * 8) hs (repeat 0 size) h) as (A & B & C); auto.
  - rewrite repeat_length. reflexivity.
  - cbv zeta in A, B, C. rewrite A, B, C. reflexivity.
Qed.

(* size 0: the code divides by zero *)
Lemma build_size0_panics h r : build_term_filter (h :: r) 0 = Panic PANIC_REM_ZERO.
Proof. reflexivity. Qed.
Lemma contains_empty_panics h : term_filter_maybe_contains [] h = Panic PANIC_REM_ZERO.
Proof. reflexivity. Qed.

(* ---------------------------------------------------------------- weights: membership *)
Lemma wins_In x a l : In x (wins a l) <-> x = a \/ In x l.
Proof.
  induction l as [|y r IH]; cbn [wins].
  - cbn [In]. intuition.
  - destruct (wle a y); cbn [In]; [intuition|]. rewrite IH. intuition.
Qed.

Lemma wsort_In x l : In x (wsort l) <-> In x l.
Proof.
  induction l as [|y r IH]; cbn [wsort fold_right In]; [tauto|].
  fold (wsort r). rewrite wins_In, IH. intuition.
Qed.

Lemma wins_length a l : length (wins a l) = S (length l).
Proof. induction l as [|y r IH]; cbn [wins]; [reflexivity|]. destruct (wle a y); cbn [length]; auto. Qed.

Lemma wsort_length l : length (wsort l) = length l.
Proof. induction l as [|y r IH]; cbn [wsort fold_right length]; [reflexivity|]. fold (wsort r). rewrite wins_length, IH. reflexivity. Qed.

Lemma In_firstn {A} (x : A) n l : In x (firstn n l) -> In x l.
Proof.
  revert l; induction n as [|n IH]; intros [|y r]; cbn [firstn In]; try tauto.
  intros [->|H]; [left; reflexivity | right; apply IH; exact H].
Qed.

Section SketchProofs.
  Variable token : Type.
  Variable token_eqb : token -> token -> bool.
  Variable hash_token : token -> N.
  Variable raw_weight : token -> N -> Z.
  Hypothesis token_eqb_sound : forall a b, token_eqb a b = true -> a = b.
  (* an i32 weight small enough that six of them fit a u32 (with idf_map = None the
     weights are 100, 200 or 300) *)
  Hypothesis raw_weight_bound : forall t c, (raw_weight t c <= 715827882)%Z.

  Lemma dedup_In t l : In t l -> In t (dedup token token_eqb l).
  Proof.
    induction l as [|x r IH]; intros Hin; [destruct Hin|].
    cbn [dedup]. destruct Hin as [->|Hin]; [left; reflexivity|].
    destruct (token_eqb x t) eqn:E.
    - left. apply token_eqb_sound. exact E.
    - right. apply filter_In. split; [apply IH; exact Hin | rewrite E; reflexivity].
  Qed.

  Lemma weights_cover t tokens :
    In t tokens -> In (hash_token t) (map fst (compute_token_weights token token_eqb hash_token raw_weight tokens)).
  Proof.
    intros Hin. unfold compute_token_weights.
    apply in_map_iff.
    exists (hash_token t, Z.max (raw_weight t (count_tok token token_eqb t tokens)) 1). split; [reflexivity|].
    apply wsort_In. apply in_map_iff. exists t. split; [reflexivity|]. apply dedup_In. exact Hin.
  Qed.

  Lemma weights_bounded tokens p :
    In p (compute_token_weights token token_eqb hash_token raw_weight tokens) ->
    (1 <= snd p <= 715827882)%Z.
  Proof.
    clear token_eqb_sound.
    unfold compute_token_weights. rewrite wsort_In, in_map_iff. intros (t & <- & _). cbn [snd].
    specialize (raw_weight_bound t (count_tok token token_eqb t tokens)). lia.
  Qed.

  Lemma sum_bound (l : list (N * Z)) acc :
    (forall p, In p l -> (1 <= snd p <= 715827882)%Z) ->
    fold_left (fun a t => a + Z.to_N (snd t)) l acc <= acc + N.of_nat (length l) * 715827882.
  Proof.
    clear token_eqb_sound raw_weight_bound.
    revert acc; induction l as [|p r IH]; intros acc Hb; cbn [fold_left length]; [lia|].
    etransitivity; [apply IH; intros q Hq; apply Hb; right; exact Hq|].
    specialize (Hb p (or_introl eq_refl)). lia.
  Qed.

  Lemma term_filter_size_nz v : term_filter_size v <> O.
  Proof. destruct v; discriminate. Qed.

  Lemma top_terms_count_le v : (top_terms_count v <= 6)%nat.
  Proof. clear token_eqb_sound raw_weight_bound. destruct v; cbv; lia. Qed.

  (* generate_sketch never panics (under the weight bound) *)
  Lemma generate_sketch_ok fid tokens v :
    exists e, generate_sketch token token_eqb hash_token raw_weight fid tokens v = Ok e /\
              e_frame_id e = fid /\ length (e_filter e) = term_filter_size v /\ bytes_ok (e_filter e) = true.
  Proof.
    clear token_eqb_sound.
    unfold generate_sketch. destruct tokens as [|t0 r].
    - eexists; split; [reflexivity|]. cbn [e_frame_id e_filter].
      repeat split; [apply repeat_length | apply repeat_bytes_ok].
    - set (tokens := t0 :: r).
      set (w := compute_token_weights token token_eqb hash_token raw_weight tokens).
      destruct (build_ok (map fst w) (term_filter_size v) (term_filter_size_nz v)) as (flt & Hb & Hl & Hok).
      rewrite Hb.
      assert (Hsum : fold_left (fun a t => a + Z.to_N (snd t)) (firstn (top_terms_count v) w) 0 < 2 ^ 32).
      { eapply N.le_lt_trans.
        - apply sum_bound. intros p Hp. apply (weights_bounded tokens). eapply In_firstn. exact Hp.
        - pose proof (firstn_le_length (top_terms_count v) w). pose proof (top_terms_count_le v).
          change (2 ^ 32) with 4294967296. lia. }
      destruct (N.leb_spec (2 ^ 32) (fold_left (fun a t => a + Z.to_N (snd t)) (firstn (top_terms_count v) w) 0)) as [Hc|_]; [lia|].
      eexists; split; [reflexivity|]. cbn [e_frame_id e_filter]. auto.
  Qed.

  (* every token of the text is reported as possibly present by the text's own filter *)
  Theorem generate_sketch_no_false_negative fid tokens v t :
    In t tokens ->
    exists e, generate_sketch token token_eqb hash_token raw_weight fid tokens v = Ok e /\
              term_filter_maybe_contains (e_filter e) (hash_token t) = Ok true.
  Proof.
    intros Hin. unfold generate_sketch. destruct tokens as [|t0 r]; [destruct Hin|].
    set (tokens := t0 :: r) in *.
    set (w := compute_token_weights token token_eqb hash_token raw_weight tokens).
    destruct (build_no_false_negative (map fst w) (term_filter_size v) (hash_token t))
      as (flt & Hb & Hl & Hc); [apply weights_cover; exact Hin | apply term_filter_size_nz |].
    rewrite Hb.
    assert (Hsum : fold_left (fun a t => a + Z.to_N (snd t)) (firstn (top_terms_count v) w) 0 < 2 ^ 32).
    { eapply N.le_lt_trans.
      - apply sum_bound. intros p Hp. apply (weights_bounded tokens). eapply In_firstn. exact Hp.
      - pose proof (firstn_le_length (top_terms_count v) w). pose proof (top_terms_count_le v).
        change (2 ^ 32) with 4294967296. lia. }
    destruct (N.leb_spec (2 ^ 32) (fold_left (fun a t => a + Z.to_N (snd t)) (firstn (top_terms_count v) w) 0)) as [Hc'|_]; [lia|].
    eexists; split; [reflexivity|]. cbn [e_filter]. exact Hc.
  Qed.

  (* the property's wording: any text, any token the tokenizer produces from it *)
  Theorem sketch_no_false_negative_text (text : Type) (tokenize : text -> list token) fid (txt : text) v t :
    In t (tokenize txt) ->
    exists e, generate_sketch token token_eqb hash_token raw_weight fid (tokenize txt) v = Ok e /\
              term_filter_maybe_contains (e_filter e) (hash_token t) = Ok true.
  Proof. apply generate_sketch_no_false_negative. Qed.
End SketchProofs.

Lemma raw_weight_no_idf_bound {token} (t : token) c : (raw_weight_no_idf t c <= 715827882)%Z.
Proof. unfold raw_weight_no_idf. lia. Qed.
