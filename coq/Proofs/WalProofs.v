From MV Require Import Base.Prelude Base.Facts Model.Wal.
Require Import ZifyBool ZifyNat ZifyN.
Local Open Scope N_scope.

(* ---------- list helpers ---------- *)
Lemma firstn_app_exact {A} (a b : list A) n : n = length a -> firstn n (a ++ b) = a.
Proof. intros ->. rewrite firstn_app, Nat.sub_diag, firstn_all. cbn. apply app_nil_r. Qed.
Lemma skipn_app_exact {A} (a b : list A) n : n = length a -> skipn n (a ++ b) = b.
Proof. intros ->. rewrite skipn_app, Nat.sub_diag, skipn_all. reflexivity. Qed.
Lemma zeros_length n : length (zeros n) = n.
Proof. apply repeat_length. Qed.
Lemma firstn_zeros n m : (n <= m)%nat -> firstn n (zeros m) = zeros n.
Proof.
  revert m; induction n as [|n IH]; intros m Hm; [reflexivity|].
  destruct m as [|m]; [lia|]. cbn. f_equal. apply IH. lia.
Qed.

(* ---------- write_at ---------- *)
Lemma write_at_app (a t b : bytes) :
  (length b <= length t)%nat ->
  write_at (a ++ t) (length a) b = a ++ b ++ skipn (length b) t.
Proof.
  intros Hl. unfold write_at. rewrite firstn_app_exact by reflexivity.
  rewrite skipn_app. replace (length a + length b - length a)%nat with (length b) by lia.
  rewrite skipn_all2 by lia. reflexivity.
Qed.

Lemma write_at_length (r b : bytes) pos : (pos + length b <= length r)%nat -> length (write_at r pos b) = length r.
Proof. intros Hl. unfold write_at. rewrite !app_length, firstn_length, skipn_length. lia. Qed.


Section WalProofs.
  Variable H : bytes -> bytes.
  Hypothesis H32 : forall p, length (H p) = 32%nat.

  Definition hdr_of (seq : N) (p : bytes) : bytes :=
    le_encode 8 seq ++ le_encode 4 (N.of_nat (length p)) ++ zeros 4 ++ H p.

  Lemma image_split seq p : image H seq p = hdr_of seq p ++ p.
  Proof. unfold image, hdr_of. rewrite <- !app_assoc. reflexivity. Qed.

  Lemma hdr_length seq p : length (hdr_of seq p) = 48%nat.
  Proof. unfold hdr_of. rewrite !app_length, !le_encode_length, zeros_length, H32. reflexivity. Qed.

  Lemma image_length seq p : length (image H seq p) = (48 + length p)%nat.
  Proof. rewrite image_split, app_length, hdr_length. reflexivity. Qed.

  Definition images (recs : list wrec) : bytes :=
    concat (map (fun r => image H (r_seq r) (r_payload r)) recs).
  Definition total (recs : list wrec) : N := fold_right (fun r a => rec_size r + a) 0 recs.

  Lemma total_cons r recs : total (r :: recs) = rec_size r + total recs.
  Proof. reflexivity. Qed.
  Lemma images_cons r recs : images (r :: recs) = image H (r_seq r) (r_payload r) ++ images recs.
  Proof. reflexivity. Qed.
  Lemma rec_size_eq r : rec_size r = 48 + N.of_nat (length (r_payload r)).
  Proof. reflexivity. Qed.

  Lemma images_length recs : N.of_nat (length (images recs)) = total recs.
  Proof.
    induction recs as [|r recs IH]; [reflexivity|].
    rewrite images_cons, total_cons, app_length, image_length, rec_size_eq. lia.
  Qed.

  Lemma images_app a b : images (a ++ b) = images a ++ images b.
  Proof. unfold images. rewrite map_app, concat_app. reflexivity. Qed.

  Lemma total_app a b : total (a ++ b) = total a + total b.
  Proof. induction a as [|x a IH]; [cbn [app]; change (total []) with 0; lia|]. rewrite <- app_comm_cons, !total_cons, IH. lia. Qed.

  Definition rec_ok (r : wrec) : Prop :=
    (0 < length (r_payload r))%nat /\ N.of_nat (length (r_payload r)) <= U32_MAX /\ r_seq r < 2 ^ 64.

  Definition stops (tail : bytes) (head size : N) : Prop :=
    size < head + EH \/ firstn 48 tail = zeros 48.

  (* header field extraction *)
  Lemma hdr_seq seq p : seq < 2 ^ 64 -> le_decode (firstn 8 (hdr_of seq p)) = seq.
  Proof.
    intros Hs. unfold hdr_of. rewrite firstn_app_exact by (rewrite le_encode_length; reflexivity).
    apply le_decode_encode. exact Hs.
  Qed.
  Lemma hdr_len seq p : N.of_nat (length p) <= U32_MAX ->
    le_decode (slice (hdr_of seq p) 8 4) = N.of_nat (length p).
  Proof.
    intros Hl. unfold hdr_of.
    pose proof (slice_app_exact (le_encode 8 seq) (le_encode 4 (N.of_nat (length p))) (zeros 4 ++ H p)) as HS.
    rewrite !le_encode_length in HS. rewrite HS.
    apply le_decode_encode. unfold U32_MAX in Hl. change (256 ^ N.of_nat 4) with 4294967296. lia.
  Qed.
  Lemma hdr_digest seq p : slice (hdr_of seq p) 16 32 = H p.
  Proof.
    unfold hdr_of. rewrite !app_assoc.
    pose proof (slice_app_tail ((le_encode 8 seq ++ le_encode 4 (N.of_nat (length p))) ++ zeros 4) (H p)) as HS.
    rewrite !app_length, !le_encode_length, zeros_length, H32 in HS. exact HS.
  Qed.

  (* ---------- the scan lemma ---------- *)
  Lemma scan_images recs : forall fuel tail cursor size,
    Forall rec_ok recs ->
    (length recs < fuel)%nat ->
    cursor + total recs <= size ->
    stops tail (cursor + total recs) size ->
    scan_from H fuel (images recs ++ tail) cursor size = Ok (recs, cursor + total recs).
  Proof.
    induction recs as [|r recs IH]; intros fuel tail cursor size Hok Hfuel Hfit Hstop.
    - destruct fuel as [|f]; [cbn in Hfuel; lia|].
      cbn [images map concat app total fold_right] in *. rewrite N.add_0_r in *.
      cbn [scan_from]. destruct (size <? cursor + EH) eqn:E1; [reflexivity|].
      destruct Hstop as [Hs|Hz]; [lia|]. rewrite Hz.
      change (le_decode (firstn 8 (zeros 48))) with 0. change (le_decode (slice (zeros 48) 8 4)) with 0.
      reflexivity.
    - destruct fuel as [|f]; [cbn in Hfuel; lia|].
      inversion Hok as [|? ? Hr Hoks]; subst. destruct Hr as (Hp0 & Hpmax & Hseq).
      destruct r as [seq p]. cbn [r_seq r_payload] in *.
      rewrite images_cons. rewrite total_cons, rec_size_eq in Hfit, Hstop |- *. cbn [r_seq r_payload] in *.
      rewrite image_split, <- !app_assoc.
      cbn [scan_from]. unfold EH in *.
      replace (size <? cursor + 48) with false by lia.
      rewrite (firstn_app_exact (hdr_of seq p)) by (rewrite hdr_length; reflexivity).
      rewrite hdr_seq, hdr_len, hdr_digest by assumption.
      replace (N.of_nat (length p) =? 0) with false by lia.
      rewrite andb_false_r. cbn [orb].
      replace (size <? cursor + 48 + N.of_nat (length p)) with false by lia.
      rewrite Nat2N.id.
      assert (HS : slice (hdr_of seq p ++ p ++ images recs ++ tail) 48 (length p) = p).
      { pose proof (slice_app_exact (hdr_of seq p) p (images recs ++ tail)) as HS. rewrite hdr_length in HS. exact HS. }
      rewrite HS, bytes_eqb_refl. cbn [negb].
      rewrite app_assoc, (skipn_app_exact (hdr_of seq p ++ p)) by (rewrite app_length, hdr_length; reflexivity).
      rewrite IH; [|assumption|cbn in Hfuel; lia|lia|].
      + f_equal. f_equal. lia.
      + replace (cursor + 48 + N.of_nat (length p) + total recs) with (cursor + (48 + N.of_nat (length p) + total recs)) by lia. exact Hstop.
  Qed.

  Lemma length_le_total recs : Forall rec_ok recs -> N.of_nat (length recs) <= total recs.
  Proof.
    induction recs as [|r recs IH]; intros Hok; [cbn; lia|].
    inversion Hok; subst. specialize (IH ltac:(assumption)). rewrite total_cons, rec_size_eq. cbn [length]. lia.
  Qed.

  (* ---------- the invariant ---------- *)
  Definition pending_of (ck : N) (recs : list wrec) : list wrec := filter (fun e => ck <? r_seq e) recs.

  Record Inv (w : wal) (h : whdr) (recs : list wrec) : Prop := mkInv {
    inv_len : N.of_nat (length (region w)) = wsize w;
    inv_pos : 0 < wsize w;
    inv_region : exists tail, region w = images recs ++ tail /\ stops tail (write_head w) (wsize w);
    inv_head : write_head w = total recs;
    inv_ok : Forall rec_ok recs;
    inv_le : Forall (fun r => r_seq r <= sequence w) recs;
    inv_last : last_seq recs (sequence w) = sequence w;
    inv_nil : recs = [] -> sequence w = ckpt_seq w;
    inv_ck : ckpt_seq w <= sequence w;
    inv_hdr : h_seq h = ckpt_seq w;
    inv_pb : pending_bytes w = pending_sum (ckpt_seq w) recs }.

  Lemma pending_sum_cons ck r recs :
    pending_sum ck (r :: recs) = if ck <? r_seq r then rec_size r + pending_sum ck recs else pending_sum ck recs.
  Proof. reflexivity. Qed.
  Lemma pending_of_cons ck r recs :
    pending_of ck (r :: recs) = if ck <? r_seq r then r :: pending_of ck recs else pending_of ck recs.
  Proof. reflexivity. Qed.

  Lemma pending_sum_le ck recs : pending_sum ck recs <= total recs.
  Proof.
    induction recs as [|r recs IH]; [cbn; lia|].
    rewrite pending_sum_cons, total_cons. destruct (ck <? r_seq r); lia.
  Qed.

  Lemma pending_sum_filter ck recs : pending_sum ck recs = total (pending_of ck recs).
  Proof.
    induction recs as [|r recs IH]; [reflexivity|].
    rewrite pending_sum_cons, pending_of_cons. destruct (ck <? r_seq r); [rewrite total_cons|]; lia.
  Qed.

  Lemma pending_sum_zero ck recs : Forall rec_ok recs -> pending_sum ck recs = 0 -> pending_of ck recs = [].
  Proof.
    induction recs as [|r recs IH]; intros Hok Hz; [reflexivity|].
    inversion Hok; subst. rewrite pending_sum_cons in Hz. rewrite pending_of_cons.
    destruct (ck <? r_seq r).
    - rewrite rec_size_eq in Hz. lia.
    - apply IH; assumption.
  Qed.

  Lemma pending_all_le ck recs : Forall (fun r => r_seq r <= ck) recs -> pending_of ck recs = [] /\ pending_sum ck recs = 0.
  Proof.
    induction recs as [|r recs IH]; intros Hle; [split; reflexivity|].
    inversion Hle; subst. rewrite pending_sum_cons, pending_of_cons.
    replace (ck <? r_seq r) with false by lia. apply IH; assumption.
  Qed.

  (* shape of the region: images of recs followed by something, head at their end *)
  Definition Shape (w : wal) (recs : list wrec) : Prop :=
    N.of_nat (length (region w)) = wsize w /\ 0 < wsize w /\
    write_head w = total recs /\ exists tail, region w = images recs ++ tail.

  (* maybe_write_sentinel keeps the shape, establishes `stops`, changes no other field *)
  Lemma sentinel_shape w recs :
    Shape w recs -> pending_bytes w <= total recs ->
    let w' := maybe_write_sentinel w in
    N.of_nat (length (region w')) = wsize w' /\
    (exists tail, region w' = images recs ++ tail /\ stops tail (write_head w') (wsize w')) /\
    wsize w' = wsize w /\ write_head w' = write_head w /\ checkpoint_head w' = checkpoint_head w /\
    pending_bytes w' = pending_bytes w /\ sequence w' = sequence w /\ ckpt_seq w' = ckpt_seq w /\ appends w' = appends w.
  Proof.
    intros (Hlen & Hpos & Hhead & tail & Hreg) Hpb.
    assert (Htot : total recs + N.of_nat (length tail) = wsize w).
    { rewrite <- Hlen, Hreg, app_length, <- images_length. lia. }
    pose proof (images_length recs) as Himg.
    unfold maybe_write_sentinel.
    replace (wsize w =? 0) with false by lia.
    destruct (wsize w <=? pending_bytes w) eqn:Efull.
    - (* log full: head = size *)
      repeat split; try assumption. exists tail. split; [assumption|]. left. unfold EH. lia.
    - unfold write_zero_header. rewrite Hhead.
      replace (N.min (total recs) (wsize w)) with (total recs) by lia.
      destruct (wsize w - total recs <? EH) eqn:Erem.
      + destruct (0 <? wsize w - total recs) eqn:Epos.
        * cbn [set_head set_region region wsize write_head checkpoint_head pending_bytes sequence ckpt_seq appends].
          rewrite Hreg, <- images_length, Nat2N.id.
          rewrite write_at_app by (rewrite zeros_length; lia).
          repeat split; try reflexivity.
          -- rewrite !app_length, skipn_length, !zeros_length. lia.
          -- eexists. split; [reflexivity|]. left. unfold EH in *. lia.
        * cbn [set_head set_region region wsize write_head checkpoint_head pending_bytes sequence ckpt_seq appends].
          repeat split; try assumption; try reflexivity.
          exists tail. split; [assumption|]. left. lia.
      + cbn [set_head set_region region wsize write_head checkpoint_head pending_bytes sequence ckpt_seq appends].
        rewrite Hreg, <- images_length, Nat2N.id.
        rewrite write_at_app by (rewrite zeros_length; unfold EH in *; lia).
        repeat split; try reflexivity.
        * rewrite !app_length, skipn_length, !zeros_length. unfold EH in *. lia.
        * eexists. split; [reflexivity|]. right. apply firstn_app_exact. rewrite zeros_length. reflexivity.
  Qed.

  Lemma inv_shape w h recs : Inv w h recs -> Shape w recs.
  Proof. intros [? ? (tail & Hr & _) ? ? ? ? ? ? ? ?]. repeat split; try assumption. exists tail; assumption. Qed.

  Lemma inv_scan w h recs : Inv w h recs ->
    scan_records H (region w) (wsize w) = Ok (recs, total recs).
  Proof.
    intros [Hlen Hpos (tail & Hreg & Hstop) Hhead Hok Hle Hlast Hnil Hck Hhdr Hpb].
    unfold scan_records. rewrite Hreg at 2.
    assert (Htot : total recs + N.of_nat (length tail) = wsize w).
    { rewrite <- Hlen, Hreg, app_length, <- images_length. lia. }
    rewrite scan_images; try assumption.
    - rewrite N.add_0_l. reflexivity.
    - pose proof (length_le_total recs Hok). lia.
    - lia.
    - rewrite N.add_0_l, <- Hhead. exact Hstop.
  Qed.
End WalProofs.

(* ================= refinement: every step of the model is a step of the spec ================= *)
From MV Require Import Model.WalSpec.

Section WalRefine.
  Variable H : bytes -> bytes.
  Hypothesis H32 : forall p, length (H p) = 32%nat.
  Local Notation InvH := (Inv H).
  Local Notation imagesH := (images H).

  Definition R (w : wal) (h : whdr) (recs : list wrec) (a : astate) : Prop :=
    InvH w h recs /\ a_pending a = pending_of (ckpt_seq w) recs /\ a_seq a = sequence w /\ a_ck a = ckpt_seq w.

  Lemma pending_of_app ck a b : pending_of ck (a ++ b) = pending_of ck a ++ pending_of ck b.
  Proof. unfold pending_of. apply filter_app. Qed.
  Lemma pending_sum_app ck a b : pending_sum ck (a ++ b) = pending_sum ck a + pending_sum ck b.
  Proof. rewrite !pending_sum_filter, pending_of_app, total_app. reflexivity. Qed.
  Lemma last_seq_snoc l r d : last_seq (l ++ [r]) d = r_seq r.
  Proof. unfold last_seq. rewrite map_app. cbn [map]. apply last_last. Qed.
  Lemma bytes_of_total l : bytes_of l = total l.
  Proof. reflexivity. Qed.
  Lemma payload_of_length len fill : N.of_nat (length (payload_of len fill)) = len.
  Proof. unfold payload_of. rewrite repeat_length. lia. Qed.

  (* accepted append: `keep` is what physically stays in front of the new record
     (all of recs, or nothing when the head wrapped to 0 with no pending bytes) *)
  Lemma append_accept w h recs keep tk p :
    InvH w h recs ->
    region w = imagesH keep ++ tk ->
    Forall (rec_ok) keep -> Forall (fun r => r_seq r <= sequence w) keep ->
    pending_of (ckpt_seq w) keep = pending_of (ckpt_seq w) recs ->
    (0 < length p)%nat -> N.of_nat (length p) <= U32_MAX -> sequence w + 1 < 2 ^ 64 ->
    total keep + (EH + N.of_nat (length p)) <= wsize w ->
    let nseq := sequence w + 1 in
    let es := EH + N.of_nat (length p) in
    let w1 := mkWal (write_at (region w) (N.to_nat (total keep)) (image H nseq p)) (wsize w) (total keep + es)
                    (checkpoint_head w) (pending_bytes w + es) nseq (ckpt_seq w) (appends w + 1) in
    InvH (maybe_write_sentinel w1) h (keep ++ [mkRec nseq p]).
  Proof.
    intros HI Hreg Hkok Hkle Hkp Hp0 Hpmax Hseq Hfit nseq es w1.
    destruct HI as [Hlen Hpos (tail & Hreg0 & Hstop) Hhead Hok Hle Hlast Hnil Hck Hhdr Hpb].
    assert (Hlk : N.of_nat (length (imagesH keep)) = total keep) by apply (images_length H H32).
    assert (Htk : total keep + N.of_nat (length tk) = wsize w).
    { rewrite <- Hlen, Hreg, app_length. lia. }
    assert (Himg : length (image H nseq p) = (48 + length p)%nat) by (apply (image_length H H32)).
    assert (Hshape : Shape H w1 (keep ++ [mkRec nseq p])).
    { unfold Shape, w1. cbn [region wsize write_head].
      rewrite <- Hlk, Nat2N.id, Hreg, write_at_app by (rewrite Himg; unfold EH, es in *; lia).
      repeat split.
      - rewrite !app_length, skipn_length, Himg. rewrite <- Hlen, Hreg, app_length. unfold es, EH in *. lia.
      - assumption.
      - rewrite total_app, total_cons, rec_size_eq. cbn [r_payload]. change (total []) with 0. unfold es, EH. lia.
      - exists (skipn (length (image H nseq p)) tk). rewrite (images_app H keep [mkRec nseq p]), (images_cons H (mkRec nseq p) []). change (images H []) with (@nil N).
        cbn [r_seq r_payload]. rewrite app_nil_r, <- app_assoc. reflexivity. }
    assert (Hpbk : pending_sum (ckpt_seq w) keep = pending_bytes w).
    { rewrite Hpb, !pending_sum_filter, Hkp. reflexivity. }
    assert (Hnewp : pending_sum (ckpt_seq w) [mkRec nseq p] = es).
    { rewrite pending_sum_cons. cbn [r_seq]. replace (ckpt_seq w <? nseq) with true by (unfold nseq; lia).
      rewrite rec_size_eq. cbn [r_payload]. change (pending_sum (ckpt_seq w) []) with 0. unfold es, EH. lia. }
    assert (Hpble : pending_bytes w1 <= total (keep ++ [mkRec nseq p])).
    { unfold w1. cbn [pending_bytes]. rewrite <- Hpbk, <- Hnewp, <- pending_sum_app. apply pending_sum_le. }
    pose proof (sentinel_shape H H32 w1 (keep ++ [mkRec nseq p]) Hshape Hpble) as HS. cbn zeta in HS.
    destruct HS as (L1 & L2 & E1 & E2 & E3 & E4 & E5 & E6 & E7).
    constructor.
    - exact L1.
    - rewrite E1. exact Hpos.
    - exact L2.
    - rewrite E2. unfold w1. cbn [write_head]. rewrite total_app, total_cons, rec_size_eq. cbn [r_payload]. change (total []) with 0. unfold es, EH. lia.
    - apply Forall_app. split; [assumption|]. constructor; [|constructor]. repeat split; cbn [r_payload r_seq]; assumption.
    - rewrite E5. unfold w1. cbn [sequence]. apply Forall_app. split.
      + eapply Forall_impl; [|exact Hkle]. cbn beta. intros r Hr. unfold nseq. lia.
      + constructor; [|constructor]. cbn [r_seq]. lia.
    - rewrite E5. unfold w1. cbn [sequence]. apply last_seq_snoc.
    - intros Hnil'. destruct keep; discriminate.
    - rewrite E5, E6. unfold w1. cbn [sequence ckpt_seq]. unfold nseq. lia.
    - rewrite E6. unfold w1. cbn [ckpt_seq]. exact Hhdr.
    - rewrite E4, E6. unfold w1. cbn [pending_bytes ckpt_seq]. rewrite pending_sum_app, Hpbk, Hnewp. reflexivity.
  Qed.

  Lemma refused_ok w h recs a len fill k :
    R w h recs a ->
    (k = 1 \/ k = 2 \/ k = 3 \/ k = 6) -> (k = 6 <-> len = 0) -> (k = 3 -> U32_MAX < len) -> (k = 1 -> wsize w < EH + len) ->
    exists recs' a', spec_step (wsize w) a (WAppend len fill) (OSeq (Err k)) a' /\ R w h recs' a' /\
                     sequence w <= sequence w + 1 /\ wsize w = wsize w.
  Proof.
    intros HR K1 K2 K3 K4. exists recs, a. split; [apply SAppendRefused; assumption|].
    split; [exact HR|]. split; [lia|reflexivity].
  Qed.

  Lemma append_refines w h recs a len fill :
    R w h recs a -> sequence w + 1 < 2 ^ 64 ->
    let '(w', o) := append_entry H w (payload_of len fill) in
    exists recs' a', spec_step (wsize w) a (WAppend len fill) (OSeq o) a' /\ R w' h recs' a' /\
                     sequence w' <= sequence w + 1 /\ wsize w' = wsize w.
  Proof.
    intros HR Hseq. pose proof HR as (HI & Hap & Has & Hac).
    unfold append_entry. rewrite payload_of_length.
    destruct (U32_MAX <? len) eqn:E3.
    { apply (refused_ok w h recs a len fill 3 HR); unfold U32_MAX in *; lia. }
    destruct (len =? 0) eqn:E6.
    { apply (refused_ok w h recs a len fill 6 HR); unfold U32_MAX in *; lia. }
    destruct (wsize w <? EH + len) eqn:E1.
    { apply (refused_ok w h recs a len fill 1 HR); unfold U32_MAX in *; lia. }
    destruct (wsize w <? pending_bytes w + (EH + len)) eqn:E2.
    { apply (refused_ok w h recs a len fill 2 HR); unfold U32_MAX in *; lia. }
    destruct (wsize w <? write_head w + (EH + len)) eqn:EW; cbn [andb].
    - destruct (0 <? pending_bytes w) eqn:EP.
      { apply (refused_ok w h recs a len fill 2 HR); unfold U32_MAX in *; lia. }
      (* wrap with nothing pending: the new record is written at offset 0 *)
      pose proof HI as HI0.
      destruct HI as [Hlen Hpos (tail & Hreg0 & Hstop) Hhead Hok Hle Hlast Hnil Hck Hhdr Hpb].
      assert (Hnop : pending_of (ckpt_seq w) recs = []).
      { apply pending_sum_zero; [assumption|]. rewrite <- Hpb. lia. }
      pose proof (append_accept w h recs [] (region w) (payload_of len fill) HI0) as HA.
      rewrite payload_of_length in HA. change (total []) with 0 in HA. rewrite N.add_0_l in HA.
      specialize (HA eq_refl (Forall_nil _) (Forall_nil _)).
      rewrite Hnop in HA. specialize (HA eq_refl).
      assert (Hl0 : (0 < length (payload_of len fill))%nat).
      { pose proof (payload_of_length len fill). lia. }
      specialize (HA Hl0 ltac:(lia) Hseq ltac:(lia)). cbn zeta in HA. change (N.to_nat 0) with 0%nat in HA.
      eexists _, (mkA (a_pending a ++ [mkRec (a_seq a + 1) (payload_of len fill)]) (a_seq a + 1) (a_ck a)).
      split; [rewrite <- Has; apply SAppendOk; lia|].
      split; [|split].
      + split; [exact HA|]. cbn [a_pending a_seq a_ck].
        pose proof (sentinel_shape H H32) as _.
        match goal with |- context [maybe_write_sentinel ?w1] => set (w1' := w1) in * end.
        assert (Eseq : sequence (maybe_write_sentinel w1') = sequence w + 1 /\ ckpt_seq (maybe_write_sentinel w1') = ckpt_seq w).
        { unfold maybe_write_sentinel. destruct (wsize w1' =? 0); [split; reflexivity|].
          destruct (wsize w1' <=? pending_bytes w1'); [split; reflexivity|].
          destruct (write_zero_header w1' (write_head w1')). split; reflexivity. }
        destruct Eseq as [Es Ec]. rewrite Es, Ec. repeat split; try lia.
        rewrite Hap, Hnop. cbn [app]. unfold pending_of. cbn [filter r_seq].
        replace (ckpt_seq w <? sequence w + 1) with true by lia. rewrite Has. reflexivity.
      + match goal with |- context [maybe_write_sentinel ?w1] => set (w1' := w1) in * end.
        unfold maybe_write_sentinel. destruct (wsize w1' =? 0); [cbn; lia|].
        destruct (wsize w1' <=? pending_bytes w1'); [cbn; lia|].
        destruct (write_zero_header w1' (write_head w1')). cbn. lia.
      + match goal with |- context [maybe_write_sentinel ?w1] => set (w1' := w1) in * end.
        unfold maybe_write_sentinel. destruct (wsize w1' =? 0); [reflexivity|].
        destruct (wsize w1' <=? pending_bytes w1'); [reflexivity|].
        destruct (write_zero_header w1' (write_head w1')). reflexivity.
    - (* no wrap: appended behind the existing records *)
      pose proof HI as HI0.
      destruct HI as [Hlen Hpos (tail & Hreg0 & Hstop) Hhead Hok Hle Hlast Hnil Hck Hhdr Hpb].
      pose proof (append_accept w h recs recs tail (payload_of len fill) HI0 Hreg0 Hok Hle eq_refl) as HA.
      rewrite payload_of_length in HA.
      assert (Hl0 : (0 < length (payload_of len fill))%nat).
      { pose proof (payload_of_length len fill). lia. }
      specialize (HA Hl0 ltac:(lia) Hseq ltac:(rewrite <- Hhead; lia)). cbn zeta in HA.
      rewrite <- Hhead in HA.
      eexists _, (mkA (a_pending a ++ [mkRec (a_seq a + 1) (payload_of len fill)]) (a_seq a + 1) (a_ck a)).
      split; [rewrite <- Has; apply SAppendOk; lia|].
      split; [|split].
      + split; [exact HA|]. cbn [a_pending a_seq a_ck].
        match goal with |- context [maybe_write_sentinel ?w1] => set (w1' := w1) in * end.
        assert (Eseq : sequence (maybe_write_sentinel w1') = sequence w + 1 /\ ckpt_seq (maybe_write_sentinel w1') = ckpt_seq w).
        { unfold maybe_write_sentinel. destruct (wsize w1' =? 0); [split; reflexivity|].
          destruct (wsize w1' <=? pending_bytes w1'); [split; reflexivity|].
          destruct (write_zero_header w1' (write_head w1')). split; reflexivity. }
        destruct Eseq as [Es Ec]. rewrite Es, Ec. repeat split; try lia.
        rewrite pending_of_app, Hap. f_equal. unfold pending_of. cbn [filter r_seq].
        replace (ckpt_seq w <? sequence w + 1) with true by lia. rewrite Has. reflexivity.
      + match goal with |- context [maybe_write_sentinel ?w1] => set (w1' := w1) in * end.
        unfold maybe_write_sentinel. destruct (wsize w1' =? 0); [cbn; lia|].
        destruct (wsize w1' <=? pending_bytes w1'); [cbn; lia|].
        destruct (write_zero_header w1' (write_head w1')). cbn. lia.
      + match goal with |- context [maybe_write_sentinel ?w1] => set (w1' := w1) in * end.
        unfold maybe_write_sentinel. destruct (wsize w1' =? 0); [reflexivity|].
        destruct (wsize w1' <=? pending_bytes w1'); [reflexivity|].
        destruct (write_zero_header w1' (write_head w1')). reflexivity.
  Qed.
End WalRefine.

Lemma last_cons_indep {A} (x : A) l d1 d2 : last (x :: l) d1 = last (x :: l) d2.
Proof.
  revert x. induction l as [|y l IH]; intros x; [reflexivity|].
  change (last (x :: y :: l) d1) with (last (y :: l) d1). change (last (x :: y :: l) d2) with (last (y :: l) d2). apply IH.
Qed.

Section WalRefine2.
  Variable H : bytes -> bytes.
  Hypothesis H32 : forall p, length (H p) = 32%nat.
  Local Notation InvH := (Inv H).

  Lemma mws_fields w :
    let w' := maybe_write_sentinel w in
    wsize w' = wsize w /\ checkpoint_head w' = checkpoint_head w /\ pending_bytes w' = pending_bytes w /\
    sequence w' = sequence w /\ ckpt_seq w' = ckpt_seq w /\ appends w' = appends w.
  Proof.
    unfold maybe_write_sentinel. destruct (wsize w =? 0); [repeat split|].
    destruct (wsize w <=? pending_bytes w); [repeat split|].
    destruct (write_zero_header w (write_head w)). repeat split.
  Qed.

  (* re-establishing the invariant after any step that keeps the physical records and
     only rewrites the sentinel *)
  Lemma inv_after_sentinel w h recs w1 h1 :
    InvH w h recs ->
    region w1 = region w -> wsize w1 = wsize w -> write_head w1 = write_head w ->
    sequence w1 = sequence w -> ckpt_seq w <= ckpt_seq w1 -> ckpt_seq w1 <= sequence w ->
    (recs = [] -> sequence w = ckpt_seq w1) ->
    h_seq h1 = ckpt_seq w1 ->
    pending_bytes w1 = pending_sum (ckpt_seq w1) recs ->
    InvH (maybe_write_sentinel w1) h1 recs.
  Proof.
    intros [Hlen Hpos (tail & Hreg0 & Hstop) Hhead Hok Hle Hlast Hnil Hck Hhdr Hpb] Er Es Eh Eq Ec1 Ec2 En Ehd Epb.
    assert (Hshape : Shape H w1 recs).
    { unfold Shape. rewrite Er, Es, Eh. repeat split; try assumption. exists tail. assumption. }
    assert (Hpble : pending_bytes w1 <= total recs) by (rewrite Epb; apply pending_sum_le).
    pose proof (sentinel_shape H H32 w1 recs Hshape Hpble) as HS. cbn zeta in HS.
    destruct HS as (L1 & L2 & E1 & E2 & E3 & E4 & E5 & E6 & E7).
    constructor.
    - exact L1.
    - rewrite E1, Es. exact Hpos.
    - exact L2.
    - rewrite E2, Eh. exact Hhead.
    - exact Hok.
    - rewrite E5, Eq. exact Hle.
    - rewrite E5, Eq. exact Hlast.
    - intros Hn. rewrite E5, E6, Eq. apply En. exact Hn.
    - rewrite E5, E6, Eq. exact Ec2.
    - rewrite E6. exact Ehd.
    - rewrite E4, E6. exact Epb.
  Qed.

  Lemma checkpoint_refines w h recs a :
    R H w h recs a ->
    let '(w', h') := record_checkpoint w in
    exists a', spec_step (wsize w) a WCheckpoint (OSeq (Ok (h_seq h'))) a' /\ R H w' h' recs a' /\
               sequence w' = sequence w /\ wsize w' = wsize w.
  Proof.
    intros (HI & Hap & Has & Hac). unfold record_checkpoint.
    set (w1 := mkWal (region w) (wsize w) (write_head w) (write_head w) 0 (sequence w) (sequence w) 0).
    pose proof HI as [Hlen Hpos Hreg Hhead Hok Hle Hlast Hnil Hck Hhdr Hpb].
    destruct (pending_all_le (sequence w) recs Hle) as [Pn Ps].
    assert (HI' : InvH (maybe_write_sentinel w1) (mkHdr (write_head w) (sequence w)) recs).
    { apply (inv_after_sentinel w h recs w1); try reflexivity; try assumption; cbn [w1 ckpt_seq pending_bytes sequence]; try lia. }
    pose proof (mws_fields w1) as (F1 & F2 & F3 & F4 & F5 & F6). cbn zeta in *.
    exists (mkA [] (a_seq a) (a_seq a)). cbn [h_seq].
    split; [rewrite <- Has; apply SCheckpoint|].
    split; [|split; [rewrite F4; reflexivity | rewrite F1; reflexivity]].
    split; [exact HI'|]. cbn [a_pending a_seq a_ck]. rewrite F4, F5. cbn [w1 sequence ckpt_seq].
    rewrite Pn. auto.
  Qed.

  Lemma records_after_refines w h recs a n :
    R H w h recs a ->
    let '(w', o) := records_after H w n in
    o = Ok (filter (fun e => n <? r_seq e) recs) /\ R H w' h recs a /\ sequence w' = sequence w /\ wsize w' = wsize w.
  Proof.
    intros (HI & Hap & Has & Hac). unfold records_after.
    rewrite (inv_scan H H32 w h recs HI).
    pose proof HI as [Hlen Hpos (tail & Hreg & Hstop) Hhead Hok Hle Hlast Hnil Hck Hhdr Hpb].
    assert (Hts : total recs <= wsize w).
    { rewrite <- Hlen, Hreg, app_length, <- (images_length H H32). lia. }
    set (w1 := mkWal _ _ _ _ _ _ _ _).
    assert (HI' : InvH (maybe_write_sentinel w1) h recs).
    { apply (inv_after_sentinel w h recs w1); try reflexivity; try assumption; cbn [w1 ckpt_seq pending_bytes sequence write_head]; try lia. }
    pose proof (mws_fields w1) as (F1 & F2 & F3 & F4 & F5 & F6). cbn zeta in *.
    split; [reflexivity|]. split; [|split; [rewrite F4; exact Hlast | rewrite F1; reflexivity]].
    split; [exact HI'|]. rewrite F4, F5. cbn [w1 sequence ckpt_seq]. rewrite Hlast. auto.
  Qed.

  Lemma reopen_refines w h recs a :
    R H w h recs a ->
    exists w', open_wal H (region w) (wsize w) h = Ok w' /\ R H w' h recs a /\ sequence w' = sequence w /\ wsize w' = wsize w.
  Proof.
    intros (HI & Hap & Has & Hac). unfold open_wal.
    pose proof HI as [Hlen Hpos (tail & Hreg & Hstop) Hhead Hok Hle Hlast Hnil Hck Hhdr Hpb].
    replace (wsize w =? 0) with false by lia.
    rewrite (inv_scan H H32 w h recs HI).
    assert (Hts : total recs <= wsize w).
    { rewrite <- Hlen, Hreg, app_length, <- (images_length H H32). lia. }
    set (w1 := mkWal _ _ _ _ _ _ _ _).
    assert (Hsq : last_seq recs (h_seq h) = sequence w).
    { destruct recs as [|r recs']; [cbn; rewrite Hhdr; symmetry; apply Hnil; reflexivity|].
      rewrite <- Hlast. unfold last_seq. cbn [map]. apply last_cons_indep. }
    eexists. split; [reflexivity|].
    assert (HI' : InvH (maybe_write_sentinel w1) h recs).
    { apply (inv_after_sentinel w h recs w1); try reflexivity; try assumption; cbn [w1 ckpt_seq pending_bytes sequence write_head]; try lia;
        try (rewrite Hhdr; first [reflexivity | exact Hnil]). }
    pose proof (mws_fields w1) as (F1 & F2 & F3 & F4 & F5 & F6). cbn zeta in *.
    split; [|split; [rewrite F4; exact Hsq | rewrite F1; reflexivity]].
    split; [exact HI'|]. rewrite F4, F5. cbn [w1 sequence ckpt_seq]. rewrite Hsq, Hhdr. auto.
  Qed.
End WalRefine2.

Section WalRun.
  Variable H : bytes -> bytes.
  Hypothesis H32 : forall p, length (H p) = 32%nat.

  Lemma filter_comm {A} (f g : A -> bool) l : filter f (filter g l) = filter g (filter f l).
  Proof.
    induction l as [|x l IH]; [reflexivity|]. cbn [filter].
    destruct (g x) eqn:Eg, (f x) eqn:Ef; cbn [filter]; rewrite ?Eg, ?Ef, IH; reflexivity.
  Qed.

  Lemma wstep_refines thr period w h recs a op :
    R H w h recs a -> sequence w + 1 < 2 ^ 64 ->
    exists recs' a' w' h' o,
      wstep H thr period (w, h) op = ((w', h'), o) /\
      spec_step (wsize w) a op o a' /\ R H w' h' recs' a' /\ sequence w' <= sequence w + 1 /\ wsize w' = wsize w.
  Proof.
    intros HR Hseq. destruct op as [len fill| | | |n| |]; cbn [wstep].
    - pose proof (append_refines H H32 w h recs a len fill HR Hseq) as HA.
      destruct (append_entry H w (payload_of len fill)) as [w' o].
      destruct HA as (recs' & a' & S1 & S2 & S3 & S4). exists recs', a', w', h, (OSeq o). auto.
    - pose proof (checkpoint_refines H H32 w h recs a HR) as HA.
      destruct (record_checkpoint w) as [w' h'].
      destruct HA as (a' & S1 & S2 & S3 & S4). exists recs, a', w', h', (OSeq (Ok (h_seq h'))).
      split; [reflexivity|]. split; [exact S1|]. split; [exact S2|]. split; [lia|exact S4].
    - exists recs, a, w, h, (OStats (pending_bytes w) (sequence w)).
      destruct HR as (HI & Hap & Has & Hac). pose proof HI as [? ? ? ? ? ? ? ? ? ? Hpb].
      split; [reflexivity|]. split.
      + rewrite Hpb, pending_sum_filter, <- Hap, <- Has. apply SStats.
      + split; [repeat split; assumption|]. split; [lia|reflexivity].
    - unfold pending_records.
      pose proof (records_after_refines H H32 w h recs a (ckpt_seq w) HR) as HA.
      destruct (records_after H w (ckpt_seq w)) as [w' o]. destruct HA as (S1 & S2 & S3 & S4).
      exists recs, a, w', h, (ORecs o). split; [reflexivity|]. split.
      + subst o. destruct HR as (HI & Hap & Has & Hac). fold (pending_of (ckpt_seq w) recs). rewrite <- Hap. apply SPending.
      + split; [assumption|]. split; [lia|assumption].
    - pose proof (records_after_refines H H32 w h recs a n HR) as HA.
      destruct (records_after H w n) as [w' o]. destruct HA as (S1 & S2 & S3 & S4).
      exists recs, a, w', h, (ORecs o). split; [reflexivity|]. split.
      + subst o. destruct HR as (HI & Hap & Has & Hac). apply SRecordsAfter.
        * apply Forall_forall. intros r Hr. apply filter_In in Hr as [_ Hr]. lia.
        * rewrite Hap, Hac. unfold pending_of. apply filter_comm.
      + split; [assumption|]. split; [lia|assumption].
    - destruct (reopen_refines H H32 w h recs a HR) as (w' & Eo & S2 & S3 & S4).
      rewrite Eo. exists recs, a, w', h, (OOpen (Ok 0)). split; [reflexivity|]. split; [apply SReopen|].
      split; [assumption|]. split; [lia|assumption].
    - exists recs, a, w, h, (OBool (should_checkpoint thr period w)). split; [reflexivity|]. split; [apply SShould|].
      split; [assumption|]. split; [lia|reflexivity].
  Qed.

  Theorem wrun_refines thr period : forall ops w h recs a,
    R H w h recs a -> sequence w + N.of_nat (length ops) < 2 ^ 64 ->
    spec_run (wsize w) a ops (wrun H thr period (w, h) ops).
  Proof.
    induction ops as [|op ops IH]; intros w h recs a HR Hb; [constructor|].
    cbn [wrun].
    destruct (wstep_refines thr period w h recs a op HR) as (recs' & a' & w' & h' & o & Est & Ssp & HR' & Hs & Hw).
    { cbn [length] in Hb. lia. }
    rewrite Est. econstructor; [exact Ssp|]. rewrite <- Hw. apply (IH w' h' recs' a' HR'). cbn [length] in Hb. lia.
  Qed.

  (* a fresh (all-zero) region of any positive size opens, with nothing pending *)
  Lemma fresh_open size :
    0 < size ->
    exists w0, open_wal H (zeros (N.to_nat size)) size (mkHdr 0 0) = Ok w0 /\
               R H w0 (mkHdr 0 0) [] (mkA [] 0 0) /\ sequence w0 = 0 /\ wsize w0 = size.
  Proof.
    intros Hpos. unfold open_wal. replace (size =? 0) with false by lia.
    assert (Hstop : stops (zeros (N.to_nat size)) 0 size).
    { destruct (N.lt_ge_cases size 48) as [Hl|Hg]; [left; unfold EH; lia|].
      right. apply firstn_zeros. lia. }
    unfold scan_records.
    pose proof (scan_images H H32 [] (S (length (zeros (N.to_nat size)))) (zeros (N.to_nat size)) 0 size (Forall_nil _)) as HS.
    change (images H [] ++ zeros (N.to_nat size)) with (zeros (N.to_nat size)) in HS.
    change (total []) with 0 in HS. rewrite N.add_0_r in HS.
    rewrite HS; [|cbn; lia|lia|exact Hstop].
    set (w1 := mkWal _ _ _ _ _ _ _ _).
    assert (HI1 : Inv H w1 (mkHdr 0 0) []).
    { constructor; cbn [w1 region wsize write_head pending_bytes sequence ckpt_seq h_seq]; try reflexivity; try lia; try constructor.
      - rewrite zeros_length. lia.
      - exists (zeros (N.to_nat size)). split; [reflexivity|]. replace (N.min 0 size) with 0 by lia. exact Hstop.
      - change (total []) with 0. lia. }
    assert (HI' : Inv H (maybe_write_sentinel w1) (mkHdr 0 0) []).
    { apply (inv_after_sentinel H H32 w1 (mkHdr 0 0) [] w1); try reflexivity; try assumption; cbn [w1 ckpt_seq sequence]; lia. }
    pose proof (mws_fields w1) as (F1 & F2 & F3 & F4 & F5 & F6). cbn zeta in *.
    eexists. split; [reflexivity|]. split; [|split; [rewrite F4; reflexivity | rewrite F1; reflexivity]].
    split; [exact HI'|]. rewrite F4, F5. cbn [w1 sequence ckpt_seq a_pending a_seq a_ck]. auto.
  Qed.

  Theorem log_refines_spec thr period size ops :
    0 < size -> N.of_nat (length ops) < 2 ^ 64 ->
    exists w0, open_wal H (zeros (N.to_nat size)) size (mkHdr 0 0) = Ok w0 /\
               spec_run size (mkA [] 0 0) ops (wrun H thr period (w0, mkHdr 0 0) ops).
  Proof.
    intros Hpos Hb. destruct (fresh_open size Hpos) as (w0 & Eo & HR & Hs & Hw).
    exists w0. split; [exact Eo|]. rewrite <- Hw. apply (wrun_refines thr period ops w0 (mkHdr 0 0) [] _ HR). rewrite Hs. lia.
  Qed.
End WalRun.
