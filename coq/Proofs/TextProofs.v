(* Proofs about Model/Text.v (normalize_text, truncate_at_grapheme_boundary).
   Everything is for ALL strings / limits; the Unicode tables are Section variables and each
   lemma depends only on the hypotheses it uses. *)
From MV Require Import Base.Prelude Base.Facts Model.Text.
Require Import ZifyBool ZifyNat ZifyN.
Local Open Scope N_scope.

(* ------------------------------------------------------------------ generic list facts *)

Lemma utf8_width_pos c : 1 <= utf8_width c.
Proof. unfold utf8_width. repeat match goal with |- context [if ?b then _ else _] => destruct b end; lia. Qed.

Lemma utf8_width_le4 c : utf8_width c <= 4.
Proof. unfold utf8_width. repeat match goal with |- context [if ?b then _ else _] => destruct b end; lia. Qed.

Lemma byte_len_app a b : byte_len (a ++ b) = byte_len a + byte_len b.
Proof. induction a as [|x a IH]; cbn [byte_len app]; [lia|]. rewrite IH. lia. Qed.

Lemma byte_len_pos s : s <> [] -> 1 <= byte_len s.
Proof. destruct s as [|c r]; [congruence|]. intros _. cbn [byte_len]. pose proof (utf8_width_pos c). lia. Qed.

Lemma byte_len_nil_iff s : byte_len s = 0 <-> s = [].
Proof.
  split; [|intros ->; reflexivity].
  destruct s as [|c r]; [reflexivity|]. intros H. pose proof (byte_len_pos (c :: r)). assert (c :: r <> []) by congruence. lia.
Qed.

(* a and b are consecutive elements of l *)
Definition adjacent {A} (a b : A) (l : list A) : Prop := exists l1 l2, l = l1 ++ a :: b :: l2.

Lemma adjacent_nil {A} (a b : A) : ~ adjacent a b [].
Proof. intros (l1 & l2 & H). destruct l1; discriminate. Qed.

Lemma adjacent_cons {A} (a b c : A) l :
  adjacent a b (c :: l) <-> (c = a /\ exists l2, l = b :: l2) \/ adjacent a b l.
Proof.
  split.
  - intros (l1 & l2 & H). destruct l1 as [|x l1]; cbn [app] in H.
    + inversion H; subst. left. split; [reflexivity|]. eexists; reflexivity.
    + inversion H; subst. right. exists l1, l2. reflexivity.
  - intros [[-> (l2 & ->)] | (l1 & l2 & ->)].
    + exists [], l2. reflexivity.
    + exists (c :: l1), l2. reflexivity.
Qed.

Lemma adjacent_rev {A} (a b : A) l : adjacent a b (rev l) -> adjacent b a l.
Proof.
  intros (l1 & l2 & H). exists (rev l2), (rev l1).
  apply (f_equal (@rev A)) in H. rewrite rev_involutive in H. rewrite H.
  rewrite rev_app_distr. cbn [rev]. rewrite <- !app_assoc. reflexivity.
Qed.

Lemma adjacent_infix {A} (a b : A) p m q : adjacent a b m -> adjacent a b (p ++ m ++ q).
Proof.
  intros (l1 & l2 & ->). exists (p ++ l1), (l2 ++ q). rewrite <- !app_assoc. reflexivity.
Qed.

Lemma adjacent_app_inv {A} (a b : A) l r :
  adjacent a b (l ++ r) ->
  adjacent a b l \/ adjacent a b r \/ (exists l', l = l' ++ [a]) /\ (exists r', r = b :: r').
Proof.
  revert r; induction l as [|x l IH]; intros r H; cbn [app] in H.
  - right; left; exact H.
  - apply adjacent_cons in H. destruct H as [[-> (l2 & E)] | H].
    + destruct l as [|y l]; cbn [app] in E.
      * right; right. split; [exists []; reflexivity | exists l2; exact E].
      * inversion E; subst. left. apply adjacent_cons. left. split; [reflexivity | eexists; reflexivity].
    + destruct (IH _ H) as [H1 | [H1 | [(l' & ->) H2]]].
      * left. apply adjacent_cons. right; exact H1.
      * right; left; exact H1.
      * right; right. split; [exists (x :: l'); reflexivity | exact H2].
Qed.

Lemma last_rev_hd {A} (l : list A) d : last (rev l) d = hd d l.
Proof.
  destruct l as [|x l]; [reflexivity|]. cbn [rev hd]. apply last_last.
Qed.

Lemma last_app_cons {A} (l : list A) x d : last (l ++ [x]) d = x.
Proof. apply last_last. Qed.

Lemma hd_rev_last {A} (l : list A) d : hd d (rev l) = last l d.
Proof. rewrite <- (rev_involutive l) at 2. symmetry. apply last_rev_hd. Qed.

Lemma concat_firstn_all {A} (gs : list (list A)) : concat (firstn (length gs) gs) = concat gs.
Proof. rewrite firstn_all. reflexivity. Qed.

(* ------------------------------------------------------------------ drop_while / trim *)

Lemma drop_while_split p s :
  exists pre, s = pre ++ drop_while p s /\ Forall (fun c => p c = true) pre.
Proof.
  induction s as [|c r IH]; cbn [drop_while].
  - exists []. split; [reflexivity | constructor].
  - destruct (p c) eqn:E.
    + destruct IH as (pre & H1 & H2). exists (c :: pre). split; [cbn [app]; congruence | constructor; assumption].
    + exists []. split; [reflexivity | constructor].
Qed.

Lemma drop_while_hd p s c r : drop_while p s = c :: r -> p c = false.
Proof.
  induction s as [|x s IH]; cbn [drop_while]; [discriminate|].
  destruct (p x) eqn:E; [exact IH|]. intros H; inversion H; subst; exact E.
Qed.

Lemma drop_while_id p s : (forall c r, s = c :: r -> p c = false) -> drop_while p s = s.
Proof.
  destruct s as [|c r]; [reflexivity|]. intros H. cbn [drop_while]. rewrite (H c r eq_refl). reflexivity.
Qed.

(* ------------------------------------------------------------------ the two truncation loops *)

  Lemma take_graphemes_spec limit : forall gs c out tr,
    take_graphemes limit c gs = (out, tr) ->
    exists k, (k <= length gs)%nat /\ out = concat (firstn k gs) /\
              (k <> 0%nat -> c + byte_len out <= limit) /\
              (tr = false -> k = length gs) /\
              (tr = true -> exists g, nth_error gs k = Some g /\ limit < c + byte_len out + byte_len g).
  Proof.
    induction gs as [|g r IH]; intros c out tr H; cbn [take_graphemes] in H.
    - inversion H; subst. exists 0%nat. cbn. repeat split; try lia; try discriminate; congruence.
    - destruct (N.ltb_spec limit (c + byte_len g)) as [Hlt|Hge].
      + inversion H; subst. exists 0%nat. cbn [firstn concat length nth_error byte_len].
        repeat split; try lia; try discriminate; try congruence.
        intros _. exists g. split; [reflexivity | lia].
      + destruct (take_graphemes limit (c + byte_len g) r) as [o t] eqn:E. inversion H; subst.
        destruct (IH _ _ _ E) as (k & Hk & Ho & Hb & Hf & Ht).
        exists (S k). cbn [firstn concat length nth_error]. rewrite byte_len_app.
        split; [lia|]. split; [congruence|]. split; [|split].
        * intros _. destruct k as [|k']; [cbn in Ho; subst o; cbn [byte_len]; lia|].
          assert (S k' <> 0%nat) by lia. specialize (Hb H0). lia.
        * intros Hfalse. rewrite (Hf Hfalse). reflexivity.
        * intros Htrue. destruct (Ht Htrue) as (g' & Hn & Hl). exists g'. split; [exact Hn | lia].
  Qed.

  (* everything fits: nothing is cut *)
  Lemma take_graphemes_all limit : forall gs c,
    c + byte_len (concat gs) <= limit -> take_graphemes limit c gs = (concat gs, false).
  Proof.
    induction gs as [|g r IH]; intros c H; cbn [take_graphemes concat]; [reflexivity|].
    cbn [concat] in H. rewrite byte_len_app in H.
    destruct (N.ltb_spec limit (c + byte_len g)) as [Hlt|Hge]; [lia|].
    rewrite IH by lia. reflexivity.
  Qed.

  Lemma trunc_loop_spec limit : forall gs i,
    exists k, (k <= length gs)%nat /\
      trunc_loop limit i i gs = i + byte_len (concat (firstn k gs)) /\
      (k <> 0%nat -> i + byte_len (concat (firstn k gs)) <= limit) /\
      (k = length gs \/ exists g, nth_error gs k = Some g /\ limit < i + byte_len (concat (firstn k gs)) + byte_len g).
  Proof.
    induction gs as [|g r IH]; intros i; cbn [trunc_loop].
    - exists 0%nat. cbn [firstn concat byte_len length]. split; [lia|]. split; [lia|]. split; [congruence|]. left; reflexivity.
    - destruct (N.ltb_spec limit (i + byte_len g)) as [Hlt|Hge].
      + exists 0%nat. cbn [firstn concat byte_len length nth_error]. split; [lia|]. split; [lia|]. split; [congruence|].
        right. exists g. split; [reflexivity | lia].
      + destruct (IH (i + byte_len g)) as (k & Hk & He & Hb & Hm).
        exists (S k). cbn [firstn concat length nth_error]. rewrite byte_len_app.
        split; [lia|]. split; [rewrite He; lia|]. split.
        * intros _. destruct k as [|k']; [cbn [firstn concat byte_len]; lia|].
          assert (Hnz : S k' <> 0%nat) by lia. specialize (Hb Hnz). lia.
        * destruct Hm as [->|(g' & Hn & Hl)]; [left; reflexivity|]. right. exists g'. split; [exact Hn | lia].
  Qed.

  Lemma firstn_S_nth {A} (gs : list A) k g :
    nth_error gs k = Some g -> firstn (S k) gs = firstn k gs ++ [g].
  Proof.
    revert gs. induction k as [|k IH]; intros [|x gs] Hn; cbn [nth_error] in Hn; try discriminate.
    - inversion Hn; subst. destruct gs; reflexivity.
    - cbn [firstn app]. f_equal. apply IH. exact Hn.
  Qed.

  Lemma byte_len_firstn_le (gs : list (list cp)) k :
    byte_len (concat (firstn k gs)) <= byte_len (concat gs).
  Proof. rewrite <- (firstn_skipn k gs) at 2. rewrite concat_app, byte_len_app. lia. Qed.

(* the loop of normalize_text and the loop of truncate_at_grapheme_boundary cut at the same place *)
Lemma take_graphemes_trunc_loop limit : forall gs c o t,
  take_graphemes limit c gs = (o, t) -> trunc_loop limit c c gs = c + byte_len o.
Proof.
  induction gs as [|g r IH]; intros c o t H; cbn [take_graphemes trunc_loop] in *.
  - inversion H; subst. cbn [byte_len]. lia.
  - destruct (limit <? c + byte_len g).
    + inversion H; subst. cbn [byte_len]. lia.
    + destruct (take_graphemes limit (c + byte_len g) r) as [o' t'] eqn:E. inversion H; subst.
      rewrite (IH _ _ _ E), byte_len_app. lia.
Qed.

Section Proofs.
  Variable nfkc : list cp -> list cp.
  Variable is_control : cp -> bool.
  Variable is_whitespace : cp -> bool.
  Variable graphemes : list cp -> list (list cp).

  Notation clean_step := (clean_step is_control is_whitespace).
  Notation clean_loop := (clean_loop is_control is_whitespace).
  Notation clean := (clean is_control is_whitespace).
  Notation removed := (removed is_control).
  Notation trim_ws := (trim_ws is_whitespace).
  Notation trimmed_of := (trimmed_of nfkc is_control is_whitespace).
  Notation normalize_text := (normalize_text nfkc is_control is_whitespace graphemes).
  Notation truncate_at_grapheme_boundary := (truncate_at_grapheme_boundary graphemes).
  Notation ws := is_whitespace.

  (* the facts about ' ' and '\n' the code relies on *)
  Hypothesis W_sp : is_whitespace SP = true.
  Hypothesis W_nl : is_whitespace NL = true.
  Hypothesis C_sp : is_control SP = false.
  (* grapheme segmentation is a partition into non-empty pieces *)
  Hypothesis G_concat : forall s, concat (graphemes s) = s.
  Hypothesis G_nonempty : forall s, Forall (fun g => g <> []) (graphemes s).

  (* trim_ws s is an infix of s between two all-whitespace pieces, and its ends are not whitespace *)
  Lemma trim_ws_split s :
    exists pre post, s = pre ++ trim_ws s ++ post /\
                     Forall (fun c => ws c = true) pre /\ Forall (fun c => ws c = true) post.
  Proof. clear W_sp W_nl C_sp G_concat G_nonempty.
    unfold Text.trim_ws.
    destruct (drop_while_split ws s) as (pre & H1 & Hpre).
    destruct (drop_while_split ws (rev (drop_while ws s))) as (post & H2 & Hpost).
    exists pre, (rev post). split; [|split; [exact Hpre|]].
    - rewrite H1 at 1. f_equal.
      apply (f_equal (@rev cp)) in H2. rewrite rev_involutive, rev_app_distr in H2. exact H2.
    - apply Forall_rev. exact Hpost.
  Qed.

  Lemma trim_ws_hd s c r : trim_ws s = c :: r -> ws c = false.
  Proof. clear W_sp W_nl C_sp G_concat G_nonempty.
    unfold Text.trim_ws. intros H.
    destruct (drop_while_split ws (rev (drop_while ws s))) as (post & H2 & _).
    set (d := drop_while ws s) in *. set (e := drop_while ws (rev d)) in *.
    (* d = rev e ++ rev post, and rev e = c :: r *)
    apply (f_equal (@rev cp)) in H2. rewrite rev_involutive, rev_app_distr in H2.
    rewrite H in H2. cbn [app] in H2.
    apply (drop_while_hd ws s c (r ++ rev post)). exact H2.
  Qed.

  Lemma trim_ws_last s : trim_ws s <> [] -> ws (last (trim_ws s) 0) = false.
  Proof. clear W_sp W_nl C_sp G_concat G_nonempty.
    unfold Text.trim_ws. set (e := drop_while ws (rev (drop_while ws s))). intros Hne.
    rewrite last_rev_hd. destruct e as [|c r] eqn:E; [exfalso; apply Hne; reflexivity|].
    cbn [hd]. eapply drop_while_hd. exact E.
  Qed.

  Lemma trim_ws_id s :
    (forall c r, s = c :: r -> ws c = false) -> (s <> [] -> ws (last s 0) = false) -> trim_ws s = s.
  Proof. clear W_sp W_nl C_sp G_concat G_nonempty.
    intros Hh Hl. unfold Text.trim_ws. rewrite (drop_while_id ws s Hh).
    rewrite drop_while_id; [apply rev_involutive|].
    intros c r E. assert (Hs : s <> []) by (intros ->; discriminate).
    specialize (Hl Hs). rewrite <- hd_rev_last, E in Hl. exact Hl.
  Qed.

  (* ---------------------------------------------------------------- the cleaning loop *)

  (* what every character of `cleaned` satisfies *)
  Definition okc (c : cp) : Prop :=
    (is_control c = false \/ c = NL) /\ c <> CR /\ c <> TAB /\ (ws c = true -> c = SP \/ c = NL).

  Definition no_ws_pair (l : list cp) : Prop :=
    forall a b, adjacent a b l -> ~ (ws a = true /\ ws b = true).

  Definition cinv (st : cstate) : Prop :=
    let '(rc, lws, lwn) := st in
    Forall okc rc /\ no_ws_pair rc /\ lws = ends_with rc SP /\ lwn = ends_with rc NL.

  Lemma map_ch_not_cr c : map_ch c <> CR.
  Proof. clear W_sp W_nl C_sp G_concat G_nonempty.
    unfold map_ch. destruct (N.eqb_spec c CR) as [->|Hc].
    - vm_compute. discriminate.
    - destruct (N.eqb_spec c TAB) as [_|_]; [vm_compute; discriminate | exact Hc].
  Qed.

  Lemma map_ch_not_tab c : map_ch c <> TAB.
  Proof. clear W_sp W_nl C_sp G_concat G_nonempty.
    unfold map_ch. destruct (N.eqb_spec c CR) as [->|Hc].
    - vm_compute. discriminate.
    - destruct (N.eqb_spec c TAB) as [_|Ht]; [vm_compute; discriminate | exact Ht].
  Qed.

  Lemma pop_spaces_suffix rc : exists k, rc = repeat SP k ++ pop_spaces rc.
  Proof. clear W_sp W_nl C_sp G_concat G_nonempty.
    induction rc as [|c r IH]; cbn [pop_spaces].
    - exists 0%nat. reflexivity.
    - destruct (N.eqb_spec c SP) as [->|_].
      + destruct IH as (k & IH). exists (S k). cbn [repeat app]. congruence.
      + exists 0%nat. reflexivity.
  Qed.

  Lemma pop_spaces_hd rc c r : pop_spaces rc = c :: r -> c <> SP.
  Proof. clear W_sp W_nl C_sp G_concat G_nonempty.
    induction rc as [|x rc IH]; cbn [pop_spaces]; [discriminate|].
    destruct (N.eqb_spec x SP) as [_|Hx]; [exact IH|]. intros H; inversion H; subst; exact Hx.
  Qed.

  Lemma no_ws_pair_suffix p l : no_ws_pair (p ++ l) -> no_ws_pair l.
  Proof. clear W_sp W_nl C_sp G_concat G_nonempty.
    intros H a b Hab. apply (H a b). rewrite <- (app_nil_r l). apply adjacent_infix. exact Hab.
  Qed.

  Lemma Forall_suffix {A} (P : A -> Prop) p l : Forall P (p ++ l) -> Forall P l.
  Proof. clear W_sp W_nl C_sp G_concat G_nonempty. intros H. apply Forall_app in H. destruct H as [Ha Hb]; assumption. Qed.

  Lemma no_ws_pair_cons c l :
    no_ws_pair l -> (forall x r, l = x :: r -> ~ (ws c = true /\ ws x = true)) -> no_ws_pair (c :: l).
  Proof. clear W_sp W_nl C_sp G_concat G_nonempty.
    intros Hl Hc a b Hab. apply adjacent_cons in Hab. destruct Hab as [[<- (l2 & ->)] | Hab].
    - apply (Hc b l2 eq_refl).
    - apply Hl; exact Hab.
  Qed.

  (* with the space before it popped, what precedes a pushed newline is not whitespace *)
  Lemma pop_spaces_top_not_ws rc x r :
    Forall okc rc -> no_ws_pair rc -> ends_with rc NL = false ->
    pop_spaces rc = x :: r -> ws x = false.
  Proof using W_sp. clear W_nl C_sp G_concat G_nonempty.
    intros Hok Hadj Hnl Hp.
    destruct rc as [|c rc']; [discriminate|]. cbn [pop_spaces] in Hp. cbn [ends_with] in Hnl.
    destruct (N.eqb_spec c SP) as [->|Hc].
    - (* one space popped; the next one is not whitespace, so popping stops there *)
      destruct rc' as [|d rc'']; [discriminate|].
      assert (Hd : ws d = false).
      { destruct (ws d) eqn:E; [|reflexivity]. exfalso.
        apply (Hadj SP d); [exists [], rc''; reflexivity | split; [exact W_sp | exact E]]. }
      cbn [pop_spaces] in Hp. destruct (N.eqb_spec d SP) as [->|_]; [congruence|].
      inversion Hp; subst; exact Hd.
    - inversion Hp; subst. destruct (ws x) eqn:E; [|reflexivity]. exfalso.
      inversion Hok as [|? ? Hx _]; subst. destruct Hx as (_ & _ & _ & Hx).
      destruct (Hx E) as [->| ->]; [congruence|]. apply N.eqb_neq in Hnl. congruence.
  Qed.

  Lemma clean_step_inv st c : cinv st -> cinv (clean_step st c).
  Proof using W_sp C_sp. clear W_nl G_concat G_nonempty.
    destruct st as [[rc lws] lwn]. intros (Hok & Hadj & Hlws & Hlwn).
    unfold Text.clean_step. set (ch := map_ch c).
    destruct (removed ch) eqn:Hrem; [repeat split; assumption|].
    destruct (N.eqb_spec ch NL) as [Hnl|Hnl].
    - destruct lwn eqn:El; [repeat split; assumption|].
      destruct (pop_spaces_suffix rc) as (k & Hk).
      assert (Hok' : Forall okc (pop_spaces rc)) by (rewrite Hk in Hok; eapply Forall_suffix; exact Hok).
      assert (Hadj' : no_ws_pair (pop_spaces rc)) by (rewrite Hk in Hadj; eapply no_ws_pair_suffix; exact Hadj).
      cbn [cinv]. split; [|split; [|split; reflexivity]].
      + constructor; [|exact Hok']. unfold okc. repeat split; try (vm_compute; discriminate); auto.
      + apply no_ws_pair_cons; [exact Hadj'|]. intros x r E [_ Hx].
        rewrite (pop_spaces_top_not_ws rc x r Hok Hadj (eq_sym Hlwn) E) in Hx. discriminate.
    - destruct (ws ch) eqn:Hws.
      + destruct (lws || ends_with rc NL) eqn:Eo; [repeat split; assumption|].
        apply orb_false_iff in Eo. destruct Eo as [El En]. subst lws.
        cbn [cinv]. split; [|split; [|split; reflexivity]].
        * constructor; [|exact Hok]. unfold okc. repeat split; try (vm_compute; discriminate); auto.
        * apply no_ws_pair_cons; [exact Hadj|]. intros x r -> [_ Hx].
          inversion Hok as [|? ? Hx' _]; subst. destruct Hx' as (_ & _ & _ & Hx').
          cbn [ends_with] in El, En. apply N.eqb_neq in El, En. destruct (Hx' Hx); congruence.
      + cbn [cinv]. split; [|split; [|split]].
        * constructor; [|exact Hok]. unfold okc. split; [|split; [|split]].
          -- unfold Text.removed in Hrem. apply andb_false_iff in Hrem. destruct Hrem as [Hc|Hc]; [left; exact Hc|].
             apply negb_false_iff, N.eqb_eq in Hc. right; exact Hc.
          -- apply map_ch_not_cr.
          -- apply map_ch_not_tab.
          -- rewrite Hws. discriminate.
        * apply no_ws_pair_cons; [exact Hadj|]. intros x r _ [Hc _]. rewrite Hws in Hc. discriminate.
        * cbn [ends_with]. symmetry. apply N.eqb_neq. intros E. rewrite E, W_sp in Hws. discriminate.
        * cbn [ends_with]. symmetry. apply N.eqb_neq. exact Hnl.
  Qed.

  Lemma clean_loop_inv s : forall st, cinv st -> cinv (clean_loop st s).
  Proof using W_sp C_sp. clear W_nl G_concat G_nonempty.
    induction s as [|c r IH]; intros st H; cbn [Text.clean_loop]; [exact H|].
    apply IH, clean_step_inv, H.
  Qed.

  Lemma cinv_init : cinv ([], false, false).
  Proof. clear W_sp W_nl C_sp G_concat G_nonempty.
    cbn [cinv]. repeat split; try constructor. intros a b H. exfalso. eapply adjacent_nil; exact H.
  Qed.

  (* `cleaned`: every char is acceptable, no two whitespace chars in a row *)
  Lemma clean_shape s : Forall okc (clean s) /\ no_ws_pair (clean s).
  Proof using W_sp C_sp. clear W_nl G_concat G_nonempty.
    unfold Text.clean. pose proof (clean_loop_inv s _ cinv_init) as H.
    destruct (clean_loop ([], false, false) s) as [[rc lws] lwn]. destruct H as (Hok & Hadj & _).
    split; [apply Forall_rev; exact Hok|].
    intros a b Hab [Ha Hb]. apply adjacent_rev in Hab. apply (Hadj b a Hab). split; assumption.
  Qed.

  Lemma trimmed_shape input :
    Forall okc (trimmed_of input) /\ no_ws_pair (trimmed_of input).
  Proof using W_sp C_sp. clear W_nl G_concat G_nonempty.
    unfold Text.trimmed_of. destruct (clean_shape (nfkc input)) as [Hok Hadj].
    destruct (trim_ws_split (clean (nfkc input))) as (pre & post & E & _).
    split.
    - rewrite E in Hok. apply Forall_app in Hok. destruct Hok as [_ Hok]. apply Forall_app in Hok. destruct Hok as [Hok _]. exact Hok.
    - intros a b Hab. apply (Hadj a b). rewrite E. apply adjacent_infix. exact Hab.
  Qed.

  (* ---------------------------------------------------------------- truncation loop *)

  (* ---------------------------------------------------------------- normalize_text, unfolded *)

  (* the output is a non-empty prefix of whole graphemes of the trimmed text *)
  Lemma normalize_text_spec input limit out tr :
    normalize_text input limit = Some (out, tr) ->
    let t := trimmed_of input in
    let gs := graphemes t in
    t <> [] /\
    exists k, (1 <= k <= length gs)%nat /\ out = concat (firstn k gs) /\
              (byte_len out <= N.max limit 1 \/ (k = 1%nat /\ tr = true)) /\
              (tr = false -> k = length gs /\ byte_len out <= N.max limit 1) /\
              (tr = true -> N.max limit 1 < byte_len (concat (firstn (S k) gs)) \/ (k = 1%nat /\ N.max limit 1 < byte_len out)).
  Proof using G_concat G_nonempty. clear W_sp W_nl C_sp.
    intros H t gs. unfold Text.normalize_text in H. fold (trimmed_of input) in H.
    change (trimmed_of input) with t in H. change (graphemes t) with gs in H.
    pose proof (G_concat t) as Hc. change (graphemes t) with gs in Hc.
    pose proof (G_nonempty t) as Hne. change (graphemes t) with gs in Hne.
    clearbody gs. clearbody t.
    assert (Ht : t <> []) by (destruct t; [discriminate | congruence]).
    split; [exact Ht|].
    destruct t as [|t0 t']; [congruence|].
    assert (Hgs : gs <> []) by (intros E; rewrite E in Hc; cbn in Hc; congruence).
    destruct (take_graphemes (N.max limit 1) 0 gs) as [o tr0] eqn:E.
    destruct (take_graphemes_spec _ _ _ _ _ E) as (k & Hk & Ho & Hb & Hf & Htr).
    destruct o as [|o0 o'].
    - (* nothing fitted: fallback to the first grapheme *)
      destruct gs as [|g r] eqn:Eg; [congruence|]. inversion H; subst out tr. clear H.
      assert (Hg : g <> []) by (inversion Hne; assumption).
      assert (Hk0 : k = 0%nat).
      { destruct k as [|k']; [reflexivity|]. exfalso. cbn [firstn concat] in Ho.
        destruct g; [congruence | discriminate]. }
      subst k.
      assert (Htrue : tr0 = true).
      { destruct tr0; [reflexivity|]. specialize (Hf eq_refl). discriminate. }
      destruct (Htr Htrue) as (g' & Hn & Hl). cbn [nth_error] in Hn. inversion Hn; subst g'.
      cbn [byte_len] in Hl.
      exists 1%nat. cbn [firstn concat length]. rewrite app_nil_r.
      split; [lia|]. split; [reflexivity|]. split; [right; split; reflexivity|].
      split; [discriminate|]. intros _. right. split; [reflexivity | lia].
    - inversion H; subst out tr. clear H.
      assert (Hk0 : k <> 0%nat) by (intros ->; cbn in Ho; discriminate).
      specialize (Hb Hk0).
      exists k. split; [lia|]. split; [exact Ho|]. split; [left; lia|]. split.
      + intros Hfalse. split; [apply Hf; exact Hfalse | lia].
      + intros Htrue. left. destruct (Htr Htrue) as (g' & Hn & Hl).
        assert (Hs : firstn (S k) gs = firstn k gs ++ [g']).
        { clear - Hn. revert gs Hn. induction k as [|k IH]; intros [|x gs] Hn; cbn [nth_error] in Hn; try discriminate.
          - inversion Hn; subst. destruct gs; reflexivity.
          - cbn [firstn app]. f_equal. apply IH. exact Hn. }
        rewrite Hs, concat_app, byte_len_app, <- Ho. cbn [concat]. rewrite app_nil_r. lia.
  Qed.

  (* the output is a prefix of the trimmed text *)
  Lemma out_is_prefix input limit out tr :
    normalize_text input limit = Some (out, tr) ->
    exists rest, trimmed_of input = out ++ rest /\ (tr = false -> rest = []).
  Proof using G_concat G_nonempty. clear W_sp W_nl C_sp.
    intros H. destruct (normalize_text_spec _ _ _ _ H) as (_ & k & Hk & Ho & _ & Hf & _).
    exists (concat (skipn k (graphemes (trimmed_of input)))). split.
    - rewrite Ho, <- concat_app, firstn_skipn. symmetry. apply G_concat.
    - intros Hfalse. destruct (Hf Hfalse) as [-> _]. rewrite skipn_all. reflexivity.
  Qed.

  Lemma out_nonempty input limit out tr :
    normalize_text input limit = Some (out, tr) -> out <> [].
  Proof using G_concat G_nonempty. clear W_sp W_nl C_sp.
    intros H. destruct (normalize_text_spec _ _ _ _ H) as (_ & k & Hk & Ho & _).
    pose proof (G_nonempty (trimmed_of input)) as Hne.
    destruct (graphemes (trimmed_of input)) as [|g r]; [cbn in Hk; lia|].
    destruct k as [|k']; [lia|]. cbn [firstn concat] in Ho. inversion Hne; subst.
    destruct g; [congruence|]. discriminate.
  Qed.

  Lemma normalize_none_iff input limit :
    normalize_text input limit = None <-> trimmed_of input = [].
  Proof. clear W_sp W_nl C_sp G_concat G_nonempty.
    unfold Text.normalize_text. fold (trimmed_of input).
    destruct (trimmed_of input) as [|t0 t'] eqn:Et; [split; reflexivity|].
    split; [|discriminate].
    destruct (take_graphemes (N.max limit 1) 0 (graphemes (t0 :: t'))) as [o tr0].
    destruct o; [destruct (graphemes (t0 :: t'))|]; discriminate.
  Qed.

  (* ---------------------------------------------------------------- property clauses *)

  Lemma Forall_prefix {A} (P : A -> Prop) a b : Forall P (a ++ b) -> Forall P a.
  Proof. clear W_sp W_nl C_sp G_concat G_nonempty. intros H. apply Forall_app in H. destruct H as [Ha Hb]; assumption. Qed.

  Lemma out_shape input limit out tr :
    normalize_text input limit = Some (out, tr) -> Forall okc out /\ no_ws_pair out.
  Proof using W_sp C_sp G_concat G_nonempty. clear W_nl.
    intros H. destruct (out_is_prefix _ _ _ _ H) as (rest & E & _).
    destruct (trimmed_shape input) as [Hok Hadj]. rewrite E in Hok, Hadj. split.
    - eapply Forall_prefix; exact Hok.
    - intros a b Hab. apply (Hadj a b). change (out ++ rest) with ([] ++ out ++ rest). apply adjacent_infix. exact Hab.
  Qed.

  (* (1) no control character except newline; no CR, no TAB.  Own (lighter) invariant so that the
         only fact needed about the tables is that ' ' is not a control character. *)
  Definition ctl_ok (c : cp) : Prop := (is_control c = false \/ c = NL) /\ c <> CR /\ c <> TAB.

  Lemma clean_step_ctl st c : Forall ctl_ok (fst (fst st)) -> Forall ctl_ok (fst (fst (clean_step st c))).
  Proof using C_sp. clear W_sp W_nl G_concat G_nonempty.
    destruct st as [[rc lws] lwn]. cbn [fst]. intros Hok. unfold Text.clean_step.
    destruct (removed (map_ch c)) eqn:Hrem; [exact Hok|].
    destruct (N.eqb_spec (map_ch c) NL) as [Hnl|Hnl].
    - destruct lwn; [exact Hok|]. cbn [fst]. constructor.
      + unfold ctl_ok. repeat split; try (vm_compute; discriminate). right; reflexivity.
      + destruct (pop_spaces_suffix rc) as (k & Hk). rewrite Hk in Hok. eapply Forall_suffix; exact Hok.
    - destruct (ws (map_ch c)).
      + destruct (lws || ends_with rc NL); [exact Hok|]. cbn [fst]. constructor; [|exact Hok].
        unfold ctl_ok. repeat split; try (vm_compute; discriminate). left; exact C_sp.
      + cbn [fst]. constructor; [|exact Hok]. unfold ctl_ok. split; [|split; [apply map_ch_not_cr | apply map_ch_not_tab]].
        unfold Text.removed in Hrem. apply andb_false_iff in Hrem. destruct Hrem as [Hc|Hc]; [left; exact Hc|].
        apply negb_false_iff, N.eqb_eq in Hc. right; exact Hc.
  Qed.

  Lemma clean_loop_ctl s : forall st, Forall ctl_ok (fst (fst st)) -> Forall ctl_ok (fst (fst (clean_loop st s))).
  Proof using C_sp. clear W_sp W_nl G_concat G_nonempty.
    induction s as [|c r IH]; intros st H; cbn [Text.clean_loop]; [exact H|]. apply IH, clean_step_ctl, H.
  Qed.

  Lemma no_control input limit out tr :
    normalize_text input limit = Some (out, tr) -> Forall ctl_ok out.
  Proof using C_sp G_concat G_nonempty. clear W_sp W_nl.
    intros H. destruct (out_is_prefix _ _ _ _ H) as (rest & E & _).
    assert (Hc : Forall ctl_ok (clean (nfkc input))).
    { unfold Text.clean. pose proof (clean_loop_ctl (nfkc input) ([], false, false)) as Hl.
      destruct (clean_loop ([], false, false) (nfkc input)) as [[rc lws] lwn]. cbn [fst] in Hl.
      apply Forall_rev, Hl. constructor. }
    unfold Text.trimmed_of in E. destruct (trim_ws_split (clean (nfkc input))) as (pre & post & E2 & _).
    rewrite E2 in Hc. apply Forall_app in Hc. destruct Hc as [_ Hc]. apply Forall_app in Hc. destruct Hc as [Hc _].
    rewrite E in Hc. eapply Forall_prefix; exact Hc.
  Qed.

  (* (2) whitespace: only ' ' and '\n', never two in a row, never first *)
  Lemma whitespace_shape input limit out tr :
    normalize_text input limit = Some (out, tr) ->
    Forall (fun c => ws c = true -> c = SP \/ c = NL) out /\
    (forall a b, adjacent a b out -> ~ (ws a = true /\ ws b = true)) /\
    ws (hd 0 out) = false.
  Proof using W_sp C_sp G_concat G_nonempty. clear W_nl.
    intros H. destruct (out_shape _ _ _ _ H) as [Hok Hadj]. split; [|split; [exact Hadj|]].
    - eapply Forall_impl; [|exact Hok]. intros c (_ & _ & _ & H4). exact H4.
    - destruct (out_is_prefix _ _ _ _ H) as (rest & E & _).
      pose proof (out_nonempty _ _ _ _ H) as Hne. destruct out as [|c r]; [congruence|]. cbn [hd].
      unfold Text.trimmed_of in E. eapply trim_ws_hd. cbn [app] in E. exact E.
  Qed.

  Corollary no_runs input limit out tr :
    normalize_text input limit = Some (out, tr) ->
    ~ adjacent SP SP out /\ ~ adjacent NL NL out /\ ~ adjacent SP NL out /\ ~ adjacent NL SP out.
  Proof using W_sp W_nl C_sp G_concat G_nonempty.
    intros H. destruct (whitespace_shape _ _ _ _ H) as (_ & Hadj & _).
    repeat split; intros Hab; apply (Hadj _ _ Hab); split; assumption.
  Qed.

  (* (3) trailing whitespace: none when untruncated; in general the last char is whitespace
         exactly when the cut fell after a whitespace char of the trimmed text *)
  Lemma untruncated_is_trimmed input limit out :
    normalize_text input limit = Some (out, false) -> out = trimmed_of input.
  Proof using G_concat G_nonempty. clear W_sp W_nl C_sp.
    intros H. destruct (out_is_prefix _ _ _ _ H) as (rest & E & Hr). rewrite (Hr eq_refl), app_nil_r in E. congruence.
  Qed.

  Lemma untruncated_no_trailing_ws input limit out :
    normalize_text input limit = Some (out, false) -> ws (last out 0) = false.
  Proof using G_concat G_nonempty. clear W_sp W_nl C_sp.
    intros H. pose proof (out_nonempty _ _ _ _ H) as Hne.
    rewrite (untruncated_is_trimmed _ _ _ H) in *. unfold Text.trimmed_of in *. apply trim_ws_last. exact Hne.
  Qed.

  Lemma trailing_outside_known input limit out tr :
    normalize_text input limit = Some (out, tr) ->
    known_trailing nfkc is_control is_whitespace graphemes input limit = false ->
    ws (last out 0) = false.
  Proof using G_concat G_nonempty. clear W_sp W_nl C_sp.
    intros H Hk. unfold known_trailing in Hk. rewrite H in Hk.
    destruct tr; [cbn [andb] in Hk; exact Hk|]. eapply untruncated_no_trailing_ws; exact H.
  Qed.

  (* (4) + (5) byte bound with the first-grapheme exception; grapheme boundary; maximality; flag.
     Note: truncated = true does not imply that something was cut: when the whole trimmed text is
     one grapheme longer than the limit the fallback returns all of it with truncated = true. *)
  Lemma length_and_boundary input limit out tr :
    normalize_text input limit = Some (out, tr) ->
    let gs := graphemes (trimmed_of input) in
    exists k, (1 <= k <= length gs)%nat /\ out = concat (firstn k gs) /\
      (byte_len out <= limit \/ k = 1%nat) /\
      (byte_len out <= N.max limit 1 \/ (k = 1%nat /\ tr = true)) /\
      (tr = false -> out = trimmed_of input) /\
      (tr = true -> N.max limit 1 < byte_len (concat (firstn (S k) gs)) \/ (k = 1%nat /\ N.max limit 1 < byte_len out)).
  Proof using G_concat G_nonempty. clear W_sp W_nl C_sp.
    intros H gs. destruct (normalize_text_spec _ _ _ _ H) as (Hne & k & Hk & Ho & Hb & Hf & Ht). fold gs in Hk, Ho, Hf, Ht.
    exists k. split; [exact Hk|]. split; [exact Ho|]. split; [|split; [exact Hb|split; [|exact Ht]]].
    - destruct Hb as [Hb | [-> _]]; [|right; reflexivity].
      destruct (N.eq_dec limit 0) as [->|Hl]; [|left; lia].
      (* limit 0 acts as limit 1: at most one one-byte grapheme fits *)
      right.
      destruct k as [|[|k'']]; [lia | reflexivity | exfalso].
      pose proof (G_nonempty (trimmed_of input)) as Hg. fold gs in Hg.
      destruct gs as [|g1 [|g2 r]]; cbn [length] in Hk; try lia.
      cbn [firstn concat] in Ho. rewrite Ho, !byte_len_app in Hb.
      inversion Hg as [|? ? Hg1 Hg']; subst. inversion Hg' as [|? ? Hg2 _]; subst.
      pose proof (byte_len_pos _ Hg1). pose proof (byte_len_pos _ Hg2). lia.
    - intros ->. eapply untruncated_is_trimmed; exact H.
  Qed.

  (* ---------------------------------------------------------------- truncate_at_grapheme_boundary *)

  Lemma truncate_spec s limit :
    let gs := graphemes s in
    let r := truncate_at_grapheme_boundary s limit in
    (byte_len s <= limit -> r = byte_len s) /\
    exists k, (k <= length gs)%nat /\ (s <> [] -> (1 <= k)%nat) /\
      r = byte_len (concat (firstn k gs)) /\
      s = concat (firstn k gs) ++ concat (skipn k gs) /\
      (r <= limit \/ k = 1%nat) /\
      (k = length gs \/ limit < byte_len (concat (firstn (S k) gs))).
  Proof using G_concat G_nonempty. clear W_sp W_nl C_sp nfkc is_control is_whitespace.
    intros gs r. subst r. unfold Text.truncate_at_grapheme_boundary. fold gs.
    pose proof (G_concat s) as Hc. fold gs in Hc. pose proof (G_nonempty s) as Hne. fold gs in Hne.
    assert (Hsplit : forall k, s = concat (firstn k gs) ++ concat (skipn k gs)).
    { intros k. rewrite <- concat_app, firstn_skipn. symmetry; exact Hc. }
    destruct (N.leb_spec (byte_len s) limit) as [Hle|Hgt].
    - split; [reflexivity|]. exists (length gs).
      split; [lia|]. split; [|split; [|split; [apply (Hsplit (length gs)) |split; [left; exact Hle | left; reflexivity]]]].
      + intros Hs. destruct gs as [|g gs']; [cbn in Hc; congruence | cbn [length]; lia].
      + rewrite firstn_all, Hc. reflexivity.
    - split; [lia|].
      destruct (trunc_loop_spec limit gs 0) as (k & Hk & He & Hb & Hm). rewrite He. rewrite N.add_0_l in *.
      assert (Hgs : gs <> []).
      { intros E. rewrite E in Hc. cbn in Hc. subst s. cbn [byte_len] in Hgt. lia. }
      destruct gs as [|g0 gr] eqn:Eg; [congruence|].
      destruct (N.eqb_spec (byte_len (concat (firstn k (g0 :: gr)))) 0) as [Hz|Hnz].
      + (* nothing fitted: the first grapheme *)
        assert (Hk0 : k = 0%nat).
        { destruct k as [|k']; [reflexivity|]. exfalso. cbn [firstn concat] in Hz. rewrite byte_len_app in Hz.
          inversion Hne; subst. pose proof (byte_len_pos g0). intuition lia. }
        subst k. destruct Hm as [Hm|(g' & Hn & Hl)]; [cbn in Hm; lia|].
        cbn [nth_error] in Hn. inversion Hn; subst g'. cbn [firstn concat byte_len] in Hl.
        exists 1%nat.
        split; [cbn [length]; lia|]. split; [lia|].
        split; [cbn [firstn concat]; rewrite app_nil_r; reflexivity|].
        split; [apply (Hsplit 1%nat)|].
        split; [right; reflexivity|]. right. cbn [firstn concat]. rewrite byte_len_app. lia.
      + assert (Hk0 : k <> 0%nat) by (intros ->; cbn in Hnz; lia).
        exists k. split; [exact Hk|]. split; [lia|]. split; [reflexivity|]. split; [apply Hsplit|].
        split; [left; apply Hb; exact Hk0|].
        destruct Hm as [->|(g' & Hn & Hl)]; [left; reflexivity|]. right.
        rewrite (firstn_S_nth _ _ _ Hn), concat_app, byte_len_app. cbn [concat]. rewrite app_nil_r. lia.
  Qed.

  (* normalize_text cuts exactly where truncate_at_grapheme_boundary says (limit.max(1)) *)
  Lemma truncation_agrees input limit out tr :
    normalize_text input limit = Some (out, tr) ->
    byte_len out = truncate_at_grapheme_boundary (trimmed_of input) (N.max limit 1).
  Proof using G_concat G_nonempty. clear W_sp W_nl C_sp.
    intros H. unfold Text.normalize_text in H. fold (trimmed_of input) in H.
    unfold Text.truncate_at_grapheme_boundary.
    pose proof (G_concat (trimmed_of input)) as Hc.
    destruct (trimmed_of input) as [|t0 t'] eqn:Et; [discriminate|]. rewrite <- Et in *.
    set (gs := graphemes (trimmed_of input)) in *.
    destruct (take_graphemes (N.max limit 1) 0 gs) as [o tr0] eqn:E.
    pose proof (take_graphemes_trunc_loop _ _ _ _ _ E) as Hl. rewrite N.add_0_l in Hl.
    destruct (N.leb_spec (byte_len (trimmed_of input)) (N.max limit 1)) as [Hle|Hgt].
    - rewrite take_graphemes_all in E by (rewrite Hc; lia). inversion E; subst o tr0. rewrite Hc in H.
      rewrite Et in H. inversion H; subst. rewrite Et. reflexivity.
    - rewrite Hl. destruct o as [|o0 o'].
      + cbn [byte_len]. cbn [N.eqb]. change (0 =? 0) with true. cbv iota.
        destruct gs as [|g r]; inversion H; subst; reflexivity.
      + inversion H; subst.
        assert (Hnz : byte_len (o0 :: o') <> 0) by (intros Hz; apply byte_len_nil_iff in Hz; discriminate).
        destruct (N.eqb_spec (byte_len (o0 :: o')) 0); [congruence | reflexivity].
  Qed.

  (* ---------------------------------------------------------------- second pass *)

  Lemma map_ch_id c : c <> CR -> c <> TAB -> map_ch c = c.
  Proof. clear W_sp W_nl C_sp G_concat G_nonempty.
    intros H1 H2. unfold map_ch. destruct (N.eqb_spec c CR); [congruence|]. destruct (N.eqb_spec c TAB); [congruence|]. reflexivity.
  Qed.

  (* an acceptable char that does not form a whitespace pair with the last one is pushed as is *)
  Lemma clean_step_good rc lws lwn c :
    cinv (rc, lws, lwn) -> okc c -> (forall x r, rc = x :: r -> ~ (ws x = true /\ ws c = true)) ->
    exists lws' lwn', clean_step (rc, lws, lwn) c = (c :: rc, lws', lwn').
  Proof using W_sp W_nl. clear C_sp G_concat G_nonempty.
    intros (Hok & Hadj & Hlws & Hlwn) (Hc1 & Hc2 & Hc3 & Hc4) Hp.
    unfold Text.clean_step. rewrite (map_ch_id c Hc2 Hc3).
    assert (Hrem : removed c = false).
    { unfold Text.removed. destruct Hc1 as [->| ->]; [reflexivity|]. rewrite N.eqb_refl. apply andb_false_r. }
    rewrite Hrem.
    destruct (N.eqb_spec c NL) as [->|Hnl].
    - assert (Hn : lwn = false).
      { rewrite Hlwn. destruct rc as [|x r]; [reflexivity|]. cbn [ends_with]. apply N.eqb_neq. intros ->.
        apply (Hp NL r eq_refl). split; exact W_nl. }
      rewrite Hn.
      assert (Hpop : pop_spaces rc = rc).
      { destruct rc as [|x r]; [reflexivity|]. cbn [pop_spaces]. destruct (N.eqb_spec x SP) as [->|_]; [|reflexivity].
        exfalso. apply (Hp SP r eq_refl). split; [exact W_sp | exact W_nl]. }
      rewrite Hpop. eexists _, _. reflexivity.
    - destruct (ws c) eqn:Hws.
      + destruct (Hc4 eq_refl) as [->|E]; [|congruence].
        assert (Hno : lws || ends_with rc NL = false).
        { rewrite Hlws. destruct rc as [|x r]; [reflexivity|]. cbn [ends_with]. apply orb_false_iff.
          split; apply N.eqb_neq; intros ->; apply (Hp _ r eq_refl); split; solve [assumption | reflexivity]. }
        rewrite Hno. eexists _, _. reflexivity.
      + eexists _, _. reflexivity.
  Qed.

  Lemma clean_loop_good : forall s rc lws lwn,
    cinv (rc, lws, lwn) -> Forall okc s -> no_ws_pair (rev rc ++ s) ->
    exists lws' lwn', clean_loop (rc, lws, lwn) s = (rev s ++ rc, lws', lwn').
  Proof using W_sp W_nl C_sp. clear G_concat G_nonempty.
    induction s as [|c s IH]; intros rc lws lwn Hinv Hok Hadj; cbn [Text.clean_loop].
    - eexists _, _. reflexivity.
    - inversion Hok as [|? ? Hc Hok']; subst.
      destruct (clean_step_good rc lws lwn c Hinv Hc) as (l1 & l2 & E).
      { intros x r -> Hx. apply (Hadj x c); [|exact Hx]. exists (rev r), s. cbn [rev]. rewrite <- app_assoc. reflexivity. }
      pose proof (clean_step_inv _ c Hinv) as Hinv'. rewrite E in *.
      destruct (IH (c :: rc) l1 l2 Hinv' Hok') as (l3 & l4 & E').
      { cbn [rev]. rewrite <- app_assoc. exact Hadj. }
      rewrite E'. exists l3, l4. cbn [rev]. rewrite <- app_assoc. reflexivity.
  Qed.

  Lemma clean_id s : Forall okc s -> no_ws_pair s -> clean s = s.
  Proof using W_sp W_nl C_sp. clear G_concat G_nonempty.
    intros Hok Hadj. unfold Text.clean.
    destruct (clean_loop_good s [] false false cinv_init Hok Hadj) as (l1 & l2 & E).
    rewrite E, app_nil_r. apply rev_involutive.
  Qed.

  (* conditional idempotence: an untruncated output that NFKC leaves alone is a fixed point,
     for the same limit and for every limit its bytes fit in *)
  Lemma second_pass input limit out limit2 :
    normalize_text input limit = Some (out, false) ->
    nfkc out = out ->
    byte_len out <= N.max limit2 1 ->
    normalize_text out limit2 = Some (out, false).
  Proof using W_sp W_nl C_sp G_concat G_nonempty.
    intros H Hn Hfit.
    destruct (out_shape _ _ _ _ H) as [Hok Hadj].
    destruct (whitespace_shape _ _ _ _ H) as (_ & _ & Hhd).
    pose proof (untruncated_no_trailing_ws _ _ _ H) as Hlast.
    pose proof (out_nonempty _ _ _ _ H) as Hne.
    assert (Ht : trimmed_of out = out).
    { unfold Text.trimmed_of. rewrite Hn, (clean_id out Hok Hadj). apply trim_ws_id.
      - intros c r ->. exact Hhd.
      - intros _. exact Hlast. }
    unfold Text.normalize_text. fold (trimmed_of out). rewrite Ht.
    destruct out as [|o0 o']; [congruence|].
    rewrite take_graphemes_all by (rewrite G_concat; lia).
    rewrite G_concat. reflexivity.
  Qed.

  Lemma idempotent_if_nfkc_stable input limit out :
    normalize_text input limit = Some (out, false) ->
    nfkc out = out ->
    normalize_text out limit = Some (out, false).
  Proof using W_sp W_nl C_sp G_concat G_nonempty.
    intros H Hn. apply (second_pass input limit out limit H Hn).
    destruct (normalize_text_spec _ _ _ _ H) as (_ & k & _ & _ & _ & Hf & _). apply Hf. reflexivity.
  Qed.

  Lemma cps_eqb_spec a b : cps_eqb a b = true <-> a = b.
  Proof. clear W_sp W_nl C_sp G_concat G_nonempty. apply list_eqb_spec. intros; apply N.eqb_eq. Qed.

  (* outside the known class: every NFKC failure that goes with a removed control character is
     in the class, and idempotence is reduced to NFKC stability of the output *)
  Lemma nfkc_outside_known input limit out tr :
    normalize_text input limit = Some (out, tr) ->
    known_shield nfkc is_control is_whitespace graphemes input limit = false ->
    (removes_control nfkc is_control input = true -> nfkc out = out) /\
    (nfkc out = out -> tr = false -> normalize_text out limit = Some (out, false)).
  Proof using W_sp W_nl C_sp G_concat G_nonempty.
    intros H Hk. unfold known_shield in Hk. rewrite H in Hk. split.
    - intros Hr. rewrite Hr in Hk. cbn [andb] in Hk. apply negb_false_iff in Hk. apply cps_eqb_spec. exact Hk.
    - intros Hn ->. apply (idempotent_if_nfkc_stable input limit out H Hn).
  Qed.

  (* when the steps after NFKC have nothing to do, the output is nfkc(input) itself: NFKC-stable
     as soon as nfkc is idempotent (a Unicode fact, hypothesis here) *)
  Lemma unedited_output_is_nfkc input limit out :
    (forall s, nfkc (nfkc s) = nfkc s) ->
    normalize_text input limit = Some (out, false) ->
    trimmed_of input = nfkc input ->
    nfkc out = out /\ normalize_text out limit = Some (out, false).
  Proof using W_sp W_nl C_sp G_concat G_nonempty.
    intros Hi H Ht. assert (Hn : nfkc out = out).
    { rewrite (untruncated_is_trimmed _ _ _ H), Ht. apply Hi. }
    split; [exact Hn | apply (idempotent_if_nfkc_stable input limit out H Hn)].
  Qed.

End Proofs.

(* ------------------------------------------------------------------ witnesses (toy oracles) *)

Lemma toy_graphemes_from_concat : forall s cur, concat (toy_graphemes_from cur s) = rev cur ++ s.
Proof.
  induction s as [|c r IH]; intros cur; cbn [toy_graphemes_from].
  - cbn [concat]. reflexivity.
  - destruct (c =? 769).
    + rewrite IH. cbn [rev]. rewrite <- app_assoc. reflexivity.
    + cbn [concat]. rewrite IH. reflexivity.
Qed.

Lemma toy_graphemes_concat s : concat (toy_graphemes s) = s.
Proof. destruct s as [|c r]; [reflexivity|]. unfold toy_graphemes. rewrite toy_graphemes_from_concat. reflexivity. Qed.

Lemma toy_graphemes_from_nonempty : forall s cur, cur <> [] -> Forall (fun g => g <> []) (toy_graphemes_from cur s).
Proof.
  assert (Hr : forall cur : list cp, cur <> [] -> rev cur <> []).
  { intros cur Hc E. apply (f_equal (@rev cp)) in E. rewrite rev_involutive in E. cbn in E. congruence. }
  induction s as [|c r IH]; intros cur Hc; cbn [toy_graphemes_from].
  - constructor; [apply Hr; exact Hc | constructor].
  - destruct (c =? 769).
    + apply IH. discriminate.
    + constructor; [apply Hr; exact Hc | apply IH; discriminate].
Qed.

Lemma toy_graphemes_nonempty s : Forall (fun g => g <> []) (toy_graphemes s).
Proof. destruct s as [|c r]; [constructor|]. apply toy_graphemes_from_nonempty. discriminate. Qed.

Definition toy_normalize := normalize_text toy_nfkc std_is_control std_is_whitespace toy_graphemes.

(* "a\u{1}\u{301} b" *)
Definition shield_witness : list cp := [97; 1; 769; 32; 98].
(* "ab cd" *)
Definition trailing_witness : list cp := [97; 98; 32; 99; 100].

Lemma shield_witness_facts :
  toy_nfkc shield_witness = shield_witness /\
  toy_normalize shield_witness 100 = Some ([97; 769; 32; 98], false) /\
  toy_nfkc [97; 769; 32; 98] = [225; 32; 98] /\
  toy_normalize [97; 769; 32; 98] 100 = Some ([225; 32; 98], false) /\
  known_shield toy_nfkc std_is_control std_is_whitespace toy_graphemes shield_witness 100 = true.
Proof. vm_compute. repeat split. Qed.

Lemma trailing_witness_facts :
  toy_normalize trailing_witness 3 = Some ([97; 98; 32], true) /\
  std_is_whitespace (last [97; 98; 32] 0) = true /\
  known_trailing toy_nfkc std_is_control std_is_whitespace toy_graphemes trailing_witness 3 = true.
Proof. vm_compute. repeat split. Qed.

(* the toy NFKC is idempotent, like the real one *)
Lemma toy_nfkc_unfold c d r :
  toy_nfkc (c :: d :: r) = if (c =? 97) && (d =? 769) then 225 :: toy_nfkc r else c :: toy_nfkc (d :: r).
Proof. reflexivity. Qed.

Lemma toy_nfkc_cons_other c l : c <> 97 -> toy_nfkc (c :: l) = c :: toy_nfkc l.
Proof.
  intros Hc. destruct l as [|d r]; [reflexivity|]. rewrite toy_nfkc_unfold.
  destruct (N.eqb_spec c 97); [congruence|]. reflexivity.
Qed.

Lemma toy_nfkc_hd d r : exists h t, toy_nfkc (d :: r) = h :: t /\ (h = d \/ h = 225).
Proof.
  destruct r as [|e r']; [exists d, []; split; [reflexivity | left; reflexivity]|].
  rewrite toy_nfkc_unfold. destruct ((d =? 97) && (e =? 769)); eexists _, _; split; try reflexivity; auto.
Qed.

Lemma toy_nfkc_idem_len : forall n s, (length s <= n)%nat -> toy_nfkc (toy_nfkc s) = toy_nfkc s.
Proof.
  induction n as [|n IH]; intros s Hl.
  - destruct s; [reflexivity | cbn in Hl; lia].
  - destruct s as [|c [|d r]]; [reflexivity | reflexivity |].
    rewrite toy_nfkc_unfold. destruct ((c =? 97) && (d =? 769)) eqn:E.
    + rewrite toy_nfkc_cons_other by (intro H; discriminate H). f_equal. apply IH. cbn [length] in Hl. lia.
    + destruct (toy_nfkc_hd d r) as (h & t & Eh & Hh).
      assert (IHd : toy_nfkc (toy_nfkc (d :: r)) = toy_nfkc (d :: r)) by (apply IH; cbn [length] in *; lia).
      rewrite Eh in *. rewrite toy_nfkc_unfold.
      assert (Ec : (c =? 97) && (h =? 769) = false).
      { apply andb_false_iff. apply andb_false_iff in E.
        destruct (N.eqb_spec c 97) as [Hc|Hc]; [right | left; reflexivity].
        destruct E as [E|E]; [discriminate|].
        destruct Hh as [->| ->]; [exact E | reflexivity]. }
      rewrite Ec, IHd. reflexivity.
Qed.

Lemma toy_nfkc_idem s : toy_nfkc (toy_nfkc s) = toy_nfkc s.
Proof. apply (toy_nfkc_idem_len (length s)). lia. Qed.

(* ------------------------------------------------------------------ hypotheses bundle, refutations *)

(* what the theorems assume of the Unicode tables *)
Definition oracles_ok (is_control is_whitespace : cp -> bool) (graphemes : list cp -> list (list cp)) : Prop :=
  is_whitespace SP = true /\ is_whitespace NL = true /\ is_control SP = false /\
  (forall s, concat (graphemes s) = s) /\ (forall s, Forall (fun g => g <> []) (graphemes s)).

Lemma toy_oracles_ok : oracles_ok std_is_control std_is_whitespace toy_graphemes.
Proof.
  unfold oracles_ok. split; [reflexivity|]. split; [reflexivity|]. split; [reflexivity|].
  split; [exact toy_graphemes_concat | exact toy_graphemes_nonempty].
Qed.

Lemma nfkc_refuted :
  exists nfkc ic iw gr,
    oracles_ok ic iw gr /\ (forall s, nfkc (nfkc s) = nfkc s) /\
    exists input limit out,
      nfkc input = input /\
      normalize_text nfkc ic iw gr input limit = Some (out, false) /\
      nfkc out <> out /\
      known_shield nfkc ic iw gr input limit = true.
Proof.
  exists toy_nfkc, std_is_control, std_is_whitespace, toy_graphemes.
  split; [exact toy_oracles_ok|]. split; [exact toy_nfkc_idem|].
  exists shield_witness, 100, [97; 769; 32; 98].
  destruct shield_witness_facts as (H1 & H2 & H3 & H4 & H5).
  split; [exact H1|]. split; [exact H2|]. split; [rewrite H3; discriminate | exact H5].
Qed.

Lemma idempotence_refuted :
  exists nfkc ic iw gr,
    oracles_ok ic iw gr /\ (forall s, nfkc (nfkc s) = nfkc s) /\
    exists input limit out out2,
      normalize_text nfkc ic iw gr input limit = Some (out, false) /\
      normalize_text nfkc ic iw gr out limit = Some (out2, false) /\
      out2 <> out.
Proof.
  exists toy_nfkc, std_is_control, std_is_whitespace, toy_graphemes.
  split; [exact toy_oracles_ok|]. split; [exact toy_nfkc_idem|].
  exists shield_witness, 100, [97; 769; 32; 98], [225; 32; 98].
  destruct shield_witness_facts as (H1 & H2 & H3 & H4 & H5).
  split; [exact H2|]. split; [exact H4 | discriminate].
Qed.

Lemma trailing_refuted :
  exists nfkc ic iw gr,
    oracles_ok ic iw gr /\
    exists input limit out,
      normalize_text nfkc ic iw gr input limit = Some (out, true) /\
      iw (last out 0) = true /\
      known_trailing nfkc ic iw gr input limit = true.
Proof.
  exists toy_nfkc, std_is_control, std_is_whitespace, toy_graphemes.
  split; [exact toy_oracles_ok|].
  exists trailing_witness, 3, [97; 98; 32]. exact trailing_witness_facts.
Qed.

(* the two classes are exact: an output has trailing whitespace iff it is in known_trailing; an
   input in known_shield always yields a non-NFKC output *)
Lemma trailing_iff_known nfkc ic iw gr input limit out tr :
  (forall s, concat (gr s) = s) -> (forall s, Forall (fun g => g <> []) (gr s)) ->
  normalize_text nfkc ic iw gr input limit = Some (out, tr) ->
  (iw (last out 0) = true <-> known_trailing nfkc ic iw gr input limit = true).
Proof.
  intros G1 G2 H. unfold known_trailing. rewrite H. destruct tr; cbn [andb]; [tauto|].
  rewrite (untruncated_no_trailing_ws nfkc ic iw gr G1 G2 input limit out H). tauto.
Qed.

Lemma shield_class_fails nfkc ic iw gr input limit out tr :
  normalize_text nfkc ic iw gr input limit = Some (out, tr) ->
  known_shield nfkc ic iw gr input limit = true ->
  nfkc out <> out /\ removes_control nfkc ic input = true.
Proof.
  intros H Hk. unfold known_shield in Hk. rewrite H in Hk. apply andb_true_iff in Hk. destruct Hk as [Hr Hn].
  split; [|exact Hr]. intros E. apply negb_true_iff in Hn.
  assert (Ht : cps_eqb (nfkc out) out = true) by (apply cps_eqb_spec; exact E). congruence.
Qed.
