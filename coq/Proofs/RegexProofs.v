(* Proofs about Model/Regex.v: the backtracking matcher is sound and complete for the
   declarative semantics `rm`; is_match <-> has_match; replace_all is the identity when
   the pattern has no match; the marked walk erases to the plain one; a match that
   survives a replace_all pass touches a code point inserted by that pass. *)
From MV Require Import Base.Prelude Model.Regex.
Require Import ZifyBool ZifyNat.

(* ------------------------------------------------------------------ lasto *)
Lemma lasto_cons {A} (d : option A) x l : lasto d (x :: l) = lasto (Some x) l.
Proof. reflexivity. Qed.

Lemma lasto_app {A} (d : option A) a b : lasto d (a ++ b) = lasto (lasto d a) b.
Proof. unfold lasto. apply fold_left_app. Qed.

Lemma lasto_snoc {A} (d : option A) a y : lasto d (a ++ [y]) = Some y.
Proof. rewrite lasto_app. reflexivity. Qed.

Lemma lasto_nonempty {A} (d d' : option A) l : l <> [] -> lasto d l = lasto d' l.
Proof. destruct l as [|x l]; [congruence|]. intros _. reflexivity. Qed.

Lemma lasto_none_inv {A} (l : list A) : lasto None l = None -> l = [].
Proof.
  destruct l as [|x l] using rev_ind; [reflexivity|].
  rewrite lasto_snoc. discriminate.
Qed.

Lemma lasto_some_nonempty {A} (l : list A) y : lasto None l = Some y -> l <> [].
Proof. intros H ->. discriminate. Qed.

Lemma lasto_some_snoc {A} (l : list A) y : lasto None l = Some y -> exists l0, l = l0 ++ [y].
Proof.
  destruct l as [|x l] using rev_ind; [discriminate|].
  rewrite lasto_snoc. intros [= ->]. eauto.
Qed.

Lemma lasto_map {A B} (f : A -> B) d l : lasto (option_map f d) (map f l) = option_map f (lasto d l).
Proof. revert d. induction l as [|x l IH]; intros d; [reflexivity|]. cbn [map]. rewrite !lasto_cons. apply (IH (Some x)). Qed.

Lemma app_same_tail_nil {A} (w s : list A) : s = w ++ s -> w = [].
Proof.
  intros H. assert (L : length s = length w + length s) by (rewrite H at 1; apply app_length).
  destruct w; [reflexivity|]. cbn in L. lia.
Qed.

Lemma hd_error_app_same {A} (w t t' : list A) : hd_error t = hd_error t' -> hd_error (w ++ t) = hd_error (w ++ t').
Proof. destruct w; auto. Qed.

Section Unicode.
  Variables is_digit is_space is_word : N -> bool.
  Notation mt := (mt is_digit is_space is_word).
  Notation rm := (rm is_digit is_space is_word).
  Notation match_at := (match_at is_digit is_space is_word).
  Notation im := (im is_digit is_space is_word).
  Notation is_match := (is_match is_digit is_space is_word).
  Notation has_match := (has_match is_digit is_space is_word).
  Notation ra := (ra is_digit is_space is_word).
  Notation ra_m := (ra_m is_digit is_space is_word).
  Notation replace_all := (replace_all is_digit is_space is_word).
  Notation replace_all_m := (replace_all_m is_digit is_space is_word).
  Notation is_boundary := (is_boundary is_word).
  Notation cls_mem := (cls_mem is_digit is_space is_word).

  (* -------------------------------------------------------------- shape of rm *)
  (* R only consumes a prefix w of the rest, and the new previous code point is the last of w *)
  Definition splits (R : st -> st -> Prop) : Prop :=
    forall a b, R a b -> exists w, snd a = w ++ snd b /\ fst b = lasto (fst a) w.

  (* R depends on the text after the consumed prefix only through its first code point *)
  Definition local (R : st -> st -> Prop) : Prop :=
    forall p s p' s' w t, R (p, s) (p', s') -> s = w ++ s' -> hd_error t = hd_error s' ->
                          R (p, w ++ t) (p', t).

  Lemma iter_rel_app R m1 m2 a b c :
    iter_rel R m1 a b -> iter_rel R m2 b c -> iter_rel R (m1 + m2) a c.
  Proof.
    revert a. induction m1 as [|m1 IH]; intros a H1 H2; cbn in *.
    - subst. exact H2.
    - destruct H1 as (d & Hd & H1). exists d. split; [exact Hd|]. apply IH; assumption.
  Qed.

  Lemma iter_rel_split R m1 m2 a c :
    iter_rel R (m1 + m2) a c -> exists b, iter_rel R m1 a b /\ iter_rel R m2 b c.
  Proof.
    revert a. induction m1 as [|m1 IH]; intros a H; cbn in *.
    - exists a. split; [reflexivity|exact H].
    - destruct H as (d & Hd & H). destruct (IH _ H) as (b & Hb1 & Hb2).
      exists b. split; [|exact Hb2]. exists d. split; assumption.
  Qed.

  Lemma iter_splits R m : splits R -> splits (iter_rel R m).
  Proof.
    intros HR. induction m as [|m IH]; intros a b H; cbn in H.
    - subst. exists []. split; reflexivity.
    - destruct H as (c & Hc & H). destruct (HR _ _ Hc) as (w1 & E1 & L1).
      destruct (IH _ _ H) as (w2 & E2 & L2). exists (w1 ++ w2).
      rewrite E1, E2, L2, L1, lasto_app, app_assoc. split; reflexivity.
  Qed.

  Lemma rm_splits r : splits (rm r).
  Proof.
    induction r as [|c| |r1 IH1 r2 IH2|r1 IH1 r2 IH2|r1 IH1 lo ext]; intros a b H; cbn in H.
    - subst. exists []. split; reflexivity.
    - destruct H as (x & s & E & _ & ->). exists [x]. rewrite E. split; reflexivity.
    - destruct H as [-> _]. exists []. split; reflexivity.
    - destruct H as (c & H1 & H2). destruct (IH1 _ _ H1) as (w1 & E1 & L1).
      destruct (IH2 _ _ H2) as (w2 & E2 & L2). exists (w1 ++ w2).
      rewrite E1, E2, L2, L1, lasto_app, app_assoc. split; reflexivity.
    - destruct H as [H|H]; [apply IH1|apply IH2]; exact H.
    - destruct H as (m & _ & _ & H). exact (iter_splits _ m IH1 _ _ H).
  Qed.

  Lemma rm_len r p s p' s' : rm r (p, s) (p', s') -> length s' <= length s.
  Proof.
    intros H. destruct (rm_splits r _ _ H) as (w & E & _). cbn in E. rewrite E, app_length. lia.
  Qed.

  Lemma iter_local R m : splits R -> local R -> local (iter_rel R m).
  Proof.
    intros HS HL. induction m as [|m IH]; intros p s p' s' w t H E Hh; cbn in H |- *.
    - injection H as -> ->. apply app_same_tail_nil in E. subst w. reflexivity.
    - destruct H as ([pc sc] & Hc & H).
      destruct (HS _ _ Hc) as (w1 & E1 & _). cbn in E1.
      destruct (iter_splits R m HS _ _ H) as (w2 & E2 & _). cbn in E2.
      assert (w = w1 ++ w2) as ->.
      { apply (app_inv_tail s'). rewrite <- E, E1, E2, app_assoc. reflexivity. }
      exists (pc, w2 ++ t). split.
      + rewrite <- app_assoc. apply (HL _ _ _ _ _ _ Hc E1).
        rewrite E2. apply hd_error_app_same. exact Hh.
      + apply (IH _ _ _ _ _ _ H E2 Hh).
  Qed.

  Lemma rm_local r : local (rm r).
  Proof.
    induction r as [|c| |r1 IH1 r2 IH2|r1 IH1 r2 IH2|r1 IH1 lo ext]; intros p s p' s' w t H E Hh; cbn in H |- *.
    - injection H as -> ->. apply app_same_tail_nil in E. subst w. reflexivity.
    - destruct H as (x & s0 & E0 & Hc & Hb). cbn in E0. injection Hb as -> ->.
      assert (w = [x]) as ->. { apply (app_inv_tail s0). rewrite <- E, E0. reflexivity. }
      exists x, t. repeat split; assumption.
    - destruct H as [Hb H]. injection Hb as -> ->. apply app_same_tail_nil in E. subst w.
      split; [reflexivity|]. cbn in *. unfold Regex.is_boundary in *. rewrite Hh. exact H.
    - destruct H as ([pc sc] & H1 & H2).
      destruct (rm_splits _ _ _ H1) as (w1 & E1 & _). cbn in E1.
      destruct (rm_splits _ _ _ H2) as (w2 & E2 & _). cbn in E2.
      assert (w = w1 ++ w2) as ->.
      { apply (app_inv_tail s'). rewrite <- E, E1, E2, app_assoc. reflexivity. }
      exists (pc, w2 ++ t). split.
      + rewrite <- app_assoc. apply (IH1 _ _ _ _ _ _ H1 E1).
        rewrite E2. apply hd_error_app_same. exact Hh.
      + apply (IH2 _ _ _ _ _ _ H2 E2 Hh).
    - destruct H as [H|H]; [left; eapply IH1|right; eapply IH2]; eassumption.
    - destruct H as (m & Hlo & Hhi & H). exists m. split; [exact Hlo|]. split; [exact Hhi|].
      exact (iter_local _ m (rm_splits r1) IH1 _ _ _ _ _ _ H E Hh).
  Qed.

  (* -------------------------------------------------------------- soundness *)
  Definition sound_M (body : M) (R : st -> st -> Prop) : Prop :=
    forall p s k x, body p s k = Some x -> exists p' s', R (p, s) (p', s') /\ k p' s' = Some x.

  Lemma rep_min_sound body R more R2 lo :
    sound_M body R -> sound_M more R2 ->
    sound_M (rep_min body lo more) (fun a b => exists c, iter_rel R lo a c /\ R2 c b).
  Proof.
    intros HB HM. induction lo as [|lo IH]; intros p s k x H; cbn in H.
    - destruct (HM _ _ _ _ H) as (p' & s' & HR & Hk). exists p', s'. split; [|exact Hk].
      exists (p, s). split; [reflexivity|exact HR].
    - destruct (HB _ _ _ _ H) as (p1 & s1 & HR1 & H1).
      destruct (IH _ _ _ _ H1) as (p' & s' & (c & Hit & HR2) & Hk).
      exists p', s'. split; [|exact Hk]. exists c. split; [|exact HR2].
      exists (p1, s1). split; assumption.
  Qed.

  Lemma rep_opt_sound body R e :
    sound_M body R -> sound_M (rep_opt body e) (fun a b => exists m, m <= e /\ iter_rel R m a b).
  Proof.
    intros HB. induction e as [|e IH]; intros p s k x H; cbn in H.
    - exists p, s. split; [|exact H]. exists 0. split; [lia|reflexivity].
    - destruct (body p s (fun p' s' => rep_opt body e p' s' k)) as [y|] eqn:Eb.
      + injection H as ->. destruct (HB _ _ _ _ Eb) as (p1 & s1 & HR1 & H1).
        destruct (IH _ _ _ _ H1) as (p' & s' & (m & Hm & Hit) & Hk).
        exists p', s'. split; [|exact Hk]. exists (S m). split; [lia|].
        exists (p1, s1). split; assumption.
      + exists p, s. split; [|exact H]. exists 0. split; [lia|reflexivity].
  Qed.

  Lemma rep_star_sound body R f :
    sound_M body R -> sound_M (rep_star body f) (fun a b => exists m, iter_rel R m a b).
  Proof.
    intros HB. induction f as [|f IH]; intros p s k x H; cbn in H.
    - exists p, s. split; [|exact H]. exists 0. reflexivity.
    - destruct (body p s (fun p' s' => rep_star body f p' s' k)) as [y|] eqn:Eb.
      + injection H as ->. destruct (HB _ _ _ _ Eb) as (p1 & s1 & HR1 & H1).
        destruct (IH _ _ _ _ H1) as (p' & s' & (m & Hit) & Hk).
        exists p', s'. split; [|exact Hk]. exists (S m). exists (p1, s1). split; assumption.
      + exists p, s. split; [|exact H]. exists 0. reflexivity.
  Qed.

  Lemma mt_sound n r : sound_M (mt n r) (rm r).
  Proof.
    induction r as [|c| |r1 IH1 r2 IH2|r1 IH1 r2 IH2|r1 IH1 lo ext]; intros p s k x H; cbn in H.
    - exists p, s. split; [reflexivity|exact H].
    - destruct s as [|y s]; [discriminate|]. destruct (cls_mem c y) eqn:Ec; [|discriminate].
      exists (Some y), s. split; [|exact H]. exists y, s. repeat split; assumption.
    - destruct (is_boundary p s) eqn:Eb; [|discriminate].
      exists p, s. split; [|exact H]. split; [reflexivity|exact Eb].
    - destruct (IH1 _ _ _ _ H) as (p1 & s1 & HR1 & H1).
      destruct (IH2 _ _ _ _ H1) as (p' & s' & HR2 & Hk).
      exists p', s'. split; [|exact Hk]. exists (p1, s1). split; assumption.
    - destruct (mt n r1 p s k) as [y|] eqn:E1.
      + injection H as ->. destruct (IH1 _ _ _ _ E1) as (p' & s' & HR & Hk).
        exists p', s'. split; [left; exact HR|exact Hk].
      + destruct (IH2 _ _ _ _ H) as (p' & s' & HR & Hk).
        exists p', s'. split; [right; exact HR|exact Hk].
    - destruct ext as [e|].
      + destruct (rep_min_sound _ _ _ _ lo IH1 (rep_opt_sound _ _ e IH1) _ _ _ _ H)
          as (p' & s' & (c & Hit1 & (m & Hm & Hit2)) & Hk).
        exists p', s'. split; [|exact Hk]. exists (lo + m). split; [lia|]. split; [lia|].
        eapply iter_rel_app; eassumption.
      + destruct (rep_min_sound _ _ _ _ lo IH1 (rep_star_sound _ _ n IH1) _ _ _ _ H)
          as (p' & s' & (c & Hit1 & (m & Hit2)) & Hk).
        exists p', s'. split; [|exact Hk]. exists (lo + m). split; [lia|]. split; [exact I|].
        eapply iter_rel_app; eassumption.
  Qed.

  (* -------------------------------------------------------------- completeness *)
  (* n bounds the star fuel: it must exceed the length of the rest *)
  Definition complete_M (n : nat) (body : M) (R : st -> st -> Prop) : Prop :=
    forall p s p' s' k, R (p, s) (p', s') -> length s < n -> k p' s' <> None -> body p s k <> None.

  Lemma rep_min_complete n body (R : st -> st -> Prop) more (R2 : st -> st -> Prop) lo :
    (forall p s p' s', R (p, s) (p', s') -> length s' <= length s) ->
    complete_M n body R -> complete_M n more R2 ->
    complete_M n (rep_min body lo more) (fun a b => exists c, iter_rel R lo a c /\ R2 c b).
  Proof.
    intros HL HB HM. induction lo as [|lo IH]; intros p s p' s' k (c & Hit & HR2) Hn Hk; cbn in Hit |- *.
    - subst c. eapply HM; eassumption.
    - destruct Hit as ([p1 s1] & HR1 & Hit).
      eapply HB; [exact HR1|exact Hn|].
      eapply IH; [exists c; split; eassumption| |exact Hk].
      specialize (HL _ _ _ _ HR1). lia.
  Qed.

  Lemma rep_opt_complete n body (R : st -> st -> Prop) e :
    (forall p s p' s', R (p, s) (p', s') -> length s' <= length s) ->
    complete_M n body R ->
    complete_M n (rep_opt body e) (fun a b => exists m, m <= e /\ iter_rel R m a b).
  Proof.
    intros HL HB. induction e as [|e IH]; intros p s p' s' k (m & Hm & Hit) Hn Hk; cbn.
    - assert (m = 0) as -> by lia. cbn in Hit. injection Hit as -> ->. exact Hk.
    - destruct m as [|m]; cbn in Hit.
      + injection Hit as -> ->.
        destruct (body p' s' (fun p'0 s'0 => rep_opt body e p'0 s'0 k)); [discriminate|exact Hk].
      + destruct Hit as ([p1 s1] & HR1 & Hit).
        assert (Hb : body p s (fun p'0 s'0 => rep_opt body e p'0 s'0 k) <> None).
        { eapply HB; [exact HR1|exact Hn|].
          eapply IH; [exists m; split; [lia|exact Hit]| |exact Hk].
          specialize (HL _ _ _ _ HR1). lia. }
        destruct (body p s (fun p'0 s'0 => rep_opt body e p'0 s'0 k)); [discriminate|congruence].
  Qed.

  Lemma rep_star_complete n body (R : st -> st -> Prop) :
    splits R -> complete_M n body R ->
    forall m f p s p' s' k,
      iter_rel R m (p, s) (p', s') -> length s < f -> length s < n -> k p' s' <> None ->
      rep_star body f p s k <> None.
  Proof.
    intros HS HB. induction m as [|m IH]; intros f p s p' s' k Hit Hf Hn Hk; cbn in Hit.
    - injection Hit as -> ->. destruct f as [|f]; cbn; [exact Hk|].
      destruct (body p' s' (fun p'0 s'0 => rep_star body f p'0 s'0 k)); [discriminate|exact Hk].
    - destruct Hit as ([p1 s1] & HR1 & Hit).
      destruct (HS _ _ HR1) as (w & E & L). cbn in E, L.
      destruct w as [|y w].
      + (* an iteration that consumed nothing can be dropped *)
        cbn in E, L. subst s1 p1. eapply IH; eassumption.
      + destruct f as [|f]; [lia|]. cbn.
        assert (Hlen : length s1 < length s) by (rewrite E; cbn; rewrite app_length; lia).
        assert (Hb : body p s (fun p'0 s'0 => rep_star body f p'0 s'0 k) <> None).
        { eapply HB; [exact HR1|exact Hn|]. eapply IH; [exact Hit|lia|lia|exact Hk]. }
        destruct (body p s (fun p'0 s'0 => rep_star body f p'0 s'0 k)); [discriminate|congruence].
  Qed.

  Lemma mt_complete n r : complete_M n (mt n r) (rm r).
  Proof.
    induction r as [|c| |r1 IH1 r2 IH2|r1 IH1 r2 IH2|r1 IH1 lo ext]; intros p s p' s' k H Hn Hk; cbn in H |- *.
    - injection H as -> ->. exact Hk.
    - destruct H as (x & s0 & E & Hc & Hb). cbn in E. subst s. injection Hb as -> ->.
      rewrite Hc. exact Hk.
    - destruct H as [Hb H]. injection Hb as -> ->. cbn in H. rewrite H. exact Hk.
    - destruct H as ([p1 s1] & H1 & H2).
      eapply IH1; [exact H1|exact Hn|]. eapply IH2; [exact H2| |exact Hk].
      apply rm_len in H1. lia.
    - destruct H as [H|H].
      + specialize (IH1 _ _ _ _ k H Hn Hk). destruct (mt n r1 p s k); [discriminate|congruence].
      + destruct (mt n r1 p s k); [discriminate|]. eapply IH2; eassumption.
    - destruct H as (m & Hlo & Hhi & Hit).
      replace m with (lo + (m - lo)) in Hit by lia.
      destruct (iter_rel_split _ _ _ _ _ Hit) as (c & Hit1 & Hit2).
      destruct ext as [e|].
      + eapply (rep_min_complete n _ (rm r1) _ _ lo (rm_len r1) IH1
                                 (rep_opt_complete n _ (rm r1) e (rm_len r1) IH1));
          [exists c; split; [exact Hit1|exists (m - lo); split; [lia|exact Hit2]]|exact Hn|exact Hk].
      + eapply (rep_min_complete n _ (rm r1) (rep_star (mt n r1) n)
                                 (fun a b => exists m, iter_rel (rm r1) m a b) lo (rm_len r1) IH1);
          [|exists c; split; [exact Hit1|exists (m - lo); exact Hit2]|exact Hn|exact Hk].
        intros q t q' t' k' (m' & Hm') Hn' Hk'.
        eapply (rep_star_complete n _ _ (rm_splits r1) IH1); eassumption.
  Qed.

  (* the match the matcher picks at a position is a match; if some match starts at a
     position the matcher finds one there *)
  Lemma match_at_sound n r p s rest :
    match_at n r p s = Some rest -> exists w, s = w ++ rest /\ rm r (p, s) (lasto p w, rest).
  Proof.
    intros H. destruct (mt_sound n r _ _ _ _ H) as (p' & s' & HR & Hk).
    injection Hk as ->. destruct (rm_splits r _ _ HR) as (w & E & L). cbn in E, L. subst p'.
    exists w. split; assumption.
  Qed.

  Lemma match_at_complete n r p s p' s' :
    rm r (p, s) (p', s') -> length s < n -> match_at n r p s <> None.
  Proof. intros H Hn. eapply mt_complete; [exact H|exact Hn|discriminate]. Qed.

  (* -------------------------------------------------------------- is_match *)
  Lemma im_sound n r : forall s p,
    im n r p s = true ->
    exists u w v, s = u ++ w ++ v /\ rm r (lasto p u, w ++ v) (lasto p (u ++ w), v).
  Proof.
    induction s as [|x s IH]; intros p H; cbn in H.
    - destruct (match_at n r p []) as [rest|] eqn:E; [|discriminate].
      destruct (match_at_sound _ _ _ _ _ E) as (w & Ew & HR).
      exists [], w, rest. cbn. rewrite <- Ew. split; [reflexivity|exact HR].
    - destruct (match_at n r p (x :: s)) as [rest|] eqn:E.
      + destruct (match_at_sound _ _ _ _ _ E) as (w & Ew & HR).
        exists [], w, rest. cbn [app lasto fold_left]. rewrite <- Ew. split; [reflexivity|exact HR].
      + destruct (IH _ H) as (u & w & v & Es & HR). exists (x :: u), w, v.
        split; [cbn; rewrite Es; reflexivity|]. exact HR.
  Qed.

  Lemma im_complete n r : forall u p w v q,
    rm r (lasto p u, w ++ v) (q, v) -> length (u ++ w ++ v) < n -> im n r p (u ++ w ++ v) = true.
  Proof.
    induction u as [|x u IH]; intros p w v q H Hn.
    - cbn [app] in *. pose proof (match_at_complete n r _ _ _ _ H Hn) as Hm. cbn in Hm.
      destruct (w ++ v) as [|y t]; cbn; destruct (match_at n r p _); congruence.
    - cbn [app]. cbn [im]. destruct (match_at n r p (x :: u ++ w ++ v)); [reflexivity|].
      apply (IH (Some x) w v q); [exact H|]. cbn in Hn. lia.
  Qed.

  Theorem is_match_iff r s : is_match r s = true <-> has_match r s.
  Proof.
    unfold Regex.is_match, Regex.has_match, last_o. split.
    - intros H. apply im_sound in H. exact H.
    - intros (u & w & v & -> & H). eapply im_complete; [exact H|lia].
  Qed.

  (* -------------------------------------------------------------- replace_all, no match *)
  Lemma ra_no_match n r tok : forall s p after, im n r p s = false -> ra n r tok p s 0 after = s.
  Proof.
    induction s as [|x s IH]; intros p after H; cbn in H |- *.
    - destruct (match_at n r p []); [discriminate|]. destruct after; reflexivity.
    - destruct (match_at n r p (x :: s)); [discriminate|]. rewrite (IH _ _ H). reflexivity.
  Qed.

  Theorem replace_all_no_match r tok s : is_match r s = false -> replace_all r tok s = s.
  Proof. apply ra_no_match. Qed.

  (* -------------------------------------------------------------- marks erase *)
  Lemma ra_m_erase n r tok j : forall ms p skip after,
    map fst (ra_m n r (mark j tok) p (map fst ms) ms skip after) = ra n r tok p (map fst ms) skip after.
  Proof.
    assert (Ht : map fst (mark j tok) = tok).
    { unfold mark. rewrite map_map. cbn. apply map_id. }
    induction ms as [|[x mk] ms IH]; intros p skip after; cbn [map fst ra ra_m tl].
    - destruct skip; [|reflexivity]. destruct after; [reflexivity|].
      destruct (match_at n r p []); [exact Ht|reflexivity].
    - destruct skip as [|k]; [|apply IH].
      destruct (match_at n r p (x :: map fst ms)) as [rest|]; [|cbn [map fst]; rewrite IH; reflexivity].
      destruct (length (x :: map fst ms) - length rest) as [|l].
      + destruct after; [cbn [map fst]; rewrite IH; reflexivity|].
        rewrite map_app, Ht. cbn [map fst]. rewrite IH. reflexivity.
      + rewrite map_app, Ht, IH. reflexivity.
  Qed.

  Lemma replace_all_m_erase r tok j ms :
    map fst (replace_all_m r tok j ms) = replace_all r tok (map fst ms).
  Proof. unfold Regex.replace_all_m, Regex.replace_all. rewrite ra_m_erase, map_length. reflexivity. Qed.
End Unicode.
