From MV Require Import Base.Prelude Base.Facts Model.Header.
Require Import ZifyBool ZifyNat ZifyN.
Require MV.Gen.Consts.
Local Open Scope N_scope.

(* ---------- list plumbing ---------- *)
Ltac explode l H :=
  repeat (destruct l as [|? l]; cbn [length] in H;
          [ try discriminate H | try discriminate H; try apply Nat.succ_inj in H ]).

(* the 80-byte layout: nine blocks back to back, each found again at its offset *)
Lemma layout (m v sp f w s c q k z : bytes) :
  length m = 4%nat -> length v = 2%nat -> length sp = 2%nat -> length f = 8%nat -> length w = 8%nat ->
  length s = 8%nat -> length c = 8%nat -> length q = 8%nat -> length k = 32%nat ->
  let b := m ++ v ++ sp ++ f ++ w ++ s ++ c ++ q ++ k ++ z in
  slice b 0 4 = m /\ slice b VERSION_OFFSET 2 = v /\
  nth SPEC_BYTES_OFFSET b 0 = nth 0 sp 0 /\ nth (SPEC_BYTES_OFFSET + 1) b 0 = nth 1 sp 0 /\
  slice b FOOTER_OFFSET_POS 8 = f /\ slice b WAL_OFFSET_POS 8 = w /\ slice b WAL_SIZE_POS 8 = s /\
  slice b WAL_CHECKPOINT_POS 8 = c /\ slice b WAL_SEQUENCE_POS 8 = q /\ slice b TOC_CHECKSUM_POS 32 = k /\
  firstn TOC_CHECKSUM_END b = m ++ v ++ sp ++ f ++ w ++ s ++ c ++ q ++ k /\
  skipn TOC_CHECKSUM_END b = z.
Proof.
  intros Hm Hv Hsp Hf Hw Hs Hc Hq Hk.
  explode m Hm. explode v Hv. explode sp Hsp. explode f Hf. explode w Hw. explode s Hs.
  explode c Hc. explode q Hq. explode k Hk.
  cbv beta zeta. unfold slice. cbn. repeat split; reflexivity.
Qed.

Lemma zeros_length n : length (zeros n) = n.
Proof. apply repeat_length. Qed.

Lemma slice_firstn {A} (b : list A) n off len :
  (off + len <= n)%nat -> slice (firstn n b) off len = slice b off len.
Proof.
  intros Hle. unfold slice. rewrite skipn_firstn_comm, firstn_firstn.
  replace (Nat.min len (n - off)) with len by lia. reflexivity.
Qed.

Lemma nth_firstn_lt {A} (b : list A) n i d : (i < n)%nat -> nth i (firstn n b) d = nth i b d.
Proof.
  revert b i; induction n as [|n IH]; intros b i Hi; [lia|].
  destruct b as [|x b]; [destruct i; reflexivity|].
  destruct i as [|i]; [reflexivity|]. cbn [firstn nth]. apply IH. lia.
Qed.

Lemma firstn_slice_cat {A} (b : list A) l1 l2 :
  firstn l1 b ++ slice b l1 l2 = firstn (l1 + l2) b.
Proof.
  unfold slice. revert b; induction l1 as [|l1 IH]; intros b; [reflexivity|].
  destruct b as [|x b]; [cbn; destruct l2; reflexivity|].
  cbn [firstn skipn Nat.add app]. f_equal. apply IH.
Qed.

Lemma Ok_inj {A} (a b : A) : Ok a = Ok b -> a = b.
Proof. intros E; injection E; auto. Qed.

(* ---------- encode ---------- *)
Lemma header_encode_ok_iff h : (exists b, header_encode h = Ok b) <-> header_valid h = true.
Proof.
  unfold header_encode, header_valid.
  destruct (bytes_eqb (h_magic h) MAGIC); cbn [negb andb]; [|split; [intros [? ?]; discriminate | discriminate]].
  destruct (h_version h =? EXPECTED_VERSION); cbn [negb andb]; [|split; [intros [? ?]; discriminate | discriminate]].
  destruct (h_wal_offset h <? WAL_OFFSET); cbn [negb andb]; [split; [intros [? ?]; discriminate | discriminate]|].
  destruct (h_wal_size h =? 0); cbn [negb andb]; [split; [intros [? ?]; discriminate | discriminate]|].
  split; [reflexivity | intros _; eexists; reflexivity].
Qed.

Lemma header_encode_err_iff h : (exists k, header_encode h = Err k) <-> header_valid h = false.
Proof.
  unfold header_encode, header_valid.
  destruct (bytes_eqb (h_magic h) MAGIC); cbn [negb andb]; [|split; [reflexivity | intros _; eexists; reflexivity]].
  destruct (h_version h =? EXPECTED_VERSION); cbn [negb andb]; [|split; [reflexivity | intros _; eexists; reflexivity]].
  destruct (h_wal_offset h <? WAL_OFFSET); cbn [negb andb]; [split; [reflexivity | intros _; eexists; reflexivity]|].
  destruct (h_wal_size h =? 0); cbn [negb andb]; [split; [reflexivity | intros _; eexists; reflexivity]|].
  split; [intros [? ?]; discriminate | discriminate].
Qed.

Lemma header_encode_no_panic h s : header_encode h <> Panic s.
Proof.
  unfold header_encode.
  destruct (negb _); [discriminate|]. destruct (negb _); [discriminate|].
  destruct (_ <? _); [discriminate|]. destruct (_ =? _); discriminate.
Qed.

(* which error: the first failing check, in the order of the code *)
Lemma header_encode_error_kind h :
  header_encode h =
    if negb (bytes_eqb (h_magic h) MAGIC) then Err E_MAGIC
    else if negb (h_version h =? EXPECTED_VERSION) then Err E_VERSION
    else if h_wal_offset h <? WAL_OFFSET then Err E_WAL_OFFSET
    else if h_wal_size h =? 0 then Err E_WAL_SIZE
    else header_encode h.
Proof.
  unfold header_encode.
  destruct (negb _); [reflexivity|]. destruct (negb _); [reflexivity|].
  destruct (_ <? _); [reflexivity|]. destruct (_ =? _); reflexivity.
Qed.

Lemma header_wf_fields h :
  header_wf h = true ->
  length (h_magic h) = 4%nat /\ h_version h < 2 ^ 16 /\ h_footer_offset h < 2 ^ 64 /\
  h_wal_offset h < 2 ^ 64 /\ h_wal_size h < 2 ^ 64 /\ h_wal_checkpoint_pos h < 2 ^ 64 /\
  h_wal_sequence h < 2 ^ 64 /\ length (h_toc_checksum h) = 32%nat /\
  bytes_ok (h_magic h) = true /\ bytes_ok (h_toc_checksum h) = true.
Proof.
  unfold header_wf. rewrite !andb_true_iff, !Nat.eqb_eq, !N.ltb_lt. tauto.
Qed.

Lemma header_encode_length h b : header_wf h = true -> header_encode h = Ok b -> length b = HEADER_SIZE.
Proof.
  intros Hwf He. apply header_wf_fields in Hwf as (Hm & _ & _ & _ & _ & _ & _ & Hc & _).
  unfold header_encode in He.
  destruct (negb _); [discriminate|]. destruct (negb _); [discriminate|].
  destruct (_ <? _); [discriminate|]. destruct (_ =? _); [discriminate|].
  apply Ok_inj in He; subst b. rewrite !app_length, !le_encode_length, zeros_length, Hm, Hc. reflexivity.
Qed.

(* ---------- decode ---------- *)
Lemma header_decode_ok_iff b h :
  header_decode b = Ok h <->
  length b = HEADER_SIZE /\ header_checks b = true /\ h = header_fields b.
Proof.
  unfold header_decode, header_checks, header_fields.
  destruct (Nat.eqb (length b) HEADER_SIZE) eqn:EL; cbn [negb].
  2:{ apply Nat.eqb_neq in EL. split; [discriminate | intros (HL & _); contradiction]. }
  apply Nat.eqb_eq in EL.
  destruct (bytes_eqb (slice b 0 4) MAGIC); cbn [negb andb]; [|split; [discriminate | intros (_ & ? & _); discriminate]].
  destruct (le_decode (slice b VERSION_OFFSET 2) =? EXPECTED_VERSION); cbn [negb andb]; [|split; [discriminate | intros (_ & ? & _); discriminate]].
  destruct (nth SPEC_BYTES_OFFSET b 0 =? SPEC_MAJOR); cbn [negb andb orb]; [|split; [discriminate | intros (_ & ? & _); discriminate]].
  destruct (nth (SPEC_BYTES_OFFSET + 1) b 0 =? SPEC_MINOR); cbn [negb andb orb]; [|split; [discriminate | intros (_ & ? & _); discriminate]].
  destruct (le_decode (slice b WAL_OFFSET_POS 8) <? WAL_OFFSET); cbn [negb andb]; [split; [discriminate | intros (_ & ? & _); discriminate]|].
  destruct (le_decode (slice b WAL_SIZE_POS 8) =? 0); cbn [negb andb]; [split; [discriminate | intros (_ & ? & _); discriminate]|].
  split.
  - intros E; inversion E; subst; auto.
  - intros (_ & _ & ->). reflexivity.
Qed.

(* decode answers Ok or Err, nothing else; and Err exactly when a check fails *)
Lemma header_decode_err_iff b :
  (exists k, header_decode b = Err k) <-> (length b <> HEADER_SIZE \/ header_checks b = false).
Proof.
  unfold header_decode, header_checks.
  destruct (Nat.eqb (length b) HEADER_SIZE) eqn:EL; cbn [negb].
  2:{ apply Nat.eqb_neq in EL. split; [auto | intros _; eexists; reflexivity]. }
  apply Nat.eqb_eq in EL.
  destruct (bytes_eqb (slice b 0 4) MAGIC); cbn [negb andb]; [|split; [auto | intros _; eexists; reflexivity]].
  destruct (le_decode (slice b VERSION_OFFSET 2) =? EXPECTED_VERSION); cbn [negb andb]; [|split; [auto | intros _; eexists; reflexivity]].
  destruct (nth SPEC_BYTES_OFFSET b 0 =? SPEC_MAJOR); cbn [negb andb orb]; [|split; [auto | intros _; eexists; reflexivity]].
  destruct (nth (SPEC_BYTES_OFFSET + 1) b 0 =? SPEC_MINOR); cbn [negb andb orb]; [|split; [auto | intros _; eexists; reflexivity]].
  destruct (le_decode (slice b WAL_OFFSET_POS 8) <? WAL_OFFSET); cbn [negb andb]; [split; [auto | intros _; eexists; reflexivity]|].
  destruct (le_decode (slice b WAL_SIZE_POS 8) =? 0); cbn [negb andb]; [split; [auto | intros _; eexists; reflexivity]|].
  split; [intros [? ?]; discriminate | intros [?|?]; [contradiction | discriminate]].
Qed.

Lemma header_decode_no_panic b s : header_decode b <> Panic s.
Proof.
  unfold header_decode.
  destruct (negb _); [discriminate|]. destruct (negb _); [discriminate|]. destruct (negb _); [discriminate|].
  destruct (_ || _); [discriminate|]. destruct (_ <? _); [discriminate|]. destruct (_ =? _); discriminate.
Qed.

(* the individual rejections, by name *)
Lemma header_decode_rejects_magic b :
  length b = HEADER_SIZE -> firstn 4 b <> MAGIC -> header_decode b = Err E_MAGIC.
Proof.
  intros HL HM. unfold header_decode. rewrite HL, Nat.eqb_refl. cbn [negb].
  destruct (bytes_eqb (slice b 0 4) MAGIC) eqn:E; [|reflexivity].
  apply bytes_eqb_spec in E. unfold slice in E. cbn [skipn] in E. contradiction.
Qed.

Lemma header_decode_rejects_version b :
  length b = HEADER_SIZE -> firstn 4 b = MAGIC -> le_decode (slice b VERSION_OFFSET 2) <> EXPECTED_VERSION ->
  header_decode b = Err E_VERSION.
Proof.
  intros HL HM HV. unfold header_decode. rewrite HL, Nat.eqb_refl. cbn [negb].
  unfold slice at 1. cbn [skipn]. rewrite HM, bytes_eqb_refl. cbn [negb].
  destruct (_ =? EXPECTED_VERSION) eqn:E; [apply N.eqb_eq in E; contradiction | reflexivity].
Qed.

Lemma header_decode_rejects_spec b :
  length b = HEADER_SIZE -> (nth SPEC_BYTES_OFFSET b 0 <> SPEC_MAJOR \/ nth (SPEC_BYTES_OFFSET + 1) b 0 <> SPEC_MINOR) ->
  exists k, header_decode b = Err k.
Proof.
  intros HL HS. apply header_decode_err_iff. right. unfold header_checks.
  destruct HS as [HS|HS]; apply N.eqb_neq in HS; rewrite HS; rewrite ?andb_false_r; reflexivity.
Qed.

Lemma header_decode_rejects_wal_offset b :
  length b = HEADER_SIZE -> le_decode (slice b WAL_OFFSET_POS 8) < WAL_OFFSET -> exists k, header_decode b = Err k.
Proof.
  intros HL HS. apply header_decode_err_iff. right. unfold header_checks.
  apply N.ltb_lt in HS. rewrite HS. cbn [negb]. rewrite ?andb_false_r. reflexivity.
Qed.

Lemma header_decode_rejects_wal_size b :
  length b = HEADER_SIZE -> le_decode (slice b WAL_SIZE_POS 8) = 0 -> exists k, header_decode b = Err k.
Proof.
  intros HL HS. apply header_decode_err_iff. right. unfold header_checks.
  rewrite HS. change (0 =? 0) with true. cbn [negb]. rewrite ?andb_false_r. reflexivity.
Qed.

(* decode reads bytes 0..80 and nothing else *)
Lemma header_decode_ignores_padding b b' :
  length b = HEADER_SIZE -> length b' = HEADER_SIZE ->
  firstn TOC_CHECKSUM_END b = firstn TOC_CHECKSUM_END b' -> header_decode b = header_decode b'.
Proof.
  intros HL HL' HF.
  assert (HS : forall off len, (off + len <= TOC_CHECKSUM_END)%nat -> slice b off len = slice b' off len).
  { intros off len Hle. rewrite <- (slice_firstn b TOC_CHECKSUM_END), <- (slice_firstn b' TOC_CHECKSUM_END) by assumption.
    rewrite HF. reflexivity. }
  assert (HN : forall i, (i < TOC_CHECKSUM_END)%nat -> nth i b 0 = nth i b' 0).
  { intros i Hi. rewrite <- (nth_firstn_lt b TOC_CHECKSUM_END), <- (nth_firstn_lt b' TOC_CHECKSUM_END) by assumption.
    rewrite HF. reflexivity. }
  unfold header_decode. rewrite HL, HL'.
  rewrite !(HS 0%nat 4%nat), !(HS VERSION_OFFSET 2%nat), !(HS FOOTER_OFFSET_POS 8%nat), !(HS WAL_OFFSET_POS 8%nat),
          !(HS WAL_SIZE_POS 8%nat), !(HS WAL_CHECKPOINT_POS 8%nat), !(HS WAL_SEQUENCE_POS 8%nat), !(HS TOC_CHECKSUM_POS 32%nat)
    by (cbv; lia).
  rewrite (HN SPEC_BYTES_OFFSET), (HN (SPEC_BYTES_OFFSET + 1)%nat) by (cbv; lia).
  reflexivity.
Qed.

(* ---------- round trip ---------- *)
Lemma header_decode_encode h :
  header_wf h = true -> header_valid h = true ->
  exists b, header_encode h = Ok b /\ length b = HEADER_SIZE /\ header_decode b = Ok h.
Proof.
  intros Hwf Hv.
  destruct (proj2 (header_encode_ok_iff h) Hv) as [b Hb].
  exists b. split; [exact Hb|]. pose proof (header_encode_length h b Hwf Hb) as HL. split; [exact HL|].
  apply header_wf_fields in Hwf as (Hm & Hver & Hfo & Hwo & Hws & Hcp & Hsq & Hc & _ & _).
  unfold header_valid in Hv. rewrite !andb_true_iff in Hv. destruct Hv as (((Hmag & Hvv) & Hwoff) & Hwsz).
  unfold header_encode in Hb. rewrite Hmag, Hvv in Hb. cbn [negb] in Hb.
  destruct (h_wal_offset h <? WAL_OFFSET) eqn:E1; [discriminate|].
  destruct (h_wal_size h =? 0) eqn:E2; [discriminate|].
  apply Ok_inj in Hb. rename Hb into Hbb.
  pose proof (layout (h_magic h) (le_encode 2 (h_version h)) [SPEC_MAJOR; SPEC_MINOR]
                     (le_encode 8 (h_footer_offset h)) (le_encode 8 (h_wal_offset h)) (le_encode 8 (h_wal_size h))
                     (le_encode 8 (h_wal_checkpoint_pos h)) (le_encode 8 (h_wal_sequence h)) (h_toc_checksum h)
                     (zeros (HEADER_SIZE - TOC_CHECKSUM_END))
                     Hm (le_encode_length _ _) eq_refl (le_encode_length _ _) (le_encode_length _ _)
                     (le_encode_length _ _) (le_encode_length _ _) (le_encode_length _ _) Hc) as L.
  cbv zeta in L. rewrite Hbb in L.
  destruct L as (L0 & L1 & L2 & L3 & L4 & L5 & L6 & L7 & L8 & L9 & _).
  apply header_decode_ok_iff. split; [exact HL|]. split.
  - unfold header_checks. rewrite L0, L1, L2, L3, L5, L6.
    rewrite !le_decode_encode by (first [exact Hver | exact Hwo | exact Hws]).
    rewrite Hmag, Hvv, E1, E2. reflexivity.
  - unfold header_fields. rewrite L0, L1, L4, L5, L6, L7, L8, L9.
    rewrite !le_decode_encode by (first [exact Hver | exact Hfo | exact Hwo | exact Hws | exact Hcp | exact Hsq]).
    destruct h; reflexivity.
Qed.


(* ---------- read / write on a file ---------- *)
Lemma clear_legacy_length buf : length buf = HEADER_SIZE -> length (clear_legacy buf) = HEADER_SIZE.
Proof.
  intros HL. unfold clear_legacy. rewrite !app_length, firstn_length, skipn_length, zeros_length, HL. reflexivity.
Qed.

Lemma clear_legacy_firstn buf :
  length buf = HEADER_SIZE -> firstn TOC_CHECKSUM_END (clear_legacy buf) = firstn TOC_CHECKSUM_END buf.
Proof.
  intros HL. unfold clear_legacy.
  rewrite firstn_app. rewrite firstn_length, HL.
  change (TOC_CHECKSUM_END - Nat.min LEGACY_LOCK_REGION_START HEADER_SIZE)%nat with 0%nat.
  cbn [firstn]. rewrite app_nil_r. rewrite firstn_firstn. reflexivity.
Qed.

(* the legacy-lock scrub never changes what read returns *)
Lemma header_read_result file :
  (HEADER_SIZE <= length file)%nat -> fst (header_read file) = header_decode (firstn HEADER_SIZE file).
Proof.
  intros HL. unfold header_read.
  replace (Nat.ltb (length file) HEADER_SIZE) with false by lia.
  assert (HB : length (firstn HEADER_SIZE file) = HEADER_SIZE) by (rewrite firstn_length; lia).
  destruct (legacy_dirty _); cbn [fst]; [|reflexivity].
  apply header_decode_ignores_padding; [apply clear_legacy_length; exact HB | exact HB | apply clear_legacy_firstn; exact HB].
Qed.

Lemma header_read_short file : (length file < HEADER_SIZE)%nat -> header_read file = (Err E_IO, file).
Proof. intros HL. unfold header_read. replace (Nat.ltb (length file) HEADER_SIZE) with true by lia. reflexivity. Qed.

Lemma zeros_clean : legacy_dirty (zeros TOC_CHECKSUM_END ++ zeros (HEADER_SIZE - TOC_CHECKSUM_END)) = false.
Proof. vm_compute. reflexivity. Qed.

Lemma legacy_dirty_depends buf buf' :
  skipn TOC_CHECKSUM_END buf = skipn TOC_CHECKSUM_END buf' -> legacy_dirty buf = legacy_dirty buf'.
Proof. intros HS. unfold legacy_dirty, slice. change LEGACY_LOCK_REGION_START with TOC_CHECKSUM_END. rewrite HS. reflexivity. Qed.

Lemma header_read_write file h :
  header_wf h = true -> header_valid h = true ->
  exists file', header_write file h = Ok file' /\ header_read file' = (Ok h, file') /\
                skipn HEADER_SIZE file' = skipn HEADER_SIZE file.
Proof.
  intros Hwf Hv. destruct (header_decode_encode h Hwf Hv) as (b & Hb & HL & Hd).
  exists (write_at0 file b). unfold header_write. rewrite Hb. split; [reflexivity|].
  unfold write_at0. rewrite HL.
  assert (HF : firstn HEADER_SIZE (b ++ skipn HEADER_SIZE file) = b).
  { rewrite firstn_app, HL, Nat.sub_diag. cbn [firstn]. rewrite app_nil_r. rewrite <- HL. apply firstn_all. }
  split.
  - unfold header_read. rewrite app_length, HL.
    replace (Nat.ltb (HEADER_SIZE + length (skipn HEADER_SIZE file)) HEADER_SIZE) with false by lia.
    rewrite HF.
    assert (HC : legacy_dirty b = false).
    { rewrite <- zeros_clean. apply legacy_dirty_depends.
      apply header_wf_fields in Hwf as (Hm & _ & _ & _ & _ & _ & _ & Hc & _).
      unfold header_encode in Hb.
      destruct (negb _); [discriminate|]. destruct (negb _); [discriminate|].
      destruct (_ <? _); [discriminate|]. destruct (_ =? _); [discriminate|].
      apply Ok_inj in Hb.
      pose proof (layout (h_magic h) (le_encode 2 (h_version h)) [SPEC_MAJOR; SPEC_MINOR]
                     (le_encode 8 (h_footer_offset h)) (le_encode 8 (h_wal_offset h)) (le_encode 8 (h_wal_size h))
                     (le_encode 8 (h_wal_checkpoint_pos h)) (le_encode 8 (h_wal_sequence h)) (h_toc_checksum h)
                     (zeros (HEADER_SIZE - TOC_CHECKSUM_END))
                     Hm (le_encode_length _ _) eq_refl (le_encode_length _ _) (le_encode_length _ _)
                     (le_encode_length _ _) (le_encode_length _ _) (le_encode_length _ _) Hc) as L.
      cbv zeta in L. rewrite Hb in L. destruct L as (_ & _ & _ & _ & _ & _ & _ & _ & _ & _ & _ & L).
      rewrite L. rewrite skipn_app, zeros_length, Nat.sub_diag. cbn [skipn].
      rewrite skipn_all2 by (rewrite zeros_length; lia). reflexivity. }
    rewrite HC, Hd. reflexivity.
  - rewrite skipn_app, HL, Nat.sub_diag. cbn [skipn]. rewrite skipn_all2 by lia. reflexivity.
Qed.

(* ---------- canonical form: an accepted image re-encodes to itself on bytes 0..80 ---------- *)
Lemma In_firstn' {A} (l : list A) n x : In x (firstn n l) -> In x l.
Proof.
  revert l; induction n as [|n IH]; intros l Hx; [contradiction|].
  destruct l as [|y l]; [contradiction|]. cbn [firstn] in Hx. destruct Hx as [->|Hx]; [left; reflexivity | right; apply IH; exact Hx].
Qed.
Lemma In_skipn' {A} (l : list A) n x : In x (skipn n l) -> In x l.
Proof.
  revert l; induction n as [|n IH]; intros l Hx; [exact Hx|].
  destruct l as [|y l]; [contradiction|]. cbn [skipn] in Hx. right; apply IH; exact Hx.
Qed.
Lemma In_slice {A} (b : list A) off len x : In x (slice b off len) -> In x b.
Proof. unfold slice. intros Hx. eapply In_skipn', In_firstn'; exact Hx. Qed.

Lemma slice_bytes_ok b off len : bytes_ok b = true -> bytes_ok (slice b off len) = true.
Proof.
  unfold bytes_ok. rewrite !forallb_forall. intros Hb x Hx. apply Hb. eapply In_slice; exact Hx.
Qed.

Lemma skipn_add {A} (l : list A) a b : skipn a (skipn b l) = skipn (b + a) l.
Proof.
  revert l; induction b as [|b IH]; intros l; [reflexivity|].
  destruct l as [|x l]; [destruct a; reflexivity|]. cbn [skipn Nat.add]. apply IH.
Qed.

Lemma slice_cat {A} (b : list A) off l1 l2 : slice b off l1 ++ slice b (off + l1) l2 = slice b off (l1 + l2).
Proof.
  unfold slice. rewrite <- (firstn_slice_cat (skipn off b) l1 l2). unfold slice.
  rewrite skipn_add. reflexivity.
Qed.

Lemma nth_as_slice (b : bytes) i : (i < length b)%nat -> slice b i 1 = [nth i b 0].
Proof.
  intros Hi. unfold slice. revert b Hi; induction i as [|i IH]; intros b Hi.
  - destruct b; [cbn in Hi; lia | reflexivity].
  - destruct b as [|x b]; [cbn in Hi; lia|]. cbn [skipn nth]. apply IH. cbn in Hi. lia.
Qed.

Lemma header_decode_canonical b h :
  bytes_ok b = true -> header_decode b = Ok h ->
  header_encode h = Ok (firstn TOC_CHECKSUM_END b ++ zeros (HEADER_SIZE - TOC_CHECKSUM_END)).
Proof.
  intros Hok Hd. apply header_decode_ok_iff in Hd as (HL & Hc & ->).
  unfold header_checks in Hc. rewrite !andb_true_iff in Hc.
  destruct Hc as (((((C1 & C2) & C3) & C4) & C5) & C6).
  unfold header_encode, header_fields; cbn [h_magic h_version h_footer_offset h_wal_offset h_wal_size
                                            h_wal_checkpoint_pos h_wal_sequence h_toc_checksum].
  rewrite C1, C2. cbn [negb].
  apply negb_true_iff in C5, C6. rewrite C5, C6.
  f_equal.
  assert (SL : forall off len, (off + len <= length b)%nat -> length (slice b off len) = len)
    by (intros; apply slice_length; assumption).
  assert (RE : forall off len, (off + len <= length b)%nat ->
                               le_encode len (le_decode (slice b off len)) = slice b off len).
  { intros off len Hle. rewrite <- (SL off len Hle) at 1. apply le_encode_decode. apply slice_bytes_ok; exact Hok. }
  rewrite HL in RE.
  rewrite (RE VERSION_OFFSET 2%nat), (RE FOOTER_OFFSET_POS 8%nat), (RE WAL_OFFSET_POS 8%nat), (RE WAL_SIZE_POS 8%nat),
          (RE WAL_CHECKPOINT_POS 8%nat), (RE WAL_SEQUENCE_POS 8%nat) by (cbv; lia).
  apply N.eqb_eq in C3, C4.
  replace [SPEC_MAJOR; SPEC_MINOR] with (slice b SPEC_BYTES_OFFSET 1 ++ slice b (SPEC_BYTES_OFFSET + 1) 1).
  2:{ rewrite !nth_as_slice by (rewrite HL; cbv; lia). rewrite C3, C4. reflexivity. }
  rewrite !app_assoc. f_equal. rewrite <- !app_assoc.
  change VERSION_OFFSET with (0 + 4)%nat. rewrite (app_assoc (slice b 0 4)), slice_cat.
  change SPEC_BYTES_OFFSET with (0 + (4 + 2))%nat. rewrite (app_assoc (slice b 0 (4 + 2))), slice_cat.
  change (0 + (4 + 2) + 1)%nat with (0 + (4 + 2 + 1))%nat. rewrite (app_assoc (slice b 0 (4 + 2 + 1))), slice_cat.
  change FOOTER_OFFSET_POS with (0 + (4 + 2 + 1 + 1))%nat. rewrite (app_assoc (slice b 0 (4 + 2 + 1 + 1))), slice_cat.
  change WAL_OFFSET_POS with (0 + (4 + 2 + 1 + 1 + 8))%nat. rewrite (app_assoc (slice b 0 _)), slice_cat.
  change WAL_SIZE_POS with (0 + (4 + 2 + 1 + 1 + 8 + 8))%nat. rewrite (app_assoc (slice b 0 _)), slice_cat.
  change WAL_CHECKPOINT_POS with (0 + (4 + 2 + 1 + 1 + 8 + 8 + 8))%nat. rewrite (app_assoc (slice b 0 _)), slice_cat.
  change WAL_SEQUENCE_POS with (0 + (4 + 2 + 1 + 1 + 8 + 8 + 8 + 8))%nat. rewrite (app_assoc (slice b 0 _)), slice_cat.
  change TOC_CHECKSUM_POS with (0 + (4 + 2 + 1 + 1 + 8 + 8 + 8 + 8 + 8))%nat. rewrite slice_cat.
  reflexivity.
Qed.

(* two accepted images of the same header agree on every byte decode looks at *)
Lemma header_decode_injective b b' h :
  bytes_ok b = true -> bytes_ok b' = true -> header_decode b = Ok h -> header_decode b' = Ok h ->
  firstn TOC_CHECKSUM_END b = firstn TOC_CHECKSUM_END b'.
Proof.
  intros Hb Hb' Hd Hd'.
  pose proof (header_decode_canonical b h Hb Hd) as E1.
  pose proof (header_decode_canonical b' h Hb' Hd') as E2.
  rewrite E1 in E2. apply Ok_inj in E2.
  apply header_decode_ok_iff in Hd as (HL & _). apply header_decode_ok_iff in Hd' as (HL' & _).
  apply app_inv_tail in E2. exact E2.
Qed.

(* ---------- constants tied to the regenerated ones ---------- *)
Lemma header_consts_tied :
  MAGIC = MV.Gen.Consts.HEADER_MAGIC /\ N.of_nat HEADER_SIZE = MV.Gen.Consts.HEADER_SIZE /\
  SPEC_MAJOR = MV.Gen.Consts.SPEC_MAJOR /\ SPEC_MINOR = MV.Gen.Consts.SPEC_MINOR /\
  WAL_OFFSET = MV.Gen.Consts.WAL_OFFSET /\ EXPECTED_VERSION = MV.Gen.Consts.HDR_EXPECTED_VERSION /\
  N.of_nat VERSION_OFFSET = MV.Gen.Consts.HDR_VERSION_OFFSET /\
  N.of_nat SPEC_BYTES_OFFSET = MV.Gen.Consts.HDR_SPEC_BYTES_OFFSET /\
  N.of_nat FOOTER_OFFSET_POS = MV.Gen.Consts.HDR_FOOTER_OFFSET_POS /\
  N.of_nat WAL_OFFSET_POS = MV.Gen.Consts.HDR_WAL_OFFSET_POS /\
  N.of_nat WAL_SIZE_POS = MV.Gen.Consts.HDR_WAL_SIZE_POS /\
  N.of_nat WAL_CHECKPOINT_POS = MV.Gen.Consts.HDR_WAL_CHECKPOINT_POS /\
  N.of_nat WAL_SEQUENCE_POS = MV.Gen.Consts.HDR_WAL_SEQUENCE_POS /\
  N.of_nat TOC_CHECKSUM_POS = MV.Gen.Consts.HDR_TOC_CHECKSUM_POS /\
  N.of_nat TOC_CHECKSUM_END = MV.Gen.Consts.HDR_TOC_CHECKSUM_END.
Proof. repeat split; reflexivity. Qed.
