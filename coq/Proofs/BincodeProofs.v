From MV Require Import Base.Prelude Base.Facts Model.Bincode.
Require Import ZifyBool ZifyNat ZifyN.
Local Open Scope N_scope.

(* ---------- induction over schemas (children of a node) ---------- *)
Definition children (s : schema) : list schema :=
  match s with
  | SOpt s' | SVec _ s' | SMap _ s' | SArr _ s' => [s']
  | STup l => l
  | _ => []
  end.

Lemma schema_strong_ind (P : schema -> Prop) :
  (forall s, (forall c, In c (children s) -> P c) -> P s) -> forall s, P s.
Proof.
  intros H. fix IH 1. intros s. apply H.
  destruct s; cbn [children]; try solve [intros c []]; try solve [intros c [<-|[]]; apply IH].
  match goal with ll : list schema |- _ => induction ll as [|x r IHl] end; intros c Hin; [destruct Hin|].
  destruct Hin as [<-|Hin]; [apply IH | apply IHl; exact Hin].
Qed.

(* ---------- small list facts ---------- *)
Lemma firstn_app_exact {A} (a b : list A) n : length a = n -> firstn n (a ++ b) = a.
Proof. intros <-. rewrite firstn_app, Nat.sub_diag, firstn_all. cbn [firstn]. apply app_nil_r. Qed.
Lemma skipn_app_exact {A} (a b : list A) n : length a = n -> skipn n (a ++ b) = b.
Proof. intros <-. rewrite skipn_app, Nat.sub_diag, skipn_all. reflexivity. Qed.
Lemma map_repeat' {A B} (f : A -> B) x n : map f (repeat x n) = repeat (f x) n.
Proof. induction n as [|n IH]; [reflexivity|]. cbn [repeat map]. rewrite IH. reflexivity. Qed.

(* ---------- primitives ---------- *)
Lemma take_app k a rest : length a = k -> take k (a ++ rest) = Ok (a, rest).
Proof.
  intros HL. unfold take. rewrite app_length, HL.
  replace (Nat.ltb (k + length rest) k) with false by lia.
  rewrite firstn_app_exact, skipn_app_exact by exact HL. reflexivity.
Qed.

Lemma dec_uint_enc k n rest : n < 256 ^ N.of_nat k -> dec_uint k (le_encode k n ++ rest) = Ok (n, rest).
Proof.
  intros Hn. unfold dec_uint. rewrite take_app by apply le_encode_length. cbn [bind fst snd].
  rewrite le_decode_encode by exact Hn. reflexivity.
Qed.
Lemma dec_uint_enc1 n rest : n < 2 ^ 8 -> dec_uint 1 (le_encode 1 n ++ rest) = Ok (n, rest).
Proof. intros Hn. apply dec_uint_enc. change (256 ^ N.of_nat 1) with (2 ^ 8). exact Hn. Qed.
Lemma dec_uint_enc2 n rest : n < 2 ^ 16 -> dec_uint 2 (le_encode 2 n ++ rest) = Ok (n, rest).
Proof. intros Hn. apply dec_uint_enc. change (256 ^ N.of_nat 2) with (2 ^ 16). exact Hn. Qed.
Lemma dec_uint_enc4 n rest : n < 2 ^ 32 -> dec_uint 4 (le_encode 4 n ++ rest) = Ok (n, rest).
Proof. intros Hn. apply dec_uint_enc. change (256 ^ N.of_nat 4) with (2 ^ 32). exact Hn. Qed.
Lemma dec_uint_enc8 n rest : n < 2 ^ 64 -> dec_uint 8 (le_encode 8 n ++ rest) = Ok (n, rest).
Proof. intros Hn. apply dec_uint_enc. change (256 ^ N.of_nat 8) with (2 ^ 64). exact Hn. Qed.

Lemma dec_blob_enc b rest : N.of_nat (length b) < 2 ^ 64 -> dec_blob (enc_blob b ++ rest) = Ok (b, rest).
Proof.
  intros HL. unfold dec_blob, enc_blob. rewrite <- app_assoc, dec_uint_enc8 by exact HL. cbn [bind fst snd].
  rewrite app_length. replace (N.of_nat (length b + length rest) <? N.of_nat (length b)) with false by lia.
  rewrite Nat2N.id, firstn_app_exact, skipn_app_exact by reflexivity. reflexivity.
Qed.

Lemma str_ok_parts b : str_ok b = true -> bytes_ok b = true /\ utf8_valid b = true /\ N.of_nat (length b) < 2 ^ 64.
Proof. unfold str_ok. rewrite !andb_true_iff, N.ltb_lt. tauto. Qed.

Lemma dec_string_enc b rest : str_ok b = true -> dec_string (enc_blob b ++ rest) = Ok (b, rest).
Proof.
  intros Hs. apply str_ok_parts in Hs as (_ & Hu & HL).
  unfold dec_string. rewrite dec_blob_enc by exact HL. cbn [bind fst]. rewrite Hu. reflexivity.
Qed.

Lemma i64_roundtrip z : (- 2 ^ 63 <= z < 2 ^ 63)%Z -> i64_dec (i64_enc z) = z.
Proof.
  intros Hz. unfold i64_dec, i64_enc.
  change (2 ^ 63)%N with 9223372036854775808%N. change (2 ^ 64)%Z with 18446744073709551616%Z in *.
  change (2 ^ 63)%Z with 9223372036854775808%Z in *.
  destruct (Z.to_N (z mod 18446744073709551616) <? 9223372036854775808) eqn:E; lia.
Qed.
Lemma i64_enc_bound z : i64_enc z < 2 ^ 64.
Proof. unfold i64_enc. change (2 ^ 64)%N with 18446744073709551616%N. change (2 ^ 64)%Z with 18446744073709551616%Z. lia. Qed.

(* ---------- String order ---------- *)
Lemma bytes_cmp_antisym a : forall b, bytes_cmp a b = CompOpp (bytes_cmp b a).
Proof.
  induction a as [|x a IH]; intros [|y b]; cbn [bytes_cmp CompOpp]; try reflexivity.
  rewrite (N.compare_antisym y x). destruct (y ?= x); cbn [CompOpp]; [apply IH | reflexivity | reflexivity].
Qed.

Lemma bytes_ltb_gt a k : bytes_ltb a k = true -> bytes_cmp k a = Gt.
Proof.
  unfold bytes_ltb. rewrite (bytes_cmp_antisym k a). destruct (bytes_cmp a k); cbn [CompOpp]; [discriminate | reflexivity | discriminate].
Qed.

Lemma map_insert_last k v acc :
  (forall a, In a acc -> bytes_ltb (fst a) k = true) -> map_insert k v acc = acc ++ [(k, v)].
Proof.
  induction acc as [|[k' v'] r IH]; intros Hall; [reflexivity|]. cbn [map_insert app].
  rewrite (bytes_ltb_gt k' k) by (apply (Hall (k', v')); left; reflexivity).
  rewrite IH by (intros a Ha; apply Hall; right; exact Ha). reflexivity.
Qed.

(* ---------- sequences ---------- *)
Definition rt (s : schema) : Prop :=
  forall v rest, wt s v = true -> dec s (enc s v ++ rest) = Ok (v, rest).

Lemma seq_roundtrip (ss : list schema) :
  Forall rt ss ->
  forall vs rest, wt_seq (map wt ss) vs = true ->
    dec_seq (map dec ss) (enc_seq (map enc ss) vs ++ rest) = Ok (vs, rest).
Proof.
  induction ss as [|s ss IH]; intros HF vs rest Hwt.
  - destruct vs; [reflexivity | discriminate].
  - destruct vs as [|v vs]; [discriminate|]. cbn [map wt_seq] in Hwt. apply andb_true_iff in Hwt as [Hv Hvs].
    inversion HF as [|? ? Hs Hss]; subst.
    cbn [map enc_seq dec_seq]. rewrite <- app_assoc, (Hs v _ Hv). cbn [bind fst snd].
    rewrite (IH Hss vs rest Hvs). reflexivity.
Qed.

Lemma wt_seq_repeat f l : wt_seq (repeat f (length l)) l = forallb f l.
Proof. induction l as [|v l IH]; [reflexivity|]. cbn [length repeat wt_seq forallb]. rewrite IH. reflexivity. Qed.

Lemma wt_seq_length fs vs : wt_seq fs vs = true -> length vs = length fs.
Proof.
  revert vs; induction fs as [|f fs IH]; intros [|v vs] H; try discriminate; [reflexivity|].
  cbn [wt_seq] in H. apply andb_true_iff in H as [_ H]. cbn [length]. rewrite (IH _ H). reflexivity.
Qed.

(* ---------- every encoding of a `nonzero` schema has at least one byte ---------- *)
Lemma enc_seq_exists_length (ss : list schema) :
  Forall (fun s => nonzero s = true -> forall v, wt s v = true -> (1 <= length (enc s v))%nat) ss ->
  existsb nonzero ss = true ->
  forall vs, wt_seq (map wt ss) vs = true -> (1 <= length (enc_seq (map enc ss) vs))%nat.
Proof.
  induction ss as [|s ss IH]; intros HF Hex vs Hwt; [discriminate|].
  destruct vs as [|v vs]; [discriminate|]. cbn [map wt_seq] in Hwt. apply andb_true_iff in Hwt as [Hv Hvs].
  inversion HF as [|? ? Hs Hss]; subst. cbn [map enc_seq]. rewrite app_length.
  cbn [existsb] in Hex. apply orb_true_iff in Hex as [Hn|Hn].
  - pose proof (Hs Hn v Hv). lia.
  - pose proof (IH Hss Hn vs Hvs). lia.
Qed.

Lemma enc_nonzero : forall s, nonzero s = true -> forall v, wt s v = true -> (1 <= length (enc s v))%nat.
Proof.
  apply (schema_strong_ind (fun s => nonzero s = true -> forall v, wt s v = true -> (1 <= length (enc s v))%nat)).
  intros s IH Hnz v Hwt.
  destruct s; destruct v; cbn [wt] in Hwt; try discriminate Hwt; cbn [enc];
    try (rewrite le_encode_length; lia); try (unfold enc_blob; rewrite app_length, le_encode_length; lia);
    try (cbn [length]; lia); try (rewrite app_length, le_encode_length; lia).
  - (* SFix *) cbn [nonzero] in Hnz. apply andb_true_iff in Hwt as [HL _]. apply Nat.eqb_eq in HL.
    apply negb_true_iff, Nat.eqb_neq in Hnz. lia.
  - (* SArr *) cbn [nonzero] in Hnz. apply andb_true_iff in Hnz as [Hn Hs]. apply negb_true_iff, Nat.eqb_neq in Hn.
    destruct n as [|n]; [contradiction|]. destruct l as [|v l]; [discriminate|].
    cbn [repeat wt_seq] in Hwt. apply andb_true_iff in Hwt as [Hv _].
    cbn [repeat enc_seq]. rewrite app_length.
    pose proof (IH s (or_introl eq_refl) Hs v Hv). lia.
  - (* STup *) cbn [nonzero] in Hnz. apply enc_seq_exists_length; [|exact Hnz | exact Hwt].
    apply Forall_forall. intros c Hc. apply IH. exact Hc.
Qed.

Lemma enc_seq_repeat_length (e : value -> bytes) (w : value -> bool) l :
  (forall v, w v = true -> (1 <= length (e v))%nat) -> forallb w l = true ->
  (length l <= length (enc_seq (repeat e (length l)) l))%nat.
Proof.
  intros He. induction l as [|v l IH]; intros Hw; [cbn; lia|].
  cbn [forallb] in Hw. apply andb_true_iff in Hw as [Hv Hl].
  cbn [length repeat enc_seq]. rewrite app_length. pose proof (He v Hv). specialize (IH Hl). lia.
Qed.

Lemma flat_map_length_ge {A} (g : A -> bytes) l :
  (forall x, (1 <= length (g x))%nat) -> (length l <= length (flat_map g l))%nat.
Proof.
  intros Hg. induction l as [|x l IH]; [cbn; lia|]. cbn [flat_map length]. rewrite app_length. pose proof (Hg x). lia.
Qed.

(* ---------- the map loop on the encoding of a key-sorted entry list ---------- *)
Lemma dec_map_enc (f : decoder) (e : value -> bytes) (w : value -> bool) bound :
  (forall v rest, w v = true -> f (e v ++ rest) = Ok (v, rest)) ->
  forall l acc rest,
    forallb (fun x => is_pair x && str_ok (key_of x) && w (val_of x)) l = true ->
    keys_sorted l = true ->
    (forall a x, In a acc -> In x l -> bytes_ltb (fst a) (key_of x) = true) ->
    within bound (N.of_nat (length acc + length l)) = true ->
    dec_map f bound (length l) (flat_map (fun x => enc_blob (key_of x) ++ e (val_of x)) l ++ rest) acc
    = Ok (acc ++ map (fun x => (key_of x, val_of x)) l, rest).
Proof.
  intros Hf. induction l as [|x l IH]; intros acc rest Hw Hs Hacc Hb.
  - cbn. rewrite app_nil_r. reflexivity.
  - cbn [forallb] in Hw. apply andb_true_iff in Hw as [Hx Hl].
    apply andb_true_iff in Hx as [Hx Hwv]. apply andb_true_iff in Hx as [_ Hk].
    cbn [keys_sorted] in Hs. apply andb_true_iff in Hs as [Hlt Hs'].
    cbn [length flat_map dec_map]. rewrite <- !app_assoc.
    rewrite dec_string_enc by exact Hk. cbn [bind fst snd].
    rewrite (Hf _ _ Hwv). cbn [bind fst snd].
    assert (Hbc : match bound with Some b => N.of_nat (length acc) =? b | None => false end = false).
    { destruct bound as [b|]; [|reflexivity]. cbn [within length] in Hb. lia. }
    rewrite Hbc.
    rewrite map_insert_last by (intros a Ha; apply (Hacc a x Ha); left; reflexivity).
    rewrite IH.
    + rewrite <- app_assoc. reflexivity.
    + exact Hl.
    + exact Hs'.
    + intros a y Ha Hy. apply in_app_or in Ha as [Ha|[<-|[]]].
      * apply (Hacc a y Ha). right; exact Hy.
      * cbn [fst]. rewrite forallb_forall in Hlt. apply Hlt. exact Hy.
    + rewrite app_length. cbn [length] in *. replace (length acc + 1 + length l)%nat with (length acc + S (length l))%nat by lia. exact Hb.
Qed.

Lemma pairs_back l :
  forallb is_pair l = true -> map (fun kv : bytes * value => VPair (fst kv) (snd kv)) (map (fun x => (key_of x, val_of x)) l) = l.
Proof.
  induction l as [|x l IH]; intros H; [reflexivity|]. cbn [forallb] in H. apply andb_true_iff in H as [Hx Hl].
  cbn [map fst snd]. rewrite (IH Hl). destruct x; try discriminate. reflexivity.
Qed.

(* ---------- the generic round trip ---------- *)
Theorem codec_roundtrip :
  forall s, schema_ok s = true -> forall v rest, wt s v = true -> dec s (enc s v ++ rest) = Ok (v, rest).
Proof.
  apply (schema_strong_ind (fun s => schema_ok s = true -> rt s)). unfold rt.
  intros s IH Hok v rest Hwt.
  destruct s; destruct v; cbn [wt] in Hwt; try discriminate Hwt; cbn [enc dec].
  - (* SU8 *) rewrite dec_uint_enc1 by lia. reflexivity.
  - (* SU16 *) rewrite dec_uint_enc2 by lia. reflexivity.
  - (* SU32 *) rewrite dec_uint_enc4 by lia. reflexivity.
  - (* SU64 *) rewrite dec_uint_enc8 by lia. reflexivity.
  - (* SI64 *) rewrite dec_uint_enc8 by apply i64_enc_bound. cbn [bind fst snd]. rewrite i64_roundtrip by lia. reflexivity.
  - (* SBool *) destruct b.
    + change ([1] ++ rest) with (le_encode 1 1 ++ rest). rewrite dec_uint_enc1 by (cbv; reflexivity). reflexivity.
    + change ([0] ++ rest) with (le_encode 1 0 ++ rest). rewrite dec_uint_enc1 by (cbv; reflexivity). reflexivity.
  - (* SCanon *) assert (Hn : n = 0 \/ n = 1) by lia.
    destruct Hn as [-> | ->]; (rewrite dec_uint_enc4 by (cbv; reflexivity)); reflexivity.
  - (* SStr *) rewrite dec_string_enc by exact Hwt. reflexivity.
  - (* SBytes *) apply andb_true_iff in Hwt as [_ HL]. rewrite dec_blob_enc by lia. reflexivity.
  - (* SFix *) apply andb_true_iff in Hwt as [HL _]. apply Nat.eqb_eq in HL. rewrite take_app by exact HL. reflexivity.
  - (* SEnum *) apply andb_true_iff in Hwt as [Hi Hn]. rewrite dec_uint_enc4 by lia. cbn [bind fst snd]. rewrite Hi. reflexivity.
  - (* SOpt None *) change ([0] ++ rest) with (le_encode 1 0 ++ rest). rewrite dec_uint_enc1 by (cbv; reflexivity). reflexivity.
  - (* SOpt Some *) change ((1 :: enc s v) ++ rest) with (le_encode 1 1 ++ (enc s v ++ rest)).
    rewrite dec_uint_enc1 by (cbv; reflexivity). cbn [bind fst snd].
    change (1 =? 0) with false. change (1 =? 1) with true. cbn [schema_ok] in Hok.
    rewrite (IH s (or_introl eq_refl) Hok v rest Hwt). reflexivity.
  - (* SVec *) cbn [schema_ok] in Hok. apply andb_true_iff in Hok as [Hnz Hoks].
    apply andb_true_iff in Hwt as [Hwt Hall]. apply andb_true_iff in Hwt as [HL Hb].
    rewrite <- app_assoc, dec_uint_enc8 by lia. cbn [bind fst snd]. rewrite Hb. cbn [negb].
    pose proof (enc_seq_repeat_length (enc s) (wt s) l (enc_nonzero s Hnz) Hall) as Hlen.
    rewrite app_length.
    replace (N.of_nat (length (enc_seq (repeat (enc s) (length l)) l) + length rest) <? N.of_nat (length l)) with false by lia.
    rewrite Nat2N.id. rewrite <- !map_repeat'.
    rewrite seq_roundtrip; [reflexivity | | rewrite map_repeat', wt_seq_repeat; exact Hall].
    apply Forall_forall. intros c Hc. apply repeat_spec in Hc. subst c.
    intros v0 rest0 Hv0. apply (IH s (or_introl eq_refl) Hoks v0 rest0 Hv0).
  - (* SMap *) cbn [schema_ok] in Hok.
    apply andb_true_iff in Hwt as [Hwt Hall]. apply andb_true_iff in Hwt as [Hwt Hks]. apply andb_true_iff in Hwt as [HL Hb].
    rewrite <- app_assoc, dec_uint_enc8 by lia. cbn [bind fst snd].
    rewrite app_length.
    assert (Hlen : (length l <= length (flat_map (fun e0 => enc_blob (key_of e0) ++ enc s (val_of e0)) l))%nat).
    { apply flat_map_length_ge. intros x. unfold enc_blob. rewrite !app_length, le_encode_length. lia. }
    replace (N.of_nat (length (flat_map (fun e0 => enc_blob (key_of e0) ++ enc s (val_of e0)) l) + length rest) <? N.of_nat (length l)) with false by lia.
    rewrite Nat2N.id.
    rewrite (dec_map_enc (dec s) (enc s) (wt s) bound).
    + cbn [bind fst snd app]. rewrite pairs_back; [reflexivity|].
      rewrite forallb_forall in *. intros x Hx. specialize (Hall x Hx). rewrite !andb_true_iff in Hall. tauto.
    + intros v0 rest0 Hv0. apply (IH s (or_introl eq_refl) Hok v0 rest0 Hv0).
    + exact Hall.
    + exact Hks.
    + intros a x [].
    + cbn [length Nat.add]. exact Hb.
  - (* SArr *) cbn [schema_ok] in Hok. rewrite <- !map_repeat'.
    rewrite seq_roundtrip; [reflexivity | | rewrite map_repeat'; exact Hwt].
    apply Forall_forall. intros c Hc. apply repeat_spec in Hc. subst c.
    intros v0 rest0 Hv0. apply (IH s (or_introl eq_refl) Hok v0 rest0 Hv0).
  - (* STup *) cbn [schema_ok] in Hok.
    rewrite seq_roundtrip; [reflexivity | | exact Hwt].
    apply Forall_forall. intros c Hc. intros v0 rest0 Hv0.
    rewrite forallb_forall in Hok. apply (IH c Hc (Hok c Hc) v0 rest0 Hv0).
Qed.

(* ---------- the top level: exact decode, trailing bytes ---------- *)
Theorem decode_exact_roundtrip s v :
  schema_ok s = true -> wt s v = true -> decode_exact s (enc s v) = Ok v.
Proof.
  intros Hok Hwt. unfold decode_exact. rewrite <- (app_nil_r (enc s v)).
  rewrite (codec_roundtrip s Hok v [] Hwt). reflexivity.
Qed.

Theorem decode_exact_trailing s v rest :
  schema_ok s = true -> wt s v = true -> rest <> [] -> decode_exact s (enc s v ++ rest) = Err E_TRAILING.
Proof.
  intros Hok Hwt Hr. unfold decode_exact. rewrite (codec_roundtrip s Hok v rest Hwt).
  destruct rest; [contradiction | reflexivity].
Qed.

(* decode never panics *)
Lemma dec_seq_no_panic fs :
  Forall (fun f : decoder => forall bs p, f bs <> Panic p) fs -> forall bs p, dec_seq fs bs <> Panic p.
Proof.
  induction fs as [|f fs IH]; intros HF bs p; cbn [dec_seq]; [discriminate|].
  inversion HF as [|? ? Hf Hfs]; subst.
  destruct (f bs) as [[v r]| |] eqn:E; cbn [bind]; [| discriminate | exfalso; eapply Hf; exact E].
  cbn [snd]. destruct (dec_seq fs r) as [[vs r']| |] eqn:E2; cbn [bind]; [discriminate | discriminate | exfalso; eapply (IH Hfs); exact E2].
Qed.
