(* C28 on the models of C14 (vector index with its file image, Model/VecStore.v) and C15 (time
   index track, Model/Timeline.v): what a reopened / doctored handle loads is what the live handle
   answers from.  Kept apart from PersistProofs.v because the three models reuse names. *)
From MV Require Import Base.Prelude Model.Store.
From MV Require Model.VecStore Model.VecSpec Proofs.VecProofs Model.Timeline Proofs.TimelineProofs Proofs.StoreProofs.
Local Open Scope N_scope.

(* C14: for every history of the vector-index model, the documents
   Memvid::open loads from the manifest (`load`) are the documents of the live index, and the
   handle answers VecNotEnabled before exactly when it does after -- unless vec was enabled in
   memory only (placeholder manifest not yet written), in which case both hold no documents *)
Theorem vec_reload_C14 ops :
  let r := VecStore.vrun VecStore.vstate0 ops in
  let v := snd (fst r) in
  let xs := combine ops (snd r) in
  VecProofs.vrun_ok [] xs = true ->
  VecStore.mem_index (VecStore.load v) = VecStore.mem_index v /\
  (VecStore.vdisk v = VecStore.vmem v -> VecStore.observe_vec (VecStore.load v) = VecStore.observe_vec v).
Proof.
  intros r v xs Hok.
  destruct (VecProofs.vrun_inv ops store0 VecStore.vst0 [] [] VecProofs.J0 VecProofs.Inv0 Hok) as [_ HI].
  change (VecStore.vrun (store0, VecStore.vst0) ops) with r in HI. change (snd (fst r)) with v in HI. clearbody v.
  destruct HI as (_ & _ & _ & _ & Hen & Hdisk & _).
  split.
  - unfold VecStore.load, VecStore.mem_index. cbn [VecStore.vmem].
    destruct Hdisk as [H|[H H']]; rewrite H; [reflexivity|]. rewrite H'. reflexivity.
  - intros H. unfold VecStore.load, VecStore.observe_vec, VecStore.mem_docs, VecStore.mem_index.
    cbn [VecStore.venabled VecStore.vmem]. rewrite H, Hen. reflexivity.
Qed.

(* C15: on every reachable state with nothing pending, close + reopen and close + doctor with
   rebuild_time_index + reopen leave the table alone and the (repaired) build_timeline answers
   every query as before *)
Theorem timeline_reload_C15 engines ops force q :
  let s := Timeline.trun engines ops in
  Timeline.ts_pending s = [] ->
  let s1 := Timeline.tstep engines s Timeline.TReopen in
  let s2 := Timeline.tstep engines s (Timeline.TDoctor force) in
  Timeline.ts_frames s1 = Timeline.ts_frames s /\ Timeline.ts_frames s2 = Timeline.ts_frames s /\
  Timeline.build_timeline_fixed (Timeline.ts_frames s1) (Timeline.ts_index s1) q =
    Timeline.build_timeline_fixed (Timeline.ts_frames s) (Timeline.ts_index s) q /\
  Timeline.build_timeline_fixed (Timeline.ts_frames s2) (Timeline.ts_index s2) q =
    Timeline.build_timeline_fixed (Timeline.ts_frames s) (Timeline.ts_index s) q.
Proof.
  intros s Hp s1 s2.
  assert (E1 : s1 = s). { subst s1. cbn [Timeline.tstep]. unfold Timeline.apply_pending. rewrite Hp. reflexivity. }
  pose proof (TimelineProofs.fixed_reachable engines ops q) as F0. cbv zeta in F0. fold s in F0.
  pose proof (TimelineProofs.fixed_reachable engines (ops ++ [Timeline.TDoctor force]) q) as F2. cbv zeta in F2.
  unfold Timeline.trun in F2. rewrite fold_left_app in F2. cbn [fold_left] in F2.
  change (fold_left (Timeline.tstep engines) ops Timeline.tstate0) with s in F2. fold s2 in F2.
  assert (E2 : Timeline.ts_frames s2 = Timeline.ts_frames s).
  { subst s2. cbn [Timeline.tstep]. unfold Timeline.apply_pending. rewrite Hp.
    destruct (force || _); reflexivity. }
  rewrite E1. split; [reflexivity|]. split; [exact E2|]. split; [reflexivity|].
  rewrite F2, F0, E2. reflexivity.
Qed.
