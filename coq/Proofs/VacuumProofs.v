(* Proofs about M-Vacuum (C42). *)
From MV Require Import Base.Prelude Base.Facts Model.Vacuum.
Require Import ZifyBool ZifyNat ZifyN.
Local Open Scope N_scope.

(* ------------------------------------------------------------------ *)
(* write_at / slice                                                    *)
(* ------------------------------------------------------------------ *)
Lemma write_at_length rg p b :
  (p <= length rg)%nat -> length (write_at rg p b) = Nat.max (length rg) (p + length b).
Proof.
  intros Hp. unfold write_at. rewrite !app_length, firstn_length, repeat_length, skipn_length. lia.
Qed.

Lemma write_at_firstn rg p b k :
  (k <= p)%nat -> (k <= length rg)%nat -> firstn k (write_at rg p b) = firstn k rg.
Proof.
  intros Hk Hl. unfold write_at.
  rewrite firstn_app. rewrite firstn_firstn. rewrite firstn_length.
  replace (k - Nat.min p (length rg))%nat with 0%nat by lia.
  cbn [firstn]. rewrite app_nil_r. f_equal. lia.
Qed.

Lemma write_at_slice rg p b : (p <= length rg)%nat -> slice (write_at rg p b) p (length b) = b.
Proof.
  intros Hp. unfold write_at, slice.
  replace (p - length rg)%nat with 0%nat by lia. cbn [repeat app].
  rewrite skipn_app, firstn_length.
  replace (p - Nat.min p (length rg))%nat with 0%nat by lia. cbn [skipn].
  rewrite skipn_all2 by (rewrite firstn_length; lia). cbn [app].
  rewrite firstn_app, Nat.sub_diag, firstn_all. cbn [firstn]. apply app_nil_r.
Qed.

Lemma write_at_nil rg p : (p <= length rg)%nat -> write_at rg p [] = rg.
Proof.
  intros Hp. unfold write_at. replace (p - length rg)%nat with 0%nat by lia.
  cbn [repeat app length]. rewrite Nat.add_0_r. apply firstn_skipn.
Qed.

(* a slice only depends on the prefix that contains it *)
Lemma slice_prefix {A} (a b : list A) p n q :
  (p + n <= q)%nat -> firstn q a = firstn q b -> slice a p n = slice b p n.
Proof.
  intros Hq He. unfold slice.
  assert (H : forall l : list A, firstn n (skipn p l) = firstn n (skipn p (firstn q l))).
  { intros l. rewrite skipn_firstn_comm, firstn_firstn. f_equal. lia. }
  rewrite (H a), (H b), He. reflexivity.
Qed.

Lemma firstn_prefix {A} (a b : list A) k q :
  (k <= q)%nat -> firstn q a = firstn q b -> firstn k a = firstn k b.
Proof.
  intros Hk He. rewrite <- (Nat.min_l k q) by lia. rewrite <- !firstn_firstn, He. reflexivity.
Qed.

(* ---- the same at file offsets ---- *)
Lemma read_at_prefix a b start off len q :
  start <= off -> off + len <= q ->
  firstn (N.to_nat (q - start)) a = firstn (N.to_nat (q - start)) b ->
  read_at a start off len = read_at b start off len.
Proof.
  intros Hs Hq He. unfold read_at. eapply slice_prefix; [|exact He]. lia.
Qed.

Lemma read_at_written rg start c b :
  start <= c -> (N.to_nat (c - start) <= length rg)%nat ->
  read_at (write_at rg (N.to_nat (c - start)) b) start c (N.of_nat (length b)) = b.
Proof.
  intros Hs Hp. unfold read_at. rewrite Nat2N.id. apply write_at_slice; exact Hp.
Qed.

Lemma read_at_len0 rg start off : read_at rg start off 0 = [].
Proof. unfold read_at, slice. reflexivity. Qed.

Lemma read_at_length rg start off len :
  start <= off -> off + len <= start + N.of_nat (length rg) -> length (read_at rg start off len) = N.to_nat len.
Proof. intros Hs He. unfold read_at. apply slice_length. lia. Qed.

(* ------------------------------------------------------------------ *)
(* the store invariant                                                 *)
(* ------------------------------------------------------------------ *)
(* windows of active non-empty frames are inside [start, data_end], data_end is inside the file,
   frame ids are distinct *)
Definition in_bounds (st : vstate) (f : vframe) : Prop :=
  vf_len f = 0 \/
  (vf_len f <= MAX_FRAME_BYTES /\ vs_start st <= vf_off f /\ vf_off f + vf_len f <= vs_data_end st).

Record store_inv (st : vstate) : Prop := mkInv {
  inv_ids : NoDup (map vf_id (vs_frames st));
  inv_bounds : forall f, In f (vs_frames st) -> vf_active f = true -> in_bounds st f;
  inv_data_end : vs_data_end st <= file_len st }.

(* two windows: identical (payload sharing) or disjoint -- what ensure_non_overlapping_frames accepts *)
Definition win_disjoint (f g : vframe) : Prop :=
  vf_off f + vf_len f <= vf_off g \/ vf_off g + vf_len g <= vf_off f.
Definition win_same (f g : vframe) : Prop := vf_off f = vf_off g /\ vf_len f = vf_len g.

(* pairwise over a list *)
Fixpoint pairwise {A} (R : A -> A -> Prop) (l : list A) : Prop :=
  match l with [] => True | x :: r => (forall y, In y r -> R x y) /\ pairwise R r end.

Definition live (fs : list vframe) : list vframe := filter (fun f => vf_active f && negb (vf_len f =? 0)) fs.
Definition share_or_disjoint (st : vstate) : Prop :=
  pairwise (fun f g => win_same f g \/ win_disjoint f g) (live (vs_frames st)).
Definition all_disjoint (st : vstate) : Prop := pairwise win_disjoint (live (vs_frames st)).

(* ------------------------------------------------------------------ *)
(* read phase                                                          *)
(* ------------------------------------------------------------------ *)
Lemma validate_ok st f :
  vs_data_end st <= file_len st -> in_bounds st f -> validate st f = Ok tt.
Proof.
  intros Hde Hb. unfold validate.
  destruct (vf_len f =? 0) eqn:E0; [reflexivity|].
  destruct Hb as [H0|(Hm & Hs & He)]; [lia|].
  destruct (MAX_FRAME_BYTES <? vf_len f) eqn:E1; [lia|].
  destruct (vf_off f <? vs_start st) eqn:E2; [lia|].
  destruct (vs_data_end st <? vf_off f + vf_len f) eqn:E3; [lia|].
  destruct (file_len st <? vf_off f + vf_len f) eqn:E4; [lia|]. reflexivity.
Qed.

Lemma hm_get_cons m k v k' : hm_get ((k, v) :: m) k' = if k =? k' then Some v else hm_get m k'.
Proof. reflexivity. Qed.

Lemma read_phase_ok st fs : forall acc,
  vs_data_end st <= file_len st ->
  (forall f, In f fs -> vf_active f = true -> in_bounds st f) ->
  NoDup (map vf_id fs) ->
  exists m, read_phase st fs acc = Ok m /\
            (forall f, In f fs -> vf_active f = true -> hm_get m (vf_id f) = Some (frame_bytes st f)) /\
            (forall k, ~ In k (map vf_id fs) -> hm_get m k = hm_get acc k).
Proof.
  induction fs as [|f r IH]; intros acc Hde Hb Hnd.
  - exists acc. cbn [read_phase]. split; [reflexivity|]. split; [intros ? []|auto].
  - cbn [map] in Hnd. inversion Hnd as [|? ? Hnotin Hnd']; subst.
    cbn [read_phase]. destruct (vf_active f) eqn:Ea.
    + unfold read_payload. rewrite (validate_ok st f Hde (Hb f (or_introl eq_refl) Ea)).
      destruct (IH ((vf_id f, read_at (vs_region st) (vs_start st) (vf_off f) (vf_len f)) :: acc) Hde
                  (fun g Hg => Hb g (or_intror Hg)) Hnd') as (m & Hm & Hin & Hout).
      exists m. split; [exact Hm|]. split.
      * intros g [->|Hg] Hga.
        -- rewrite (Hout _ Hnotin). rewrite hm_get_cons, N.eqb_refl. reflexivity.
        -- apply Hin; assumption.
      * intros k Hk. cbn [map In] in Hk. rewrite Hout by tauto. rewrite hm_get_cons.
        destruct (vf_id f =? k) eqn:E; [|reflexivity]. apply N.eqb_eq in E. tauto.
    + destruct (IH acc Hde (fun g Hg => Hb g (or_intror Hg)) Hnd') as (m & Hm & Hin & Hout).
      exists m. split; [exact Hm|]. split.
      * intros g [->|Hg] Hga; [congruence|]. apply Hin; assumption.
      * intros k Hk. cbn [map In] in Hk. apply Hout. tauto.
Qed.

(* ------------------------------------------------------------------ *)
(* write phase                                                         *)
(* ------------------------------------------------------------------ *)
(* relation between an old row and its new row, given the final region rg', the map of saved
   payloads, the cursor where the pass started and the final cursor *)
Definition row_ok (start : N) (m : list (N * bytes)) (rg' : bytes) (c c' : N) (f f' : vframe) : Prop :=
  f' = set_window f (vf_off f') (vf_len f') /\
  if vf_active f then
    exists b, hm_get m (vf_id f) = Some b /\ vf_len f' = N.of_nat (length b) /\
              c <= vf_off f' /\ vf_off f' + vf_len f' <= c' /\
              read_at rg' start (vf_off f') (vf_len f') = b
  else vf_off f' = 0 /\ vf_len f' = 0.

Lemma row_ok_weaken start m rg' c0 c c' f f' : c0 <= c -> row_ok start m rg' c c' f f' -> row_ok start m rg' c0 c' f f'.
Proof.
  intros Hc [He H]. split; [exact He|]. destruct (vf_active f); [|exact H].
  destruct H as (b & H1 & H2 & H3 & H4 & H5). exists b. repeat split; try assumption. lia.
Qed.

Lemma Forall2_weaken {A B} (R S : A -> B -> Prop) l l' :
  (forall x y, R x y -> S x y) -> Forall2 R l l' -> Forall2 S l l'.
Proof. intros H HF. induction HF; constructor; auto. Qed.

Lemma write_phase_spec start m fs : forall c rg,
  start <= c -> (N.to_nat (c - start) <= length rg)%nat ->
  (forall f, In f fs -> vf_active f = true -> exists b, hm_get m (vf_id f) = Some b) ->
  forall fs' c' rg', write_phase start m fs c rg = (fs', c', rg') ->
    c <= c' /\ (N.to_nat (c' - start) <= length rg')%nat /\ (length rg <= length rg')%nat /\
    firstn (N.to_nat (c - start)) rg' = firstn (N.to_nat (c - start)) rg /\
    Forall2 (row_ok start m rg' c c') fs fs'.
Proof.
  induction fs as [|f r IH]; intros c rg Hs Hp Hm fs' c' rg' Hw.
  - cbn [write_phase] in Hw. inversion Hw; subst. repeat split; try lia. constructor.
  - cbn [write_phase] in Hw. destruct (vf_active f) eqn:Ea.
    + destruct (Hm f (or_introl eq_refl) Ea) as (b & Hb). rewrite Hb in Hw.
      set (p := N.to_nat (c - start)) in *.
      destruct (write_phase start m r (c + N.of_nat (length b)) (write_at rg p b)) as [[r' c1] rg1] eqn:Hr.
      inversion Hw; subst fs' c' rg'. clear Hw.
      assert (Hlen1 : length (write_at rg p b) = Nat.max (length rg) (p + length b)) by (apply write_at_length; exact Hp).
      assert (Hp1 : (N.to_nat (c + N.of_nat (length b) - start) <= length (write_at rg p b))%nat) by (subst p; lia).
      destruct (IH (c + N.of_nat (length b)) (write_at rg p b) ltac:(lia) Hp1
                  (fun g Hg => Hm g (or_intror Hg)) r' c1 rg1 Hr) as (Hc & Hp' & Hl & Hpre & Hall).
      split; [lia|]. split; [exact Hp'|]. split; [lia|]. split.
      * (* prefix before c unchanged *)
        transitivity (firstn p (write_at rg p b)).
        -- eapply firstn_prefix; [|exact Hpre]. subst p; lia.
        -- apply write_at_firstn; lia.
      * constructor.
        -- split; [reflexivity|]. rewrite Ea. cbn [set_window vf_off vf_len].
           exists b. repeat split; try assumption; try lia.
           rewrite (read_at_prefix rg1 (write_at rg p b) start c (N.of_nat (length b)) (c + N.of_nat (length b)) Hs ltac:(lia) Hpre).
           subst p. apply read_at_written; assumption.
        -- eapply Forall2_weaken; [|exact Hall]. intros x y Hxy. eapply row_ok_weaken; [|exact Hxy]. lia.
    + destruct (write_phase start m r c rg) as [[r' c1] rg1] eqn:Hr.
      inversion Hw; subst fs' c' rg'. clear Hw.
      destruct (IH c rg Hs Hp (fun g Hg => Hm g (or_intror Hg)) r' c1 rg1 Hr) as (Hc & Hp' & Hl & Hpre & Hall).
      repeat split; try assumption.
      constructor; [|exact Hall]. split; [reflexivity|]. rewrite Ea. cbn. split; reflexivity.
Qed.

(* the table produced by the write phase is `relocate`, the final cursor is start of pass + active bytes *)
Lemma write_phase_table start m fs : forall c rg,
  (forall f, In f fs -> vf_active f = true ->
             exists b, hm_get m (vf_id f) = Some b /\ N.of_nat (length b) = vf_len f) ->
  fst (fst (write_phase start m fs c rg)) = relocate fs c /\
  snd (fst (write_phase start m fs c rg)) = c + active_bytes fs.
Proof.
  induction fs as [|f r IH]; intros c rg Hm.
  - cbn. split; [reflexivity|lia].
  - cbn [write_phase relocate active_bytes]. destruct (vf_active f) eqn:Ea.
    + destruct (Hm f (or_introl eq_refl) Ea) as (b & Hb & Hl). rewrite Hb.
      destruct (IH (c + N.of_nat (length b)) (write_at rg (N.to_nat (c - start)) b) (fun g Hg => Hm g (or_intror Hg))) as [H1 H2].
      destruct (write_phase start m r (c + N.of_nat (length b)) (write_at rg (N.to_nat (c - start)) b)) as [[r' c1] rg1].
      cbn [fst snd] in *. rewrite Hl in *. split; [f_equal; exact H1|lia].
    + destruct (IH c rg (fun g Hg => Hm g (or_intror Hg))) as [H1 H2].
      destruct (write_phase start m r c rg) as [[r' c1] rg1].
      cbn [fst snd] in *. split; [f_equal; exact H1|lia].
Qed.

Lemma Forall2_in_l {A B} (R : A -> B -> Prop) l l' :
  Forall2 R l l' -> Forall2 (fun x y => In x l /\ R x y) l l'.
Proof.
  intros HF. induction HF as [|x y l l' Hxy HF IH]; constructor.
  - split; [left; reflexivity|exact Hxy].
  - eapply Forall2_weaken; [|exact IH]. intros a b [Ha Hab]. split; [right; exact Ha|exact Hab].
Qed.

Lemma frame_bytes_length st f :
  vs_data_end st <= file_len st -> in_bounds st f -> N.of_nat (length (frame_bytes st f)) = vf_len f.
Proof.
  intros Hde [H0|(Hm & Hs & He)]; unfold frame_bytes.
  - rewrite H0, read_at_len0. reflexivity.
  - rewrite read_at_length; [lia|exact Hs|]. unfold file_len in Hde. lia.
Qed.

(* ------------------------------------------------------------------ *)
(* what is kept, row by row                                            *)
(* ------------------------------------------------------------------ *)
Definition kept (st st' : vstate) (f f' : vframe) : Prop :=
  vf_id f' = vf_id f /\ vf_status f' = vf_status f /\ vf_role f' = vf_role f /\
  vf_meta f' = vf_meta f /\ vf_text f' = vf_text f /\
  if vf_active f then
    vf_len f' = vf_len f /\ frame_bytes st' f' = frame_bytes st f /\ validate st' f' = Ok tt
  else vf_off f' = 0 /\ vf_len f' = 0.

Lemma store_inv_checkpoint st : store_inv st -> store_inv (checkpoint st).
Proof. intros [H1 H2 H3]. constructor; assumption. Qed.

(* the rewrite (read phase + write phase), for every state meeting the invariant: windows may overlap
   or be shared in any way -- every read happens before the first write *)
Lemma rewrite_correct st :
  store_inv st ->
  exists st1, rewrite st = Ok st1 /\
    Forall2 (kept st st1) (vs_frames st) (vs_frames st1) /\
    vs_frames st1 = relocate (vs_frames st) (vs_start st) /\
    vs_data_end st1 = vs_start st + active_bytes (vs_frames st) /\
    vs_start st1 = vs_start st /\ vs_cpe st1 = vs_data_end st1 /\ vs_footer st1 = vs_footer st /\
    vs_lex st1 = vs_lex st /\ vs_vec st1 = vs_vec st /\ vs_pending st1 = vs_pending st /\
    vs_data_end st1 <= file_len st1 /\ file_len st <= file_len st1.
Proof.
  intros [Hids Hb Hde].
  destruct (read_phase_ok st (vs_frames st) [] Hde Hb Hids) as (m & Hm & Hget & _).
  unfold rewrite. rewrite Hm.
  assert (Hsome : forall f, In f (vs_frames st) -> vf_active f = true -> exists b, hm_get m (vf_id f) = Some b).
  { intros f Hf Ha. eexists. apply Hget; assumption. }
  assert (Hsome2 : forall f, In f (vs_frames st) -> vf_active f = true ->
                             exists b, hm_get m (vf_id f) = Some b /\ N.of_nat (length b) = vf_len f).
  { intros f Hf Ha. eexists. split; [apply Hget; assumption|]. apply frame_bytes_length; auto. }
  destruct (write_phase_table (vs_start st) m (vs_frames st) (vs_start st) (vs_region st) Hsome2) as [Ht Hc].
  destruct (write_phase (vs_start st) m (vs_frames st) (vs_start st) (vs_region st)) as [[fs' c'] rg'] eqn:Hw.
  cbn [fst snd] in Ht, Hc.
  destruct (write_phase_spec (vs_start st) m (vs_frames st) (vs_start st) (vs_region st)
              ltac:(lia) ltac:(lia) Hsome fs' c' rg' Hw) as (Hcc & Hp' & Hl & _ & Hall).
  eexists. split; [reflexivity|]. cbn [vs_frames vs_data_end vs_start vs_cpe vs_footer vs_lex vs_vec vs_pending].
  assert (Hfl : c' <= vs_start st + N.of_nat (length rg')) by lia.
  split.
  - eapply Forall2_weaken; [|apply Forall2_in_l; exact Hall].
    intros f f' (Hin & Heq & Hrow). unfold kept.
    rewrite Heq. cbn [set_window vf_id vf_status vf_role vf_meta vf_text vf_off vf_len].
    repeat (split; [reflexivity|]).
    destruct (vf_active f) eqn:Ea; [|exact Hrow].
    destruct Hrow as (b & Hb1 & Hb2 & Hb3 & Hb4 & Hb5).
    rewrite (Hget f Hin Ea) in Hb1. injection Hb1 as Hbb. rewrite <- Hbb in Hb2, Hb5. clear Hbb b.
    pose proof (frame_bytes_length st f Hde (Hb f Hin Ea)) as Hlen.
    split; [lia|]. split.
    + unfold frame_bytes at 1. cbn [set_window vs_region vs_start vf_off vf_len]. exact Hb5.
    + unfold validate. cbn [set_window vf_len vf_off vs_start vs_data_end].
      destruct (vf_len f' =? 0) eqn:E0; [reflexivity|].
      assert (Hmax : vf_len f' <= MAX_FRAME_BYTES).
      { destruct (Hb f Hin Ea) as [H0|(Hmx & _)]; lia. }
      destruct (MAX_FRAME_BYTES <? vf_len f') eqn:E1; [lia|].
      destruct (vf_off f' <? vs_start st) eqn:E2; [lia|].
      destruct (c' <? vf_off f' + vf_len f') eqn:E3; [lia|].
      unfold file_len. cbn [vs_start vs_region].
      destruct (vs_start st + N.of_nat (length rg') <? vf_off f' + vf_len f') eqn:E4; [lia|]. reflexivity.
  - split; [exact Ht|]. split; [exact Hc|]. repeat (split; [reflexivity|]).
    unfold file_len. cbn [vs_start vs_region]. split; lia.
Qed.

(* ------------------------------------------------------------------ *)
(* index rebuild after the rewrite, and vacuum as a whole              *)
(* ------------------------------------------------------------------ *)
Lemma validate_inv st f :
  validate st f = Ok tt ->
  vf_len f = 0 \/ (vf_len f <= MAX_FRAME_BYTES /\ vs_start st <= vf_off f /\
                   vf_off f + vf_len f <= vs_data_end st /\ vf_off f + vf_len f <= file_len st).
Proof.
  unfold validate. destruct (vf_len f =? 0) eqn:E0; [left; lia|].
  destruct (MAX_FRAME_BYTES <? vf_len f) eqn:E1; [discriminate|].
  destruct (vf_off f <? vs_start st) eqn:E2; [discriminate|].
  destruct (vs_data_end st <? vf_off f + vf_len f) eqn:E3; [discriminate|].
  destruct (file_len st <? vf_off f + vf_len f) eqn:E4; [discriminate|]. intros _. right. lia.
Qed.

Lemma rebuild_fields st ix :
  vs_start (rebuild st ix) = vs_start st /\ vs_frames (rebuild st ix) = vs_frames st /\
  vs_cpe (rebuild st ix) = vs_cpe st /\ vs_footer st <= vs_footer (rebuild st ix) /\
  vs_lex (rebuild st ix) = vs_lex st /\ vs_vec (rebuild st ix) = vs_vec st.
Proof.
  unfold rebuild. destruct (_ && _ && _); cbn; repeat split; lia.
Qed.

(* the index image is written at cached_payload_end: every window that ends at or before the new
   data end keeps its bytes as long as the data end is not beyond cached_payload_end *)
Lemma rebuild_keeps st ix f :
  vs_start st <= vs_data_end st -> vs_data_end st <= vs_cpe st ->
  vs_data_end st <= file_len st -> vs_cpe st <= file_len st ->
  validate st f = Ok tt ->
  frame_bytes (rebuild st ix) f = frame_bytes st f /\ validate (rebuild st ix) f = Ok tt /\
  vs_data_end (rebuild st ix) <= vs_cpe st /\ vs_data_end (rebuild st ix) <= file_len (rebuild st ix) /\
  vs_cpe st <= file_len (rebuild st ix).
Proof.
  intros Hs Hdc Hdf Hcf Hv. unfold rebuild.
  destruct (_ && _ && _); [repeat split; auto|].
  set (P := N.to_nat (vs_cpe st - vs_start st)).
  assert (HP : (P <= length (vs_region st))%nat) by (unfold file_len in Hcf; subst P; lia).
  pose proof (write_at_length (vs_region st) P ix HP) as Hlen.
  unfold frame_bytes, validate, file_len in *. cbn [vs_region vs_start vs_data_end vs_cpe].
  destruct (validate_inv st f Hv) as [H0|(Hm & Ho & He & Hf)].
  - rewrite H0, !read_at_len0, N.eqb_refl. repeat split; try lia.
  - split; [|split; [|lia]].
    + apply (read_at_prefix _ _ _ _ _ (vs_data_end st)); try lia.
      apply write_at_firstn; subst P; lia.
    + destruct (vf_len f =? 0); [reflexivity|].
      destruct (MAX_FRAME_BYTES <? vf_len f) eqn:E1; [lia|].
      destruct (vf_off f <? vs_start st) eqn:E2; [lia|].
      destruct (vs_cpe st <? vf_off f + vf_len f) eqn:E3; [lia|].
      destruct (vs_start st + N.of_nat (length (write_at (vs_region st) P ix)) <? vf_off f + vf_len f) eqn:E4; [|reflexivity].
      unfold file_len in Hf. lia.
Qed.

Lemma relocate_ids fs : forall c, map vf_id (relocate fs c) = map vf_id fs.
Proof.
  induction fs as [|f r IH]; intros c; cbn [relocate map]; [reflexivity|].
  destruct (vf_active f); cbn [map set_window vf_id]; rewrite IH; reflexivity.
Qed.

Lemma Forall2_in_r {A B} (R : A -> B -> Prop) l l' y :
  Forall2 R l l' -> In y l' -> exists x, In x l /\ R x y.
Proof.
  intros HF. induction HF as [|a b l l' Hab HF IH]; intros Hy; [destruct Hy|].
  destruct Hy as [->|Hy]; [exists a; split; [left; reflexivity|exact Hab]|].
  destruct (IH Hy) as (x & Hx & Hr). exists x. split; [right; exact Hx|exact Hr].
Qed.

Lemma vacuum_core_correct st ix :
  store_inv st ->
  exists st', vacuum_core st ix = Ok st' /\
    Forall2 (kept st st') (vs_frames st) (vs_frames st') /\
    vs_frames st' = relocate (vs_frames st) (vs_start st) /\
    vs_start st' = vs_start st /\
    vs_cpe st' = vs_start st + active_bytes (vs_frames st) /\
    vs_data_end st' <= vs_cpe st' /\
    vs_footer st <= vs_footer st' /\
    store_inv st'.
Proof.
  intros Hinv.
  destruct (rewrite_correct (checkpoint st) (store_inv_checkpoint st Hinv))
    as (st1 & Hrw & Hall & Htab & Hde & Hst & Hcpe & Hfo & Hlex & Hvec & _ & Hdf & Hfl).
  cbn [checkpoint vs_frames vs_start vs_cpe vs_footer vs_lex vs_vec] in *.
  destruct Hinv as [Hids Hb Hde0].
  unfold vacuum_core. rewrite Hrw. eexists. split; [reflexivity|].
  destruct (rebuild_fields st1 ix) as (R1 & R2 & R3 & R4 & _).
  assert (Hpre : forall f, validate st1 f = Ok tt ->
            frame_bytes (rebuild st1 ix) f = frame_bytes st1 f /\ validate (rebuild st1 ix) f = Ok tt /\
            vs_data_end (rebuild st1 ix) <= vs_cpe st1 /\ vs_data_end (rebuild st1 ix) <= file_len (rebuild st1 ix) /\
            vs_cpe st1 <= file_len (rebuild st1 ix)).
  { intros f Hv. apply rebuild_keeps; try lia; exact Hv. }
  assert (Hkept : Forall2 (kept st (rebuild st1 ix)) (vs_frames st) (vs_frames st1)).
  { eapply Forall2_weaken; [|exact Hall]. intros f f' (K1 & K2 & K3 & K4 & K5 & K6).
    unfold kept. repeat (split; [assumption|]).
    destruct (vf_active f); [|exact K6]. destruct K6 as (L1 & L2 & L3).
    destruct (Hpre f' L3) as (P1 & P2 & _). split; [exact L1|]. split; [|exact P2].
    rewrite P1. exact L2. }
  assert (Hglob : vs_data_end (rebuild st1 ix) <= vs_cpe st1 /\ vs_data_end (rebuild st1 ix) <= file_len (rebuild st1 ix)).
  { unfold rebuild. destruct (_ && _ && _).
    - split; lia.
    - set (P := N.to_nat (vs_cpe st1 - vs_start st1)).
      assert (HP : (P <= length (vs_region st1))%nat) by (unfold file_len in *; subst P; lia).
      pose proof (write_at_length (vs_region st1) P ix HP) as Hlen.
      unfold file_len. cbn [vs_region vs_start vs_data_end]. unfold file_len in *. split; lia. }
  destruct Hglob as (G1 & G2).
  rewrite R2. split; [exact Hkept|]. split; [exact Htab|]. split; [lia|]. split; [lia|]. split; [lia|]. split; [lia|].
  (* the invariant holds again *)
  constructor.
  - rewrite R2, Htab, relocate_ids. exact Hids.
  - rewrite R2. intros f' Hf' Ha'.
    destruct (Forall2_in_r _ _ _ f' Hkept Hf') as (f & Hf & K1 & K2 & K3 & K4 & K5 & K6).
    assert (Ha : vf_active f = true) by (unfold vf_active in *; rewrite <- K2; exact Ha').
    rewrite Ha in K6. destruct K6 as (_ & _ & L3).
    destruct (validate_inv _ _ L3) as [H0|(M1 & M2 & M3 & M4)]; [left; exact H0|].
    right. rewrite R1 in *. repeat split; try lia.
  - exact G2.
Qed.

(* ------------------------------------------------------------------ *)
(* layout: closed form, views, contiguity                              *)
(* ------------------------------------------------------------------ *)
(* row i of the new table: an active frame sits at data start + the lengths of the active frames
   before it and keeps its length (a zero-length frame gets the running end and length 0);
   an inactive frame gets (0, 0) *)
Lemma relocate_nth fs : forall c i f,
  nth_error fs i = Some f ->
  nth_error (relocate fs c) i =
    Some (if vf_active f then set_window f (c + active_bytes (firstn i fs)) (vf_len f) else set_window f 0 0).
Proof.
  induction fs as [|g r IH]; intros c i f Hn; [destruct i; discriminate|].
  destruct i as [|i]; cbn [nth_error] in Hn.
  - injection Hn as ->. cbn [relocate firstn active_bytes]. destruct (vf_active f); cbn [nth_error]; [|reflexivity].
    do 2 f_equal. lia.
  - cbn [relocate firstn active_bytes]. destruct (vf_active g); cbn [nth_error]; rewrite (IH _ _ _ Hn);
      destruct (vf_active f); try reflexivity. do 2 f_equal. lia.
Qed.

Lemma relocate_view fs : forall c, table_view (relocate fs c) = table_view fs.
Proof.
  induction fs as [|f r IH]; intros c; cbn [relocate table_view map]; [reflexivity|].
  destruct (vf_active f); cbn [map]; f_equal; apply IH.
Qed.

Lemma lex_docs_view fs : lex_docs fs = map (fun v => fst (fst (fst (fst v))))
  (filter (fun v => (snd (fst (fst (fst v))) =? 0) && snd v) (table_view fs)).
Proof.
  unfold lex_docs, table_view. induction fs as [|f r IH]; [reflexivity|].
  cbn [map filter view_row fst snd]. unfold vf_active at 1.
  destruct ((vf_status f =? 0) && vf_text f); cbn [map]; rewrite IH; reflexivity.
Qed.

Lemma time_entries_view fs : time_entries fs = map (fun v => fst (fst (fst (fst v))))
  (filter (fun v => (snd (fst (fst (fst v))) =? 0) && (snd (fst (fst v)) =? 0)) (table_view fs)).
Proof.
  unfold time_entries, table_view. induction fs as [|f r IH]; [reflexivity|].
  cbn [map filter view_row fst snd]. unfold vf_active at 1.
  destruct ((vf_status f =? 0) && (vf_role f =? 0)); cbn [map]; rewrite IH; reflexivity.
Qed.

(* contiguity of the non-empty active windows of a relocated table: they are pairwise disjoint,
   start at or after c and end at or before c + active bytes; so frames that shared a window before
   have separate copies afterwards *)
Lemma live_cons f r : live (f :: r) = if vf_active f && negb (vf_len f =? 0) then f :: live r else live r.
Proof. reflexivity. Qed.
Lemma vf_active_set f o l : vf_active (set_window f o l) = vf_active f.
Proof. reflexivity. Qed.

Lemma relocate_in_range fs : forall c f', In f' (live (relocate fs c)) ->
  c <= vf_off f' /\ vf_off f' + vf_len f' <= c + active_bytes fs.
Proof.
  induction fs as [|f r IH]; intros c f' Hin; [destruct Hin|].
  cbn [relocate active_bytes] in *. destruct (vf_active f) eqn:Ea.
  - rewrite live_cons, vf_active_set, Ea in Hin. cbn [set_window vf_len andb] in Hin.
    destruct (negb (vf_len f =? 0)); [destruct Hin as [<-|Hin]|].
    + cbn [set_window vf_off vf_len]. lia.
    + specialize (IH _ _ Hin). lia.
    + specialize (IH _ _ Hin). lia.
  - rewrite live_cons, vf_active_set, Ea in Hin. cbn [andb] in Hin. specialize (IH _ _ Hin). lia.
Qed.

Lemma relocate_disjoint fs : forall c, pairwise win_disjoint (live (relocate fs c)).
Proof.
  induction fs as [|f r IH]; intros c; [exact I|].
  cbn [relocate]. destruct (vf_active f) eqn:Ea; rewrite live_cons, vf_active_set, Ea; cbn [andb]; [|apply IH].
  cbn [set_window vf_len]. destruct (negb (vf_len f =? 0)); [|apply IH].
  cbn [pairwise]. split; [|apply IH].
  intros y Hy. destruct (relocate_in_range r _ y Hy) as [H1 _].
  left. cbn [set_window vf_off vf_len]. exact H1.
Qed.

(* ------------------------------------------------------------------ *)
(* pairwise disjoint windows inside [a, b] have total length <= b - a  *)
(* ------------------------------------------------------------------ *)
Fixpoint total_len (l : list vframe) : N := match l with [] => 0 | f :: r => vf_len f + total_len r end.

Lemma pairwise_filter {A} (R : A -> A -> Prop) p l : pairwise R l -> pairwise R (filter p l).
Proof.
  induction l as [|x r IH]; intros H; [exact I|]. destruct H as [Hx Hr]. cbn [filter].
  destruct (p x); [|apply IH; exact Hr]. split; [|apply IH; exact Hr].
  intros y Hy. apply filter_In in Hy. apply Hx. tauto.
Qed.

Lemma total_len_split p l : total_len l = total_len (filter p l) + total_len (filter (fun x => negb (p x)) l).
Proof.
  induction l as [|x r IH]; [reflexivity|]. cbn [filter total_len]. destruct (p x); cbn [negb total_len]; lia.
Qed.

Lemma filter_length_le {A} (p : A -> bool) l : (length (filter p l) <= length l)%nat.
Proof. induction l as [|x r IH]; [cbn; lia|]. cbn [filter]. destruct (p x); cbn [length]; lia. Qed.

Lemma disjoint_total_le n : forall l a b,
  (length l <= n)%nat -> pairwise win_disjoint l ->
  (forall f, In f l -> vf_len f <> 0 /\ a <= vf_off f /\ vf_off f + vf_len f <= b) ->
  a <= b -> total_len l <= b - a.
Proof.
  induction n as [|n IH]; intros l a b Hl Hp Hin Hab.
  - destruct l; [cbn; lia|cbn in Hl; lia].
  - destruct l as [|f r]; [cbn; lia|]. destruct Hp as [Hf Hr]. cbn [length] in Hl.
    destruct (Hin f (or_introl eq_refl)) as (Hn0 & Hlo & Hhi).
    set (pl := fun g : vframe => vf_off g <? vf_off f).
    assert (HL : total_len (filter pl r) <= vf_off f - a).
    { apply IH; [pose proof (filter_length_le pl r); lia|apply pairwise_filter; exact Hr| |lia].
      intros g Hg. apply filter_In in Hg. destruct Hg as [Hg Hpg]. unfold pl in Hpg.
      destruct (Hin g (or_intror Hg)) as (G0 & G1 & G2). destruct (Hf g Hg) as [D|D]; lia. }
    assert (HR : total_len (filter (fun g => negb (pl g)) r) <= b - (vf_off f + vf_len f)).
    { apply IH; [pose proof (filter_length_le (fun g => negb (pl g)) r); lia|apply pairwise_filter; exact Hr| |lia].
      intros g Hg. apply filter_In in Hg. destruct Hg as [Hg Hpg]. unfold pl in Hpg.
      destruct (Hin g (or_intror Hg)) as (G0 & G1 & G2). destruct (Hf g Hg) as [D|D]; lia. }
    cbn [total_len]. rewrite (total_len_split pl r). lia.
Qed.

Lemma active_bytes_live fs : active_bytes fs = total_len (live fs).
Proof.
  unfold live. induction fs as [|f r IH]; [reflexivity|]. cbn [active_bytes filter].
  destruct (vf_active f); cbn [andb].
  - destruct (vf_len f =? 0) eqn:E; cbn [negb total_len]; lia.
  - lia.
Qed.

(* without window sharing the compacted payloads end at or before any bound E that all old windows
   respected: the payload region does not grow *)
Lemma disjoint_fit_below fs start E :
  start <= E -> pairwise win_disjoint (live fs) ->
  (forall f, In f (live fs) -> start <= vf_off f /\ vf_off f + vf_len f <= E) ->
  start + active_bytes fs <= E.
Proof.
  intros Hse Hd Hin. rewrite active_bytes_live.
  assert (H : total_len (live fs) <= E - start); [|lia].
  apply (disjoint_total_le (length (live fs))); [lia|exact Hd| |exact Hse].
  intros f Hf. destruct (Hin f Hf) as [H1 H2]. split; [|split; assumption].
  unfold live in Hf. apply filter_In in Hf. destruct Hf as [_ Hp].
  apply andb_true_iff in Hp. destruct Hp as [_ Hn]. lia.
Qed.

(* ------------------------------------------------------------------ *)
(* verify after vacuum                                                 *)
(* ------------------------------------------------------------------ *)
Lemma rewrite_lex_pending st st1 :
  rewrite st = Ok st1 -> vs_lex st1 = vs_lex st /\ vs_vec st1 = vs_vec st /\ vs_pending st1 = vs_pending st.
Proof.
  unfold rewrite. destruct (read_phase st (vs_frames st) []); try discriminate.
  destruct (write_phase _ _ _ _ _) as [[fs' c'] rg']. intros H. injection H as <-. cbn. auto.
Qed.

(* HISTORICAL (before fix 4c0da7f, finding F-C42-2): the function ended after rebuild_indexes and left the
   lex batch record pending, so verify on the closed file failed *)
Lemma vacuum_core_pending st ix st' :
  vacuum_core st ix = Ok st' ->
  vs_pending st' = if vs_lex st then 1 else 0.
Proof.
  unfold vacuum_core. destruct (rewrite (checkpoint st)) as [st1| |] eqn:Hr; try discriminate.
  destruct (rewrite_lex_pending _ _ Hr) as (Hl & Hv & Hp). cbn [checkpoint vs_lex vs_vec vs_pending] in *.
  intros H. injection H as <-. unfold rebuild. rewrite Hl, Hv, Hp.
  destruct (vs_lex st); cbn [negb andb].
  - rewrite andb_false_r. cbn [andb vs_pending]. lia.
  - destruct (_ && _); cbn [vs_pending]; lia.
Qed.

Lemma historical_verify_failed_before_4c0da7f st ix st' :
  vs_lex st = true -> vacuum_core st ix = Ok st' -> verify_passed st' = false.
Proof. intros Hl Hv. unfold verify_passed. rewrite (vacuum_core_pending _ _ _ Hv), Hl. reflexivity. Qed.

Lemma vacuum_unfold st ix :
  vacuum st ix = match vacuum_core st ix with Ok s => Ok (checkpoint s) | Err k => Err k | Panic p => Panic p end.
Proof. reflexivity. Qed.

Lemma vacuum_verify st ix st' : vacuum st ix = Ok st' -> verify_passed st' = true.
Proof.
  rewrite vacuum_unfold. destruct (vacuum_core st ix); try discriminate. intros H. injection H as <-. reflexivity.
Qed.

Lemma doctor_verify st ix again st' : doctor_vacuum st ix again = Ok st' -> verify_passed st' = true.
Proof.
  unfold doctor_vacuum. destruct (vacuum st ix); try discriminate. intros H. injection H as <-. reflexivity.
Qed.

Theorem vacuum_correct st ix :
  store_inv st ->
  exists st', vacuum st ix = Ok st' /\
    Forall2 (kept st st') (vs_frames st) (vs_frames st') /\
    vs_frames st' = relocate (vs_frames st) (vs_start st) /\
    vs_start st' = vs_start st /\
    vs_cpe st' = vs_start st + active_bytes (vs_frames st) /\
    vs_data_end st' <= vs_cpe st' /\
    vs_footer st <= vs_footer st' /\
    vs_pending st' = 0 /\
    store_inv st'.
Proof.
  intros Hi. destruct (vacuum_core_correct st ix Hi) as (s & Hv & Hall & Ht & Hs & Hc & Hd & Hf & Hinv).
  exists (checkpoint s). rewrite vacuum_unfold, Hv. split; [reflexivity|].
  split; [eapply Forall2_weaken; [|exact Hall]; intros f f' H; exact H|].
  split; [exact Ht|]. split; [exact Hs|]. split; [exact Hc|]. split; [exact Hd|]. split; [exact Hf|].
  split; [reflexivity|]. apply store_inv_checkpoint; exact Hinv.
Qed.

(* the file is never shorter afterwards: the footer offset (where the TOC goes) does not decrease *)
Lemma vacuum_footer st ix st' : vacuum st ix = Ok st' -> vs_footer st <= vs_footer st'.
Proof.
  unfold vacuum, vacuum_core. destruct (rewrite (checkpoint st)) as [st1| |] eqn:Hr; try discriminate.
  intros H. injection H as <-. destruct (rebuild_fields st1 ix) as (_ & _ & _ & Hf & _).
  cbn [checkpoint vs_footer].
  revert Hr. unfold rewrite. destruct (read_phase _ _ _); try discriminate.
  destruct (write_phase _ _ _ _ _) as [[fs' c'] rg']. intros H. injection H as <-. cbn in *. exact Hf.
Qed.

(* ------------------------------------------------------------------ *)
(* the refutation witness: two payload-less updates of frame 0         *)
(* ------------------------------------------------------------------ *)
Definition wit_frames : list vframe :=
  [mkVF 0 1 100 4 0 10 false; mkVF 1 0 100 4 0 11 false; mkVF 2 0 100 4 0 12 false].
Definition wit : vstate := mkVS 100 wit_frames [1; 2; 3; 4; 9; 9; 9; 9; 9; 9] 104 104 104 true false 0.
Definition wit_ix : bytes := [7; 7; 7; 7; 7; 7].

Lemma wit_inv : store_inv wit.
Proof.
  constructor; cbn [wit vs_frames vs_data_end vs_cpe vs_start wit_frames map vf_id].
  - repeat constructor; cbn; intuition discriminate.
  - intros f [<-|[<-|[<-|[]]]] Ha; try discriminate Ha; right; unfold MAX_FRAME_BYTES; cbn; lia.
  - unfold file_len; cbn; lia.
Qed.

Lemma wit_share : share_or_disjoint wit.
Proof.
  unfold share_or_disjoint. cbn. split; [|split; [|exact I]].
  - intros y [<-|[]]. left. split; reflexivity.
  - intros y [].
Qed.

(* HISTORICAL: the code before fix f791181 (cached_payload_end left stale) on the witness *)
Lemma historical_stale_cpe_refutation :
  exists st', vacuum_pre_f791181 wit wit_ix = Ok st' /\
    exists f f', nth_error (vs_frames wit) 2 = Some f /\ nth_error (vs_frames st') 2 = Some f' /\
                 vf_active f = true /\ frame_bytes wit f = [1; 2; 3; 4] /\ frame_bytes st' f' = [7; 7; 7; 7] /\
                 validate st' f' = Err 3.
Proof. eexists. split; [vm_compute; reflexivity|]. do 2 eexists. vm_compute. repeat split; reflexivity. Qed.

(* ------------------------------------------------------------------ *)
(* packaged statements                                                 *)
(* ------------------------------------------------------------------ *)
Lemma relocate_index_sets fs c :
  table_view (relocate fs c) = table_view fs /\
  lex_docs (relocate fs c) = lex_docs fs /\ time_entries (relocate fs c) = time_entries fs.
Proof.
  split; [apply relocate_view|]. rewrite !lex_docs_view, !time_entries_view, relocate_view. split; reflexivity.
Qed.

Lemma vacuum_views st ix :
  store_inv st ->
  exists st', vacuum st ix = Ok st' /\
    table_view (vs_frames st') = table_view (vs_frames st) /\
    lex_docs (vs_frames st') = lex_docs (vs_frames st) /\
    time_entries (vs_frames st') = time_entries (vs_frames st) /\
    (forall (A : Type) (rebuild_from : list (N * N * N * N * bool) -> A),
        rebuild_from (table_view (vs_frames st')) = rebuild_from (table_view (vs_frames st))).
Proof.
  intros Hi. destruct (vacuum_correct st ix Hi) as (st' & Hv & _ & Ht & _).
  exists st'. split; [exact Hv|]. rewrite Ht.
  destruct (relocate_index_sets (vs_frames st) (vs_start st)) as (V1 & V2 & V3).
  repeat split; try assumption. intros A g. rewrite V1. reflexivity.
Qed.

Lemma vacuum_layout st ix :
  store_inv st ->
  exists st', vacuum st ix = Ok st' /\
    (forall i f, nth_error (vs_frames st) i = Some f ->
       nth_error (vs_frames st') i =
         Some (if vf_active f
               then set_window f (vs_start st + active_bytes (firstn i (vs_frames st))) (vf_len f)
               else set_window f 0 0)) /\
    pairwise win_disjoint (live (vs_frames st')) /\
    (forall f', In f' (live (vs_frames st')) ->
       vs_start st <= vf_off f' /\ vf_off f' + vf_len f' <= vs_cpe st') /\
    vs_cpe st' = vs_start st + active_bytes (vs_frames st).
Proof.
  intros Hi. destruct (vacuum_correct st ix Hi) as (st' & Hv & _ & Ht & _ & Hc & _).
  exists st'. split; [exact Hv|]. rewrite Ht, Hc. split; [|split; [|split]].
  - intros i f Hn. apply relocate_nth; exact Hn.
  - apply relocate_disjoint.
  - apply relocate_in_range.
  - reflexivity.
Qed.

(* the payload region does not grow when no two active frames share or overlap *)
Lemma vacuum_no_growth st ix E :
  store_inv st -> all_disjoint st -> vs_start st <= E ->
  (forall f, In f (live (vs_frames st)) -> vf_off f + vf_len f <= E) ->
  exists st', vacuum st ix = Ok st' /\ vs_cpe st' <= E.
Proof.
  intros Hi Hd Hse Hin. destruct (vacuum_correct st ix Hi) as (st' & Hv & _ & _ & _ & Hc & _).
  exists st'. split; [exact Hv|]. rewrite Hc. apply disjoint_fit_below; [exact Hse|exact Hd|].
  intros f Hf. split; [|apply Hin; exact Hf].
  pose proof Hf as Hf0. unfold live in Hf0. apply filter_In in Hf0. destruct Hf0 as [Hf1 Hp].
  apply andb_true_iff in Hp. destruct Hp as [Ha Hn].
  destruct (inv_bounds st Hi f Hf1 Ha) as [H0|(M1 & M2 & M3)]; lia.
Qed.

(* with sharing the copies are separate afterwards and every one of them reads the shared bytes *)
Lemma wit_fixed :
  exists st', vacuum wit wit_ix = Ok st' /\
    map (fun f => (vf_id f, vf_off f, vf_len f)) (vs_frames st') = [(0, 0, 0); (1, 100, 4); (2, 104, 4)] /\
    map (frame_bytes st') (vs_frames st') = [[]; [1; 2; 3; 4]; [1; 2; 3; 4]] /\
    vs_cpe st' = 108 /\ vs_data_end st' = 108.
Proof. eexists. split; [vm_compute; reflexivity|]. vm_compute. repeat split; reflexivity. Qed.

