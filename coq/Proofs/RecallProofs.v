(* Proofs for C09 (lexical search recall): Model/Recall.v.
   A. the bloom side of the sketch test cannot reject a frame containing a query token
   B. find_candidates / find_sketch_candidates: exactly the passing entries when
      max_candidates does not cut
   C. the sketch stage keeps every frame that is a sketch candidate
   D. the recall pipeline: engine hypothesis + frame evaluable + snippets fit top_k => hit
   E. reopen: renumbering is harmless exactly when ids are 0,1,2,.. in insertion order *)
From Coq Require Import ZifyBool ZifyNat ZifyN Permutation.
From MV Require Import Base.Prelude Base.Facts Base.SortFacts Model.Sketch Model.AsOf Model.SearchPage Model.Recall
  Proofs.SketchFilterProofs Proofs.SearchPageProofs.
Local Open Scope N_scope.

(* ================================================================== A. bloom side *)
Lemma overlap_nth : forall (a b : bytes) (i : nat) (k : N),
    N.testbit (nth i a 0) k = true -> N.testbit (nth i b 0) k = true -> filters_overlap a b = true.
Proof.
  induction a as [|x a IH]; intros b i k Ha Hb.
  - destruct i; cbn [nth] in Ha; rewrite N.bits_0 in Ha; discriminate.
  - destruct b as [|y b].
    + destruct i; cbn [nth] in Hb; rewrite N.bits_0 in Hb; discriminate.
    + cbn [filters_overlap]. destruct i as [|i]; cbn [nth] in Ha, Hb.
      * destruct (N.eqb_spec (N.land x y) 0) as [E|E]; [|reflexivity].
        assert (Hc : N.testbit (N.land x y) k = true) by (rewrite N.land_spec, Ha, Hb; reflexivity).
        rewrite E, N.bits_0 in Hc. discriminate.
      * rewrite (IH b i k Ha Hb). apply orb_true_r.
Qed.

(* two filters of the same size that both report hash h as present share a set bit *)
Lemma contains_overlap f1 f2 h :
  length f1 = length f2 ->
  term_filter_maybe_contains f1 h = Ok true -> term_filter_maybe_contains f2 h = Ok true ->
  filters_overlap f1 f2 = true.
Proof.
  unfold term_filter_maybe_contains. intros Hl. rewrite Hl.
  destruct (N.of_nat (length f2) * 8 =? 0); [discriminate|].
  intros H1 H2. injection H1 as H1. injection H2 as H2.
  apply andb_prop in H1. destruct H1 as [H1 _]. apply andb_prop in H1. destruct H1 as [H1 _].
  apply andb_prop in H2. destruct H2 as [H2 _]. apply andb_prop in H2. destruct H2 as [H2 _].
  rewrite test_bit_testbit in H1, H2. eapply overlap_nth; eassumption.
Qed.

Section BloomSide.
  Variable token : Type.
  Variable token_eqb : token -> token -> bool.
  Variable hash_token : token -> N.
  Hypothesis token_eqb_sound : forall a b, token_eqb a b = true -> a = b.

  (* from_query never fails, its filter has the variant's size and reports every query token *)
  Lemma from_query_contains tokens v t :
    In t tokens ->
    exists q, from_query token token_eqb hash_token tokens v = Ok q /\
              length (q_filter q) = term_filter_size v /\
              term_filter_maybe_contains (q_filter q) (hash_token t) = Ok true.
  Proof.
    intros Hin. unfold from_query. destruct tokens as [|t0 r]; [destruct Hin|].
    set (tokens := t0 :: r) in *.
    set (w := compute_token_weights token token_eqb hash_token raw_weight_no_idf tokens).
    destruct (build_no_false_negative (map fst w) (term_filter_size v) (hash_token t))
      as (flt & Hb & Hl & Hc).
    - apply weights_cover; [exact token_eqb_sound | exact Hin].
    - apply term_filter_size_nz.
    - rewrite Hb. eexists. split; [reflexivity|]. cbn [q_filter]. split; assumption.
  Qed.

  (* THE BLOOM SIDE HAS NO FALSE NEGATIVES: a frame whose indexed text contains a token of
     the query passes term_filter_maybe_overlaps, for any tokenizer, hash, weights *)
  Theorem bloom_side_never_rejects (raw_weight : token -> N -> Z) fid doc_tokens query_tokens v t :
    (forall t c, (raw_weight t c <= 715827882)%Z) ->
    In t doc_tokens -> In t query_tokens ->
    exists e q, generate_sketch token token_eqb hash_token raw_weight fid doc_tokens v = Ok e /\
                from_query token token_eqb hash_token query_tokens v = Ok q /\
                e_frame_id e = fid /\
                filters_overlap (e_filter e) (q_filter q) = true.
  Proof.
    intros Hw Hd Hq.
    destruct (generate_sketch_no_false_negative token token_eqb hash_token raw_weight token_eqb_sound Hw fid doc_tokens v t Hd)
      as (e & He & Hce).
    destruct (generate_sketch_ok token token_eqb hash_token raw_weight Hw fid doc_tokens v) as (e' & He' & Hid & Hlen & _).
    rewrite He in He'. injection He' as <-.
    destruct (from_query_contains query_tokens v t Hq) as (q & Hq' & Hlq & Hcq).
    exists e, q. repeat split; try assumption.
    apply (contains_overlap _ _ (hash_token t)); [congruence | exact Hce | exact Hcq].
  Qed.
End BloomSide.

(* ================================================================== B. candidates *)
Lemma len_cons {A} (x : A) l : len (x :: l) = 1 + len l.
Proof. unfold len. cbn [length]. lia. Qed.

Lemma takeN_all {A} : forall (l : list A) n, len l <= n -> takeN n l = l.
Proof.
  induction l as [|x r IH]; intros n Hn; [reflexivity|].
  rewrite len_cons in Hn. cbn [takeN]. destruct (N.eqb_spec n 0) as [E|E]; [lia|].
  rewrite IH by lia. reflexivity.
Qed.

Lemma takeN_In {A} (x : A) : forall l n, In x (takeN n l) -> In x l.
Proof.
  induction l as [|y r IH]; intros n H; [exact H|].
  cbn [takeN] in H. destruct (n =? 0); [destruct H|].
  destruct H as [->|H]; [left; reflexivity | right; eapply IH; exact H].
Qed.

Lemma takeN_len {A} : forall (l : list A) n, len (takeN n l) <= n.
Proof.
  induction l as [|x r IH]; intros n; cbn [takeN]; [unfold len; cbn [length]; lia|].
  destruct (N.eqb_spec n 0) as [E|E]; [unfold len; cbn [length]; lia|].
  rewrite len_cons. specialize (IH (n - 1)). lia.
Qed.

Lemma filter_len_le {A} (p : A -> bool) l : (length (filter p l) <= length l)%nat.
Proof. induction l as [|x r IH]; cbn [filter length]; [lia|]. destruct (p x); cbn [length]; lia. Qed.

Section CandidateProofs.
  Variable S : Type.
  Variable score_fn : N -> N -> N -> N -> N -> S.
  Variable s_le : S -> S -> bool.
  Variable s_zero : S.
  (* min_score = 0.0 never removes a candidate: every score is >= 0.0 *)
  Hypothesis zero_least : forall a b c d e, s_le s_zero (score_fn a b c d e) = true.

  Notation score_entry := (score_entry S score_fn).
  Notation scored := (scored S score_fn).
  Notation find_candidates := (find_candidates S score_fn s_le).
  Notation find_sketch_candidates := (find_sketch_candidates S score_fn s_le).
  Notation sketch_candidate_ids := (sketch_candidate_ids S score_fn s_le s_zero).

  Lemma score_entry_passes q e thr :
    entry_passes q thr e = true <-> exists s, score_entry q e thr = Some s.
  Proof.
    unfold entry_passes, Recall.score_entry.
    destruct (filters_overlap (e_filter e) (q_filter q)); cbn [negb andb].
    - destruct (N.ltb_spec thr (hamming_distance (e_simhash e) (q_simhash q))) as [H|H].
      + split; [intros H'; lia | intros (s & Hs); discriminate].
      + split; [intros _; eexists; reflexivity | intros _; lia].
    - split; [discriminate | intros (s & Hs); discriminate].
  Qed.

  Lemma score_entry_zero_le q e thr s : score_entry q e thr = Some s -> s_le s_zero s = true.
  Proof.
    clear - zero_least. unfold Recall.score_entry.
    destruct (negb _); [discriminate|]. destruct (_ <? _); [discriminate|].
    intros H. injection H as <-. apply zero_least.
  Qed.

  Lemma scored_In q thr es f s :
    In (f, s) (scored q thr es) <-> exists e, In e es /\ e_frame_id e = f /\ score_entry q e thr = Some s.
  Proof.
    unfold Recall.scored. rewrite in_flat_map. split.
    - intros (e & He & Hin). exists e. destruct (score_entry q e thr) as [s'|] eqn:E; [|destruct Hin].
      destruct Hin as [Hin|[]]. injection Hin as <- <-. auto.
    - intros (e & He & <- & Hs). exists e. split; [exact He|]. rewrite Hs. left. reflexivity.
  Qed.

  Lemma scored_len q thr es : len (scored q thr es) = len (filter (entry_passes q thr) es).
  Proof.
    induction es as [|e r IH]; [reflexivity|].
    unfold Recall.scored in *. cbn [flat_map filter].
    destruct (entry_passes q thr e) eqn:E.
    - apply score_entry_passes in E. destruct E as (s & Hs). rewrite Hs.
      cbn [app]. rewrite !len_cons, IH. reflexivity.
    - destruct (score_entry q e thr) as [s|] eqn:Hs.
      + assert (entry_passes q thr e = true) by (apply score_entry_passes; eauto). congruence.
      + cbn [app]. exact IH.
  Qed.

  (* soundness: every candidate is the id of a passing entry *)
  Lemma find_candidates_sound q thr maxc es f s :
    In (f, s) (find_candidates q thr maxc es) ->
    exists e, In e es /\ e_frame_id e = f /\ score_entry q e thr = Some s.
  Proof.
    unfold Recall.find_candidates. intros H. apply takeN_In in H. apply isort_In in H.
    apply scored_In. exact H.
  Qed.

  (* completeness: when max_candidates does not cut, every passing entry is a candidate *)
  Lemma find_candidates_complete q thr maxc es e s :
    len (filter (entry_passes q thr) es) <= maxc ->
    In e es -> score_entry q e thr = Some s ->
    In (e_frame_id e, s) (find_candidates q thr maxc es).
  Proof.
    intros Hn He Hs. unfold Recall.find_candidates.
    rewrite takeN_all.
    - apply isort_In. apply scored_In. eauto.
    - unfold len. rewrite isort_length. fold (len (scored q thr es)). rewrite scored_len. exact Hn.
  Qed.

  Lemma candidate_ids_sound q es maxc f :
    In f (sketch_candidate_ids q es maxc) ->
    exists e, In e es /\ e_frame_id e = f /\ entry_passes q SKETCH_HAMMING_THRESHOLD e = true.
  Proof.
    unfold Recall.sketch_candidate_ids, Recall.find_sketch_candidates. rewrite map_map. cbn [fst].
    rewrite in_map_iff. intros ([f' s] & <- & Hin). cbn [fst].
    apply filter_In in Hin. destruct Hin as [Hin _].
    apply find_candidates_sound in Hin. destruct Hin as (e & He & Hid & Hs).
    exists e. repeat split; try assumption. apply score_entry_passes. eauto.
  Qed.

  Lemma candidate_ids_complete q es maxc e :
    len (filter (entry_passes q SKETCH_HAMMING_THRESHOLD) es) <= maxc ->
    In e es -> entry_passes q SKETCH_HAMMING_THRESHOLD e = true ->
    In (e_frame_id e) (sketch_candidate_ids q es maxc).
  Proof.
    intros Hn He Hp. apply score_entry_passes in Hp. destruct Hp as (s & Hs).
    unfold Recall.sketch_candidate_ids, Recall.find_sketch_candidates. rewrite map_map. cbn [fst].
    apply in_map_iff. exists (e_frame_id e, s). split; [reflexivity|].
    apply filter_In. split.
    - apply find_candidates_complete; assumption.
    - cbn [snd]. eapply score_entry_zero_le. exact Hs.
  Qed.

  (* never more candidates than max_candidates *)
  Lemma candidate_ids_bounded q es maxc : len (sketch_candidate_ids q es maxc) <= maxc.
  Proof.
    unfold Recall.sketch_candidate_ids, Recall.find_sketch_candidates, Recall.find_candidates.
    unfold len. rewrite !map_length.
    pose proof (filter_len_le (fun p : N * S => s_le s_zero (snd p))
                  (takeN maxc (isort (by_score_desc S s_le) (scored q SKETCH_HAMMING_THRESHOLD es)))) as H1.
    pose proof (takeN_len (isort (by_score_desc S s_le) (scored q SKETCH_HAMMING_THRESHOLD es)) maxc) as H2.
    unfold len in H2. lia.
  Qed.
End CandidateProofs.

(* ================================================================== C. the sketch stage *)
Lemma mem_id_In x l : mem_id x l = true <-> In x l.
Proof.
  unfold mem_id. rewrite existsb_exists. split.
  - intros (y & Hy & E). apply N.eqb_eq in E. subst. exact Hy.
  - intros H. exists x. split; [exact H | apply N.eqb_refl].
Qed.

Lemma is_nil_false_In {A} (x : A) l : In x l -> is_nil l = false.
Proof. destruct l; [intros [] | reflexivity]. Qed.

Lemma sketch_stage_keeps cands cf0 f :
  in_cf cf0 f = true -> mem_id f cands = true -> in_cf (sketch_stage cands cf0) f = true.
Proof.
  intros H0 Hc. unfold sketch_stage.
  apply mem_id_In in Hc. rewrite (is_nil_false_In f cands Hc).
  destruct cf0 as [existing|]; cbn [in_cf] in *.
  - assert (Hin : In f (keep_in cands existing)).
    { unfold keep_in. apply filter_In. split; [apply mem_id_In; exact H0 | apply mem_id_In; exact Hc]. }
    rewrite (is_nil_false_In f _ Hin). cbn [in_cf]. apply mem_id_In. exact Hin.
  - apply mem_id_In. exact Hc.
Qed.

(* the stage never ADDS a frame to an existing filter *)
Lemma sketch_stage_sub cands existing f :
  in_cf (sketch_stage cands (Some existing)) f = true -> in_cf (Some existing) f = true.
Proof.
  unfold sketch_stage. destruct (is_nil cands); [auto|].
  destruct (is_nil (keep_in cands existing)); [auto|].
  cbn [in_cf]. rewrite !mem_id_In. unfold keep_in. rewrite filter_In. tauto.
Qed.

Lemma sketch_drops_false M cf0 cf :
  sketch_drops M cf0 cf = false <-> (forall f, In f M -> in_cf cf0 f = true -> in_cf cf f = true).
Proof.
  unfold sketch_drops. split.
  - intros H f Hf H0. destruct (in_cf cf f) eqn:E; [reflexivity|].
    assert (existsb (fun f0 => in_cf cf0 f0 && negb (in_cf cf f0)) M = true)
      by (apply existsb_exists; exists f; rewrite H0, E; auto).
    congruence.
  - intros H. destruct (existsb _ M) eqn:E; [|reflexivity].
    apply existsb_exists in E. destruct E as (f & Hf & Hb).
    apply andb_prop in Hb. destruct Hb as [H0 H1]. rewrite (H f Hf H0) in H1. discriminate.
Qed.

(* ================================================================== D. the pipeline *)
Lemma snippets_stream ev :
  flat_map (fun d => flat_map (fun sl => match emit_tantivy d sl with Some h => [h] | None => [] end) (e_slices d)) ev
  = stream emit_tantivy ev.
Proof.
  unfold stream, items. induction ev as [|d r IH]; [reflexivity|].
  cbn [flat_map]. rewrite somes_app, IH. f_equal.
  induction (e_slices d) as [|sl sls IHs]; [reflexivity|].
  cbn [flat_map map somes]. destruct (emit_tantivy d sl); cbn [app]; rewrite IHs; reflexivity.
Qed.

Lemma emit_slice_ok d sl :
  slice_ok (e_clen d) sl = true -> exists r, emit_tantivy d sl = Some (e_frame d, r).
Proof.
  unfold slice_ok, emit_tantivy. intros H.
  destruct (N.leb_spec (N.min (snd sl) (e_clen d)) (N.min (fst sl) (e_clen d))) as [H1|H1]; [lia|].
  destruct (N.leb_spec (e_cstart d + N.min (snd sl) (e_clen d)) (e_cstart d + N.min (fst sl) (e_clen d))) as [H2|H2]; [lia|].
  eexists. reflexivity.
Qed.

Lemma In_somes {A} (x : A) l : In (Some x) l -> In x (somes l).
Proof.
  induction l as [|o r IH]; intros H; [destruct H|].
  destruct H as [->|H]; cbn [somes]; [left; reflexivity|].
  destruct o; [right|]; apply IH; exact H.
Qed.

Section PipelineProofs.
  Variable combined : N -> Z -> N.

  Lemma resort_In ev d : In d (resort combined ev) <-> In d ev.
  Proof.
    unfold resort. destruct (1 <? len ev); [|tauto].
    rewrite in_map_iff. split.
    - intros ([k d'] & <- & H). apply isort_In in H. apply in_map_iff in H.
      destruct H as (d0 & E & H). injection E as _ <-. exact H.
    - intros H. exists (resort_key combined (max_ts ev) d, d). split; [reflexivity|].
      apply isort_In. apply in_map_iff. exists d. auto.
  Qed.

  Lemma evaluate_In cap cands c :
    In c cands -> c_keep c = true -> slices_at c cap <> [] ->
    In (mkEdoc (c_frame c) (c_score c) (c_cstart c) (c_clen c) (slices_at c cap) (c_ts c)) (evaluate cap cands).
  Proof.
    intros Hc Hk Hs. unfold evaluate. apply in_flat_map. exists c. split; [exact Hc|].
    rewrite Hk. destruct (slices_at c cap); [congruence | left; reflexivity].
  Qed.

  (* what the evaluation loop + re-sort + page loop return when the snippets fit top_k *)
  Lemma after_engine_recall has_lex cands top_k c0 :
    snippets_exceed (resort combined (evaluate (N.max top_k 1) cands)) top_k = false ->
    In c0 cands -> c_keep c0 = true -> existsb (slice_ok (c_clen c0)) (slices_at c0 (N.max top_k 1)) = true ->
    exists p, after_engine combined has_lex cands top_k None = Ok (Some p) /\
              forall c, In c cands -> c_keep c = true ->
                        existsb (slice_ok (c_clen c)) (slices_at c (N.max top_k 1)) = true ->
                        In (c_frame c) (map fst (p_hits p)).
  Proof.
    intros Hfit Hc0 Hk0 Hs0.
    set (cap := N.max top_k 1) in *.
    set (ev := resort combined (evaluate cap cands)) in *.
    assert (Hstream : forall c, In c cands -> c_keep c = true ->
                                existsb (slice_ok (c_clen c)) (slices_at c cap) = true ->
                                In (c_frame c) (map fst (stream emit_tantivy ev))).
    { intros c Hc Hk Hs. apply existsb_exists in Hs. destruct Hs as (sl & Hsl & Hok).
      set (d := mkEdoc (c_frame c) (c_score c) (c_cstart c) (c_clen c) (slices_at c cap) (c_ts c)).
      assert (Hd : In d ev).
      { apply resort_In. apply evaluate_In; [exact Hc | exact Hk |].
        intros E. rewrite E in Hsl. destruct Hsl. }
      destruct (emit_slice_ok d sl Hok) as (r & Hr). cbn [e_frame d] in Hr.
      apply in_map_iff. exists (c_frame c, r). split; [reflexivity|].
      unfold stream. apply In_somes. unfold items. apply in_flat_map. exists d. split; [exact Hd|].
      apply in_map_iff. exists sl. split; [exact Hr | exact Hsl]. }
    assert (Hlen : (len (stream emit_tantivy ev) <= N.max top_k 1)%N).
    { unfold snippets_exceed in Hfit. rewrite snippets_stream in Hfit. lia. }
    destruct (oneshot_spec emit_tantivy true ev top_k Hlen) as (one & Hone & Hh & Ht).
    assert (Hpos : (0 < total_slices ev)%N).
    { specialize (Hstream c0 Hc0 Hk0 Hs0). rewrite total_slices_items with (emit := emit_tantivy).
      unfold stream in Hstream. destruct (items emit_tantivy ev) as [|it its]; [destruct Hstream|].
      unfold len. cbn [length]. lia. }
    exists one. split.
    - rewrite after_engine_page by exact Hpos. fold cap. fold ev. rewrite Hone. reflexivity.
    - intros c Hc Hk Hs. rewrite Hh. apply Hstream; assumption.
  Qed.
End PipelineProofs.

Lemma dedupN_In x l : In x (dedupN l) <-> In x l.
Proof.
  induction l as [|y r IH]; [tauto|]. cbn [dedupN In]. rewrite filter_In, IH.
  destruct (N.eqb_spec y x) as [->|E]; cbn [negb]; [tauto|]. split; [tauto|].
  intros [H|H]; [left; exact H | right; split; [exact H | reflexivity]].
Qed.

Lemma NoDup_sub_set_len M l :
  NoDup M -> (forall f, In f M -> In f l) -> len M <= set_len l.
Proof.
  intros Hnd Hsub. unfold set_len, len.
  assert (length M <= length (dedupN l))%nat; [|lia].
  apply NoDup_incl_length; [exact Hnd|]. intros f Hf. apply dedupN_In. apply Hsub. exact Hf.
Qed.

Lemma filter_all {A} (p : A -> bool) l : (forall x, In x l -> p x = true) -> filter p l = l.
Proof.
  induction l as [|x r IH]; intros H; [reflexivity|]. cbn [filter].
  rewrite (H x (or_introl eq_refl)), IH; [reflexivity|]. intros y Hy. apply H. right. exact Hy.
Qed.

Lemma toc_slices_at toc h cap : slices_at (mk_cand toc h) cap = toc_slices (toc (fst h)) cap.
Proof. reflexivity. Qed.

Section RecallProofs.
  Variable S : Type.
  Variable score_fn : N -> N -> N -> N -> N -> S.
  Variable s_le : S -> S -> bool.
  Variable s_zero : S.
  Variable engine : option (list N) -> N -> list (N * N).
  Variable toc : N -> tocfacts.
  Variable combined : N -> Z -> N.

  Notation search := (search S score_fn s_le s_zero engine toc combined).
  Notation known_sketch := (known_sketch S score_fn s_le s_zero).
  Notation known_snippets := (known_snippets S score_fn s_le s_zero engine toc combined).
  Notation final_filter := (final_filter S score_fn s_le s_zero).

  (* RECALL, outside the two known classes: default request (no cursor), k <= top_k.
     `top_k <= USIZE_MAX` is the range of the Rust type (top_k : usize). *)
  Theorem recall_outside_known es q top_k has_text no_sketch cf0 has_lex M :
    let rq := mkSreq top_k None has_text no_sketch in
    top_k <= USIZE_MAX ->
    NoDup M -> M <> [] -> len M <= top_k ->
    (forall f, In f M -> in_cf cf0 f = true) ->
    engine_recall engine M ->
    (forall f, In f M -> evaluable toc top_k f = true) ->
    known_sketch es q rq cf0 M = false ->
    known_snippets es q rq cf0 = false ->
    exists p, search es q rq cf0 has_lex = Ok (Some p) /\
              forall f, In f M -> In f (hit_frames p).
  Proof.
    intros rq Hk10 Hnd Hne Hk Hcf0 Heng Hev Hks Hkn.
    unfold Recall.known_sketch, Recall.known_snippets, Recall.evaluated_docs, Recall.search in *.
    cbn [r_top_k r_cursor r_has_text r_no_sketch rq] in *.
    set (cf := final_filter es q has_text no_sketch top_k cf0) in *.
    assert (Hin : forall f, In f M -> in_cf cf f = true).
    { intros f Hf. apply (proj1 (sketch_drops_false M cf0 cf) Hks f Hf). apply Hcf0. exact Hf. }
    set (limit := engine_limit top_k (offset_hint None) (option_map set_len cf)) in *.
    assert (Hlim : len (filter (in_cf cf) M) <= N.max limit 1).
    { rewrite (filter_all _ _ Hin). subst limit. unfold engine_limit, offset_hint.
      assert (HU : USIZE_MAX = 18446744073709551615) by reflexivity.
      destruct cf as [l|]; cbn [option_map].
      - assert (len M <= set_len l).
        { apply NoDup_sub_set_len; [exact Hnd|]. intros f Hf. apply mem_id_In. apply (Hin f Hf). }
        lia.
      - lia. }
    set (cands := map (mk_cand toc) (engine cf limit)) in *.
    assert (Hc : forall f, In f M -> exists c, In c cands /\ c_frame c = f /\ c_keep c = true /\
                                              existsb (slice_ok (c_clen c)) (slices_at c (N.max top_k 1)) = true).
    { intros f Hf. specialize (Heng cf limit f Hf (Hin f Hf) Hlim).
      apply in_map_iff in Heng. destruct Heng as ([f' sc] & E & Hh). cbn [fst] in E. subst f'.
      exists (mk_cand toc (f, sc)). split; [apply in_map; exact Hh|].
      specialize (Hev f Hf). unfold evaluable in Hev. apply andb_prop in Hev. destruct Hev as [Hkeep Hsl].
      split; [reflexivity|]. split; [exact Hkeep|]. rewrite toc_slices_at. exact Hsl. }
    destruct M as [|f0 M']; [congruence|].
    destruct (Hc f0 (or_introl eq_refl)) as (c0 & Hc0 & _ & Hk0 & Hs0).
    destruct (after_engine_recall combined has_lex cands top_k c0 Hkn Hc0 Hk0 Hs0) as (p & Hp & Hall).
    exists p. split; [exact Hp|].
    intros f Hf. destruct (Hc f Hf) as (c & Hcin & <- & Hkc & Hsc).
    unfold hit_frames. apply Hall; assumption.
  Qed.

  (* with the pre-filter disabled the sketch class is empty *)
  Lemma no_sketch_never_drops es q top_k has_text cf0 M :
    known_sketch es q (mkSreq top_k None has_text true) cf0 M = false.
  Proof.
    unfold Recall.known_sketch, Recall.final_filter, sketch_applies. cbn [r_has_text r_no_sketch r_top_k].
    rewrite !andb_false_r. apply sketch_drops_false. auto.
  Qed.

  (* ... and so is it when every matching frame's own entry passes the sketch test and
     max_candidates does not cut *)
  Hypothesis zero_least : forall a b c d e, s_le s_zero (score_fn a b c d e) = true.

  Lemma passing_entries_never_dropped es q top_k has_text no_sketch cf0 M :
    (forall f, In f M -> exists e, In e es /\ e_frame_id e = f /\ entry_passes q SKETCH_HAMMING_THRESHOLD e = true) ->
    len (filter (entry_passes q SKETCH_HAMMING_THRESHOLD) es) <= sketch_max_candidates top_k ->
    known_sketch es q (mkSreq top_k None has_text no_sketch) cf0 M = false.
  Proof.
    intros Hpass Hcut. unfold Recall.known_sketch, Recall.final_filter. cbn [r_has_text r_no_sketch r_top_k].
    destruct (sketch_applies es has_text no_sketch); [|apply sketch_drops_false; auto].
    apply sketch_drops_false. intros f Hf H0. apply sketch_stage_keeps; [exact H0|].
    apply mem_id_In. destruct (Hpass f Hf) as (e & He & <- & Hp).
    apply candidate_ids_complete; assumption.
  Qed.
End RecallProofs.

(* ================================================================== E. reopen *)
(* Small track, entries as generate_sketch makes them (16-byte filter): reading the track
   back keeps simhash and filter, so the same entries pass; only the numbering changes. *)
Lemma small_filter_id f : length f = 16%nat -> small_filter f = f.
Proof.
  intros H. unfold small_filter, TERM_FILTER_SIZE_SMALL. rewrite H. cbn [Nat.leb].
  rewrite <- H. apply firstn_all.
Qed.

Lemma norm_small_passes q thr i e :
  length (e_filter e) = 16%nat ->
  entry_passes q thr (norm_entry Small i e) = entry_passes q thr e.
Proof.
  intros H. unfold entry_passes, norm_entry. cbn [e_filter e_simhash]. rewrite small_filter_id by exact H. reflexivity.
Qed.

Lemma norm_from_ids v : forall l i,
    map e_frame_id (norm_from v i l) = nseq i (length l).
Proof.
  induction l as [|e r IH]; intros i; [reflexivity|].
  cbn [norm_from map nseq length]. rewrite IH. destruct v; reflexivity.
Qed.

(* the passing entries, by their number after reopen, position by position *)
Lemma reopen_passing_positions q thr : forall l i,
    Forall (fun e => length (e_filter e) = 16%nat) l ->
    map (entry_passes q thr) (norm_from Small i l) = map (entry_passes q thr) l.
Proof.
  induction l as [|e r IH]; intros i H; [reflexivity|].
  inversion H as [|? ? He Hr]; subst. cbn [norm_from map]. rewrite norm_small_passes by exact He.
  rewrite IH by exact Hr. reflexivity.
Qed.

(* dense ids 0,1,2,.. in insertion order: the set of passing frame ids is unchanged by reopen *)
Theorem reopen_dense_same_passing q thr t :
  t_variant t = Small ->
  Forall (fun e => length (e_filter e) = 16%nat) (t_entries t) ->
  known_ids t = false ->
  map e_frame_id (filter (entry_passes q thr) (t_entries (reopened t)))
  = map e_frame_id (filter (entry_passes q thr) (t_entries t)).
Proof.
  intros Hv Hf Hk. unfold reopened, readback. cbn [t_entries]. rewrite Hv.
  unfold known_ids in Hk. apply negb_false_iff in Hk.
  apply (proj1 (list_eqb_spec N.eqb (fun x y => N.eqb_eq x y) _ _)) in Hk.
  revert Hk Hf. generalize 0. induction (t_entries t) as [|e r IH]; intros i Hk Hf; [reflexivity|].
  inversion Hf as [|? ? He Hr]; subst.
  cbn [map nseq length] in Hk. injection Hk as Hid Hk.
  cbn [norm_from filter]. rewrite norm_small_passes by exact He.
  destruct (entry_passes q thr e); cbn [map]; rewrite (IH (i + 1) Hk Hr); [|reflexivity].
  f_equal. cbn [norm_entry e_frame_id]. symmetry. exact Hid.
Qed.

(* ================================================================== F. the table engine *)
Lemma filter_map_fst (p : N -> bool) (tbl : list (N * N)) :
  map fst (filter (fun h => p (fst h)) tbl) = filter p (map fst tbl).
Proof.
  induction tbl as [|h r IH]; [reflexivity|]. cbn [filter map].
  destruct (p (fst h)); cbn [map]; rewrite IH; reflexivity.
Qed.

(* the engine hypothesis is satisfiable: a ranked table whose frames are exactly M *)
Lemma table_engine2_recall tbl : engine_recall (table_engine2 tbl) (map fst tbl).
Proof.
  intros cf limit f Hf Hcf Hlen. unfold table_engine2.
  rewrite takeN_all.
  - rewrite filter_map_fst. apply filter_In. split; assumption.
  - rewrite <- filter_map_fst in Hlen. unfold len in *. rewrite map_length in Hlen. exact Hlen.
Qed.
