From MV Require Import Base.Prelude Model.FsProto.
Require Import ZifyBool ZifyNat ZifyN.

Lemma exec_app s a b : exec s (a ++ b) = exec (exec s a) b.
Proof. apply fold_left_app. Qed.

(* shape of an accepted staged commit *)
Lemma staged_shape t : staged_commit_ok t = true ->
  exists body, only_tmp_writes body = true /\
    t = [FsyncMem; OpenTmp; CopyToTmp; FsyncTmp] ++ body ++ [FsyncTmp; RenameTmp; FsyncDir].
Proof.
  unfold staged_commit_ok.
  destruct t as [|[] t]; try discriminate. destruct t as [|[] t]; try discriminate.
  destruct t as [|[] t]; try discriminate. destruct t as [|[] t]; try discriminate.
  destruct (rev t) as [|[] l1] eqn:E1; try discriminate. destruct l1 as [|[] l2]; try discriminate.
  destruct l2 as [|[] l3]; try discriminate.
  intros Hb. exists (rev l3). split; [exact Hb|].
  cbn [app]. do 4 f_equal. rewrite <- (rev_involutive t), E1. cbn [rev]. rewrite <- !app_assoc. reflexivity.
Qed.

(* staging-only operations never touch the inode the memory's name points to *)
Lemma tmp_writes_keep_mem body : only_tmp_writes body = true -> forall s,
  mem_v (exec s body) = mem_v s /\ mem_d (exec s body) = mem_d s /\ dir_synced (exec s body) = dir_synced s /\
  old_d (exec s body) = old_d s /\ (tmp_v s <> None -> tmp_v (exec s body) <> None).
Proof.
  induction body as [|op body IH]; intros Hb s; [cbn; auto|].
  destruct op; try discriminate; cbn [only_tmp_writes] in Hb; change (exec s (?o :: body)) with (exec (step s o) body).
  - (* WriteTmp *)
    destruct (IH Hb (step s (WriteTmp w))) as (A & B & C & D & E). cbn [step] in *.
    destruct (tmp_v s) as [c|] eqn:Et; cbn [mem_v mem_d dir_synced old_d tmp_v] in *; repeat split; try assumption.
    + intros _. apply E. discriminate.
    + intros H. contradiction.
  - (* FsyncTmp *)
    destruct (IH Hb (step s FsyncTmp)) as (A & B & C & D & E). cbn [step mem_v mem_d dir_synced old_d tmp_v] in *.
    repeat split; assumption.
Qed.

Section Staged.
  Variable c : content.          (* committed content of the memory before the commit *)

  (* the image the commit installs: old content plus the writes made on the staging copy *)
  Definition new_image (t : list fsop) : content := mem_v (exec (fs0 c) t).

  Lemma prefix_cases {A} (p q a b : list A) : p ++ q = a ++ b ->
    (exists r, a = p ++ r /\ q = r ++ b) \/ (exists r, p = a ++ r /\ b = r ++ q).
  Proof.
    revert a; induction p as [|x p IH]; intros a E.
    - left. exists a. split; [reflexivity|exact E].
    - destruct a as [|y a].
      + right. exists (x :: p). split; [reflexivity|]. cbn in E. rewrite <- E. reflexivity.
      + cbn in E. injection E as Exy Erest. subst y. destruct (IH a Erest) as [(r & H1 & H2)|(r & H1 & H2)].
        * left. exists r. subst. split; reflexivity.
        * right. exists r. subst. split; reflexivity.
  Qed.

  (* C02, staged commit: a process crash at ANY point leaves the old image or the new one *)
  Theorem staged_commit_crash_atomic t : staged_commit_ok t = true ->
    forall p q, t = p ++ q ->
      after_crash (exec (fs0 c) p) = c \/ after_crash (exec (fs0 c) p) = new_image t.
  Proof.
    intros Hok p q Ht. destruct (staged_shape t Hok) as (body & Hb & Hs).
    set (pre := [FsyncMem; OpenTmp; CopyToTmp; FsyncTmp]) in *.
    set (post := [FsyncTmp; RenameTmp; FsyncDir]) in *.
    assert (Hpre : forall s, mem_v (exec s pre) = mem_v s /\ tmp_v (exec s pre) = Some (mem_v s)).
    { intros s. cbn. auto. }
    rewrite Hs in Ht. rewrite app_assoc in Ht.
    destruct (prefix_cases p q (pre ++ body) post (eq_sym Ht)) as [(r & H1 & H2)|(r & H1 & H2)].
    - (* crash before the final fsync/rename: the name still points to the old inode *)
      left. unfold after_crash.
      destruct (prefix_cases p r pre body (eq_sym H1)) as [(r1 & H3 & H4)|(r1 & H3 & H4)].
      + (* inside the preamble: only staging ops and the initial fsync *)
        assert (Hm : forall l s, incl l pre -> mem_v (exec s l) = mem_v s).
        { induction l as [|op l IHl]; intros s Hi; [reflexivity|]. cbn [exec fold_left]. fold (exec (step s op) l).
          rewrite IHl by (intros x Hx; apply Hi; right; exact Hx).
          assert (Hin : In op pre) by (apply Hi; left; reflexivity).
          cbn in Hin. destruct Hin as [<-|[<-|[<-|[<-|[]]]]]; cbn [step mem_v]; try reflexivity. }
        rewrite Hm; [reflexivity|]. intros x Hx. rewrite H3. apply in_or_app. left. exact Hx.
      + subst p. rewrite exec_app.
        assert (Hb1 : only_tmp_writes r1 = true).
        { clear - Hb H4. subst body. revert Hb. induction r1 as [|o r1 IH]; [reflexivity|]. destruct o; cbn; auto. }
        destruct (tmp_writes_keep_mem r1 Hb1 (exec (fs0 c) pre)) as (A & _). rewrite A. apply Hpre.
    - (* crash inside [fsync; rename; fsync dir] *)
      subst p. rewrite !exec_app.
      destruct (tmp_writes_keep_mem body Hb (exec (fs0 c) pre)) as (A & B & C & D & E).
      pose proof (Hpre (fs0 c)) as [P1 P2].
      set (s1 := exec (exec (fs0 c) pre) body) in *.
      assert (Ht1 : tmp_v s1 <> None) by (apply E; rewrite P2; discriminate).
      assert (Hnew : new_image t = match tmp_v s1 with Some cn => cn | None => c end).
      { unfold new_image. rewrite Hs, !exec_app. fold s1. destruct (tmp_v s1) as [cn|] eqn:Etv; [|contradiction].
        unfold post. cbn. rewrite Etv. destruct (tmp_v s1); reflexivity. }
      destruct (tmp_v s1) as [cn|] eqn:Etv; [|contradiction].
      assert (Hold : mem_v s1 = c) by (rewrite A; exact P1).
      unfold post in H2. unfold after_crash. rewrite Hnew. clear Hnew.
      destruct r as [|o1 [|o2 [|o3 [|o4 r]]]]; cbn [app] in H2; inversion H2; subst o1 || idtac; try subst o2; try subst o3; try subst q.
      + left. cbn. exact Hold.
      + left. cbn. exact Hold.
      + right. cbn. rewrite Etv. reflexivity.
      + right. cbn. rewrite Etv. reflexivity.
  Qed.
End Staged.

Lemma firstn_skipn_self {A} (c : list A) k : firstn k (skipn (length c) c) = [].
Proof. rewrite skipn_all. destruct k; reflexivity. Qed.

Section StagedPower.
  Variable c : content.

  (* C03, staged commit: power loss at ANY point leaves the old image or the new one, and once
     the commit has returned (whole trace executed) only the new one *)
  Theorem staged_commit_power_safe t : staged_commit_ok t = true ->
    (forall p q, t = p ++ q -> forall c', after_power_loss (exec (fs0 c) p) c' -> c' = c \/ c' = new_image c t) /\
    (forall c', after_power_loss (exec (fs0 c) t) c' -> c' = new_image c t).
  Proof.
    intros Hok. destruct (staged_shape t Hok) as (body & Hb & Hs).
    set (pre := [FsyncMem; OpenTmp; CopyToTmp; FsyncTmp]) in *.
    set (post := [FsyncTmp; RenameTmp; FsyncDir]) in *.
    destruct (tmp_writes_keep_mem body Hb (exec (fs0 c) pre)) as (A & B & C & D & E).
    set (s1 := exec (exec (fs0 c) pre) body) in *.
    assert (P1 : mem_v (exec (fs0 c) pre) = c /\ mem_d (exec (fs0 c) pre) = c /\ dir_synced (exec (fs0 c) pre) = true /\ tmp_v (exec (fs0 c) pre) = Some c) by (cbn; auto).
    destruct P1 as (P1 & P2 & P3 & P4).
    assert (Ht1 : tmp_v s1 <> None) by (apply E; rewrite P4; discriminate).
    destruct (tmp_v s1) as [cn|] eqn:Etv; [|contradiction].
    assert (Hnew : new_image c t = cn).
    { unfold new_image. rewrite Hs, !exec_app. fold s1. unfold post. cbn. rewrite Etv. reflexivity. }
    assert (Hquiet : forall s, mem_v s = c -> mem_d s = c -> dir_synced s = true -> forall c', after_power_loss s c' -> c' = c).
    { intros s Hv Hd Hsy c' [(k & Hk)|(Hf & _)]; [|congruence]. rewrite Hk, Hd, Hv, firstn_skipn_self, app_nil_r. reflexivity. }
    split.
    - intros p q Ht c' Hpl. rewrite Hs in Ht. rewrite app_assoc in Ht.
      destruct (prefix_cases p q (pre ++ body) post (eq_sym Ht)) as [(r & H1 & H2)|(r & H1 & H2)].
      + left. destruct (prefix_cases p r pre body (eq_sym H1)) as [(r1 & H3 & H4)|(r1 & H3 & H4)].
        * (* inside the preamble *)
          assert (Hm : forall l s, incl l pre -> mem_v s = c -> mem_d s = c -> dir_synced s = true ->
                       mem_v (exec s l) = c /\ mem_d (exec s l) = c /\ dir_synced (exec s l) = true).
          { induction l as [|op l IHl]; intros s Hi Hv Hd Hsy; [auto|]. change (exec s (op :: l)) with (exec (step s op) l).
            assert (Hin : In op pre) by (apply Hi; left; reflexivity).
            apply IHl; [intros x Hx; apply Hi; right; exact Hx| | |];
              cbn in Hin; destruct Hin as [<-|[<-|[<-|[<-|[]]]]]; cbn [step mem_v mem_d dir_synced]; assumption. }
          destruct (Hm p (fs0 c)) as (X & Y & Z); try reflexivity.
          { intros x Hx. rewrite H3. apply in_or_app. left. exact Hx. }
          apply (Hquiet _ X Y Z c' Hpl).
        * subst p. rewrite exec_app in Hpl.
          assert (Hb1 : only_tmp_writes r1 = true).
          { clear - Hb H4. subst body. revert Hb. induction r1 as [|o r1 IH]; [reflexivity|]. destruct o; cbn; auto. }
          destruct (tmp_writes_keep_mem r1 Hb1 (exec (fs0 c) pre)) as (A1 & B1 & C1 & _).
          apply (Hquiet _ (eq_trans A1 P1) (eq_trans B1 P2) (eq_trans C1 P3) c' Hpl).
      + subst p. rewrite !exec_app in Hpl. fold s1 in Hpl. rewrite Hnew. unfold post in H2.
        assert (Hs1 : mem_v s1 = c /\ mem_d s1 = c /\ dir_synced s1 = true) by (rewrite A, B, C; auto).
        destruct Hs1 as (S1 & S2 & S3).
        destruct r as [|o1 [|o2 [|o3 [|o4 r]]]]; cbn [app] in H2; inversion H2; try subst o1; try subst o2; try subst o3.
        * left. apply (Hquiet s1 S1 S2 S3 c' Hpl).
        * left. apply (Hquiet (exec s1 [FsyncTmp])); [exact S1|exact S2|exact S3|exact Hpl].
        * (* renamed, directory not yet synced *)
          cbn in Hpl. rewrite Etv in Hpl. cbn in Hpl. unfold after_power_loss in Hpl. cbn [mem_d mem_v dir_synced old_d] in Hpl.
          destruct Hpl as [(k & Hk)|(_ & Hk)].
          -- right. rewrite Hk, firstn_skipn_self, app_nil_r. reflexivity.
          -- left. rewrite Hk. exact S2.
        * cbn in Hpl. rewrite Etv in Hpl. cbn in Hpl. unfold after_power_loss in Hpl. cbn [mem_d mem_v dir_synced old_d] in Hpl.
          destruct Hpl as [(k & Hk)|(Hf & _)]; [|discriminate].
          right. rewrite Hk, firstn_skipn_self, app_nil_r. reflexivity.
    - intros c' Hpl. rewrite Hnew. rewrite Hs, !exec_app in Hpl. fold s1 in Hpl. unfold post in Hpl.
      cbn in Hpl. rewrite Etv in Hpl. cbn in Hpl. unfold after_power_loss in Hpl. cbn [mem_d mem_v dir_synced old_d] in Hpl.
      destruct Hpl as [(k & Hk)|(Hf & _)]; [|discriminate].
      rewrite Hk, firstn_skipn_self, app_nil_r. reflexivity.
  Qed.
End StagedPower.

(* the log append: a record write, an fsync, a sentinel write, all in place *)
Section WalAppend.
  Variable c : content.
  Variables r z : wr.

  Definition synced (s : fs) : Prop := mem_v s = c /\ mem_d s = c /\ dir_synced s = true.

  (* C02: a process crash leaves the log without the record, with it, or with it and the sentinel *)
  Theorem wal_append_crash s : synced s ->
    forall p q, [WriteMem r; FsyncMem; WriteMem z] = p ++ q ->
      after_crash (exec s p) = c \/ after_crash (exec s p) = c ++ [r] \/ after_crash (exec s p) = c ++ [r; z].
  Proof.
    intros (Hv & Hd & Hs) p q Hpq. unfold after_crash.
    destruct p as [|o1 [|o2 [|o3 [|o4 p]]]]; cbn [app] in Hpq; inversion Hpq; subst; cbn; rewrite ?Hv; auto;
      try (right; right; rewrite <- app_assoc; reflexivity); try (destruct p; discriminate).
  Qed.

  (* C03: once append_entry has returned (the fsync completed), every power-loss image
     contains the record; before the fsync it may or may not *)
  Theorem wal_append_durable s : synced s ->
    forall c', after_power_loss (exec s [WriteMem r; FsyncMem; WriteMem z]) c' -> c' = c ++ [r] \/ c' = c ++ [r; z].
  Proof.
    intros (Hv & Hd & Hs) c' Hpl. cbn in Hpl. unfold after_power_loss in Hpl. cbn [mem_v mem_d dir_synced old_d] in Hpl.
    rewrite Hs, Hv in Hpl. destruct Hpl as [(k & Hk)|(Hf & _)]; [|discriminate].
    rewrite skipn_app, skipn_all, Nat.sub_diag in Hk. cbn [skipn app] in Hk.
    destruct k as [|k]; cbn [firstn] in Hk.
    - left. rewrite Hk, app_nil_r. reflexivity.
    - right. rewrite Hk. destruct k; cbn [firstn]; rewrite <- app_assoc; reflexivity.
  Qed.

  Theorem wal_append_before_fsync_may_lose s : synced s ->
    after_power_loss (exec s [WriteMem r]) c.
  Proof. intros (Hv & Hd & Hs). left. exists 0%nat. cbn. rewrite Hd, app_nil_r. reflexivity. Qed.
End WalAppend.
