(* The tokenizer's length rule is on bytes, and generate_sketch keeps every token the
   tokenizer emits: the no-false-negative theorem instantiated with the modelled tokenizer. *)
From MV Require Import Base.Prelude Base.Facts Model.Sketch Proofs.SketchFilterProofs.
Require Import ZifyBool ZifyNat ZifyN.
Local Open Scope N_scope.

Lemma tokenize_norm_bytes a cs t : In t (tokenize_norm a cs) -> 2 <= str_len t.
Proof. unfold tokenize_norm. rewrite filter_In. intros [_ H]. apply N.leb_le. exact H. Qed.

Lemma forallb_rev {A} (f : A -> bool) l : forallb f l = true -> forallb f (rev l) = true.
Proof.
  rewrite !forallb_forall. intros H x Hx. apply H. apply in_rev. exact Hx.
Qed.

Lemma split_alnum_alnum a cs : forall cur t,
  forallb a cur = true -> In t (split_alnum a cs cur) -> forallb a t = true.
Proof.
  induction cs as [|c r IH]; intros cur t Hcur Hin; cbn [split_alnum] in Hin.
  - destruct Hin as [<-|[]]. apply forallb_rev. exact Hcur.
  - destruct (a c) eqn:E.
    + apply (IH (c :: cur)); [cbn [forallb]; rewrite E, Hcur; reflexivity | exact Hin].
    + destruct Hin as [<-|Hin]; [apply forallb_rev; exact Hcur | apply (IH []); [reflexivity | exact Hin]].
Qed.

Lemma tokenize_norm_alnum a cs t : In t (tokenize_norm a cs) -> forallb a t = true.
Proof.
  unfold tokenize_norm. rewrite filter_In. intros [H _]. eapply split_alnum_alnum; [|exact H]. reflexivity.
Qed.

(* one alphanumeric character alone: a token iff it takes at least two bytes *)
Lemma tokenize_norm_single a c :
  a c = true -> tokenize_norm a [c] = if c <? 128 then [] else [[c]].
Proof.
  intros Ha. unfold tokenize_norm. cbn [split_alnum]. rewrite Ha. cbn [split_alnum rev app filter str_len fold_right].
  unfold utf8_len.
  destruct (c <? 128) eqn:E1; [reflexivity|].
  destruct (c <? 2048); [reflexivity|]. destruct (c <? 65536); reflexivity.
Qed.

Lemma list_N_eqb_sound (x y : list N) : list_eqb N.eqb x y = true -> x = y.
Proof. apply (list_eqb_spec N.eqb N.eqb_eq). Qed.

(* tokens = lists of code points as the tokenizer emits them (any normalisation, any
   is_alphanumeric, any hash, any bounded weight formula) *)
Theorem sketch_no_false_negative_bytelen
  (is_alnum : N -> bool) (text : Type) (normalise : text -> list N)
  (hash_token : list N -> N) (raw_weight : list N -> N -> Z) :
  (forall t c, (raw_weight t c <= 715827882)%Z) ->
  forall fid (txt : text) v t,
    In t (tokenize_norm is_alnum (normalise txt)) ->
    exists e, generate_sketch (list N) (list_eqb N.eqb) hash_token raw_weight fid
                              (tokenize_norm is_alnum (normalise txt)) v = Ok e /\
              term_filter_maybe_contains (e_filter e) (hash_token t) = Ok true.
Proof.
  intros Hb fid txt v t Hin.
  exact (sketch_no_false_negative_text (list N) (list_eqb N.eqb) hash_token raw_weight
           list_N_eqb_sound Hb text (fun x => tokenize_norm is_alnum (normalise x)) fid txt v t Hin).
Qed.
