(* Proofs for C14: the vector index of the model (Model/VecStore.v) holds exactly the
   embeddings given to the active frames (Model/VecSpec.v), for every history (repaired code). *)
From MV Require Import Base.Prelude Base.Facts Model.Store Model.StoreSpec Model.VecStore Model.VecSpec Proofs.StoreProofs.
Require Import ZifyBool ZifyNat ZifyN.
Local Open Scope N_scope.

(* ---------- lists of documents ---------- *)
Definition actp (C : list frame) (d : N * emb) : bool := frame_is_active C (fst d).

Lemma filter_filter_mono {A} (p q : A -> bool) l :
  (forall x, In x l -> q x = true -> p x = true) -> filter q (filter p l) = filter q l.
Proof.
  induction l as [|x l IH]; intros H; cbn [filter]; [reflexivity|].
  destruct (p x) eqn:Ep; cbn [filter].
  - destruct (q x); rewrite IH; auto; intros; apply H; auto; right; auto.
  - destruct (q x) eqn:Eq; [rewrite (H x) in Ep; [discriminate|left; reflexivity|assumption]|].
    apply IH. intros; apply H; auto; right; auto.
Qed.

Lemma filter_all {A} (p : A -> bool) l : (forall x, In x l -> p x = true) -> filter p l = l.
Proof.
  induction l as [|x l IH]; intros H; cbn [filter]; [reflexivity|].
  rewrite (H x) by (left; reflexivity). f_equal. apply IH. intros; apply H; right; assumption.
Qed.

Lemma filter_none {A} (p : A -> bool) l : (forall x, In x l -> p x = false) -> filter p l = [].
Proof.
  induction l as [|x l IH]; intros H; cbn [filter]; [reflexivity|].
  rewrite (H x) by (left; reflexivity). apply IH. intros; apply H; right; assumption.
Qed.

Lemma filter_remove (p : N -> bool) t (l : docs) :
  p t = false -> filter (fun d => p (fst d)) (vec_remove t l) = filter (fun d => p (fst d)) l.
Proof.
  intros Hp. unfold vec_remove. induction l as [|[a e] l IH]; cbn [filter fst]; [reflexivity|].
  destruct (a =? t) eqn:Ea; cbn [negb filter fst].
  - assert (a = t) by lia. subst a. rewrite Hp. exact IH.
  - destruct (p a); rewrite IH; reflexivity.
Qed.

Definition remove_all (ts : list N) (d : docs) : docs := fold_left (fun d t => vec_remove t d) ts d.

Lemma filter_remove_all (p : N -> bool) ts : forall (l : docs),
  (forall t, In t ts -> p t = false) ->
  filter (fun d => p (fst d)) (remove_all ts l) = filter (fun d => p (fst d)) l.
Proof.
  induction ts as [|t ts IH]; intros l H; cbn [remove_all fold_left]; [reflexivity|].
  fold (remove_all ts (vec_remove t l)). rewrite IH by (intros; apply H; right; assumption).
  apply filter_remove. apply H. left; reflexivity.
Qed.

Lemma embedding_for_filter (p : N -> bool) (l : docs) t :
  p t = true -> embedding_for (filter (fun d => p (fst d)) l) t = embedding_for l t.
Proof.
  intros Hp. induction l as [|[a e] l IH]; cbn [filter fst embedding_for]; [reflexivity|].
  destruct (a =? t) eqn:Ea.
  - assert (a = t) by lia. subst a. rewrite Hp. cbn [embedding_for]. rewrite N.eqb_refl. reflexivity.
  - destruct (p a); cbn [embedding_for]; rewrite ?Ea; exact IH.
Qed.

Lemma embedding_for_app_out (l m : docs) t :
  (forall d, In d m -> fst d <> t) -> embedding_for (l ++ m) t = embedding_for l t.
Proof.
  intros H. induction l as [|[a e] l IH]; cbn [app embedding_for].
  - induction m as [|[a e] m IHm]; cbn [embedding_for]; [reflexivity|].
    destruct (a =? t) eqn:Ea; [exfalso; apply (H (a, e)); [left; reflexivity|cbn; lia]|].
    apply IHm. intros; apply H; right; assumption.
  - destruct (a =? t); [reflexivity|exact IH].
Qed.

(* ---------- status facts about apply_entry ---------- *)
Definition targets_of (e : entry) : list N :=
  match e with ETomb t => [t] | EInsert _ _ _ _ (Some p) _ _ => [p] | _ => [] end.
Definition targets (recs : list (N * entry)) : list N := flat_map (fun se => targets_of (snd se)) recs.
Definition tgt_lt (b : N) (e : entry) : Prop := forall t, In t (targets_of e) -> t < b.

Lemma act_get C i : frame_is_active C i = match nth_error C (N.to_nat i) with Some f => f_status f =? 0 | None => false end.
Proof. reflexivity. Qed.

Lemma act_lt C i : frame_is_active C i = true -> i < len C.
Proof.
  rewrite act_get. destruct (nth_error C (N.to_nat i)) eqn:E; [|discriminate]. intros _.
  assert (N.to_nat i < length C)%nat by (apply nth_error_Some; congruence). unfold len. lia.
Qed.

Lemma act_update C n st by_ i :
  frame_is_active (update_nth n (fun g => set_status g st by_) C) i =
  if Nat.eqb (N.to_nat i) n then (match nth_error C n with Some _ => st =? 0 | None => false end) else frame_is_active C i.
Proof.
  rewrite !act_get, nth_error_update_nth. destruct (Nat.eqb (N.to_nat i) n) eqn:E; [|reflexivity].
  apply Nat.eqb_eq in E. subst n. destruct (nth_error C (N.to_nat i)) as [f|]; cbn [option_map]; [destruct f; reflexivity|reflexivity].
Qed.

Lemma act_app_l C D i : i < len C -> frame_is_active (C ++ D) i = frame_is_active C i.
Proof. intros H. rewrite !act_get, nth_error_app1; [reflexivity|unfold len in H; lia]. Qed.

Lemma act_snoc_new C f : f_status f = 0 -> frame_is_active (C ++ [f]) (len C) = true.
Proof.
  intros H. rewrite act_get, nth_error_app2; unfold len; rewrite Nat2N.id; [|lia].
  rewrite Nat.sub_diag. cbn [nth_error]. rewrite H. reflexivity.
Qed.

(* one record: an existing frame that is active afterwards was active before *)
Lemma apply_entry_mono st se i :
  i < len (st_frames st) ->
  frame_is_active (st_frames (apply_entry st se)) i = true -> frame_is_active (st_frames st) i = true.
Proof.
  destruct st as [[fr smap] ins], se as [seq e]. unfold st_frames. cbn [fst].
  destruct e as [u tag role m sup reuse ps|t|]; cbn [apply_entry fst]; intros Hi.
  - destruct sup as [p|].
    + rewrite act_app_l by (rewrite len_update; assumption). rewrite act_update.
      destruct (Nat.eqb (N.to_nat i) (N.to_nat p)); [destruct (nth_error fr (N.to_nat p)); cbn; discriminate|auto].
    + rewrite act_app_l by assumption. auto.
  - rewrite act_update. destruct (Nat.eqb (N.to_nat i) (N.to_nat t)); [destruct (nth_error fr (N.to_nat t)); cbn; discriminate|auto].
  - auto.
Qed.

Lemma apply_entry_len_ge st se : len (st_frames st) <= len (st_frames (apply_entry st se)).
Proof. rewrite apply_entry_len. destruct (is_insert (snd se)); lia. Qed.

Lemma fold_mono recs : forall st i,
  i < len (st_frames st) ->
  frame_is_active (st_frames (fold_left apply_entry recs st)) i = true -> frame_is_active (st_frames st) i = true.
Proof.
  induction recs as [|se recs IH]; intros st i Hi H; cbn [fold_left] in H; [exact H|].
  apply (apply_entry_mono st se i Hi). apply IH; [|exact H].
  pose proof (apply_entry_len_ge st se). lia.
Qed.

(* one record: its target is not active afterwards *)
Lemma apply_entry_kills st se t :
  In t (targets_of (snd se)) -> t < len (st_frames st) ->
  frame_is_active (st_frames (apply_entry st se)) t = false.
Proof.
  destruct st as [[fr smap] ins], se as [seq e]. unfold st_frames. cbn [fst snd].
  destruct e as [u tag role m sup reuse ps|t'|]; cbn [apply_entry fst targets_of]; intros Hin Hlt.
  - destruct sup as [p|]; [|destruct Hin]. destruct Hin as [ <- | [] ].
    rewrite act_app_l by (rewrite len_update; assumption). rewrite act_update, Nat.eqb_refl.
    destruct (nth_error fr (N.to_nat p)); reflexivity.
  - destruct Hin as [ <- | [] ]. rewrite act_update, Nat.eqb_refl. destruct (nth_error fr (N.to_nat t')); reflexivity.
  - destruct Hin.
Qed.

Lemma fold_kills recs : forall st t,
  In t (targets recs) -> t < len (st_frames st) ->
  frame_is_active (st_frames (fold_left apply_entry recs st)) t = false.
Proof.
  induction recs as [|se recs IH]; intros st t Hin Hlt; [destruct Hin|].
  cbn [fold_left]. unfold targets in Hin. cbn [flat_map] in Hin. apply in_app_or in Hin.
  pose proof (apply_entry_len_ge st se) as Hge.
  destruct Hin as [Hin|Hin].
  - destruct (frame_is_active (st_frames (fold_left apply_entry recs (apply_entry st se))) t) eqn:E; [|reflexivity].
    apply fold_mono in E; [|lia]. rewrite (apply_entry_kills st se t Hin Hlt) in E. discriminate.
  - apply IH; [exact Hin|lia].
Qed.

(* frames created by the batch are active as long as no record of the batch targets them *)
Lemma apply_entry_new_active st se b :
  tgt_lt b (snd se) -> b <= len (st_frames st) ->
  (forall i, b <= i -> i < len (st_frames st) -> frame_is_active (st_frames st) i = true) ->
  forall i, b <= i -> i < len (st_frames (apply_entry st se)) -> frame_is_active (st_frames (apply_entry st se)) i = true.
Proof.
  destruct st as [[fr smap] ins], se as [seq e]. unfold st_frames, tgt_lt. cbn [fst snd].
  destruct e as [u tag role m sup reuse ps|t|]; cbn [apply_entry fst targets_of]; intros Ht Hb Hall i Hbi Hi.
  - assert (Hcase : i < len fr \/ i = len fr).
    { destruct sup; rewrite len_app, ?len_update, len_one in Hi; lia. }
    destruct Hcase as [Hlt | -> ].
    + destruct sup as [p|].
      * rewrite act_app_l by (rewrite len_update; assumption). rewrite act_update.
        assert (p < b) by (apply Ht; left; reflexivity).
        replace (Nat.eqb (N.to_nat i) (N.to_nat p)) with false by lia. auto.
      * rewrite act_app_l by assumption. auto.
    + destruct sup as [p|].
      * rewrite <- (len_update (N.to_nat p) (fun g => set_status g 1 (Some (len fr))) fr) at 2. apply act_snoc_new. reflexivity.
      * apply act_snoc_new. reflexivity.
  - rewrite len_update in Hi. rewrite act_update.
    assert (t < b) by (apply Ht; left; reflexivity).
    replace (Nat.eqb (N.to_nat i) (N.to_nat t)) with false by lia. auto.
  - auto.
Qed.

Lemma fold_new_active recs : forall st b,
  Forall (fun se => tgt_lt b (snd se)) recs -> b <= len (st_frames st) ->
  (forall i, b <= i -> i < len (st_frames st) -> frame_is_active (st_frames st) i = true) ->
  forall i, b <= i -> i < len (st_frames (fold_left apply_entry recs st)) ->
            frame_is_active (st_frames (fold_left apply_entry recs st)) i = true.
Proof.
  induction recs as [|se recs IH]; intros st b HF Hb Hall i Hbi Hi; cbn [fold_left] in *; [auto|].
  inversion HF as [|? ? H1 H2]; subst.
  apply (IH (apply_entry st se) b H2); [pose proof (apply_entry_len_ge st se); lia| |assumption|assumption].
  apply apply_entry_new_active; assumption.
Qed.

(* the second pass of apply_records only sets parents: activity and length are untouched *)
Lemma act_set_parent C n p i :
  frame_is_active (update_nth n (fun g => set_parent g p) C) i = frame_is_active C i.
Proof.
  rewrite !act_get, nth_error_update_nth. destruct (Nat.eqb (N.to_nat i) n); [|reflexivity].
  destruct (nth_error C (N.to_nat i)) as [f|]; cbn [option_map]; [destruct f; reflexivity|reflexivity].
Qed.

Lemma resolve_orphans_act fr ins i :
  frame_is_active (resolve_orphans fr ins) i = frame_is_active fr i /\ len (resolve_orphans fr ins) = len fr.
Proof.
  unfold resolve_orphans.
  match goal with |- context [fold_left ?f ins fr] => set (step := f) end.
  assert (Hgen : forall acc, frame_is_active (fold_left step ins acc) i = frame_is_active acc i /\ len (fold_left step ins acc) = len acc).
  { induction ins as [|id ins IH]; intros acc; cbn [fold_left]; [auto|].
    destruct (IH (step acc id)) as [H1 H2]. rewrite H1, H2. unfold step.
    destruct (get fr id) as [f|]; [|auto]. destruct (_ && _); [|auto].
    destruct (orphan_parent fr (N.to_nat id) id); [|auto].
    rewrite act_set_parent, len_update. auto. }
  apply Hgen.
Qed.

Lemma apply_records_act C P i :
  frame_is_active (apply_records C P) i = frame_is_active (frames_after C P) i /\ len (apply_records C P) = len (frames_after C P).
Proof.
  unfold apply_records, frames_after. destruct (fold_left apply_entry P (C, [], [])) as [[fr smap] ins]. cbn [fst].
  apply resolve_orphans_act.
Qed.

(* ---------- the embedding path of apply_records in closed form ---------- *)
(* documents the pending records will add: the k-th insert gets id base + k *)
Fixpoint new_docs (base : N) (recs : list (N * entry)) (pe : list (option emb)) : docs :=
  match recs, pe with
  | (_, e) :: r, oe :: pr => if is_insert e then opt_doc base oe ++ new_docs (base + 1) r pr else new_docs base r pr
  | _, _ => []
  end.

Definition omap {A B} (f : A -> B) (o : option A) : option B := match o with Some x => Some (f x) | None => None end.

Lemma remove_all_app a b d : remove_all (a ++ b) d = remove_all b (remove_all a d).
Proof. unfold remove_all. apply fold_left_app. Qed.

Lemma vapply_fold recs : forall pe a idx nd,
  length pe = length recs ->
  fold_left vapply_entry (combine recs pe) (a, idx, nd) =
  (fold_left apply_entry recs a, omap (remove_all (targets recs)) idx, nd ++ new_docs (len (st_frames a)) recs pe).
Proof.
  induction recs as [|[seq e] recs IH]; intros pe a idx nd Hl.
  - destruct pe; [|discriminate]. cbn [combine fold_left targets flat_map new_docs]. rewrite app_nil_r.
    destruct idx; reflexivity.
  - destruct pe as [|oe pe]; [discriminate|]. cbn [length] in Hl. injection Hl as Hl.
    cbn [combine fold_left]. unfold vapply_entry at 2. cbn [snd].
    pose proof (apply_entry_len a (seq, e)) as HL. cbn [snd] in HL.
    destruct e as [u tag role m sup reuse ps|t|]; cbn [is_insert] in HL.
    + rewrite IH by assumption. rewrite HL. cbn [new_docs is_insert]. unfold targets. cbn [flat_map snd].
      fold (targets recs). f_equal; [f_equal|].
      * destruct sup as [p|]; cbn [targets_of app]; [|reflexivity].
        destruct idx; cbn [opt_remove omap]; [|reflexivity]. reflexivity.
      * unfold st_frames. destruct oe; cbn [opt_doc]; rewrite <- ?app_assoc; reflexivity.
    + rewrite IH by assumption. rewrite HL, N.add_0_r. cbn [new_docs is_insert]. unfold targets. cbn [flat_map snd targets_of app].
      fold (targets recs). f_equal. f_equal. destruct idx; reflexivity.
    + rewrite IH by assumption. rewrite HL, N.add_0_r. cbn [new_docs is_insert]. unfold targets. cbn [flat_map snd targets_of app].
      reflexivity.
Qed.

Lemma new_docs_app P : forall b pe Q qe,
  length pe = length P ->
  new_docs b (P ++ Q) (pe ++ qe) = new_docs b P pe ++ new_docs (b + count_ins P) Q qe.
Proof.
  induction P as [|[seq e] P IH]; intros b pe Q qe Hl.
  - destruct pe; [|discriminate]. rewrite count_ins_nil, N.add_0_r. reflexivity.
  - destruct pe as [|oe pe]; [discriminate|]. injection Hl as Hl. cbn [app new_docs]. rewrite count_ins_cons. cbn [snd].
    destruct (is_insert e).
    + rewrite IH by assumption. rewrite <- app_assoc. replace (b + 1 + count_ins P) with (b + (1 + count_ins P)) by lia. reflexivity.
    + rewrite IH by assumption. replace (b + (0 + count_ins P)) with (b + count_ins P) by lia. reflexivity.
Qed.

Lemma new_docs_range P : forall b pe d, In d (new_docs b P pe) -> b <= fst d /\ fst d < b + count_ins P.
Proof.
  induction P as [|[seq e] P IH]; intros b pe d Hin; [destruct Hin|].
  destruct pe as [|oe pe]; [destruct Hin|]. cbn [new_docs] in Hin. rewrite count_ins_cons. cbn [snd].
  destruct (is_insert e).
  - apply in_app_or in Hin. destruct Hin as [Hin|Hin].
    + destruct oe; cbn [opt_doc] in Hin; [|destruct Hin]. destruct Hin as [<-|[]]. cbn [fst]. lia.
    + apply IH in Hin. lia.
  - apply IH in Hin. lia.
Qed.

Lemma new_docs_inserts Q : forall b qe,
  Forall (fun se => is_insert (snd se) = true) Q -> length qe = length Q -> new_docs b Q qe = docs_from b qe.
Proof.
  induction Q as [|[seq e] Q IH]; intros b qe HF Hl.
  - destruct qe; [reflexivity|discriminate].
  - destruct qe as [|oe qe]; [discriminate|]. injection Hl as Hl. inversion HF as [|? ? H1 H2]; subst. cbn [snd] in H1.
    cbn [new_docs docs_from]. rewrite H1. f_equal. apply IH; assumption.
Qed.

(* ---------- the invariant ---------- *)
Definition rec_ok (b : N) (se : N * entry) : Prop := tgt_lt b (snd se) /\ is_lex (snd se) = false.

Definition Inv (s : store) (v : vst) (G : docs) : Prop :=
  K s /\
  length (pemb v) = length (pending s) /\
  Forall (rec_ok (len (committed s))) (pending s) /\
  (pending s <> [] -> dirty s = true) /\
  venabled v = is_some (vmem v) /\
  (vdisk v = vmem v \/ (vdisk v = None /\ vmem v = Some None)) /\
  exists Gc, G = Gc ++ new_docs (len (committed s)) (pending s) (pemb v) /\
             Forall (fun d => fst d < len (committed s)) Gc /\
             mem_docs v = filter (actp (committed s)) Gc.

Lemma Inv0 : Inv store0 vst0 [].
Proof.
  unfold Inv. cbn. repeat split; auto; try discriminate; try congruence.
  exists []. repeat split; auto.
Qed.

Lemma delta_nonempty_ok b P : Forall (rec_ok b) P -> delta_nonempty P = match P with [] => false | _ => true end.
Proof.
  destruct P as [|se P]; [reflexivity|]. intros HF. inversion HF as [|? ? [_ H1] _]; subst.
  unfold delta_nonempty. cbn [existsb]. rewrite H1. reflexivity.
Qed.

(* commit_from_records / recover_wal: every pending embedding reaches the index, entries of
   frames that stopped being active leave it, nothing else changes *)
Lemma Inv_commit_core s v G extra :
  Inv s v G -> (venabled v = false -> new_docs (len (committed s)) (pending s) (pemb v) = []) ->
  Inv (do_commit s extra) (vcommit_unfixed (committed s) (pending s) v) G.
Proof.
  intros (HK & Hlen & Hrec & Hdirty & Hen & Hdisk & Gc & HG & HGc & Hmem) Hdis.
  unfold do_commit, Inv, view, vcommit_unfixed. cbn [committed pending dirty pending_inserts].
  destruct (pending s) as [|se0 P0] eqn:EP.
  { (* nothing pending: the in-memory manifest is persisted as it is *)
    destruct (pemb v) eqn:Epe; [|discriminate]. cbn [combine fold_left delta_nonempty existsb venabled vmem vdisk pemb].
    unfold apply_records. cbn [fold_left rev resolve_orphans].
    split; [reflexivity|]. split; [reflexivity|]. split; [constructor|]. split; [congruence|].
    split; [exact Hen|]. split; [left; reflexivity|].
    exists Gc. cbn [new_docs] in *. auto. }
  set (C := committed s) in *. set (P := se0 :: P0) in *.
  pose proof (vapply_fold P (pemb v) (C, [], []) (mem_index v) [] Hlen) as HVF.
  cbn [app] in HVF. unfold st_frames in HVF at 1. cbn [fst] in HVF.
  match goal with |- context [fold_left vapply_entry ?x ?y] => replace (fold_left vapply_entry x y) with
      (fold_left apply_entry P (C, [], []), omap (remove_all (targets P)) (mem_index v), new_docs (len C) P (pemb v)) by (symmetry; exact HVF) end.
  clear HVF.
  assert (Hdn : delta_nonempty P = true) by (rewrite (delta_nonempty_ok _ _ Hrec); reflexivity).
  rewrite Hdn. clear Hdn.
  set (C' := apply_records C P).
  set (nd := new_docs (len C) P (pemb v)) in *.
  assert (HA : forall i, frame_is_active C' i = frame_is_active (frames_after C P) i) by (intros i; apply apply_records_act).
  assert (HlenC' : len C' = len C + count_ins P).
  { unfold C'. rewrite (proj2 (apply_records_act C P 0)).
    unfold frames_after. pose proof (fold_len P (C, [], [])) as H. unfold st_frames in H. cbn [fst] in H. exact H. }
  assert (Hmono : forall i, i < len C -> frame_is_active C' i = true -> frame_is_active C i = true).
  { intros i Hi H. rewrite HA in H. apply (fold_mono P (C, [], []) i); [exact Hi|exact H]. }
  assert (Hkill : forall t, In t (targets P) -> frame_is_active C' t = false).
  { intros t Hin. rewrite HA. apply (fold_kills P (C, [], []) t Hin).
    unfold targets in Hin. apply in_flat_map in Hin as (se & Hse & Ht).
    rewrite Forall_forall in Hrec. destruct (Hrec se Hse) as [Hl _]. apply Hl. exact Ht. }
  assert (Hnew : forall d, In d nd -> frame_is_active C' (fst d) = true /\ fst d < len C').
  { intros d Hd. apply new_docs_range in Hd. split; [|lia]. rewrite HA.
    apply (fold_new_active P (C, [], []) (len C)); unfold st_frames; cbn [fst]; try lia.
    - eapply Forall_impl; [|exact Hrec]. intros se [H _]. exact H.
    - fold (frames_after C P). rewrite <- (proj2 (apply_records_act C P 0)). fold C'. lia. }
  assert (Hfilt : filter (actp C') (Gc ++ nd) = filter (actp C') Gc ++ nd).
  { rewrite filter_app. f_equal. apply filter_all. intros d Hd. apply Hnew. exact Hd. }
  assert (Hold : filter (actp C') (filter (actp C) Gc) = filter (actp C') Gc).
  { apply filter_filter_mono. intros d Hd H. unfold actp in *. apply Hmono; [|exact H].
    rewrite Forall_forall in HGc. apply HGc. exact Hd. }
  assert (HGc' : Forall (fun d => fst d < len C') (Gc ++ nd)).
  { apply Forall_app. split.
    - eapply Forall_impl; [|exact HGc]. cbn beta. intros; lia.
    - apply Forall_forall. intros d Hd. apply Hnew. exact Hd. }
  split; [reflexivity|]. split; [reflexivity|]. split; [constructor|]. split; [congruence|].
  unfold rebuild_indexes, build_vec_artifact. destruct (venabled v) eqn:Ev.
  - cbn [venabled vmem vdisk pemb is_some]. split; [reflexivity|]. split; [left; reflexivity|].
    exists (Gc ++ nd). split; [change (new_docs (len C') [] []) with (@nil (N * emb)); rewrite app_nil_r; exact HG|]. split; [exact HGc'|].
    unfold mem_docs at 1. unfold mem_index at 1. cbn [vmem index_of docs_of]. rewrite Hfilt. f_equal.
    rewrite <- Hold. fold C'.
    assert (Hd : docs_of (omap (remove_all (targets P)) (mem_index v)) = remove_all (targets P) (mem_docs v)).
    { unfold mem_docs. destruct (mem_index v); cbn [omap docs_of]; [reflexivity|].
      generalize (targets P). intros ts. induction ts; cbn; auto. }
    rewrite Hd, Hmem. apply (filter_remove_all (frame_is_active C')). exact Hkill.
  - cbn [venabled vmem vdisk pemb is_some]. split; [reflexivity|]. split; [left; reflexivity|].
    assert (Hnd : nd = []) by (apply Hdis; reflexivity).
    exists Gc. rewrite Hnd, app_nil_r in *. split; [exact HG|]. split; [exact HGc'|].
    unfold mem_docs at 1. unfold mem_index at 1. cbn [vmem index_of docs_of].
    assert (Hm0 : mem_docs v = []).
    { unfold mem_docs, mem_index. rewrite Hen in Ev. destruct (vmem v); [discriminate|reflexivity]. }
    rewrite Hm0 in Hmem. rewrite <- Hold, <- Hmem. reflexivity.
Qed.

(* ---------- the primitive transitions preserve the invariant ---------- *)
Lemma Inv_same_store s s' v G :
  committed s' = committed s -> pending s' = pending s -> pending_inserts s' = pending_inserts s ->
  (pending s <> [] -> dirty s = true -> dirty s' = true) -> Inv s v G -> Inv s' v G.
Proof.
  intros Hc Hp Hi Hd (HK & Hlen & Hrec & Hdirty & Hrest).
  unfold Inv, K in *. rewrite Hc, Hp, Hi. split; [exact HK|]. split; [exact Hlen|]. split; [exact Hrec|]. split; [auto|exact Hrest].
Qed.

Lemma Inv_vfields s v v' G :
  venabled v' = venabled v -> vmem v' = vmem v -> pemb v' = pemb v ->
  (vdisk v' = vdisk v \/ vdisk v' = vmem v) -> Inv s v G -> Inv s v' G.
Proof.
  intros He Hm Hp Hd (HK & Hlen & Hrec & Hdirty & Hen & Hdisk & Gc & HG & HGc & Hmem).
  unfold Inv, mem_docs, mem_index in *. rewrite He, Hm, Hp. repeat split; auto.
  - destruct Hd as [Hd|Hd]; rewrite Hd; auto.
  - exists Gc. auto.
Qed.

Lemma Inv_grow s v G g : Inv s v G -> Inv s (grow g v) G.
Proof. intros H. destruct g; cbn [grow]; [|exact H]. apply (Inv_vfields s v); auto. Qed.

Lemma Inv_enable s v G : Inv s v G -> Inv s (enable_vec v) G.
Proof.
  intros (HK & Hlen & Hrec & Hdirty & Hen & Hdisk & Gc & HG & HGc & Hmem).
  unfold Inv, enable_vec, mem_docs, mem_index in *. cbn [venabled vmem vdisk pemb].
  split; [exact HK|]. split; [exact Hlen|]. split; [exact Hrec|]. split; [exact Hdirty|].
  split; [destruct (vmem v); reflexivity|].
  split.
  - destruct (vmem v) eqn:E; [exact Hdisk|]. right. split; [|reflexivity].
    destruct Hdisk as [H|[H H']]; [exact H|discriminate].
  - exists Gc. repeat split; auto. destruct (vmem v) as [[d|]|]; exact Hmem.
Qed.

Lemma Inv_enable_if s v G b : Inv s v G -> Inv s (enable_if b v) G.
Proof. intros H. unfold enable_if. destruct b; [|exact H]. destruct (venabled v); [exact H|apply Inv_enable; exact H]. Qed.

Lemma enable_if_enabled b v : b = true \/ venabled v = true -> venabled (enable_if b v) = true.
Proof. unfold enable_if. intros [->|H]; [destruct (venabled v) eqn:E; [exact E|reflexivity]|destruct b; [rewrite H|]; exact H]. Qed.

Lemma Inv_load s v G : Inv s v G -> Inv s (load v) G.
Proof.
  intros (HK & Hlen & Hrec & Hdirty & Hen & Hdisk & Gc & HG & HGc & Hmem).
  unfold Inv, load, mem_docs, mem_index in *. cbn [venabled vmem vdisk pemb].
  split; [exact HK|]. split; [exact Hlen|]. split; [exact Hrec|]. split; [exact Hdirty|].
  split; [reflexivity|]. split; [left; reflexivity|].
  exists Gc. repeat split; auto.
  destruct Hdisk as [H|[H H']]; [rewrite H; exact Hmem|]. rewrite H. rewrite H' in Hmem. exact Hmem.
Qed.

Lemma Inv_append s v G e oe :
  Inv s v G -> tgt_lt (len (committed s)) e -> is_lex e = false -> (is_insert e = false -> oe = None) ->
  Inv (fst (append s e)) (add_pemb v [oe]) (G ++ (if is_insert e then opt_doc (next_frame_id s) oe else [])).
Proof.
  intros HI Ht Hlex Hins. pose proof HI as (HK & Hlen & Hrec & Hdirty & Hen & Hdisk & Gc & HG & HGc & Hmem).
  pose proof (K_append s e HK) as HK'.
  unfold Inv, append, add_pemb, mem_docs, mem_index in *. cbn [fst committed pending dirty pending_inserts venabled vmem vdisk pemb] in *.
  split; [exact HK'|]. split; [rewrite !app_length, Hlen; reflexivity|].
  split; [apply Forall_app; split; [exact Hrec|constructor; [split; assumption|constructor]]|].
  split; [reflexivity|]. split; [exact Hen|]. split; [exact Hdisk|].
  exists Gc. split; [|split; assumption].
  rewrite (new_docs_app (pending s) (len (committed s)) (pemb v) [(seqno s + 1, e)] [oe] Hlen).
  rewrite HG, <- app_assoc. f_equal. f_equal. cbn [new_docs]. unfold next_frame_id. unfold K in HK. rewrite HK.
  destruct (is_insert e); [rewrite app_nil_r; reflexivity|reflexivity].
Qed.

Lemma add_pemb_add v a b : add_pemb (add_pemb v a) b = add_pemb v (a ++ b).
Proof. unfold add_pemb. cbn [venabled vmem vdisk pemb]. rewrite app_assoc. reflexivity. Qed.

Lemma next_frame_id_append s e : next_frame_id (fst (append s e)) = next_frame_id s + (if is_insert e then 1 else 0).
Proof. unfold next_frame_id, append. cbn [fst committed pending_inserts]. destruct (is_insert e); lia. Qed.

Lemma Inv_append_chunks n : forall s v G ps uk tag i l,
  Inv s v G -> length l = n ->
  Inv (append_chunks s ps uk tag i n) (add_pemb v l) (G ++ docs_from (next_frame_id s) l).
Proof.
  induction n as [|n IH]; intros s v G ps uk tag i l HI Hl.
  - destruct l; [|discriminate]. cbn [append_chunks docs_from]. rewrite app_nil_r.
    apply (Inv_vfields s v); auto. unfold add_pemb. cbn [pemb]. apply app_nil_r.
  - destruct l as [|oe l]; [discriminate|]. injection Hl as Hl. cbn [append_chunks docs_from].
    match goal with |- context [append s ?e] => set (e0 := e) end.
    pose proof (Inv_append s v G e0 oe HI) as H1.
    assert (Ht : tgt_lt (len (committed s)) e0) by (intros t []).
    specialize (H1 Ht eq_refl ltac:(discriminate)).
    destruct (append s e0) as [s1 sq] eqn:Ea. cbn [fst] in H1.
    change (is_insert e0) with true in H1. cbn iota in H1.
    assert (Hn : next_frame_id s1 = next_frame_id s + 1).
    { pose proof (next_frame_id_append s e0) as H. rewrite Ea in H. exact H. }
    specialize (IH s1 (add_pemb v [oe]) _ ps uk tag (S i) l H1 Hl).
    rewrite add_pemb_add in IH. cbn [app] in IH. rewrite Hn, <- app_assoc in IH. exact IH.
Qed.

(* rebuild_indexes(&[], &[]) on a quiescent memory: vacuum, doctor without the vec flag *)
Lemma Inv_rebuild_only s v G frames :
  Inv s v G -> pending s = [] -> frames = committed s -> Inv s (rebuild_indexes v frames (mem_index v) []) G.
Proof.
  intros (HK & Hlen & Hrec & Hdirty & Hen & Hdisk & Gc & HG & HGc & Hmem) Hp ->.
  unfold Inv, rebuild_indexes, build_vec_artifact. rewrite app_nil_r.
  destruct (venabled v) eqn:Ev; unfold mem_docs at 1, mem_index at 1; cbn [venabled vmem vdisk pemb is_some index_of docs_of].
  - repeat split; auto. exists Gc. repeat split; auto.
    unfold mem_docs, mem_index. cbn [vmem index_of docs_of].
    change (docs_of (index_of (vmem v))) with (mem_docs v). rewrite Hmem. apply (filter_filter_mono (actp (committed s)) (actp (committed s))). auto.
  - repeat split; auto; try discriminate. exists Gc. repeat split; auto.
    unfold mem_docs, mem_index. cbn [vmem index_of docs_of].
    rewrite <- Hmem. unfold mem_docs, mem_index. rewrite Hen in Ev. destruct (vmem v); [discriminate|reflexivity].
Qed.

(* update_frame without an explicit embedding: what frame_embedding answers is what the old frame was given *)
Lemma carried_is_given s v G target :
  Inv s v G -> frame_is_active (committed s) target = true ->
  (if venabled v then embedding_for (mem_docs v) target else None) = embedding_for G target.
Proof.
  intros (HK & Hlen & Hrec & Hdirty & Hen & Hdisk & Gc & HG & HGc & Hmem) Hact.
  pose proof (act_lt _ _ Hact) as Hlt.
  assert (HGt : embedding_for G target = embedding_for Gc target).
  { rewrite HG. apply embedding_for_app_out. intros d Hd. apply new_docs_range in Hd. lia. }
  assert (Hf : embedding_for (mem_docs v) target = embedding_for Gc target).
  { rewrite Hmem. apply (embedding_for_filter (frame_is_active (committed s))). exact Hact. }
  rewrite HGt. destruct (venabled v) eqn:Ev; [exact Hf|].
  rewrite <- Hf. unfold mem_docs, mem_index. rewrite Hen in Ev. destruct (vmem v); [discriminate|reflexivity].
Qed.

(* ---------- commit_from_records as repaired (8099cac) ---------- *)
Lemma mem_index_enable v : mem_index (enable_vec v) = mem_index v.
Proof. unfold mem_index, enable_vec. cbn [vmem]. destruct (vmem v) as [[d|]|]; reflexivity. Qed.

Lemma Inv_commit s v G extra :
  Inv s v G -> Inv (do_commit s extra) (vcommit (committed s) (pending s) v) G.
Proof.
  intros HI. pose proof HI as (_ & Hlen & _).
  pose proof (vapply_fold (pending s) (pemb v) (committed s, [], []) (mem_index v) [] Hlen) as HVF.
  cbn [app] in HVF. unfold st_frames in HVF at 1. cbn [fst] in HVF.
  set (nd := new_docs (len (committed s)) (pending s) (pemb v)) in *.
  set (v0 := if negb (is_nil nd) && negb (venabled v) then enable_vec v else v).
  assert (HE : vcommit (committed s) (pending s) v = vcommit_unfixed (committed s) (pending s) v0).
  { unfold vcommit, vcommit_unfixed.
    assert (Hp : pemb v0 = pemb v) by (unfold v0; destruct (negb (is_nil nd) && negb (venabled v)); reflexivity).
    assert (Hm : mem_index v0 = mem_index v) by (unfold v0; destruct (negb (is_nil nd) && negb (venabled v)); [apply mem_index_enable|reflexivity]).
    rewrite Hp, Hm.
    match goal with |- context [fold_left vapply_entry ?x ?y] => replace (fold_left vapply_entry x y) with
      (fold_left apply_entry (pending s) (committed s, [], []), omap (remove_all (targets (pending s))) (mem_index v), nd) by (symmetry; exact HVF) end.
    reflexivity. }
  rewrite HE. apply Inv_commit_core.
  - unfold v0. destruct (negb (is_nil nd) && negb (venabled v)); [apply Inv_enable|]; exact HI.
  - assert (Hp : pemb v0 = pemb v) by (unfold v0; destruct (negb (is_nil nd) && negb (venabled v)); reflexivity).
    rewrite Hp. fold nd. unfold v0. destruct nd as [|d nd'] eqn:End; [reflexivity|].
    cbn [is_nil negb andb]. destruct (venabled v) eqn:Ev; cbn [negb]; [rewrite Ev; discriminate|cbn [enable_vec venabled]; discriminate].
Qed.

(* before 8099cac a replay with vec disabled (the manifest never reached the file) dropped every
   embedding of the batch: the index after the commit is empty and vec stays disabled *)
Lemma vcommit_unfixed_drops frames recs v :
  venabled v = false -> delta_nonempty recs = true ->
  mem_docs (vcommit_unfixed frames recs v) = [] /\ venabled (vcommit_unfixed frames recs v) = false.
Proof.
  intros Hv Hd. unfold vcommit_unfixed. destruct (fold_left vapply_entry _ _) as [[a idx] nd].
  rewrite Hd. unfold rebuild_indexes, build_vec_artifact. rewrite Hv. split; reflexivity.
Qed.

(* doctor's vector rebuild as repaired (83a83e8): vec forced on, the loaded index re-encoded *)
Lemma Inv_rebuild_force s v G frames :
  Inv s v G -> pending s = [] -> frames = committed s ->
  Inv s (rebuild_indexes (mkV true (vmem v) (vdisk v) (pemb v)) frames (mem_index v) []) G.
Proof.
  intros (HK & Hlen & Hrec & Hdirty & Hen & Hdisk & Gc & HG & HGc & Hmem) Hp ->.
  unfold Inv, rebuild_indexes, build_vec_artifact. rewrite app_nil_r.
  cbn [venabled vmem vdisk pemb is_some].
  split; [exact HK|]. split; [exact Hlen|]. split; [exact Hrec|]. split; [exact Hdirty|].
  split; [reflexivity|]. split; [left; reflexivity|].
  exists Gc. split; [exact HG|]. split; [exact HGc|].
  unfold mem_docs at 1, mem_index at 1. cbn [vmem index_of docs_of].
  change (docs_of (mem_index v)) with (mem_docs v). rewrite Hmem.
  apply (filter_filter_mono (actp (committed s)) (actp (committed s))). auto.
Qed.

(* ---------- one operation ---------- *)
Lemma pemb_quiet s v G : Inv s v G -> pending s = [] -> pemb v = [].
Proof. intros (_ & Hlen & _) Hp. rewrite Hp in Hlen. destruct (pemb v); [reflexivity|discriminate]. Qed.


Lemma chunk_embs_length c n : length (chunk_embs c n) = n.
Proof. unfold chunk_embs. rewrite map_length, seq_length. reflexivity. Qed.

Lemma given_other R G op i o :
  match op with OPut _ _ _ _ _ | OUpdate _ _ _ _ => False | _ => True end -> given_step R G (VOp op i, o) = G.
Proof. intros H. unfold given_step. destruct (negb (acked (fst o))); [reflexivity|]. destruct op; try reflexivity; destruct H. Qed.

Lemma vtrans_inv s v R G op i ob :
  J s R -> Inv s v G ->
  Inv (fst (sstep s op)) (vtrans s op i v) (given_step R G (VOp op i, (snd (sstep s op), ob))).
Proof.
  intros HJ HI.
  pose proof HI as (HK & Hlen & Hrec & Hdirty & _).
  pose proof (next_frame_id_is_view_length s R HJ HK) as Hnid.
  destruct op as [uk tag nchunks role auto|target newtag uk auto|target auto|extra|extra|extra|newseq]; unfold vtrans; cbn [no_auto].
  - (* put *)
    cbn [sstep]. destruct (append s _) as [s1 sq] eqn:Ea. cbn [fst snd auto_commit].
    unfold given_step. cbn [fst]. rewrite observe_acked. cbn [negb].
    set (b := incoming_dimension (info_parent i) (info_chunks i)).
    set (l := map norm (chunk_embs (info_chunks i) (N.to_nat nchunks))).
    assert (Hll : length l = N.to_nat nchunks) by (unfold l; rewrite map_length; apply chunk_embs_length).
    assert (H0 : Inv s (enable_if b v) G) by (apply Inv_enable_if; exact HI).
    match type of Ea with append s ?e = _ => set (e0 := e) in * end.
    pose proof (Inv_append s _ G e0 (norm (info_parent i)) H0) as H1.
    specialize (H1 ltac:(intros t []) eq_refl ltac:(discriminate)).
    rewrite Ea in H1. cbn [fst] in H1. change (is_insert e0) with true in H1. cbn iota in H1.
    assert (Hn : next_frame_id s1 = next_frame_id s + 1).
    { pose proof (next_frame_id_append s e0) as H. rewrite Ea in H. exact H. }
    pose proof (Inv_append_chunks (N.to_nat nchunks) s1 _ _ sq uk tag 0%nat l H1 Hll) as H3.
    rewrite add_pemb_add in H3. cbn [app] in H3. rewrite Hn, <- app_assoc, Hnid in H3.
    change (opt_doc (len R) (norm (info_parent i)) ++ docs_from (len R + 1) l) with (docs_from (len R) (norm (info_parent i) :: l)) in H3.
    apply (Inv_grow _ _ _ (info_grew i)) in H3.
    destruct auto as [extra|]; cbn [auto_commit vauto]; [apply Inv_commit|]; exact H3.
  - (* update *)
    cbn [sstep]. unfold accepted.
    destruct (get (committed s) target) as [old|] eqn:Eg.
    2:{ cbn [fst snd]. unfold given_step. cbn [fst]. rewrite observe_acked. cbn [negb]. exact HI. }
    destruct (f_status old =? 0) eqn:Est; cbn [negb].
    2:{ cbn [fst snd]. unfold given_step. cbn [fst]. rewrite observe_acked. cbn [negb]. exact HI. }
    assert (Hact : frame_is_active (committed s) target = true) by (unfold frame_is_active; rewrite Eg; exact Est).
    pose proof (act_lt _ _ Hact) as Hlt.
    destruct (append s _) as [s1 sq] eqn:Ea. cbn [fst snd auto_commit].
    unfold given_step. cbn [fst]. rewrite observe_acked. cbn [negb].
    set (eff := match info_explicit i with Some e => Some e | None => if venabled v then embedding_for (mem_docs v) target else None end).
    assert (Heff : match info_explicit i with Some e => Some e | None => embedding_for G target end = eff).
    { unfold eff. destruct (info_explicit i); [reflexivity|]. symmetry. apply (carried_is_given s); assumption. }
    rewrite Heff.
    set (b := incoming_dimension eff None).
    assert (H0 : Inv s (enable_if b v) G) by (apply Inv_enable_if; exact HI).
    match type of Ea with append s ?e = _ => set (e0 := e) in * end.
    pose proof (Inv_append s _ G e0 (norm eff) H0) as H1.
    assert (Ht : tgt_lt (len (committed s)) e0).
    { unfold e0. destruct newtag; intros t [<-|[]]; exact Hlt. }
    assert (Hi1 : is_insert e0 = true) by (unfold e0; destruct newtag; reflexivity).
    assert (Hl1 : is_lex e0 = false) by (unfold e0; destruct newtag; reflexivity).
    specialize (H1 Ht Hl1 ltac:(rewrite Hi1; discriminate)).
    rewrite Ea in H1. cbn [fst] in H1. rewrite Hi1, Hnid in H1.
    apply (Inv_grow _ _ _ (info_grew i)) in H1.
    destruct auto as [extra|]; cbn [auto_commit vauto]; [apply Inv_commit|]; exact H1.
  - (* delete *)
    rewrite given_other by exact I.
    cbn [sstep]. unfold accepted.
    destruct (get (committed s) target) as [old|] eqn:Eg; [|exact HI].
    destruct (f_status old =? 0) eqn:Est; cbn [negb]; [|exact HI].
    assert (Hact : frame_is_active (committed s) target = true) by (unfold frame_is_active; rewrite Eg; exact Est).
    pose proof (act_lt _ _ Hact) as Hlt.
    destruct (append s _) as [s1 sq] eqn:Ea. cbn [fst snd auto_commit].
    pose proof (Inv_append s v G (ETomb target) None HI) as H1.
    specialize (H1 ltac:(intros t [<-|[]]; exact Hlt) eq_refl ltac:(reflexivity)).
    rewrite Ea in H1. cbn [fst is_insert] in H1. rewrite app_nil_r in H1.
    apply (Inv_grow _ _ _ (info_grew i)) in H1.
    destruct auto as [extra|]; cbn [auto_commit vauto]; [apply Inv_commit|]; exact H1.
  - (* commit / vacuum *)
    rewrite given_other by exact I. cbn [sstep fst].
    assert (H1 : Inv (match pending s, dirty s with [], false => bump s extra | _, _ => do_commit s extra end)
                     (match pending s, dirty s with [], false => v | _, _ => vcommit (committed s) (pending s) v end) G
                 /\ pending (match pending s, dirty s with [], false => bump s extra | _, _ => do_commit s extra end) = []
                 /\ view s = committed (match pending s, dirty s with [], false => bump s extra | _, _ => do_commit s extra end)).
    { pose proof (Inv_commit s v G extra HI) as HC.
      destruct (pending s) eqn:Ep; [destruct (dirty s)|].
      - split; [exact HC|]. split; reflexivity.
      - split; [apply (Inv_same_store s); auto|]. split; [exact Ep|]. cbn [bump committed]. apply quiescent_committed. exact Ep.
      - split; [exact HC|]. split; reflexivity. }
    destruct H1 as (H1 & Hp1 & Hv1).
    destruct (info_vacuum i); [|exact H1]. apply Inv_rebuild_only; assumption.
  - (* reopen *)
    rewrite given_other by exact I. cbn [sstep fst].
    destruct (dirty s) eqn:Ed.
    + cbn [do_commit pending]. apply Inv_load. apply Inv_commit. exact HI.
    + assert (Ep : pending s = []) by (destruct (pending s); [reflexivity|specialize (Hdirty ltac:(discriminate)); congruence]).
      cbn [bump pending]. rewrite Ep. apply Inv_load. apply (Inv_same_store s); auto.
  - (* crash + replay *)
    rewrite given_other by exact I. cbn [sstep fst].
    assert (H0 : Inv s (load v) G) by (apply Inv_load; exact HI).
    destruct (pending s) eqn:Ep.
    + apply (Inv_same_store s); auto; cbn [committed pending pending_inserts]; auto.
      unfold K in HK. rewrite Ep in HK. rewrite HK. reflexivity.
    + rewrite <- Ep. apply Inv_commit. exact H0.
  - (* doctor *)
    rewrite given_other by exact I. cbn [sstep fst].
    assert (H1 : Inv (if dirty s then do_commit s 0 else s) (if dirty s then vcommit (committed s) (pending s) v else v) G
                 /\ pending (if dirty s then do_commit s 0 else s) = []
                 /\ view s = committed (if dirty s then do_commit s 0 else s)).
    { destruct (dirty s) eqn:Ed.
      - split; [apply Inv_commit; exact HI|]. split; reflexivity.
      - assert (Ep : pending s = []) by (destruct (pending s); [reflexivity|specialize (Hdirty ltac:(discriminate)); congruence]).
        split; [exact HI|]. split; [exact Ep|apply quiescent_committed; exact Ep]. }
    destruct H1 as (H1 & Hp1 & Hv1).
    set (s1 := if dirty s then do_commit s 0 else s) in *.
    set (v1 := if dirty s then vcommit (committed s) (pending s) v else v) in *.
    rewrite Hp1.
    assert (H2 : Inv s1 (load v1) G) by (apply Inv_load; assumption).
    unfold doctor_vec.
    set (v3 := if bit (info_bits i) 3 then rebuild_indexes (load v1) (view s) (mem_index (load v1)) [] else load v1).
    assert (H3 : Inv s1 v3 G) by (unfold v3; destruct (bit (info_bits i) 3); [apply Inv_rebuild_only; assumption|exact H2]).
    apply (Inv_same_store s1); auto. apply Inv_load.
    destruct (bit (info_bits i) 2); [apply Inv_rebuild_force; assumption|].
    destruct (bit (info_bits i) 0 || bit (info_bits i) 1); [apply Inv_rebuild_only; assumption|exact H3].
Qed.

(* ---------- whole histories ---------- *)
Fixpoint vrun_ok (R : list frame) (xs : list (vop * vout)) : bool :=
  match xs with
  | [] => true
  | x :: r =>
      match sop_of x with
      | Some y => ref_ok R y && vrun_ok (ref_step R y) r
      | None => vrun_ok R r
      end
  end.

Theorem vrun_inv : forall ops s v R G,
  J s R -> Inv s v G ->
  vrun_ok R (combine ops (snd (vrun (s, v) ops))) = true ->
  J (fst (fst (vrun (s, v) ops))) (fst (vref_run (R, G) (combine ops (snd (vrun (s, v) ops))))) /\
  Inv (fst (fst (vrun (s, v) ops))) (snd (fst (vrun (s, v) ops))) (snd (vref_run (R, G) (combine ops (snd (vrun (s, v) ops))))).
Proof.
  induction ops as [|x ops IH]; intros s v R G HJ HI Hok; [cbn; auto|].
  cbn [vrun] in *.
  destruct x as [op i|].
  - cbn [vstep] in *.
    pose proof (sstep_refines s R op HJ) as HS.
    pose proof (vtrans_inv s v R G op i (observe_vec (vtrans s op i v)) HJ HI) as HT.
    destruct (sstep s op) as [s1 o] eqn:Es. cbn [fst snd] in *.
    destruct (vrun (s1, vtrans s op i v) ops) as [st2 os] eqn:Er. cbn [fst snd combine vrun_ok sop_of] in *.
    apply andb_true_iff in Hok as [H1 H2].
    specialize (HS H1).
    unfold vref_run. cbn [fold_left vref_step sop_of fst snd].
    specialize (IH s1 (vtrans s op i v) _ _ HS HT). rewrite Er in IH. cbn [fst snd] in IH.
    apply IH; assumption.
  - cbn [vstep] in *.
    destruct (vrun (set_dirty s, enable_vec v) ops) as [st2 os] eqn:Er. cbn [fst snd combine vrun_ok sop_of] in *.
    unfold vref_run. cbn [fold_left vref_step sop_of fst snd given_step].
    assert (HJ' : J (set_dirty s) R) by exact HJ.
    assert (HI' : Inv (set_dirty s) (enable_vec v) G).
    { apply Inv_enable. apply (Inv_same_store s); auto. }
    specialize (IH _ _ _ _ HJ' HI'). rewrite Er in IH. cbn [fst snd] in IH. apply IH; assumption.
Qed.

Lemma J0 : J store0 [].
Proof. exact J_store0. Qed.

Lemma membership_aux s v R G :
  J s R -> Inv s v G -> pending s = [] ->
  committed s = R /\ mem_docs v = expected_docs R G /\ (venabled v = false -> expected_docs R G = []).
Proof.
  intros HJ HI Hp.
  assert (HC : committed s = R) by (rewrite <- (quiescent_committed s Hp); apply J_view; exact HJ).
  destruct HI as (_ & Hlen & _ & _ & Hen & _ & Gc & HG & _ & Hmem).
  rewrite Hp in HG. cbn [new_docs] in HG. rewrite app_nil_r in HG. subst Gc.
  rewrite HC in Hmem. split; [exact HC|]. split; [exact Hmem|].
  intros Hv. unfold expected_docs. fold (actp R). rewrite <- Hmem.
  unfold mem_docs, mem_index. rewrite Hen in Hv. destruct (vmem v); [discriminate|reflexivity].
Qed.

(* C14: whenever nothing is pending (after commit, reopen, replay, vacuum, doctor, automatic
   checkpoint) the index holds exactly the embeddings given to the active frames, in frame order *)
Theorem membership ops :
  let r := vrun vstate0 ops in
  let s := fst (fst r) in let v := snd (fst r) in
  let xs := combine ops (snd r) in
  let R := fst (vref_run ([], []) xs) in let G := snd (vref_run ([], []) xs) in
  vrun_ok [] xs = true -> pending s = [] ->
  committed s = R /\ mem_docs v = expected_docs R G /\
  (venabled v = false -> expected_docs R G = []).
Proof.
  intros r s v xs R G Hok Hp.
  destruct (vrun_inv ops store0 vst0 [] [] J0 Inv0 Hok) as [HJ HI].
  apply (membership_aux s v R G HJ HI Hp).
Qed.

(* what the loaded index then answers *)
Lemma embedding_for_expected R G f :
  embedding_for (expected_docs R G) f = if frame_is_active R f then embedding_for G f else None.
Proof.
  unfold expected_docs. induction G as [|[a e] G IH]; cbn [filter fst embedding_for]; [destruct (frame_is_active R f); reflexivity|].
  destruct (frame_is_active R a) eqn:Ea; cbn [embedding_for].
  - destruct (a =? f) eqn:E; [assert (a = f) by lia; subst; rewrite Ea; reflexivity|exact IH].
  - destruct (a =? f) eqn:E; [assert (a = f) by lia; subst; rewrite Ea in *; rewrite IH; reflexivity|exact IH].
Qed.

(* before 83a83e8: doctor with rebuild_vec_index always left an enabled, empty index *)
Lemma doctor_vec_wipes_unfixed bits frames v :
  bit bits 2 = true ->
  mem_docs (load (doctor_vec_unfixed bits frames v)) = [] /\ venabled (load (doctor_vec_unfixed bits frames v)) = true.
Proof. intros H. unfold doctor_vec_unfixed. rewrite H. split; reflexivity. Qed.

(* as repaired: the doctored index is the old one restricted to the active frames *)
Lemma doctor_vec_keeps bits frames v :
  bit bits 2 = true -> bit bits 3 = false ->
  mem_docs (load (doctor_vec bits frames v)) = filter (fun d => frame_is_active frames (fst d)) (mem_docs v) /\
  venabled (load (doctor_vec bits frames v)) = true.
Proof.
  intros H2 H3. unfold doctor_vec. rewrite H2, H3. unfold rebuild_indexes, build_vec_artifact. cbn [venabled].
  rewrite app_nil_r. split; reflexivity.
Qed.
