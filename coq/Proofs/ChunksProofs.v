(* Proofs about Model/Chunks.v : the unstructured chunk planner partitions the text. *)
From MV Require Import Base.Prelude Base.Facts Model.Chunks.
Require Import ZifyBool ZifyNat.

(* chain s rs t : rs is a contiguous run of non-empty ranges from s to t *)
Fixpoint chain (s : nat) (rs : list range) (t : nat) : Prop :=
  match rs with
  | [] => s = t
  | (a, b) :: r => a = s /\ s < b /\ chain b r t
  end.

Lemma firstn_plus {A} (l : list A) : forall n m,
  firstn (n + m) l = firstn n l ++ firstn m (skipn n l).
Proof.
  induction l as [|x l IH]; intros [|n] m; cbn [Nat.add firstn skipn app]; try reflexivity.
  - destruct m; reflexivity.
  - rewrite IH; reflexivity.
Qed.

Lemma skipn_plus {A} (l : list A) : forall n m, skipn m (skipn n l) = skipn (n + m) l.
Proof.
  induction l as [|x l IH]; intros [|n] m; cbn [Nat.add skipn]; try reflexivity.
  - destruct m; reflexivity.
  - apply IH.
Qed.

Section Proofs.
  Context {A : Type}.
  Variables is_nl is_term is_ws : A -> bool.

  Notation fwd_terms := (fwd_terms is_nl is_term).
  Notation bwd_terms := (bwd_terms is_nl is_term).
  Notation fwd_ws := (fwd_ws is_ws).
  Notation bwd_ws := (bwd_ws is_ws).
  Notation choose := (choose_chunk_boundary is_nl is_term is_ws).
  Notation loop := (manifest_loop is_nl is_term is_ws).
  Notation build := (build_chunk_manifest is_nl is_term is_ws).
  Notation plan_naive := (plan_naive_chunks is_nl is_term is_ws).
  Notation plan_text := (plan_text_chunks is_nl is_term is_ws).

  Definition within (lo hi : nat) (p : nat) : Prop := lo < p /\ p <= hi.

  (* ---- the four scanning loops return positions inside their window ---- *)
  Lemma fwd_terms_bounds l : forall idx c lo hi,
    lo <= idx -> idx + length l <= hi -> Forall (within lo hi) c ->
    match fwd_terms l idx c with
    | inl e => within lo hi e
    | inr c' => Forall (within lo hi) c'
    end.
  Proof.
    induction l as [|ch r IH]; intros idx c lo hi Hlo Hhi Hc; cbn [Chunks.fwd_terms length] in *.
    - exact Hc.
    - destruct (is_nl ch).
      + unfold within; lia.
      + destruct (is_term ch).
        * apply IH; [lia | lia |].
          apply Forall_app; split; [exact Hc|]. constructor; [unfold within; lia | constructor].
        * apply IH; [lia | lia | exact Hc].
  Qed.

  Lemma bwd_terms_bounds l : forall pos c lo hi,
    lo + length l <= pos -> pos <= hi -> Forall (within lo hi) c ->
    match bwd_terms l pos c with
    | inl e => within lo hi e
    | inr c' => Forall (within lo hi) c'
    end.
  Proof.
    induction l as [|ch r IH]; intros pos c lo hi Hlo Hhi Hc; cbn [Chunks.bwd_terms length] in *.
    - exact Hc.
    - destruct (is_nl ch).
      + unfold within; lia.
      + destruct (is_term ch).
        * apply Forall_app; split; [exact Hc|]. constructor; [unfold within; lia | constructor].
        * apply IH; [lia | lia | exact Hc].
  Qed.

  Lemma min_by_key_in key l x : min_by_key key l = Some x -> In x l.
  Proof.
    destruct l as [|y r]; cbn [min_by_key]; [discriminate|].
    intros E; injection E as <-.
    assert (G : forall r b, In (fold_left (fun best z => if key z <? key best then z else best) r b) (b :: r)).
    { clear. induction r as [|z r IH]; intros b; cbn [fold_left].
      - left; reflexivity.
      - specialize (IH (if key z <? key b then z else b)).
        destruct (key z <? key b); destruct IH as [<-|IH]; cbn [In]; auto. }
    apply G.
  Qed.

  Lemma min_by_key_none key l : min_by_key key l = None -> l = [].
  Proof. destruct l; cbn [min_by_key]; [reflexivity | discriminate]. Qed.

  Lemma fwd_ws_bounds l : forall idx e lo hi,
    lo <= idx -> idx + length l <= hi -> fwd_ws l idx = Some e -> within lo hi e.
  Proof.
    induction l as [|ch r IH]; intros idx e lo hi Hlo Hhi; cbn [Chunks.fwd_ws length] in *; [discriminate|].
    destruct (is_ws ch).
    - intros E; injection E as <-. unfold within; lia.
    - apply IH; lia.
  Qed.

  Lemma bwd_ws_bounds l : forall pos e lo hi,
    lo + length l <= pos -> pos <= hi -> bwd_ws l pos = Some e -> within lo hi e.
  Proof.
    induction l as [|ch r IH]; intros pos e lo hi Hlo Hhi; cbn [Chunks.bwd_ws length] in *; [discriminate|].
    destruct (is_ws ch).
    - intros E; injection E as <-. unfold within; lia.
    - apply IH; lia.
  Qed.

  (* ---- choose_chunk_boundary : never panics when total = length chars, and returns a
          position in (start, min (target + slack) total] ---- *)
  Lemma choose_bounds chars start target total slack :
    length chars = total -> start < target -> target <= total ->
    exists e, choose chars start target total slack = Ok e /\
              start < e /\ e <= total /\ e <= target + slack.
  Proof.
    intros Hlen Hst Htt. unfold choose_chunk_boundary.
    destruct (total <=? target) eqn:Et.
    - exists total. split; [reflexivity|]. lia.
    - set (fl := Nat.min (target + slack) total).
      assert (Hfl : fl <= total /\ fl <= target + slack /\ target <= fl) by (unfold fl; lia).
      destruct (length chars <? fl) eqn:Ep; [lia|].
      set (fwd := slice chars target (fl - target)).
      set (bwd := rev (slice chars start (target - start))).
      assert (Hf : target + length fwd <= fl).
      { unfold fwd. pose proof (slice_length_le chars target (fl - target)). lia. }
      assert (Hb : start + length bwd <= target).
      { unfold bwd. rewrite rev_length. pose proof (slice_length_le chars start (target - start)). lia. }
      assert (W : forall e, within start fl e -> start < e /\ e <= total /\ e <= target + slack)
        by (unfold within; intros; lia).
      pose proof (fwd_terms_bounds fwd target [] start fl ltac:(lia) Hf (Forall_nil _)) as H1.
      destruct (fwd_terms fwd target []) as [e|c1].
      { exists e; split; [reflexivity | apply W; exact H1]. }
      pose proof (bwd_terms_bounds bwd target c1 start fl Hb ltac:(lia) H1) as H2.
      destruct (bwd_terms bwd target c1) as [e|c2].
      { exists e; split; [reflexivity | apply W; exact H2]. }
      destruct (min_by_key (fun pos => pos - target) c2) as [choice|] eqn:Em.
      { exists choice; split; [reflexivity|]. apply W.
        apply min_by_key_in in Em. rewrite Forall_forall in H2. apply H2; exact Em. }
      destruct (fwd_ws fwd target) as [e|] eqn:E3.
      { exists e; split; [reflexivity|]. apply W.
        eapply fwd_ws_bounds; [| |exact E3]; lia. }
      destruct (bwd_ws bwd target) as [e|] eqn:E4.
      { exists e; split; [reflexivity|]. apply W.
        eapply bwd_ws_bounds; [| |exact E4]; lia. }
      exists target; split; [reflexivity|]. lia.
  Qed.

  (* ---- the loop ---- *)
  Lemma loop_chain : forall fuel chars total cc slack start,
    length chars = total -> 0 < cc -> start <= total -> total - start <= fuel ->
    exists rs, loop fuel chars total cc slack start = Ok rs /\
               chain start rs total /\
               Forall (fun r => snd r - fst r <= cc + slack) rs.
  Proof.
    induction fuel as [|f IH]; intros chars total cc slack start Hlen Hcc Hs Hfuel;
      cbn [manifest_loop].
    - destruct (start <? total) eqn:E; [lia|].
      exists []. cbn [chain]. repeat split; [lia | constructor].
    - destruct (start <? total) eqn:E.
      2:{ exists []. cbn [chain]. repeat split; [lia | constructor]. }
      set (target := Nat.min (start + cc) total).
      assert (Ht : start < target /\ target <= total /\ target <= start + cc) by (unfold target; lia).
      destruct (choose_bounds chars start target total slack Hlen ltac:(lia) ltac:(lia))
        as (e & -> & He1 & He2 & He3).
      destruct (e <=? start) eqn:Ee; [lia|].
      destruct (IH chars total cc slack e Hlen Hcc He2 ltac:(lia)) as (rs & -> & Hch & Hsz).
      exists ((start, e) :: rs). split; [reflexivity|]. split.
      + cbn [chain]. auto.
      + constructor; [cbn [fst snd]; lia | exact Hsz].
  Qed.

  (* ---- chain facts ---- *)
  Lemma chain_le : forall rs s t, chain s rs t -> s <= t.
  Proof.
    induction rs as [|[a b] r IH]; intros s t; cbn [chain]; [lia|].
    intros (_ & Hlt & Hc). apply IH in Hc. lia.
  Qed.

  Lemma chain_nonempty_ranges : forall rs s t, chain s rs t -> forall r, In r rs -> fst r < snd r.
  Proof.
    induction rs as [|[a b] r IH]; intros s t; cbn [chain In]; [tauto|].
    intros (-> & Hlt & Hc) x [<-|Hin]; [exact Hlt | eapply IH; eauto].
  Qed.

  Lemma chain_last : forall rs s t, chain s rs t -> rs <> [] -> snd (last rs (0, 0)) = t.
  Proof.
    induction rs as [|[a b] r IH]; intros s t; [congruence|].
    cbn [chain]. intros (_ & _ & Hc) _.
    destruct r as [|x r'].
    - cbn [chain last snd] in *. exact Hc.
    - change (last ((a, b) :: x :: r') (0, 0)) with (last (x :: r') (0, 0)).
      eapply IH; [exact Hc | discriminate].
  Qed.

  Lemma chain_adjacent : forall rs s t, chain s rs t ->
    forall i, S i < length rs -> snd (nth i rs (0, 0)) = fst (nth (S i) rs (0, 0)).
  Proof.
    induction rs as [|[a b] r IH]; intros s t Hc i Hi; cbn [length] in Hi; [lia|].
    cbn [chain] in Hc. destruct Hc as (_ & _ & Hc).
    destruct i as [|i].
    - destruct r as [|[a' b'] r']; cbn [length] in Hi; [lia|].
      cbn [chain] in Hc. destruct Hc as (-> & _). reflexivity.
    - change (nth (S i) ((a, b) :: r) (0, 0)) with (nth i r (0, 0)).
      change (nth (S (S i)) ((a, b) :: r) (0, 0)) with (nth (S i) r (0, 0)).
      eapply IH; [exact Hc | lia].
  Qed.

  Lemma chain_is_partition rs t : 0 < t -> chain 0 rs t -> is_partition rs t.
  Proof.
    intros Ht Hc. assert (Hne : rs <> []).
    { destruct rs; [cbn [chain] in Hc; lia | discriminate]. }
    unfold is_partition. split; [exact Hne|]. split.
    { destruct rs as [|[a b] r]; [congruence|]. cbn [chain] in Hc. cbn [hd fst]. tauto. }
    split; [eapply chain_last; eauto|].
    split; [eapply chain_adjacent; eauto | eapply chain_nonempty_ranges; eauto].
  Qed.

  (* the chunk texts of a chain concatenate to the covered stretch of the text *)
  Lemma chain_concat (text : list A) : forall rs s t,
    chain s rs t -> t <= length text ->
    concat (map (slice_text_range text) rs) = firstn (t - s) (skipn s text).
  Proof.
    induction rs as [|[a b] r IH]; intros s t Hc Ht.
    - cbn [chain] in Hc. subst. rewrite Nat.sub_diag. reflexivity.
    - cbn [chain] in Hc. destruct Hc as (-> & Hlt & Hc).
      pose proof (chain_le _ _ _ Hc) as Hbt.
      cbn [map concat]. rewrite (IH b t Hc Ht).
      unfold slice_text_range. destruct (b <=? s) eqn:E; [lia|].
      replace (t - s) with ((b - s) + (t - b)) by lia.
      rewrite firstn_plus. f_equal. rewrite skipn_plus.
      replace (s + (b - s)) with b by lia. reflexivity.
  Qed.

  Lemma chain_chunks_nonempty (text : list A) : forall rs s t,
    chain s rs t -> t <= length text ->
    forall c, In c (map (slice_text_range text) rs) -> c <> [].
  Proof.
    induction rs as [|[a b] r IH]; intros s t Hc Ht c; cbn [map In]; [tauto|].
    cbn [chain] in Hc. destruct Hc as (-> & Hlt & Hc).
    pose proof (chain_le _ _ _ Hc) as Hbt.
    intros [<-|Hin]; [|eapply IH; eauto].
    unfold slice_text_range. destruct (b <=? s) eqn:E; [lia|].
    intros Hnil. apply (f_equal (@length A)) in Hnil.
    rewrite firstn_length, skipn_length in Hnil. cbn [length] in Hnil. lia.
  Qed.

  (* ---- build_chunk_manifest ---- *)
  Lemma build_none_iff text cc :
    build text cc = Ok None <-> cc = 0 \/ length text <= cc.
  Proof.
    unfold build_chunk_manifest.
    destruct (cc =? 0) eqn:E0; [split; [lia | reflexivity]|].
    destruct (length text <=? cc) eqn:E1; [split; [lia | reflexivity]|].
    destruct (loop_chain (length text) text (length text) cc (chunk_slack cc) 0 eq_refl ltac:(lia) ltac:(lia) ltac:(lia))
      as (rs & -> & _).
    split; [discriminate | lia].
  Qed.

  Theorem build_partition text cc :
    0 < cc -> cc < length text ->
    exists rs, build text cc = Ok (Some rs) /\
               chain 0 rs (length text) /\
               is_partition rs (length text) /\
               concat (map (slice_text_range text) rs) = text /\
               (forall c, In c (map (slice_text_range text) rs) -> c <> []) /\
               Forall (fun r => snd r - fst r <= cc + chunk_slack cc) rs.
  Proof.
    intros Hcc Hlen. unfold build_chunk_manifest.
    destruct (cc =? 0) eqn:E0; [lia|].
    destruct (length text <=? cc) eqn:E1; [lia|].
    destruct (loop_chain (length text) text (length text) cc (chunk_slack cc) 0 eq_refl Hcc ltac:(lia) ltac:(lia))
      as (rs & -> & Hch & Hsz).
    exists rs. split; [reflexivity|]. split; [exact Hch|].
    split; [apply chain_is_partition; [lia | exact Hch]|].
    split.
    { rewrite (chain_concat text rs 0 (length text) Hch (le_n _)).
      rewrite Nat.sub_0_r. cbn [skipn]. apply firstn_all. }
    split; [eapply chain_chunks_nonempty; [exact Hch | apply le_n] | exact Hsz].
  Qed.

  (* total: a result for every text and every chunk size, never a panic, never out of fuel *)
  Lemma build_total text cc : exists r, build text cc = Ok r.
  Proof.
    destruct (Nat.eq_dec cc 0) as [->|Hn].
    { exists None. apply build_none_iff. left; reflexivity. }
    destruct (le_lt_dec (length text) cc) as [Hle|Hlt].
    { exists None. apply build_none_iff. right; exact Hle. }
    destruct (build_partition text cc ltac:(lia) Hlt) as (rs & -> & _). eexists; reflexivity.
  Qed.

  (* chunk sizes at or beyond the text length all behave alike (used by the
     correspondence runner to keep usize::MAX out of unary arithmetic) *)
  Lemma build_clamp text cc :
    build text cc = build text (Nat.min cc (S (length text))).
  Proof.
    destruct (le_lt_dec (length text) cc) as [Hle|Hlt].
    - transitivity (@Ok (option (list range)) None); [|symmetry]; apply build_none_iff; lia.
    - f_equal. lia.
  Qed.

  (* ---- plan_naive_chunks / plan_text_chunks ---- *)
  Lemma chunk_slack_default : chunk_slack DEFAULT_CHUNK_CHARS = 240.
  Proof. reflexivity. Qed.

  Theorem plan_naive_partition text :
    CHUNK_MIN_CHARS <= length text ->
    exists rs, plan_naive text = Ok (Some (DEFAULT_CHUNK_CHARS, rs, map (slice_text_range text) rs)) /\
               2 <= length rs /\
               is_partition rs (length text) /\
               concat (map (slice_text_range text) rs) = text /\
               (forall c, In c (map (slice_text_range text) rs) -> c <> []) /\
               Forall (fun r => snd r - fst r <= 1440) rs.
  Proof.
    intros Hlen. unfold plan_naive_chunks.
    assert (Hmin : CHUNK_MIN_CHARS = 2400) by reflexivity.
    assert (Hdef : DEFAULT_CHUNK_CHARS = 1200) by reflexivity.
    destruct (build_partition text DEFAULT_CHUNK_CHARS ltac:(lia) ltac:(lia))
      as (rs & -> & Hch & Hpart & Hcat & Hne & Hsz).
    rewrite chunk_slack_default, Hdef in Hsz.
    assert (H2 : 2 <= length rs).
    { destruct rs as [|[a b] r]; [cbn [chain] in Hch; lia|].
      destruct r as [|x r']; [|cbn [length]; lia].
      cbn [chain] in Hch. destruct Hch as (Ha & _ & Hbt).
      apply Forall_inv in Hsz. cbn [fst snd] in Hsz. lia. }
    exists rs. destruct (length rs <=? 1) eqn:E; [lia|].
    split; [reflexivity|]. split; [exact H2|]. split; [exact Hpart|].
    split; [exact Hcat|]. split; [exact Hne | exact Hsz].
  Qed.

  Theorem plan_text_unstructured (t : list A) structural :
    CHUNK_MIN_CHARS <= length t ->
    exists rs, plan_text (Some t) false structural
                 = Ok (Some (DEFAULT_CHUNK_CHARS, rs, map (slice_text_range t) rs)) /\
               2 <= length rs /\
               is_partition rs (length t) /\
               concat (map (slice_text_range t) rs) = t /\
               (forall c, In c (map (slice_text_range t) rs) -> c <> []) /\
               Forall (fun r => snd r - fst r <= 1440) rs.
  Proof.
    intros Hlen. unfold plan_text_chunks.
    destruct (length t <? CHUNK_MIN_CHARS) eqn:E; [lia|].
    apply plan_naive_partition; exact Hlen.
  Qed.

  Lemma plan_text_below_threshold (t : list A) hs structural :
    length t < CHUNK_MIN_CHARS -> plan_text (Some t) hs structural = Ok None.
  Proof.
    intros Hlen. unfold plan_text_chunks.
    destruct (length t <? CHUNK_MIN_CHARS) eqn:E; [reflexivity | lia].
  Qed.
End Proofs.
