(* binary32 facts for C37 (Flocq): normalize_scores maps finite scores into [0,1] with every
   maximal score mapped to exactly 1, PROVIDED max - min does not overflow; the overflow case is a
   genuine defect of the implementation (known finding F-C37-1, refutation below); and the reading
   of "not below the threshold" as "at or above the threshold" for non-NaN values.
   Theorems here carry Flocq's four standard-library axioms (the reals). *)
From Coq Require Import ZArith Reals Lra.
From Flocq Require Import Core.Zaux Core.Raux Core.Defs Core.Float_prop Core.Generic_fmt
     IEEE754.BinarySingleNaN IEEE754.Binary IEEE754.Bits.
From MV Require Import Base.Prelude Model.Adaptive Model.AdaptiveF32 Proofs.AdaptiveProofs.

Notation R32 := (B2R 24 128).
Notation fin32 := (is_finite 24 128).
Notation rnd32 := (round radix2 (SpecFloat.fexp 24 128) (round_mode mode_NE)).

(* ---------------- constants ---------------- *)
Lemma B2R_of_bits : forall z, R32 (b32_of_bits z) = FF2R radix2 (binary_float_of_bits_aux 23 8 z).
Proof. intros z. unfold b32_of_bits, binary_float_of_bits. apply B2R_FF2B. Qed.

Lemma R_one : R32 F32_ONE = 1%R.
Proof.
  unfold F32_ONE. rewrite B2R_of_bits.
  set (f := binary_float_of_bits_aux 23 8 1065353216). vm_compute in f. subst f.
  unfold FF2R, F2R, cond_Zopp. cbn [Fnum Fexp].
  change (bpow radix2 (-23)) with (/ IZR (Z.pow_pos 2 23))%R.
  replace (Z.pow_pos 2 23) with 8388608%Z by reflexivity.
  field.
Qed.

Lemma R_eps_pos : (0 < R32 F32_EPSILON)%R.
Proof.
  unfold F32_EPSILON. rewrite B2R_of_bits.
  set (f := binary_float_of_bits_aux 23 8 872415232). vm_compute in f. subst f.
  unfold FF2R, F2R, cond_Zopp. cbn [Fnum Fexp].
  apply Rmult_lt_0_compat; [apply IZR_lt; reflexivity | apply bpow_gt_0].
Qed.

Lemma neg_inf_eq : F32_NEG_INF = B754_infinity 24 128 true.
Proof. reflexivity. Qed.
Lemma inf_eq : F32_INF = B754_infinity 24 128 false.
Proof. reflexivity. Qed.
Lemma fin_one : fin32 F32_ONE = true.
Proof. reflexivity. Qed.
Lemma fin_eps : fin32 F32_EPSILON = true.
Proof. reflexivity. Qed.

Lemma format_one : generic_format radix2 (SpecFloat.fexp 24 128) 1%R.
Proof. rewrite <- R_one. apply generic_format_B2R. Qed.

Lemma rnd_one : rnd32 1%R = 1%R.
Proof. apply round_generic; [apply valid_rnd_round_mode | apply format_one]. Qed.

Lemma rnd_zero : rnd32 0%R = 0%R.
Proof. apply round_0. apply valid_rnd_round_mode. Qed.

Lemma rnd_le : forall x y, (x <= y)%R -> (rnd32 x <= rnd32 y)%R.
Proof.
  intros x y H. apply round_le; [apply fexp_correct; reflexivity | apply valid_rnd_round_mode | exact H].
Qed.

(* ---------------- comparison ---------------- *)
Lemma fin_not_nan : forall x : f32, fin32 x = true -> f32_is_nan x = false.
Proof. intros x; destruct x; simpl; intros H; try discriminate; reflexivity. Qed.

Lemma ltb_R : forall x y : f32, fin32 x = true -> fin32 y = true ->
  (f32_ltb x y = true <-> (R32 x < R32 y)%R).
Proof.
  intros x y Hx Hy. unfold f32_ltb, b32_compare. rewrite (Bcompare_correct 24 128 x y Hx Hy).
  destruct (Rcompare_spec (R32 x) (R32 y)); split; intros H0; try discriminate; try lra; reflexivity.
Qed.

Lemma ltb_false_R : forall x y : f32, fin32 x = true -> fin32 y = true ->
  (f32_ltb x y = false <-> (R32 y <= R32 x)%R).
Proof.
  intros x y Hx Hy. pose proof (ltb_R x y Hx Hy) as H.
  destruct (f32_ltb x y); split; intros H0; try discriminate; try reflexivity.
  - destruct H as [H _]. specialize (H eq_refl). lra.
  - apply Rnot_lt_le. intros Hlt. apply H in Hlt. discriminate.
Qed.

Lemma leb_R : forall x y : f32, fin32 x = true -> fin32 y = true ->
  (f32_leb x y = true <-> (R32 x <= R32 y)%R).
Proof.
  intros x y Hx Hy. unfold f32_leb, b32_compare. rewrite (Bcompare_correct 24 128 x y Hx Hy).
  destruct (Rcompare_spec (R32 x) (R32 y)); split; intros H0; try discriminate; try lra; reflexivity.
Qed.

(* Bcompare answers on every pair of non-NaN values (infinities included) *)
Lemma compare_some : forall x y : f32, f32_is_nan x = false -> f32_is_nan y = false ->
  exists c, b32_compare x y = Some c.
Proof.
  intros x y Hx Hy. unfold b32_compare, Bcompare.
  destruct x as [sx|sx|sx px ex|sx mx ex bx]; try discriminate Hx;
  destruct y as [sy|sy|sy py ey|sy my ey by_]; try discriminate Hy;
  cbn [B2BSN BinarySingleNaN.Bcompare BinarySingleNaN.B2SF SpecFloat.SFcompare]; eauto.
Qed.

(* "not below" is "at or above" as soon as neither side is NaN *)
Lemma not_below_is_at_or_above : forall x y : f32,
  f32_is_nan x = false -> f32_is_nan y = false -> f32_ltb x y = false -> f32_leb y x = true.
Proof.
  intros x y Hx Hy H. destruct (compare_some x y Hx Hy) as [c Hc].
  unfold f32_ltb in H. unfold f32_leb. unfold b32_compare in *. rewrite Bcompare_swap. rewrite Hc in *.
  destruct c; try discriminate; reflexivity.
Qed.

(* ---------------- f32::max / f32::min folds over finite lists ---------------- *)
Lemma fmax_props : forall a b : f32, fin32 a = true -> fin32 b = true ->
  fin32 (f32_max a b) = true /\ (f32_max a b = a \/ f32_max a b = b) /\
  (R32 a <= R32 (f32_max a b))%R /\ (R32 b <= R32 (f32_max a b))%R.
Proof.
  intros a b Ha Hb. unfold f32_max. rewrite (fin_not_nan a Ha), (fin_not_nan b Hb).
  destruct (f32_ltb a b) eqn:E.
  - apply (ltb_R a b Ha Hb) in E. repeat split; auto; lra.
  - apply (ltb_false_R a b Ha Hb) in E. repeat split; auto; lra.
Qed.

Lemma fmin_props : forall a b : f32, fin32 a = true -> fin32 b = true ->
  fin32 (f32_min a b) = true /\ (f32_min a b = a \/ f32_min a b = b) /\
  (R32 (f32_min a b) <= R32 a)%R /\ (R32 (f32_min a b) <= R32 b)%R.
Proof.
  intros a b Ha Hb. unfold f32_min. rewrite (fin_not_nan a Ha), (fin_not_nan b Hb).
  destruct (f32_ltb b a) eqn:E.
  - apply (ltb_R b a Hb Ha) in E. repeat split; auto; lra.
  - apply (ltb_false_R b a Hb Ha) in E. repeat split; auto; lra.
Qed.

Lemma fold_max_props : forall (l : list f32) (acc : f32),
  fin32 acc = true -> (forall x, In x l -> fin32 x = true) ->
  fin32 (fold_left f32_max l acc) = true /\
  (fold_left f32_max l acc = acc \/ In (fold_left f32_max l acc) l) /\
  (R32 acc <= R32 (fold_left f32_max l acc))%R /\
  (forall x, In x l -> (R32 x <= R32 (fold_left f32_max l acc))%R).
Proof.
  induction l as [|s r IH]; intros acc Ha Hl; cbn [fold_left].
  - repeat split; auto; try lra. intros x [].
  - assert (Hs : fin32 s = true) by (apply Hl; left; reflexivity).
    destruct (fmax_props acc s Ha Hs) as (F1 & F2 & F3 & F4).
    destruct (IH (f32_max acc s) F1 (fun x Hx => Hl x (or_intror Hx))) as (I1 & I2 & I3 & I4).
    split; [exact I1|]. split; [|split].
    + destruct I2 as [I2|I2]; [|right; right; exact I2].
      rewrite I2. destruct F2 as [F2|F2]; rewrite F2; [left; reflexivity | right; left; reflexivity].
    + lra.
    + intros x [Hx|Hx]; [subst x; lra | apply I4; exact Hx].
Qed.

Lemma fold_min_props : forall (l : list f32) (acc : f32),
  fin32 acc = true -> (forall x, In x l -> fin32 x = true) ->
  fin32 (fold_left f32_min l acc) = true /\
  (fold_left f32_min l acc = acc \/ In (fold_left f32_min l acc) l) /\
  (R32 (fold_left f32_min l acc) <= R32 acc)%R /\
  (forall x, In x l -> (R32 (fold_left f32_min l acc) <= R32 x)%R).
Proof.
  induction l as [|s r IH]; intros acc Ha Hl; cbn [fold_left].
  - repeat split; auto; try lra. intros x [].
  - assert (Hs : fin32 s = true) by (apply Hl; left; reflexivity).
    destruct (fmin_props acc s Ha Hs) as (F1 & F2 & F3 & F4).
    destruct (IH (f32_min acc s) F1 (fun x Hx => Hl x (or_intror Hx))) as (I1 & I2 & I3 & I4).
    split; [exact I1|]. split; [|split].
    + destruct I2 as [I2|I2]; [|right; right; exact I2].
      rewrite I2. destruct F2 as [F2|F2]; rewrite F2; [left; reflexivity | right; left; reflexivity].
    + lra.
    + intros x [Hx|Hx]; [subst x; lra | apply I4; exact Hx].
Qed.

(* the folds start from -inf / +inf: the first finite score replaces them *)
Lemma max_start : forall s : f32, fin32 s = true -> f32_max F32_NEG_INF s = s.
Proof.
  intros s Hs. unfold f32_max. rewrite neg_inf_eq. rewrite (fin_not_nan s Hs).
  destruct s as [ss|ss|ss ps es|ss ms es bs]; try discriminate Hs; reflexivity.
Qed.

Lemma min_start : forall s : f32, fin32 s = true -> f32_min F32_INF s = s.
Proof.
  intros s Hs. unfold f32_min. rewrite inf_eq. rewrite (fin_not_nan s Hs).
  destruct s as [ss|ss|ss ps es|ss ms es bs]; try discriminate Hs; reflexivity.
Qed.

Definition finite_list (l : list f32) : Prop := forall x, In x l -> fin32 x = true.

Lemma all_finite_spec : forall l, all_finite l = true <-> finite_list l.
Proof. intros l. unfold all_finite, finite_list, f32_is_finite. apply forallb_forall. Qed.

Lemma max_score_props : forall scores : list f32, scores <> [] -> finite_list scores ->
  fin32 (max_score f32ops scores) = true /\ In (max_score f32ops scores) scores /\
  (forall x, In x scores -> (R32 x <= R32 (max_score f32ops scores))%R).
Proof.
  intros [|s r] Hne Hf; [congruence|]. unfold max_score. cbn [fold_left f_max f_neg_inf f32ops].
  assert (Hs : fin32 s = true) by (apply Hf; left; reflexivity).
  rewrite (max_start s Hs).
  destruct (fold_max_props r s Hs (fun x Hx => Hf x (or_intror Hx))) as (I1 & I2 & I3 & I4).
  split; [exact I1|]. split.
  - destruct I2 as [I2|I2]; [rewrite I2; left; reflexivity | right; exact I2].
  - intros x [Hx|Hx]; [subst x; exact I3 | apply I4; exact Hx].
Qed.

Lemma min_score_props : forall scores : list f32, scores <> [] -> finite_list scores ->
  fin32 (min_score f32ops scores) = true /\ In (min_score f32ops scores) scores /\
  (forall x, In x scores -> (R32 (min_score f32ops scores) <= R32 x)%R).
Proof.
  intros [|s r] Hne Hf; [congruence|]. unfold min_score. cbn [fold_left f_min f_inf f32ops].
  assert (Hs : fin32 s = true) by (apply Hf; left; reflexivity).
  rewrite (min_start s Hs).
  destruct (fold_min_props r s Hs (fun x Hx => Hf x (or_intror Hx))) as (I1 & I2 & I3 & I4).
  split; [exact I1|]. split.
  - destruct I2 as [I2|I2]; [rewrite I2; left; reflexivity | right; exact I2].
  - intros x [Hx|Hx]; [subst x; exact I3 | apply I4; exact Hx].
Qed.

(* ---------------- subtraction and division ---------------- *)
(* a finite difference is the rounded exact difference *)
Lemma minus_finite_R : forall x y : f32, fin32 x = true -> fin32 y = true ->
  fin32 (b32_minus mode_NE x y) = true ->
  R32 (b32_minus mode_NE x y) = rnd32 (R32 x - R32 y)%R.
Proof.
  intros x y Hx Hy Hf. unfold b32_minus in *.
  match goal with |- context [Bminus _ _ ?p1 ?p2 ?nan _ _ _] =>
    pose proof (Bminus_correct 24 128 p1 p2 nan mode_NE x y Hx Hy) as H end.
  destruct (Rlt_bool _ _) in H.
  - destruct H as [H _]. exact H.
  - destruct H as [H _]. exfalso.
    match type of Hf with fin32 ?d = true => rewrite <- (is_finite_B2FF 24 128 d) in Hf; rewrite H in Hf end.
    discriminate Hf.
Qed.

(* 0 <= x - y <= u with round(u) the value of a float: no overflow, result in [0, round u] *)
Lemma minus_bounded : forall x y w : f32, forall u : R,
  fin32 x = true -> fin32 y = true ->
  (0 <= R32 x - R32 y <= u)%R -> rnd32 u = R32 w ->
  fin32 (b32_minus mode_NE x y) = true /\
  R32 (b32_minus mode_NE x y) = rnd32 (R32 x - R32 y)%R /\
  (0 <= R32 (b32_minus mode_NE x y) <= R32 w)%R.
Proof.
  intros x y w u Hx Hy Hb Hw. unfold b32_minus.
  match goal with |- context [Bminus _ _ ?p1 ?p2 ?nan _ _ _] =>
    pose proof (Bminus_correct 24 128 p1 p2 nan mode_NE x y Hx Hy) as H end.
  assert (Hlo : (0 <= rnd32 (R32 x - R32 y))%R) by (rewrite <- rnd_zero; apply rnd_le; lra).
  assert (Hhi : (rnd32 (R32 x - R32 y) <= R32 w)%R) by (rewrite <- Hw; apply rnd_le; lra).
  pose proof (abs_B2R_lt_emax 24 128 w) as Hw2.
  rewrite Rlt_bool_true in H.
  - destruct H as (H1 & H2 & _). rewrite H1. repeat split; auto.
  - rewrite Rabs_pos_eq by exact Hlo. apply Rle_lt_trans with (R32 w); [exact Hhi|].
    apply Rle_lt_trans with (Rabs (R32 w)); [apply Rle_abs | exact Hw2].
Qed.

(* quotient of 0 <= d <= g, g > 0: finite, in [0,1], and exactly 1 when d = g *)
Lemma div_unit : forall d g : f32, fin32 d = true -> fin32 g = true ->
  (0 <= R32 d <= R32 g)%R -> (0 < R32 g)%R ->
  fin32 (b32_div mode_NE d g) = true /\
  (0 <= R32 (b32_div mode_NE d g) <= 1)%R /\
  (R32 d = R32 g -> R32 (b32_div mode_NE d g) = 1%R).
Proof.
  intros d g Hd Hg Hb Hpos. unfold b32_div.
  assert (Hnz : R32 g <> 0%R) by lra.
  match goal with |- context [Bdiv _ _ ?p1 ?p2 ?nan _ _ _] =>
    pose proof (Bdiv_correct 24 128 p1 p2 nan mode_NE d g Hnz) as H end.
  assert (Hq : (0 <= R32 d / R32 g <= 1)%R).
  { split.
    - apply Rmult_le_pos; [lra | left; apply Rinv_0_lt_compat; exact Hpos].
    - apply Rmult_le_reg_r with (R32 g); [exact Hpos|]. unfold Rdiv. rewrite Rmult_assoc, Rinv_l by exact Hnz. lra. }
  assert (Hlo : (0 <= rnd32 (R32 d / R32 g))%R) by (rewrite <- rnd_zero; apply rnd_le; lra).
  assert (Hhi : (rnd32 (R32 d / R32 g) <= 1)%R) by (rewrite <- rnd_one; apply rnd_le; lra).
  rewrite Rlt_bool_true in H.
  - destruct H as (H1 & H2 & _). rewrite H1, H2. split; [exact Hd|]. split; [lra|].
    intros Heq. rewrite Heq. unfold Rdiv. rewrite Rinv_r by exact Hnz. apply rnd_one.
  - rewrite Rabs_pos_eq by exact Hlo. apply Rle_lt_trans with 1%R; [exact Hhi|].
    change 1%R with (bpow radix2 0). apply bpow_lt. reflexivity.
Qed.

(* ---------------- normalize_scores on binary32 ---------------- *)
Lemma nth_map_lt : forall (A B : Type) (g : A -> B) (l : list A) (i : nat) (dA : A) (dB : B),
  (i < length l)%nat -> nth i (map g l) dB = g (nth i l dA).
Proof.
  intros A B g l. induction l as [|a r IH]; intros i dA dB Hi; cbn [length] in Hi.
  - exfalso. apply (Nat.nlt_0_r _ Hi).
  - destruct i as [|i]; cbn [map nth]; [reflexivity|]. apply IH. apply Nat.succ_lt_mono. exact Hi.
Qed.

(* the normalize clause of C37 *)
Definition unit_value (y : f32) : Prop := fin32 y = true /\ (0 <= R32 y <= 1)%R.

Definition normalize_ok (scores : list f32) : Prop :=
  let out := normalize_scores f32ops scores in
  length out = length scores /\
  (forall y, In y out -> unit_value y) /\
  (forall i, (i < length scores)%nat ->
     (forall x, In x scores -> (R32 x <= R32 (nth i scores F32_ZERO))%R) ->
     R32 (nth i out F32_ZERO) = 1%R).

Lemma unit_one : unit_value F32_ONE.
Proof. split; [apply fin_one | rewrite R_one; lra]. Qed.

Theorem normalize_ok_without_overflow : forall scores : list f32,
  all_finite scores = true -> range_overflows scores = false -> normalize_ok scores.
Proof.
  intros scores Hfin Hov. apply all_finite_spec in Hfin.
  unfold normalize_ok. cbv zeta. split; [apply normalize_length|].
  destruct scores as [|s0 r] eqn:Es.
  { split; [intros y []|]. cbn [length]. intros i Hi. exfalso. apply (Nat.nlt_0_r _ Hi). }
  rewrite <- Es in *. assert (Hne : scores <> []) by (rewrite Es; discriminate).
  assert (Hov' : fin32 (score_range f32ops scores) = true).
  { unfold range_overflows in Hov. rewrite Es in Hov. rewrite <- Es in Hov.
    apply negb_false_iff in Hov. exact Hov. }
  destruct (max_score_props scores Hne Hfin) as (Mx1 & Mx2 & Mx3).
  destruct (min_score_props scores Hne Hfin) as (Mn1 & Mn2 & Mn3).
  assert (Hrange : R32 (score_range f32ops scores) =
                   rnd32 (R32 (max_score f32ops scores) - R32 (min_score f32ops scores))%R).
  { unfold score_range in *. cbn [f_sub f32ops] in *. apply minus_finite_R; assumption. }
  destruct (ltb f32ops (score_range f32ops scores) (f_eps f32ops)) eqn:Eflat.
  - (* range < EPSILON: every output is the literal 1.0 *)
    rewrite (normalize_flat f32ops scores Hne Eflat). cbn [f_one f32ops]. split.
    + intros y Hy. apply repeat_spec in Hy. subst y. apply unit_one.
    + intros i Hi _.
      assert (Hin : In (nth i (repeat F32_ONE (length scores)) F32_ZERO) (repeat F32_ONE (length scores)))
        by (apply nth_In; rewrite repeat_length; exact Hi).
      apply repeat_spec in Hin. rewrite Hin. apply R_one.
  - rewrite (normalize_scaled f32ops scores Hne Eflat). cbn [f_div f_sub f32ops].
    unfold ltb in Eflat. cbn [f_ltb f_eps f32ops] in Eflat.
    apply (ltb_false_R _ _ Hov' fin_eps) in Eflat.
    assert (Hpos : (0 < R32 (score_range f32ops scores))%R) by (pose proof R_eps_pos; lra).
    assert (Hone : forall s, In s scores ->
              fin32 (b32_div mode_NE (b32_minus mode_NE s (min_score f32ops scores)) (score_range f32ops scores)) = true /\
              (0 <= R32 (b32_div mode_NE (b32_minus mode_NE s (min_score f32ops scores)) (score_range f32ops scores)) <= 1)%R /\
              ((forall x, In x scores -> (R32 x <= R32 s)%R) ->
               R32 (b32_div mode_NE (b32_minus mode_NE s (min_score f32ops scores)) (score_range f32ops scores)) = 1%R)).
    { intros s Hs.
      assert (Hsf : fin32 s = true) by (apply Hfin; exact Hs).
      pose proof (Mx3 s Hs) as Hle1. pose proof (Mn3 s Hs) as Hle2.
      destruct (minus_bounded s (min_score f32ops scores) (score_range f32ops scores)
                  (R32 (max_score f32ops scores) - R32 (min_score f32ops scores))%R Hsf Mn1) as (D1 & D2 & D3);
        [lra | symmetry; exact Hrange |].
      destruct (div_unit _ _ D1 Hov' D3 Hpos) as (Q1 & Q2 & Q3).
      split; [exact Q1|]. split; [exact Q2|].
      intros Hmax. apply Q3. rewrite D2, Hrange.
      assert (Heq : R32 s = R32 (max_score f32ops scores)) by (apply Rle_antisym; [exact Hle1 | apply Hmax; exact Mx2]).
      rewrite Heq. reflexivity. }
    split.
    + intros y Hy. apply in_map_iff in Hy. destruct Hy as (s & Hy & Hs). subst y.
      destruct (Hone s Hs) as (Q1 & Q2 & _). split; assumption.
    + intros i Hi Hmax.
      set (g := fun s : f32 => b32_div mode_NE (b32_minus mode_NE s (min_score f32ops scores)) (score_range f32ops scores)).
      apply eq_trans with (R32 (g (nth i scores F32_ZERO))).
      { apply f_equal. apply nth_map_lt. exact Hi. }
      unfold g.
      destruct (Hone (nth i scores F32_ZERO) (nth_In scores F32_ZERO Hi)) as (_ & _ & Q3).
      apply Q3. exact Hmax.
Qed.

(* outputs of a successful normalization are finite, in particular never NaN *)
Lemma normalize_outputs_finite : forall scores : list f32,
  all_finite scores = true -> range_overflows scores = false ->
  finite_list (normalize_scores f32ops scores).
Proof.
  intros scores Hf Hov y Hy.
  destruct (normalize_ok_without_overflow scores Hf Hov) as (_ & H & _). apply (H y Hy).
Qed.

(* ---------------- the defect: max - min overflows ---------------- *)
(* scores [3e38, -3e38] (0x7F61B1E6, 0xFF61B1E6): both finite, max - min = +inf, and
   (3e38 - (-3e38)) / inf = inf / inf = NaN *)
Definition overflow_witness : list f32 := [f32_of_bits 2137108966; f32_of_bits 4284592614].

Lemma overflow_witness_facts :
  all_finite overflow_witness = true /\ range_overflows overflow_witness = true /\
  map f32_bits (normalize_scores f32ops overflow_witness) = [2143289344%N; 0%N].
Proof. vm_compute. repeat split. Qed.

Theorem normalize_refuted :
  exists scores : list f32, all_finite scores = true /\ ~ normalize_ok scores.
Proof.
  exists overflow_witness. split; [vm_compute; reflexivity|].
  intros (_ & H & _).
  assert (Hin : In (nth 0 (normalize_scores f32ops overflow_witness) F32_ZERO) (normalize_scores f32ops overflow_witness)).
  { apply nth_In. rewrite normalize_length. vm_compute. apply le_n_S, le_S, le_n. }
  destruct (H _ Hin) as [Hfin _].
  assert (Hnan : fin32 (nth 0 (normalize_scores f32ops overflow_witness) F32_ZERO) = false) by (vm_compute; reflexivity).
  rewrite Hnan in Hfin. discriminate Hfin.
Qed.

(* ---------------- threshold clauses read on binary32 ---------------- *)
(* the scores seen by the strategy are finite when the inputs are and normalization does not overflow *)
Lemma normalized_finite : forall (scores : list f32) (cfg : config f32),
  all_finite scores = true ->
  (cfg_normalize cfg = true -> range_overflows scores = false) ->
  finite_list (normalized_of f32ops scores cfg).
Proof.
  intros scores cfg Hf Hov. unfold normalized_of. destruct (cfg_normalize cfg).
  - apply normalize_outputs_finite; [exact Hf | apply Hov; reflexivity].
  - apply all_finite_spec. exact Hf.
Qed.

Theorem kept_at_or_above_threshold : forall (scores : list f32) (cfg : config f32) thr c t i,
  all_finite scores = true ->
  (cfg_normalize cfg = true -> range_overflows scores = false) ->
  threshold_of f32ops (normalized_of f32ops scores cfg) (cfg_strategy cfg) = Some thr ->
  f32_is_nan thr = false ->
  find_adaptive_cutoff f32ops scores cfg = Ok (c, t) ->
  (cfg_min_results cfg <= N.of_nat i)%N -> (i < c)%nat ->
  f32_leb thr (nth i (normalized_of f32ops scores cfg) F32_ZERO) = true.
Proof.
  intros scores cfg thr c t i Hf Hov Hthr Hnan Hrun Hi1 Hi2.
  destruct (threshold_clauses f32ops scores cfg thr c t F32_ZERO Hthr Hrun) as [Hkept _].
  specialize (Hkept i Hi1 Hi2). unfold ltb in Hkept. cbn [f_ltb f32ops] in Hkept.
  apply not_below_is_at_or_above; [|exact Hnan|exact Hkept].
  apply fin_not_nan. apply (normalized_finite scores cfg Hf Hov). apply nth_In.
  rewrite normalized_of_length.
  destruct (cutoff_bounds f32ops scores cfg) as (c' & t' & Hrun' & _ & Hle).
  rewrite Hrun in Hrun'. inversion Hrun'; subst c' t'.
  apply Nat.lt_le_trans with c; assumption.
Qed.

(* ---------------- the known class is exact: inside it the clause always fails ---------------- *)
Lemma sign_true_nonpos : forall x : f32, fin32 x = true -> Bsign 24 128 x = true -> (R32 x <= 0)%R.
Proof.
  intros x Hf Hs. destruct x as [s|s|s p e|s m e b]; try discriminate Hf; cbn [Bsign] in Hs; subst s.
  - simpl. lra.
  - cbn [B2R cond_Zopp]. apply F2R_le_0. cbn [Fnum]. apply Pos2Z.neg_is_nonpos.
Qed.

Lemma sign_false_nonneg : forall x : f32, fin32 x = true -> Bsign 24 128 x = false -> (0 <= R32 x)%R.
Proof.
  intros x Hf Hs. destruct x as [s|s|s p e|s m e b]; try discriminate Hf; cbn [Bsign] in Hs; subst s.
  - simpl. lra.
  - cbn [B2R cond_Zopp]. apply F2R_ge_0. cbn [Fnum]. apply Pos2Z.is_nonneg.
Qed.

(* a non-finite difference of finite x >= y is +inf *)
Lemma minus_overflow_is_pos_inf : forall x y : f32, fin32 x = true -> fin32 y = true ->
  (R32 y <= R32 x)%R -> fin32 (b32_minus mode_NE x y) = false ->
  b32_minus mode_NE x y = B754_infinity 24 128 false.
Proof.
  intros x y Hx Hy Hle Hnf. unfold b32_minus in *.
  match goal with |- context [Bminus _ _ ?p1 ?p2 ?nan _ _ _] =>
    pose proof (Bminus_correct 24 128 p1 p2 nan mode_NE x y Hx Hy) as H;
    set (d := Bminus 24 128 p1 p2 nan mode_NE x y) in * end.
  destruct (Rlt_bool_spec (Rabs (rnd32 (R32 x - R32 y))) (bpow radix2 128)) as [Hlt|Hge].
  - destruct H as (_ & H & _). rewrite H in Hnf. discriminate Hnf.
  - destruct H as [H Hsign].
    assert (Hsx : Bsign 24 128 x = false).
    { destruct (Bsign 24 128 x) eqn:Sx; [|reflexivity]. exfalso.
      assert (Sy : Bsign 24 128 y = false) by (destruct (Bsign 24 128 y); [discriminate Hsign | reflexivity]).
      pose proof (sign_true_nonpos x Hx Sx). pose proof (sign_false_nonneg y Hy Sy).
      assert (Hz : (R32 x - R32 y = 0)%R) by lra.
      rewrite Hz, rnd_zero, Rabs_R0 in Hge.
      pose proof (bpow_gt_0 radix2 128). lra. }
    rewrite Hsx in H. unfold binary_overflow, BinarySingleNaN.binary_overflow in H. cbn in H.
    destruct d; cbn in H; try discriminate H. inversion H. reflexivity.
Qed.

Theorem normalize_fails_on_overflow : forall scores : list f32,
  all_finite scores = true -> range_overflows scores = true -> ~ normalize_ok scores.
Proof.
  intros scores Hfin Hov (_ & Hunit & _). apply all_finite_spec in Hfin.
  destruct scores as [|s0 r] eqn:Es; [discriminate Hov|].
  rewrite <- Es in *. assert (Hne : scores <> []) by (rewrite Es; discriminate).
  assert (Hnf : fin32 (score_range f32ops scores) = false).
  { unfold range_overflows in Hov. rewrite Es in Hov. rewrite <- Es in Hov.
    apply negb_true_iff in Hov. exact Hov. }
  destruct (max_score_props scores Hne Hfin) as (Mx1 & Mx2 & Mx3).
  destruct (min_score_props scores Hne Hfin) as (Mn1 & Mn2 & Mn3).
  assert (Hinf : score_range f32ops scores = B754_infinity 24 128 false).
  { unfold score_range in *. cbn [f_sub f32ops] in *.
    apply minus_overflow_is_pos_inf; try assumption. apply Mx3. exact Mn2. }
  assert (Eflat : ltb f32ops (score_range f32ops scores) (f_eps f32ops) = false).
  { rewrite Hinf. reflexivity. }
  rewrite (normalize_scaled f32ops scores Hne Eflat) in Hunit. cbn [f_div f_sub f32ops] in Hunit.
  assert (Hin : In (b32_div mode_NE (b32_minus mode_NE (max_score f32ops scores) (min_score f32ops scores))
                            (score_range f32ops scores))
                   (map (fun s : f32 => b32_div mode_NE (b32_minus mode_NE s (min_score f32ops scores))
                                                (score_range f32ops scores)) scores)).
  { apply (in_map (fun s : f32 => b32_div mode_NE (b32_minus mode_NE s (min_score f32ops scores))
                                          (score_range f32ops scores)) scores _ Mx2). }
  destruct (Hunit _ Hin) as [Hf _].
  change (b32_minus mode_NE (max_score f32ops scores) (min_score f32ops scores))
    with (score_range f32ops scores) in Hf.
  rewrite Hinf in Hf. vm_compute in Hf. discriminate Hf.
Qed.
