From MV Require Import Base.Prelude Base.Facts Model.Footer.
Require Import ZifyBool ZifyNat ZifyN.

Lemma footer_decode_magic b f :
  footer_decode b = Some f -> length b = FOOTER_SIZE /\ firstn 8 b = FOOTER_MAGIC.
Proof.
  unfold footer_decode. destruct (Nat.eqb (length b) FOOTER_SIZE) eqn:E1; cbn [negb]; [|discriminate].
  destruct (bytes_eqb (firstn 8 b) FOOTER_MAGIC) eqn:E2; cbn [negb]; [|discriminate].
  intros _. split; [apply Nat.eqb_eq; exact E1 | apply bytes_eqb_spec; exact E2].
Qed.

Lemma footer_decode_first_byte b f : footer_decode b = Some f -> nth 0 b 0%N = 77%N.
Proof.
  intros Hd. apply footer_decode_magic in Hd as [Hl Hm].
  destruct b as [|x b]; [discriminate|]. cbn in Hm. inversion Hm; reflexivity.
Qed.

Lemma nth_slice0 (b : bytes) pos len : 0 < len -> nth 0 (slice b pos len) 0%N = nth pos b 0%N.
Proof.
  intros Hl. unfold slice. destruct len as [|len]; [lia|].
  revert b; induction pos as [|pos IH]; intros b.
  - destruct b; reflexivity.
  - destruct b as [|x b]; [reflexivity|]. rewrite skipn_cons. apply IH.
Qed.

Section ScanProofs.
  Variable H : bytes -> bytes.

  (* one step of the scan at position pos, characterised by valid_at *)
  Lemma scan_step b pos :
    scan H b (S pos) = if valid_at H b pos then slice_at b pos else scan H b pos.
  Proof.
    cbn [scan]. unfold valid_at, slice_at.
    destruct (N.eqb (nth pos b 0%N) 77) eqn:EM; cbn [negb].
    2:{ destruct (Nat.leb (pos + FOOTER_SIZE) (length b)) eqn:EL; cbn [andb]; [|reflexivity].
        destruct (footer_decode (slice b pos FOOTER_SIZE)) as [f|] eqn:ED; [|reflexivity].
        apply footer_decode_first_byte in ED. rewrite nth_slice0 in ED by (unfold FOOTER_SIZE; lia).
        apply N.eqb_neq in EM. contradiction. }
    destruct (Nat.ltb (length b) (pos + FOOTER_SIZE)) eqn:EL.
    { replace (Nat.leb (pos + FOOTER_SIZE) (length b)) with false by lia. reflexivity. }
    replace (Nat.leb (pos + FOOTER_SIZE) (length b)) with true by lia. cbn [andb].
    destruct (footer_decode (slice b pos FOOTER_SIZE)) as [f|]; [|reflexivity].
    destruct (N.eqb (toc_len f) 0) eqn:E0; cbn [orb negb andb]; [reflexivity|].
    destruct (N.ltb (N.of_nat pos) (toc_len f)) eqn:E1.
    { replace (N.leb (toc_len f) (N.of_nat pos)) with false by lia. reflexivity. }
    replace (N.leb (toc_len f) (N.of_nat pos)) with true by lia. cbn [andb].
    destruct (hash_matches H f _); reflexivity.
  Qed.

  (* scan from search_end: the greatest valid position below search_end *)
  Lemma scan_none b n : scan H b n = None <-> forall q, q < n -> valid_at H b q = false.
  Proof.
    induction n as [|n IH].
    - cbn. split; [intros _ q Hq; lia | reflexivity].
    - rewrite scan_step. destruct (valid_at H b n) eqn:EV.
      + split.
        * intros Hs. exfalso. unfold slice_at in Hs. unfold valid_at in EV.
          destruct (footer_decode _); [discriminate|]. rewrite andb_false_r in EV; discriminate.
        * intros Hq. specialize (Hq n ltac:(lia)). congruence.
      + rewrite IH. split; intros Hq q Hlt.
        * destruct (Nat.eq_dec q n) as [->|]; [exact EV | apply Hq; lia].
        * apply Hq; lia.
  Qed.

  Lemma scan_some b n s :
    scan H b n = Some s <->
    exists pos, pos < n /\ valid_at H b pos = true /\ slice_at b pos = Some s /\
                forall q, pos < q -> q < n -> valid_at H b q = false.
  Proof.
    induction n as [|n IH].
    - cbn. split; [discriminate | intros (pos & Hp & _); lia].
    - rewrite scan_step. destruct (valid_at H b n) eqn:EV.
      + split.
        * intros Hs. exists n. repeat split; auto. intros q H1 H2; lia.
        * intros (pos & Hp & Hv & Hs & Hmax).
          destruct (Nat.eq_dec pos n) as [->|]; [exact Hs|].
          specialize (Hmax n ltac:(lia) ltac:(lia)). congruence.
      + rewrite IH. split; intros (pos & Hp & Hv & Hs & Hmax); exists pos; repeat split; auto.
        * intros q H1 H2. destruct (Nat.eq_dec q n) as [->|]; [exact EV | apply Hmax; lia].
        * destruct (Nat.eq_dec pos n) as [->|]; [congruence | lia].
  Qed.

  Lemma valid_at_in_range b q : valid_at H b q = true -> q + FOOTER_SIZE <= length b.
  Proof. unfold valid_at. intros Hv. apply andb_true_iff in Hv as [Hl _]. lia. Qed.

  Theorem find_last_valid_footer_none b :
    find_last_valid_footer H b = None <-> forall q, valid_at H b q = false.
  Proof.
    unfold find_last_valid_footer. destruct (Nat.ltb (length b) FOOTER_SIZE) eqn:EL.
    - split; [|reflexivity]. intros _ q. destruct (valid_at H b q) eqn:EV; [|reflexivity].
      apply valid_at_in_range in EV. lia.
    - rewrite scan_none. split; intros Hq q; [|intros _; apply Hq].
      destruct (valid_at H b q) eqn:EV; [|reflexivity].
      pose proof (valid_at_in_range _ _ EV). rewrite Hq in EV; [discriminate|]. unfold FOOTER_SIZE in *; lia.
  Qed.

  Theorem find_last_valid_footer_some b s :
    find_last_valid_footer H b = Some s <->
    exists pos, valid_at H b pos = true /\ slice_at b pos = Some s /\
                forall q, valid_at H b q = true -> q <= pos.
  Proof.
    unfold find_last_valid_footer. destruct (Nat.ltb (length b) FOOTER_SIZE) eqn:EL.
    - split; [discriminate|]. intros (pos & Hv & _). apply valid_at_in_range in Hv. lia.
    - rewrite scan_some. split.
      + intros (pos & Hp & Hv & Hs & Hmax). exists pos. repeat split; auto.
        intros q Hq. destruct (Nat.le_gt_cases q pos) as [|Hgt]; [assumption|].
        pose proof (valid_at_in_range _ _ Hq). rewrite Hmax in Hq; [discriminate|lia|unfold FOOTER_SIZE in *; lia].
      + intros (pos & Hv & Hs & Hmax). exists pos. repeat split; auto.
        * apply valid_at_in_range in Hv. unfold FOOTER_SIZE in *; lia.
        * intros q H1 H2. destruct (valid_at H b q) eqn:EV; [|reflexivity]. apply Hmax in EV. lia.
  Qed.

  (* the returned TOC bytes are the bytes the footer describes *)
  Lemma slice_at_describes b pos s :
    slice_at b pos = Some s ->
    fs_footer_offset s = pos /\
    footer_decode (slice b pos FOOTER_SIZE) = Some (fs_footer s) /\
    fs_toc_offset s = pos - N.to_nat (toc_len (fs_footer s)) /\
    fs_toc_bytes s = slice b (fs_toc_offset s) (N.to_nat (toc_len (fs_footer s))).
  Proof.
    unfold slice_at. destruct (footer_decode _) as [f|]; [|discriminate].
    intros E; inversion E; subst; cbn. repeat split; reflexivity.
  Qed.
End ScanProofs.

(* footer codec round trip *)
Lemma footer_decode_encode f :
  (toc_len f < 2 ^ 64)%N -> (generation f < 2 ^ 64)%N -> length (toc_hash f) = 32 ->
  footer_decode (footer_encode f) = Some f.
Proof.
  intros Ht Hg Hh. unfold footer_decode, footer_encode.
  assert (Hlen : length (FOOTER_MAGIC ++ le_encode 8 (toc_len f) ++ toc_hash f ++ le_encode 8 (generation f)) = FOOTER_SIZE).
  { rewrite !app_length, !le_encode_length, Hh. reflexivity. }
  rewrite Hlen, Nat.eqb_refl. cbn [negb].
  change (firstn 8 (FOOTER_MAGIC ++ ?x)) with FOOTER_MAGIC.
  rewrite bytes_eqb_refl. cbn [negb].
  pose proof (le_encode_length 8 (toc_len f)) as L1.
  pose proof (le_encode_length 8 (generation f)) as L2.
  assert (S1 : slice (FOOTER_MAGIC ++ le_encode 8 (toc_len f) ++ toc_hash f ++ le_encode 8 (generation f)) 8 8 = le_encode 8 (toc_len f)).
  { pose proof (slice_app_exact FOOTER_MAGIC (le_encode 8 (toc_len f)) (toc_hash f ++ le_encode 8 (generation f))) as HT.
    rewrite L1 in HT. exact HT. }
  assert (S2 : slice (FOOTER_MAGIC ++ le_encode 8 (toc_len f) ++ toc_hash f ++ le_encode 8 (generation f)) 16 32 = toc_hash f).
  { rewrite (app_assoc FOOTER_MAGIC).
    pose proof (slice_app_exact (FOOTER_MAGIC ++ le_encode 8 (toc_len f)) (toc_hash f) (le_encode 8 (generation f))) as HT.
    rewrite !app_length, L1, Hh in HT. exact HT. }
  assert (S3 : slice (FOOTER_MAGIC ++ le_encode 8 (toc_len f) ++ toc_hash f ++ le_encode 8 (generation f)) 48 8 = le_encode 8 (generation f)).
  { rewrite (app_assoc FOOTER_MAGIC), (app_assoc (FOOTER_MAGIC ++ _)).
    pose proof (slice_app_tail ((FOOTER_MAGIC ++ le_encode 8 (toc_len f)) ++ toc_hash f) (le_encode 8 (generation f))) as HT.
    rewrite !app_length, L1, L2, Hh in HT. exact HT. }
  rewrite S1, S2, S3, !le_decode_encode by (change (256 ^ N.of_nat 8)%N with (2 ^ 64)%N; assumption).
  destruct f; reflexivity.
Qed.

(* Tie to the constants regenerated from src/footer.rs on every run: if the source's
   magic or footer size changes, this obligation fails. *)
Require MV.Gen.Consts.
Lemma footer_consts_tied :
  FOOTER_MAGIC = MV.Gen.Consts.FOOTER_MAGIC /\ N.of_nat FOOTER_SIZE = MV.Gen.Consts.FOOTER_SIZE.
Proof. split; reflexivity. Qed.
