(* Carrier-generic facts about the SIMD L2 kernel of Model/SimdL2.v (no floats here, so
   nothing in this file depends on an axiom).  Each Section states, as hypotheses, exactly
   the laws of the carrier it needs; Proofs/SimdL2Float.v proves those laws for IEEE
   binary32 from Flocq, Properties/C38.v instantiates the exact-arithmetic one at Z. *)
From MV Require Import Base.Prelude Model.SimdL2.

(* ---------- list helpers ---------- *)
Lemma fold_left_ext_in :
  forall (A B : Type) (f g : A -> B -> A) (l : list B) (a0 : A),
    (forall a x, In x l -> f a x = g a x) -> fold_left f l a0 = fold_left g l a0.
Proof.
  intros A B f g l. induction l as [|x l IH]; intros a0 Hfg; cbn [fold_left]; [reflexivity|].
  rewrite Hfg by (left; reflexivity). apply IH. intros a y Hy. apply Hfg. right; exact Hy.
Qed.

Lemma fold_left_inv :
  forall (A B : Type) (P : A -> Prop) (f : A -> B -> A) (l : list B) (a0 : A),
    P a0 -> (forall a x, In x l -> P a -> P (f a x)) -> P (fold_left f l a0).
Proof.
  intros A B P f l. induction l as [|x l IH]; intros a0 H0 Hstep; cbn [fold_left]; [exact H0|].
  apply IH.
  - apply Hstep; [left; reflexivity | exact H0].
  - intros a y Hy. apply Hstep. right; exact Hy.
Qed.

Lemma map_seq_shift :
  forall (A : Type) (g : nat -> A) (off n s : nat),
    map (fun k => g (off + k)) (seq s n) = map g (seq (off + s) n).
Proof.
  intros A g off n. induction n as [|n IH]; intros s; cbn [seq map]; [reflexivity|].
  f_equal. rewrite IH. replace (off + S s) with (S (off + s)) by lia. reflexivity.
Qed.

Lemma div8_bound : forall len i k, i < len / 8 -> k < 8 -> i * 8 + k < len.
Proof.
  intros len i k Hi Hk. assert (H8 : 8 <> 0) by discriminate.
  pose proof (Nat.div_mod len 8 H8) as E. lia.
Qed.

Lemma rem8_bound : forall len i, i < len mod 8 -> len / 8 * 8 + i < len.
Proof.
  intros len i Hi. assert (H8 : 8 <> 0) by discriminate.
  pose proof (Nat.div_mod len 8 H8) as E. lia.
Qed.

Lemma div8_total : forall len, len / 8 * 8 + len mod 8 = len.
Proof.
  intros len. assert (H8 : 8 <> 0) by discriminate.
  pose proof (Nat.div_mod len 8 H8) as E. lia.
Qed.

Section Generic.
  Variable F : Type.
  Variables fzero sum_init : F.
  Variables fadd fsub fmul : F -> F -> F.
  Variable fsqrt : F -> F.

  Notation sqd := (sqdiff F fsub fmul).
  Notation zipw := (zipw F).
  Notation ZERO8 := (ZERO8 F fzero).
  Notation body := (l2sq_body F fzero sum_init fadd fsub fmul).
  Notation simd_sq := (l2_distance_squared_simd F fzero sum_init fadd fsub fmul).
  Notation simd := (l2_distance_simd F fzero sum_init fadd fsub fmul fsqrt).
  Notation scalar_sq := (l2sq_scalar F sum_init fadd fsub fmul).

  (* the i-th squared difference *)
  Definition term (a b : list F) (i : nat) : F := sqd (nth i a fzero) (nth i b fzero).

  (* the kernel as a function of the sequence of squared differences only *)
  Definition body_terms (t : nat -> F) (len : nat) : F :=
    let chunks := len / 8 in
    let sum := fold_left (fun s i => zipw fadd s (map (fun k => t (i * 8 + k)) (seq 0 8)))
                         (seq 0 chunks) ZERO8 in
    let total := fold_left fadd sum sum_init in
    fold_left (fun tot i => fadd tot (t (chunks * 8 + i))) (seq 0 (len mod 8)) total.

  Lemma zipw_map_same :
    forall (f : F -> F -> F) (g h : nat -> F) (l : list nat),
      zipw f (map g l) (map h l) = map (fun k => f (g k) (h k)) l.
  Proof.
    intros f g h l. unfold SimdL2.zipw. induction l as [|x l IH]; cbn [map combine fst snd]; [reflexivity|].
    f_equal. exact IH.
  Qed.

  Lemma chunk_step_terms :
    forall a b sum i,
      chunk_step F fzero fadd fsub fmul a b sum i =
      zipw fadd sum (map (fun k => term a b (i * 8 + k)) (seq 0 8)).
  Proof.
    intros a b sum i. unfold chunk_step, load8. cbv zeta. rewrite !zipw_map_same. reflexivity.
  Qed.

  Lemma body_eq : forall a b, body a b = body_terms (term a b) (length a).
  Proof.
    intros a b. unfold l2sq_body, body_terms. cbv zeta.
    rewrite (fold_left_ext_in _ _ (chunk_step F fzero fadd fsub fmul a b)
               (fun s i => zipw fadd s (map (fun k => term a b (i * 8 + k)) (seq 0 8)))).
    - reflexivity.
    - intros s i _. apply chunk_step_terms.
  Qed.

  Lemma body_terms_ext :
    forall t t' len, (forall i, i < len -> t i = t' i) -> body_terms t len = body_terms t' len.
  Proof.
    intros t t' len Htt. unfold body_terms. cbv zeta.
    rewrite (fold_left_ext_in _ _
               (fun s i => zipw fadd s (map (fun k => t (i * 8 + k)) (seq 0 8)))
               (fun s i => zipw fadd s (map (fun k => t' (i * 8 + k)) (seq 0 8)))).
    - apply fold_left_ext_in. intros tot i Hi. apply in_seq in Hi.
      rewrite Htt; [reflexivity|]. apply rem8_bound. lia.
    - intros s i Hi. apply in_seq in Hi. f_equal. apply map_ext_in. intros k Hk. apply in_seq in Hk.
      apply Htt. apply div8_bound; lia.
  Qed.

  (* ================= (ii) symmetry ================= *)
  Section Symmetry.
    Hypothesis sqd_sym : forall x y, sqd x y = sqd y x.

    Lemma body_sym : forall a b, length a = length b -> body a b = body b a.
    Proof.
      intros a b Hlen. rewrite !body_eq, <- Hlen. apply body_terms_ext.
      intros i _. unfold term. apply sqd_sym.
    Qed.

    Theorem simd_sq_sym : forall a b, simd_sq a b = simd_sq b a.
    Proof.
      intros a b. unfold l2_distance_squared_simd.
      rewrite (Nat.eqb_sym (length b) (length a)).
      destruct (Nat.eqb (length a) (length b)) eqn:E; cbn [negb]; [|reflexivity].
      apply Nat.eqb_eq in E. rewrite (body_sym a b E). reflexivity.
    Qed.

    Theorem simd_sym : forall a b, simd a b = simd b a.
    Proof. intros a b. unfold l2_distance_simd. rewrite (simd_sq_sym a b). reflexivity. Qed.

    Theorem scalar_sq_sym : forall a b, scalar_sq a b = scalar_sq b a.
    Proof.
      intros a b. unfold l2sq_scalar. f_equal.
      revert b. induction a as [|x a IH]; intros [|y b]; cbn [combine map fst snd]; try reflexivity.
      rewrite sqd_sym, IH. reflexivity.
    Qed.
  End Symmetry.

  (* ================= (iii) equal vectors give zero ================= *)
  Section Zero.
    Variable good : F -> Prop.                       (* "finite" *)
    Hypothesis sub_self : forall x, good x -> fsub x x = fzero.
    Hypothesis mul_zero : fmul fzero fzero = fzero.
    Hypothesis add_zero : fadd fzero fzero = fzero.
    Hypothesis init_zero : fadd sum_init fzero = fzero.

    Lemma body_terms_zero : forall len, body_terms (fun _ => fzero) len = fzero.
    Proof.
      intros len. unfold body_terms. cbv zeta.
      assert (Hs : forall l : list nat,
                 fold_left (fun s i => zipw fadd s (map (fun k => fzero) (seq 0 8))) l ZERO8 = ZERO8).
      { induction l as [|i l IH]; cbn [fold_left]; [reflexivity|].
        replace (zipw fadd ZERO8 (map (fun _ : nat => fzero) (seq 0 8))) with ZERO8; [exact IH|].
        unfold SimdL2.zipw, SimdL2.ZERO8. cbn [repeat seq map combine fst snd]. rewrite add_zero. reflexivity. }
      rewrite Hs.
      replace (fold_left fadd ZERO8 sum_init) with fzero.
      2:{ unfold SimdL2.ZERO8. cbn [repeat fold_left]. rewrite init_zero, !add_zero. reflexivity. }
      generalize (seq 0 (len mod 8)). intros l. induction l as [|i l IH]; cbn [fold_left]; [reflexivity|].
      rewrite add_zero. exact IH.
    Qed.

    Theorem body_self_zero : forall a, Forall good a -> body a a = fzero.
    Proof.
      intros a Ha. rewrite body_eq.
      rewrite (body_terms_ext (term a a) (fun _ => fzero)); [apply body_terms_zero|].
      intros i Hi. unfold term, sqdiff. cbv zeta.
      rewrite sub_self; [exact mul_zero|].
      rewrite Forall_forall in Ha. apply Ha. apply nth_In. exact Hi.
    Qed.

    Theorem simd_sq_self_zero : forall a, Forall good a -> simd_sq a a = Ok fzero.
    Proof.
      intros a Ha. unfold l2_distance_squared_simd. rewrite Nat.eqb_refl. cbn [negb].
      rewrite (body_self_zero a Ha). reflexivity.
    Qed.
  End Zero.

  (* ================= (iv) the result is never negative or NaN ================= *)
  Section NonNeg.
    Variable good : F -> Prop.                       (* "finite" input component *)
    Variable nn : F -> Prop.                         (* "not NaN and sign bit clear" *)
    Hypothesis nn_sqd : forall x y, good x -> good y -> nn (sqd x y).
    Hypothesis nn_add : forall x y, nn x -> nn y -> nn (fadd x y).
    Hypothesis nn_zero : nn fzero.
    Hypothesis nn_init : forall x, nn x -> nn (fadd sum_init x).

    Lemma zipw_nn : forall x y, Forall nn x -> Forall nn y -> Forall nn (zipw fadd x y).
    Proof.
      unfold SimdL2.zipw. intros x. induction x as [|u x IH]; intros [|v y] Hx Hy; cbn [combine map]; try constructor.
      - cbn [fst snd]. apply nn_add; [inversion Hx | inversion Hy]; assumption.
      - apply IH; [inversion Hx | inversion Hy]; assumption.
    Qed.

    Lemma zipw_length8 : forall f x y, length x = 8 -> length y = 8 -> length (zipw f x y) = 8.
    Proof. intros f x y Hx Hy. unfold SimdL2.zipw. rewrite map_length, combine_length. lia. Qed.

    Lemma fold_add_nn : forall l t, nn t -> Forall nn l -> nn (fold_left fadd l t).
    Proof.
      intros l. induction l as [|x l IH]; intros t Ht Hl; cbn [fold_left]; [exact Ht|].
      apply IH; [apply nn_add; [exact Ht | inversion Hl; assumption] | inversion Hl; assumption].
    Qed.

    Lemma body_terms_nn : forall t len, (forall i, i < len -> nn (t i)) -> nn (body_terms t len).
    Proof.
      intros t len Ht. unfold body_terms. cbv zeta.
      set (sum := fold_left _ (seq 0 (len / 8)) ZERO8).
      assert (Hsum : length sum = 8 /\ Forall nn sum).
      { subst sum. apply fold_left_inv.
        - split; [reflexivity|]. unfold SimdL2.ZERO8. cbn [repeat]. repeat constructor; exact nn_zero.
        - intros s i Hi [Hl Hs]. apply in_seq in Hi. split.
          + apply zipw_length8; [exact Hl|]. rewrite map_length, seq_length. reflexivity.
          + apply zipw_nn; [exact Hs|]. apply Forall_forall. intros v Hv.
            apply in_map_iff in Hv. destruct Hv as [k [Hk Hin]]. apply in_seq in Hin. subst v.
            apply Ht. apply div8_bound; lia. }
      destruct Hsum as [Hl Hs].
      apply fold_left_inv.
      - destruct sum as [|s0 rest]; [discriminate Hl|]. cbn [fold_left].
        apply fold_add_nn; [apply nn_init; inversion Hs; assumption | inversion Hs; assumption].
      - intros tot i Hi Htot. apply in_seq in Hi. apply nn_add; [exact Htot|].
        apply Ht. apply rem8_bound. lia.
    Qed.

    Theorem body_nn :
      forall a b, length a = length b -> Forall good a -> Forall good b -> nn (body a b).
    Proof.
      intros a b Hlen Ha Hb. rewrite body_eq. apply body_terms_nn. intros i Hi.
      unfold term. rewrite Forall_forall in Ha, Hb.
      apply nn_sqd; [apply Ha | apply Hb]; apply nth_In; lia.
    Qed.
  End NonNeg.

  (* ================= (i) exact arithmetic: the kernel IS the sum ================= *)
  Section Exact.
    Hypothesis add_comm : forall x y, fadd x y = fadd y x.
    Hypothesis add_assoc : forall x y z, fadd x (fadd y z) = fadd (fadd x y) z.
    Hypothesis add_0_l : forall x, fadd fzero x = x.
    Hypothesis init_is_zero : sum_init = fzero.

    Definition Sum (l : list F) : F := fold_right fadd fzero l.

    Lemma add_0_r : forall x, fadd x fzero = x.
    Proof. intros x. rewrite add_comm. apply add_0_l. Qed.

    Lemma add4 : forall a b c d, fadd (fadd a b) (fadd c d) = fadd (fadd a c) (fadd b d).
    Proof.
      intros a b c d.
      rewrite <- (add_assoc a b (fadd c d)), (add_assoc b c d), (add_comm b c),
              <- (add_assoc c b d), (add_assoc a c (fadd b d)). reflexivity.
    Qed.

    Lemma Sum_app : forall l1 l2, Sum (l1 ++ l2) = fadd (Sum l1) (Sum l2).
    Proof.
      intros l1 l2. induction l1 as [|x l1 IH]; cbn [app Sum fold_right].
      - symmetry. apply add_0_l.
      - fold (Sum (l1 ++ l2)). fold (Sum l1). rewrite IH. apply add_assoc.
    Qed.

    Lemma Sum_zipw : forall x y, length x = length y -> Sum (zipw fadd x y) = fadd (Sum x) (Sum y).
    Proof.
      unfold SimdL2.zipw. intros x. induction x as [|u x IH]; intros [|v y] Hl; try discriminate Hl;
        cbn [combine map Sum fold_right fst snd].
      - symmetry. apply add_0_l.
      - fold (Sum x). fold (Sum y). fold (Sum (map (fun p => fadd (fst p) (snd p)) (combine x y))).
        rewrite IH by (injection Hl; auto). apply add4.
    Qed.

    Lemma fold_left_Sum : forall l t, fold_left fadd l t = fadd t (Sum l).
    Proof.
      intros l. induction l as [|x l IH]; intros t; cbn [fold_left Sum fold_right].
      - symmetry. apply add_0_r.
      - fold (Sum l). rewrite IH. symmetry. apply add_assoc.
    Qed.

    Lemma fold_left_add_map :
      forall (g : nat -> F) l t0, fold_left (fun tot i => fadd tot (g i)) l t0 = fold_left fadd (map g l) t0.
    Proof. intros g l. induction l as [|x l IH]; intros t0; cbn [fold_left map]; [reflexivity | apply IH]. Qed.

    Lemma Sum_ZERO8 : Sum ZERO8 = fzero.
    Proof. unfold SimdL2.ZERO8. cbn [repeat Sum fold_right]. rewrite !add_0_l. reflexivity. Qed.

    Lemma chunks_Sum :
      forall (t : nat -> F) c,
        let s := fold_left (fun s i => zipw fadd s (map (fun k => t (i * 8 + k)) (seq 0 8))) (seq 0 c) ZERO8 in
        length s = 8 /\ Sum s = Sum (map t (seq 0 (c * 8))).
    Proof.
      intros t c. cbv zeta. induction c as [|c [IHl IHs]].
      - cbn [seq fold_left Nat.mul map]. split; [reflexivity | apply Sum_ZERO8].
      - rewrite (seq_S c 0), fold_left_app. cbn [fold_left Nat.add].
        set (s := fold_left _ (seq 0 c) ZERO8) in *.
        assert (Hc : length (map (fun k => t (c * 8 + k)) (seq 0 8)) = 8)
          by (rewrite map_length, seq_length; reflexivity).
        split.
        + unfold SimdL2.zipw. rewrite map_length, combine_length. lia.
        + rewrite Sum_zipw by lia. rewrite IHs.
          rewrite (map_seq_shift F t (c * 8) 8 0).
          replace (S c * 8) with (c * 8 + 8) by lia.
          rewrite seq_app, map_app, Sum_app. replace (c * 8 + 0) with (0 + c * 8) by lia. reflexivity.
    Qed.

    Lemma body_terms_exact :
      forall t len, body_terms t len = fold_left fadd (map t (seq 0 len)) fzero.
    Proof.
      intros t len. unfold body_terms. cbv zeta.
      destruct (chunks_Sum t (len / 8)) as [_ Hs]. cbv zeta in Hs.
      rewrite fold_left_add_map, !fold_left_Sum, Hs, init_is_zero, !add_0_l.
      rewrite (map_seq_shift F t (len / 8 * 8) (len mod 8) 0).
      rewrite <- Sum_app, <- map_app.
      replace (len / 8 * 8 + 0) with (0 + len / 8 * 8) by lia.
      rewrite <- seq_app, div8_total. reflexivity.
    Qed.

    Lemma combine_terms :
      forall a b, length a = length b ->
        map (fun p => sqd (fst p) (snd p)) (combine a b) = map (term a b) (seq 0 (length a)).
    Proof.
      intros a. induction a as [|x a IH]; intros [|y b] Hl; try discriminate Hl; cbn [combine map length seq fst snd].
      - reflexivity.
      - f_equal. rewrite <- seq_shift, map_map. rewrite IH by (injection Hl; auto).
        apply map_ext. intros i. reflexivity.
    Qed.

    (* the 8-lane accumulation + horizontal sum + remainder is the plain left-to-right sum *)
    Theorem body_exact : forall a b, length a = length b -> body a b = scalar_sq a b.
    Proof.
      intros a b Hl. rewrite body_eq, body_terms_exact. unfold l2sq_scalar.
      rewrite combine_terms by exact Hl. rewrite init_is_zero. reflexivity.
    Qed.

    Theorem simd_sq_exact :
      forall a b, length a = length b -> simd_sq a b = Ok (scalar_sq a b).
    Proof.
      intros a b Hl. unfold l2_distance_squared_simd. rewrite Hl, Nat.eqb_refl. cbn [negb].
      rewrite (body_exact a b Hl). reflexivity.
    Qed.
  End Exact.
End Generic.

(* closed forms used by Properties/C38.v *)
Lemma simd_sq_exact_monoid :
  forall (F : Type) (zero : F) (add sub mul : F -> F -> F),
    (forall x y, add x y = add y x) ->
    (forall x y z, add x (add y z) = add (add x y) z) ->
    (forall x, add zero x = x) ->
    forall a b : list F, length a = length b ->
      l2_distance_squared_simd F zero zero add sub mul a b = Ok (l2sq_scalar F zero add sub mul a b).
Proof.
  intros F zero add sub mul Hc Ha H0 a b Hl.
  exact (simd_sq_exact F zero zero add sub mul Hc Ha H0 eq_refl a b Hl).
Qed.

Lemma simd_sq_exact_Z :
  forall a b : list Z, length a = length b ->
    l2_distance_squared_simd Z 0%Z 0%Z Z.add Z.sub Z.mul a b =
    Ok (fold_left Z.add (map (fun p => ((fst p - snd p) * (fst p - snd p))%Z) (combine a b)) 0%Z).
Proof.
  intros a b Hl.
  exact (simd_sq_exact Z 0%Z 0%Z Z.add Z.sub Z.mul Z.add_comm Z.add_assoc Z.add_0_l eq_refl a b Hl).
Qed.
