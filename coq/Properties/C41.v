(* C41 Background enrichment is safe under any interleaving.
   "With an enrichment worker running on a shared handle, for any interleaving of its steps with
    foreground puts, searches and commits, no acknowledged frame is lost and only frames queued for
    enrichment change state.  Every queued frame ends Enriched exactly once, and the worker stops
    when asked."

   Model: Model/Enrich.v (run_worker_loop as a state machine, the four closures of
   start_enrichment_worker, next/process/complete_enrichment_task, mark_frame_enriched,
   process_all_enrichment, the queue push at the end of put_internal) on top of the frame-table
   model Model/Store.v (C01/C06).  Proofs: Proofs/Enrich*.v.

   A schedule is ANY list of `SW extra` (the worker runs its next critical section) and `SF op`
   (the foreground runs put / update / delete / commit / search / process_all_enrichment / stop);
   `run iv sched` executes it from a fresh memory with checkpoint_interval = iv.  All theorems
   below quantify over every iv and every schedule: no bound on length, on the number of worker
   steps between two foreground calls, or on where checkpoints and automatic commits fall.

   Verdict.  Safety half: PROVED for all schedules (frame table, who changes state, queue
   discipline, worker stops).  "Every queued frame ends Enriched": REFUTED -- the worker may
   process a task before the put that queued it is committed; the task is then dropped with
   "Frame not found" and the frame stays Searchable for ever (finding F-C41-1, class
   enriched-before-commit); proved outside that class.  "exactly once": REFUTED -- `get` and
   `complete` are separate critical sections and Memvid::process_all_enrichment is public, so a
   foreground drain between them processes the same task a second time (finding F-C41-2, class
   drain-overlaps-worker); proved outside that class. *)
From MV Require Import Base.Prelude Model.Store Model.StoreSpec Proofs.StoreProofs Model.Derived Model.Enrich
  Proofs.EnrichProofs Proofs.EnrichQueueProofs Proofs.EnrichLiveProofs.
Local Open Scope N_scope.

(* ============ (1) no acknowledged frame is lost ============ *)
(* e_hist = the foreground's store calls with the results they returned, in order (2).  Whatever
   the worker did in between (its checkpoints are commits at arbitrary points, its complete/mark
   steps set `dirty`), the frames the memory exposes are exactly the reference table obtained by
   applying the acknowledged foreground calls one after the other -- the reference model of C01 --
   and once nothing is pending the committed table itself is that table.
   Partial in the sense of C01: side condition run_ok (no put asks for the internal DocumentChunk
   role -- FPut cannot -- and no acknowledged update targets a chunk frame). *)
Theorem C41_frame_table_is_foreground_reference_partial :
  forall (iv : N) (sched : list sitem),
    let e := fst (run iv sched) in
    run_ok [] (e_hist e) = true ->
    view (e_st e) = ref_run [] (e_hist e) /\ (pending (e_st e) = [] -> committed (e_st e) = ref_run [] (e_hist e)).
Proof. exact frame_table_is_foreground_reference. Qed.
Print Assumptions C41_frame_table_is_foreground_reference_partial.

(* (2) the history fed to the reference model is the foreground's calls alone: worker steps add nothing *)
Theorem C41_history_is_the_foreground_calls :
  forall (iv : N) (sched : list sitem), map fst (e_hist (fst (run iv sched))) = fore_calls sched.
Proof. intros iv sched. exact (hist_calls iv sched (e0, w0)). Qed.
Print Assumptions C41_history_is_the_foreground_calls.

(* ============ (3) only frames queued for enrichment change state; queue discipline ============ *)
(* In every reachable state: the queue holds only ids pushed by a put that asked for enrichment
   (e_queued = "ids queued so far") and holds each at most once; mark_frame_enriched has only ever
   hit such ids (e_marked); so has every process_enrichment_task call (e_plog); queued ids are ids
   of frames that exist (below next_frame_id); and the worker's in-flight task is still the FIRST
   task of the queue or is no longer in the queue at all. *)
Theorem C41_queue_discipline :
  forall (iv : N) (sched : list sitem),
    let e := fst (run iv sched) in let w := snd (run iv sched) in
    incl (e_queue e) (e_queued e) /\ incl (e_marked e) (e_queued e) /\ incl (e_plog e) (e_queued e) /\
    NoDup (e_queue e) /\ below (e_queued e) (next_frame_id (e_st e)) /\
    (forall t, (w_pc w = WHasTask t \/ w_pc w = WProcessed t) ->
               In t (e_queued e) /\ (~ In t (e_queue e) \/ exists r, e_queue e = t :: r)).
Proof. exact queue_facts. Qed.
Print Assumptions C41_queue_discipline.

(* hence a frame that was never queued has the state its put gave it (Enriched = 1) in every
   reachable state, whatever the interleaving *)
Theorem C41_unqueued_frame_never_changes_state :
  forall (iv : N) (sched : list sitem) (i : N),
    ~ In i (e_queued (fst (run iv sched))) -> state_of (fst (run iv sched)) i = 1.
Proof.
  intros iv sched i Hn. apply state_of_unqueued; [|exact Hn].
  destruct (queue_facts iv sched) as (_ & M & _). exact M.
Qed.
Print Assumptions C41_unqueued_frame_never_changes_state.

(* ============ (4) every queued frame ends Enriched ============ *)
(* what IS true of every schedule: a queued id is still queued, or Enriched, or its task ran when
   the frame was not committed yet (e_early), or when it was committed but no longer Active --
   deleted or superseded by the foreground (e_gone) *)
Theorem C41_every_queued_frame_accounted :
  forall (iv : N) (sched : list sitem) (i : N),
    let e := fst (run iv sched) in
    In i (e_queued e) -> In i (e_queue e) \/ In i (e_marked e) \/ In i (e_early e) \/ In i (e_gone e).
Proof. exact queued_accounted. Qed.
Print Assumptions C41_every_queued_frame_accounted.

(* REFUTED as stated.  put(instant_index, enable_embedding) ; worker: get, process ("Frame not
   found": frame 0 is only in the log), complete ; commit.  Afterwards the queue is empty, nothing
   is pending, frame 0 is committed, Active and queued -- and Searchable after ANY number of
   further worker steps.  (Executed on the unchanged implementation: KNOWN_FINDINGS F-C41-1.) *)
Definition early_witness : list sitem :=
  [SF (FPut (Some 1) 1000 0 None true); SW 0; SW 0; SW 0; SF (FCommit 1)].

Theorem C41_every_queued_frame_enriched_refuted :
  exists (iv : N) (sched : list sitem) (i : N),
    let x := run iv sched in
    In i (e_queued (fst x)) /\ e_queue (fst x) = [] /\ pending (e_st (fst x)) = [] /\
    frame_found (e_st (fst x)) i = true /\ run_ok [] (e_hist (fst x)) = true /\
    forall n, state_of (fst (wsteps iv n x)) i = 0 /\ e_queue (fst (wsteps iv n x)) = [].
Proof.
  exists 100, early_witness, 0. cbv zeta.
  split; [vm_compute; left; reflexivity|]. split; [vm_compute; reflexivity|]. split; [vm_compute; reflexivity|].
  split; [vm_compute; reflexivity|]. split; [vm_compute; reflexivity|].
  intros n. rewrite (surjective_pairing (run 100 early_witness)).
  rewrite wsteps_idle by (vm_compute; reflexivity). split; vm_compute; reflexivity.
Qed.
Print Assumptions C41_every_queued_frame_enriched_refuted.

(* outside the known class (no task was processed before its frame was committed: e_early empty)
   every queued id is still in the queue, or Enriched, or belongs to a frame the foreground deleted
   or superseded before its task ran *)
Theorem C41_every_queued_frame_enriched_outside_known :
  forall (iv : N) (sched : list sitem),
    known_early iv sched = false ->
    let e := fst (run iv sched) in
    forall i, In i (e_queued e) -> In i (e_queue e) \/ state_of e i = 1 \/ In i (e_gone e).
Proof. exact queued_enriched_outside_known. Qed.
Print Assumptions C41_every_queued_frame_enriched_outside_known.

(* ============ (5) exactly once ============ *)
(* REFUTED as stated.  put+commit ; worker: get(0) ; foreground process_all_enrichment (processes
   and completes task 0) ; worker: process(0) again, complete(0).  process_enrichment_task ran
   twice on frame 0; frames_processed counts 1 for the worker plus the foreground's 1. *)
Definition overlap_witness : list sitem :=
  [SF (FPut (Some 1) 1000 0 None true); SF (FCommit 1); SW 0; SF FDrain; SW 0; SW 0].

Theorem C41_exactly_once_refuted :
  exists (iv : N) (sched : list sitem),
    ~ NoDup (e_plog (fst (run iv sched))) /\ state_of (fst (run iv sched)) 0 = 1.
Proof.
  exists 100, overlap_witness. split; [|vm_compute; reflexivity].
  assert (E : e_plog (fst (run 100 overlap_witness)) = [0; 0]) by (vm_compute; reflexivity).
  rewrite E. intros H. inversion H as [|a l Hn _]; subst. apply Hn. left. reflexivity.
Qed.
Print Assumptions C41_exactly_once_refuted.

(* outside the known class (no foreground drain ran on a non-empty queue while the worker was
   between its get and its complete) no task is ever processed twice, by anyone: the log of ALL
   process_enrichment_task calls has no duplicates.  With (4): each queued frame is processed
   exactly once by the time it has left the queue. *)
Theorem C41_exactly_once_outside_known :
  forall (iv : N) (sched : list sitem),
    known_overlap iv sched = false -> NoDup (e_plog (fst (run iv sched))).
Proof. exact processed_once_outside_known. Qed.
Print Assumptions C41_exactly_once_outside_known.

(* ============ (6) the worker stops when asked ============ *)
(* from ANY state in which the stop flag is set, under ANY continuation in which the worker gets
   at least four steps (fairness premise), whatever the foreground does in between: the loop has
   exited (final checkpoint done), and it has processed at most the one task it already held *)
Theorem C41_worker_stops :
  forall (iv : N) (sched : list sitem) (x : est * wst),
    e_stop (fst x) = true -> (4 <= countW sched)%nat ->
    w_pc (snd (run_from iv x sched)) = WStopped /\
    w_nproc (snd (run_from iv x sched)) <= w_nproc (snd x) + owed (w_pc (snd x)).
Proof. exact stops_within_four_steps. Qed.
Print Assumptions C41_worker_stops.

(* ... and never fetches a new task once the flag is set: at most the current loop iteration runs *)
Theorem C41_no_new_task_after_stop :
  forall (iv extra : N) (e : est) (w : wst) (t : N),
    e_stop e = true -> w_pc (snd (wstep iv extra (e, w))) <> WHasTask t.
Proof. exact no_get_after_stop. Qed.
Print Assumptions C41_no_new_task_after_stop.

(* ---- the stop flag is INPUT state of the loop: stop before entry, stop at any position ---- *)
(* run_pre iv b sched = the loop entered with the handle's flag = b (Model/Enrich.v `init`): entry
   does not touch the flag.  Nobody clears it afterwards: no worker step and no foreground call
   (the caller has no "un-stop"), from ANY state: *)
Theorem C41_stop_flag_is_never_cleared :
  forall (iv : N) (sched : list sitem) (x : est * wst),
    e_stop (fst x) = true -> e_stop (fst (run_from iv x sched)) = true.
Proof. exact stop_sticky. Qed.
Print Assumptions C41_stop_flag_is_never_cleared.

(* stop requested BEFORE run_worker_loop is entered (handle.stop() before the thread is spawned, or
   before its first instruction): for EVERY schedule the worker processes nothing, reports no
   error, and its first step -- if it is given one -- is the exit *)
Theorem C41_prestopped_loop_does_nothing :
  forall (iv : N) (sched : list sitem),
    let x := run_pre iv true sched in
    w_nproc (snd x) = 0 /\ w_nerr (snd x) = 0 /\ ((1 <= countW sched)%nat -> w_pc (snd x) = WStopped).
Proof. exact prestopped_never_works. Qed.
Print Assumptions C41_prestopped_loop_does_nothing.

(* stop requested at ANY position of ANY schedule (pre = everything before the request, including
   nothing at all; post = everything after, including further puts, commits, drains and further
   stop requests), whatever flag the loop was entered with: the flag stays set; the worker
   processes at most the one task it was holding when the request came -- none if it was at the top
   of the loop, where its very next step is the exit; and in every case it has left the loop once
   it has been given four steps (the rest of the iteration in progress -- process, complete,
   checkpoint -- and the exit) *)
Theorem C41_stop_at_any_time :
  forall (iv : N) (b : bool) (pre post : list sitem),
    let x := run_pre iv b pre in
    let y := run_pre iv b (pre ++ SF FStop :: post) in
    e_stop (fst y) = true /\
    ((4 <= countW post)%nat -> w_pc (snd y) = WStopped) /\
    w_nproc (snd y) <= w_nproc (snd x) + owed (w_pc (snd x)) /\
    (w_pc (snd x) = WTop -> (1 <= countW post)%nat -> w_pc (snd y) = WStopped /\ w_nproc (snd y) <= w_nproc (snd x)).
Proof. exact stop_at_any_time. Qed.
Print Assumptions C41_stop_at_any_time.

(* (1) holds from either entry flag *)
Theorem C41_frame_table_any_entry_flag_partial :
  forall (iv : N) (b : bool) (sched : list sitem),
    let e := fst (run_pre iv b sched) in
    run_ok [] (e_hist e) = true ->
    view (e_st e) = ref_run [] (e_hist e) /\ (pending (e_st e) = [] -> committed (e_st e) = ref_run [] (e_hist e)).
Proof. exact frame_table_any_entry_flag. Qed.
Print Assumptions C41_frame_table_any_entry_flag_partial.

(* non-vacuity: a pre-stopped loop facing two committed queued documents and as many steps as it
   likes; and a stop landing between get and process (one task still processed), followed by more
   queued puts that are never touched, and a second stop *)
Example C41_prestopped_nonvacuous :
  let x := run_pre 1 true [SF (FPut None 1000 0 None true); SF (FCommit 1); SW 0; SW 0; SF (FPut None 2000 0 None true); SF (FCommit 1); SW 0; SW 0] in
  e_queue (fst x) = [0; 1] /\ map (state_of (fst x)) [0; 1] = [0; 0] /\ w_nproc (snd x) = 0 /\ w_pc (snd x) = WStopped /\ e_plog (fst x) = [].
Proof. vm_compute. repeat split. Qed.
Example C41_stop_mid_iteration_nonvacuous :
  let pre := [SF (FPut None 1000 0 None true); SF (FPut None 2000 0 None true); SF (FCommit 1); SW 0] in
  let post := [SW 0; SF (FPut None 3000 0 None true); SF (FCommit 1); SW 0; SF FStop; SW 1; SW 0; SW 0] in
  w_pc (snd (run_pre 1 false pre)) = WHasTask 0 /\
  let y := run_pre 1 false (pre ++ SF FStop :: post) in
  w_pc (snd y) = WStopped /\ w_nproc (snd y) = 1 /\ e_queue (fst y) = [1; 2] /\ map (state_of (fst y)) [0; 1; 2] = [1; 0; 0].
Proof. vm_compute. repeat split. Qed.

(* ============ (7) the queue drains: c = 4 ============ *)
(* from ANY state with the worker running and not asked to stop, with k tasks queued and the
   foreground silent, 4k+3 worker steps (4 per task: get, process, complete, checkpoint; 3 for the
   iteration it may be in the middle of) empty the queue and leave the worker idle *)
Theorem C41_queue_drains_in_4k_plus_3_steps :
  forall (iv : N) (x : est * wst) (n : nat),
    e_stop (fst x) = false -> w_pc (snd x) <> WStopped ->
    (4 * length (e_queue (fst x)) + 3 <= n)%nat ->
    e_queue (fst (wsteps iv n x)) = [] /\ w_pc (snd (wsteps iv n x)) = WTop.
Proof. exact queue_drains. Qed.
Print Assumptions C41_queue_drains_in_4k_plus_3_steps.

(* ... and if the foreground went silent after a commit (nothing pending), every queued task whose
   frame is committed and Active, and which the worker has not already processed, ends Enriched *)
Theorem C41_quiet_foreground_every_live_task_enriched :
  forall (iv : N) (x : est * wst) (n : nat) (t : N),
    e_stop (fst x) = false -> w_pc (snd x) <> WStopped -> pending (e_st (fst x)) = [] ->
    In t (e_queue (fst x)) -> frame_found (e_st (fst x)) t = true -> w_pc (snd x) <> WProcessed t ->
    (4 * length (e_queue (fst x)) + 3 <= n)%nat ->
    state_of (fst (wsteps iv n x)) t = 1 /\ e_queue (fst (wsteps iv n x)) = [].
Proof. exact drain_enriches. Qed.
Print Assumptions C41_quiet_foreground_every_live_task_enriched.

(* ============ non-vacuity ============ *)
(* a schedule with a chunked document, queued and unqueued puts, an update, a delete, worker steps
   spread between them with checkpoint_interval 2, a stop and the final steps: the side condition
   of (1) holds, both known classes are avoided, queued frames 0 and 4 end Enriched, frame 1 (not
   queued) never changed, the deleted queued frame 5 is accounted for as `gone`, the worker
   processed 3 tasks with 1 error and stopped. *)
Definition demo : list sitem :=
  [SF (FPut (Some 1) 1000 0 None true); SF (FPut None 2000 2 None false); SF (FCommit 1); SW 0; SF FSearch; SW 0;
   SF (FPut (Some 2) 3000 0 None true); SF (FPut (Some 3) 4000 0 None true); SW 0; SF (FCommit 1); SF (FDelete 5 None); SF (FCommit 1);
   SW 0; SW 0; SW 0; SF (FUpdate 1 (Some 5000) None None); SW 1; SW 0; SW 0; SW 0; SF FStop; SW 0; SW 0; SW 0; SW 0; SF (FCommit 1)].

Example C41_nonvacuous :
  let x := run 2 demo in
  run_ok [] (e_hist (fst x)) = true /\ known_early 2 demo = false /\ known_overlap 2 demo = false /\
  e_queued (fst x) = [0; 4; 5] /\ e_queue (fst x) = [] /\ e_gone (fst x) = [5] /\
  map (state_of (fst x)) [0; 1; 2; 3; 4; 5; 6] = [1; 1; 1; 1; 1; 0; 1] /\
  map (fun f => (f_id f, f_status f, f_tag f)) (view (e_st (fst x))) =
    [(0, 0, 1000); (1, 1, 2000); (2, 0, 2001); (3, 0, 2002); (4, 0, 3000); (5, 2, 4000); (6, 0, 5000)] /\
  e_plog (fst x) = [0; 4; 5] /\ w_nproc (snd x) = 3 /\ w_nerr (snd x) = 1 /\ w_pc (snd x) = WStopped.
Proof. vm_compute. repeat split. Qed.

(* the hypotheses of (6) and (7) are met by reachable states *)
Example C41_stop_hypotheses_satisfiable :
  let x := run 2 [SF (FPut None 1000 0 None true); SF (FCommit 1); SW 0; SF FStop] in
  e_stop (fst x) = true /\ w_pc (snd x) = WHasTask 0 /\
  w_pc (snd (run_from 2 x [SW 0; SF (FPut None 2000 0 None true); SW 0; SW 0; SW 0])) = WStopped /\
  w_nproc (snd (run_from 2 x [SW 0; SF (FPut None 2000 0 None true); SW 0; SW 0; SW 0])) = 1.
Proof. vm_compute. repeat split. Qed.

Example C41_drain_hypotheses_satisfiable :
  let x := run 100 [SF (FPut None 1000 0 None true); SF (FPut None 2000 0 None true); SF (FCommit 1); SW 0] in
  e_stop (fst x) = false /\ w_pc (snd x) = WHasTask 0 /\ pending (e_st (fst x)) = [] /\ e_queue (fst x) = [0; 1] /\
  frame_found (e_st (fst x)) 1 = true /\
  map (state_of (fst (wsteps 100 11 x))) [0; 1] = [1; 1] /\ e_queue (fst (wsteps 100 11 x)) = [].
Proof. vm_compute. repeat split. Qed.

(* the witness of F-C41-1, step by step: the error is counted, the task is gone, the frame stays Searchable *)
Example C41_early_witness_trace :
  let x := run 100 early_witness in
  e_early (fst x) = [0] /\ w_nproc (snd x) = 1 /\ w_nerr (snd x) = 1 /\ state_of (fst x) 0 = 0 /\
  known_early 100 early_witness = true /\ known_overlap 100 overlap_witness = true /\
  w_nproc (snd (run 100 overlap_witness)) = 1.
Proof. vm_compute. repeat split. Qed.
