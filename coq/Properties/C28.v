(* C28 Persisted indexes answer exactly like the in-memory ones.
   Model: Model/Persist.v (file image of the Tantivy documents / vector index / time index / sketch
   track; Memvid::open, open_read_only, doctor build the handle from the image only; instant_index's
   temporary documents) on top of Model/Reads.v (C08: which in-memory set each commit path updates)
   and Model/Store.v (frame table).  Vector index and time index also on their own models:
   Model/VecStore.v (C14), Model/Timeline.v (C15).  Proofs: Proofs/PersistProofs.v, PersistImports.v. *)
From MV Require Import Base.Prelude Model.Store Model.Reads Proofs.ReadsProofs Model.Persist Proofs.PersistProofs Proofs.PersistImports.
Local Open Scope N_scope.

(* 1. For EVERY history (puts plain / chunked / embedded / instant-indexed, updates, deletes, commits,
   reopen, crash + replay, every timing of automatic checkpoints) that ends fully committed: the
   handle reopened read-write, the read-only handle and the handle opened after
   doctor{rebuild_lex_index, rebuild_time_index, rebuild_vec_index} (any subset) hold the frame table,
   the Tantivy documents, the vector index and the time index of the live handle; vector search is
   enabled exactly when it is on the live handle -- except that rebuild_vec_index leaves it enabled
   (with the same, possibly empty, index); their sketch track is the live one written and read back. *)
Theorem C28_reopened_handles_hold_the_live_indexes :
  forall ops extra lexf timef vecf,
    let p := fst (prun pstore0 ops) in
    Quiet p ->
    same_idx (handle_rw p extra) (handle_live p) /\
    same_idx (handle_ro p) (handle_live p) /\
    (let h := handle_doctor p lexf timef vecf in
     v_frames h = v_frames (handle_live p) /\ v_lex h = v_lex (handle_live p) /\ v_vec h = v_vec (handle_live p) /\
     v_tix h = v_tix (handle_live p) /\ v_vec_on h = vecf || v_vec_on (handle_live p)) /\
    ((vecf = true -> v_vec_on (handle_live p) = true) -> same_idx (handle_doctor p lexf timef vecf) (handle_live p)) /\
    v_sk (handle_rw p extra) = sk_read (sk_written (sk p)) /\
    v_sk (handle_ro p) = sk_read (sk_written (sk p)) /\
    v_sk (handle_doctor p lexf timef vecf) = sk_read (sk_written (sk p)).
Proof.
  intros ops extra lexf timef vecf p HQ. pose proof (prun_inv ops) as HP. fold p in HP.
  destruct (reopen_same p extra HP HQ) as [A1 A2]. destruct (readonly_same p HP HQ) as [B1 B2].
  destruct (doctor_sets p lexf timef vecf HP HQ) as (C1 & C2 & C3 & C4 & C5 & C6).
  split; [exact A1|]. split; [exact B1|]. split; [cbv zeta; tauto|]. split; [|tauto].
  intros Hv. apply (doctor_same p lexf timef vecf HP HQ Hv).
Qed.
Print Assumptions C28_reopened_handles_hold_the_live_indexes.

(* 2. Hence equal answers.  The engines are oracles that answer from what the handle holds (Tantivy's
   search over the engine's documents with the optional frame filter, the per-hit post-evaluation,
   the sketch test of one entry, the vector ranking): search, vector search and timeline return the
   same lists on all four handles -- outside the class of F-C39-1 (pre-filter used and sketch ids
   not 0,1,2,..).  doctor may rebuild any subset of lex / time / vec; when it rebuilds the vector
   index of a memory that has none, lexical search and timeline still agree and vector search answers
   the empty list instead of VecNotEnabled (last clause). *)
Theorem C28_same_answers_outside_known :
  forall (query : Type) (engine_search : list N -> option (list N) -> query -> list N)
         (post_hit : frame -> query -> bool) (sk_pass : N -> query -> bool) (has_text : query -> bool)
         (vec_rank : list (N * N) -> query -> nat -> list N)
         ops extra lexf timef vecf no_sketch,
    let p := fst (prun pstore0 ops) in
    Quiet p -> known_class p no_sketch = false ->
    (forall h, h = handle_rw p extra \/ h = handle_ro p \/
               (h = handle_doctor p lexf timef vecf /\ (vecf = true -> v_vec_on (handle_live p) = true)) ->
      (forall q, psearch query engine_search post_hit sk_pass has_text h no_sketch q =
                 psearch query engine_search post_hit sk_pass has_text (handle_live p) no_sketch q) /\
      (forall q n, pvec query vec_rank h q n = pvec query vec_rank (handle_live p) q n) /\
      (forall keep rev lim, ptimeline h keep rev lim = ptimeline (handle_live p) keep rev lim)) /\
    (let h := handle_doctor p lexf timef true in
     (forall q, psearch query engine_search post_hit sk_pass has_text h no_sketch q =
                psearch query engine_search post_hit sk_pass has_text (handle_live p) no_sketch q) /\
     (forall keep rev lim, ptimeline h keep rev lim = ptimeline (handle_live p) keep rev lim) /\
     (forall q n, pvec query vec_rank h q n = Some (vec_rank (v_vec (handle_live p)) q n))).
Proof.
  intros query es ph sp ht vr ops extra lexf timef vecf ns p HQ HK.
  assert (HS : ns = true \/ sk_read (sk_written (sk p)) = sk p).
  { unfold known_class in HK. destruct ns; [left; reflexivity|right]. cbn [negb andb] in HK.
    apply sk_roundtrip_iff. destruct (sk_dense (sk p)); [reflexivity|discriminate]. }
  split.
  - intros h Hh.
    destruct (C28_reopened_handles_hold_the_live_indexes ops extra lexf timef vecf HQ) as (A & B & _ & C & A' & B' & C').
    fold p in A, B, C, A', B', C'.
    apply answers_equal.
    + destruct Hh as [->|[->|[-> Hv]]]; [assumption|assumption|apply C; exact Hv].
    + destruct HS as [HS|HS]; [left; exact HS|right].
      destruct Hh as [->|[->|[-> Hv]]]; cbn [handle_live view_of v_sk]; congruence.
  - destruct (C28_reopened_handles_hold_the_live_indexes ops extra lexf timef true HQ) as (_ & _ & (D1 & D2 & D3 & D4 & D5) & _ & _ & _ & D6).
    fold p in D1, D2, D3, D4, D5, D6. cbv zeta.
    split; [|split].
    + intros q. unfold psearch. rewrite D1, D2.
      destruct HS as [HS|HS]; [rewrite HS; cbn [negb]; rewrite !andb_false_r; reflexivity|].
      rewrite D6, HS. reflexivity.
    + intros keep rev lim. unfold ptimeline. rewrite D1, D4. reflexivity.
    + intros q n. unfold pvec. rewrite D5, D3. reflexivity.
Qed.
Print Assumptions C28_same_answers_outside_known.

(* 3. The property as stated is REFUTED inside that class (finding F-C39-1 seen from Memvid::search):
   a frame without index text (no sketch entry) followed by a text frame gives the sketch track
   [(1,1)]; the file stores no ids, the reopened handle holds [(0,1)]; with the pre-filter on, the
   live handle offers candidate 1 (the hit), the reopened one candidate 0 (no hit). *)
Definition c28_witness : list pop :=
  [PMut (RPut None 1000 0 None empty_fields false None false) [false];
   PMut (RPut None 2000 0 None empty_fields true None false) [true];
   PCommit 1].
Definition filter_engine (lx : list N) (filt : option (list N)) (_ : unit) : list N :=
  match filt with Some l => filter (fun i => mem i l) lx | None => lx end.

Theorem C28_prefilter_after_reopen_refuted :
  exists ops (engine_search : list N -> option (list N) -> unit -> list N),
    let p := fst (prun pstore0 ops) in
    (forall lx f q i, In i (engine_search lx f q) -> In i lx) /\
    Quiet p /\ known_class p false = true /\
    psearch unit engine_search (fun _ _ => true) (fun _ _ => true) (fun _ => true) (handle_live p) false tt = [1] /\
    psearch unit engine_search (fun _ _ => true) (fun _ _ => true) (fun _ => true) (handle_rw p 0) false tt = [] /\
    psearch unit engine_search (fun _ _ => true) (fun _ _ => true) (fun _ => true) (handle_ro p) false tt = [].
Proof.
  exists c28_witness, filter_engine. cbv zeta. split.
  - intros lx f q i. unfold filter_engine. destruct f; [|auto]. intros H. apply filter_In in H. tauto.
  - vm_compute. repeat split; reflexivity.
Qed.
Print Assumptions C28_prefilter_after_reopen_refuted.

(* the class is exact for the track: it survives write + read iff its ids are 0,1,2,.. *)
Theorem C28_sketch_track_survives_iff_dense :
  forall t, sk_read (sk_written t) = t <-> sk_dense t = true.
Proof. exact sk_roundtrip_iff. Qed.
Print Assumptions C28_sketch_track_survives_iff_dense.

(* doctor{rebuild_vec_index} (code since 83a83e8): the doctored handle holds the live vector index and
   vector search is enabled on it *)
Theorem C28_doctor_vec_rebuild_keeps_the_index :
  forall ops lexf timef,
    let p := fst (prun pstore0 ops) in
    Quiet p ->
    v_vec (handle_doctor p lexf timef true) = v_vec (handle_live p) /\
    v_vec_on (handle_doctor p lexf timef true) = true.
Proof.
  intros ops lexf timef p HQ. destruct (doctor_sets p lexf timef true (prun_inv ops) HQ) as (_ & _ & H3 & _ & H5 & _).
  split; [exact H3|exact H5].
Qed.
Print Assumptions C28_doctor_vec_rebuild_keeps_the_index.

(* historical: the code before 83a83e8 (finding F-C14-1, now fixed) dropped the index before the
   rebuild, so the doctored image held no vectors *)
Lemma C28_doctor_vec_rebuild_emptied_unfixed :
  forall d frames al lexf timef, k_vec (doctor_unfixed d frames al lexf timef true) = [].
Proof. exact doctor_unfixed_vec_empties. Qed.
Print Assumptions C28_doctor_vec_rebuild_emptied_unfixed.

(* 4. Searches between a put and its commit.  In EVERY state of every history (also with pending
   records and temporary documents of instant-indexed puts in the engine), whatever the engine
   returns: every hit is a frame of the committed table on whose own search text the query
   evaluates to true (the post-evaluation of try_tantivy_search), and it is never the temporary
   document of a pending put -- those carry next_frame_id(), which is not in the table yet, and are
   skipped as stale.  So a search before the commit never returns a frame that does not contain the
   query (and does not return the pending document at all). *)
Theorem C28_search_before_commit :
  forall (query : Type) (engine_search : list N -> option (list N) -> query -> list N)
         (post_hit : frame -> query -> bool) (sk_pass : N -> query -> bool) (has_text : query -> bool)
         ops no_sketch q i,
    let p := fst (prun pstore0 ops) in
    In i (psearch query engine_search post_hit sk_pass has_text (handle_live p) no_sketch q) ->
    (exists f, get (committed (base (live p))) i = Some f /\ post_hit f q = true) /\ ~ In i (temps p).
Proof.
  intros query es ph sp ht ops ns q i p Hi.
  destruct (psearch_hits_evaluated query es ph sp ht _ _ _ _ Hi) as (f & Hf & Hp). split; [exists f; split; assumption|].
  intros Ht. pose proof (temps_unresolved p i (prun_inv ops) Ht) as Hn.
  cbn [handle_live view_of v_frames] in Hf. congruence.
Qed.
Print Assumptions C28_search_before_commit.

(* 5. The explicit-reload machine IS the machine of C08 (which keeps the sets in memory across a
   reopen): same states, same outputs, for every history -- so C08's theorems (index members are
   Active committed frames, ...) hold for handles built from the file. *)
Theorem C28_reload_machine_is_C08s :
  forall ops,
    live (fst (prun pstore0 ops)) = fst (rrun rstore0 (map rop_of ops)) /\
    map snd (snd (prun pstore0 ops)) = map snd (snd (rrun rstore0 (map rop_of ops))) /\
    IxInv (live (fst (prun pstore0 ops))).
Proof.
  intros ops. destruct (prun_refines ops pstore0 PInv0) as (H1 & H2 & H3 & _).
  split; [exact H2|]. split; [exact H3|]. apply H1.
Qed.
Print Assumptions C28_reload_machine_is_C08s.

(* 6. The same on the models of C14 and C15 *)
Theorem C28_vector_index_reload_C14 :
  forall ops,
    let r := VecStore.vrun VecStore.vstate0 ops in
    let v := snd (fst r) in
    let xs := combine ops (snd r) in
    VecProofs.vrun_ok [] xs = true ->
    VecStore.mem_index (VecStore.load v) = VecStore.mem_index v /\
    (VecStore.vdisk v = VecStore.vmem v -> VecStore.observe_vec (VecStore.load v) = VecStore.observe_vec v).
Proof. exact vec_reload_C14. Qed.
Print Assumptions C28_vector_index_reload_C14.

Theorem C28_timeline_reload_C15 :
  forall engines ops force q,
    let s := Timeline.trun engines ops in
    Timeline.ts_pending s = [] ->
    let s1 := Timeline.tstep engines s Timeline.TReopen in
    let s2 := Timeline.tstep engines s (Timeline.TDoctor force) in
    Timeline.ts_frames s1 = Timeline.ts_frames s /\ Timeline.ts_frames s2 = Timeline.ts_frames s /\
    Timeline.build_timeline_fixed (Timeline.ts_frames s1) (Timeline.ts_index s1) q =
      Timeline.build_timeline_fixed (Timeline.ts_frames s) (Timeline.ts_index s) q /\
    Timeline.build_timeline_fixed (Timeline.ts_frames s2) (Timeline.ts_index s2) q =
      Timeline.build_timeline_fixed (Timeline.ts_frames s) (Timeline.ts_index s) q.
Proof. exact timeline_reload_C15. Qed.
Print Assumptions C28_timeline_reload_C15.

(* ---------- non-vacuity ---------- *)
(* a history with a chunked embedded document, an instant-indexed put, an update, a delete, a crash
   with replay, a reopen, ending committed: Quiet holds, the sets are non-trivial, the sketch ids are
   dense (outside the known class with the pre-filter on) *)
Definition demo28 : list pop :=
  [PMut (RPut (Some 1) 1000 2 None empty_fields true (Some 11) false) [true; true; true];
   PMut (RPut None 2000 0 None empty_fields true (Some 12) true) [true];
   PCommit 1;
   PMut (RPut None 3000 0 None empty_fields true None true) [true];
   PCrash 1;
   PMut (RUpdate 3 None None empty_fields true None false) [true];
   PMut (RDelete 4 None) [];
   PReopen 1;
   PMut (RPut None 4000 0 (Some 1) empty_fields true (Some 13) false) [true];
   PCommit 0].

Example C28_nonvacuous :
  let p := fst (prun pstore0 demo28) in
  Quiet p /\ known_class p false = false /\
  v_lex (handle_live p) = [0; 1; 2; 5; 6] /\ map fst (v_vec (handle_live p)) = [0; 5; 6] /\ v_tix (handle_live p) = [0; 5; 6] /\
  map fst (sk p) = [0; 1; 2; 3; 4; 5; 6] /\
  v_lex (handle_ro p) = [0; 1; 2; 5; 6] /\ v_lex (handle_doctor p true true false) = [0; 1; 2; 5; 6] /\
  map fst (v_vec (handle_doctor p false false true)) = [0; 5; 6] /\ v_vec_on (handle_live p) = true /\
  v_lex (handle_rw p 0) = [0; 1; 2; 5; 6].
Proof. vm_compute. repeat split; reflexivity. Qed.

(* a state between an instant-indexed put and its commit: the engine holds the temporary document 4
   (= next_frame_id), the table has 4 frames *)
Example C28_pending_state_nonvacuous :
  let p := fst (prun pstore0 (firstn 4 demo28)) in
  temps p = [4] /\ len (committed (base (live p))) = 4 /\ v_lex (handle_live p) = [0; 1; 2; 3; 4] /\
  psearch unit filter_engine (fun _ _ => true) (fun _ _ => true) (fun _ => true) (handle_live p) true tt = [0; 1; 2; 3].
Proof. vm_compute. repeat split; reflexivity. Qed.

(* the witness of the refutation is inside the class, its sketch ids are [1] *)
Example C28_witness_in_class :
  let p := fst (prun pstore0 c28_witness) in
  sk p = [(1, 1)] /\ v_sk (handle_rw p 0) = [(0, 1)] /\ known_class p false = true /\ known_class p true = false.
Proof. vm_compute. repeat split; reflexivity. Qed.
