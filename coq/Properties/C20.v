(* C20 Corruption is detected, never served silently.
   Statements only; proofs live in Proofs/DetectProofs.v.  H = BLAKE3, unzstd = zstd::decode_all,
   lex_ok / vec_ok = "the lexical / vector index image decodes" are arbitrary functions.

   The property as stated is REFUTED by the faithful model: several region classes of a committed,
   closed file are read and used but compared with nothing (known_class below).  What is proved:
   - for the classes guarded by a hash (TOC bytes + commit footer on the read_toc path, memory-card /
     mesh tracks, frame payloads): every change is detected, given collision-freeness on the two byte strings involved;
   - frame payloads (plain and zstd): guarded by frame.checksum since /repo 55d5bb8 -- every change of the
     stored bytes is an error on read, and verify(deep) = Passed implies every active payload reads as
     committed (the theorems about the code before the fix are kept under `_unchecked_` names);
   - for the remaining unguarded classes: `_refuted` witnesses;
   - the detection table (Model/Detect.v `table`) predicts a silent difference in no class outside
     known_class (`_outside_known`);
   Partial: Tantivy / vector-index / sketch decoders and serde's behaviour on damaged input are observed
   by the correspondence run, not modelled. *)
From MV Require Import Base.Prelude Model.Footer Model.TimeIndex Model.Wal Model.Bincode Model.Toc Model.Detect Proofs.DetectProofs.
Local Open Scope N_scope.

(* ---------------------------------------------------------------- hash-guarded classes *)

(* (1) a content/digest pair checked by `H content == digest`: a fault that touches only one of the
       two fields (every single-byte flip; zeroing or truncation inside one field) and passes the
       check changed nothing. *)
Theorem C20_hash_guard_single_field :
  forall (H : bytes -> bytes) c d c' d',
    guard_check H c d = true -> guard_check H c' d' = true ->
    (c' = c \/ d' = d) -> (H c' = H c -> c' = c) -> c' = c /\ d' = d.
Proof. exact hash_guard_single_field. Qed.
Print Assumptions C20_hash_guard_single_field.

(* (1') any fault on both fields, if the damaged digest field is not the digest of the damaged content *)
Theorem C20_hash_guard_general :
  forall (H : bytes -> bytes) c d c' d',
    guard_check H c d = true -> guard_check H c' d' = true ->
    (H c' = H c -> c' = c) -> (d' <> d -> H c' <> d') -> c' = c /\ d' = d.
Proof. exact hash_guard_general. Qed.
Print Assumptions C20_hash_guard_general.

(* (2) TOC bytes and commit footer (classes toc, footer-magic, footer-toc-len, footer-toc-hash) on the
       read_toc path: the clean file is pre ++ toc ++ footer(f) with f.toc_hash = H toc; in a faulted file
       of the same layout where the TOC bytes or the footer (not both) changed, read_toc answers Ok only
       with the original TOC bytes, and then the TOC bytes are unchanged. *)
Theorem C20_toc_footer_hash_detects :
  forall (H : bytes -> bytes) pre' toc toc' f foot' off t,
    (toc_len f < 2 ^ 64) -> (generation f < 2 ^ 64) -> length (toc_hash f) = 32%nat ->
    toc_hash f = H toc ->
    N.of_nat (length pre') = off -> length foot' = FOOTER_SIZE ->
    (toc' = toc \/ foot' = footer_encode f) ->
    (H toc' = H toc -> toc' = toc) ->
    read_toc H (pre' ++ toc' ++ foot') off = Ok t ->
    t = toc /\ toc' = toc.
Proof. exact read_toc_detects. Qed.
Print Assumptions C20_toc_footer_hash_detects.

Theorem C20_toc_footer_hash_detects_general :
  forall (H : bytes -> bytes) pre' toc toc' f foot' off t,
    toc_hash f = H toc ->
    N.of_nat (length pre') = off -> length foot' = FOOTER_SIZE ->
    (H toc' = H toc -> toc' = toc) ->
    (forall f', footer_decode foot' = Some f' -> toc_hash f' <> toc_hash f -> H toc' <> toc_hash f') ->
    read_toc H (pre' ++ toc' ++ foot') off = Ok t -> t = toc.
Proof. exact read_toc_detects_general. Qed.
Print Assumptions C20_toc_footer_hash_detects_general.

(* (3) memory-card and mesh tracks: loaded only if BLAKE3 of the bytes equals the manifest checksum *)
Theorem C20_track_checksum_detects :
  forall (H : bytes -> bytes) file file' off len sum b b',
    load_track H file off len sum = Ok b -> load_track H file' off len sum = Ok b' ->
    (H b' = H b -> b' = b) -> b' = b.
Proof. exact load_track_detects. Qed.
Print Assumptions C20_track_checksum_detects.

(* ---------------------------------------------------------------- frame payloads (classes payload-plain,
   payload-zstd, payload-inactive): guarded by frame.checksum since 55d5bb8 *)

(* (4) THE property for payloads: the stored bytes of a frame that read without error on the clean and on
       the faulted file are equal (for zstd frames too: the stored, compressed bytes are what is hashed),
       and then the canonical payload served is the committed one. *)
Theorem C20_payload_read_detects :
  forall (H : bytes -> bytes) ctx file file' fr raw raw',
    read_frame_payload_bytes H ctx file fr = Ok raw ->
    read_frame_payload_bytes H ctx file' fr = Ok raw' ->
    (H raw' = H raw -> raw' = raw) -> raw' = raw.
Proof. exact payload_read_detects. Qed.
Print Assumptions C20_payload_read_detects.

Theorem C20_payload_detects :
  forall (H : bytes -> bytes) (unzstd : bytes -> option bytes) ctx file file' fr raw raw' d',
    read_frame_payload_bytes H ctx file fr = Ok raw ->
    read_frame_payload_bytes H ctx file' fr = Ok raw' ->
    (H raw' = H raw -> raw' = raw) ->
    frame_canonical_bytes H unzstd ctx file' fr = Ok d' ->
    frame_canonical_bytes H unzstd ctx file fr = Ok d'.
Proof. exact payload_detects. Qed.
Print Assumptions C20_payload_detects.

(* (4') a changed stored payload is answered with an error, never with data *)
Theorem C20_payload_change_is_error :
  forall (H : bytes -> bytes) (unzstd : bytes -> option bytes) ctx file file' fr raw,
    read_frame_payload_bytes H ctx file fr = Ok raw ->
    slice file' (N.to_nat (f_off fr)) (N.to_nat (f_len fr)) <> raw ->
    (H (slice file' (N.to_nat (f_off fr)) (N.to_nat (f_len fr))) = H raw ->
     slice file' (N.to_nat (f_off fr)) (N.to_nat (f_len fr)) = raw) ->
    forall d, frame_canonical_bytes H unzstd ctx file' fr <> Ok d.
Proof. exact payload_change_is_error. Qed.
Print Assumptions C20_payload_change_is_error.

(* (4'') the checked read has no memory: its answer depends only on the file length, the bytes in the frame's
        window and the frame's TOC entry -- never on which frames were read (and found clean) through the same
        handle before.  Two frames with the same checksum at different offsets are therefore hashed separately,
        and any two read schedules give every frame the same answer. *)
Theorem C20_read_depends_on_window :
  forall (H : bytes -> bytes) ctx (file file' : bytes) fr,
    length file' = length file ->
    slice file' (N.to_nat (f_off fr)) (N.to_nat (f_len fr)) = slice file (N.to_nat (f_off fr)) (N.to_nat (f_len fr)) ->
    read_frame_payload_bytes H ctx file' fr = read_frame_payload_bytes H ctx file fr.
Proof. exact read_depends_on_window. Qed.
Print Assumptions C20_read_depends_on_window.

Theorem C20_read_history_independent :
  forall (H : bytes -> bytes) ctx file h1 h2 fr,
    snd (handle_read H ctx file h1 fr) = snd (handle_read H ctx file h2 fr) /\
    snd (handle_read H ctx file h1 fr) = read_frame_payload_bytes H ctx file fr.
Proof. exact handle_read_history_independent. Qed.
Print Assumptions C20_read_history_independent.

Theorem C20_read_schedules_agree :
  forall (H : bytes -> bytes) ctx file hist1 hist2 s1 s2 i j fr,
    nth_error s1 i = Some fr -> nth_error s2 j = Some fr ->
    nth_error (run_reads H ctx file hist1 s1) i = nth_error (run_reads H ctx file hist2 s2) j.
Proof. exact run_reads_answer_of_frame. Qed.
Print Assumptions C20_read_schedules_agree.

(* (5) verify(deep) = Passed on a file implies that every ACTIVE frame with a non-empty payload reads there
       exactly as on the clean file (FramePayloadChecksums): "verify Passed but a payload read differs" is
       impossible for active frames. *)
Theorem C20_verify_detects :
  forall (H : bytes -> bytes) (unzstd : bytes -> option bytes) (lex_ok vec_ok : bytes -> bool) file file' l fr raw,
    verify_overall true (vstate_of H lex_ok vec_ok file' l) = Passed ->
    In fr (l_frame_list l) -> f_active fr = true -> f_len fr <> 0 ->
    read_frame_payload_bytes H (l_ctx l) file fr = Ok raw ->
    (forall x, H x = H raw -> x = raw) ->
    read_frame_payload_bytes H (l_ctx l) file' fr = Ok raw /\
    frame_canonical_bytes H unzstd (l_ctx l) file' fr = frame_canonical_bytes H unzstd (l_ctx l) file fr.
Proof. exact verify_detects. Qed.
Print Assumptions C20_verify_detects.

(* (5') what verify(deep) still cannot see: a change confined to a range outside the log region, the
       indexes and the payloads of the active frames (payload of a deleted / superseded frame, unreferenced
       bytes, log slack) gives verify the same input.  For an inactive frame's payload that is consistent
       with the property: a read of that frame goes through read_frame_payload_bytes and fails ((4')). *)
Theorem C20_verify_blind_outside_layout :
  forall (H : bytes -> bytes) (lex_ok vec_ok : bytes -> bool) (pre mid mid' post : bytes) l deep,
    length mid' = length mid ->
    layout_outside l (N.of_nat (length pre)) (N.of_nat (length pre + length mid)) = true ->
    verify_overall deep (vstate_of H lex_ok vec_ok (pre ++ mid' ++ post) l) =
    verify_overall deep (vstate_of H lex_ok vec_ok (pre ++ mid ++ post) l).
Proof. exact verify_blind. Qed.
Print Assumptions C20_verify_blind_outside_layout.

Theorem C20_verify_passed_iff :
  forall deep s, verify_overall deep s = Passed <-> forall c, In c (verify_checks deep s) -> c <> Failed.
Proof. exact verify_passed_iff. Qed.
Print Assumptions C20_verify_passed_iff.

(* (5'') the checked read serves nothing the code before 55d5bb8 would not have served *)
Theorem C20_checked_refines :
  forall (H : bytes -> bytes) (unzstd : bytes -> option bytes) ctx file fr d,
    frame_canonical_bytes H unzstd ctx file fr = Ok d -> frame_canonical_bytes_unchecked unzstd ctx file fr = Ok d.
Proof. exact checked_refines. Qed.
Print Assumptions C20_checked_refines.

(* ---- a concrete committed file: 48-byte log region (empty), one plain frame of 4 bytes, a time index
   with one entry (timestamp 100, frame 0).  toyH is a stand-in hash (the theorems hold for every H). *)
Definition toyH (x : bytes) : bytes := repeat (fold_left N.add x 0 mod 256) 32.
Definition no_zstd (_ : bytes) : option bytes := None.
Definition yes (_ : bytes) : bool := true.
Definition sample_file : bytes := repeat 0 48 ++ [255; 254; 7; 8] ++ track_image [(100%Z, 0)].
Definition sample_frame : frame := mkFrame 48 4 false (Some 4) (toyH [255; 254; 7; 8]) true.
Definition sample_ctx : N * N * N := (0, 48, 80).
Definition sample_layout : layout := mkLayout 0 48 0 (Some (52, 28, 1)) None None sample_ctx [sample_frame].
Definition verify_sample (file : bytes) := verify_overall true (vstate_of toyH yes yes file sample_layout).

(* (6) what 55d5bb8 closed (finding F-C20-1/2, fixed): before it, on ANY file of the same length the bytes
       found in a plain frame's range were returned, and verify(deep) had no payload check; on the sample
       file one changed payload byte was served with verify = Passed.  With the fix the same read is
       E_FR_SUM and verify(deep) is Failed. *)
Theorem C20_unchecked_payload_plain_served :
  forall (unzstd : bytes -> option bytes) ctx (file file' : bytes) fr,
    length file' = length file ->
    validate_frame_bounds ctx (N.of_nat (length file)) fr = Ok tt ->
    f_zstd fr = false -> (f_canon_len fr = Some (f_len fr) \/ f_canon_len fr = None) ->
    frame_canonical_bytes_unchecked unzstd ctx file' fr = Ok (slice file' (N.to_nat (f_off fr)) (N.to_nat (f_len fr))).
Proof. exact unchecked_plain_payload_served. Qed.
Print Assumptions C20_unchecked_payload_plain_served.

Theorem C20_unchecked_payload_refuted_now_detected :
  let file := sample_file in let file' := patch_at sample_file 49 [9] in
  (* before the fix *)
  frame_canonical_bytes_unchecked no_zstd sample_ctx file sample_frame = Ok [255; 254; 7; 8] /\
  frame_canonical_bytes_unchecked no_zstd sample_ctx file' sample_frame = Ok [255; 9; 7; 8] /\
  verify_overall_unchecked true (vstate_of toyH yes yes file' sample_layout) = Passed /\
  (* with the fix *)
  frame_canonical_bytes toyH no_zstd sample_ctx file sample_frame = Ok [255; 254; 7; 8] /\
  frame_canonical_bytes toyH no_zstd sample_ctx file' sample_frame = Err E_FR_SUM /\
  verify_sample file = Passed /\ verify_sample file' = Failed.
Proof. cbv zeta. repeat split; vm_compute; reflexivity. Qed.
Print Assumptions C20_unchecked_payload_refuted_now_detected.

(* (7) REFUTED, class time-index: the frame id of an entry changes; read_track's checks (magic, length,
       order) pass, the manifest checksum is never compared, verify(deep) = Passed. *)
Theorem C20_time_index_refuted :
  exists file file',
    length file' = length file /\
    read_track file 52 28 = Ok [(100%Z, 0)] /\ read_track file' 52 28 = Ok [(100%Z, 1)] /\
    verify_sample file = Passed /\ verify_sample file' = Passed.
Proof.
  exists sample_file, (patch_at sample_file 72 [1]). repeat split; vm_compute; reflexivity.
Qed.
Print Assumptions C20_time_index_refuted.

(* (8) REFUTED, class log-record-seq (and hdr-wal-sequence): the record digest covers the payload only.
       A committed record (sequence 1 = header.wal_sequence) whose sequence field becomes 5 still scans
       and is now pending: the next open replays it. *)
Definition sample_log : bytes := image toyH 1 [10; 20; 30] ++ repeat 0 48.
Theorem C20_log_sequence_refuted :
  exists region region',
    length region' = length region /\
    pending_of toyH region 99 1 = Ok [] /\
    pending_of toyH region' 99 1 = Ok [mkRec 5 [10; 20; 30]] /\
    pending_of toyH region 99 0 = Ok [mkRec 1 [10; 20; 30]].      (* same effect: header.wal_sequence 1 -> 0 *)
Proof. exists sample_log, (patch_at sample_log 0 [5]). repeat split; vm_compute; reflexivity. Qed.
Print Assumptions C20_log_sequence_refuted.

(* (8') the other bytes of a record: payload, length and digest changes stop the scan (Example, toy hash) *)
Example C20_log_payload_example :
  pending_of toyH (patch_at sample_log 49 [21]) 99 0 = Err 5 /\
  pending_of toyH (patch_at sample_log 20 [1]) 99 0 = Err 5 /\
  pending_of toyH (patch_at sample_log 8 [2]) 99 0 = Err 5.
Proof. repeat split; vm_compute; reflexivity. Qed.

(* (9) REFUTED, class toc on the recovery path: when read_toc rejects the TOC, recover_toc's hinted branch
       decodes the bytes without any hash; the deferred Toc::verify_checksum at the end of open_locked is
       the only check left, and it is applied to memvid.toc AFTER recover_wal may have re-stamped it
       (flush of a rebuilt lexical index).  With a re-stamp the final check accepts every TOC;
       without, it is exactly verify_checksum of the decoded TOC. *)
Theorem C20_toc_final_check_defeated_by_restamp :
  forall (H : bytes -> bytes) t l2, length l2 = 16%nat -> open_final_check H t (Some (VList l2)) = true.
Proof. exact final_check_defeated. Qed.
Print Assumptions C20_toc_final_check_defeated_by_restamp.

Theorem C20_toc_final_check_without_restamp :
  forall (H : bytes -> bytes) t, open_final_check H t None = verify_checksum H t.
Proof. exact final_check_no_restamp. Qed.
Print Assumptions C20_toc_final_check_without_restamp.

(* ---------------------------------------------------------------- the table *)

(* (10) outside the known classes the table predicts no observation in which a read returned different data *)
Theorem C20_table_outside_known :
  forall c k o, known_class c = false -> In o (table c k) -> silent o = false.
Proof. exact table_outside_known. Qed.
Print Assumptions C20_table_outside_known.

(* (10') every known class does contain such an observation (the classes are not padded) *)
Theorem C20_table_known_refuted :
  forall c, known_class c = true -> exists o, In o (table c Flip) /\ silent o = true.
Proof. exact table_known_silent. Qed.
Print Assumptions C20_table_known_refuted.

Theorem C20_table_not_read :
  forall c, guard_of c = GNotRead -> table c Flip = [S3] /\ table c Zero = [S3].
Proof. exact table_not_read. Qed.
Print Assumptions C20_table_not_read.

Theorem C20_table_truncation_detected :
  forall c o, c <> PastFooter -> In o (table c Trunc) -> snd (fst o) = VError.
Proof. exact table_trunc_ro_error. Qed.
Print Assumptions C20_table_truncation_detected.

(* (10'') a changed payload of an active frame: the only predicted observation is "reads fail, verify Failed" *)
Theorem C20_table_active_payload_detected :
  forall c k o, (c = PayPlain \/ c = PayZstd) -> (k = Flip \/ k = Zero) -> In o (table c k) -> o = (VError, VError, 1).
Proof. exact table_active_payload_detected. Qed.
Print Assumptions C20_table_active_payload_detected.

(* (10c) REFUTED at the table level, class payload-chunk (known): the stored bytes of a chunk are guarded as
   in (4)-(5) and verify(deep) is never Passed, but search's resolve_chunk_context does
   `if let Ok(payloads) = self.document_chunk_payloads(&parent)` and on the checksum error falls back to
   frame.search_text: hits on that document's chunks carry a different text / range, without an error. *)
Theorem C20_table_chunk_payload_verify_fails :
  forall k o, (k = Flip \/ k = Zero) -> In o (table PayChunk k) -> snd o = 1%N.
Proof. exact table_chunk_payload_verify_fails. Qed.
Print Assumptions C20_table_chunk_payload_verify_fails.

(* ---------------------------------------------------------------- non-vacuity *)
Definition s_toc : bytes := [1; 2; 3; 4; 5].
Definition s_footer : footer := mkFooter 5 (toyH s_toc) 7.
Definition s_pre : bytes := repeat 9 20.
Definition s_file : bytes := s_pre ++ s_toc ++ footer_encode s_footer.

(* the clean file passes read_toc; a flipped TOC byte, a flipped hash byte and a flipped length byte do not;
   the frame read accepts the clean sample file; an inactive frame's changed payload fails on read but is
   outside verify's loop (verify Passed, by (5') with the payload range outside the layout) *)
(* two copies of one payload (same checksum) at offsets 48 and 52; the second copy is damaged: it is rejected
   whether or not the clean first copy was read before it *)
Definition dup_file : bytes := repeat 0 48 ++ [255; 254; 7; 8] ++ [255; 254; 7; 9].
Definition dup_a : frame := mkFrame 48 4 false (Some 4) (toyH [255; 254; 7; 8]) true.
Definition dup_b : frame := mkFrame 52 4 false (Some 4) (toyH [255; 254; 7; 8]) true.
Example C20_duplicate_nonvacuous :
  run_reads toyH (0, 48, 56) dup_file [] [dup_a; dup_b; dup_b; dup_a] = [Ok [255; 254; 7; 8]; Err E_FR_SUM; Err E_FR_SUM; Ok [255; 254; 7; 8]] /\
  run_reads toyH (0, 48, 56) dup_file [] [dup_b; dup_a] = [Err E_FR_SUM; Ok [255; 254; 7; 8]] /\
  verify_overall true (vstate_of toyH yes yes dup_file (mkLayout 0 48 0 None None None (0, 48, 56) [dup_a; dup_b])) = Failed.
Proof. repeat split; vm_compute; reflexivity. Qed.

Definition inactive_frame : frame := mkFrame 48 4 false (Some 4) (toyH [255; 254; 7; 8]) false.
Definition inactive_layout : layout := mkLayout 0 48 0 (Some (52, 28, 1)) None None sample_ctx [inactive_frame].
Example C20_nonvacuous :
  read_toc toyH s_file 20 = Ok s_toc /\
  read_toc toyH (patch_at s_file 21 [3]) 20 = Err E_TOC_HASH /\
  read_toc toyH (patch_at s_file 42 [0]) 20 = Err E_TOC_HASH /\
  read_toc toyH (patch_at s_file 33 [6]) 20 = Err E_TOC_LEN /\
  load_track toyH s_file 20 5 (toyH s_toc) = Ok s_toc /\
  load_track toyH (patch_at s_file 21 [3]) 20 5 (toyH s_toc) = Err E_TRACK_SUM /\
  read_frame_payload_bytes toyH sample_ctx sample_file sample_frame = Ok [255; 254; 7; 8] /\
  layout_outside sample_layout 48 52 = false /\
  layout_outside inactive_layout 48 52 = true /\
  frame_canonical_bytes toyH no_zstd sample_ctx (patch_at sample_file 49 [9]) inactive_frame = Err E_FR_SUM /\
  verify_overall true (vstate_of toyH yes yes (patch_at sample_file 49 [9]) inactive_layout) = Passed.
Proof. repeat split; vm_compute; reflexivity. Qed.
