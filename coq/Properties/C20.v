(* C20 Corruption is detected, never served silently.
   Statements only; proofs live in Proofs/DetectProofs.v.  H = BLAKE3, unzstd = zstd::decode_all,
   lex_ok / vec_ok = "the lexical / vector index image decodes" are arbitrary functions.

   The property as stated is REFUTED by the faithful model: several region classes of a committed,
   closed file are read and used but compared with nothing (known_class below).  What is proved:
   - for the classes guarded by a hash (TOC bytes + commit footer on the read_toc path, memory-card /
     mesh tracks): every change is detected, given collision-freeness on the two byte strings involved;
   - for the unguarded classes: `_refuted` witnesses, and for frame payloads the universal statement
     that EVERY change is served and that verify(deep) cannot see it;
   - the detection table (Model/Detect.v `table`) predicts a silent difference in no class outside
     known_class (`_outside_known`);
   - the minimal repair (compare frame.checksum in read_frame_payload_bytes, and in verify(deep)) closes
     the payload classes (`_fixed_` theorems, separately named definitions).
   Partial: Tantivy / vector-index / sketch decoders and serde's behaviour on damaged input are observed
   by the correspondence run, not modelled. *)
From MV Require Import Base.Prelude Model.Footer Model.TimeIndex Model.Wal Model.Bincode Model.Toc Model.Detect Proofs.DetectProofs.
Local Open Scope N_scope.

(* ---------------------------------------------------------------- hash-guarded classes *)

(* (1) a content/digest pair checked by `H content == digest`: a fault that touches only one of the
       two fields (every single-byte flip; zeroing or truncation inside one field) and passes the
       check changed nothing. *)
Theorem C20_hash_guard_single_field :
  forall (H : bytes -> bytes) c d c' d',
    guard_check H c d = true -> guard_check H c' d' = true ->
    (c' = c \/ d' = d) -> (H c' = H c -> c' = c) -> c' = c /\ d' = d.
Proof. exact hash_guard_single_field. Qed.
Print Assumptions C20_hash_guard_single_field.

(* (1') any fault on both fields, if the damaged digest field is not the digest of the damaged content *)
Theorem C20_hash_guard_general :
  forall (H : bytes -> bytes) c d c' d',
    guard_check H c d = true -> guard_check H c' d' = true ->
    (H c' = H c -> c' = c) -> (d' <> d -> H c' <> d') -> c' = c /\ d' = d.
Proof. exact hash_guard_general. Qed.
Print Assumptions C20_hash_guard_general.

(* (2) TOC bytes and commit footer (classes toc, footer-magic, footer-toc-len, footer-toc-hash) on the
       read_toc path: the clean file is pre ++ toc ++ footer(f) with f.toc_hash = H toc; in a faulted file
       of the same layout where the TOC bytes or the footer (not both) changed, read_toc answers Ok only
       with the original TOC bytes, and then the TOC bytes are unchanged. *)
Theorem C20_toc_footer_hash_detects :
  forall (H : bytes -> bytes) pre' toc toc' f foot' off t,
    (toc_len f < 2 ^ 64) -> (generation f < 2 ^ 64) -> length (toc_hash f) = 32%nat ->
    toc_hash f = H toc ->
    N.of_nat (length pre') = off -> length foot' = FOOTER_SIZE ->
    (toc' = toc \/ foot' = footer_encode f) ->
    (H toc' = H toc -> toc' = toc) ->
    read_toc H (pre' ++ toc' ++ foot') off = Ok t ->
    t = toc /\ toc' = toc.
Proof. exact read_toc_detects. Qed.
Print Assumptions C20_toc_footer_hash_detects.

Theorem C20_toc_footer_hash_detects_general :
  forall (H : bytes -> bytes) pre' toc toc' f foot' off t,
    toc_hash f = H toc ->
    N.of_nat (length pre') = off -> length foot' = FOOTER_SIZE ->
    (H toc' = H toc -> toc' = toc) ->
    (forall f', footer_decode foot' = Some f' -> toc_hash f' <> toc_hash f -> H toc' <> toc_hash f') ->
    read_toc H (pre' ++ toc' ++ foot') off = Ok t -> t = toc.
Proof. exact read_toc_detects_general. Qed.
Print Assumptions C20_toc_footer_hash_detects_general.

(* (3) memory-card and mesh tracks: loaded only if BLAKE3 of the bytes equals the manifest checksum *)
Theorem C20_track_checksum_detects :
  forall (H : bytes -> bytes) file file' off len sum b b',
    load_track H file off len sum = Ok b -> load_track H file' off len sum = Ok b' ->
    (H b' = H b -> b' = b) -> b' = b.
Proof. exact load_track_detects. Qed.
Print Assumptions C20_track_checksum_detects.

(* ---------------------------------------------------------------- frame payloads: no check *)

(* (4) plain frame: on ANY file of the same length the bytes found in the frame's range are returned *)
Theorem C20_payload_plain_served :
  forall (unzstd : bytes -> option bytes) ctx (file file' : bytes) fr,
    length file' = length file ->
    validate_frame_bounds ctx (N.of_nat (length file)) fr = Ok tt ->
    f_zstd fr = false -> (f_canon_len fr = Some (f_len fr) \/ f_canon_len fr = None) ->
    frame_canonical_bytes unzstd ctx file' fr = Ok (slice file' (N.to_nat (f_off fr)) (N.to_nat (f_len fr))).
Proof. exact plain_payload_served. Qed.
Print Assumptions C20_payload_plain_served.

(* (4') zstd frame: whatever the decoder produces is returned if it has the recorded length *)
Theorem C20_payload_zstd_served :
  forall (unzstd : bytes -> option bytes) ctx (file' : bytes) fr d,
    validate_frame_bounds ctx (N.of_nat (length file')) fr = Ok tt -> f_zstd fr = true ->
    unzstd (slice file' (N.to_nat (f_off fr)) (N.to_nat (f_len fr))) = Some d ->
    (f_canon_len fr = Some (N.of_nat (length d)) \/ f_canon_len fr = None) ->
    frame_canonical_bytes unzstd ctx file' fr = Ok d.
Proof. exact zstd_payload_served. Qed.
Print Assumptions C20_payload_zstd_served.

(* (5) verify(deep) reads the log region and the index area, never payload bytes: two files that differ
       only inside a range outside those give verify the same input, hence the same verdict *)
Theorem C20_verify_blind_outside_layout :
  forall (H : bytes -> bytes) (lex_ok vec_ok : bytes -> bool) (pre mid mid' post : bytes) l deep,
    length mid' = length mid ->
    layout_outside l (N.of_nat (length pre)) (N.of_nat (length pre + length mid)) = true ->
    verify_overall deep (vstate_of H lex_ok vec_ok (pre ++ mid' ++ post) l) =
    verify_overall deep (vstate_of H lex_ok vec_ok (pre ++ mid ++ post) l).
Proof. exact verify_blind. Qed.
Print Assumptions C20_verify_blind_outside_layout.

Theorem C20_verify_passed_iff :
  forall deep s, verify_overall deep s = Passed <-> forall c, In c (verify_checks deep s) -> c <> Failed.
Proof. exact verify_passed_iff. Qed.
Print Assumptions C20_verify_passed_iff.

(* ---- a concrete committed file: 48-byte log region (empty), one plain frame of 4 bytes, a time index
   with one entry (timestamp 100, frame 0).  toyH is a stand-in hash (the theorems hold for every H). *)
Definition toyH (x : bytes) : bytes := repeat (fold_left N.add x 0 mod 256) 32.
Definition no_zstd (_ : bytes) : option bytes := None.
Definition yes (_ : bytes) : bool := true.
Definition sample_file : bytes := repeat 0 48 ++ [255; 254; 7; 8] ++ track_image [(100%Z, 0)].
Definition sample_frame : frame := mkFrame 48 4 false (Some 4) (toyH [255; 254; 7; 8]).
Definition sample_ctx : N * N * N := (0, 48, 80).
Definition sample_layout : layout := mkLayout 0 48 0 (Some (52, 28, 1)) None None 1.
Definition verify_sample (file : bytes) := verify_overall true (vstate_of toyH yes yes file sample_layout).

(* (6) REFUTED, class payload-plain: one changed payload byte; open-time checks do not involve it, the
       read returns different data, verify(deep) reports Passed on both files. *)
Theorem C20_payload_refuted :
  exists file file' fr ctx,
    length file' = length file /\
    verify_sample file = Passed /\ verify_sample file' = Passed /\
    exists d d', frame_canonical_bytes no_zstd ctx file fr = Ok d /\
                 frame_canonical_bytes no_zstd ctx file' fr = Ok d' /\ d <> d'.
Proof.
  exists sample_file, (patch_at sample_file 49 [9]), sample_frame, sample_ctx.
  split; [reflexivity|]. split; [vm_compute; reflexivity|]. split; [vm_compute; reflexivity|].
  exists [255; 254; 7; 8], [255; 9; 7; 8]. split; [vm_compute; reflexivity|]. split; [vm_compute; reflexivity|]. discriminate.
Qed.
Print Assumptions C20_payload_refuted.

(* (7) REFUTED, class time-index: the frame id of an entry changes; read_track's checks (magic, length,
       order) pass, the manifest checksum is never compared, verify(deep) = Passed. *)
Theorem C20_time_index_refuted :
  exists file file',
    length file' = length file /\
    read_track file 52 28 = Ok [(100%Z, 0)] /\ read_track file' 52 28 = Ok [(100%Z, 1)] /\
    verify_sample file = Passed /\ verify_sample file' = Passed.
Proof.
  exists sample_file, (patch_at sample_file 72 [1]). repeat split; vm_compute; reflexivity.
Qed.
Print Assumptions C20_time_index_refuted.

(* (8) REFUTED, class log-record-seq (and hdr-wal-sequence): the record digest covers the payload only.
       A committed record (sequence 1 = header.wal_sequence) whose sequence field becomes 5 still scans
       and is now pending: the next open replays it. *)
Definition sample_log : bytes := image toyH 1 [10; 20; 30] ++ repeat 0 48.
Theorem C20_log_sequence_refuted :
  exists region region',
    length region' = length region /\
    pending_of toyH region 99 1 = Ok [] /\
    pending_of toyH region' 99 1 = Ok [mkRec 5 [10; 20; 30]] /\
    pending_of toyH region 99 0 = Ok [mkRec 1 [10; 20; 30]].      (* same effect: header.wal_sequence 1 -> 0 *)
Proof. exists sample_log, (patch_at sample_log 0 [5]). repeat split; vm_compute; reflexivity. Qed.
Print Assumptions C20_log_sequence_refuted.

(* (8') the other bytes of a record: payload, length and digest changes stop the scan (Example, toy hash) *)
Example C20_log_payload_example :
  pending_of toyH (patch_at sample_log 49 [21]) 99 0 = Err 5 /\
  pending_of toyH (patch_at sample_log 20 [1]) 99 0 = Err 5 /\
  pending_of toyH (patch_at sample_log 8 [2]) 99 0 = Err 5.
Proof. repeat split; vm_compute; reflexivity. Qed.

(* (9) REFUTED, class toc on the recovery path: when read_toc rejects the TOC, recover_toc's hinted branch
       decodes the bytes without any hash; the deferred Toc::verify_checksum at the end of open_locked is
       the only check left, and it is applied to memvid.toc AFTER recover_wal may have re-stamped it
       (flush of a rebuilt lexical index).  With a re-stamp the final check accepts every TOC;
       without, it is exactly verify_checksum of the decoded TOC. *)
Theorem C20_toc_final_check_defeated_by_restamp :
  forall (H : bytes -> bytes) t l2, length l2 = 16%nat -> open_final_check H t (Some (VList l2)) = true.
Proof. exact final_check_defeated. Qed.
Print Assumptions C20_toc_final_check_defeated_by_restamp.

Theorem C20_toc_final_check_without_restamp :
  forall (H : bytes -> bytes) t, open_final_check H t None = verify_checksum H t.
Proof. exact final_check_no_restamp. Qed.
Print Assumptions C20_toc_final_check_without_restamp.

(* ---------------------------------------------------------------- the table *)

(* (10) outside the known classes the table predicts no observation in which a read returned different data *)
Theorem C20_table_outside_known :
  forall c k o, known_class c = false -> In o (table c k) -> silent o = false.
Proof. exact table_outside_known. Qed.
Print Assumptions C20_table_outside_known.

(* (10') every known class does contain such an observation (the classes are not padded) *)
Theorem C20_table_known_refuted :
  forall c, known_class c = true -> exists o, In o (table c Flip) /\ silent o = true.
Proof. exact table_known_silent. Qed.
Print Assumptions C20_table_known_refuted.

Theorem C20_table_not_read :
  forall c, guard_of c = GNotRead -> table c Flip = [S3] /\ table c Zero = [S3].
Proof. exact table_not_read. Qed.
Print Assumptions C20_table_not_read.

Theorem C20_table_truncation_detected :
  forall c o, c <> PastFooter -> In o (table c Trunc) -> snd (fst o) = VError.
Proof. exact table_trunc_ro_error. Qed.
Print Assumptions C20_table_truncation_detected.

(* ---------------------------------------------------------------- the repair (separate definitions) *)

(* (11) with the checksum comparison in read_frame_payload_bytes: two files on which a frame reads
        without error give the same data (H collision-free) *)
Theorem C20_fixed_payload_detects :
  forall (H : bytes -> bytes) (unzstd : bytes -> option bytes) ctx file file' fr d d',
    frame_canonical_bytes_fixed H unzstd ctx file fr = Ok d ->
    frame_canonical_bytes_fixed H unzstd ctx file' fr = Ok d' ->
    (forall x y, H x = H y -> x = y) -> d' = d.
Proof. exact fixed_payload_detects. Qed.
Print Assumptions C20_fixed_payload_detects.

(* (12) with the frame loop in verify(deep): Passed on the faulted file implies every frame reads as committed *)
Theorem C20_fixed_verify_detects :
  forall (H : bytes -> bytes) (unzstd : bytes -> option bytes) ctx file file' frames s fr d,
    (forall x y, H x = H y -> x = y) ->
    verify_overall_fixed H unzstd ctx file' frames s = Passed -> In fr frames ->
    frame_canonical_bytes_fixed H unzstd ctx file fr = Ok d ->
    frame_canonical_bytes_fixed H unzstd ctx file' fr = Ok d.
Proof. exact fixed_verify_detects. Qed.
Print Assumptions C20_fixed_verify_detects.

Theorem C20_fixed_refines :
  forall (H : bytes -> bytes) (unzstd : bytes -> option bytes) ctx file fr d,
    frame_canonical_bytes_fixed H unzstd ctx file fr = Ok d -> frame_canonical_bytes unzstd ctx file fr = Ok d.
Proof. exact fixed_refines. Qed.
Print Assumptions C20_fixed_refines.

(* ---------------------------------------------------------------- non-vacuity *)
Definition s_toc : bytes := [1; 2; 3; 4; 5].
Definition s_footer : footer := mkFooter 5 (toyH s_toc) 7.
Definition s_pre : bytes := repeat 9 20.
Definition s_file : bytes := s_pre ++ s_toc ++ footer_encode s_footer.

(* the clean file passes read_toc; a flipped TOC byte, a flipped hash byte and a flipped length byte do not;
   the repaired frame read accepts the clean sample file and rejects the faulted one; verify with the frame
   loop fails on it *)
Example C20_nonvacuous :
  read_toc toyH s_file 20 = Ok s_toc /\
  read_toc toyH (patch_at s_file 21 [3]) 20 = Err E_TOC_HASH /\
  read_toc toyH (patch_at s_file 42 [0]) 20 = Err E_TOC_HASH /\
  read_toc toyH (patch_at s_file 33 [6]) 20 = Err E_TOC_LEN /\
  load_track toyH s_file 20 5 (toyH s_toc) = Ok s_toc /\
  load_track toyH (patch_at s_file 21 [3]) 20 5 (toyH s_toc) = Err E_TRACK_SUM /\
  frame_canonical_bytes_fixed toyH no_zstd sample_ctx sample_file sample_frame = Ok [255; 254; 7; 8] /\
  frame_canonical_bytes_fixed toyH no_zstd sample_ctx (patch_at sample_file 49 [9]) sample_frame = Err E_FR_SUM /\
  verify_overall_fixed toyH no_zstd sample_ctx sample_file [sample_frame] (vstate_of toyH yes yes sample_file sample_layout) = Passed /\
  verify_overall_fixed toyH no_zstd sample_ctx (patch_at sample_file 49 [9]) [sample_frame]
    (vstate_of toyH yes yes (patch_at sample_file 49 [9]) sample_layout) = Failed /\
  layout_outside sample_layout 48 52 = true.
Proof. repeat split; vm_compute; reflexivity. Qed.
