(* C36 PII masking leaves no detectable PII and is idempotent; text in which contains_pii
   detects nothing is returned unchanged.
   Statements only; proofs are in Proofs/RegexProofs.v, PassProofs.v, PiiProofs.v,
   PiiGenProofs.v.  The model (Model/Regex.v, Model/Pii.v) is a regex AST with a
   backtracking matcher in the regex crate's leftmost-first order; the seven patterns, the
   replace_all order with its tokens and the is_match order are Gen/PiiPatterns.v,
   regenerated from src/pii.rs on every run.  Texts are lists of code points; the Unicode
   tables behind \d \s \w \b are arbitrary functions in every `forall` theorem below.

   "mask_pii's output contains no substring that contains_pii detects" is read as
   contains_pii (mask_pii x) = false: contains_pii examines every substring of its argument
   in its context (theorem 1: is_match <-> some substring is in the language, with \b
   evaluated against the neighbouring code points). *)
From MV Require Import Base.Prelude Model.Regex Model.Pii Gen.PiiPatterns.
From MV Require Import Proofs.RegexProofs Proofs.PassProofs Proofs.PiiProofs Proofs.PiiGenProofs.

(* (1) the matcher decides the language semantics: is_match r s holds exactly when some
       substring of s is in L(r) in its context.  Sound AND complete, for every regex of
       the AST (not only the seven), every text, every Unicode table. *)
Theorem C36_is_match_sound_complete :
  forall (is_digit is_space is_word : N -> bool) (r : regex) (s : list N),
    is_match is_digit is_space is_word r s = true <-> has_match is_digit is_space is_word r s.
Proof. exact is_match_iff. Qed.
Print Assumptions C36_is_match_sound_complete.

(* (2) replace_all with a pattern that has no match is the identity -- all regexes, all
       replacement texts, all texts. *)
Theorem C36_replace_all_identity_without_match :
  forall (is_digit is_space is_word : N -> bool) (r : regex) (tok s : list N),
    is_match is_digit is_space is_word r s = false ->
    replace_all is_digit is_space is_word r tok s = s.
Proof. exact replace_all_no_match. Qed.
Print Assumptions C36_replace_all_identity_without_match.

(* (3) third sentence of the property, full strength: text in which contains_pii detects
       nothing is returned unchanged. *)
Theorem C36_clean_text_unchanged :
  forall (is_digit is_space is_word : N -> bool) (text : list N),
    contains_pii is_digit is_space is_word CONTAINS_ORDER text = false ->
    mask_pii is_digit is_space is_word MASK_ORDER text = text.
Proof. exact gen_clean_unchanged. Qed.
Print Assumptions C36_clean_text_unchanged.

(* (4) first two sentences as stated are REFUTED by the faithful model:
       mask_pii "1234567890123456789" = "123456789[PHONE]", in which contains_pii still
       detects the SSN pattern, and masking again gives "[SSN][PHONE]". *)
Theorem C36_no_residual_and_idempotent_refuted :
  exists x : list N,
    contains_pii ascii_digit ascii_space ascii_word CONTAINS_ORDER
                 (mask_pii ascii_digit ascii_space ascii_word MASK_ORDER x) = true
    /\ mask_pii ascii_digit ascii_space ascii_word MASK_ORDER
                (mask_pii ascii_digit ascii_space ascii_word MASK_ORDER x)
       <> mask_pii ascii_digit ascii_space ascii_word MASK_ORDER x.
Proof. exact full_property_refuted. Qed.
Print Assumptions C36_no_residual_and_idempotent_refuted.

(* (5) ... and hold for every text outside the known class.  known_class x = after the
       seven passes some pattern has a match whose window (the code point before it, the
       match, the code point after it) holds a code point inserted by the same or a later
       pass ("token-boundary-rematch"). *)
Theorem C36_no_residual_and_idempotent_outside_known :
  forall (is_digit is_space is_word : N -> bool) (text : list N),
    known_class is_digit is_space is_word MASK_ORDER text = false ->
    contains_pii is_digit is_space is_word CONTAINS_ORDER
                 (mask_pii is_digit is_space is_word MASK_ORDER text) = false
    /\ mask_pii is_digit is_space is_word MASK_ORDER (mask_pii is_digit is_space is_word MASK_ORDER text)
       = mask_pii is_digit is_space is_word MASK_ORDER text.
Proof. exact gen_outside_known. Qed.
Print Assumptions C36_no_residual_and_idempotent_outside_known.

(* (6) the class is exact: a text is in it iff something is still detected after masking. *)
Theorem C36_known_class_exact :
  forall (is_digit is_space is_word : N -> bool) (text : list N),
    known_class is_digit is_space is_word MASK_ORDER text = true <->
    contains_pii is_digit is_space is_word CONTAINS_ORDER
                 (mask_pii is_digit is_space is_word MASK_ORDER text) = true.
Proof. exact gen_known_exact. Qed.
Print Assumptions C36_known_class_exact.

(* (7) why the class is the only one: for ANY list of (pattern, non-empty token) passes,
       any text with any marks, a match of the pattern of pass j+i found anywhere in the
       final text (any substring c in L(r) between prefix u and suffix v) cannot have a
       window made only of code points that are older than pass j+i.  So every residual
       detection touches text inserted by its own or a later pass. *)
Theorem C36_residual_match_touches_later_token :
  forall (is_digit is_space is_word : N -> bool)
         (ps : list (regex * list N)) (j : nat) (ms : mtext) (i : nat) (r : regex) (tok : list N)
         (u c v : mtext) (q : option N),
    toks_ok ps -> nth_error ps i = Some (r, tok) ->
    mask_m is_digit is_space is_word j ps ms = u ++ c ++ v ->
    rm is_digit is_space is_word r (lasto None (map fst u), map fst (c ++ v)) (q, map fst v) ->
    ~ window_clean (j + i) u c v.
Proof. exact residual_touches_token. Qed.
Print Assumptions C36_residual_match_touches_later_token.

(* (8) the instrumented run used by known_class is mask_pii with marks added. *)
Theorem C36_marked_run_erases_to_mask_pii :
  forall (is_digit is_space is_word : N -> bool) (ps : list (regex * list N)) (text : list N),
    map fst (mask_marked is_digit is_space is_word ps text) = mask_pii is_digit is_space is_word ps text.
Proof. exact mask_marked_erase. Qed.
Print Assumptions C36_marked_run_erases_to_mask_pii.

(* (9) none of the replacement tokens is detected by any pattern by itself. *)
Theorem C36_tokens_match_nothing :
  forall (r : regex) (rt : regex * list N),
    In r CONTAINS_ORDER -> In rt MASK_ORDER ->
    is_match ascii_digit ascii_space ascii_word r (snd rt) = false.
Proof. exact tokens_match_nothing. Qed.
Print Assumptions C36_tokens_match_nothing.

(* (10) the hypotheses used for the generated lists: same patterns in mask_pii and
        contains_pii, no empty replacement. *)
Theorem C36_generated_lists_consistent :
  incl (map fst MASK_ORDER) CONTAINS_ORDER /\ incl CONTAINS_ORDER (map fst MASK_ORDER) /\ toks_ok MASK_ORDER.
Proof. exact (conj mask_in_contains (conj contains_in_mask mask_toks_ok)). Qed.
Print Assumptions C36_generated_lists_consistent.

(* ---- non-vacuity ---- *)
(* "Contact john@example.com at 555-123-4567. SSN: 123-45-6789" *)
Definition sample_pii : list N :=
  [67;111;110;116;97;99;116;32;106;111;104;110;64;101;120;97;109;112;108;101;46;99;111;109;32;97;116;32;
   53;53;53;45;49;50;51;45;52;53;54;55;46;32;83;83;78;58;32;49;50;51;45;52;53;45;54;55;56;57]%N.
(* "Contact [EMAIL] at [PHONE]. SSN: [SSN]" *)
Definition sample_pii_masked : list N :=
  [67;111;110;116;97;99;116;32;91;69;77;65;73;76;93;32;97;116;32;91;80;72;79;78;69;93;46;32;83;83;78;58;32;91;83;83;78;93]%N.
(* "Invoice #12345 for $100.00" *)
Definition sample_clean : list N :=
  [73;110;118;111;105;99;101;32;35;49;50;51;52;53;32;102;111;114;32;36;49;48;48;46;48;48]%N.

(* (5) is not vacuous: a text with three kinds of PII is outside the class, is masked,
   nothing is detected afterwards *)
Example C36_outside_known_nonvacuous :
  a_known sample_pii = false /\ a_contains sample_pii = true /\ a_mask sample_pii = sample_pii_masked
  /\ a_contains sample_pii_masked = false /\ a_mask sample_pii_masked = sample_pii_masked.
Proof. vm_compute. repeat split. Qed.

(* (3) is not vacuous *)
Example C36_clean_nonvacuous : a_contains sample_clean = false /\ a_mask sample_clean = sample_clean.
Proof. vm_compute. repeat split. Qed.

(* the witness of (4) is in the class, and so is the same-pattern variant
   "123-45671234567890" -> "123-4567[PHONE]" (PHONE matches again) *)
Example C36_known_class_witnesses :
  a_known witness19 = true /\ a_mask witness19 = witness19_masked
  /\ a_known [49;50;51;45;52;53;54;55;49;50;51;52;53;54;55;56;57;48]%N = true
  /\ a_mask [49;50;51;45;52;53;54;55;49;50;51;52;53;54;55;56;57;48]%N
     = [49;50;51;45;52;53;54;55;91;80;72;79;78;69;93]%N.
Proof. vm_compute. repeat split. Qed.

(* the hypotheses of (7) are met by a real residual match: in the marked result of the
   witness, "123456789" + "[PHONE]", the SSN pattern (pass 2 = index 1) matches the nine
   digits; (7) then says the window is not clean below 2 -- the '[' after it carries mark 4 *)
Example C36_residual_theorem_nonvacuous :
  exists c v q,
    toks_ok MASK_ORDER /\ nth_error MASK_ORDER 1 = Some (SSN_REGEX, [91; 83; 83; 78; 93]%N)
    /\ mask_m ascii_digit ascii_space ascii_word 1 MASK_ORDER (mark 0 witness19) = [] ++ c ++ v
    /\ map fst c = [49; 50; 51; 52; 53; 54; 55; 56; 57]%N
    /\ rm ascii_digit ascii_space ascii_word SSN_REGEX (lasto None (map fst (@nil (N * nat))), map fst (c ++ v)) (q, map fst v).
Proof. exact residual_example. Qed.
