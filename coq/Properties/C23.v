(* C23 Determinism: the same calls produce identical bytes; at minimum the observable logical
   state is identical.

   In Gallina every function is deterministic, so the content of the theorems is an
   INFORMATION-FLOW statement about Model/Determinism.v, where every source of nondeterminism of the
   implementation is an explicit oracle stream (SegId: Tantivy segment file names; Sched: indexing
   thread scheduling; Now: SystemTime::now(); HashOrd: HashSet iteration order of the frame filter;
   TmpName: temp file / work directory names) of a machine built on Model/Store.v + Model/Reads.v.
   Statements only; proofs in Proofs/DeterminismProofs.v. *)
From MV Require Import Base.Prelude Model.Store Model.StoreSpec Model.Reads Model.Determinism Proofs.DeterminismProofs.
From Coq Require Import Permutation.
Local Open Scope N_scope.

(* (1) SECOND SENTENCE, proved: for ALL histories whose puts / cards carry explicit timestamps and
   ALL pairs of oracle streams, the logical state (frame table with content tags and timestamps,
   lex_docs, vec_docs, time index, memory-card lists: the whole logical machine) and the result of
   every call are identical. *)
Theorem C23_logical_noninterference :
  forall (o1 o2 : oracle) (h : list dop), explicit h = true ->
    logical (fst (drun o1 dstate0 h)) = logical (fst (drun o2 dstate0 h)) /\
    snd (drun o1 dstate0 h) = snd (drun o2 dstate0 h).
Proof. exact logical_noninterference. Qed.
Print Assumptions C23_logical_noninterference.

(* (2) the byte-class tagging is sound: a region class of the file is identical in two executions
   whenever the two oracle streams agree on the sources `deps` tags it with (for every hash H). *)
Theorem C23_region_tags_sound :
  forall (o1 o2 : oracle) (H : list N -> N) (c : rclass) (h : list dop),
    explicit h = true -> agree_on (deps c) o1 o2 ->
    region H c (fst (drun o1 dstate0 h)) = region H c (fst (drun o2 dstate0 h)).
Proof. exact region_tag_sound. Qed.
Print Assumptions C23_region_tags_sound.

(* (3) FIRST SENTENCE, refuted: two oracle streams give different TOC images (whatever the hash),
   hence different files ... *)
Theorem C23_bytes_refuted :
  exists h o1 o2, explicit h = true /\
    forall H, region H TocRegion (fst (drun o1 dstate0 h)) <> region H TocRegion (fst (drun o2 dstate0 h)).
Proof. exact bytes_refuted. Qed.
Print Assumptions C23_bytes_refuted.

(* ... and on that witness (two puts, one commit) exactly these classes differ: footer offset and log
   position (1, 2: the second stream also cuts the documents into two segment files), header TOC
   checksum (3), log (5: the lex batch record), segment files (8), TOC (14), footer length+hash (15). *)
Theorem C23_bytes_refuted_classes : differing toyH h_bytes oA oB = [1; 2; 3; 5; 8; 14; 15].
Proof. exact bytes_refuted_classes. Qed.
Print Assumptions C23_bytes_refuted_classes.

(* (4) outside the known class (region classes tagged with an oracle source: known_class c = true for
   header footer-offset / log-position / TOC-checksum, log, segment files, memories track,
   unreferenced bytes, TOC, footer length+hash) the bytes ARE identical for all oracle streams:
   header geometry and padding, payloads, time index, vector index, sketch track, logic mesh,
   footer magic+generation, the TOC without its segment manifest and absolute offsets, and the frame records of the log (a
   tombstone record with its timestamp field masked: `now` is the only oracle value in it). *)
Theorem C23_bytes_outside_known :
  forall (H : list N -> N) (c : rclass) (h : list dop) (o1 o2 : oracle),
    explicit h = true -> known_class c = false ->
    region H c (fst (drun o1 dstate0 h)) = region H c (fst (drun o2 dstate0 h)).
Proof. exact bytes_outside_known. Qed.
Print Assumptions C23_bytes_outside_known.

Example C23_classes_outside_known :
  map rclass_code (filter (fun c => negb (known_class c)) all_classes) = [0; 4; 6; 7; 9; 11; 12; 16; 17; 18].
Proof. vm_compute. reflexivity. Qed.

(* (5) temp names and the hash-set order of the frame filter flow into no region at all. *)
Theorem C23_tmp_and_hash_order_flow_nowhere :
  forall (H : list N -> N) (h : list dop) (o1 o2 : oracle), explicit h = true ->
    agree SegId o1 o2 -> agree Sched o1 o2 -> agree Now o1 o2 ->
    forall c, region H c (fst (drun o1 dstate0 h)) = region H c (fst (drun o2 dstate0 h)).
Proof. exact tmp_and_hash_order_flow_nowhere. Qed.
Print Assumptions C23_tmp_and_hash_order_flow_nowhere.

(* (6) a tombstone's timestamp carries `now`: same segment ids and scheduling, later clock, a history
   with a delete: exactly the log region (5) differs.  No caller input avoids it. *)
Theorem C23_tombstone_carries_now : explicit h_tomb = true /\ differing toyH h_tomb oA oC = [5].
Proof. exact tombstone_carries_now. Qed.
Print Assumptions C23_tombstone_carries_now.

(* (7) cards extracted by a put carry `now` (created_at, enriched_at) into the memories track (10);
   a card put with an explicit created_at does not. *)
Theorem C23_extracted_cards_carry_now : explicit h_cards = true /\ differing toyH h_cards oA oC = [10].
Proof. exact extracted_cards_carry_now. Qed.
Print Assumptions C23_extracted_cards_carry_now.

(* (8) lex_docs as a SET: after every call that flushed the engine, the segment files the lex
   manifest points to hold exactly the engine's documents, grouped and ordered by the oracle. *)
Theorem C23_segment_files_hold_lex_docs :
  forall (o : oracle) (l : lstate) (p : pstate) (d : dop),
    let c := core o (p_nowc p) d in
    (0 < op_flushes c)%nat ->
    Permutation (seg_docs (p_lex (pstep o p d c l (fst (lstep l c)) (snd (lstep l c)))))
                (lex (l_rs (fst (lstep l c)))).
Proof. exact flush_holds_lex_docs. Qed.
Print Assumptions C23_segment_files_hold_lex_docs.

(* (9) search through a frame filter: for every engine whose ranking depends on the documents and on
   the filter as sets (the assumption made of Tantivy, tested by the harness on ~30 searches per
   history), the result is the same for every segment layout and every hash-set order. *)
Theorem C23_filtered_search_noninterference :
  forall (query : Type) (engine : list (list N) -> option (list N) -> query -> list N),
    (forall s1 s2 f1 f2 q, Permutation (concat s1) (concat s2) -> Permutation f1 f2 ->
                           engine s1 (Some f1) q = engine s2 (Some f2) q) ->
    forall o1 o2 i1 i2 k1 k2 docs filter q,
      engine (map snd (tl (lex_image o1 i1 docs))) (Some (hashed_filter o1 k1 filter)) q =
      engine (map snd (tl (lex_image o2 i2 docs))) (Some (hashed_filter o2 k2 filter)) q.
Proof. exact filtered_search_noninterference. Qed.
Print Assumptions C23_filtered_search_noninterference.

(* (9b) Memvid::find_sketch_candidates (for every scoring function of the frames' index texts, every
   query, threshold and max_candidates) is an observation of the logical state: identical, as an ORDERED
   list, for all oracle streams -- in particular it does not depend on HashOrd, although the track keeps
   its entries in a HashMap: the code scans frame_order. *)
Theorem C23_sketch_candidates_noninterference :
  forall (query : Type) (score : N -> query -> N -> option N) (o1 o2 : oracle) (h : list dop), explicit h = true ->
    forall q thr max,
      sketch_candidates query score (fst (drun o1 dstate0 h)) q thr max =
      sketch_candidates query score (fst (drun o2 dstate0 h)) q thr max.
Proof. exact sketch_candidates_noninterference. Qed.
Print Assumptions C23_sketch_candidates_noninterference.

(* ... and the statement has content: were the entries scanned in the map's iteration order, HashOrd would
   flow into the answer as soon as scores tie (three frames with one index text, max_candidates 2). *)
Theorem C23_hashed_scan_would_flow :
  sketch_candidates unit all_tie (fst (drun (oH 0) dstate0 h_tied)) tt 10 2 = [(0, 5); (1, 5)] /\
  sketch_candidates unit all_tie (fst (drun (oH 1) dstate0 h_tied)) tt 10 2 = [(0, 5); (1, 5)] /\
  sketch_candidates_hashed unit all_tie (oH 0) 0 (fst (drun (oH 0) dstate0 h_tied)) tt 10 2 = [(0, 5); (1, 5)] /\
  sketch_candidates_hashed unit all_tie (oH 1) 0 (fst (drun (oH 1) dstate0 h_tied)) tt 10 2 = [(1, 5); (2, 5)].
Proof. exact hashed_scan_would_flow. Qed.
Print Assumptions C23_hashed_scan_would_flow.

(* (10) the hypothesis `explicit` is needed and satisfiable: a put without a timestamp lets `now` flow
   into the time index (logical state); the witnesses above are explicit histories with deletes,
   embeddings, cards. *)
Theorem C23_implicit_timestamp_flows :
  explicit h_implicit = false /\
  region toyH TimeIndex (fst (drun oA dstate0 h_implicit)) <> region toyH TimeIndex (fst (drun oC dstate0 h_implicit)).
Proof. exact implicit_timestamp_flows. Qed.
Print Assumptions C23_implicit_timestamp_flows.

Example C23_nonvacuous :
  explicit h_tomb = true /\
  map f_status (committed (base (l_rs (logical (fst (drun oA dstate0 h_tomb)))))) = [2; 0] /\
  tix (l_rs (logical (fst (drun oB dstate0 h_tomb)))) = [1] /\
  map fst (vec (l_rs (logical (fst (drun oB dstate0 h_tomb))))) = [1] /\
  seg_docs (p_lex (snd (fst (drun oB dstate0 h_bytes)))) = [1; 0] /\
  lex (l_rs (logical (fst (drun oB dstate0 h_bytes)))) = [0; 1].
Proof. vm_compute. repeat split. Qed.
