(* C13 Vector search returns the exact nearest neighbours.
   Statements only; proofs live in Proofs/StableSortProofs.v and Proofs/VecSearchProofs.v.

   The model follows the code after 1932440 (hits ordered by (is_nan, total_cmp)), 9a670c1
   and 564c799 (an empty embedding vector is stored as "no embedding").  Part A states the
   property for that code: distances are raw f32 bit patterns, the comparison is
   `f32_nan_last_le`, there is NO known class, NO guard on the distance values and NO guard
   on the history except that embeddings have fewer than 2^32 components.  Part B is the
   generic theory it instantiates.  Part C keeps the three repaired defects as historical
   `_unfixed` lemmas and regression examples.

   What "closer" means when a distance is NaN.  The order that is proved is the total order
   the code sorts by: numbers in numeric order (-inf .. -0 < +0 .. +inf), then the NaNs of
   either sign; ties only between identical bit patterns.  Read numerically with "NaN =
   undefined = farthest" (f32_closer): the hits are in non-decreasing numeric order, NaN
   last, and no omitted frame is strictly closer than a returned one
   (C13_hits_numeric_reading).  The only hypothesis on the kernel's outputs is that no
   distance is a NEGATIVE NUMBER (sign bit set on a non-NaN: f32_not_negative), which a
   square root of a sum of squares satisfies and the real kernel is observed to satisfy;
   it is needed only because f32_closer compares bit patterns, which order like the
   numbers for non-negative floats only. *)
From MV Require Import Base.Prelude Model.StableSort Model.VecSearch
  Proofs.StableSortProofs Proofs.VecSearchProofs.
From Coq Require Import Sorting.Permutation Sorting.Sorted.
Local Open Scope N_scope.

(* ================================================================== A. the current code *)
(* Histories: any list of enable_vec / put (with or without embedding, empty embeddings
   included) / delete / commit / close+reopen / search_vec calls from an empty memory
   (Model/VecSearch.v, vrun).  `reached ops` is the state after them, `index_docs` its
   committed, active embeddings in index order.  E, dim and the kernel `dist` are arbitrary. *)

(* (A1) THE PROPERTY: a query of the index dimension gets exactly the nearest neighbours of
   the committed active embeddings, in the total order the code sorts by (exact_nn,
   Model/VecSearch.v: min(limit, m) hits; hits ++ omitted is a permutation of all (frame,
   distance) pairs; sorted; no omitted pair below a returned one; ties -- identical bit
   patterns -- in insertion order, also across the cut).  No guard on the distances. *)
Theorem C13_search_vec_exact_nn :
  forall (E : Type) (dim : E -> N) (dist : E -> E -> N)
         (ops : list (vop E)) (q : E) (limit : N) (d0 : doc E),
    forallb (op_dim_fits_u32 E dim) ops = true ->
    In d0 (index_docs E (reached E N dim dist f32_nan_last_le ops)) ->
    dim q = dim (doc_emb d0) ->
    exists hits,
      search_vec E N dim dist f32_nan_last_le (vmem_of E (reached E N dim dist f32_nan_last_le ops)) q limit = Ok hits /\
      exact_nn E N dist f32_nan_last_le (fun _ => True)
               (index_docs E (reached E N dim dist f32_nan_last_le ops)) q limit hits.
Proof.
  intros E dim dist ops q limit d0 Hfit Hin Hq.
  apply (reached_search_exact E N dim dist f32_nan_last_le (fun _ => True)
           (fun a b _ _ => f32_nan_last_le_total a b)
           (fun a b c _ _ _ => f32_nan_last_le_trans a b c) ops q limit d0); try assumption.
  - apply op_ok_of_bools; exact Hfit.
  - intros d Hd. exact I.
Qed.
Print Assumptions C13_search_vec_exact_nn.

(* (A2) the numeric reading of such an answer: if no distance from the query to an indexed
   embedding is a negative number, the hits are in non-decreasing numeric order with NaN
   (undefined, either sign) distances last, and no omitted frame is strictly closer -- NaN
   being farthest -- than a returned one *)
Theorem C13_hits_numeric_reading :
  forall (E : Type) (dist : E -> E -> N) (q : E) (docs : list (doc E)) (limit : N) (hits : list (hit N)),
    no_negative_distance E dist q docs ->
    exact_nn E N dist f32_nan_last_le (fun _ => True) docs q limit hits ->
    numeric_nn E dist docs q hits.
Proof. exact exact_nn_numeric. Qed.
Print Assumptions C13_hits_numeric_reading.

(* (A2') both together at memory level: every history, every kernel without negative outputs *)
Theorem C13_search_vec_numeric_nn :
  forall (E : Type) (dim : E -> N) (dist : E -> E -> N)
         (ops : list (vop E)) (q : E) (limit : N) (d0 : doc E),
    forallb (op_dim_fits_u32 E dim) ops = true ->
    In d0 (index_docs E (reached E N dim dist f32_nan_last_le ops)) ->
    dim q = dim (doc_emb d0) ->
    no_negative_distance E dist q (index_docs E (reached E N dim dist f32_nan_last_le ops)) ->
    exists hits,
      search_vec E N dim dist f32_nan_last_le (vmem_of E (reached E N dim dist f32_nan_last_le ops)) q limit = Ok hits /\
      N.of_nat (length hits) = N.min limit (N.of_nat (length (index_docs E (reached E N dim dist f32_nan_last_le ops)))) /\
      numeric_nn E dist (index_docs E (reached E N dim dist f32_nan_last_le ops)) q hits.
Proof.
  intros E dim dist ops q limit d0 Hfit Hin Hq Hnn.
  destruct (C13_search_vec_exact_nn E dim dist ops q limit d0 Hfit Hin Hq) as [hits [H1 H2]].
  exists hits. split; [exact H1|]. split.
  - destruct H2 as [rest [Hlen _]]. exact Hlen.
  - exact (exact_nn_numeric E dist q _ limit hits Hnn H2).
Qed.
Print Assumptions C13_search_vec_numeric_nn.

(* (A3) the comparison (is_nan, total_cmp) on bit patterns is a total order: total,
   transitive, antisymmetric (a tie is bit equality); a NaN of either sign is above every
   non-NaN pattern; two sign-clear non-NaN patterns (non-negative numbers, +inf) compare
   like their bits *)
Theorem C13_comparison_is_a_total_order :
  (forall a b, f32_nan_last_le a b = true \/ f32_nan_last_le b a = true) /\
  (forall a b c, f32_nan_last_le a b = true -> f32_nan_last_le b c = true -> f32_nan_last_le a c = true) /\
  (forall a b, a < U32_MOD -> b < U32_MOD -> f32_nan_last_le a b = true -> f32_nan_last_le b a = true -> a = b) /\
  (forall a b, f32_is_nan a = false -> f32_is_nan b = true ->
               f32_nan_last_le a b = true /\ f32_nan_last_le b a = false) /\
  (forall a b, a < F32_SIGN -> b < F32_SIGN -> f32_is_nan a = false -> f32_is_nan b = false ->
               f32_nan_last_le a b = N.leb a b).
Proof.
  split; [exact f32_nan_last_le_total|]. split; [exact f32_nan_last_le_trans|].
  split; [exact f32_nan_last_le_antisym|]. split; [exact f32_nan_last_le_nan_last|exact f32_nan_last_le_nonneg].
Qed.
Print Assumptions C13_comparison_is_a_total_order.

(* (A4) a query whose dimension differs from the index dimension is rejected with
   VecDimensionMismatch -- an error, not a panic, for EVERY kernel `dist`: the check runs
   before any distance is computed *)
Theorem C13_wrong_dimension_rejected :
  forall (E D : Type) (dim : E -> N) (dist : E -> E -> D) (dle : D -> D -> bool)
         (ops : list (vop E)) (q : E) (limit : N) (d0 : doc E),
    forallb (op_dim_fits_u32 E dim) ops = true ->
    In d0 (index_docs E (reached E D dim dist dle ops)) ->
    dim q < U32_MOD -> dim q <> dim (doc_emb d0) ->
    search_vec E D dim dist dle (vmem_of E (reached E D dim dist dle ops)) q limit = Err E_DIM_MISMATCH.
Proof.
  intros E D dim dist dle ops q limit d0 Hfit. apply reached_wrong_dim. apply op_ok_of_bools; exact Hfit.
Qed.
Print Assumptions C13_wrong_dimension_rejected.

(* (A5) search_vec never panics (any history, any query below 2^32 components, any kernel,
   any comparison) *)
Theorem C13_search_vec_never_panics :
  forall (E D : Type) (dim : E -> N) (dist : E -> E -> D) (dle : D -> D -> bool)
         (ops : list (vop E)) (q : E) (limit : N),
    forallb (op_dim_fits_u32 E dim) ops = true -> dim q < U32_MOD ->
    forall site, search_vec E D dim dist dle (vmem_of E (reached E D dim dist dle ops)) q limit <> Panic site.
Proof.
  intros E D dim dist dle ops q limit Hfit. apply reached_no_panic. apply op_ok_of_bools; exact Hfit.
Qed.
Print Assumptions C13_search_vec_never_panics.

(* (A6) an empty embedding vector is no embedding: the put is the put without embedding *)
Theorem C13_empty_embedding_is_no_embedding :
  forall (E : Type) (dim : E -> N) (s : vstate E) (fid : N) (e : E),
    dim e = 0 -> vput E dim s fid (Some e) = vput E dim s fid None.
Proof. intros E dim s fid e H. unfold vput, vput_gen. rewrite H. reflexivity. Qed.
Print Assumptions C13_empty_embedding_is_no_embedding.

(* (A7) close and reopen: reopening yields the committed state; with nothing pending it is
   the same state, so every answer is identical *)
Theorem C13_reopen_is_commit :
  forall (E D : Type) (dim : E -> N) (dist : E -> E -> D) (dle : D -> D -> bool) (ops : list (vop E)),
    vreopen E dim (reached E D dim dist dle ops) = vcommit E dim (reached E D dim dist dle ops).
Proof. exact reached_reopen. Qed.
Print Assumptions C13_reopen_is_commit.

Theorem C13_results_identical_after_reopen :
  forall (E D : Type) (dim : E -> N) (dist : E -> E -> D) (dle : D -> D -> bool)
         (ops : list (vop E)) (q : E) (limit : N),
    vs_pending E (reached E D dim dist dle ops) = [] ->
    vreopen E dim (reached E D dim dist dle ops) = reached E D dim dist dle ops /\
    search_vec E D dim dist dle (vmem_of E (vreopen E dim (reached E D dim dist dle ops))) q limit =
    search_vec E D dim dist dle (vmem_of E (reached E D dim dist dle ops)) q limit.
Proof. exact reached_reopen_clean. Qed.
Print Assumptions C13_results_identical_after_reopen.

(* (A8) the model's "the reopened index is the committed document list" rests on the codec
   round trip of Vec<VecDocument> (bincode; C30), stated as a hypothesis and tested on the
   implementation by the harness (decode(finish().bytes) holds the documents bit for bit) *)
Theorem C13_index_bytes_roundtrip :
  forall (E : Type) (enc : list (doc E) -> bytes) (dec : bytes -> option (list (doc E) * nat)),
    (forall docs, dec (enc docs) = Some (docs, length (enc docs))) ->
    forall docs, index_decode E dec (enc docs) = Ok docs.
Proof. exact index_decode_encode. Qed.
Print Assumptions C13_index_bytes_roundtrip.

(* concrete instance used by the examples and the historical lemmas: an embedding is
   (dimension, bit pattern of its distance to the query) *)
Definition XE := (N * N)%type.
Definition xdim (e : XE) : N := fst e.
Definition xdist (_ e : XE) : N := snd e.
Definition NEG_NAN : N := 4290772992.      (* 0xFFC0_0000: x86 default NaN, e.g. inf - inf, 0.0 / 0.0 *)
Definition POS_NAN : N := 2143289344.      (* 0x7FC0_0000: f32::NAN *)
Definition BITS_1 : N := 1065353216.       (* 1.0 *)
Definition BITS_3 : N := 1077936128.       (* 3.0 *)

(* ================================================================== B. the generic theory *)

(* (B1) Rust's sort_by is a stable sort.  For a comparison that is total and transitive on
   the elements satisfying P, "sorted + every tie class in its original order" has exactly
   one solution: the model does not depend on the algorithm std uses. *)
Theorem C13_sorted_stable_is_unique :
  forall (A : Type) (le : A -> A -> bool) (P : A -> Prop),
    (forall a b, P a -> P b -> le a b = true \/ le b a = true) ->
    (forall a b c, P a -> P b -> P c -> le a b = true -> le b c = true -> le a c = true) ->
    forall l l' : list A,
      Forall P l -> Forall P l' ->
      StronglySorted (fun a b => le a b = true) l' ->
      (forall z, P z -> filter (tie le z) l' = filter (tie le z) l) ->
      l' = isort le l.
Proof. exact (@stable_sort_unique). Qed.
Print Assumptions C13_sorted_stable_is_unique.

(* (B2) ... and the insertion sort is such a solution: permutation, sorted, stable. *)
Theorem C13_isort_is_a_stable_sort :
  forall (A : Type) (le : A -> A -> bool) (P : A -> Prop),
    (forall a b, P a -> P b -> le a b = true \/ le b a = true) ->
    (forall a b c, P a -> P b -> P c -> le a b = true -> le b c = true -> le a c = true) ->
    forall l : list A,
      Forall P l ->
      Permutation (isort le l) l /\
      StronglySorted (fun a b => le a b = true) (isort le l) /\
      (forall z, P z -> filter (tie le z) (isort le l) = filter (tie le z) l).
Proof.
  intros A le P Ht Htr l Hl. split; [apply isort_perm|]. split.
  - exact (isort_sorted le P Ht Htr l Hl).
  - intros z Hz. exact (isort_stable le P Ht Htr z l Hz Hl).
Qed.
Print Assumptions C13_isort_is_a_stable_sort.

(* (B3) a stable merge sort (any fuel = any depth at which it falls back to insertion, as
   std does for short runs) returns the same list *)
Theorem C13_merge_sort_same_result :
  forall (A : Type) (le : A -> A -> bool) (P : A -> Prop),
    (forall a b, P a -> P b -> le a b = true \/ le b a = true) ->
    (forall a b c, P a -> P b -> P c -> le a b = true -> le b c = true -> le a c = true) ->
    forall (fuel : nat) (l : list A), Forall P l -> msort le fuel l = isort le l.
Proof. exact (@msort_eq_isort). Qed.
Print Assumptions C13_merge_sort_same_result.

(* (B4) VecIndex::search for any comparison that is a total preorder on the distance values
   satisfying okD (for the code's comparison: okD = everything) *)
Theorem C13_index_search_exact_nn :
  forall (E D : Type) (dim : E -> N) (dist : E -> E -> D) (dle : D -> D -> bool) (okD : D -> Prop),
    (forall a b, okD a -> okD b -> dle a b = true \/ dle b a = true) ->
    (forall a b c, okD a -> okD b -> okD c -> dle a b = true -> dle b c = true -> dle a c = true) ->
    forall (q : E) (docs : list (doc E)) (limit : N),
      dim q <> 0 ->
      dims_ok E dim q docs ->
      no_nan_distance E D dist okD q docs ->
      exists hits,
        index_search E D dim dist dle docs q limit = Ok hits /\
        hits = truncate (isort (hit_le D dle) (all_hits E D dist q docs)) limit /\
        exact_nn E D dist dle okD docs q limit hits.
Proof. exact isearch_exact. Qed.
Print Assumptions C13_index_search_exact_nn.

(* (B5) the property determines the answer completely: any hit list meeting exact_nn is the
   one the model (hence, by the correspondence, the implementation) returns *)
Theorem C13_answer_is_unique :
  forall (E D : Type) (dist : E -> E -> D) (dle : D -> D -> bool) (okD : D -> Prop),
    (forall a b, okD a -> okD b -> dle a b = true \/ dle b a = true) ->
    (forall a b c, okD a -> okD b -> okD c -> dle a b = true -> dle b c = true -> dle a c = true) ->
    forall (q : E) (docs : list (doc E)) (limit : N) (hits' : list (hit D)),
      no_nan_distance E D dist okD q docs ->
      exact_nn E D dist dle okD docs q limit hits' ->
      hits' = truncate (isort (hit_le D dle) (all_hits E D dist q docs)) limit.
Proof. exact exact_nn_unique. Qed.
Print Assumptions C13_answer_is_unique.

(* (B6) with NO assumption on the comparison: still min(limit, m) hits, each a distinct
   document of the index with its distance *)
Theorem C13_count_and_membership_unconditional :
  forall (E D : Type) (dim : E -> N) (dist : E -> E -> D) (dle : D -> D -> bool)
         (q : E) (docs : list (doc E)) (limit : N),
    dim q <> 0 -> dims_ok E dim q docs ->
    exists hits rest,
      index_search E D dim dist dle docs q limit = Ok hits /\
      N.of_nat (length hits) = N.min limit (N.of_nat (length docs)) /\
      Permutation (hits ++ rest) (all_hits E D dist q docs).
Proof. exact isearch_count_perm. Qed.
Print Assumptions C13_count_and_membership_unconditional.

(* (B7) edge behaviour as the code has it: an empty query returns no hits; at the level of
   the public VecIndex API (no dimension contract there) a document of another dimension
   than the non-empty query makes the kernel's length assertion fire *)
Theorem C13_empty_query_no_hits :
  forall (E D : Type) (dim : E -> N) (dist : E -> E -> D) (dle : D -> D -> bool)
         (docs : list (doc E)) (q : E) (limit : N),
    dim q = 0 -> index_search E D dim dist dle docs q limit = Ok [].
Proof. exact isearch_empty_query. Qed.
Print Assumptions C13_empty_query_no_hits.

Theorem C13_mixed_dimension_index_panics :
  forall (E D : Type) (dim : E -> N) (dist : E -> E -> D) (dle : D -> D -> bool)
         (q : E) (docs : list (doc E)) (limit : N),
    dim q <> 0 -> (exists d, In d docs /\ dim (doc_emb d) <> dim q) ->
    index_search E D dim dist dle docs q limit = Panic P_DIST_LEN.
Proof. exact isearch_panic. Qed.
Print Assumptions C13_mixed_dimension_index_panics.

(* ================================================================== C. historical *)
(* F-C13-1 (repaired by 564c799).  Before, put kept an empty embedding: commit stored it in
   the index and the next search of the index dimension panicked. *)
Lemma C13_empty_embedding_panicked_unfixed :
  let s1 := fst (vput_unfixed XE xdim vinit 0 (Some (2, BITS_1))) in
  let s2 := fst (vput_unfixed XE xdim s1 1 (Some (0, 0))) in
  search_vec XE N xdim xdist f32_nan_last_le (vmem_of XE (vcommit XE xdim s2)) (2, 0) 1 = Panic P_DIST_LEN /\
  (* the repaired put on the same calls: one hit *)
  (let t1 := fst (vput XE xdim vinit 0 (Some (2, BITS_1))) in
   let t2 := fst (vput XE xdim t1 1 (Some (0, 0))) in
   search_vec XE N xdim xdist f32_nan_last_le (vmem_of XE (vcommit XE xdim t2)) (2, 0) 1 = Ok [(0, BITS_1)]).
Proof. vm_compute. split; reflexivity. Qed.

(* F-C13-2 (repaired by 9a670c1).  Before, the comparator was partial_cmp(..).unwrap_or(Equal)
   (f32_le_unfixed: None = NaN compares Equal to everything): not transitive, and with
   distances 30, 60, +inf, NaN, 22 the search for one hit returned the document at 30. *)
Definition UE := (N * f32key_unfixed)%type.
Definition udim (e : UE) : N := fst e.
Definition udist (_ e : UE) : f32key_unfixed := snd e.
Definition docs_nan_unfixed : list (doc UE) :=
  [mkDoc 0 (2, Some 30); mkDoc 1 (2, Some 60); mkDoc 2 (2, Some 1000); mkDoc 3 (2, None); mkDoc 4 (2, Some 22)].

Lemma C13_nan_distance_broke_order_unfixed :
  f32_le_unfixed (Some 5) None = true /\ f32_le_unfixed None (Some 3) = true /\
  f32_le_unfixed (Some 5) (Some 3) = false /\
  index_search UE f32key_unfixed udim udist f32_le_unfixed docs_nan_unfixed (2, Some 0) 1 = Ok [(0, Some 30)].
Proof. vm_compute. repeat split. Qed.

(* the same five documents under the current comparison (NaN = POS_NAN, +inf): nearest first *)
Definition docs_nan_fixed : list (doc XE) :=
  [mkDoc 0 (2, BITS_3); mkDoc 1 (2, 1086324736); mkDoc 2 (2, F32_INF); mkDoc 3 (2, POS_NAN); mkDoc 4 (2, 1074731965)].

Example C13_nan_distance_now_last :
  index_search XE N xdim xdist f32_nan_last_le docs_nan_fixed (2, 0) 5
    = Ok [(4, 1074731965); (0, BITS_3); (1, 1086324736); (2, F32_INF); (3, POS_NAN)].
Proof. vm_compute. reflexivity. Qed.

(* F-C13-3 (repaired by 1932440).  Between 9a670c1 and 1932440 the comparator was plain
   total_cmp (f32_total_le_unfixed): a sign-set pattern sorts before every sign-clear one, so
   a frame whose distance is the x86 default NaN 0xFFC00000 was returned as the nearest. *)
Definition docs_negnan : list (doc XE) := [mkDoc 0 (2, BITS_3); mkDoc 1 (2, NEG_NAN); mkDoc 2 (2, BITS_1)].

Lemma C13_sign_set_nan_sorted_first_unfixed :
  (forall a b, F32_SIGN <= a -> b < F32_SIGN ->
               f32_total_le_unfixed a b = true /\ f32_total_le_unfixed b a = false) /\
  index_search XE N xdim xdist f32_total_le_unfixed docs_negnan (2, 0) 1 = Ok [(1, NEG_NAN)].
Proof. split; [exact f32_total_le_unfixed_sign_first | vm_compute; reflexivity]. Qed.

(* regression on the current model: nearest number first, both NaNs last *)
Example C13_sign_set_nan_sorts_last :
  index_search XE N xdim xdist f32_nan_last_le docs_negnan (2, 0) 1 = Ok [(2, BITS_1)] /\
  index_search XE N xdim xdist f32_nan_last_le
    (docs_negnan ++ [mkDoc 3 (2, POS_NAN); mkDoc 4 (2, F32_INF)]) (2, 0) 9
    = Ok [(2, BITS_1); (0, BITS_3); (4, F32_INF); (1, NEG_NAN); (3, POS_NAN)] /\
  forallb (fun d => f32_not_negative (xdist (2, 0) (doc_emb d)))
          (docs_negnan ++ [mkDoc 3 (2, POS_NAN); mkDoc 4 (2, F32_INF)]) = true.
Proof. vm_compute. repeat split. Qed.

(* ================================================================== non-vacuity *)
(* a history with ties, a duplicate vector, a frame without embedding, an empty embedding,
   a rejected put of another dimension, a delete and a reopen: 4 active embeddings *)
Definition ops_ok : list (vop XE) :=
  [VPut 0 (Some (3, 50)); VPut 1 None; VPut 2 (Some (3, 20)); VPut 3 (Some (3, 50));
   VPut 4 (Some (4, 1)); VPut 4 (Some (0, 0)); VCommit; VPut 5 (Some (3, 20)); VPut 6 (Some (3, POS_NAN));
   VDelete 0; VReopen; VSearch (3, 0) 2; VSearch (3, 0) 9].

Example C13_nonvacuous :
  forallb (op_dim_fits_u32 XE xdim) ops_ok = true /\
  map (@doc_id XE) (index_docs XE (reached XE N xdim xdist f32_nan_last_le ops_ok)) = [2; 3; 5; 6] /\
  forallb (fun d => f32_not_negative (xdist (3, 0) (doc_emb d)))
          (index_docs XE (reached XE N xdim xdist f32_nan_last_le ops_ok)) = true /\
  (* the put of dimension 4 was rejected, the empty embedding accepted and not indexed;
     ties (20, 20) in insertion order; the NaN distance last *)
  snd (vrun XE N xdim xdist f32_nan_last_le vinit ops_ok) =
    [Ok []; Ok []; Ok []; Ok []; Err E_DIM_MISMATCH; Ok []; Ok []; Ok []; Ok []; Ok []; Ok [];
     Ok [(2, 20); (5, 20)]; Ok [(2, 20); (5, 20); (3, 50); (6, POS_NAN)]] /\
  search_vec XE N xdim xdist f32_nan_last_le (vmem_of XE (reached XE N xdim xdist f32_nan_last_le ops_ok)) (4, 0) 2
    = Err E_DIM_MISMATCH.
Proof. vm_compute. repeat split. Qed.
