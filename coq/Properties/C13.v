(* C13 Vector search returns the exact nearest neighbours.
   Statements only; proofs live in Proofs/StableSortProofs.v and Proofs/VecSearchProofs.v.

   Everything is generic: E = embeddings with dimension `dim`, D = distance values,
   `dist` = the L2 kernel (modelled bit by bit in C38; here any function), `dle` = the
   comparator handed to sort_by read as "not Greater".  The order hypotheses are required
   only on the distance values satisfying the guard okD ("not NaN"): no_nan_distance.
   The property as stated is REFUTED in two classes (known findings F-C13-1, F-C13-2),
   witnesses below, and proved outside them (C13_search_vec_outside_known). *)
From MV Require Import Base.Prelude Model.StableSort Model.VecSearch
  Proofs.StableSortProofs Proofs.VecSearchProofs.
From Coq Require Import Sorting.Permutation Sorting.Sorted.
Local Open Scope N_scope.

(* ------------------------------------------------------------------ sorting *)

(* (1) Rust's sort_by is a stable sort.  For a comparison that is total and transitive on
   the elements satisfying P, "sorted + every tie class in its original order" has exactly
   one solution: the model does not depend on the algorithm std uses. *)
Theorem C13_sorted_stable_is_unique :
  forall (A : Type) (le : A -> A -> bool) (P : A -> Prop),
    (forall a b, P a -> P b -> le a b = true \/ le b a = true) ->
    (forall a b c, P a -> P b -> P c -> le a b = true -> le b c = true -> le a c = true) ->
    forall l l' : list A,
      Forall P l -> Forall P l' ->
      StronglySorted (fun a b => le a b = true) l' ->
      (forall z, P z -> filter (tie le z) l' = filter (tie le z) l) ->
      l' = isort le l.
Proof. exact (@stable_sort_unique). Qed.
Print Assumptions C13_sorted_stable_is_unique.

(* (2) ... and the insertion sort is such a solution: permutation, sorted, stable. *)
Theorem C13_isort_is_a_stable_sort :
  forall (A : Type) (le : A -> A -> bool) (P : A -> Prop),
    (forall a b, P a -> P b -> le a b = true \/ le b a = true) ->
    (forall a b c, P a -> P b -> P c -> le a b = true -> le b c = true -> le a c = true) ->
    forall l : list A,
      Forall P l ->
      Permutation (isort le l) l /\
      StronglySorted (fun a b => le a b = true) (isort le l) /\
      (forall z, P z -> filter (tie le z) (isort le l) = filter (tie le z) l).
Proof.
  intros A le P Ht Htr l Hl. split; [apply isort_perm|]. split.
  - exact (isort_sorted le P Ht Htr l Hl).
  - intros z Hz. exact (isort_stable le P Ht Htr z l Hz Hl).
Qed.
Print Assumptions C13_isort_is_a_stable_sort.

(* (3) a stable merge sort (any fuel = any depth at which it falls back to insertion, as
   std does for short runs) returns the same list *)
Theorem C13_merge_sort_same_result :
  forall (A : Type) (le : A -> A -> bool) (P : A -> Prop),
    (forall a b, P a -> P b -> le a b = true \/ le b a = true) ->
    (forall a b c, P a -> P b -> P c -> le a b = true -> le b c = true -> le a c = true) ->
    forall (fuel : nat) (l : list A), Forall P l -> msort le fuel l = isort le l.
Proof. exact (@msort_eq_isort). Qed.
Print Assumptions C13_merge_sort_same_result.

(* ------------------------------------------------------------------ VecIndex::search *)

(* (4) THE PROPERTY at index level.  For a non-empty query whose dimension every document
   has, and no NaN distance: the search returns hits such that (exact_nn, Model/VecSearch.v)
     - there are min(limit, m) of them,
     - hits ++ omitted is a permutation of all (frame id, distance) pairs of the index,
     - the list is sorted by non-decreasing distance,
     - no omitted document is strictly closer than any returned one,
     - ties are in insertion order (also across the cut). *)
Theorem C13_index_search_exact_nn :
  forall (E D : Type) (dim : E -> N) (dist : E -> E -> D) (dle : D -> D -> bool) (okD : D -> Prop),
    (forall a b, okD a -> okD b -> dle a b = true \/ dle b a = true) ->
    (forall a b c, okD a -> okD b -> okD c -> dle a b = true -> dle b c = true -> dle a c = true) ->
    forall (q : E) (docs : list (doc E)) (limit : N),
      dim q <> 0 ->
      dims_ok E dim q docs ->
      no_nan_distance E D dist okD q docs ->
      exists hits,
        index_search E D dim dist dle docs q limit = Ok hits /\
        hits = truncate (isort (hit_le D dle) (all_hits E D dist q docs)) limit /\
        exact_nn E D dist dle okD docs q limit hits.
Proof. exact isearch_exact. Qed.
Print Assumptions C13_index_search_exact_nn.

(* (5) the property determines the answer completely: any hit list meeting exact_nn is the
   one the model (hence, by the correspondence, the implementation) returns *)
Theorem C13_answer_is_unique :
  forall (E D : Type) (dist : E -> E -> D) (dle : D -> D -> bool) (okD : D -> Prop),
    (forall a b, okD a -> okD b -> dle a b = true \/ dle b a = true) ->
    (forall a b c, okD a -> okD b -> okD c -> dle a b = true -> dle b c = true -> dle a c = true) ->
    forall (q : E) (docs : list (doc E)) (limit : N) (hits' : list (hit D)),
      no_nan_distance E D dist okD q docs ->
      exact_nn E D dist dle okD docs q limit hits' ->
      hits' = truncate (isort (hit_le D dle) (all_hits E D dist q docs)) limit.
Proof. exact exact_nn_unique. Qed.
Print Assumptions C13_answer_is_unique.

(* (6) with NO assumption on the comparison (NaN distances included): still min(limit, m)
   hits, each a distinct document of the index with its distance *)
Theorem C13_count_and_membership_unconditional :
  forall (E D : Type) (dim : E -> N) (dist : E -> E -> D) (dle : D -> D -> bool)
         (q : E) (docs : list (doc E)) (limit : N),
    dim q <> 0 -> dims_ok E dim q docs ->
    exists hits rest,
      index_search E D dim dist dle docs q limit = Ok hits /\
      N.of_nat (length hits) = N.min limit (N.of_nat (length docs)) /\
      Permutation (hits ++ rest) (all_hits E D dist q docs).
Proof. exact isearch_count_perm. Qed.
Print Assumptions C13_count_and_membership_unconditional.

(* (7) edge behaviour as the code has it: an empty query returns no hits; a document of
   another dimension than the (non-empty) query makes the kernel's length assertion fire *)
Theorem C13_empty_query_no_hits :
  forall (E D : Type) (dim : E -> N) (dist : E -> E -> D) (dle : D -> D -> bool)
         (docs : list (doc E)) (q : E) (limit : N),
    dim q = 0 -> index_search E D dim dist dle docs q limit = Ok [].
Proof. exact isearch_empty_query. Qed.
Print Assumptions C13_empty_query_no_hits.

Theorem C13_mixed_dimension_index_panics :
  forall (E D : Type) (dim : E -> N) (dist : E -> E -> D) (dle : D -> D -> bool)
         (q : E) (docs : list (doc E)) (limit : N),
    dim q <> 0 -> (exists d, In d docs /\ dim (doc_emb d) <> dim q) ->
    index_search E D dim dist dle docs q limit = Panic P_DIST_LEN.
Proof. exact isearch_panic. Qed.
Print Assumptions C13_mixed_dimension_index_panics.

(* ------------------------------------------------------------------ Memvid::search_vec *)
(* Histories: any list of enable_vec / put (with or without embedding) / delete / commit /
   close+reopen / search_vec calls from an empty memory (Model/VecSearch.v, vrun).
   `reached ops` is the state after them; `index_docs` its committed, active embeddings.
   op_ok excludes exactly the put of an embedding of length 0 (known class) and of one
   with 2^32 components or more. *)

(* (8) THE PROPERTY at memory level, outside the known classes: a query of the index
   dimension gets the exact nearest neighbours among the committed active embeddings *)
Theorem C13_search_vec_exact_nn :
  forall (E D : Type) (dim : E -> N) (dist : E -> E -> D) (dle : D -> D -> bool) (okD : D -> Prop),
    (forall a b, okD a -> okD b -> dle a b = true \/ dle b a = true) ->
    (forall a b c, okD a -> okD b -> okD c -> dle a b = true -> dle b c = true -> dle a c = true) ->
    forall (ops : list (vop E)) (q : E) (limit : N) (d0 : doc E),
      Forall (op_ok E dim) ops ->
      In d0 (index_docs E (reached E D dim dist dle ops)) ->
      dim q = dim (doc_emb d0) ->
      no_nan_distance E D dist okD q (index_docs E (reached E D dim dist dle ops)) ->
      exists hits,
        search_vec E D dim dist dle (vmem_of E (reached E D dim dist dle ops)) q limit = Ok hits /\
        exact_nn E D dist dle okD (index_docs E (reached E D dim dist dle ops)) q limit hits.
Proof. exact reached_search_exact. Qed.
Print Assumptions C13_search_vec_exact_nn.

(* (9) a query whose dimension differs from the index dimension is rejected with
   VecDimensionMismatch -- an error, not a panic, whatever the distances: the check runs
   before any distance is computed *)
Theorem C13_wrong_dimension_rejected :
  forall (E D : Type) (dim : E -> N) (dist : E -> E -> D) (dle : D -> D -> bool)
         (ops : list (vop E)) (q : E) (limit : N) (d0 : doc E),
    Forall (op_ok E dim) ops ->
    In d0 (index_docs E (reached E D dim dist dle ops)) ->
    dim q < U32_MOD -> dim q <> dim (doc_emb d0) ->
    search_vec E D dim dist dle (vmem_of E (reached E D dim dist dle ops)) q limit = Err E_DIM_MISMATCH.
Proof. exact reached_wrong_dim. Qed.
Print Assumptions C13_wrong_dimension_rejected.

(* (10) outside the known class search_vec never panics *)
Theorem C13_search_vec_never_panics_outside_known :
  forall (E D : Type) (dim : E -> N) (dist : E -> E -> D) (dle : D -> D -> bool)
         (ops : list (vop E)) (q : E) (limit : N),
    Forall (op_ok E dim) ops -> dim q < U32_MOD ->
    forall site, search_vec E D dim dist dle (vmem_of E (reached E D dim dist dle ops)) q limit <> Panic site.
Proof. exact reached_no_panic. Qed.
Print Assumptions C13_search_vec_never_panics_outside_known.

(* (11) close and reopen, for EVERY history (known classes included): reopening yields the
   committed state; with nothing pending it is the same state, so every answer is identical *)
Theorem C13_reopen_is_commit :
  forall (E D : Type) (dim : E -> N) (dist : E -> E -> D) (dle : D -> D -> bool) (ops : list (vop E)),
    vreopen E dim (reached E D dim dist dle ops) = vcommit E dim (reached E D dim dist dle ops).
Proof. exact reached_reopen. Qed.
Print Assumptions C13_reopen_is_commit.

Theorem C13_results_identical_after_reopen :
  forall (E D : Type) (dim : E -> N) (dist : E -> E -> D) (dle : D -> D -> bool)
         (ops : list (vop E)) (q : E) (limit : N),
    vs_pending E (reached E D dim dist dle ops) = [] ->
    vreopen E dim (reached E D dim dist dle ops) = reached E D dim dist dle ops /\
    search_vec E D dim dist dle (vmem_of E (vreopen E dim (reached E D dim dist dle ops))) q limit =
    search_vec E D dim dist dle (vmem_of E (reached E D dim dist dle ops)) q limit.
Proof. exact reached_reopen_clean. Qed.
Print Assumptions C13_results_identical_after_reopen.

(* (12) the model's "the reopened index is the committed document list" rests on the codec
   round trip of Vec<VecDocument> (bincode; C30), stated as a hypothesis and tested on the
   implementation by the harness (decode(finish().bytes) holds the documents bit for bit) *)
Theorem C13_index_bytes_roundtrip :
  forall (E : Type) (enc : list (doc E) -> bytes) (dec : bytes -> option (list (doc E) * nat)),
    (forall docs, dec (enc docs) = Some (docs, length (enc docs))) ->
    forall docs, index_decode E dec (enc docs) = Ok docs.
Proof. exact index_decode_encode. Qed.
Print Assumptions C13_index_bytes_roundtrip.

(* ------------------------------------------------------------------ known findings *)
(* concrete instance: an embedding is (dimension, distance-to-the-query); distances are
   f32key (None = NaN), compared by f32_le = partial_cmp(..).unwrap_or(Equal) *)
Definition XE := (N * f32key)%type.
Definition xdim (e : XE) : N := fst e.
Definition xdist (_ e : XE) : f32key := snd e.

(* F-C13-1: an empty embedding is accepted by put and stored by commit; the next search of
   the index dimension panics *)
Definition ops_empty : list (vop XE) :=
  [VPut 0 (Some (2, Some 10)); VPut 1 (Some (0, Some 0)); VCommit].

Theorem C13_search_vec_refuted_empty_embedding :
  exists (ops : list (vop XE)) (q : XE) (limit : N),
    existsb (op_puts_empty XE xdim) ops = true /\
    forallb (op_dim_fits_u32 XE xdim) ops = true /\
    search_vec XE f32key xdim xdist f32_le (vmem_of XE (reached XE f32key xdim xdist f32_le ops)) q limit
      = Panic P_DIST_LEN.
Proof. exists ops_empty, (2, Some 0), 1. vm_compute. repeat split. Qed.
Print Assumptions C13_search_vec_refuted_empty_embedding.

(* F-C13-2: one NaN distance and the nearest document is not returned.
   distances 30, 60, +inf(1000), NaN, 22: the search for 1 hit returns the document at 30 *)
Definition docs_nan : list (doc XE) :=
  [mkDoc 0 (2, Some 30); mkDoc 1 (2, Some 60); mkDoc 2 (2, Some 1000); mkDoc 3 (2, None); mkDoc 4 (2, Some 22)].

Theorem C13_exact_nn_refuted_nan_distance :
  exists (docs : list (doc XE)) (q : XE) (limit : N) (hits : list (hit f32key)),
    xdim q <> 0 /\ dims_ok XE xdim q docs /\
    index_search XE f32key xdim xdist f32_le docs q limit = Ok hits /\
    ~ exact_nn XE f32key xdist f32_le (fun d => f32_okb d = true) docs q limit hits.
Proof.
  exists docs_nan, (2, Some 0), 1, [(0, Some 30)].
  split; [vm_compute; discriminate|]. split.
  { intros d Hd. vm_compute in Hd. repeat (destruct Hd as [<-|Hd]; [reflexivity|]). destruct Hd. }
  split; [vm_compute; reflexivity|].
  intros [rest [_ [Hperm [_ [Hcross _]]]]].
  assert (Hin : In (4, Some 22) ([(0, Some 30)] ++ rest)).
  { apply (Permutation_in _ (Permutation_sym Hperm)). vm_compute. tauto. }
  apply in_app_or in Hin. destruct Hin as [Hin|Hin].
  - vm_compute in Hin. destruct Hin as [Hin|[]]. discriminate.
  - specialize (Hcross (0, Some 30) (4, Some 22) (or_introl eq_refl) Hin).
    vm_compute in Hcross. discriminate.
Qed.
Print Assumptions C13_exact_nn_refuted_nan_distance.

(* outside the two classes (known_class = no empty embedding put, no NaN distance from the
   query to an indexed embedding) the property holds; f32 instance of the comparison *)
Theorem C13_search_vec_outside_known :
  forall (E : Type) (dim : E -> N) (dist : E -> E -> f32key)
         (ops : list (vop E)) (q : E) (limit : N) (d0 : doc E),
    forallb (op_dim_fits_u32 E dim) ops = true ->
    In d0 (index_docs E (reached E f32key dim dist f32_le ops)) ->
    dim q = dim (doc_emb d0) ->
    known_class E f32key dim dist f32_le f32_okb ops q = false ->
    exists hits,
      search_vec E f32key dim dist f32_le (vmem_of E (reached E f32key dim dist f32_le ops)) q limit = Ok hits /\
      exact_nn E f32key dist f32_le (fun d => f32_okb d = true)
               (index_docs E (reached E f32key dim dist f32_le ops)) q limit hits.
Proof.
  intros E dim dist.
  exact (reached_search_outside_known E f32key dim dist f32_le f32_okb f32_le_total f32_le_trans).
Qed.
Print Assumptions C13_search_vec_outside_known.

(* ------------------------------------------------------------------ non-vacuity *)
(* a history with ties, a duplicate vector, a frame without embedding, a rejected put of
   another dimension, a delete and a reopen: 4 active embeddings of dimension 3 *)
Definition ops_ok : list (vop XE) :=
  [VPut 0 (Some (3, Some 50)); VPut 1 None; VPut 2 (Some (3, Some 20)); VPut 3 (Some (3, Some 50));
   VPut 4 (Some (4, Some 1)); VCommit; VPut 4 (Some (3, Some 20)); VPut 5 (Some (3, Some 70));
   VDelete 0; VReopen; VSearch (3, Some 0) 2].

Example C13_nonvacuous :
  existsb (op_puts_empty XE xdim) ops_ok = false /\
  forallb (op_dim_fits_u32 XE xdim) ops_ok = true /\
  known_class XE f32key xdim xdist f32_le f32_okb ops_ok (3, Some 0) = false /\
  map (@doc_id XE) (index_docs XE (reached XE f32key xdim xdist f32_le ops_ok)) = [2; 3; 4; 5] /\
  (* ties (20, 20) in insertion order, the two documents at 50/70 omitted *)
  search_vec XE f32key xdim xdist f32_le (vmem_of XE (reached XE f32key xdim xdist f32_le ops_ok)) (3, Some 0) 2
    = Ok [(2, Some 20); (4, Some 20)] /\
  (* the put of dimension 4 was rejected, a query of dimension 4 is rejected *)
  snd (vrun XE f32key xdim xdist f32_le vinit ops_ok) =
    [Ok []; Ok []; Ok []; Ok []; Err E_DIM_MISMATCH; Ok []; Ok []; Ok []; Ok []; Ok [];
     Ok [(2, Some 20); (4, Some 20)]] /\
  search_vec XE f32key xdim xdist f32_le (vmem_of XE (reached XE f32key xdim xdist f32_le ops_ok)) (4, Some 0) 2
    = Err E_DIM_MISMATCH.
Proof. vm_compute. repeat split. Qed.

(* the order hypotheses are satisfiable: the f32 comparison on non-NaN keys *)
Example C13_f32_order_is_total_preorder :
  (forall a b, f32_okb a = true -> f32_okb b = true -> f32_le a b = true \/ f32_le b a = true) /\
  (forall a b c, f32_okb a = true -> f32_okb b = true -> f32_okb c = true ->
                 f32_le a b = true -> f32_le b c = true -> f32_le a c = true).
Proof. split; [exact f32_le_total | exact f32_le_trans]. Qed.

(* ... and fail with NaN: Equal to both sides of a strict inequality *)
Example C13_f32_order_not_transitive_with_nan :
  f32_le (Some 5) None = true /\ f32_le None (Some 3) = true /\ f32_le (Some 5) (Some 3) = false.
Proof. vm_compute. repeat split. Qed.
