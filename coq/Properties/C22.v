(* C22 No panic or hang on arbitrary file bytes.
   Statements only; proofs in Proofs/OpenSeqProofs.v (new) and in the proof files of C30, C31,
   C32, C39, C16 (collected here as corollaries).  For every modelled decoder on the path of
   open / open_read_only / verify / doctor and the read APIs:
     "never Panic" for ALL byte strings (each Rust +, -, *, %, index, slice, with_capacity that can
     panic in the debug profile is an explicit checked operation of the model), and the loop's
     termination measure (fuel that is never exhausted).
   The sites where the earlier model REFUTED totality (time-index capacity, sketch-track count
   multiplication, top_k + cursor, top_k * 10; findings F-C22-1..4, and -8, -9, -11) have been
   repaired in /repo; the theorems below are about the repaired code and are unconditional.
   Not repaired and outside every model here: Tantivy's decoders on damaged segment bytes
   (F-C22-6, F-C22-7: test only).
   Partial overall: serde / Tantivy / zstd / HNSW internals, doctor's rebuild logic and the
   search pipeline beyond cursor arithmetic are covered by the child-process test only. *)
From MV Require Import Base.Prelude Model.Footer Model.Header Model.Bincode Model.Toc
  Model.SearchPage Model.Query Model.OpenSeq
  Proofs.HeaderProofs Proofs.QueryProofs Proofs.OpenSeqProofs.
From MV Require Model.Sketch.
Local Open Scope N_scope.

(* ---------------------------------------------------------------- header *)
(* measure: none (straight-line code over a fixed 4096-byte buffer) *)
Theorem C22_header_decode_no_panic : forall b s, header_decode b <> Panic s.
Proof. exact header_decode_no_panic. Qed.
Print Assumptions C22_header_decode_no_panic.

Theorem C22_header_read_no_panic : forall file s, fst (header_read file) <> Panic s.
Proof. exact header_read_no_panic. Qed.
Print Assumptions C22_header_read_no_panic.

(* ---------------------------------------------------------------- footer scan *)
(* measure: search_end (structural recursion in Model/Footer.v): it answers for every buffer,
   and what it answers lies inside the buffer *)
Theorem C22_footer_scan_answers :
  forall (H : bytes -> bytes) b,
    (find_last_valid_footer H b = None /\ forall q, valid_at H b q = false) \/
    (exists s pos, find_last_valid_footer H b = Some s /\ valid_at H b pos = true /\
                   slice_at b pos = Some s /\ (pos + FOOTER_SIZE <= length b)%nat).
Proof. exact footer_scan_answers. Qed.
Print Assumptions C22_footer_scan_answers.

(* measure of locate_footer_window: the number of doublings until the window covers the file
   (at most 64 below 2^63 bytes); `mmap.len() - window`, `&mmap[start..]`, `window * 2` never panic *)
Theorem C22_locate_footer_window_total :
  forall (A : Type) (find : bytes -> option A) mmap,
    N.of_nat (length mmap) < 2 ^ 63 -> exists r, locate_footer_window find mmap = Ok r.
Proof. intros A. exact (@locate_footer_window_total A). Qed.
Print Assumptions C22_locate_footer_window_total.

(* ---------------------------------------------------------------- log scan (EmbeddedWal::scan_records / open_internal) *)
(* for every file below 2^63 bytes, every wal_offset, wal_size, checkpoint position and
   sequence a header can hold, and every hash function *)
Theorem C22_wal_scan_no_panic :
  forall (H : bytes -> bytes) file offset size,
    bytes_ok file = true -> N.of_nat (length file) < 2 ^ 63 -> offset < 2 ^ 64 ->
    forall s, scan_chk H (S (length file)) file offset size 0 <> Panic s.
Proof. intros H file offset size Hok Hl Ho s. apply scan_chk_no_panic; auto. Qed.
Print Assumptions C22_wal_scan_no_panic.

(* measure: bytes of the file after offset + cursor (each round consumes >= 49 of them) *)
Theorem C22_wal_scan_terminates :
  forall (H : bytes -> bytes) file offset size, scan_chk H (S (length file)) file offset size 0 <> Err E_FUEL.
Proof. exact scan_records_terminates. Qed.
Print Assumptions C22_wal_scan_terminates.

(* open_internal as repaired by 03a10a9: the header's wal_offset is now ARBITRARY (no bound needed:
   the region check rejects what does not fit the file before anything is read) *)
Theorem C22_wal_open_no_panic :
  forall (H : bytes -> bytes) file offset size ckpt_pos ckpt_seq,
    bytes_ok file = true -> N.of_nat (length file) < 2 ^ 63 ->
    (forall s, wal_open_chk H file offset size ckpt_pos ckpt_seq <> Panic s) /\
    wal_open_chk H file offset size ckpt_pos ckpt_seq <> Err E_FUEL.
Proof. intros. split; [apply wal_open_chk_no_panic; assumption | apply wal_open_chk_fuel]. Qed.
Print Assumptions C22_wal_open_no_panic.

(* an accepted log region lies inside the file (so the sentinel write / doctor's zeroing cannot
   extend it: finding F-C22-8, repaired) *)
Theorem C22_wal_open_region_inside_file :
  forall (H : bytes -> bytes) file offset size ckpt_pos ckpt_seq r,
    wal_open_chk H file offset size ckpt_pos ckpt_seq = Ok r ->
    size <> 0 /\ offset + size <= N.of_nat (length file).
Proof. exact wal_open_chk_region_inside. Qed.
Print Assumptions C22_wal_open_region_inside_file.

(* ---------------------------------------------------------------- time index read_track (repaired: b6c8721) *)
(* measure: the declared count, bounded by the bytes left (read_exact fails at EOF).
   The allocator is an oracle (any function): try_reserve_exact turns its refusal into an error. *)
Theorem C22_time_index_read_total :
  forall (alloc_ok : N -> bool) file offset len s, ti_read_track alloc_ok file offset len <> Panic s.
Proof. exact ti_read_track_no_panic. Qed.
Print Assumptions C22_time_index_read_total.

(* the former panic class (F-C22-1 / F-C30-1) is now exactly the error "entry count too large" *)
Theorem C22_time_index_capacity_class_is_error :
  forall (alloc_ok : N -> bool) file offset len,
    let avail := skipn offset file in
    (12 <= length avail)%nat -> firstn 4 avail = TI_MAGIC ->
    let count := le_decode (slice avail 4 8) in
    count * 16 < 2 ^ 64 -> len = 12 + count * 16 -> 2 ^ 63 <= count * 16 ->
    ti_read_track alloc_ok file offset len = Err E_TI_TOO_LARGE.
Proof. exact ti_read_track_capacity_class_is_error. Qed.
Print Assumptions C22_time_index_capacity_class_is_error.

(* ---------------------------------------------------------------- bincode / TOC *)
(* measure: the schema (structural) and, per vector / map, the declared length, which is checked
   against the bytes left before the element loop starts *)
Theorem C22_bincode_decode_no_panic : forall s bs p, dec s bs <> Panic p.
Proof. exact dec_no_panic. Qed.
Print Assumptions C22_bincode_decode_no_panic.

Theorem C22_toc_decode_no_panic : forall bs p, toc_decode bs <> Panic p.
Proof. exact toc_decode_no_panic. Qed.
Print Assumptions C22_toc_decode_no_panic.

Theorem C22_toc_prefix_no_panic : forall b s, verify_toc_prefix b <> Panic s.
Proof. exact verify_toc_prefix_no_panic. Qed.
Print Assumptions C22_toc_prefix_no_panic.

Theorem C22_toc_prefix_accepts_exactly :
  forall b, verify_toc_prefix b = Ok tt <->
    (24 <= length b)%nat /\
    le_decode (slice b 0 8) <= 32 /\ le_decode (slice b 8 8) <= MAX_SEGMENTS /\ le_decode (slice b 16 8) <= MAX_FRAMES /\
    32 * le_decode (slice b 8 8) + 64 * le_decode (slice b 16 8) <= N.of_nat (length b).
Proof. exact verify_toc_prefix_ok_iff. Qed.
Print Assumptions C22_toc_prefix_accepts_exactly.

(* read_toc: `len - footer_offset`, `buf.len() - FOOTER_SIZE`, both slices: for any Toc decoder that
   does not panic, and for the modelled one *)
Theorem C22_read_toc_no_panic :
  forall (H : bytes -> bytes) (TOC : Type) (toc_dec : bytes -> outcome TOC),
    (forall b s, toc_dec b <> Panic s) ->
    forall file footer_offset s, read_toc H toc_dec file footer_offset <> Panic s.
Proof. intros H TOC toc_dec. exact (read_toc_no_panic H toc_dec). Qed.
Print Assumptions C22_read_toc_no_panic.

Theorem C22_read_toc_concrete_no_panic :
  forall (H : bytes -> bytes) file footer_offset s, read_toc H toc_decode file footer_offset <> Panic s.
Proof. exact read_toc_concrete_no_panic. Qed.
Print Assumptions C22_read_toc_concrete_no_panic.

Theorem C22_nonoverlap_no_panic : forall frames file_len s, ensure_non_overlapping frames file_len <> Panic s.
Proof. exact ensure_non_overlapping_no_panic. Qed.
Print Assumptions C22_nonoverlap_no_panic.

(* ---------------------------------------------------------------- sketch track read (repaired: bc37f0b) *)
(* measure: entry_count, bounded by the bytes left *)
Theorem C22_sketch_read_total :
  forall file offset len s, read_sketch_track file offset len <> Panic s.
Proof. exact read_sketch_track_no_panic. Qed.
Print Assumptions C22_sketch_read_total.

(* the former panic class (F-C22-2) is now the error "entry count overflows" *)
Theorem C22_sketch_count_overflow_is_error :
  forall file offset len,
    offset <= N.of_nat (length file) ->
    let r := skipn (N.to_nat offset) file in
    (Sketch.SKETCH_HEADER_SIZE <= length r)%nat ->
    let hb := firstn Sketch.SKETCH_HEADER_SIZE r in
    bytes_eqb (slice hb 0 4) Sketch.SKETCH_TRACK_MAGIC = true ->
    Sketch.variant_of_size (Sketch.u16_at hb 6) <> None ->
    2 ^ 64 <= N.of_nat Sketch.SKETCH_HEADER_SIZE + Sketch.u64_at hb 8 * Sketch.u16_at hb 6 ->
    read_sketch_track file offset len = Err E_SK_OVERFLOW.
Proof. exact read_sketch_track_overflow_is_error. Qed.
Print Assumptions C22_sketch_count_overflow_is_error.

(* ---------------------------------------------------------------- query text (model and proofs of C32) *)
(* measure: |text| for the lexer, 4|tokens|+4 for the parser (depth-limited since 932224c) *)
Theorem C22_query_parse_total :
  forall (alnum : N -> bool) (parse_date : str -> option Z) (q : str),
    no_panic (fst (parse_query alnum parse_date q)).
Proof. exact parse_query_total. Qed.
Print Assumptions C22_query_parse_total.

(* ---------------------------------------------------------------- cursor / top_k arithmetic of search *)
Theorem C22_parse_cursor_no_panic : forall c total s, parse_cursor c total <> Panic s.
Proof. exact parse_cursor_no_panic. Qed.
Print Assumptions C22_parse_cursor_no_panic.

(* the sizing arithmetic of search as repaired by 9b4da04 / 51f7ee1 is saturating: total
   functions.  Stated: every value fits a usize, the collector limit is never 0 (Tantivy panics
   on 0) and never above the number of indexed documents (Tantivy allocates 2 * limit up front:
   F-C22-9), the recency age never leaves i64 (F-C22-11). *)
Theorem C22_doc_limit_in_range :
  forall top_k hint flt, (forall f, flt = Some f -> f <= USIZE_LAST) -> 1 <= search_doc_limit top_k hint flt <= USIZE_LAST.
Proof. exact search_doc_limit_in_range. Qed.
Print Assumptions C22_doc_limit_in_range.

Theorem C22_sketch_candidates_in_range : forall top_k, 500 <= sketch_max_candidates top_k <= USIZE_LAST.
Proof. exact sketch_max_candidates_in_range. Qed.
Print Assumptions C22_sketch_candidates_in_range.

Theorem C22_collector_limit_bounded :
  forall limit index_docs,
    1 <= collector_limit limit index_docs <= N.max index_docs 1 /\ collector_limit limit index_docs <= N.max limit 1.
Proof. exact collector_limit_bounded. Qed.
Print Assumptions C22_collector_limit_bounded.

Theorem C22_recency_age_in_range : forall max_ts ts, (0 <= recency_age max_ts ts <= 2 ^ 63 - 1)%Z.
Proof. exact recency_age_in_range. Qed.
Print Assumptions C22_recency_age_in_range.

(* ---------------------------------------------------------------- encrypted capsule header *)
Theorem C22_mv2e_decode_no_panic : forall b s, mv2e_decode b <> Panic s.
Proof. exact mv2e_decode_no_panic. Qed.
Print Assumptions C22_mv2e_decode_no_panic.

(* ---------------------------------------------------------------- open_locked as a decision procedure *)
(* if every decoder / loader it calls answers Ok or Err, open answers Ok or Err *)
Theorem C22_open_locked_no_panic :
  forall (TOC ST : Type) (c : @components TOC ST),
    comps_no_panic c ->
    (forall s, open_locked c <> Panic s) /\
    ((exists st, open_locked c = Ok st) \/ (exists k, open_locked c = Err k)).
Proof. intros TOC ST c Hc. split; [apply open_locked_no_panic; exact Hc | apply open_locked_ok_or_err; exact Hc]. Qed.
Print Assumptions C22_open_locked_no_panic.

(* ---------------------------------------------------------------- non-vacuity *)
Definition toyH (x : bytes) : bytes := repeat (fold_left N.add x 0 mod 256) 32.
Definition rec_img (seq : N) (p : bytes) : bytes :=
  le_encode 8 seq ++ le_encode 4 (N.of_nat (length p)) ++ repeat 0 4 ++ toyH p ++ p.
(* a "file": 10 bytes of something, two log records (sequence 5 and 6), a zero header *)
Definition wal_sample : bytes := repeat 7 10 ++ rec_img 5 [1; 2; 3] ++ rec_img 6 [9] ++ repeat 0 48.

Example C22_wal_nonvacuous :
  bytes_ok wal_sample = true /\ N.of_nat (length wal_sample) < 2 ^ 63 /\
  wal_open_chk toyH wal_sample 10 148 7 5 = Ok (49, 6, 7) /\
  wal_open_chk toyH wal_sample 10 99 0 0 = Err E_WAL_LEN /\
  wal_open_chk toyH wal_sample 10 149 0 0 = Err E_WAL_REGION /\
  wal_open_chk toyH wal_sample 150 8 0 0 = Ok (0, 0, 0) /\
  wal_open_chk toyH wal_sample 18446744073709551615 200 0 0 = Err E_WAL_REGION /\
  (* the former panic / abort inputs, now errors or clamped values *)
  ti_read_track (fun _ => true) (TI_MAGIC ++ le_encode 8 (2 ^ 59)) 0 (12 + 16 * 2 ^ 59) = Err E_TI_TOO_LARGE /\
  ti_read_track (fun _ => false) (TI_MAGIC ++ le_encode 8 1 ++ repeat 0 16) 0 28 = Err E_TI_TOO_LARGE /\
  ti_read_track (fun _ => true) (TI_MAGIC ++ le_encode 8 1 ++ repeat 0 16) 0 28 = Ok [(0%Z, 0)] /\
  read_sketch_track (Sketch.SKETCH_TRACK_MAGIC ++ le_encode 2 1 ++ le_encode 2 32 ++ le_encode 8 (2 ^ 60) ++ repeat 0 8) 0 24 = Err E_SK_OVERFLOW /\
  search_doc_limit 1 18446744073709551615 None = 18446744073709551615 /\
  sketch_max_candidates 18446744073709551615 = 18446744073709551615 /\
  collector_limit 18446744073709551615 8 = 8 /\ collector_limit 5 0 = 1 /\
  recency_age 1700000000 (- 2 ^ 63) = (2 ^ 63 - 1)%Z.
Proof. vm_compute. repeat split; try reflexivity. Qed.

(* read_toc on a file whose tail is a 24-byte TOC prefix (version 1, no segments, no frames) and
   its footer; the "decoder" hands the bytes back *)
Definition toc24 : bytes := le_encode 8 1 ++ le_encode 8 0 ++ le_encode 8 0.
Definition toc_file : bytes := repeat 3 10 ++ toc24 ++ footer_encode (mkFooter 24 (toyH toc24) 4).
Example C22_read_toc_nonvacuous :
  read_toc toyH (fun b => Ok b) toc_file 10 = Ok toc24 /\
  read_toc toyH (fun b => Ok b) toc_file 11 = Err E_TOC_LEN /\
  read_toc toyH (fun b => Ok b) toc_file 91 = Err E_TOC_BEYOND /\
  read_toc toyH (fun b => Ok b) toc_file 60 = Err E_TOC_NOFOOTER /\
  (exists r, locate_footer_window (find_last_valid_footer toyH) toc_file = Ok (Some r)).
Proof. vm_compute. repeat split; try reflexivity. eexists; reflexivity. Qed.

(* open_locked: a component table in which read_toc fails with a recoverable error, recovery
   finds the TOC at another offset, the header is rewritten, two loaders run *)
Definition hdr0 : header := mkHeader MAGIC EXPECTED_VERSION 100 4096 64 0 0 (repeat 0 32).
Definition comps_sample : @components N N :=
  @mkComponents N N false (Ok tt) (Ok hdr0) (fun _ => Err 34) (fun k => k =? 34) (fun _ => Ok (7, 90))
    (fun _ => repeat 1 32) (fun _ => Ok tt) (fun _ => true) (fun _ => Ok tt) (fun _ => Ok tt) (Ok 3)
    (fun h t g => h_footer_offset h + t + g) [(fun s => Ok (s + 1)); (fun s => Ok (s * 2))]
    (fun s => s) (fun _ => hdr0) (Ok tt).
Example C22_open_locked_nonvacuous :
  comps_no_panic comps_sample /\ open_locked comps_sample = Ok 202.
Proof.
  split; [|vm_compute; reflexivity].
  unfold comps_no_panic, comps_sample; cbn.
  repeat split; try discriminate. repeat constructor; discriminate.
Qed.
