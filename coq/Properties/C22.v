(* C22 No panic or hang on arbitrary file bytes.
   Statements only; proofs in Proofs/OpenSeqProofs.v (new) and in the proof files of C30, C31,
   C32, C39, C16 (collected here as corollaries).  For every modelled decoder on the path of
   open / open_read_only / verify / doctor and the read APIs:
     "never Panic" for ALL byte strings (each Rust +, -, *, %, index, slice, with_capacity that can
     panic in the debug profile is an explicit checked operation of the model), and the loop's
     termination measure (fuel that is never exhausted).
   Where the faithful model refutes totality the file holds the `_refuted` witness and the
   `_outside_known` theorem with the exact class.
   Partial overall: serde / Tantivy / zstd / HNSW internals, doctor's rebuild logic and the
   search pipeline beyond cursor arithmetic are covered by the child-process test only. *)
From MV Require Import Base.Prelude Model.Footer Model.Header Model.Bincode Model.Toc Model.TimeIndex
  Model.Sketch Model.SearchPage Model.Query Model.OpenSeq
  Proofs.HeaderProofs Proofs.TimeIndexProofs Proofs.QueryProofs Proofs.OpenSeqProofs.
Local Open Scope N_scope.

(* ---------------------------------------------------------------- header *)
(* measure: none (straight-line code over a fixed 4096-byte buffer) *)
Theorem C22_header_decode_no_panic : forall b s, header_decode b <> Panic s.
Proof. exact header_decode_no_panic. Qed.
Print Assumptions C22_header_decode_no_panic.

Theorem C22_header_read_no_panic : forall file s, fst (header_read file) <> Panic s.
Proof. exact header_read_no_panic. Qed.
Print Assumptions C22_header_read_no_panic.

(* ---------------------------------------------------------------- footer scan *)
(* measure: search_end (structural recursion in Model/Footer.v): it answers for every buffer,
   and what it answers lies inside the buffer *)
Theorem C22_footer_scan_answers :
  forall (H : bytes -> bytes) b,
    (find_last_valid_footer H b = None /\ forall q, valid_at H b q = false) \/
    (exists s pos, find_last_valid_footer H b = Some s /\ valid_at H b pos = true /\
                   slice_at b pos = Some s /\ (pos + FOOTER_SIZE <= length b)%nat).
Proof. exact footer_scan_answers. Qed.
Print Assumptions C22_footer_scan_answers.

(* measure of locate_footer_window: the number of doublings until the window covers the file
   (at most 64 below 2^63 bytes); `mmap.len() - window`, `&mmap[start..]`, `window * 2` never panic *)
Theorem C22_locate_footer_window_total :
  forall (A : Type) (find : bytes -> option A) mmap,
    N.of_nat (length mmap) < 2 ^ 63 -> exists r, locate_footer_window find mmap = Ok r.
Proof. intros A. exact (@locate_footer_window_total A). Qed.
Print Assumptions C22_locate_footer_window_total.

(* ---------------------------------------------------------------- log scan (EmbeddedWal::scan_records / open_internal) *)
(* for every file below 2^63 bytes, every wal_offset, wal_size, checkpoint position and
   sequence a header can hold, and every hash function *)
Theorem C22_wal_scan_no_panic :
  forall (H : bytes -> bytes) file offset size,
    bytes_ok file = true -> N.of_nat (length file) < 2 ^ 63 -> offset < 2 ^ 64 ->
    forall s, scan_chk H (S (length file)) file offset size 0 <> Panic s.
Proof. intros H file offset size Hok Hl Ho s. apply scan_chk_no_panic; auto. Qed.
Print Assumptions C22_wal_scan_no_panic.

(* measure: bytes of the file after offset + cursor (each round consumes >= 49 of them) *)
Theorem C22_wal_scan_terminates :
  forall (H : bytes -> bytes) file offset size, scan_chk H (S (length file)) file offset size 0 <> Err E_FUEL.
Proof. exact scan_records_terminates. Qed.
Print Assumptions C22_wal_scan_terminates.

Theorem C22_wal_open_no_panic :
  forall (H : bytes -> bytes) file offset size ckpt_pos ckpt_seq,
    bytes_ok file = true -> N.of_nat (length file) < 2 ^ 63 -> offset < 2 ^ 64 ->
    (forall s, wal_open_chk H file offset size ckpt_pos ckpt_seq <> Panic s) /\
    wal_open_chk H file offset size ckpt_pos ckpt_seq <> Err E_FUEL.
Proof. intros. split; [apply wal_open_chk_no_panic; assumption | apply wal_open_chk_fuel]. Qed.
Print Assumptions C22_wal_open_no_panic.

(* ---------------------------------------------------------------- time index (model and proofs of C30) *)
(* measure: the declared count, bounded by the bytes left (read_exact fails at EOF) *)
Definition ti_witness : bytes := TIME_INDEX_MAGIC ++ le_encode 8 (2 ^ 59).
Theorem C22_time_index_total_refuted :
  exists file pos len s, read_track file pos len = Panic s.
Proof. exists ti_witness, 0%nat, (12 + 16 * 2 ^ 59), P_TI_CAPACITY. vm_compute. reflexivity. Qed.
Print Assumptions C22_time_index_total_refuted.

Theorem C22_time_index_outside_known :
  forall file pos len, ti_capacity_class file pos len = false -> forall s, read_track file pos len <> Panic s.
Proof. exact read_track_no_panic_outside. Qed.
Print Assumptions C22_time_index_outside_known.

Theorem C22_time_index_class_exact :
  forall file pos len, (exists s, read_track file pos len = Panic s) <-> ti_capacity_class file pos len = true.
Proof. exact read_track_panic_iff. Qed.
Print Assumptions C22_time_index_class_exact.

(* ---------------------------------------------------------------- bincode / TOC *)
(* measure: the schema (structural) and, per vector / map, the declared length, which is checked
   against the bytes left before the element loop starts *)
Theorem C22_bincode_decode_no_panic : forall s bs p, dec s bs <> Panic p.
Proof. exact dec_no_panic. Qed.
Print Assumptions C22_bincode_decode_no_panic.

Theorem C22_toc_decode_no_panic : forall bs p, toc_decode bs <> Panic p.
Proof. exact toc_decode_no_panic. Qed.
Print Assumptions C22_toc_decode_no_panic.

Theorem C22_toc_prefix_no_panic : forall b s, verify_toc_prefix b <> Panic s.
Proof. exact verify_toc_prefix_no_panic. Qed.
Print Assumptions C22_toc_prefix_no_panic.

Theorem C22_toc_prefix_accepts_exactly :
  forall b, verify_toc_prefix b = Ok tt <->
    (24 <= length b)%nat /\
    le_decode (slice b 0 8) <= 32 /\ le_decode (slice b 8 8) <= MAX_SEGMENTS /\ le_decode (slice b 16 8) <= MAX_FRAMES /\
    32 * le_decode (slice b 8 8) + 64 * le_decode (slice b 16 8) <= N.of_nat (length b).
Proof. exact verify_toc_prefix_ok_iff. Qed.
Print Assumptions C22_toc_prefix_accepts_exactly.

(* read_toc: `len - footer_offset`, `buf.len() - FOOTER_SIZE`, both slices: for any Toc decoder that
   does not panic, and for the modelled one *)
Theorem C22_read_toc_no_panic :
  forall (H : bytes -> bytes) (TOC : Type) (toc_dec : bytes -> outcome TOC),
    (forall b s, toc_dec b <> Panic s) ->
    forall file footer_offset s, read_toc H toc_dec file footer_offset <> Panic s.
Proof. intros H TOC toc_dec. exact (read_toc_no_panic H toc_dec). Qed.
Print Assumptions C22_read_toc_no_panic.

Theorem C22_read_toc_concrete_no_panic :
  forall (H : bytes -> bytes) file footer_offset s, read_toc H toc_decode file footer_offset <> Panic s.
Proof. exact read_toc_concrete_no_panic. Qed.
Print Assumptions C22_read_toc_concrete_no_panic.

Theorem C22_nonoverlap_no_panic : forall frames file_len s, ensure_non_overlapping frames file_len <> Panic s.
Proof. exact ensure_non_overlapping_no_panic. Qed.
Print Assumptions C22_nonoverlap_no_panic.

(* ---------------------------------------------------------------- sketch track (model of C39) *)
(* measure: entry_count, bounded by the bytes left *)
Definition sketch_witness : bytes := SKETCH_TRACK_MAGIC ++ le_encode 2 1 ++ le_encode 2 32 ++ le_encode 8 (2 ^ 60) ++ repeat 0 8.
Theorem C22_sketch_read_total_refuted :
  exists file offset len s, read_sketch_track file offset len = Panic s.
Proof. exists sketch_witness, 0, 24, PANIC_MUL_OVERFLOW. vm_compute. reflexivity. Qed.
Print Assumptions C22_sketch_read_total_refuted.

Theorem C22_sketch_read_outside_known :
  forall file offset len, sketch_mul_class file offset = false -> forall s, read_sketch_track file offset len <> Panic s.
Proof. exact read_sketch_track_no_panic_outside. Qed.
Print Assumptions C22_sketch_read_outside_known.

Theorem C22_sketch_read_class_exact :
  forall file offset len, (exists s, read_sketch_track file offset len = Panic s) <-> sketch_mul_class file offset = true.
Proof. exact read_sketch_track_panic_iff. Qed.
Print Assumptions C22_sketch_read_class_exact.

(* ---------------------------------------------------------------- query text (model and proofs of C32) *)
(* measure: |text| for the lexer, 4|tokens|+4 for the parser (depth-limited since 932224c) *)
Theorem C22_query_parse_total :
  forall (alnum : N -> bool) (parse_date : str -> option Z) (q : str),
    no_panic (fst (parse_query alnum parse_date q)).
Proof. exact parse_query_total. Qed.
Print Assumptions C22_query_parse_total.

(* ---------------------------------------------------------------- cursor / top_k arithmetic of search *)
Theorem C22_parse_cursor_no_panic : forall c total s, parse_cursor c total <> Panic s.
Proof. exact parse_cursor_no_panic. Qed.
Print Assumptions C22_parse_cursor_no_panic.

(* `request.top_k.max(1) + offset_hint` (search/tantivy.rs) *)
Theorem C22_doc_limit_total_refuted :
  exists top_k hint flt s, doc_limit top_k hint flt = Panic s.
Proof. exists 1, 18446744073709551615, None, 1. vm_compute. reflexivity. Qed.
Print Assumptions C22_doc_limit_total_refuted.

Theorem C22_doc_limit_outside_known :
  forall top_k hint flt, N.max top_k 1 + hint <= USIZE_MAX -> forall s, doc_limit top_k hint flt <> Panic s.
Proof. intros top_k hint flt Hle s Hp. assert (E : USIZE_MAX < N.max top_k 1 + hint) by (apply (doc_limit_panic_iff top_k hint flt); exists s; exact Hp). apply N.lt_nge in E. apply E. exact Hle. Qed.
Print Assumptions C22_doc_limit_outside_known.

(* `(params.top_k * 10).max(500)` (search/mod.rs, sketch pre-filter) *)
Theorem C22_sketch_candidates_total_refuted :
  exists top_k s, sketch_max_candidates top_k = Panic s.
Proof. exists 18446744073709551615, P_MUL. vm_compute. reflexivity. Qed.
Print Assumptions C22_sketch_candidates_total_refuted.

Theorem C22_sketch_candidates_outside_known :
  forall top_k, top_k * 10 < 2 ^ 64 -> forall s, sketch_max_candidates top_k <> Panic s.
Proof. intros top_k Hlt s Hp. assert (E : 2 ^ 64 <= top_k * 10) by (apply (sketch_max_candidates_panic_iff top_k); exists s; exact Hp). apply N.le_ngt in E. apply E. exact Hlt. Qed.
Print Assumptions C22_sketch_candidates_outside_known.

(* ---------------------------------------------------------------- encrypted capsule header *)
Theorem C22_mv2e_decode_no_panic : forall b s, mv2e_decode b <> Panic s.
Proof. exact mv2e_decode_no_panic. Qed.
Print Assumptions C22_mv2e_decode_no_panic.

(* ---------------------------------------------------------------- open_locked as a decision procedure *)
(* if every decoder / loader it calls answers Ok or Err, open answers Ok or Err *)
Theorem C22_open_locked_no_panic :
  forall (TOC ST : Type) (c : @components TOC ST),
    comps_no_panic c ->
    (forall s, open_locked c <> Panic s) /\
    ((exists st, open_locked c = Ok st) \/ (exists k, open_locked c = Err k)).
Proof. intros TOC ST c Hc. split; [apply open_locked_no_panic; exact Hc | apply open_locked_ok_or_err; exact Hc]. Qed.
Print Assumptions C22_open_locked_no_panic.

(* ---------------------------------------------------------------- non-vacuity *)
Definition toyH (x : bytes) : bytes := repeat (fold_left N.add x 0 mod 256) 32.
Definition rec_img (seq : N) (p : bytes) : bytes :=
  le_encode 8 seq ++ le_encode 4 (N.of_nat (length p)) ++ repeat 0 4 ++ toyH p ++ p.
(* a "file": 10 bytes of something, two log records (sequence 5 and 6), a zero header *)
Definition wal_sample : bytes := repeat 7 10 ++ rec_img 5 [1; 2; 3] ++ rec_img 6 [9] ++ repeat 0 48.

Example C22_wal_nonvacuous :
  bytes_ok wal_sample = true /\ N.of_nat (length wal_sample) < 2 ^ 63 /\
  wal_open_chk toyH wal_sample 10 200 7 5 = Ok (49, 6, 7) /\
  wal_open_chk toyH wal_sample 10 99 0 0 = Err E_WAL_LEN /\
  wal_open_chk toyH wal_sample 150 200 0 0 = Err E_IO /\
  wal_open_chk toyH wal_sample 18446744073709551615 200 0 0 = Err E_IO.
Proof. vm_compute. repeat split; try reflexivity. Qed.

(* read_toc on a file whose tail is a 24-byte TOC prefix (version 1, no segments, no frames) and
   its footer; the "decoder" hands the bytes back *)
Definition toc24 : bytes := le_encode 8 1 ++ le_encode 8 0 ++ le_encode 8 0.
Definition toc_file : bytes := repeat 3 10 ++ toc24 ++ footer_encode (mkFooter 24 (toyH toc24) 4).
Example C22_read_toc_nonvacuous :
  read_toc toyH (fun b => Ok b) toc_file 10 = Ok toc24 /\
  read_toc toyH (fun b => Ok b) toc_file 11 = Err E_TOC_LEN /\
  read_toc toyH (fun b => Ok b) toc_file 91 = Err E_TOC_BEYOND /\
  read_toc toyH (fun b => Ok b) toc_file 60 = Err E_TOC_NOFOOTER /\
  (exists r, locate_footer_window (find_last_valid_footer toyH) toc_file = Ok (Some r)).
Proof. vm_compute. repeat split; try reflexivity. eexists; reflexivity. Qed.

(* open_locked: a component table in which read_toc fails with a recoverable error, recovery
   finds the TOC at another offset, the header is rewritten, two loaders run *)
Definition hdr0 : header := mkHeader MAGIC EXPECTED_VERSION 100 4096 64 0 0 (repeat 0 32).
Definition comps_sample : @components N N :=
  @mkComponents N N false (Ok tt) (Ok hdr0) (fun _ => Err 34) (fun k => k =? 34) (fun _ => Ok (7, 90))
    (fun _ => repeat 1 32) (fun _ => Ok tt) (fun _ => true) (fun _ => Ok tt) (fun _ => Ok tt) (Ok 3)
    (fun h t g => h_footer_offset h + t + g) [(fun s => Ok (s + 1)); (fun s => Ok (s * 2))]
    (fun s => s) (fun _ => hdr0) (Ok tt).
Example C22_open_locked_nonvacuous :
  comps_no_panic comps_sample /\ open_locked comps_sample = Ok 202.
Proof.
  split; [|vm_compute; reflexivity].
  unfold comps_no_panic, comps_sample; cbn.
  repeat split; try discriminate. repeat constructor; discriminate.
Qed.
