(* C05 Embedded log never loses or resurrects records.
   Statements only; proofs in Proofs/WalProofs.v; model Model/Wal.v; spec Model/WalSpec.v. *)
From MV Require Import Base.Prelude Model.Wal Model.WalSpec Proofs.WalProofs.
Local Open Scope N_scope.

(* For ANY 32-byte hash function H, ANY region size > 0 and ANY list of operations
   (append of any payload size, checkpoint, stats, pending, records_after, reopen from the
   header written at the last checkpoint, should_checkpoint), starting from a fresh region:
   the model of EmbeddedWal produces exactly the outputs the abstract specification
   Model/WalSpec.v allows, where
     - pending_records returns exactly the records appended since the last checkpoint, in order;
     - an append either gets the next sequence number and joins the pending list, or is refused
       with too-large / empty / too-small / full and changes nothing;
     - a checkpoint empties the pending list; stats report the pending bytes;
     - reopening from the header changes nothing.
   In particular no record from before the checkpoint is ever reported as pending and no
   acknowledged record is lost. *)
Theorem C05_log_refines_spec :
  forall (H : bytes -> bytes), (forall p, length (H p) = 32%nat) ->
  forall (thr : N * N) (period size : N) (ops : list wop),
    0 < size -> N.of_nat (length ops) < 2 ^ 64 ->
    exists w0, open_wal H (zeros (N.to_nat size)) size (mkHdr 0 0) = Ok w0 /\
               spec_run size (mkA [] 0 0) ops (wrun H thr period (w0, mkHdr 0 0) ops).
Proof. exact log_refines_spec. Qed.
Print Assumptions C05_log_refines_spec.

(* The scan lemma on its own: a region holding the images of any well-formed record list,
   followed by a zero header or by fewer than 48 bytes, scans back to exactly that list. *)
Theorem C05_scan_returns_written_records :
  forall (H : bytes -> bytes), (forall p, length (H p) = 32%nat) ->
  forall recs fuel tail cursor size,
    Forall rec_ok recs -> (length recs < fuel)%nat -> cursor + total recs <= size ->
    stops tail (cursor + total recs) size ->
    scan_from H fuel (images H recs ++ tail) cursor size = Ok (recs, cursor + total recs).
Proof. exact scan_images. Qed.
Print Assumptions C05_scan_returns_written_records.

(* constants tied to the source (regenerated each run) *)
Require MV.Gen.Consts.
Theorem C05_consts_tied : EH = MV.Gen.Consts.ENTRY_HEADER_SIZE.
Proof. reflexivity. Qed.
Print Assumptions C05_consts_tied.

(* Non-vacuity: a 200-byte region, toy 32-byte hash; the history fills the region to within
   48 bytes of its end (the case the original code got wrong), checkpoints, wraps, reopens. *)
Definition toyH (x : bytes) : bytes := repeat (fold_left N.add x 7 mod 256) 32.
Definition demo_ops : list wop :=
  [WAppend 30 1; WAppend 40 2; WPending; WCheckpoint; WPending; WAppend 1 3; WAppend 200 4;
   WAppend 10 5; WPending; WReopen; WPending; WCheckpoint; WAppend 100 6; WPending; WStats].
Example C05_nonvacuous :
  (forall p, length (toyH p) = 32%nat) /\
  exists w0, open_wal toyH (zeros 200) 200 (mkHdr 0 0) = Ok w0 /\
    wrun toyH (3, 4) 1000 (w0, mkHdr 0 0) demo_ops =
    [OSeq (Ok 1); OSeq (Ok 2);
     (* head now 166 of 200: fewer than 48 bytes left, both records still pending *)
     ORecs (Ok [mkRec 1 (payload_of 30 1); mkRec 2 (payload_of 40 2)]);
     OSeq (Ok 2); ORecs (Ok []);
     OSeq (Ok 3);            (* does not fit behind 166, nothing pending: wraps to offset 0 *)
     OSeq (Err 1);           (* 248 > 200: too small *)
     OSeq (Ok 4);
     ORecs (Ok [mkRec 3 (payload_of 1 3); mkRec 4 (payload_of 10 5)]);
     OOpen (Ok 0);
     ORecs (Ok [mkRec 3 (payload_of 1 3); mkRec 4 (payload_of 10 5)]);
     OSeq (Ok 4); OSeq (Ok 5); ORecs (Ok [mkRec 5 (payload_of 100 6)]); OStats 148 5].
Proof.
  split; [intros p; apply repeat_length|].
  eexists. split; [vm_compute; reflexivity|]. vm_compute. reflexivity.
Qed.
