(* C06 Frame identity is dense, ordered, predictable and stable.
   Same model and reference model as C01 (Model/Store.v, Model/StoreSpec.v). *)
From MV Require Import Base.Prelude Model.Store Model.StoreSpec Proofs.StoreProofs.
Local Open Scope N_scope.

(* For every history (put / chunked put / update / delete / commit / vacuum (= commit on the
   table) / reopen / doctor / crash+replay, any checkpoint timing): the frames exposed are
   numbered 0..n-1 by position, and next_frame_id() equals their number -- so it is the id the
   next document receives. *)
Theorem C06_ids_dense_and_predicted_partial :
  forall ops : list sop,
    let s := fst (srun store0 ops) in
    run_ok [] (combine ops (snd (srun store0 ops))) = true ->
    Dense (view s) /\ next_frame_id s = len (view s).
Proof. intros ops s Hok. destruct (reachable_facts ops Hok) as (_ & H2 & H3 & _). split; assumption. Qed.
Print Assumptions C06_ids_dense_and_predicted_partial.

(* the document created by an acknowledged put sits at index |R| with id |R| (R = frames
   exposed before the call), its chunks follow consecutively (ref_put appends them in order) *)
Theorem C06_put_gets_predicted_id :
  forall R uk tag nchunks role,
    exists f, nth_error (ref_put R uk tag nchunks role) (length R) = Some f /\
              f_id f = len R /\ f_tag f = tag /\ f_role f = role.
Proof. exact ref_put_doc_frame. Qed.
Print Assumptions C06_put_gets_predicted_id.

(* stability: whatever happens later, position i keeps holding a frame with the same id, uri,
   content tag, role, supersedes link and manifest flag (only status / superseded_by / parent
   may change) *)
Theorem C06_ids_stable :
  forall fr xs ys, Extends (ref_run fr xs) (ref_run fr (xs ++ ys)).
Proof. exact ids_stable. Qed.
Print Assumptions C06_ids_stable.

(* chunk frames follow their document consecutively and point back at it *)
Example C06_nonvacuous :
  let R := ref_put (ref_put [] (Some 1) 1000 0 0) None 2000 3 0 in
  map (fun f => (f_id f, f_role f, f_parent f, f_tag f)) R =
    [(0, 0, None, 1000); (1, 0, None, 2000); (2, 1, Some 1, 2001); (3, 1, Some 1, 2002); (4, 1, Some 1, 2003)] /\
  Dense R.
Proof. split; [vm_compute; reflexivity|]. apply Dense_ref_chunks, Dense_snoc; [|reflexivity]. apply Dense_ref_chunks, Dense_snoc; [apply Dense_nil|reflexivity]. Qed.
