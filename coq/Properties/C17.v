(* C17 At most one writer: the exclusive lock holds for the handle's lifetime.
   Statements only; the model is Model/LockTable.v (inodes, open file descriptions, flock), the
   proofs are in Proofs/LockTableProofs.v.

   run_fixed / step_fixed : the CORRECT protocol (the staging description takes the flock before
     the rename and becomes the handle's lock; an opener re-checks after the grant that the path
     still names the inode it locked; create truncates only under the lock).
   run_impl / step_impl   : what src/lock.rs + with_staging_lock do (self.lock keeps the description
     of the inode the commit replaced; the opener does not re-check; create truncates first).
   Ops: any interleaving, any number of handles, of OpenFd / OpenLock / GiveUp (a blocking open cut at
   the rounds of its retry loop), Open, Create(Fd), TryOpen, Put, Commit, Vacuum, Drop, Kill, Doctor. *)
From MV Require Import Base.Prelude Model.LockTable Proofs.LockTableProofs.
Local Open Scope N_scope.

(* (1) the property, for the correct protocol: after ANY op list at most one live writable handle *)
Theorem C17_one_writer_correct_protocol :
  forall ops : list op, one_writer (run_fixed ops).
Proof. exact fixed_one_writer. Qed.
Print Assumptions C17_one_writer_correct_protocol.

(* (2) ... and that writer holds the exclusive flock on the inode the path names, writes that inode,
       and its in-memory frame table / log position are exactly that file's *)
Theorem C17_writer_coherent_correct_protocol :
  forall (ops : list op) (w : N) (h : handle),
    s_hs (run_fixed ops) w = Some h -> h_phase h = PLive ->
    let s := run_fixed ops in
    h_lock_mode h = LEx /\ h_lock_ino h = s_dir s /\ h_file_ino h = s_dir s /\
    h_toc h = fst (s_files s (s_dir s)) /\ h_wpos h = length (snd (s_files s (s_dir s))).
Proof. exact fixed_writer_coherent. Qed.
Print Assumptions C17_writer_coherent_correct_protocol.

(* (3) "no commit is lost", correct protocol: in every reachable state a commit (vacuum, drop) keeps
       every frame the path's file held, whoever wrote it; a put appends exactly its record; an
       open / create that is not granted the lock changes no file *)
Theorem C17_commit_keeps_frames_correct_protocol :
  forall (ops : list op) (w : N),
    path_frames (commit_fixed (run_fixed ops) w) = path_frames (run_fixed ops).
Proof. exact fixed_commit_keeps_frames. Qed.
Print Assumptions C17_commit_keeps_frames_correct_protocol.

Theorem C17_put_appends_correct_protocol :
  forall (ops : list op) (w t : N), is_live (run_fixed ops) w = true ->
    path_frames (put (run_fixed ops) w t) = path_frames (run_fixed ops) ++ frames_of [t].
Proof. exact fixed_put_appends. Qed.
Print Assumptions C17_put_appends_correct_protocol.

Theorem C17_failed_open_changes_nothing_correct_protocol :
  forall (s : st) (w : N) (creating : bool),
    let s' := open_all open_lock_fixed false creating s w in
    s_hs s w = None -> is_live s' w = false ->
    s_dir s' = s_dir s /\ forall i, s_files s' i = s_files s i.
Proof. exact fixed_failed_open_changes_nothing. Qed.
Print Assumptions C17_failed_open_changes_nothing_correct_protocol.

(* (4) the implementation REFUTES the property: create; commit; open -- two live writers *)
Theorem C17_one_writer_refuted :
  exists ops : list op, ~ one_writer (run_impl ops).
Proof. exists witness_two_writers. exact impl_one_writer_refuted. Qed.
Print Assumptions C17_one_writer_refuted.

(* (5) known class F-C17-1 "a commit has replaced the inode since the handle took its lock":
       stale s = some live handle's flock is on an inode the path no longer names.  Outside it the
       property holds for every op list; in particular for every history without an
       inode-replacing step (commit, vacuum, drop, doctor -- and put: an open that finds log records
       replays them through a staged rename, so create; put; kill; open; open gives two writers) *)
Theorem C17_one_writer_outside_known :
  forall ops : list op, stale (run_impl ops) = false -> one_writer (run_impl ops).
Proof. exact impl_one_writer_outside_known. Qed.
Print Assumptions C17_one_writer_outside_known.

Theorem C17_one_writer_before_any_commit :
  forall ops : list op, forallb quiet_op ops = true -> one_writer (run_impl ops).
Proof. exact impl_one_writer_quiet. Qed.
Print Assumptions C17_one_writer_before_any_commit.

Theorem C17_replay_on_open_refuted :
  is_live (run_impl witness_replay_on_open) 1 = true /\ is_live (run_impl witness_replay_on_open) 2 = true /\
  stale (run_impl witness_replay_on_open) = true.
Proof. exact impl_replay_on_open_two_writers. Qed.
Print Assumptions C17_replay_on_open_refuted.

(* per inode the lock does work in the implementation: two live handles whose flocks are on the
   same inode are the same handle *)
Theorem C17_one_writer_per_inode :
  forall (ops : list op) (w1 w2 : N) (h1 h2 : handle),
    s_hs (run_impl ops) w1 = Some h1 -> s_hs (run_impl ops) w2 = Some h2 ->
    h_phase h1 = PLive -> h_phase h2 = PLive -> h_lock_ino h1 = h_lock_ino h2 -> w1 = w2.
Proof. exact impl_one_writer_per_inode. Qed.
Print Assumptions C17_one_writer_per_inode.

(* the writer's critical section contains no unlock: in every reachable state of the implementation
   model every live handle still holds the exclusive flock its open was granted (flock state belongs
   to the open file description; a LOCK_UN through a dup / try_clone of one of its descriptors would
   release it -- Model.LockTable.unlock_description).  The harness checks the same on the real
   process: strace of a writer shows no flock(LOCK_UN) on the memory file before its close. *)
Theorem C17_writer_lock_never_released :
  forall (ops : list op) (w : N) (h : handle),
    s_hs (run_impl ops) w = Some h -> h_phase h = PLive -> h_lock_mode h = LEx.
Proof. exact impl_writer_lock_never_released. Qed.
Print Assumptions C17_writer_lock_never_released.

(* ... and what a violation of it does (NOT the implementation: a temporary
   FileLock::acquire(&self.file) guard inside begin_batch / log growth, before the first commit):
   the guard's drop unlocks the writer's own description, a second open is granted on the SAME
   inode -- outside the known class *)
Theorem C17_guard_on_clone_admits_second_writer :
  let s := touch_with_temporary_guard (run_impl before_guard) 0 in
  forallb (fun o => match o with Commit _ | Vacuum _ | Drop _ | Doctor _ => false | _ => true end) before_guard = true /\
  is_live (step_impl (run_impl before_guard) (Open 1)) 1 = false /\
  (exists h, s_hs s 0 = Some h /\ h_phase h = PLive /\ h_lock_mode h = LNone) /\
  stale s = false /\
  is_live (step_impl s (Open 1)) 0 = true /\ is_live (step_impl s (Open 1)) 1 = true.
Proof. exact guard_on_clone_admits_second_writer. Qed.
Print Assumptions C17_guard_on_clone_admits_second_writer.

(* the correct protocol never enters the known class *)
Theorem C17_correct_protocol_never_stale : forall ops : list op, stale (run_fixed ops) = false.
Proof. exact fixed_never_stale. Qed.
Print Assumptions C17_correct_protocol_never_stale.

(* (6) the consequence "no commit can be silently lost to a concurrent writer" REFUTED:
       A opens, puts 1, commits; B opens successfully; A puts 2, commits (on file: [1;2]);
       B puts 3, commits: the file holds [1;3]; a later reopen shows [1;3] *)
Theorem C17_commit_lost_refuted :
  is_live (run_impl (firstn 4 witness_lost_commit)) 1 = true /\
  path_frames (run_impl (firstn 6 witness_lost_commit)) = [1; 2] /\
  path_frames (run_impl witness_lost_commit) = [1; 3] /\
  path_frames (run_impl (witness_lost_commit ++ [Drop 0; Drop 1; Open 2])) = [1; 3] /\
  path_frames (run_fixed witness_lost_commit) = [1; 2].
Proof. exact impl_commit_lost. Qed.
Print Assumptions C17_commit_lost_refuted.

(* same class, one live writer at a time: an opener waiting in the retry loop is granted the lock
   on the replaced inode after A commits twice and closes; its commit discards A's second commit *)
Theorem C17_waiting_opener_loses_commit_refuted :
  path_frames (run_impl (firstn 8 witness_waiter)) = [1; 2] /\
  is_live (run_impl (firstn 9 witness_waiter)) 1 = true /\
  path_frames (run_impl witness_waiter) = [1; 3] /\
  path_frames (run_fixed (witness_waiter ++ [OpenLock 1; Put 1 3; Commit 1])) = [1; 2; 3].
Proof. exact impl_waiter_loses_commit. Qed.
Print Assumptions C17_waiting_opener_loses_commit_refuted.

(* (7) known class F-C17-2 "create truncates before it locks": a Memvid::create that FAILS on the
       lock has already emptied the live writer's file *)
Theorem C17_failed_create_destroys_refuted :
  is_live (run_impl witness_failed_create) 1 = false /\
  path_frames (run_impl (firstn 3 witness_failed_create)) = [7; 8] /\
  path_frames (run_impl witness_failed_create) = [].
Proof. exact impl_failed_create_destroys. Qed.
Print Assumptions C17_failed_create_destroys_refuted.

(* Non-vacuity: a history that exercises the hypotheses -- the lock refuses a second writer before
   the first commit (model of the implementation), state not in the known class, one writer *)
Example C17_nonvacuous_outside_known :
  let ops := [Create 0; Open 1; TryOpen 2; OpenFd 3; OpenLock 3; Kill 0; OpenLock 3; Open 1] in
  stale (run_impl ops) = false /\ forallb quiet_op ops = true /\
  is_live (run_impl (firstn 5 ops)) 0 = true /\ is_live (run_impl (firstn 5 ops)) 1 = false /\
  is_live (run_impl (firstn 5 ops)) 2 = false /\ is_live (run_impl (firstn 5 ops)) 3 = false /\
  is_live (run_impl ops) 3 = true /\ is_live (run_impl ops) 1 = false.
Proof. vm_compute. repeat split. Qed.

(* ... and one of the correct protocol in which the second opener waits, the writer commits twice
   and closes, and the waiter then gets in, sees everything, and nothing is lost *)
Example C17_nonvacuous_correct_protocol :
  let ops := [Create 0; OpenFd 1; OpenLock 1; Put 0 1; Commit 0; Put 0 2; Commit 0; OpenLock 1; Drop 0;
              OpenLock 1; OpenLock 1; Put 1 3; Commit 1] in
  is_live (run_fixed (firstn 8 ops)) 1 = false /\ is_live (run_fixed ops) 1 = true /\
  path_frames (run_fixed ops) = [1; 2; 3] /\ stale (run_impl witness_two_writers) = true.
Proof. vm_compute. repeat split. Qed.
