(* C18 Read-only access never modifies the file and sees the last commit.
   Statements only; proofs live in Proofs/ReadOnlyProofs.v.  Model: Model/ReadOnly.v
   (open_read_only_snapshot, load_tail_snapshot, locate_footer_window, EmbeddedWal::open_read_only,
   HeaderCodec::read_without_repair, init_tantivy -> materialize_tantivy_segments ->
   align_footer_with_catalog, the read calls of the handle, Memvid::verify) on top of Model/Footer.v
   (C31), Model/Header.v (C30), Model/Wal.v (C05), Model/Store.v (C01) and the alphabet of
   Model/FsProto.v (C02).

   For EVERY hash function H, EVERY Toc decoder / re-encoder, EVERY search-window size maxw,
   whether or not the shared lock is free, EVERY file content and EVERY sequence of read calls.

   History: before /repo ced2099 and e2af843 the property was refuted in two classes of files
   (non-zero legacy lock bytes 80..140; a TOC naming catalog bytes beyond its own footer).  The
   model follows the repaired code; the old behaviour is kept as open_ro_unfixed and the two
   witnesses are restated about it at the end (`_unfixed`).  Both classes stay in the harness as
   regression inputs. *)
From MV Require Import Base.Prelude Model.Footer Model.Header Model.Wal Model.Store Model.FsProto Model.ReadOnly.
From MV Require Import Proofs.FooterProofs Proofs.ReadOnlyProofs.
Local Open Scope N_scope.

(* ------------------------------------------------------------------ 1. never modifies the file *)

(* (1) A whole read-only session -- open_read_only, then any sequence of frame_count / frame_by_id /
   frame_canonical_payload / stats / timeline / search / verify -- issues NO write, truncate or sync
   on the memory file and leaves its bytes as they were.  No side condition on the file: this
   includes files with legacy lock bytes, inconsistent catalogs, corrupt logs, and sessions whose
   open fails. *)
Theorem C18_no_write :
  forall (H : bytes -> bytes) (toc_decode : bytes -> option rtoc) (toc_reencode : rtoc -> bytes * bytes)
         (maxw : N) (lock_free : bool) (file : bytes) (ops : list rop),
    snd (ro_session H toc_decode toc_reencode maxw lock_free file ops) = mkFS file [].
Proof. exact ro_session_no_write. Qed.
Print Assumptions C18_no_write.

(* (1') the same in the alphabet of the crash model (C02): the session's trace is the empty list of
   in-place operations, so it leaves every file-system state as it is *)
Theorem C18_no_write_fsproto :
  forall H toc_decode toc_reencode maxw lock_free file ops (c : content),
    exec (fs0 c) (to_fsops 0 (fs_trace (snd (ro_session H toc_decode toc_reencode maxw lock_free file ops)))) = fs0 c.
Proof. exact ro_session_fsproto. Qed.
Print Assumptions C18_no_write_fsproto.

(* (2) the recorded trace explains every byte change (proved independently of (1), by going through
   every function that can emit a write: "empty trace" and "bytes unchanged" are one statement) *)
Theorem C18_trace_explains_bytes :
  forall H toc_decode toc_reencode maxw lock_free file ops,
    let s := snd (ro_session H toc_decode toc_reencode maxw lock_free file ops) in
    fs_bytes s = apply_trace file (fs_trace s).
Proof. exact ro_session_trace_explains. Qed.
Print Assumptions C18_trace_explains_bytes.

(* ---- toy instances for the witnesses and the non-vacuity examples ---- *)
Definition toyH (x : bytes) : bytes := repeat (fold_left N.add x 0 mod 256) 32.
Definition toy_frames : list frame :=
  [mkFrame 0 (UExp 1) 1000 0 0 None None None false; mkFrame 1 (UDefault 1) 2000 0 0 None None None false].
(* header: wal_offset 4096, wal_size 64, everything else as create() writes it *)
Definition toy_header : header := mkHeader MAGIC 513 4160 4096 64 0 0 (repeat 0 32).
Definition toy_header_bytes : bytes :=
  match header_encode toy_header with Ok b => b | _ => [] end.
Definition toy_tb : bytes := [9; 9; 77; 4].
Definition toy_file (hdr : bytes) : bytes := commit_image toyH (hdr ++ repeat 0 64) toy_tb 5.
Definition set_byte (b : bytes) (i : nat) (v : N) : bytes := firstn i b ++ [v] ++ skipn (S i) b.

(* TOC without catalog entries / TOC whose Tantivy segment (4200, 300) ends beyond the footer at 4164 *)
Definition toy_dec_plain (_ : bytes) : option rtoc := Some (mkRToc toy_frames true [] [] (repeat 1 32)).
Definition toy_dec_beyond (_ : bytes) : option rtoc := Some (mkRToc toy_frames true [(4200, 300)] [(4200, 300)] (repeat 1 32)).
Definition toy_re (_ : rtoc) : bytes * bytes := ([8; 8; 8], repeat 2 32).

(* (3) regression class 1 (legacy lock bytes): a header with one non-zero byte in 80..140 opens,
   shows the frames, and nothing is written; the same when the shared lock is refused *)
Example C18_legacy_lock_bytes_no_write :
  let file := toy_file (set_byte toy_header_bytes 100 7) in
  legacy_trigger file = true /\
  (exists hd, open_ro toyH toy_dec_plain toy_re MAX_SEARCH_SIZE true file = (Ok hd, mkFS file []) /\ length (ro_view hd) = 2%nat) /\
  open_ro toyH toy_dec_plain toy_re MAX_SEARCH_SIZE false file = (Err E_LOCK, mkFS file []).
Proof. split; [vm_compute; reflexivity|]. split; [eexists; split; vm_compute; reflexivity | vm_compute; reflexivity]. Qed.

(* (4) regression class 2 (catalog beyond the footer): lex enabled and a Tantivy segment that ends
   beyond the footer offset: the open succeeds (the out-of-bounds error of materialize is swallowed by
   init_tantivy, which falls back to a fresh engine), the footer pointer stays, nothing is written *)
Example C18_catalog_beyond_footer_no_write :
  let file := toy_file toy_header_bytes in
  catalog_trigger toyH toy_dec_beyond MAX_SEARCH_SIZE file = true /\
  exists hd, open_ro toyH toy_dec_beyond toy_re MAX_SEARCH_SIZE true file = (Ok hd, mkFS file []) /\
             h_footer_offset (hd_header hd) = 4164 /\ hd_tantivy hd = true.
Proof. split; [vm_compute; reflexivity|]. eexists. split; [vm_compute; reflexivity|]. split; vm_compute; reflexivity. Qed.

(* a session that is not trivial *)
Example C18_no_write_nonvacuous :
  ro_session toyH toy_dec_plain toy_re MAX_SEARCH_SIZE true (toy_file toy_header_bytes)
             [RFrameCount; RSearch; RVerify; RFrameById 1; RFrameById 2; RStats; RTimeline; RPayload 0]
  = (Ok [OCount 2; OSearch true; OVerify (Ok 0); OFrame (Some (mkFrame 1 (UDefault 1) 2000 0 0 None None None false));
         OFrame None; OUnit; OUnit; OUnit], mkFS (toy_file toy_header_bytes) []).
Proof. vm_compute; reflexivity. Qed.

(* ------------------------------------------------------------------ 2. sees the last commit *)

(* (5) locate_footer_window is sound for every window size: what it returns is a valid footer of the
   WHOLE file, reported at its position in the whole file, with the TOC bytes that footer describes *)
Theorem C18_locate_sound :
  forall (H : bytes -> bytes) (maxw : N) (b : bytes) (s : footer_slice) (adj : nat),
    locate_footer_window H maxw b = Some (s, adj) ->
    valid_at H b (adj + fs_footer_offset s) = true /\
    slice_at b (adj + fs_footer_offset s) =
      Some (mkSlice (adj + fs_footer_offset s) (adj + fs_toc_offset s) (fs_footer s) (fs_toc_bytes s)).
Proof. exact locate_sound. Qed.
Print Assumptions C18_locate_sound.

(* (6) it finds nothing exactly when the whole file holds no valid footer (the doubling loop ends) *)
Theorem C18_locate_none_iff :
  forall (H : bytes -> bytes) (maxw : N) (b : bytes), 0 < maxw ->
    (locate_footer_window H maxw b = None <-> forall q, valid_at H b q = false).
Proof. exact locate_none_iff. Qed.
Print Assumptions C18_locate_none_iff.

(* (7) for files up to the search size (16 MiB) it is exactly C31's scan of the whole file, hence
   (C31_scan_returns_last_valid) the valid footer at the greatest offset *)
Theorem C18_locate_is_c31_scan :
  forall (H : bytes -> bytes) (maxw : N) (b : bytes), N.of_nat (length b) <= maxw ->
    locate_footer_window H maxw b = match find_last_valid_footer H b with Some s => Some (s, 0%nat) | None => None end.
Proof. exact locate_small_file. Qed.
Print Assumptions C18_locate_is_c31_scan.

(* (8) the file a commit leaves is  pre ++ TOC image ++ footer  (rewrite_toc_footer ends with
   set_len at the footer's end).  Whatever `pre` holds -- header, the log region with any number of
   acknowledged-but-uncommitted records, payloads, stale TOC images and footers of earlier commits,
   any length -- a read-only open that succeeds shows exactly the frame table of THAT TOC and that
   commit's generation.  (TOC + footer must fit the first search window: TOC below 16 MiB.) *)
Theorem C18_view_is_last_commit :
  forall (H : bytes -> bytes) toc_decode toc_reencode (maxw : N) (lock_free : bool)
         (pre tb : bytes) (g : N) (t : rtoc) (hd : handle) (s : fstate),
    tb <> [] -> N.of_nat (length tb) < 2 ^ 64 -> g < 2 ^ 64 -> length (H tb) = 32%nat ->
    N.of_nat (length tb + FOOTER_SIZE) <= maxw ->
    toc_decode tb = Some t ->
    open_ro H toc_decode toc_reencode maxw lock_free (commit_image H pre tb g) = (Ok hd, s) ->
    ro_view hd = rt_frames t /\ hd_generation hd = g.
Proof. exact open_ro_commit_image. Qed.
Print Assumptions C18_view_is_last_commit.

(* (9) at the level of the store model (C01): if the committed TOC holds `committed st`, the read-only
   view is `committed st` -- NOT `view st`, which has the pending log records applied.  The log is
   never replayed: `pre` (where the log region lives) is arbitrary in (8). *)
Theorem C18_view_is_committed_not_replayed :
  forall (H : bytes -> bytes) toc_decode toc_reencode (maxw : N) (lock_free : bool)
         (st : store) (pre tb : bytes) (g : N) (t : rtoc) (hd : handle) (s : fstate),
    tb <> [] -> N.of_nat (length tb) < 2 ^ 64 -> g < 2 ^ 64 -> length (H tb) = 32%nat ->
    N.of_nat (length tb + FOOTER_SIZE) <= maxw ->
    toc_decode tb = Some t -> rt_frames t = committed st ->
    open_ro H toc_decode toc_reencode maxw lock_free (commit_image H pre tb g) = (Ok hd, s) ->
    ro_view hd = committed st.
Proof.
  intros H dec re maxw lf st pre tb g t hd s Htb Hl Hg Hh Hw Hd Hf Ho.
  destruct (open_ro_commit_image H dec re maxw lf pre tb g t hd s Htb Hl Hg Hh Hw Hd Ho) as [Hv _].
  rewrite Hv. exact Hf.
Qed.
Print Assumptions C18_view_is_committed_not_replayed.

(* (10) log appends, the sentinel and payload writes all land in front of the TOC: they keep the
   commit image, so (8) keeps applying to the file with records pending *)
Theorem C18_writes_before_toc_keep_image :
  forall (H : bytes -> bytes) (pre tb : bytes) (g : N) (off : nat) (d : bytes),
    (off + length d <= length pre)%nat ->
    pwrite (commit_image H pre tb g) off d = commit_image H (pwrite pre off d) tb g.
Proof. exact pwrite_commit_image. Qed.
Print Assumptions C18_writes_before_toc_keep_image.

(* non-vacuity of (8)/(9): a store with one committed frame and one put pending in the log; the
   writer's view has two frames, the read-only handle opened on the file shows one *)
Definition st_pending : store :=
  fst (srun store0 [OPut (Some 1) 1000 0 0 None; OCommit 0; OPut None 2000 0 0 None]).
Definition dec_committed (_ : bytes) : option rtoc := Some (mkRToc (committed st_pending) true [] [] (repeat 1 32)).
Example C18_view_nonvacuous :
  length (committed st_pending) = 1%nat /\ length (view st_pending) = 2%nat /\
  exists hd s, open_ro toyH dec_committed toy_re MAX_SEARCH_SIZE true (toy_file toy_header_bytes) = (Ok hd, s) /\
               ro_view hd = committed st_pending /\ fs_trace s = [].
Proof. split; [vm_compute; reflexivity|]. split; [vm_compute; reflexivity|]. eexists. eexists. split; [vm_compute; reflexivity|]. split; vm_compute; reflexivity. Qed.

(* a stale commit image further out in the file wins over the header's pointer: the view is the
   TOC of the LAST valid footer (library-written files end at their newest footer: set_len) *)
Example C18_last_footer_wins :
  let file := commit_image toyH (toy_file toy_header_bytes) [1; 2; 3] 9 in
  exists hd s, open_ro toyH toy_dec_plain toy_re MAX_SEARCH_SIZE true file = (Ok hd, s) /\
               hd_generation hd = 9 /\ h_footer_offset (hd_header hd) = 4223 /\ fs_trace s = [].
Proof. eexists. eexists. split; [vm_compute; reflexivity|]. split; [vm_compute; reflexivity|]. split; vm_compute; reflexivity. Qed.

(* ------------------------------------------------------------------ 3. history: the code before ced2099 / e2af843 *)

(* open_ro_unfixed = the read-only open with HeaderCodec::read (in-place repair) and an
   align_footer_with_catalog that does not look at read_only.  Both witnesses were confirmed on the
   implementation of that time by the harness (former findings F-C18-1, F-C18-2). *)
Theorem C18_legacy_lock_bytes_unfixed :
  exists file hd s,
    legacy_trigger file = true /\
    open_ro_unfixed toyH toy_dec_plain toy_re MAX_SEARCH_SIZE true file = (Ok hd, s) /\
    fs_bytes s <> file /\ map (fun e => match e with WWrite o d => (o, length d) | _ => (9, 0%nat) end) (fs_trace s) = [(0, 4096%nat)].
Proof.
  exists (toy_file (set_byte toy_header_bytes 100 7)).
  eexists. eexists. split; [vm_compute; reflexivity|]. split; [vm_compute; reflexivity|].
  split; [|vm_compute; reflexivity].
  intros E. apply (f_equal (fun l => nth 100 l 0)) in E. vm_compute in E. discriminate.
Qed.
Print Assumptions C18_legacy_lock_bytes_unfixed.

Theorem C18_legacy_write_precedes_lock_unfixed :
  exists file s e,
    open_ro_unfixed toyH toy_dec_plain toy_re MAX_SEARCH_SIZE false file = (Err e, s) /\ e = E_LOCK /\ fs_trace s <> [].
Proof.
  exists (toy_file (set_byte toy_header_bytes 139 1)). eexists. eexists.
  split; [vm_compute; reflexivity|]. split; [reflexivity | discriminate].
Qed.
Print Assumptions C18_legacy_write_precedes_lock_unfixed.

Theorem C18_catalog_beyond_footer_unfixed :
  exists file hd s,
    legacy_trigger file = false /\ catalog_trigger toyH toy_dec_beyond MAX_SEARCH_SIZE file = true /\
    open_ro_unfixed toyH toy_dec_beyond toy_re MAX_SEARCH_SIZE true file = (Ok hd, s) /\
    map (fun e => match e with WWrite o d => (0, o, N.of_nat (length d)) | WSetLen n => (1, n, 0) | WSync => (2, 0, 0) end) (fs_trace s)
      = [(0, 4500, 59); (1, 4559, 0); (2, 0, 0); (0, 0, 4096)] /\
    length (fs_bytes s) = 4559%nat /\ h_footer_offset (hd_header hd) = 4500.
Proof.
  exists (toy_file toy_header_bytes). eexists. eexists.
  split; [vm_compute; reflexivity|]. split; [vm_compute; reflexivity|].
  split; [vm_compute; reflexivity|]. split; [vm_compute; reflexivity|]. split; vm_compute; reflexivity.
Qed.
Print Assumptions C18_catalog_beyond_footer_unfixed.

Theorem C18_unfixed_trace_explains_bytes :
  forall H toc_decode toc_reencode maxw lock_free file,
    let s := snd (open_ro_unfixed H toc_decode toc_reencode maxw lock_free file) in
    fs_bytes s = apply_trace file (fs_trace s).
Proof. exact open_ro_unfixed_trace_explains. Qed.
Print Assumptions C18_unfixed_trace_explains_bytes.
