(* C35 Snippet slices are valid, ordered, bounded ranges.
   Statements only; proofs live in Proofs/SnippetProofs.v; the model (Model/Snippet.v) follows
   compute_snippet_slices and its helpers in src/lex.rs line by line.

   Text = the UTF-8 bytes of the &str; `is_char_boundary` and `str_slice` are the std definitions
   (`&content[a..b]` panics unless a <= b and both are char boundaries).  The theorems hold for
   EVERY byte list, hence for every valid str.

   The property as stated (ANY occurrences, ANY window, ANY maximum) is refuted by the faithful
   model and by the implementation, in exactly three argument classes:
     max-zero     max_snippets = 0, text non-empty      -> one slice is returned anyway
     window-zero  window = 0, text non-empty            -> the fallback slice is the empty (0,0)
     end-overflow some end + window/2 >= 2^64           -> arithmetic overflow panic (debug build)
   Unsorted / duplicate / overlapping occurrences, start > end, offsets beyond the text or inside
   a multi-byte character break nothing (no hypothesis about them appears below). *)
From Coq Require Import Sorted.
From MV Require Import Base.Prelude Model.Snippet Proofs.SnippetProofs.
Local Open Scope N_scope.

(* slices_ok t max r  :=  r = Ok sl, every slice (a,b) has a < b <= len t, a and b on char
   boundaries, &t[a..b] does not panic and is non-empty; for i < j: start_i < start_j and
   end_i <= start_j; length sl <= max. *)

(* (1) the property, for all inputs, under the guard
       guard := text empty \/ (max >= 1 /\ window >= 1 /\ every end + window/2 < 2^64) *)
Theorem C35_slices_ok_under_guard :
  forall (t : bytes) (occs : list (N * N)) (window max_snippets : N),
    guard t occs window max_snippets = true ->
    slices_ok t max_snippets (compute_snippet_slices t occs window max_snippets).
Proof. exact slices_ok_under_guard. Qed.
Print Assumptions C35_slices_ok_under_guard.

(* (2) what holds with NO guard at all (whenever the call returns): every slice is an in-bounds
       range on char boundaries whose slicing does not panic; slices are pairwise more than 20
       bytes apart and in order; at most max(max,1) of them; all non-empty as soon as window >= 1;
       a non-empty text always yields at least one slice. *)
Theorem C35_slices_always :
  forall (t : bytes) (occs : list (N * N)) (window max_snippets : N) (sl : list (N * N)),
    compute_snippet_slices t occs window max_snippets = Ok sl ->
    Forall (slice_sane t) sl /\ separated sl /\
    N.of_nat (length sl) <= N.max max_snippets 1 /\
    (1 <= window -> Forall (slice_valid t) sl) /\
    (t <> [] -> sl <> []) /\ (t = [] -> sl = []).
Proof. exact slices_always. Qed.
Print Assumptions C35_slices_always.

(* (3) the only panic is the end + window/2 overflow; no-overflow arguments always return *)
Theorem C35_panic_only_on_overflow :
  forall t occs window max_snippets s,
    compute_snippet_slices t occs window max_snippets = Panic s ->
    known_end_overflow t occs window max_snippets = true.
Proof. exact panic_only_on_overflow. Qed.
Print Assumptions C35_panic_only_on_overflow.

Theorem C35_total_without_overflow :
  forall t occs window max_snippets,
    forallb (fun o => negb (end_overflows window o)) occs = true ->
    exists sl, compute_snippet_slices t occs window max_snippets = Ok sl.
Proof. exact total_without_overflow. Qed.
Print Assumptions C35_total_without_overflow.

(* (4) the property as stated is refuted (arguments in machine range) *)
Theorem C35_slices_ok_refuted :
  exists t occs window max_snippets,
    usize_args occs window max_snippets /\
    ~ slices_ok t max_snippets (compute_snippet_slices t occs window max_snippets).
Proof. exact property_refuted. Qed.
Print Assumptions C35_slices_ok_refuted.

(* (5) outside the three known classes it holds; known_class = negb guard *)
Theorem C35_slices_ok_outside_known :
  forall t occs window max_snippets,
    known_class t occs window max_snippets = false ->
    slices_ok t max_snippets (compute_snippet_slices t occs window max_snippets).
Proof. exact slices_ok_outside_known. Qed.
Print Assumptions C35_slices_ok_outside_known.

(* (6) each conjunct of the guard is necessary: a witness violating only that conjunct *)
Theorem C35_guard_max_necessary :
  exists t occs window max_snippets,
    usize_args occs window max_snippets /\ only_max_zero t occs window max_snippets = true /\
    ~ slices_ok t max_snippets (compute_snippet_slices t occs window max_snippets).
Proof. exact max_zero_necessary. Qed.
Print Assumptions C35_guard_max_necessary.

Theorem C35_guard_window_necessary :
  exists t occs window max_snippets,
    usize_args occs window max_snippets /\ only_window_zero t occs window max_snippets = true /\
    ~ slices_ok t max_snippets (compute_snippet_slices t occs window max_snippets).
Proof. exact window_zero_necessary. Qed.
Print Assumptions C35_guard_window_necessary.

Theorem C35_guard_overflow_necessary :
  exists t occs window max_snippets,
    usize_args occs window max_snippets /\ only_end_overflow t occs window max_snippets = true /\
    ~ slices_ok t max_snippets (compute_snippet_slices t occs window max_snippets).
Proof. exact end_overflow_necessary. Qed.
Print Assumptions C35_guard_overflow_necessary.

(* the max-zero class fails on each of its members, not only on the witness *)
Theorem C35_max_zero_always_fails :
  forall t occs window, t <> [] -> ~ slices_ok t 0 (compute_snippet_slices t occs window 0).
Proof. exact max_zero_always_fails. Qed.
Print Assumptions C35_max_zero_always_fails.

(* (7) in-tree call sites (tantivy.rs, fallback.rs: window = snippet_chars.max(80), max = top_k.max(1);
       lex.rs: 160, 3) with occurrence ends that are offsets into a string (< 2^63): the property
       holds whatever the text and whatever the order/position of the occurrences *)
Theorem C35_call_sites :
  forall t occs snippet_chars top_k,
    snippet_chars < USIZE_LIMIT -> Forall (fun o => snd o < ISIZE_LIMIT) occs ->
    slices_ok t (N.max top_k 1) (compute_snippet_slices t occs (N.max snippet_chars 80) (N.max top_k 1)).
Proof. exact callsite_slices_ok. Qed.
Print Assumptions C35_call_sites.

Theorem C35_call_site_lex_search :
  forall t occs, Forall (fun o => snd o < ISIZE_LIMIT) occs ->
                 slices_ok t 3 (compute_snippet_slices t occs 160 3).
Proof. exact lex_search_slices_ok. Qed.
Print Assumptions C35_call_site_lex_search.

(* occurrences produced by the `haystack[start..].find(needle)` loops (collect_token_occurrences,
   LexIndex::compute_matches), in any order and with any subset removed (sort, dedup).  The text `t`
   that is sliced and the haystack `hay` the occurrences were found in are independent, as in
   tantivy.rs (occurrences from the frame's search_text, slices of the chunk text): *)
Theorem C35_call_sites_collected :
  forall t hay tokens occs snippet_chars top_k,
    len hay < ISIZE_LIMIT -> snippet_chars < USIZE_LIMIT ->
    incl occs (collect_token_occurrences_unsorted hay tokens) ->
    slices_ok t (N.max top_k 1) (compute_snippet_slices t occs (N.max snippet_chars 80) (N.max top_k 1)).
Proof. exact callsite_with_collected_occurrences. Qed.
Print Assumptions C35_call_sites_collected.

(* (8) the boolean oracle used by the correspondence run is the property *)
Theorem C35_oracle_is_property :
  forall t max_snippets r, slices_okb t max_snippets r = true <-> slices_ok t max_snippets r.
Proof. exact slices_okb_spec. Qed.
Print Assumptions C35_oracle_is_property.

(* (9) the model's char_indices (lead-byte positions) is what a width-stepping UTF-8 decoder yields
       on every structurally well-formed byte string (lead byte + width-1 continuation bytes) *)
Theorem C35_char_indices_is_decoder :
  forall bs, utf8_shape (length bs) bs = true -> decode_indices (length bs) bs 0 = char_indices bs.
Proof. exact char_indices_is_decoder. Qed.
Print Assumptions C35_char_indices_is_decoder.

(* Non-vacuity.  "Zoe-diaeresis naive. <3 CJK chars> text! " ++ 30 x 'x' ++ ". " ++ 30 x 'x' ++ " end? tail"
   (101 bytes, multi-byte): three occurrences (the first starts inside the 2-byte char at 2..4, the
   last is out of order), window 7, max 3: the guard holds, two slices, the unsorted one is merged. *)
From Coq Require Import String.
Definition sample_text : bytes :=
  hex "5a6fc3ab206e61c3af76652e20e697a5e69cace8aa9e207465787421" ++ [32] ++ repeat 120 30 ++ [46; 32] ++
  repeat 120 30 ++ hex "20656e643f207461696c".
Example C35_nonvacuous_guard :
  guard sample_text [(3, 5); (75, 78); (13, 22)] 7 3 = true /\
  compute_snippet_slices sample_text [(3, 5); (75, 78); (13, 22)] 7 3 = Ok [(0, 12); (61, 96)] /\
  is_char_boundary sample_text 3 = false.
Proof. vm_compute. repeat split. Qed.

Example C35_nonvacuous_decoder :
  utf8_shape (List.length sample_text) sample_text = true /\ List.length (char_indices sample_text) = 93%nat.
Proof. vm_compute. split; reflexivity. Qed.

(* call-site arguments: snippet_chars 0 -> window 80, top_k 0 -> max 1 *)
Example C35_nonvacuous_call_site :
  compute_snippet_slices sample_text [(13, 22); (70, 73)] (N.max 0 80) (N.max 0 1) = Ok [(0, 96)] /\
  Forall (fun o => snd o < ISIZE_LIMIT) [(13, 22); (70, 73)].
Proof. split; [vm_compute; reflexivity | repeat constructor]. Qed.

(* collected occurrences: needle "ab" in "xabab.ab" (and an empty token, skipped) *)
Example C35_nonvacuous_collected :
  collect_token_occurrences_unsorted (hex "78616261622e6162") [hex "6162"; []] = [(1, 3); (3, 5); (6, 8)].
Proof. vm_compute. reflexivity. Qed.
