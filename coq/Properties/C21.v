(* C21 Doctor preserves committed data, heals, and is idempotent.
   Statements only; proofs live in Proofs/DoctorProofs.v and Proofs/DoctorRun.v.
   Model: Model/Doctor.v (abstract file; probe -> compute -> open -> phases -> verify as in doctor.rs).

   Reading of the property text used here.
   * "active frame ... never removed or altered" = the frame-table row (status) and the content of the
     frame.  Embeddings live in the vector index, not in the frame.  Since fix 83a83e8 (F-C14-1) a vector
     rebuild re-encodes the entries of the index it loads, so the embeddings of active frames survive every
     doctor run on an index that still decodes (stated: f_nvec unchanged).  An index whose bytes are damaged
     holds the only copy: it comes back holding just the embeddings of the pending records (none when nothing
     is pending) -- stated (theorem 2) and observed, not counted as an altered frame.
   * "an immediate second doctor run reports Clean" = a second run with default options (with an option
     that forces work -- rebuild_* or vacuum -- the plan is never a no-op, so the status is Healed by
     construction; proved: Clean iff nothing is forced, never Failed).
   * the damage list is taken literally: header pointer, a TOC checksum (header copy or the copy stored in
     the TOC), footer fields, index segments -- alone or combined, on a closed or a crash-interrupted file,
     except that pointer and footer may not BOTH be lost (then nothing locates the TOC: boundary below).

   The property as stated is REFUTED in one remaining class (known finding F-C21-2 toc-checksum-field) and
   proved outside it for every listed damage, every pending-record list and all 32 option combinations.
   F-C21-1 (stale-pointer-after-replay) was repaired in /repo by f76b325 (HealHeaderPointer only moves the
   pointer forward); the model follows the repaired action, the action before the fix is kept as
   heal_ptr_unfixed / doctor_unfixed for the historical lemma. *)
From MV Require Import Base.Prelude Model.Doctor Proofs.DoctorProofs Proofs.DoctorRun.
Local Open Scope N_scope.

(* (1) every damage of the list, applied to any sound file (closed or with pending acknowledged records,
       indexes in any state), any options without dry_run, outside the known classes: the result is a
       healthy file whose frame table is exactly committed rows + pending records applied (so every active
       frame is kept with its content and no acknowledged record is dropped), the report is Clean or Healed
       with verification passed, the file opens and verifies, and a second default run reports Clean and
       changes no row. *)
Theorem C21_doctor_heals_every_listed_damage_outside_known : forall d o f,
  sound f -> o_dry o = false -> known_class o (damage_file d f) = false ->
  let r := doctor o (damage_file d f) in
  healthy (fst r) /\ f_rows (fst r) = view f /\ preserves (view f) (f_rows (fst r)) = true /\
  (r_status (snd r) = 0 \/ r_status (snd r) = 1) /\ r_verified (snd r) = Some true /\
  verify (fst r) = Ok true /\ opens (fst r) = true /\
  r_status (snd (doctor default_opts (fst r))) = 0 /\ f_rows (fst (doctor default_opts (fst r))) = view f.
Proof. exact doctor_heals_every_listed_damage. Qed.
Print Assumptions C21_doctor_heals_every_listed_damage_outside_known.

(* (2) the same for ANY combination of listed damages (any file satisfying wf: TOC body decodes, no older
       commit in the file, log readable, pointer and footer not both lost), with the status rule and the
       vector count made explicit. *)
Theorem C21_doctor_heals_outside_known : forall o f,
  wf f -> o_dry o = false -> known_class o f = false ->
  healthy (fst (doctor o f)) /\
  f_rows (fst (doctor o f)) = view f /\
  preserves (view f) (f_rows (fst (doctor o f))) = true /\
  r_status (snd (doctor o f)) = (if is_noop (compute o f) then 0 else 1) /\
  r_verified (snd (doctor o f)) = Some true /\
  verify (fst (doctor o f)) = Ok true /\
  f_nvec (fst (doctor o f)) = (if vec_bad (f_vec f) && negb (replayed f) then 0 else f_nvec f).
Proof. exact doctor_heals_outside_known. Qed.
Print Assumptions C21_doctor_heals_outside_known.

(* (3) idempotence: on a healthy file any non-dry run leaves a healthy file with the same rows; it reports
       Clean exactly when the options force nothing (Healed otherwise, never Failed). *)
Theorem C21_second_run : forall o m,
  o_dry o = false -> healthy m -> f_older m = None ->
  healthy (fst (doctor o m)) /\ f_rows (fst (doctor o m)) = f_rows m /\
  r_status (snd (doctor o m)) = (if forces o then 1 else 0).
Proof. exact doctor_second_run. Qed.
Print Assumptions C21_second_run.

(* (4) dry_run changes nothing, for every file whatsoever; Clean iff the plan is a no-op, else PlanOnly. *)
Theorem C21_dry_run_changes_nothing : forall o f, o_dry o = true ->
  fst (doctor o f) = f /\ r_status (snd (doctor o f)) = (if is_noop (compute o f) then 0 else 4) /\
  r_verified (snd (doctor o f)) = None.
Proof. exact doctor_dry_run. Qed.
Print Assumptions C21_dry_run_changes_nothing.

(* (5) when the first run says Clean: exactly when header, TOC and footer agree, nothing is pending, no
       index needs a rebuild and no option forces work. *)
Theorem C21_clean_iff_nothing_to_do : forall o f, wf f ->
  is_noop (compute o f) = true <->
  (read_toc f = true /\ f_H f = f_S f /\ replayed f = false /\ needs_time_of f = false /\
   vec_bad (f_vec f) = false /\ forces o = false).
Proof. exact is_noop_wf. Qed.
Print Assumptions C21_clean_iff_nothing_to_do.

(* ---- refutations (the faithful model violates the property as stated) ---- *)
Definition base_closed : afile :=
  mkFile 9000 9000 9500 7 7 7 true true true None WClean 12 IxOk true IxOk 2 [(0, 1000); (2, 0); (0, 3000)].
Definition base_pending : afile :=
  mkFile 9000 9000 9500 7 7 7 true true true None (WPending [PIns 4000; PDel 0]) 12 IxOk true IxOk 2
         [(0, 1000); (2, 0); (0, 3000)].

(* F-C21-1 stale-pointer-after-replay (repaired by f76b325): header pointer damaged on a crash-interrupted
   file whose pending records insert a frame.  Regression on the current model: the witness of the old
   refutation now heals -- rows = committed + pending applied, Healed, verification passed, second run Clean. *)
Example C21_regression_stale_pointer_heals :
  let f := damage_file (DPtr 9001) base_pending in
  let r := doctor default_opts f in
  sound base_pending /\ stale_ptr_class f = true /\
  f_rows (fst r) = view base_pending /\ preserves (view base_pending) (f_rows (fst r)) = true /\
  r_status (snd r) = 1 /\ r_verified (snd r) = Some true /\ opens (fst r) = true /\
  r_status (snd (doctor default_opts (fst r))) = 0.
Proof. vm_compute. repeat split; try reflexivity; exact I. Qed.

(* historical: with the action as it was before the fix (`!=` instead of `<`) the open inside doctor replays
   (the TOC moves), HealHeaderPointer writes the planned -- now stale -- offset into the header and Finalize
   writes the TOC there, on top of the payload the replay just stored: the acknowledged frame is altered,
   verification fails, status Failed. *)
Theorem C21_unfixed_stale_pointer_refuted : exists d o f,
  sound f /\ o_dry o = false /\
  preserves (view f) (f_rows (fst (doctor_unfixed o (damage_file d f)))) = false /\
  r_status (snd (doctor_unfixed o (damage_file d f))) = 3.
Proof. exists (DPtr 9001), default_opts, base_pending. vm_compute. repeat split; try reflexivity; exact I. Qed.
Print Assumptions C21_unfixed_stale_pointer_refuted.

(* the branch the repaired action still has (target ahead of the handle's pointer: write it) is never taken on
   a listed file: the planned target is the TOC offset the probe saw, the handle's pointer after the open is
   that offset, or one further when the replay inserted a frame. *)
Theorem C21_heal_pointer_target_never_ahead : forall o f m0 extra t,
  wf f -> known_toc_cksum f = false ->
  open_for_doctor (compute o f) f = inl (m0, extra) -> pl_heal_ptr (compute o f) = Some t ->
  (t <= f_ptr m0)%N /\ heal_ptr m0 (Some t) = m0.
Proof. exact heal_ptr_target_never_ahead. Qed.
Print Assumptions C21_heal_pointer_target_never_ahead.

(* F-C21-2 toc-checksum-field: the checksum stored inside the TOC damaged, nothing pending.  The TOC is
   recovered from the header hint, but open re-verifies the stored checksum after the (empty) replay and
   fails; doctor reports Failed, the file still does not open, a second run fails the same way. *)
Theorem C21_refuted_toc_checksum : exists d o f,
  sound f /\ o_dry o = false /\
  r_status (snd (doctor o (damage_file d f))) = 3 /\
  opens (fst (doctor o (damage_file d f))) = false /\
  r_status (snd (doctor default_opts (fst (doctor o (damage_file d f))))) = 3.
Proof. exists (DTocCk 8), default_opts, base_closed. vm_compute. repeat split; try reflexivity; exact I. Qed.
Print Assumptions C21_refuted_toc_checksum.

(* the remaining class is exactly what the outside_known theorems exclude *)
Example C21_known_classes :
  known_class default_opts (damage_file (DPtr 9001) base_pending) = false /\
  known_class default_opts (damage_file (DTocCk 8) base_closed) = true /\
  known_class default_opts (damage_file (DTocCk 8) base_pending) = false /\
  known_class default_opts (damage_file (DPtr 9001) base_closed) = false /\
  known_class (mkOpts false false false false true) (damage_file (DPtr 9001) base_pending) = false.
Proof. vm_compute. repeat split. Qed.

(* ---- boundaries (outside the property's damage list) ---- *)
(* an unreadable log is zeroed by doctor: the rows stay the committed ones -- acknowledged pending records
   are dropped -- and the report is Clean or Healed all the same.  A torn last record (power loss during an
   append; a killed process cannot tear the single write) puts a crash-left file here. *)
Theorem C21_boundary_corrupt_log_drops_pending : forall o f ps,
  o_dry o = false -> f_wal f = WCorrupt ps -> healthy (zero_log f) -> f_older f = None ->
  f_rows (fst (doctor o f)) = f_rows f /\ r_status (snd (doctor o f)) <> 3.
Proof. exact doctor_corrupt_log_drops_pending. Qed.
Print Assumptions C21_boundary_corrupt_log_drops_pending.

Example C21_boundary_corrupt_log_example :
  let f := mkFile 9000 9000 9500 7 7 7 true true true None (WCorrupt [PIns 4000]) 12 IxOk true IxOk 2 [(0, 1000)] in
  view f = [(0, 1000); (0, 4000)] /\ f_rows (fst (doctor default_opts f)) = [(0, 1000)] /\
  r_status (snd (doctor default_opts f)) = 0.
Proof. vm_compute. repeat split. Qed.

(* an older commit (footer + TOC) still intact inside the file is what recover_toc finds first when the last
   footer is damaged: doctor then restores the OLDER table and reports Healed.  The correspondence run counts
   such files (tag older-valid-footer-in-file); none was produced by commit so far. *)
Example C21_boundary_older_commit_restored :
  let f := mkFile 9000 9000 9500 7 7 7 false true true (Some ([(0, 1000)], 6000, 5)) WClean 12 IxOk true IxOk 0
                  [(0, 1000); (0, 2000)] in
  f_rows (fst (doctor default_opts f)) = [(0, 1000)] /\ r_status (snd (doctor default_opts f)) = 1.
Proof. vm_compute. repeat split. Qed.

(* pointer AND footer lost: nothing locates the TOC; doctor fails, rewrites only the header pointer (to the
   footer position), rows untouched *)
Example C21_boundary_pointer_and_footer_lost :
  let f := damage_file (DPtr 17) (damage_file DFooter base_closed) in
  r_status (snd (doctor default_opts f)) = 3 /\ f_rows (fst (doctor default_opts f)) = f_rows base_closed /\
  opens (fst (doctor default_opts f)) = false.
Proof. vm_compute. repeat split. Qed.

(* vectors: a forced rebuild on an index that decodes keeps the count; a damaged index on a closed file
   comes back empty; on a crash-left file it holds what the replay wrote (the pending embeddings) *)
Example C21_vectors_after_doctor :
  f_nvec (fst (doctor (mkOpts false false true false false) base_closed)) = 2 /\
  f_nvec (fst (doctor default_opts (damage_file DVec base_closed))) = 0 /\
  f_vec (fst (doctor default_opts (damage_file DVec base_closed))) = IxNone /\
  f_nvec (fst (doctor default_opts (damage_file DVec base_pending))) = f_nvec base_pending /\
  f_vec (fst (doctor default_opts (damage_file DVec base_pending))) = IxOk.
Proof. vm_compute. repeat split. Qed.

(* ---- non-vacuity ---- *)
Example C21_nonvacuous_hypotheses :
  sound base_closed /\ sound base_pending /\
  wf (damage_file DFooter (damage_file (DHdrCk 9) (damage_file DTime base_pending))) /\
  known_class (mkOpts true false true true false) (damage_file DFooter (damage_file (DHdrCk 9) (damage_file DTime base_pending))) = false /\
  healthy (fst (doctor default_opts (damage_file (DPtr 0) base_closed))).
Proof. vm_compute. repeat split; try reflexivity; try exact I; try (left; reflexivity); try (right; reflexivity); try discriminate. Qed.

Example C21_nonvacuous_run :
  let f := damage_file DFooter (damage_file (DHdrCk 9) (damage_file DVec base_pending)) in
  let r := doctor (mkOpts false false false true false) f in
  r_status (snd r) = 1 /\ r_phases (snd r) = [1; 2; 4; 3; 5; 6] /\
  f_rows (fst r) = [(2, 0); (2, 0); (0, 3000); (0, 4000)] /\ f_nvec (fst r) = 2 /\
  r_status (snd (doctor default_opts (fst r))) = 0.
Proof. vm_compute. repeat split. Qed.
