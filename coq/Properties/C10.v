(* C10 Every search hit is a valid answer to the query.
   Statements only; proofs live in Proofs/HitsProofs.v; the model (Model/Hits.v) follows
   try_tantivy_search after the engine call, resolve_chunk_context, collect_token_occurrences,
   search_with_lex_fallback and search_with_filters_only line by line and IMPORTS C32's evaluator
   (Model/Query.v), C35's slices and str slicing (Model/Snippet.v), C16's cursor (Model/SearchPage.v).

   Readings fixed (DESIGN.md, C10): the "frame content" a hit's range indexes is the text
   resolve_chunk_context yields (an unchunked document: its search text incl. the appended
   title:/uri:/tags: lines; a chunk: its position inside the parent's concatenated chunks); "satisfies
   the query" is C32's `eval` on the lower-cased search text.  A date:[a TO b] term is a term of that
   evaluator (DateRange::matches = eval_term (TDate a b)), so "satisfies the date-range filter" is part
   of "satisfies the query" (theorem 3).

   Result.  For the pipeline that answers whenever the engine answers (try_tantivy_search) the property
   holds for ANY engine output, with no hypothesis on the engine for every clause but "active".
   The route taken when the engine rejects the query and the query has no text token
   (search_with_filters_only -- reached through the public API by a wildcard without a literal prefix such
   as `*` or `*alp*`, which Tantivy's RegexQuery rejects) used to check neither the frame status nor the
   request's uri / scope (findings F-C10-1 / F-C10-2, found by this check); /repo dcf427c repaired it, the
   model follows the repaired code, and the full property is proved for that route too (theorem 8), with
   "active" read directly off the table: that loop does check frame.status. *)
From MV Require Import Base.Prelude Model.Query Model.Snippet Proofs.SnippetProofs Model.Hits Proofs.HitsProofs.
From MV Require Model.SearchPage Model.Store Model.Reads Properties.C08.
Local Open Scope N_scope.

(* hit_good pd tbl parsed rq cands h  :=
     (h.frame_id, h.score) is one of the engine's candidates, and there are a frame f and a chunk
     context ci with
       toc.frames[h.frame_id] = f,
       cand_ok: passes_filters rq f (request uri via uri_matches, else scope prefix),
                resolve_chunk_context tbl f = Ok ci,
                eval parse_date parsed (doc of f with content_lower = lower(search_text or ci.text)) = true,
       h.chunk_range = (ci.start, ci.end), h.chunk_text = utf8 ci.text,
       ci.start <= range.0 < range.1 <= ci.start + |chunk_text|,
       &chunk_text[range.0 - ci.start .. range.1 - ci.start] = Ok h.text (on char boundaries), non-empty,
       matches >= 1. *)

(* (1) THE COMPOSITION THEOREM.  For every date oracle, content-date oracle, every re-sort that returns
   members of its input, every frame table, parsed query, analyser output (tokens), request and -- the
   point -- EVERY engine output `cands`: if the Tantivy pipeline answers, the response holds at most
   max(1, top_k) hits, their ranks are 1..n, and every hit is good in the sense above. *)
Theorem C10_every_hit_valid_for_any_engine_output :
  forall (parse_date : str -> option Z) (content_ts : list str -> option Z) (resort : list ev -> list ev)
         (tbl : table) (parsed : expr) (tokens : list bytes) (rq : request),
    (forall l x, In x (resort l) -> In x l) ->
    forall (has_lex : bool) (cands : list (N * N)) (r : response),
      tantivy_post parse_date content_ts resort has_lex tbl parsed tokens rq cands = Ok (Some r) ->
      llen (r_hits r) <= N.max (rq_top_k rq) 1 /\
      ranks_ok (r_hits r) /\
      Forall (hit_good parse_date tbl parsed rq cands) (r_hits r).
Proof. exact hits_valid. Qed.
Print Assumptions C10_every_hit_valid_for_any_engine_output.

(* the same with the query given as TEXT and parsed by C32's parser model *)
Theorem C10_every_hit_valid_query_text :
  forall alnum parse_date content_ts resort tbl (q : str) parsed depth tokens rq has_lex cands r,
    (forall l x, In x (resort l) -> In x l) ->
    parse_query alnum parse_date q = (Ok parsed, depth) ->
    tantivy_post parse_date content_ts resort has_lex tbl parsed tokens rq cands = Ok (Some r) ->
    llen (r_hits r) <= N.max (rq_top_k rq) 1 /\ ranks_ok (r_hits r) /\
    Forall (hit_good parse_date tbl parsed rq cands) (r_hits r).
Proof. intros. eapply hits_valid; eauto. Qed.
Print Assumptions C10_every_hit_valid_query_text.

(* (2) range inside chunk_range: chunk_range = (start, start + |chunk_text|) as soon as the payloads of
   the table are valid UTF-8 (from_utf8_lossy is then the identity; search-text contexts need nothing) *)
Theorem C10_range_inside_chunk_range :
  forall parse_date tbl parsed rq cands h,
    payloads_utf8 tbl -> hit_good parse_date tbl parsed rq cands h ->
    fst (h_chunk_range h) <= fst (h_range h) /\ fst (h_range h) < snd (h_range h) /\
    snd (h_range h) <= snd (h_chunk_range h).
Proof.
  intros pd tbl parsed rq cands h HP (_ & f & ci & Hg & (_ & Hr & _) & Hcr & Hct & H1 & H2 & H3 & _).
  apply (resolve_consistent tbl f ci HP (get_In _ _ _ Hg)) in Hr. unfold ci_consistent in Hr.
  rewrite Hcr. cbn [fst snd]. rewrite Hct in H3. lia.
Qed.
Print Assumptions C10_range_inside_chunk_range.

(* (3) every conjunct of a conjunctive query holds of the hit's frame; a date:[a TO b] conjunct means
   DateRange::matches: no bound at all, or one of frame.timestamp / the parsed content dates is in range *)
Theorem C10_conjuncts_and_date_range :
  forall pd l d,
    eval pd (EAnd l) d = true ->
    (forall c, In c l -> eval pd c d = true) /\
    (forall a b, In (ETerm (TDate a b)) l ->
       (a = None /\ b = None) \/ exists t, In t (date_candidates pd d) /\ in_range a b t = true).
Proof.
  intros pd l d H. split; [intros c Hc; eapply eval_conjunct; eauto|].
  intros a b Hc. apply eval_date_term. eapply eval_conjunct; eauto.
Qed.
Print Assumptions C10_conjuncts_and_date_range.

(* (4) "Active".  The evaluation loop does NOT look at frame.status; a hit is Active because the engine
   only holds Active frames: with C08's index invariant (for every history, `lex r` holds Active
   committed frames whenever no instant-indexed put waits for its commit), the engine returning
   indexed documents only (hypothesis on the oracle), and the table's status column being the store's.
   A delete takes effect at commit: between delete_frame and commit the frame is still Active in the
   table and may be returned. *)
Theorem C10_hits_name_active_frames_partial :
  forall parse_date content_ts resort tbl parsed tokens rq has_lex cands r,
    (forall l x, In x (resort l) -> In x l) ->
    forall rops,
      let rs := fst (Reads.rrun Reads.rstore0 rops) in
      Reads.tdirty rs = false ->
      (forall i, is_active tbl i = Reads.is_active (Store.committed (Reads.base rs)) i) ->
      (forall c, In c cands -> In (fst c) (Reads.lex rs)) ->
      tantivy_post parse_date content_ts resort has_lex tbl parsed tokens rq cands = Ok (Some r) ->
      forall h, In h (r_hits r) -> is_active tbl (h_frame h) = true.
Proof.
  intros pd cts resort tbl parsed tokens rq has_lex cands r Hres rops rs Htd Hst Heng Hr h Hh.
  destruct (hits_valid pd cts resort tbl parsed tokens rq Hres has_lex cands r Hr) as (_ & _ & Hall).
  rewrite Forall_forall in Hall. destruct (Hall h Hh) as (Hin & _).
  rewrite Hst. pose proof (C08.C08_index_sets_hold_active_frames_only rops) as (_ & _ & H3).
  apply (H3 Htd). apply (Heng _ Hin).
Qed.
Print Assumptions C10_hits_name_active_frames_partial.

(* (5) the pipeline never panics: C35's call-site theorem covers `end + window/2` and the
   `chunk_text[local_start..local_end]` slicing (slices are in bounds, on char boundaries) *)
Theorem C10_post_evaluation_never_panics :
  forall parse_date content_ts resort tbl parsed tokens rq,
    (forall l x, In x (resort l) -> In x l) ->
    forall has_lex cands s,
      texts_in_range tbl -> rq_snippet_chars rq < USIZE_LIMIT ->
      tantivy_post parse_date content_ts resort has_lex tbl parsed tokens rq cands <> Panic s.
Proof. exact no_panic. Qed.
Print Assumptions C10_post_evaluation_never_panics.

(* (6) hit assembly IS C16's page loop: forgetting text / matches / chunk range / rank / score, the hits
   are what Model/SearchPage.v's outer_loop (emit_tantivy, early break) yields on the same evaluated
   list, so C16's pagination theorems speak about these hits *)
Theorem C10_assembly_is_C16_page_loop :
  forall tbl k offset evs hits produced st',
    Forall (fun d => get tbl (ev_frame d) <> None) evs ->
    outer_loop tbl k offset evs (hits, produced) = Ok st' ->
    SearchPage.outer_loop SearchPage.emit_tantivy k offset true (map edoc_of evs) (map core hits, produced)
    = (map core (fst st'), snd st').
Proof. exact outer_loop_sim. Qed.
Print Assumptions C10_assembly_is_C16_page_loop.

(* (7) SECOND PIPELINE, search_with_lex_fallback, for ANY answer `ms` of the legacy index: at most
   max(1, top_k) hits, ranks 1..n, every hit names a frame of the table that is in the candidate
   filter, the parsed query holds on the INDEX'S content for that frame, the text is the frame content
   (frame_content) at the hit's range and the range lies inside the chunk range inside the content.
   Partial: that the index's content is the frame's search text, its uri / scope filtering
   (compute_matches applies it; the loop does not re-check) and "active" rest on the legacy index. *)
Theorem C10_lex_fallback_partial :
  forall parse_date canonical_text tbl parsed rq candidate_filter ms r,
    lex_fallback parse_date canonical_text tbl parsed rq candidate_filter (Some ms) = Ok r ->
    llen (r_hits r) <= N.max (rq_top_k rq) 1 /\ ranks_ok (r_hits r) /\
    Forall (lex_hit_good parse_date canonical_text tbl parsed candidate_filter ms) (r_hits r).
Proof. exact lex_fallback_valid. Qed.
Print Assumptions C10_lex_fallback_partial.

(* (8) SECOND PIPELINE, search_with_filters_only (query without text token, the engine gave no answer),
   as repaired: for ANY table whose ids are its positions (C06), any query, request, candidate filter and
   search-text oracle: at most max(1, top_k) hits, ranks 1..n, and every hit names an existing frame that
   is ACTIVE, passes the request's uri / scope filter, lies in the candidate filter, whose lower-cased
   search text satisfies the query; text = the first max(snippet_chars, 80) chars of that search text,
   range = chunk range = (0, |text|).  No known class. *)
Theorem C10_filters_only_hits_valid :
  forall pd frame_search_text tbl parsed rq cf r,
    filters_only pd frame_search_text tbl parsed rq cf = Ok r -> dense tbl ->
    llen (r_hits r) <= N.max (rq_top_k rq) 1 /\
    map h_rank (r_hits r) = map (fun i => 1 + N.of_nat i) (seq 0 (length (r_hits r))) /\
    forall h, In h (r_hits r) ->
      in_filter cf (h_frame h) = true /\
      exists f st, get tbl (h_frame h) = Some f /\ f_status f = 0 /\ passes_filters rq f = true /\
                   frame_search_text f = Ok st /\ eval pd parsed (doc_of f (lower st)) = true /\
                   h_text h = utf8 (firstn (N.to_nat (N.max (rq_snippet_chars rq) 80)) st) /\
                   h_range h = (0, len (h_text h)) /\ h_chunk_range h = h_range h.
Proof. exact filters_only_hits_valid. Qed.
Print Assumptions C10_filters_only_hits_valid.

(* without the density hypothesis: the same about a frame OF THE TABLE carrying the hit's id *)
Theorem C10_filters_only_always :
  forall parse_date frame_search_text parsed rq tbl candidate_filter r,
    filters_only parse_date frame_search_text tbl parsed rq candidate_filter = Ok r ->
    llen (r_hits r) <= N.max (rq_top_k rq) 1 /\
    map h_rank (r_hits r) = map (fun i => 1 + N.of_nat i) (seq 0 (length (r_hits r))) /\
    Forall (fo_hit_good parse_date frame_search_text parsed rq tbl) (r_hits r) /\
    forall h, In h (r_hits r) -> in_filter candidate_filter (h_frame h) = true.
Proof. exact filters_only_valid. Qed.
Print Assumptions C10_filters_only_always.

(* the two former findings as regression examples on the repaired route: the query `*` returns neither
   the Deleted frame nor the frame outside the requested scope *)
Theorem C10_filters_only_regression :
  option_map (fun r => map h_frame (r_hits r))
             (match w_search [w_frame 0 2 None; w_frame 1 0 None] (w_rq None) with Ok r => Some r | _ => None end)
    = Some [1] /\
  option_map (fun r => map h_frame (r_hits r))
             (match w_search [w_frame 0 0 (Some w_uri_a); w_frame 1 0 (Some w_uri_b)] (w_rq (Some w_uri_b)) with
              | Ok r => Some r | _ => None end)
    = Some [1].
Proof. exact filters_only_regression. Qed.
Print Assumptions C10_filters_only_regression.

(* ------------------------------------------------------------------------------------
   Non-vacuity: a three-frame table (frame 1 Deleted), the query  alpha AND NOT tag:"red"  parsed by
   C32's parser, scope mv2://docs/, an engine answer naming a stale id, the Deleted frame, a frame
   outside the scope, a tagged frame ... : exactly one hit, on "Alpha beta. Gamma alpha" + "\ntags: x". *)
From Coq Require Import String Ascii.
Fixpoint cps (s : string) : str :=
  match s with EmptyString => [] | String a r => N_of_ascii a :: cps r end.
Arguments cps _%string.

Definition nv_frame (id status : N) (uri : string) (tags : list string) (text : string) : frame :=
  mkFrame id status 0 (Some (cps uri)) None (map cps tags) [] 0%Z [] (Some (cps text)) None None None None None.
Arguments nv_frame id status uri%string tags text%string.
Definition nv_tbl : table :=
  [nv_frame 0 0 "mv2://docs/a" ["x"%string] "Alpha beta. Gamma alpha";
   nv_frame 1 0 "mv2://docs/b" ["red"%string] "alpha red";
   nv_frame 2 0 "mv2://other/c" [] "alpha elsewhere";
   nv_frame 3 0 "mv2://docs/d" [] "nothing here"].
Definition nv_rq : request := mkRq 3 80 None (Some (cps "mv2://docs/")) None.
Definition ascii_alnum (c : N) : bool :=
  ((48 <=? c) && (c <=? 57) || (65 <=? c) && (c <=? 90) || (97 <=? c) && (c <=? 122)).
Definition nv_parsed : outcome expr := fst (parse_query ascii_alnum (fun _ => None) (cps "alpha AND NOT tag:""red""")).

Example C10_nonvacuous :
  exists parsed r,
    nv_parsed = Ok parsed /\
    tantivy_post (fun _ => None) (fun _ => None) (fun l => l) false nv_tbl parsed [utf8 (cps "alpha")] nv_rq
                 [(9, 5); (1, 4); (2, 3); (3, 2); (0, 1)] = Ok (Some r) /\
    map (fun h => (h_rank h, h_frame h, h_range h, h_chunk_range h, h_matches h)) (r_hits r) = [(1, 0, (0, 23), (0, 23), 2)] /\
    payloads_utf8 nv_tbl /\ texts_in_range nv_tbl.
Proof.
  eexists. eexists. split; [vm_compute; reflexivity|]. split; [vm_compute; reflexivity|].
  split; [vm_compute; reflexivity|]. split.
  - intros f n s Hf Hp. cbn in Hf. destruct Hf as [<-|[<-|[<-|[<-|[]]]]]; discriminate Hp.
  - intros f ci Hf Hr. cbn in Hf.
    destruct Hf as [<-|[<-|[<-|[<-|[]]]]]; vm_compute in Hr; inversion Hr; vm_compute; reflexivity.
Qed.

(* chunked document: parent 0 (manifest of 2 chunks), chunks 1 and 2 with payloads of 6 and 5 bytes;
   a hit on chunk 2 lies at offset 6 inside the parent's concatenated chunks *)
Definition nv_chunk (id idx : N) (text : string) : frame :=
  mkFrame id 0 1 None None [] [] 0%Z [] (Some (cps text)) (Some 0) (Some idx) None
          (Some (N.of_nat (String.length text))) (Some (N.of_nat (String.length text), cps text)).
Arguments nv_chunk id idx text%string.
Definition nv_tbl2 : table :=
  [mkFrame 0 0 0 None None [] [] 0%Z [] (Some (cps "alpha ")) None None (Some 2) (Some 0) None;
   nv_chunk 1 0 "alpha "; nv_chunk 2 1 "gamma"].
Example C10_nonvacuous_chunk :
  exists r,
    tantivy_post (fun _ => None) (fun _ => None) (fun l => l) false nv_tbl2 (ETerm (TWord (cps "gamma")))
                 [utf8 (cps "gamma")] (mkRq 1 0 None None None) [(2, 7)] = Ok (Some r) /\
    map (fun h => (h_frame h, h_range h, h_chunk_range h, h_text h)) (r_hits r) = [(2, (6, 11), (6, 11), utf8 (cps "gamma"))].
Proof. eexists. split; vm_compute; reflexivity. Qed.

(* filters-only route: a Deleted frame, an Active frame outside the scope, an Active frame inside it *)
Example C10_nonvacuous_filters_only :
  let tbl := [w_frame 0 2 (Some w_uri_b); w_frame 1 0 (Some w_uri_a); w_frame 2 0 (Some w_uri_b)] in
  exists r, w_search tbl (w_rq (Some w_uri_b)) = Ok r /\ dense tbl /\ map h_frame (r_hits r) = [2] /\
            map h_range (r_hits r) = [(0, 5)].
Proof.
  eexists. split; [vm_compute; reflexivity|]. split; [|split; vm_compute; reflexivity].
  intros i f Hi. destruct i as [|[|[|i]]]; cbn in Hi; inversion Hi; try reflexivity.
  destruct i; discriminate.
Qed.
