(* C16 Search pagination partitions the result stream.
   Statements only; proofs live in Proofs/SearchPageProofs.v; model in Model/SearchPage.v. *)
From MV Require Import Base.Prelude Model.SearchPage Proofs.SearchPageProofs.
Local Open Scope N_scope.

(* ------------------------------------------------------------------------------------
   (1) LAYER.  The page loop of try_tantivy_search (early = true, emit = emit_tantivy) and
   of search_with_lex_fallback (early = false, emit = emit_fallback eff) -- in fact for
   EVERY emit function -- over EVERY evaluated list `ev`, every page size k (0 counts as
   1, as in the code) and every K that can hold all hits:  following next_cursor from the
   first page terminates with next_cursor absent (never an error, never out of fuel:
   at most max(1, total) pages), the pages' hits concatenate to the hits of the one
   request with top_k = K, every page reports the same total_hits (that of the one-shot
   request), and the pages are a `partition` of the slice stream: consecutive intervals
   [0,n1) [n1,n2) ... [nj,total) with strictly increasing cursors, each page holding
   exactly the hits of its interval (so nothing is repeated or skipped -- slices whose
   clamped range is empty are counted in the cursor but emit no hit), at most k hits
   per page. *)
Theorem C16_layer_pages_partition_stream :
  forall (emit : edoc -> N * N -> option hit) (early : bool) (ev : list edoc) (k K : N),
    len (stream emit ev) <= N.max K 1 ->
    exists pages one,
      follow (S (N.to_nat (total_slices ev))) (page_of early emit ev k) None = (pages, Done) /\
      page_of early emit ev K None = Ok one /\
      concat (map p_hits pages) = p_hits one /\
      Forall (fun p => p_total p = p_total one) pages /\
      partition (items emit ev) (total_slices ev) 0 pages /\
      len pages <= N.max 1 (total_slices ev) /\
      Forall (fun p => len (p_hits p) <= N.max k 1) pages.
Proof. exact layer_pagination. Qed.
Print Assumptions C16_layer_pages_partition_stream.

(* what `partition` gives: concatenation and constant total (also from ANY start offset) *)
Theorem C16_partition_concat :
  forall its total start pages,
    partition its total start pages ->
    concat (map p_hits pages) = somes (skipn start its) /\
    Forall (fun p => p_total p = total) pages.
Proof. intros. split; [eapply partition_concat | eapply partition_totals]; eassumption. Qed.
Print Assumptions C16_partition_concat.

(* resuming from any valid cursor (not only 0) partitions the rest of the stream *)
Theorem C16_layer_resume_from_any_cursor :
  forall emit early ev top_k fuel start c,
    parse_cursor c (total_slices ev) = Ok (N.of_nat start) ->
    (start <= length (items emit ev))%nat ->
    (length (items emit ev) - start < fuel)%nat ->
    exists pages,
      follow fuel (page_of early emit ev top_k) c = (pages, Done) /\
      partition (items emit ev) (total_slices ev) start pages /\
      (length pages <= Nat.max 1 (length (items emit ev) - start))%nat /\
      Forall (fun p => len (p_hits p) <= N.max top_k 1) pages.
Proof. exact follow_partition. Qed.
Print Assumptions C16_layer_resume_from_any_cursor.

(* a cursor beyond total_hits is InvalidCursor -- this is how a total_hits that shrinks
   between requests would surface *)
Theorem C16_cursor_beyond_total_rejected :
  forall early emit ev k n padded,
    total_slices ev < n -> page_of early emit ev k (Some (TInt n padded)) = Err E_CURSOR_BEYOND.
Proof. exact cursor_beyond_rejected. Qed.
Print Assumptions C16_cursor_beyond_total_rejected.

(* ------------------------------------------------------------------------------------
   (2) END TO END, as stated: REFUTED.  The evaluated list is not fixed: it is computed
   per request from the first doc_limit = max(20, 4*(max(top_k,1) + cursor)) engine
   candidates, with at most max(top_k,1) snippet slices per document, and re-sorted by a
   recency score relative to the newest document AMONG THOSE. *)

(* F-C16-1: more candidates than the first page's doc_limit.
   21 candidates with one slice each, scores 100..80, the last one a day newer; page size 1,
   one-shot 1000.  No cap binds.  The walk ends normally after 21 pages, but
   the paged sequence differs from the one-shot sequence: frame 5 is returned twice,
   frame 21 (first in the one-shot answer) never, and the first page says total_hits = 20. *)
Definition w1_cands : list cand :=
  map (fun i => mkCand (N.of_nat i) true (101 - N.of_nat i) 0 300 [[(0, 50)]]
                       (if Nat.eqb i 21 then 86400 else 0)%Z) (seq 1 21).

Theorem C16_e2e_doc_limit_refuted :
  exists (cands : list cand) (k K : N) pages one,
    cap_binds cands k K = false /\ limit_binds cands k = true /\
    follow 100 (e2e_page combined_days false None cands k) None = (pages, Done) /\
    e2e_page combined_days false None cands K None = Ok one /\
    len (p_hits one) <= K /\
    concat (map p_hits pages) <> p_hits one /\
    count_hit (5, (0, 50)) (concat (map p_hits pages)) = 2%nat /\
    count_hit (21, (0, 50)) (concat (map p_hits pages)) = 0%nat /\
    hd_error (p_hits one) = Some (21, (0, 50)) /\
    map p_total (firstn 2 pages) = [20; 20] /\ p_total one = 21.
Proof.
  exists w1_cands, 1, 1000.
  eexists. eexists.
  split; [vm_compute; reflexivity|]. split; [vm_compute; reflexivity|].
  split; [vm_compute; reflexivity|]. split; [vm_compute; reflexivity|].
  split; [vm_compute; intros H; discriminate H|].
  split; [intros H; vm_compute in H; discriminate H|].
  repeat split; vm_compute; reflexivity.
Qed.
Print Assumptions C16_e2e_doc_limit_refuted.

(* F-C16-2: a document with more snippet slices than the page size.
   One candidate whose text gives two slices; page size 1 caps it at one slice, so the
   walk returns one hit and total_hits = 1 where the one-shot request returns two. *)
Definition w2_cands : list cand :=
  [mkCand 7 true 100 0 400 [[(0, 50)]; [(0, 50); (170, 260)]] 0%Z].

Theorem C16_e2e_snippet_cap_refuted :
  exists (cands : list cand) (k K : N) pages one,
    limit_binds cands k = false /\ limit_binds cands K = false /\ cap_binds cands k K = true /\
    follow 100 (e2e_page combined_days false None cands k) None = (pages, Done) /\
    e2e_page combined_days false None cands K None = Ok one /\
    concat (map p_hits pages) = [(7, (0, 50))] /\
    p_hits one = [(7, (0, 50)); (7, (170, 260))] /\
    map p_total pages = [1] /\ p_total one = 2.
Proof.
  exists w2_cands, 1, 1000. eexists. eexists.
  repeat split; vm_compute; reflexivity.
Qed.
Print Assumptions C16_e2e_snippet_cap_refuted.

(* Outside the two classes the property holds end to end, for EVERY combined-score
   function, candidate list, candidate filter size consistent with the list, page size k
   and one-shot size K: the walk over e2e_page terminates with next_cursor absent, its
   hits concatenate to the one-shot hits, total_hits is the one-shot's on every page, the
   pages partition the slice stream of the (now fixed) evaluated list.
   Side conditions: the tantivy pipeline answers (some slice exists: otherwise the legacy
   pipeline answers, covered by theorem (1) with emit_fallback), K holds all hits.
   (No arithmetic side condition: since /repo 9b4da04 `top_k.max(1).saturating_add(cursor)`
   cannot overflow.) *)
Theorem C16_e2e_outside_known :
  forall (combined : N -> Z -> N) (has_lex : bool) (flt : option N) (cands : list cand) (k K : N),
    known_class cands k K = false ->
    flt_ok flt (len cands) ->
    let EV := resort combined (evaluate (N.max k 1) cands) in
    0 < total_slices EV ->
    len (stream emit_tantivy EV) <= N.max K 1 ->
    exists pages one,
      follow (S (N.to_nat (total_slices EV))) (e2e_page combined has_lex flt cands k) None = (pages, Done) /\
      e2e_page combined has_lex flt cands K None = Ok one /\
      concat (map p_hits pages) = p_hits one /\
      Forall (fun p => p_total p = p_total one) pages /\
      partition (items emit_tantivy EV) (total_slices EV) 0 pages /\
      len pages <= N.max 1 (total_slices EV) /\
      Forall (fun p => len (p_hits p) <= N.max k 1) pages.
Proof.
  intros combined has_lex flt cands k K Hk. unfold known_class in Hk.
  apply orb_false_iff in Hk as [Hk Hc]. apply orb_false_iff in Hk as [Hk HK].
  apply e2e_pagination; assumption.
Qed.
Print Assumptions C16_e2e_outside_known.

(* ------------------------------------------------------------------------------------
   Non-vacuity. *)
(* layer: three documents, one slice clamped to nothing (counts, emits no hit), page size 2 *)
Definition nv_ev : list edoc :=
  [mkEdoc 4 0 100 60 [(0, 20); (30, 50)] 0%Z;
   mkEdoc 9 0 0 10 [(0, 10); (10, 30); (40, 50)] 0%Z;      (* (10,30) and (40,50) clamp to empty *)
   mkEdoc 2 0 0 80 [(5, 25)] 0%Z].

Example C16_layer_nonvacuous :
  total_slices nv_ev = 6 /\
  stream emit_tantivy nv_ev = [(4, (100, 120)); (4, (130, 150)); (9, (0, 10)); (2, (5, 25))] /\
  map (fun p => (p_hits p, p_total p, p_next p)) (fst (follow 7 (page_of true emit_tantivy nv_ev 2) None)) =
    [([(4, (100, 120)); (4, (130, 150))], 6, Some 2);
     ([(9, (0, 10)); (2, (5, 25))], 6, None)] /\
  map (fun p => (p_hits p, p_next p)) (fst (follow 7 (page_of true emit_tantivy nv_ev 3) None)) =
    [([(4, (100, 120)); (4, (130, 150)); (9, (0, 10))], Some 3);
     ([(2, (5, 25))], None)].
Proof. vm_compute. repeat split. Qed.

(* end to end: 20 candidates (the doc_limit floor exactly), up to 3 slices each, page size 3,
   different timestamps: every hypothesis of C16_e2e_outside_known holds and the walk has 20 pages *)
Definition nv_cands : list cand :=
  map (fun i => mkCand (N.of_nat i) true (200 - N.of_nat i) 0 500
                       [[(0, 50)]; [(0, 50); (170, 260)]; [(0, 50); (170, 260); (380, 470)]]
                       (Z.of_nat (i mod 3) * 86400)%Z) (seq 1 20).

Example C16_e2e_nonvacuous :
  known_class nv_cands 3 1000 = false /\
  flt_ok None (len nv_cands) /\
  total_slices (resort combined_days (evaluate 3 nv_cands)) = 60 /\
  len (stream emit_tantivy (resort combined_days (evaluate 3 nv_cands))) = 60 /\
  len (fst (follow 61 (e2e_page combined_days false None nv_cands 3) None)) = 20 /\
  hd_error (stream emit_tantivy (resort combined_days (evaluate 3 nv_cands))) = Some (2, (0, 50)).
Proof. vm_compute. repeat split; try reflexivity; discriminate. Qed.
