(* C25 Tickets: strictly increasing sequence, authentic signatures only.
   Statements only; proofs in Proofs/TicketProofs.v; model Model/Ticket.v.

   Everything below holds for EVERY function `verify` (Ed25519 verify_strict is an oracle) and
   every embedded key.  `tinv s` says that the ticket held in memory is the ticket in the last
   TOC written to the file; it holds for a freshly created memory (C25_init_state_ok) and is
   preserved by every operation except unbind_memory.

   Quantifier.  The property speaks of tickets "accepted before on this memory, including
   across reopen", over "random ticket sequences ..., tampering, interleaved with reopen":
   histories over apply_ticket, apply_signed_ticket, bind_memory (which applies a ticket),
   set_memory_binding_only, commit, reopen (Drop commits when dirty) and process exit without
   commit + reopen, of any length, in any order.  unbind_memory is NOT in that quantifier: it
   is documented as "clears the binding and reverts to free tier capacity" and replaces the
   ticket by the free-tier ticket (sequence number 1); after it the file is no longer the
   control plane's "this memory".  It is modelled (OUnbind) and what it does to the sequence
   is stated as an observation (C25_observation_unbind_resets_sequence), not as a refutation. *)
From MV Require Import Base.Prelude Model.Ticket Proofs.TicketProofs.
From Coq Require Import Sorting.Sorted String.
Local Open Scope Z_scope.

(* 1. Strictly increasing, all histories, from any state whose ticket is on file.  The sequence
   numbers of the accepted tickets, in order of acceptance, are strictly increasing and all
   above the number the history started with (so nothing accepted before the history, e.g.
   before an earlier reopen, is ever matched or undercut). *)
Theorem C25_accepted_strictly_increasing :
  forall (verify : bytes -> bytes -> bytes -> bool) (pubkey : bytes) (ops : list top) (s : mstate),
    no_unbind ops = true -> tinv s ->
    StronglySorted Z.lt (cur s :: accepted verify pubkey s ops).
Proof. exact accepted_strictly_increasing. Qed.
Print Assumptions C25_accepted_strictly_increasing.

(* 1'. The property's wording: after ANY history `pre` on a fresh memory (reopens, crashes,
   commits, binds anywhere in it), a ticket-carrying operation is accepted only if its sequence
   number is greater than that of every ticket accepted during `pre`. *)
Theorem C25_accepted_only_if_greater_than_all_before :
  forall (verify : bytes -> bytes -> bytes -> bool) (pubkey : bytes) (pre : list top) (op : top) (q : Z) (s' : mstate),
    no_unbind pre = true ->
    tstep verify pubkey (final verify pubkey init_state pre) op = (s', Ok tt) -> op_seq op = Some q ->
    1 < q /\ Forall (fun q' => q' < q) (accepted verify pubkey init_state pre).
Proof. exact accepted_only_if_greater_fresh. Qed.
Print Assumptions C25_accepted_only_if_greater_than_all_before.

(* 1''. Across reopen: reopening (with the Drop commit, or after a process exit without it)
   leaves the ticket - hence the sequence number to beat - exactly as it was. *)
Theorem C25_reopen_keeps_ticket :
  forall (verify : bytes -> bytes -> bytes -> bool) (pubkey : bytes) (ops : list top),
    no_unbind ops = true ->
    let s := final verify pubkey init_state ops in
    t_ticket (s_mem (reopen s)) = t_ticket (s_mem s) /\ t_ticket (s_mem (crash_reopen s)) = t_ticket (s_mem s).
Proof. exact reopen_keeps_ticket_reachable. Qed.
Print Assumptions C25_reopen_keeps_ticket.

(* 2. A rejected ticket changes nothing: whenever apply_ticket / apply_signed_ticket /
   bind_memory does not return Ok (an error OR the overflow panic), the whole state - ticket
   and binding in memory, TOC in the file, dirty flag - is the state before.  ANY state. *)
Theorem C25_rejected_ticket_changes_nothing :
  forall (verify : bytes -> bytes -> bytes -> bool) (pubkey : bytes) (s : mstate) (op : top) (s' : mstate) (o : outcome unit),
    tstep verify pubkey s op = (s', o) -> op_seq op <> None -> o <> Ok tt -> s' = s.
Proof. exact rejected_unchanged. Qed.
Print Assumptions C25_rejected_ticket_changes_nothing.

(* 3. A signed ticket is accepted exactly when the memory is bound, the ticket names the bound
   memory, the signature has 64 bytes and verifies with the embedded key over the canonical
   payload of the ticket's own fields, and the sequence number is greater than the current
   one.  ("only if" is the property; "if" shows nothing else is demanded.)  ANY state. *)
Theorem C25_signed_accepted_iff :
  forall (verify : bytes -> bytes -> bytes -> bool) (pubkey : bytes) (s : mstate) (st : sticket),
    snd (tstep verify pubkey s (OSigned st)) = Ok tt <->
    (t_binding (s_mem s) = Some (st_mid st) /\
     (Nat.eqb (List.length (st_sig st)) 64 &&
      verify pubkey (canonical_payload (st_mid st) (tk_issuer (st_ticket st)) (tk_seq (st_ticket st))
                                       (tk_expires (st_ticket st)) (tk_cap (st_ticket st))) (st_sig st)) = true /\
     cur s < tk_seq (st_ticket st)).
Proof. exact signed_accept_iff. Qed.
Print Assumptions C25_signed_accepted_iff.

(* an accepted signed ticket installs exactly its own fields, marked verified, in memory and file *)
Theorem C25_signed_accepted_state :
  forall (verify : bytes -> bytes -> bytes -> bool) (pubkey : bytes) (s : mstate) (st : sticket) (s' : mstate),
    tstep verify pubkey s (OSigned st) = (s', Ok tt) -> s' = install s (st_ticket st) true.
Proof. exact signed_accept_state. Qed.
Print Assumptions C25_signed_accepted_state.

(* 3'. "Signature over the canonical payload" binds every field: the payload string
   {"version":1,"memory_id":"<uuid>","issuer":<JSON string>,"seq_no":n,"expires_in":n,
   "capacity_bytes":n|null} determines memory id, issuer, sequence number, expiry, capacity. *)
Theorem C25_canonical_payload_injective :
  forall (mid mid' issuer issuer' : bytes) (seq seq' : Z) (expires expires' : N) (cap cap' : option N),
    List.length mid = 16%nat -> List.length mid' = 16%nat -> bytes_ok mid = true -> bytes_ok mid' = true ->
    canonical_payload mid issuer seq expires cap = canonical_payload mid' issuer' seq' expires' cap' ->
    mid = mid' /\ issuer = issuer' /\ seq = seq' /\ expires = expires' /\ cap = cap'.
Proof. exact canonical_payload_inj. Qed.
Print Assumptions C25_canonical_payload_injective.

(* 3''. Tampering.  If a signature verifies under the embedded key for at most one message
   (what Ed25519 provides against an adversary without the private key; here a hypothesis on
   the oracle for the signature at hand), then among all signed tickets carrying it at most
   one is ever accepted, in any states: changing memory id, issuer, sequence number, expiry
   or capacity of an accepted ticket gets it rejected. *)
Theorem C25_tampered_ticket_rejected :
  forall (verify : bytes -> bytes -> bytes -> bool) (pubkey sg : bytes),
    (forall m m', verify pubkey m sg = true -> verify pubkey m' sg = true -> m = m') ->
    forall (s1 s2 : mstate) (st st' : sticket),
      st_sig st = sg -> st_sig st' = sg -> id_ok st -> id_ok st' ->
      snd (tstep verify pubkey s1 (OSigned st)) = Ok tt ->
      snd (tstep verify pubkey s2 (OSigned st')) = Ok tt ->
      st' = st.
Proof. exact tampered_rejected. Qed.
Print Assumptions C25_tampered_ticket_rejected.

(* unsigned tickets: accepted exactly when the sequence number exceeds the current one *)
Theorem C25_unsigned_accepted_iff :
  forall (verify : bytes -> bytes -> bytes -> bool) (pubkey : bytes) (s : mstate) (t : ticket),
    snd (tstep verify pubkey s (OApply t)) = Ok tt <-> cur s < tk_seq t.
Proof. exact unsigned_accept_iff. Qed.
Print Assumptions C25_unsigned_accepted_iff.

Theorem C25_init_state_ok : tinv init_state /\ cur init_state = 1.
Proof. split; reflexivity. Qed.
Print Assumptions C25_init_state_ok.

(* ---------------- observations (behaviour outside the property's quantifier) ---------------- *)

(* unbind_memory resets the sequence number to 1: a history WITH unbind accepts 2 after 5. *)
Theorem C25_observation_unbind_resets_sequence :
  exists ops, no_unbind ops = false /\
    accepted (fun _ _ _ => false) [] init_state ops = [5; 2].
Proof.
  exists [OApply (mkTicket [] 5 0 None); OUnbind; OApply (mkTicket [] 2 0 None)].
  split; vm_compute; reflexivity.
Qed.
Print Assumptions C25_observation_unbind_resets_sequence.

(* once i64::MAX has been accepted every later ticket is refused by a panic (the error value's
   `current_seq + 1` overflows with overflow checks on); the state is still unchanged *)
Theorem C25_observation_rejection_panics_at_i64_max :
  forall (verify : bytes -> bytes -> bytes -> bool) (pubkey : bytes) (s : mstate) (t : ticket),
    cur s = I64_MAX -> tk_seq t <= I64_MAX -> tstep verify pubkey s (OApply t) = (s, Panic 1%N).
Proof. exact reject_at_max_panics. Qed.
Print Assumptions C25_observation_rejection_panics_at_i64_max.

(* ---------------- non-vacuity ---------------- *)

(* the payload of the vector quoted in src/signature.rs (test_payload_json_format) *)
Example C25_payload_example :
  canonical_payload (hex "123e4567e89b12d3a456426614174000") (ascii_bytes "memvid-dashboard") 2 86400 (Some 10737418240%N)
  = ascii_bytes "{""version"":1,""memory_id"":""123e4567-e89b-12d3-a456-426614174000"",""issuer"":""memvid-dashboard"",""seq_no"":2,""expires_in"":86400,""capacity_bytes"":10737418240}".
Proof. vm_compute. reflexivity. Qed.

(* escapes (quote, backslash, newline, control character), raw 0x7f and UTF-8, negative
   number, null *)
Example C25_payload_example_escapes :
  canonical_payload (hex "00000000000000000000000000000000") [34; 92; 10; 1; 127; 195; 169]%N (-7) 0 None
  = (ascii_bytes "{""version"":1,""memory_id"":""00000000-0000-0000-0000-000000000000"",""issuer"":""\""\\\n\u0001" ++ [127; 195; 169]%N
    ++ ascii_bytes """,""seq_no"":-7,""expires_in"":0,""capacity_bytes"":null}")%list.
Proof. vm_compute. reflexivity. Qed.

(* a toy oracle: exactly one (message, signature) pair is authentic *)
Definition demo_id : bytes := hex "69601cefbea57ba3fec39b5c00000000".
Definition demo_ticket : ticket := mkTicket (ascii_bytes "memvid-dashboard") 9 86400 (Some 10737418240%N).
Definition demo_sig : bytes := repeat 7%N 64.
Definition demo_signed : sticket := mkSigned demo_ticket demo_id demo_sig.
Definition demo_verify (pk m sg : bytes) : bool :=
  bytes_eqb m (payload_of demo_signed) && bytes_eqb sg demo_sig.

Definition demo_ops : list top :=
  [ OApply (mkTicket (ascii_bytes "a") 2 0 None);                       (* accepted *)
    OApply (mkTicket (ascii_bytes "b") 2 5 (Some 1%N));                 (* equal: rejected *)
    OSigned demo_signed;                                                (* not bound: rejected *)
    OBindOnly demo_id;
    OCrash;                                                             (* binding lost, ticket kept *)
    OBind demo_id (mkTicket (ascii_bytes "t") 3 0 (Some 0%N));          (* accepted *)
    OSigned (mkSigned (mkTicket (ascii_bytes "memvid-dashboard") 10 86400 (Some 10737418240%N)) demo_id demo_sig);  (* tampered seq *)
    OSigned (mkSigned demo_ticket (hex "11111111111111111111111111111111") demo_sig);                             (* other memory *)
    OSigned (mkSigned demo_ticket demo_id (repeat 7%N 63));                                                       (* short signature *)
    OSigned demo_signed;                                                (* accepted *)
    OReopen;
    OSigned demo_signed;                                                (* replay after reopen: rejected *)
    OApply (mkTicket (ascii_bytes "c") 9223372036854775807 0 None);     (* accepted *)
    OCommit;
    OApply (mkTicket (ascii_bytes "d") 4 0 None) ].                     (* refused by the overflow panic *)

Example C25_nonvacuous :
  no_unbind demo_ops = true /\ tinv init_state /\
  accepted demo_verify [] init_state demo_ops = [2; 3; 9; 9223372036854775807] /\
  map fst (trun demo_verify [] init_state demo_ops) =
    [Ok tt; Err 1%N; Err 2%N; Ok tt; Ok tt; Ok tt; Err 2%N; Err 2%N; Err 2%N; Ok tt; Ok tt; Err 1%N; Ok tt; Ok tt; Panic 1%N] /\
  observe (final demo_verify [] init_state (firstn 11 demo_ops)) =
    (Some 9, 10737418240%N, (ascii_bytes "memvid-dashboard", 9, 86400%N, 10737418240%N, true), Some demo_id).
Proof. vm_compute. repeat split; reflexivity. Qed.

(* the hypothesis of C25_tampered_ticket_rejected is satisfiable, with an accepted ticket *)
Example C25_tamper_hypothesis_satisfiable :
  (forall m m', demo_verify [] m demo_sig = true -> demo_verify [] m' demo_sig = true -> m = m') /\
  id_ok demo_signed /\
  snd (tstep demo_verify [] (final demo_verify [] init_state (firstn 9 demo_ops)) (OSigned demo_signed)) = Ok tt.
Proof.
  split; [|split; [split|]; vm_compute; reflexivity].
  unfold demo_verify. intros m m' H H'.
  apply andb_true_iff in H as [H _]. apply andb_true_iff in H' as [H' _].
  apply Facts.bytes_eqb_spec in H. apply Facts.bytes_eqb_spec in H'. congruence.
Qed.
