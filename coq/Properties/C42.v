(* C42 Vacuum compacts without changing content.
   Statements only; proofs live in Proofs/VacuumProofs.v; the model is Model/Vacuum.v
   (Memvid::vacuum line by line at byte level; doctor's VacuumCompaction action is the same function
   followed by the Finalize commit).  Crash safety of the in-place rewrite is C02's, not stated here.

   store_inv st : frame ids are distinct; every ACTIVE frame's window is empty or lies inside
     [data start, data_end] and ends at or before cached_payload_end; data_end and
     cached_payload_end are inside the file.  Windows may overlap or be shared in any way.
   share_or_disjoint st : non-empty active windows are pairwise identical or disjoint (what open accepts:
     payload-reusing frames share their source's window).   all_disjoint st : pairwise disjoint.
   kept st st' f f' : f' has the id, status, role, metadata tag and index-text flag of f; if f is active,
     f' has f's length, reads (frame_bytes) exactly the bytes f read before, and passes
     validate_frame_bounds in st'; if f is inactive, f' has window (0, 0). *)
From MV Require Import Base.Prelude Model.Vacuum Proofs.VacuumProofs.
Local Open Scope N_scope.

(* (1) The in-place rewrite itself (read phase, then write phase) never changes content, for EVERY table
       meeting the invariant -- overlapping or shared windows included: all reads precede the first
       write, later writes land after the windows already written. *)
Theorem C42_rewrite_preserves_content :
  forall st, store_inv st ->
  exists st1, rewrite st = Ok st1 /\
    Forall2 (kept st st1) (vs_frames st) (vs_frames st1) /\
    vs_frames st1 = relocate (vs_frames st) (vs_start st) /\
    vs_data_end st1 = vs_start st + active_bytes (vs_frames st) /\
    vs_start st1 = vs_start st /\ vs_cpe st1 = vs_cpe st /\ vs_footer st1 = vs_footer st /\
    vs_lex st1 = vs_lex st /\ vs_vec st1 = vs_vec st /\ vs_pending st1 = vs_pending st /\
    vs_data_end st1 <= file_len st1 /\ file_len st <= file_len st1.
Proof. exact rewrite_correct. Qed.
Print Assumptions C42_rewrite_preserves_content.

(* (2) The property as stated -- vacuum INCLUDING its index rebuild keeps every frame -- is REFUTED:
       a state the implementation accepts (frame 0 superseded by two payload-less updates, frames 1 and 2
       active and sharing its window) on which an active frame reads other bytes afterwards and fails
       validate_frame_bounds.  vacuum writes one copy per sharing frame, the copies end beyond
       cached_payload_end, and rebuild_indexes starts the index image at cached_payload_end. *)
Theorem C42_vacuum_preserves_content_refuted :
  exists st ix st', store_inv st /\ share_or_disjoint st /\ known_overflow st = true /\
    vacuum st ix = Ok st' /\
    exists i f f', nth_error (vs_frames st) i = Some f /\ nth_error (vs_frames st') i = Some f' /\
                   vf_active f = true /\ frame_bytes st' f' <> frame_bytes st f /\ validate st' f' <> Ok tt.
Proof. exact vacuum_refuted. Qed.
Print Assumptions C42_vacuum_preserves_content_refuted.

(* (3) Outside that class (known_overflow st = false: data start + active payload bytes <=
       cached_payload_end) vacuum succeeds, every frame is kept (content, id, metadata, status; inactive
       frames get (0,0) and stay inactive), for ANY index image, and the invariant holds again. *)
Theorem C42_vacuum_preserves_content_outside_known :
  forall st ix, store_inv st -> known_overflow st = false ->
  exists st', vacuum st ix = Ok st' /\
    Forall2 (kept st st') (vs_frames st) (vs_frames st') /\
    vs_frames st' = relocate (vs_frames st) (vs_start st) /\
    vs_start st' = vs_start st /\ vs_cpe st' = vs_cpe st /\ vs_footer st <= vs_footer st' /\
    store_inv st'.
Proof. exact vacuum_correct. Qed.
Print Assumptions C42_vacuum_preserves_content_outside_known.

(* (4) The class is narrow: without window sharing it is empty (pairwise disjoint windows below
       cached_payload_end have total length <= cached_payload_end - data start). *)
Theorem C42_no_sharing_never_overflows :
  forall st, store_inv st -> all_disjoint st -> known_overflow st = false.
Proof. exact disjoint_fits. Qed.
Print Assumptions C42_no_sharing_never_overflows.

(* (5) Layout: row i of the new table is the old row with window (data start + lengths of the active
       frames before it, old length) if active -- a zero-length active frame (chunked parent) gets the
       running end and length 0 -- and (0, 0) if inactive.  Non-empty active windows are pairwise
       disjoint afterwards (frames that shared a window each get their own copy: the bytes ARE
       duplicated), lie in [data start, data start + active bytes], which is below cached_payload_end:
       the payload region does not grow. *)
Theorem C42_layout_contiguous :
  forall st ix, store_inv st -> known_overflow st = false ->
  exists st', vacuum st ix = Ok st' /\
    (forall i f, nth_error (vs_frames st) i = Some f ->
       nth_error (vs_frames st') i =
         Some (if vf_active f
               then set_window f (vs_start st + active_bytes (firstn i (vs_frames st))) (vf_len f)
               else set_window f 0 0)) /\
    pairwise win_disjoint (live (vs_frames st')) /\
    (forall f', In f' (live (vs_frames st')) ->
       vs_start st <= vf_off f' /\ vf_off f' + vf_len f' <= vs_start st + active_bytes (vs_frames st)) /\
    vs_start st + active_bytes (vs_frames st) <= vs_cpe st.
Proof. exact vacuum_layout. Qed.
Print Assumptions C42_layout_contiguous.

(* (6) What search, timeline and the index rebuild read of the table (id, status, role, metadata tag,
       index-text flag) is unchanged, so the rebuilt Tantivy document set (active frames with text), the
       time index (active Document frames) and ANY other function of that view are the same. *)
Theorem C42_views_unchanged :
  forall st ix, store_inv st -> known_overflow st = false ->
  exists st', vacuum st ix = Ok st' /\
    table_view (vs_frames st') = table_view (vs_frames st) /\
    lex_docs (vs_frames st') = lex_docs (vs_frames st) /\
    time_entries (vs_frames st') = time_entries (vs_frames st) /\
    (forall (A : Type) (rebuild_from : list (N * N * N * N * bool) -> A),
        rebuild_from (table_view (vs_frames st')) = rebuild_from (table_view (vs_frames st))).
Proof. exact vacuum_views. Qed.
Print Assumptions C42_views_unchanged.

(* (7) "Verifies as Passed" right after vacuum() is REFUTED on every lex-enabled memory: the index
       rebuild appends one lex batch record to the log and vacuum records no checkpoint, so verify's
       WalPendingRecords check fails until the next commit / reopen. *)
Theorem C42_verify_after_vacuum_refuted :
  forall st ix st', vs_lex st = true -> vacuum st ix = Ok st' -> verify_passed st' = false.
Proof. exact vacuum_verify_lex. Qed.
Print Assumptions C42_verify_after_vacuum_refuted.

Theorem C42_verify_after_vacuum_outside_known :
  forall st ix st', vs_lex st = false -> vacuum st ix = Ok st' -> verify_passed st' = true.
Proof. exact vacuum_verify_nolex. Qed.
Print Assumptions C42_verify_after_vacuum_outside_known.

(* through doctor the Finalize commit checkpoints the log: no pending record is left *)
Theorem C42_verify_after_doctor_vacuum :
  forall st ix again st', doctor_vacuum st ix again = Ok st' -> verify_passed st' = true.
Proof. exact doctor_verify. Qed.
Print Assumptions C42_verify_after_doctor_vacuum.

(* (8) vacuum never gives space back: the footer offset (where the TOC is written) does not decrease,
       because the index image is rewritten at the OLD cached_payload_end and footer_offset is a max. *)
Theorem C42_file_never_shrinks :
  forall st ix st', vacuum st ix = Ok st' -> vs_footer st <= vs_footer st'.
Proof. exact vacuum_footer. Qed.
Print Assumptions C42_file_never_shrinks.

(* ---- non-vacuity ---- *)
(* a deleted frame, an active frame, a zero-length active frame (chunked parent), a superseded frame and
   the active frame that reuses its window (payload-less update) *)
Definition ex_frames : list vframe :=
  [mkVF 0 2 100 5 0 20 true; mkVF 1 0 105 3 0 21 true; mkVF 2 0 108 0 0 22 true;
   mkVF 3 1 108 2 0 23 false; mkVF 4 0 108 2 1 24 false].
Definition ex : vstate := mkVS 100 ex_frames [1; 1; 1; 1; 1; 2; 3; 4; 5; 6; 60; 61] 110 110 110 true true 3.

Example C42_nonvacuous_inv : store_inv ex /\ all_disjoint ex /\ share_or_disjoint ex /\ known_overflow ex = false.
Proof.
  split; [|split; [|split]].
  - constructor; cbn [ex vs_frames vs_data_end vs_cpe vs_start ex_frames map vf_id].
    + repeat constructor; cbn; intuition discriminate.
    + intros f [<-|[<-|[<-|[<-|[<-|[]]]]]] Ha; try discriminate Ha;
        first [left; reflexivity | right; unfold MAX_FRAME_BYTES; cbn; lia].
    + unfold file_len; cbn; lia.
    + lia.
    + unfold file_len; cbn; lia.
  - unfold all_disjoint. cbn. split; [|split; [|exact I]]; [intros y [<-|[]]; left; cbn; lia | intros y []].
  - unfold share_or_disjoint. cbn. split; [|split; [|exact I]]; [intros y [<-|[]]; right; left; cbn; lia | intros y []].
  - reflexivity.
Qed.

Example C42_nonvacuous_run :
  exists st', vacuum ex [8; 8] = Ok st' /\
    map (fun f => (vf_id f, vf_status f, vf_off f, vf_len f)) (vs_frames st') =
      [(0, 2, 0, 0); (1, 0, 100, 3); (2, 0, 103, 0); (3, 1, 0, 0); (4, 0, 103, 2)] /\
    map (frame_bytes st') (vs_frames st') = [[]; [2; 3; 4]; []; []; [5; 6]] /\
    vs_data_end st' = 110 /\ vs_pending st' = 1 /\ verify_passed st' = false.
Proof. eexists. split; [vm_compute; reflexivity|]. vm_compute. repeat split; reflexivity. Qed.
